#!/bin/bash
# tools/campaign.sh <tier> <seed>… : unchanged-tree robustness: every property under each seed (properties in parallel).
# Prints only lines that are not OK.
cd /verif
tier=$1; shift
git -C /repo status --short | grep -q . && { echo "/repo is not clean"; exit 2; }
for sd in "$@"; do
  for p in C01 C02 C03 C04 C05 C06 C07 C08 C09 C10 C11 C12 C13 C14 C15 C16 C17 C18 C19 C20; do
    ( VERIF_SEED=$sd ./check $p $tier > /tmp/campaign.$p.$sd.out 2>&1; echo "$p seed=$sd rc=$? $(grep -c VIOLATION /tmp/campaign.$p.$sd.out)" ) &
    while [ $(jobs -r | wc -l) -ge ${JOBS:-6} ]; do sleep 0.5; done
  done
  wait
done 2>&1 | grep -v "rc=0 0$"
echo "campaign done: tier=$tier seeds=$*"
