#!/bin/bash
# tools/round.sh "<ID> <pkgdir> <test regex> <check ids…>" … : confirm each seed in /tmp/wt/<ID>, then apply it to /repo and run the checks.
cd /verif
for spec in "$@"; do
  set -- $spec; id=$1; pkg=$2; rx=$3; shift 3
  echo "######## $id"
  [ -f /tmp/wt/$id.patch.diff ] || { echo "no patch yet"; continue; }
  tools/confirmseed.sh $id $pkg "$rx" 2>&1 | grep -v "^ok\|Error Trace\|Error:\|expected\|actual\|Test:\|^\s*$\|timeout_test.go\|TestBunch\|TestCancelMany\|golibs/timeout\|^FAIL$\|demo files" | tr '\n' ' '; echo
  timeout 1500 tools/tryseed.sh /tmp/wt/$id.patch.diff "$@" 2>&1 | grep -v "^KNOWN" | cut -c1-300
done
