#!/bin/bash
# tools/seedsweep.sh : every stored seeded change must be reported by the check of the property it breaks.
# Applies each patch to /repo, runs ./check <id> quick, undoes it.  Prints one line per seed.
cd /verif
git -C /repo status --short | grep -q . && { echo "/repo is not clean"; exit 2; }
for d in seeded/*/; do
  n=$(basename $d)
  # SWEEP_FILTER: an extended regular expression on the seed's name (default: all)
  if [ -n "$SWEEP_FILTER" ] && ! echo "$n" | grep -Eq "$SWEEP_FILTER"; then continue; fi
  id=$(python3 -c "import json;m=json.load(open('$d/meta.json'));print(m.get('sweep_check', m['breaks_property']))")
  git -C /repo apply /verif/$d/patch.diff 2>/dev/null || { echo "$n: PATCH DOES NOT APPLY"; continue; }
  out=$(timeout 1500 ./check $id quick 2>&1 | grep -v '^KNOWN' | grep 'VIOLATION\|^OK\|BROKEN' | head -1 | cut -c1-120)
  git -C /repo checkout -- .
  echo "$n [$id]: $out"
done
git -C /repo status --short
