#!/bin/bash
# tools/tryseed.sh <patch.diff> <Cxx> [<Cyy> ...] : apply a seeded change to /repo, run the checks, undo it.
patch=$1; shift
cd /repo && git apply --check "$patch" || { echo "patch does not apply"; exit 2; }
git apply "$patch"
cd /verif
for p in "$@"; do
  echo "=== $p"
  ./check $p quick 2>&1 | grep -v 'ERROR\|WARN' | tail -4 | cut -c1-600
done
git -C /repo checkout -- . ; git -C /repo status --short | head -3
