#!/bin/bash
# tools/tryseed.sh <patch.diff> <Cxx> [<Cyy> ...] : apply a seeded change to /repo, run the checks, undo it
# (also when interrupted or timed out from outside).
patch=$1; shift
cd /repo && git apply --check "$patch" || { echo "patch does not apply"; exit 2; }
trap 'git -C /repo checkout -- . ; git -C /repo status --short | head -3' EXIT INT TERM
git apply "$patch"
cd /verif
for p in "$@"; do
  echo "=== $p"
  timeout 1500 ./check $p quick 2>&1 | grep -v 'ERROR\|WARN' | tail -4 | cut -c1-600
done
