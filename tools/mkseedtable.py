#!/usr/bin/env python3
"""tools/mkseedtable.py: rewrites the table of seeded changes in DESIGN.md (between the markers
<!-- seeds:begin --> and <!-- seeds:end -->) from seeded/*/meta.json."""
import json, glob, os, re
rows = []
for d in sorted(glob.glob('/verif/seeded/*/')):
    m = json.load(open(d + 'meta.json'))
    name = os.path.basename(d.rstrip('/'))
    v = m['verdict'].replace('|', '/').replace('\n', ' ')
    missed = v.lower().startswith('missed') or 'would have been missed' in v or 'only as correspondence-broken' in v.lower()
    if missed:
        mm = re.match(r"(missed at first|missed-then-caught|would have been missed|missed)(.*)$", v, re.S)
        v = ('**' + mm.group(1) + '**' + mm.group(2)) if mm else '**missed at first**: ' + v
    rows.append((name, m['breaks_property'], m['needs_to_manifest'].replace('|', '/'), v))
tbl = ["| seeded change | property | needs | outcome (which check reports it; what had to be strengthened) |", "|---|---|---|---|"]
for r in rows:
    tbl.append("| %s | %s | %s | %s |" % r)
n = len(rows); nm = sum(1 for r in rows if r[3].startswith('**'))
txt = "\n".join(tbl) + f"\n\n{n} seeded changes; {nm} of them were missed (or would have been) by the checks as they stood when the change arrived — each of those led to the strengthening named in its row; `tools/seedsweep.sh` re-applies all of them.\n"
p = '/verif/DESIGN.md'
t = open(p).read()
b, e = '<!-- seeds:begin -->', '<!-- seeds:end -->'
if b in t:
    t = t[:t.index(b) + len(b)] + "\n" + txt + t[t.index(e):]
    open(p, 'w').write(t)
    print("table rewritten:", n, "rows,", nm, "missed-at-first")
else:
    print("markers not found")
