#!/bin/bash
# tools/confirmseed.sh <Cxx> <pkgdir> [<test name regex>] : confirm a seeded change in its scratch worktree /tmp/wt/<Cxx>:
#  (1) demo FAILS with the change, (2) demo PASSES without, (3) the pinned suite passes with the change
#  (demo moved away).  Leaves the worktree with the change applied.  Never touches /repo or the demo copy.
export GOFLAGS=-mod=mod GOPROXY=off GOSUMDB=off GOTOOLCHAIN=local
id=$1; pkg=$2; wt=/tmp/wt/$id; RUN=""; [ -n "$3" ] && RUN="-run $3"
cd $wt || exit 2
git diff > /tmp/wt/$id.confirm.diff
cmp -s /tmp/wt/$id.confirm.diff /tmp/wt/$id.patch.diff || echo "NOTE: worktree diff differs from patch.diff"
demos=$(git ls-files --others --exclude-standard)
echo "demo files: $demos"
echo "--- (1) with change: demo must FAIL"
timeout 120 go test -vet=off -count=1 $RUN ./$pkg/ 2>&1 | tail -3
git apply -R /tmp/wt/$id.confirm.diff     # (git stash is shared between worktrees: never use it here)
echo "--- (2) without change: demo must PASS"
timeout 120 go test -vet=off -count=1 $RUN ./$pkg/ 2>&1 | tail -3
git apply /tmp/wt/$id.confirm.diff
echo "--- (3) suite with change, demo moved away"
mkdir -p /tmp/wt/$id.hold; for f in $demos; do mv $f /tmp/wt/$id.hold/$(echo $f | tr / _); done
timeout 1500 go test -vet=off -count=1 ./... 2>&1 | grep -v "no test files" | tail -20
i=0; for f in $demos; do mv /tmp/wt/$id.hold/$(echo $f | tr / _) $f; done; rmdir /tmp/wt/$id.hold
