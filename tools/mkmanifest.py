#!/usr/bin/env python3
"""Regenerates /verif/MANIFEST.json from checklib/props.py (single source of truth for the checks)."""
import json, os, sys
ROOT = os.path.dirname(os.path.dirname(os.path.abspath(__file__)))
sys.path.insert(0, ROOT)
from checklib import props

TEXT = props.MANIFEST_TEXT
checks = []
for pid in sorted(props.PROPS):
    cfg = props.PROPS[pid]
    if not cfg.get("claimed", True):
        continue
    t = TEXT[pid]
    checks.append({
        "property_id": pid,
        "quick_cmd": f"./check {pid} quick",
        "thorough_cmd": f"./check {pid} thorough",
        "evidence_file": f"evidence/{pid}.json",
        "replay_cmd_template": "./check replay {path}",
        "engine": "lean-proof+correspondence",
        "level_claimed": {"category": "proof", "text": t["level"], "design_ref": f"DESIGN.md §3 {pid}"},
        "level_note": t["note"],
        "technique": t["technique"],
    })
claimed = {c["property_id"] for c in checks}
na = [{"property_id": p, "reason": r} for p, r in sorted(props.NOT_CLAIMED.items()) if p not in claimed]
m = {
    "version": 1,
    "setup_cmd": "./check setup",
    "hooks": {
        "guard": "verif",
        "enable": "go build -tags verif -overlay /verif/.work/overlay.json — package-internal accessors (/verif/harness/overlay/*.go.txt, `//go:build verif`) are ADDED to /repo packages at build time and the files listed in checklib/core.py (INSTRUMENT_CLOCK / INSTRUMENT_TIMERS / INSTRUMENT_SECTIONS) are replaced by a textually instrumented copy of the CURRENT source (time.Now/Until/Since -> verifNow, time.NewTimer -> verifNewTimer, lock/unlock sites announced through verifBefore/verifEnter/verifLeave; all no-ops unless the harness installs a hook); nothing is committed to /repo",
        "baseline_off_cmd": "cd /repo && GOFLAGS=-mod=mod go test -json -vet=off -count=1 -timeout 25m ./...",
        "source_commits": [],
        "add_only": True,
    },
    "engines": [
        {"name": "lean-proof+correspondence", "path": "check", "serves_properties": sorted(claimed),
         "kind_free_text": "Lean 4 theorems about executable I-models/Specs (lean/GolibsVerif, kernel-checked, axiom-audited) + model/code correspondence (harness/cmd/seq, lean/Driver) + regenerated definitions (harness/cmd/extract)"},
    ],
    "checks": checks,
    "not_applicable": na,
    "notes": "fix: commits in /repo and known findings are listed in known_findings.json; see DESIGN.md",
}
json.dump(m, open(os.path.join(ROOT, "MANIFEST.json"), "w"), indent=1, ensure_ascii=False)
print("checks:", sorted(claimed), "not claimed:", [x["property_id"] for x in na])
