#!/usr/bin/env python3
"""tools/saveseed.py <seed-name> <property> <needs> <ran> [caught|missed-then-caught|...]: copies /tmp/wt/<Cxx>.patch.diff,
the demo files and the agent's report into /verif/seeded/<seed-name>/ with a meta.json."""
import sys, os, shutil, json, glob
name, prop, needs, ran, verdict = sys.argv[1:6]
src = sys.argv[6] if len(sys.argv) > 6 else prop
d = f"/verif/seeded/{name}"
if os.path.exists(os.path.join(d, "meta.json")):
    sys.exit(f"a seed named {name} exists already (a duplicate change?): choose another name or skip it")
os.makedirs(d, exist_ok=True)
shutil.copy(f"/tmp/wt/{src}.patch.diff", f"{d}/patch.diff")
for f in glob.glob(f"/tmp/wt/{src}.demo/**", recursive=True):
    if os.path.isfile(f):
        # (demo files may sit in sub-directories: flatten, keeping the path in the name)
        rel = os.path.relpath(f, f"/tmp/wt/{src}.demo").replace(os.sep, "__")
        shutil.copy(f, os.path.join(d, rel))
if os.path.exists(f"/tmp/wt/{src}.report.md"):
    shutil.copy(f"/tmp/wt/{src}.report.md", f"{d}/agent_report.md")
json.dump({"breaks_property": prop, "needs_to_manifest": needs, "what_was_run": ran, "verdict": verdict,
           "apply": f"git -C /repo apply /verif/seeded/{name}/patch.diff", "undo": "git -C /repo checkout -- ."},
          open(f"{d}/meta.json", "w"), indent=1)
print("saved", d)
