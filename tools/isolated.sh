#!/bin/bash
# tools/isolated.sh <name> <command…> : run a command (a seed sweep, a campaign) against PRIVATE copies of /repo and
# /verif, bind-mounted over the real paths inside a private mount namespace, so that the real trees stay free for
# other work.  The copies live under /tmp/iso.<name> and are removed afterwards; stdout/stderr go to the caller.
name=$1; shift
d=/tmp/iso.$name
rm -rf $d; mkdir -p $d
cp -a /repo $d/repo
rsync -a --exclude .work --exclude replays /verif/ $d/verif/
mkdir -p $d/verif/.work $d/verif/replays
( cd $d/repo && git worktree prune >/dev/null 2>&1; git checkout -q -- . )
unshare -m bash -c "mount --bind $d/repo /repo && mount --bind $d/verif /verif && cd /verif && $*"
rc=$?
rm -rf $d
exit $rc
