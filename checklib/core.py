import sys, os, subprocess, json, re, time, fcntl, shutil, glob, hashlib

VERIF = os.path.dirname(os.path.dirname(os.path.abspath(__file__)))
REPO = "/repo"
LEAN = os.path.join(VERIF, "lean")
HARNESS = os.path.join(VERIF, "harness")
WORK = os.path.join(VERIF, ".work")
DRIVER = os.path.join(LEAN, ".lake", "build", "bin", "driver")
ALLOWED_AXIOMS = {"propext", "Classical.choice", "Quot.sound"}
FORBIDDEN = re.compile(r"\b(sorry|admit|native_decide|bv_decide|implemented_by|unsafe)\b|^\s*axiom\s|maxHeartbeats\s+0\b", re.M)

GOENV = dict(os.environ, GOFLAGS="-mod=mod", GOPROXY="off", GOSUMDB="off", GOTOOLCHAIN="local",
             CGO_ENABLED=os.environ.get("CGO_ENABLED", "0"))


class Broken(Exception):
    """the machinery itself failed (exit 2, no verdict)"""


def log(*a):
    print(*a, flush=True)


def sh(cmd, cwd=None, env=None, timeout=None, inp=None):
    p = subprocess.run(cmd, cwd=cwd, env=env, timeout=timeout, input=inp, stdout=subprocess.PIPE,
                       stderr=subprocess.STDOUT, text=True)
    return p.returncode, p.stdout


def stage_limit(tier):
    """wall-clock bound of one harness process (a quick component needs well under two minutes, a thorough one
    under twenty): a harness that the watchdog cannot end — its own goroutine blocked outside a guarded call — is
    killed and REPORTED (`mon HANG`) instead of holding the check for an hour"""
    return 900 if tier == "quick" else 4800


def run_harness(args, out_path, stats_path, timeout):
    """run a harness process under an address-space limit; if it dies (panic outside a guarded call,
    out of memory, watchdog exit 3 after a call into the real code did not return, timeout) the lines
    recorded so far are kept and a synthetic monitor line is appended, so that the death is REPORTED by
    the normal diff path instead of breaking the check.  Returns (crashed, description)."""
    import resource

    def lim():
        try:
            resource.setrlimit(resource.RLIMIT_AS, (24 << 30, 24 << 30))
        except Exception:
            pass
    env = dict(GOENV)
    env.setdefault("GOMEMLIMIT", "8GiB")
    try:
        p = subprocess.run(args, env=env, timeout=timeout, stdout=subprocess.PIPE, stderr=subprocess.STDOUT, text=True, preexec_fn=lim)
        rc, out = p.returncode, p.stdout
    except subprocess.TimeoutExpired as e:
        rc, out = -1, "timeout after %ss" % timeout + ((e.stdout or b"").decode("utf-8", "replace")[-800:] if isinstance(e.stdout, bytes) else (e.stdout or "")[-800:])
    if rc == 0:
        return False, ""
    tail = [l for l in out.strip().split("\n") if l.strip()]
    why = "; ".join(tail[:3] + tail[-2:])[:600] if tail else ""
    # drop a truncated last line, then append the synthetic monitor line (exit 3 = the watchdog already wrote `mon HANG`)
    data = open(out_path).read() if os.path.exists(out_path) else ""
    if data and not data.endswith("\n"):
        data = data[:data.rfind("\n") + 1]
    if rc == -1:
        data += "mon HANG | the harness process did not finish within %ss while driving the real code (killed): %s\n" % (timeout, why.replace("|", "/"))
    elif rc != 3:
        data += "mon CRASH | the harness process died while driving the real code (rc=%d): %s\n" % (rc, why.replace("|", "/"))
    with open(out_path, "w") as f:
        f.write(data)
    if not os.path.exists(stats_path) or os.path.getsize(stats_path) == 0:
        cases = data.count("\ncase ") + (1 if data.startswith("case ") else 0)
        json.dump(dict(component="?", cases=cases, ops=0, distinct_cases=cases, distinct_nontrivial=0, op_kinds={}, outcomes={},
                       branches={}, sizes={}, samples=[], per_op=False, notes=["harness died: statistics reconstructed"]), open(stats_path, "w"))
    return True, "rc=%d %s" % (rc, why)


def crash_diff(d):
    """diffs no per-property `ignore` filter may drop: harness death, and `mon MODEL-…` lines by which a
    harness says that the code did something the model has no notion of (correspondence broken, not by
    itself a failing input)"""
    return d["op"].startswith("mon HANG") or d["op"].startswith("mon CRASH") or d["op"].startswith("mon MODEL")


class Lock:
    def __init__(self, name):
        os.makedirs(WORK, exist_ok=True)
        self.path = os.path.join(WORK, name + ".lock")

    def __enter__(self):
        self.f = open(self.path, "w")
        fcntl.flock(self.f, fcntl.LOCK_EX)

    def __exit__(self, *a):
        fcntl.flock(self.f, fcntl.LOCK_UN)
        self.f.close()


# ------------------------------------------------------------------------------------------------
# Lean side
# ------------------------------------------------------------------------------------------------

def strip_lean_comments(src):
    out, i, depth, n = [], 0, 0, len(src)
    while i < n:
        if src.startswith("/-", i):
            depth += 1; i += 2; continue
        if depth and src.startswith("-/", i):
            depth -= 1; i += 2; continue
        if depth:
            i += 1; continue
        if src.startswith("--", i):
            j = src.find("\n", i)
            i = n if j < 0 else j
            continue
        if src[i] == '"':
            j = i + 1
            while j < n and src[j] != '"':
                j += 2 if src[j] == "\\" else 1
            out.append('""'); i = j + 1; continue
        out.append(src[i]); i += 1
    return "".join(out)


def lean_files_of(modules):
    """transitive closure of project-local imports"""
    seen, todo = [], list(modules)
    while todo:
        m = todo.pop()
        if m in seen:
            continue
        path = os.path.join(LEAN, m.replace(".", "/") + ".lean")
        if not os.path.exists(path):
            continue
        seen.append(m)
        for line in open(path):
            mm = re.match(r"\s*import\s+(GolibsVerif\.\S+|Driver\.\S+)", line)
            if mm:
                todo.append(mm.group(1))
    return seen


def theorem_names(module, include_private=False):
    path = os.path.join(LEAN, module.replace(".", "/") + ".lean")
    src = strip_lean_comments(open(path).read())
    names, ns = [], []
    for line in src.split("\n"):
        m = re.match(r"\s*namespace\s+(\S+)", line)
        if m:
            ns.append(m.group(1)); continue
        m = re.match(r"\s*end\s+(\S+)", line)
        if m and ns and ns[-1] == m.group(1):
            ns.pop(); continue
        m = re.match(r"\s*(?:@\[[^\]]*\]\s*)?(private\s+|protected\s+)?(theorem|lemma)\s+([^\s:({\[]+)", line)
        if m:
            if (m.group(1) or "").startswith("private") and not include_private:
                continue   # not nameable from outside; covered transitively by the public theorems using it
            nm = m.group(3)
            if nm.startswith("_root_."):
                names.append(nm[len("_root_."):])
            else:
                names.append(".".join(ns + [nm]))
    return names


def lean_build(targets):
    rc, out = sh(["lake", "build"] + targets, cwd=LEAN, timeout=3000)
    return rc, out


def lean_audit(pid, prop_modules, all_modules):
    """returns dict(obligations, discharged, axioms, problems[])"""
    problems = []
    # forbidden tokens anywhere in the modules the property depends on
    for m in all_modules:
        path = os.path.join(LEAN, m.replace(".", "/") + ".lean")
        src = strip_lean_comments(open(path).read())
        for mm in FORBIDDEN.finditer(src):
            problems.append(f"forbidden token {mm.group(0).strip()!r} in {m}")
    thms = []
    for m in all_modules:
        if ".Props." in m or ".Lemmas." in m or ".Generated." in m:
            thms += [(m, t) for t in theorem_names(m, include_private=True)]
    prop_thms = [t for m in prop_modules for t in theorem_names(m)]
    os.makedirs(os.path.join(WORK, pid), exist_ok=True)
    audit = os.path.join(WORK, pid, "Audit.lean")
    with open(audit, "w") as f:
        for m in prop_modules:
            f.write(f"import {m}\n")
        for t in prop_thms:
            f.write(f"#print axioms {t}\n")
    rc, out = sh(["lake", "env", "lean", audit], cwd=LEAN, timeout=1200)
    if rc != 0:
        problems.append("axiom audit failed to run: " + out[-800:])
    axioms_used = set()
    audited = 0
    for mm in re.finditer(r"'([^\n]+?)' depends on axioms: \[([^\]]*)\]", out):
        audited += 1
        ax = {a.strip() for a in mm.group(2).replace("\n", " ").split(",") if a.strip()}
        axioms_used |= ax
        bad = ax - ALLOWED_AXIOMS
        if bad:
            problems.append(f"theorem {mm.group(1)} depends on disallowed axioms {sorted(bad)}")
    audited += len(re.findall(r"does not depend on any axioms", out))
    if audited != len(prop_thms):
        problems.append(f"axiom audit covered {audited} of {len(prop_thms)} property theorems")
    return dict(obligations=len(thms), discharged=len(thms) if not problems else 0,
                property_theorems=prop_thms, axioms=sorted(axioms_used), problems=problems)


# ------------------------------------------------------------------------------------------------
# Go side
# ------------------------------------------------------------------------------------------------

# files whose `time.Now()` is redirected to the package's verifNow() (virtual clock); the copy is
# regenerated from the CURRENT source on every build, so the checked program is derived from /repo
INSTRUMENT_CLOCK = ["container/lru/expirable.go", "kvs/inmem/inmem.go", "kvs/redis/redis.go", "timeout/timeout.go"]
# files whose time.NewTimer is redirected to the package's verifNewTimer (harness-controlled timers)
INSTRUMENT_TIMERS = ["timeout/timeout.go", "kvs/inmem/inmem.go"]


# files whose mutex-protected regions are announced to the harness: `X.lock.Lock()` is followed by
# verifEnter(X, site) and every `X.lock.Unlock()` is preceded by verifLeave(X, site) (both defined in the
# package's overlay accessor; no-ops unless the harness installs a hook).  Only calls are INSERTED.
INSTRUMENT_SECTIONS = ["kvs/inmem/inmem.go", "container/lru/ecache.go", "timeout/timeout.go", "container/bytes/blocks.go"]


def instrument_text(rel, txt):
    notes = []
    if rel in INSTRUMENT_CLOCK:
        n = txt.count("time.Now()") + len(re.findall(r"time\.(Until|Since)\(", txt))
        txt = txt.replace("time.Now()", "verifNow()")
        txt = re.sub(r"time\.Until\(([^()]*(?:\([^()]*\))?[^()]*)\)", r"(\1).Sub(verifNow())", txt)
        txt = re.sub(r"time\.Since\(([^()]*(?:\([^()]*\))?[^()]*)\)", r"verifNow().Sub(\1)", txt)
        notes.append("%d clock read(s) redirected to verifNow()" % n)
    if rel in INSTRUMENT_TIMERS:
        n = txt.count("time.NewTimer(")
        txt = txt.replace("time.NewTimer(", "verifNewTimer(")
        notes.append("%d time.NewTimer call(s) redirected to verifNewTimer()" % n)
    if rel in INSTRUMENT_SECTIONS:
        out, k = [], 0
        fn, nlock = "?", 0
        for i, line in enumerate(txt.split("\n"), 1):
            mf = re.match(r"^func (?:\([^)]*\) )?(\w+)", line)
            if mf:
                fn, nlock = mf.group(1), 0
            m = re.match(r"^(\s*)defer (\w+)\.lock\.Unlock\(\)\s*$", line)
            if m:
                out.append('%sdefer func() { verifLeave(%s, "%s#%d"); %s.lock.Unlock() }()' % (m.group(1), m.group(2), fn, nlock, m.group(2))); k += 1; continue
            m = re.match(r"^(\s*)(\w+)\.lock\.Unlock\(\)\s*$", line)
            if m:
                out.append('%sverifLeave(%s, "%s#%d"); %s.lock.Unlock()' % (m.group(1), m.group(2), fn, nlock, m.group(2))); k += 1; continue
            m = re.match(r"^(\s*)(\w+)\.lock\.Lock\(\)\s*$", line)
            if m:
                nlock += 1
                out.append('%sverifBefore(%s, "%s#%d"); %s.lock.Lock(); verifEnter(%s, "%s#%d")' % (m.group(1), m.group(2), fn, nlock, m.group(2), m.group(2), fn, nlock)); k += 1; continue
            out.append(line)
        txt = "\n".join(out)
        notes.append("%d lock/unlock site(s) announced" % k)
    txt += "\n// verif: " + "; ".join(notes) + "\n"
    if re.search(r'^\s*"time"\s*$', txt, re.M):
        txt += "var _ = time.Second\n"
    return txt


def instrument():
    d = os.path.join(WORK, "instr")
    shutil.rmtree(d, ignore_errors=True)
    os.makedirs(d, exist_ok=True)
    for rel in sorted(set(INSTRUMENT_CLOCK) | set(INSTRUMENT_SECTIONS)):
        src = os.path.join(REPO, rel)
        if not os.path.exists(src):
            continue
        txt = instrument_text(rel, open(src).read())
        with open(os.path.join(d, rel[:-3].replace("/", "__") + ".go"), "w") as f:
            f.write(txt)


def write_overlay():
    """overlay.json: package-internal accessors (guard tag `verif`) added to /repo packages without
    touching /repo"""
    os.makedirs(WORK, exist_ok=True)
    instrument()
    repl = {}
    for src in sorted(glob.glob(os.path.join(HARNESS, "overlay", "*.go.txt"))):
        base = os.path.basename(src)[:-len(".go.txt")]
        # file name: <pkgpath with __ for />__access  e.g. container__iterable__access.go.txt
        parts = base.split("__")
        pkgdir = "/".join(parts[:-1])
        repl[os.path.join(REPO, pkgdir, "verif_" + parts[-1] + ".go")] = src
    # instrumented copies produced by cmd/instr replace the original file
    for src in sorted(glob.glob(os.path.join(WORK, "instr", "*.go"))):
        rel = os.path.basename(src)[:-3].replace("__", "/") + ".go"
        repl[os.path.join(REPO, rel)] = src
    path = os.path.join(WORK, "overlay.json")
    with open(path, "w") as f:
        json.dump({"Replace": repl}, f, indent=1)
    return path


def go_build(cmds=("seq",)):
    gosum = os.path.join(HARNESS, "go.sum")
    if os.path.exists(os.path.join(REPO, "go.sum")):
        base = open(os.path.join(REPO, "go.sum")).read()
        extra = ""
        ex = os.path.join(HARNESS, "go.sum.extra")
        if os.path.exists(ex):
            extra = open(ex).read()
        if not os.path.exists(gosum) or open(gosum).read() != base + extra:
            open(gosum, "w").write(base + extra)
    ov = write_overlay()
    os.makedirs(os.path.join(WORK, "bin"), exist_ok=True)
    for c in cmds:
        rc, out = sh(["go", "build", "-tags", "verif", "-overlay", ov, "-o", os.path.join(WORK, "bin", c), "./cmd/" + c],
                     cwd=HARNESS, env=GOENV, timeout=900)
        if rc != 0:
            return rc, out
    return 0, ""


# ------------------------------------------------------------------------------------------------
# Correspondence
# ------------------------------------------------------------------------------------------------

DIFF_RE = re.compile(r"^DIFF (\d+) case=(\S+) :: (.*?) :: (.*)$")


def run_driver(component, ops_path, timeout=1800):
    with open(ops_path) as f:
        p = subprocess.run([DRIVER, component], stdin=f, stdout=subprocess.PIPE, stderr=subprocess.STDOUT, text=True, timeout=timeout)
    diffs, done = [], None
    for line in p.stdout.split("\n"):
        m = DIFF_RE.match(line)
        if m:
            diffs.append(dict(line=int(m.group(1)), case=m.group(2), op=m.group(3), detail=m.group(4)))
        elif line.startswith("DONE"):
            done = dict(kv.split("=") for kv in line.split()[1:])
    if done is None:
        raise Broken(f"driver {component} did not finish: rc={p.returncode} {p.stdout[-500:]}")
    return diffs, done


def extract_case(ops_path, case_id, upto_line):
    """header words and the op lines (op text only) of one case, cut after line `upto_line`"""
    hdr, ops, inside = None, [], False
    with open(ops_path) as f:
        for no, line in enumerate(f, 1):
            if line.startswith("case "):
                if inside:
                    break
                w = line.split()
                if w[1] == case_id:
                    inside = True
                    hdr = " ".join(w[2:]).split(" | ")[0]
                continue
            if inside:
                if not (line.startswith("#") or not line.strip() or line.startswith("mon ")):
                    ops.append(line.rstrip("\n").split(" | ")[0])
                if no >= upto_line:
                    break
    return hdr, ops


def replay_case(seqbin, component, driver_comp, hdr, ops, workdir, extra_args=()):
    """run one case on the implementation and the model; returns diffs"""
    os.makedirs(workdir, exist_ok=True)
    cf = os.path.join(workdir, "replay_case.txt")
    with open(cf, "w") as f:
        f.write(f"case r1 {hdr}\n")
        for o in ops:
            f.write(o + "\n")
    out = os.path.join(workdir, "replay.ops")
    rc, txt = sh([seqbin, component, "-replay", cf, "-out", out, "-stats", os.path.join(workdir, "replay.stats.json")] + list(extra_args),
                 env=GOENV, timeout=120)
    if rc != 0:
        return None, txt
    diffs, _ = run_driver(driver_comp, out)
    return diffs, open(out).read()


def shrink(seqbin, component, driver_comp, hdr, ops, decisive, workdir, extra_args=(), budget=400):
    """greedy one-at-a-time removal keeping 'a decisive diff exists'"""
    def bad(cand):
        d, _ = replay_case(seqbin, component, driver_comp, hdr, cand, workdir, extra_args)
        return d is not None and any(decisive(x) for x in d)
    if not bad(ops):
        return ops, False
    cur, tries = list(ops), 0
    changed = True
    while changed and tries < budget:
        changed = False
        i = len(cur) - 2   # never remove the last (failing) op first
        while i >= 0 and tries < budget:
            cand = cur[:i] + cur[i + 1:]
            tries += 1
            if bad(cand):
                cur = cand; changed = True
            i -= 1
    return cur, True


# ------------------------------------------------------------------------------------------------
# Known findings
# ------------------------------------------------------------------------------------------------

def load_known():
    p = os.path.join(VERIF, "known_findings.json")
    if not os.path.exists(p):
        return []
    return json.load(open(p)).get("findings", [])


def match_known(pid, text):
    for k in load_known():
        if k.get("status") == "known" and k["property"] == pid and re.search(k["match"], text):
            return k
    return None


# ------------------------------------------------------------------------------------------------
# Verdict plumbing
# ------------------------------------------------------------------------------------------------

class Run:
    def __init__(self, pid, tier):
        self.pid, self.tier = pid, tier
        self.seed = int(os.environ.get("VERIF_SEED", "1") or "1")
        self.t0 = time.time()
        self.work = os.path.join(WORK, pid)
        shutil.rmtree(self.work, ignore_errors=True)
        os.makedirs(self.work, exist_ok=True)
        self.violations = []     # (text, replay_path, found_input: bool)
        self.known_hits = []
        self.cov = dict(evaluations=0, distinct_nontrivial=0, samples=[], rule="", correspondence={})
        self.assumptions = []
        self.lean = None

    def violation(self, text, replay_obj, found_input=True):
        k = match_known(self.pid, text)
        if k is not None:
            if k["id"] not in [x["id"] for x in self.known_hits]:
                self.known_hits.append(k)
            return
        d = os.path.join(VERIF, "replays", self.pid)
        os.makedirs(d, exist_ok=True)
        path = os.path.join(d, f"{self.tier}-seed{self.seed}-{len(self.violations)}.json")
        replay_obj = dict(replay_obj, property=self.pid, text=text, found_failing_input=found_input)
        with open(path, "w") as f:
            json.dump(replay_obj, f, indent=1)
        self.violations.append((text, path, found_input))

    def finish(self, level="proof", technique_note=""):
        from . import props
        cfg = props.PROPS[self.pid]
        lean = self.lean or dict(obligations=0, discharged=0, axioms=[], property_theorems=[], problems=["lean stage did not run"])
        cov = dict(self.cov)
        cov.update(obligations=lean["obligations"], discharged=lean["discharged"],
                   checker_cmd=f"cd /verif/lean && lake build {' '.join(cfg['lean'])} && lake env lean ../.work/{self.pid}/Audit.lean   # (#print axioms of every property theorem)" + ("; lake env leanchecker <modules>" if self.tier == "thorough" else ""),
                   trusted_base=cfg.get("trusted", []) + props.GLOBAL_TRUSTED,
                   property_theorems=lean["property_theorems"], axioms_used=lean["axioms"],
                   explanation=cfg.get("explanation", ""))
        if not cov.get("samples"):
            cov["samples"] = lean["property_theorems"][:5] or ["(none)"]
        ev = dict(property_id=self.pid, tier=self.tier, seed=self.seed, level=level, coverage=cov,
                  assumptions=cfg.get("assumptions", []) + self.assumptions,
                  wall_s=round(time.time() - self.t0, 2), violations=len(self.violations),
                  known_findings=[k["id"] for k in self.known_hits])
        os.makedirs(os.path.join(VERIF, "evidence"), exist_ok=True)
        with open(os.path.join(VERIF, "evidence", self.pid + ".json"), "w") as f:
            json.dump(ev, f, indent=1)
        for k in self.known_hits:
            log(f"KNOWN-FINDING: property={self.pid} {k['text']}")
        for text, path, found in self.violations:
            log(f"# {text}")
            log(f"VIOLATION property={self.pid} replay={path}" + ("" if found else " no-failing-input-found"))
        if self.violations:
            return 1
        log(f"OK property={self.pid} tier={self.tier} seed={self.seed} theorems={lean['obligations']} "
            f"evaluations={cov['evaluations']} distinct_nontrivial={cov['distinct_nontrivial']} wall={ev['wall_s']}s")
        return 0


def run_extractor(run):
    """tie X: regenerate Generated/*.lean + facts.json from /repo's current sources"""
    with Lock("go"):
        rc, out = sh(["go", "build", "-o", os.path.join(WORK, "bin", "extract"), "./cmd/extract"], cwd=HARNESS, env=GOENV, timeout=600)
        if rc != 0:
            raise Broken("cannot build the extractor: " + out[-1500:])
    with Lock("lean"):
        rc, out = sh([os.path.join(WORK, "bin", "extract"), "-repo", REPO, "-out", os.path.join(LEAN, "GolibsVerif", "Generated"),
                      "-facts", os.path.join(WORK, "facts.json")], timeout=300)
    facts = {}
    try:
        facts = json.load(open(os.path.join(WORK, "facts.json")))
    except Exception:
        pass
    return rc, out, facts


def stage_lean(run, cfg):
    """build the driver and the property's Lean modules, audit axioms.
    Returns (ok, output).  ok=False only when the property's proofs no longer check."""
    with Lock("lean"):
        rc, out = lean_build(["driver"])
        if rc != 0:
            return "driver", out
        rc, out = lean_build(cfg["lean"])
        if rc != 0:
            return "proofs", out
        mods = lean_files_of(cfg["lean"])
        run.lean = lean_audit(run.pid, cfg["lean"], mods)
        if run.tier == "thorough":
            rc2, out2 = sh(["lake", "env", "leanchecker"] + mods, cwd=LEAN, timeout=3000)
            run.cov["leanchecker"] = "ok" if rc2 == 0 else "FAILED: " + out2[-400:]
            if rc2 != 0:
                run.lean["problems"].append("leanchecker rejected the compiled modules")
    if run.lean["problems"]:
        raise Broken("Lean audit: " + "; ".join(run.lean["problems"]))
    return "ok", ""


def stage_go(cmds=("seq",)):
    with Lock("go"):
        rc, out = go_build(cmds)
    return rc, out


def stage_seq(run, cfg, sq):
    """one sequential correspondence run: harness -> ops -> driver -> classification"""
    comp, drv = sq["comp"], sq.get("driver", sq["comp"])
    decisive = sq.get("decisive", lambda d: True)
    seqbin = os.path.join(WORK, "bin", "seq")
    ops = os.path.join(run.work, comp + ".ops")
    stats = os.path.join(run.work, comp + ".stats.json")
    args = [seqbin, comp, "-seed", str(run.seed), "-tier", run.tier, "-out", ops, "-stats", stats,
            "-corpus", os.path.join(HARNESS, "corpus", run.pid)] + list(sq.get("args", ()))
    crashed, why = run_harness(args, ops, stats, sq.get("timeout", stage_limit(run.tier)))
    if crashed:
        decisive0 = decisive
        decisive = lambda d: d["op"].startswith("mon HANG") or decisive0(d)
        run.cov.setdefault("notes", []).append(f"harness seq {comp} died: {why}")
    diffs, done = run_driver(drv, ops)
    ign = sq.get("ignore")
    if ign:
        diffs = [d for d in diffs if crash_diff(d) or not ign(d)]
    st = json.load(open(stats))
    run.cov["evaluations"] += st["ops"] if st.get("per_op") else st["cases"]
    run.cov["distinct_nontrivial"] += st["distinct_nontrivial"]
    run.cov["samples"] += st["samples"][:4]
    run.cov["correspondence"][comp] = dict(cases=st["cases"], ops=st["ops"], distinct_cases=st["distinct_cases"],
                                           distinct_nontrivial=st["distinct_nontrivial"], op_kinds=st["op_kinds"],
                                           outcomes=st["outcomes"], branches=st["branches"], sizes=st["sizes"],
                                           driver_lines=int(done["lines"]), diffs=int(done["diffs"]),
                                           extra=st.get("extra", {}), notes=st.get("notes", []))
    if not diffs:
        if os.environ.get("VERIF_KEEP") != "1":
            os.remove(ops)
        return
    # classify: first decisive diff (API-level / monitor) else internal-only.  A diff that is exactly a listed
    # known finding is announced as such and set aside FIRST: it must neither use up a report slot nor be what a
    # different violation in the same case gets shrunk into
    have_known = any(k.get("status") == "known" and k["property"] == run.pid for k in load_known())
    def known_diff(d, hdr=None):
        if not have_known:
            return None
        if hdr is None:
            hdr = extract_case(ops, d["case"], d["line"])[0]
        return match_known(run.pid, f"{comp}: case({hdr}) [] -> at `{d['op']}`: {d['detail']}")
    kept = []
    for n, d in enumerate(diffs):
        k = known_diff(d) if (n < 400 and decisive(d)) else None
        if k is not None:
            if k["id"] not in [x["id"] for x in run.known_hits]:
                run.known_hits.append(k)
        else:
            kept.append(d)
    diffs = kept
    if not diffs:
        return
    decisive_base = decisive
    dec = [d for d in diffs if decisive_base(d)]
    reported = set()
    for d in (dec[:40] if dec else diffs[:1]):
        hdr, cops = extract_case(ops, d["case"], d["line"])
        decisive = lambda d, hdr=hdr: decisive_base(d) and known_diff(d, hdr) is None
        if sq.get("stateless") and cops:
            cops = cops[-1:]
        is_dec = decisive(d)
        sig = " ".join(d["op"].split(" ")[:2]) if d["op"].startswith("mon ") else d["op"].split(" ")[0]
        if sig in reported or len(reported) >= 3:
            continue
        reported.add(sig)
        shr = cops
        if is_dec and len(reported) <= 3:
            shr, ok = shrink(seqbin, comp, drv, hdr, cops, decisive, os.path.join(run.work, "shrink"), sq.get("args", ()))
            if not ok:
                shr = cops
        last = shr[-1] if shr else d["op"]
        rd, _ = replay_case(seqbin, comp, drv, hdr, shr, os.path.join(run.work, "shrink"), sq.get("args", ()))
        detail = d["detail"]
        if rd:
            dd = [x for x in rd if decisive(x)] or rd
            detail = dd[0]["detail"]; last = dd[0]["op"]
        text = f"{comp}: case({hdr}) [{'; '.join(shr)}] -> at `{last}`: {detail}"
        if len(text) > 900:
            text = text[:450] + " … " + text[-450:]
        if is_dec:
            run.violation(text, dict(kind="input", component=comp, driver=drv, header=hdr, ops=shr,
                                     original_ops=cops, diff=d, args=list(sq.get("args", ()))), True)
        else:
            run.violation("correspondence broken (internal state only, API outputs agree): " + text,
                          dict(kind="correspondence", component=comp, driver=drv, header=hdr, ops=cops, diff=d,
                               broken="S-correspondence " + comp + " (internal view)", args=list(sq.get("args", ()))), False)


def _first_error(out):
    for line in out.split("\n"):
        m = re.match(r"error: (GolibsVerif/\S+\.lean:\d+:\d+): (.*)", line)
        if m:
            # name the theorem: look upward in the file for the closest theorem/def
            path, ln = m.group(1).split(":")[0], int(m.group(1).split(":")[1])
            name = "?"
            try:
                lines = open(os.path.join(LEAN, path)).read().split("\n")
                for i in range(ln - 1, -1, -1):
                    mm = re.match(r"\s*(?:theorem|lemma|def|example)\s*([^\s:({]*)", lines[i])
                    if mm:
                        name = mm.group(1) or "example"
                        break
            except Exception:
                pass
            return f"{path}:{ln} ({name}): {m.group(2)[:200]}"
    return out.strip().split("\n")[-1][:300]


def stage_conc(run, cfg, cq):
    """trace refinement (tie T): real goroutines under the controlled scheduler -> trace -> Lean replay"""
    comp, drv = cq["comp"], cq["driver"]
    decisive = cq.get("decisive", lambda d: d["op"].startswith("mon "))
    ign = cq.get("ignore")
    concbin = os.path.join(WORK, "bin", "conc")
    trace = os.path.join(run.work, comp + ".trace")
    stats = os.path.join(run.work, comp + ".stats.json")
    args = [concbin, comp, "-seed", str(run.seed), "-tier", run.tier, "-out", trace, "-stats", stats] + list(cq.get("args", ()))
    crashed, why = run_harness(args, trace, stats, cq.get("timeout", stage_limit(run.tier)))
    if crashed:
        decisive0 = decisive
        decisive = lambda d: d["op"].startswith("mon HANG") or decisive0(d)
        run.cov.setdefault("notes", []).append(f"harness conc {comp} died: {why}")
    diffs, done = run_driver(drv, trace)
    if ign:
        diffs = [d for d in diffs if crash_diff(d) or not ign(d)]
    st = json.load(open(stats))
    run.cov["evaluations"] += st["cases"]
    run.cov["distinct_nontrivial"] += st["distinct_nontrivial"]
    run.cov["samples"] += st["samples"][:3]
    run.cov["traces_validated_against_impl"] = run.cov.get("traces_validated_against_impl", 0) + st["cases"]
    run.cov["correspondence"][comp] = dict(traces=st["cases"], events=st["ops"], distinct_traces=st["distinct_cases"],
                                           distinct_nontrivial=st["distinct_nontrivial"], event_kinds=st["op_kinds"],
                                           branches=st["branches"], driver_lines=int(done["lines"]), diffs=int(done["diffs"]))
    if not diffs:
        if os.environ.get("VERIF_KEEP") != "1":
            os.remove(trace)
        return
    dec = [d for d in diffs if decisive(d)]
    # a case whose trace the model rejects makes later lines of the same case meaningless: keep the first per case
    reported, seen_cases = 0, set()
    for d in (dec if dec else diffs):
        if d["case"] in seen_cases or reported >= 3:
            continue
        seen_cases.add(d["case"])
        hdr, cops = extract_case(trace, d["case"], d["line"])
        sched = [o for o in cops if not (o.startswith("check ") or o.startswith("lockstate ") or o.startswith("at ") or o.startswith("ret "))]
        is_dec = decisive(d)
        text = f"{comp}: case({hdr}) schedule [{'; '.join(sched)}] -> `{d['op']}`: {d['detail']}"
        if len(text) > 1200:
            text = text[:500] + " … " + text[-650:]
        before = len(run.violations) + len(run.known_hits)
        run.violation(text if is_dec else "trace of the real goroutines is not a behaviour of the model: " + text,
                      dict(kind="schedule" if is_dec else "correspondence", component=comp, driver=drv, header=hdr,
                           events=cops, diff=d, conc=True,
                           broken=None if is_dec else "T-correspondence " + comp), is_dec)
        if len(run.violations) + len(run.known_hits) > before or True:
            reported += 1


def build_api():
    """the public-API harness: plain `go build`, no tag, no overlay — it must build whenever /repo does"""
    with Lock("go"):
        gosum = os.path.join(HARNESS, "go.sum")
        if not os.path.exists(gosum) and os.path.exists(os.path.join(REPO, "go.sum")):
            shutil.copy(os.path.join(REPO, "go.sum"), gosum)
        os.makedirs(os.path.join(WORK, "bin"), exist_ok=True)
        return sh(["go", "build", "-o", os.path.join(WORK, "bin", "api"), "./cmd/api"], cwd=HARNESS, env=GOENV, timeout=900)


def stage_api(run, cfg, aq):
    """monitors over the public API only (harness/cmd/api): real code, no instrumentation"""
    comp = aq["comp"]
    decisive = aq.get("decisive", lambda d: d["op"].startswith("mon "))
    trace = os.path.join(run.work, comp + ".trace")
    stats = os.path.join(run.work, comp + ".stats.json")
    args = [os.path.join(WORK, "bin", "api"), comp, "-seed", str(run.seed), "-tier", run.tier, "-out", trace, "-stats", stats]
    crashed, why = run_harness(args, trace, stats, aq.get("timeout", 1200))
    if crashed:
        decisive0 = decisive
        decisive = lambda d: d["op"].startswith("mon HANG") or decisive0(d)
        run.cov.setdefault("notes", []).append(f"harness api {comp} died: {why}")
    diffs, done = run_driver("monitors", trace)
    st = json.load(open(stats))
    run.cov["evaluations"] += st["cases"]
    run.cov["distinct_nontrivial"] += st["distinct_nontrivial"]
    run.cov["correspondence"][comp] = dict(traces=st["cases"], events=st["ops"], distinct_traces=st["distinct_cases"],
                                           distinct_nontrivial=st["distinct_nontrivial"], event_kinds=st["op_kinds"],
                                           branches=st["branches"], driver_lines=int(done["lines"]), diffs=int(done["diffs"]),
                                           note="public API only, no instrumentation")
    reported = 0
    for d in diffs:
        if not (decisive(d) or crash_diff(d)) or reported >= 3:
            continue
        hdr, cops = extract_case(trace, d["case"], d["line"])
        run.violation(f"{comp}: case({hdr}) -> `{d['op']}`: {d['detail']}",
                      dict(kind="input", component=comp, driver="monitors", header=hdr, events=cops, diff=d, api=True), True)
        reported += 1
    if not diffs and os.environ.get("VERIF_KEEP") != "1":
        os.remove(trace)


def run_property(pid, tier):
    from . import props
    if pid not in props.PROPS:
        log(f"unknown property {pid}")
        return 2
    # two runs of the SAME property share .work/<id>, replays/<id> and evidence/<id>.json: one after the other
    with Lock("property-" + pid):
        return _run_property(pid, tier)


def _run_property(pid, tier):
    from . import props
    cfg = props.PROPS[pid]
    run = Run(pid, tier)
    run.cov["rule"] = cfg.get("rule", "")
    try:
        if "pre" in cfg:
            cfg["pre"](run, cfg)
        extractor_broken = None
        if cfg.get("generated"):
            rc, xout, facts = run_extractor(run)
            run.facts = facts.get("facts", {})
            if rc != 0:
                extractor_broken = "extractor cannot translate the current source: " + xout.strip()[-400:]
        for fk, want in cfg.get("facts", {}).items():
            got = getattr(run, "facts", {}).get(fk)
            if got != want:
                extractor_broken = (extractor_broken or "") + f" skeleton fact {fk} is {got}, the model was written for {want};"
        st, out = stage_lean(run, cfg)
        proof_broken = None
        if st == "driver":
            if not cfg.get("generated"):
                raise Broken("lake build driver failed:\n" + out[-3000:])
            # the executable model itself no longer compiles against the regenerated definitions
            run.violation("model driver no longer builds against the regenerated definitions: " + _first_error(out),
                          dict(kind="proof", broken="lake build driver (Generated/*.lean)", output=out[-3000:]), False)
            return run.finish(level=cfg.get("level", "proof"))
        if st == "proofs":
            if not cfg.get("generated"):
                raise Broken("lake build failed:\n" + out[-3000:])
            proof_broken = _first_error(out)
            mods = lean_files_of(cfg["lean"])
            n = sum(len(theorem_names(m)) for m in mods if ".Props." in m or ".Lemmas." in m)
            run.lean = dict(obligations=n, discharged=0, axioms=[], property_theorems=[], problems=[proof_broken])
        rc, out = stage_go(cfg.get("go_cmds", ("seq",)))
        if rc != 0:
            rc2, out2 = sh(["go", "build", "./..."], cwd=REPO, env=GOENV, timeout=900)
            if rc2 != 0:
                # /repo itself does not compile: not a property verdict
                raise Broken("/repo does not build:\n" + out2[-3000:])
            # /repo builds but the harness (package-internal accessors / API use) no longer fits it:
            # the tie between model and code cannot be established any more
            # search with what still builds: the monitors that use the public API only
            if cfg.get("api") or cfg.get("api_fallback"):
                rc3, out3 = build_api()
                if rc3 == 0:
                    for aq in list(cfg.get("api", [])) + list(cfg.get("api_fallback", [])):
                        stage_api(run, cfg, aq)
            if not run.violations:
                run.violation("harness no longer builds against /repo (accessor or API shape changed): " + out.strip().split("\n")[-1][:300],
                              dict(kind="correspondence", broken="go build -tags verif -overlay (harness vs /repo)", output=out[-3000:]), False)
            else:
                log("# the instrumented harness no longer builds against /repo as well: " + out.strip().split("\n")[-1][:300])
            return run.finish(level=cfg.get("level", "proof"))
        # the sources this property is anchored in differ from the state the models were validated against:
        # not an alarm, but a reason to look harder (two more PRNG streams) on this run
        changed = changed_anchor_files(pid) if os.environ.get("VERIF_ESCALATE", "1") != "0" else []
        seeds = [run.seed] + ([run.seed + 7919, run.seed + 15838] if changed and tier == "quick" else [])
        if changed:
            run.cov["escalated"] = dict(reason="anchor files changed since the models were last validated: " + ", ".join(changed),
                                        seeds=seeds)
        seed0 = run.seed
        for sd in seeds:
            run.seed = sd
            for sq in cfg.get("seq", []):
                stage_seq(run, cfg, sq)
            for cq in cfg.get("conc", []):
                stage_conc(run, cfg, cq)
            if cfg.get("api"):
                rc3, out3 = build_api()
                if rc3 != 0:
                    raise Broken("public-API harness does not build:\n" + out3[-2000:])
                for aq in cfg["api"]:
                    stage_api(run, cfg, aq)
            for extra in cfg.get("stages", []):
                extra(run, cfg)
            if run.violations:
                break
        run.seed = seed0
        if (proof_broken or extractor_broken) and not run.violations:   # (a known finding being present must not hide this)
            # the search (correspondence + monitors on the real code) found no concrete failing input
            what = proof_broken or extractor_broken
            run.violation("proof obligation no longer checks against the regenerated definitions: " + what,
                          dict(kind="proof", broken=what, output=out[-3000:]), False)
        elif proof_broken or extractor_broken:
            log("# proof tie broken as well: " + (proof_broken or extractor_broken))
        return run.finish(level=cfg.get("level", "proof"))
    except Broken as e:
        log("CHECK-BROKEN: " + str(e))
        return 2


FINGERPRINTS = os.path.join(VERIF, "fingerprints.json")


def anchor_files(pid):
    """source files a property is anchored in (properties.jsonl) plus the files instrumented for its harness"""
    files = []
    for line in open(os.path.join(VERIF, "properties.jsonl")):
        p = json.loads(line)
        if p["id"] == pid:
            files = list(p["anchors"]["files"])
    return sorted(set(files))


def file_sha(rel):
    try:
        return hashlib.sha256(open(os.path.join(REPO, rel), "rb").read()).hexdigest()
    except OSError:
        return "missing"


def changed_anchor_files(pid):
    """anchor files whose content differs from the state the models were last validated against
    (fingerprints.json, rewritten by `./check fingerprints` after every fix: commit).  A difference is NOT an
    alarm: it only makes the check spend more effort (more seeds) on this run."""
    try:
        rec = json.load(open(FINGERPRINTS))["files"]
    except Exception:
        return []
    return [f for f in anchor_files(pid) if rec.get(f) != file_sha(f)]


def do_fingerprints():
    files = {}
    for line in open(os.path.join(VERIF, "properties.jsonl")):
        for f in json.loads(line)["anchors"]["files"]:
            files[f] = file_sha(f)
    rc, head = sh(["git", "-C", REPO, "rev-parse", "HEAD"])
    json.dump(dict(repo_head=head.strip(), files=dict(sorted(files.items()))), open(FINGERPRINTS, "w"), indent=1)
    log(f"fingerprints of {len(files)} anchor files written")
    return 0


def do_replay(path):
    r = json.load(open(path))
    from . import props
    rc, out = stage_go(("seq",))
    if rc != 0:
        log(out); return 2
    if r.get("conc"):
        rc, out = stage_go(("conc",))
        if rc != 0:
            log(out); return 2
        d = os.path.join(WORK, "replay"); os.makedirs(d, exist_ok=True)
        sf = os.path.join(d, "schedule.txt")
        with open(sf, "w") as f:
            f.write(f"case r1 {r['header']}\n" + "\n".join(r["events"]) + "\n")
        tr = os.path.join(d, "replay.trace")
        rc, out = sh([os.path.join(WORK, "bin", "conc"), r["component"], "-replay", sf, "-out", tr, "-stats", os.path.join(d, "s.json")], env=GOENV, timeout=300)
        if rc != 0:
            log(out); return 2
        log(open(tr).read())
        diffs, _ = run_driver(r["driver"], tr)
        for x in diffs:
            log(f"DIFF {x['op']} :: {x['detail']}")
        return 1 if diffs else 0
    if r.get("kind") in ("input", "correspondence") and "ops" in r:
        seqbin = os.path.join(WORK, "bin", "seq")
        diffs, txt = replay_case(seqbin, r["component"], r["driver"], r["header"], r["ops"], os.path.join(WORK, "replay"), r.get("args", ()))
        log(txt)
        if diffs is None:
            return 2
        for d in diffs:
            log(f"DIFF {d['op']} :: {d['detail']}")
        return 1 if diffs else 0
    log("replay kind not executable: " + str(r.get("kind")) + " — " + r.get("text", ""))
    return 2


def do_setup():
    rc, out = sh(["lake", "build"], cwd=LEAN, timeout=6000)
    log(out[-2000:])
    if rc != 0:
        return rc
    from . import props
    cmds = sorted({c for cfg in props.PROPS.values() for c in cfg.get("go_cmds", ("seq",))})
    rc, out = go_build(cmds)
    log(out[-2000:])
    return rc


def main(argv):
    if not argv:
        log(__doc__ or "usage"); return 2
    if argv[0] == "setup":
        return do_setup()
    if argv[0] == "replay":
        return do_replay(argv[1])
    if argv[0] == "fingerprints":
        return do_fingerprints()
    tier = argv[1] if len(argv) > 1 else os.environ.get("VERIF_TIER", "quick")
    return run_property(argv[0], tier)
