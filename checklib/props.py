"""Per-property configuration of ./check (what to build, which correspondences to run, how to
classify a disagreement).  Design rationale: DESIGN.md §3."""

GLOBAL_TRUSTED = [
    "Lean 4.33.0 kernel; axioms allowed: propext, Classical.choice, Quot.sound (audited per property theorem with #print axioms); no native_decide / bv_decide / sorry / own axioms (grep over comment-stripped sources)",
    "the hand-written I-model is tied to /repo only by the correspondence run of this check (differential testing on generated inputs; reach bounded by the generators listed under coverage.correspondence)",
    "Go harness (/verif/harness), package-internal accessors injected with `go build -overlay` under build tag verif, the line protocol and the Lean driver executable",
]


def _not_state_dump(prefixes):
    def f(d):
        return not any(d["op"].startswith(p) for p in prefixes)
    return f


LOCK_RULE = ("cases = executions of REAL kvsLock goroutines under a controlled scheduler: 2-4 workers over configurations {two Lockers of one provider, two providers, two goroutines sharing one Locker, sharing + second Locker, three Lockers/two providers, 2x2}; the scheduler picks one action at a time from {start Lock / LockWithCtx (also pre-cancelled) / TryLock / Unlock on an idle worker, cancel a context, release a parked storage call as ok / request-lost / reply-lost (<= 2 faults per case; none for C04), return a parked WaitForVersionChange, fire all armed lease timers, let the record lapse when the lease assumption allows it, shut a provider down}; after every action the system settles (every goroutine parked at a storage gate, on the Locker's token — recognised by goroutine-stack inspection — or returned) and the observable state (holders, record version, armed timers, renewals in flight, token and counter of every Locker) is emitted; the Lean driver replays every trace through Lock.Exec.handle; non-trivial = >= 2 goroutines were inside an acquire at once, or a fault/cancel hit an attempt; distinct by hash of the event list")
LOCK_ASSUME = ["lease assumption (guard of `expire`): a record lapses only when the goroutine owning its chain neither holds nor is inside Unlock before its Delete took effect — weaker guard is refuted by C01.mutex_needs_timely_unlock (KF-1)",
               "well-bracketed use: a caller unlocks only a lock it holds", "storage call + delivery of its result, timeout.Call + future.Store after Create, and sync/atomic operations are atomic steps",
               "timers fire when the scheduler says so (lease 1h + forced firing); a timer never fires before the supportTimeout that armed it finished its CompareAndSwap (C05.lease_chain_alive_partial: ReachNE)"]
LOCK_TRUSTED = ["modelled, not verified: Go select / channel / sync/atomic semantics, the timeout dispatcher (its own properties are C12/C13), context cancellation",
                "the harness Storage (GateStore) applies each call atomically to a one-record store when the scheduler releases it; goroutine-stack inspection (runtime.Stack) decides that a goroutine is parked on the token",
                "C01Exec.handle_sound / replay_reach: every trace the driver accepts is a Lock.Step execution, so the theorems about Reach apply to every replayed state"]
LOCK_RULE_RT = (" PLUS real-time scenarios on the real in-memory storage with lease 300 ms (thorough: more phases): holder holds 6 lease periods with a contender of another provider waiting {steady; a transient error injected on the k-th renewal CasByVersion, k=1..3 (thorough ..6)}; holder death at two phases of the renewal cycle (its renewals stop reaching the storage) -> contender must acquire within 3 leases; Unlock racing a due renewal -> at most one more renewal call, none successful; a failing scenario is re-run twice alone with a doubled lease and reported only if it fails both times (timing-flake filter)")
LOCK_EXPL = {"C01": "C01.mutex (any N, any sharing, any interleaving, unbounded faults), holder_owns_record, locker_serialised, counter_exact; mutex_needs_timely_unlock is the kernel-checked KF-1 history",
             "C04": "C04.no_residue, token_exact, record_has_live_owner, no_deadlock, handoff, after_shutdown_no_acquire, fail_path_restores on fault-free runs; C04.service_reachable / everyone_can_be_served (AG EF served: from EVERY reachable state every acquiring caller with a live context can still be served by a finite continuation; all of them one after the other); C04Fair (infinite fault-free executions with stuttering, weak fairness of a goroutine's internal steps): no_lost_wakeup / wakeup_delivered (a caller in Storage.Create / WaitForVersionChange with a live context cannot sit there while the lock stays free: the lock stays free only until some caller, possibly another, creates the record and acquires), no_lost_token / token_is_taken, cancelled_waiter_returns, shutdown_waiter_returns, section_is_left, unlock_completes (record gone, token back), failure_returns_token, free_lock_is_taken, lock_gets_free + released_lock_is_taken (all goroutines fair, every holder eventually unlocks: some waiting caller acquires), lock_keeps_being_taken (either THIS caller acquires or acquisitions go on for ever: with finite programs every caller gets it); negative result overtaken_forever: a particular caller CAN be overtaken for ever by a caller that re-locks again and again, even under strong fairness of its own steps (wake-up and Create are two steps) — the lock has no queue",
             "C05": "C05Timed.lease_kept (timed model over the lease constants REGENERATED from kvlock.go: renewal at L/2, retry at L/8, deadline from a fresh clock reading inside the retry loop: the record never lapses while held, for any hold duration and up to m consecutive transient failures under the margin), default_config_tolerates (10 s lease, 500 ms lateness, 2 failures), default_margin_tight, stale_deadline_lapses (negative), code_constants; C05.lease_chain_alive_partial (renewal chain never dies while held, under the stated timing assumption), renewal_dies_after_unlock_partial, dead_holder_released, lease_margin; reply_lost_breaks_chain = KF-3; the full-strength statements lease_chain_alive_full / renewal_dies_after_unlock_full are REFUTED in Lean (early-fire race; unbounded leftovers in an untimed model); C05Cell (Model/LeaseCell: storage answers arrive arbitrarily late, Unlock + Lock in between, other providers): chain_alive_late_answers and chain_alive_current_errors (renewal chain alive while held), held_has_record, chain_alive_refuted (stale renewal + two transient errors: negative), swap_variant_breaks_chain (negative: the seeded Swap variant), code_skeleton (decide over the order of future/timer/storage operations REGENERATED from kvlock.go)"}

PROPS = {
    "C14": dict(
        lean=["GolibsVerif.Props.C14"],
        seq=[dict(comp="ring", decisive=_not_state_dump(["buf"]))],
        rule="cases = op sequences on a fresh ring buffer: exhaustive over a 14-17 op alphabet to depth 4 (quick) / 5 (thorough) for capacities 0..4, rotated/pre-filled starts x depth 3, random sequences (5..120 ops) for capacities up to 200 with ReadN/Skip arguments up to 300; non-trivial = the read or write index wrapped, or a ReadN/Skip spanned the wrap point; distinct = by hash of (capacity, op list)",
        assumptions=["elements are ints; Go's zero value is 0", "At's panic message is not compared"],
        trusted=["modelled, not verified: Go slice bounds checks, copy(), SliceFill's doubling copy for >= 50 elements (exercised by capacities 49..200)"],
        explanation="C14.step_refines/refines_queue/consumed_slots_zero/bounded/never_diverges proved for every capacity and op list; correspondence ties Ring.RB to container/ringbuffer.go incl. backing array",
    ),
    "C18": dict(
        lean=["GolibsVerif.Props.C18"],
        seq=[dict(comp="mixer")],
        rule="cases = (selector, input1, input2, resettable flags, call pattern): all pairs of sequences of length <= 3 (quick) / 4 (thorough) over {1,2,3} x selectors {<,<=,const true,const false,(>=,parity)} x drain patterns; every HasNext/Next/Reset pattern to depth 6/8 on 5 small input pairs; resettable/non-resettable combinations; random inputs up to 40+40 elements; non-trivial = both inputs non-empty with a tie under the selector, or a Reset in mid-stream; distinct = hash of (header, op list)",
        assumptions=["input iterators honour the Iterator contract; the model's inputs are lists (iterable.WrapIntSlice, optionally with Reset hidden); inputs whose last element vanishes between HasNext and Next are in the model (Src.ghost, C18.vanishing_tail_irrelevant) and in the differential run (vanishing-tail wrappers)"],
        trusted=["modelled, not verified: Go interface dispatch / type assertion to golibs.Reseter"],
        explanation="C18.step_refines lifted to every call pattern (pattern_independent), output_eq_merge, is_interleaving, sorted_merge, reset_restarts; correspondence ties Mixer.Mx to container/iterable/mixer.go",
    ),
    "C15": dict(
        generated=True,
        lean=["GolibsVerif.Props.C15"],
        seq=[dict(comp="xbin", args=["-focus", "C15"], stateless=True, decisive=lambda d: d["op"].startswith("mon C15") or "impl=panic" in d["detail"], ignore=lambda d: d["op"].startswith("mon C16") or d["op"].startswith("ub ") or d["op"].startswith("uu ") or d["op"].startswith("uf "))],
        rule="cases = groups of codec calls: MarshalUint for all 16-bit values, all 2^b-1/2^b/2^b+1 (b<64) with every buffer length 0..size+1, random 64-bit values; fixed widths (all bytes, random 16/32/64-bit, every short buffer); byte strings of lengths 0..40 and around 127/128, 16383/16384 (thorough: 2^21) with destination lengths around the predicted size; ObjectsWriter vs Marshal; random concatenations of 1..8 items decoded back; non-trivial = value/length on a 7-bit group boundary +-1; distinct counted per case group (each group contains thousands of distinct inputs, see op_kinds)",
        assumptions=["decoded-data independence with newBuf=true is checked by the Go-side monitor only (aliasing is not expressible in the value-level model)", "len(v) < 2^63"],
        trusted=["modelled, not verified: encoding/binary.BigEndian, copy(), unsafe string<->[]byte casts in package cast", "Gen.Xbin.writableUintSize is regenerated from xbinary.go by harness/cmd/extract (go/ast if-tree translator)"],
        explanation="C15.item_roundtrip / concat_decodes / writer_eq_marshal / uint_size_eq_written proved against the REGENERATED size function; correspondence + Go-side monitors tie Xbin.* to xbinary.go",
    ),
    "C16": dict(
        generated=True,
        lean=["GolibsVerif.Props.C16"],
        seq=[dict(comp="xbin", args=["-focus", "C16"], stateless=True, decisive=lambda d: d["op"].startswith("mon C16") or "impl=panic" in d["detail"], ignore=lambda d: d["op"].startswith("mon C15"))],
        rule="cases = groups of Unmarshal calls on arbitrary bytes: every input of <= 2 bytes (quick: thinned), 3-4 byte inputs over {00,01,02,03,7f,80,81,ff}, length prefixes within +-12 of 2^31, 2^32, 2^62, 2^63, 2^64 followed by 0..20 body bytes, over-long varints of 9..14 continuation bytes, truncated and bit-flipped valid encodings; non-trivial = input that is not a valid encoding; every call runs under recover",
        assumptions=["bytes behind len(buf) (spare capacity of a window into a larger buffer) are not part of the value-level model: a Go-side monitor decodes every input also as such a window and requires the same answer"],
        trusted=["modelled, not verified: Go slice-expression bounds checks and int(uint64) conversion (two's complement)"],
        explanation="C16.total / in_bounds proved for every byte list of any length; C16.total_fails_legacy is the kernel-checked witness that the pre-repair length test panics",
    ),
    "C19": dict(
        generated=True,
        lean=["GolibsVerif.Props.C19"],
        # every op of this component is an API call of the errors package (Is / GRPCStatusCode / GRPCWrap /
        # ExtractObject / FromGRPCError): a different answer IS a failing input
        seq=[dict(comp="errs", stateless=True, decisive=lambda d: True)],
        rule="cases = calls of Is/GRPCStatusCode/GRPCWrap/ExtractObject/FromGRPCError on errors built from recipes: 12 classes x wrap depth 0..3 (thorough 4) x embedded object at every position (or none) x message texts incl. JSON, colons, % verbs, unicode and the marker's neighbours (ESC, 'json', ESC+'jso', 'son'+ESC) x every target class; all 17 codes; status/plain bases outside the hypothesis for model/code agreement; non-trivial = wrap depth >= 1 or an embedded object present; distinct by op text",
        assumptions=["wrapping texts do not contain the complete embed marker ESC+'json'", "error values are trees of single-%w wrappers, embedded objects and binary nodes (two-%w / errors.Join) whose other child is a plain error; wider trees (two classes in one tree) are outside the property"],
        trusted=["modelled, not verified: errors.Is/As, fmt.Errorf %w, grpc status.Code/FromError/Error (v1.55), strings.Split, encoding/json", "class list, both tables and the marker are regenerated from errors.go / grpc.go by harness/cmd/extract"],
        explanation="C19.tables_consistent/keys_nodup/no_unknown_code by `decide` on the REGENERATED tables; is_after_wrap/no other class/order independence/idempotence/extract for every chain and every map order derived from them",
    ),
    "C10": dict(
        lean=["GolibsVerif.Props.C10"],
        seq=[dict(comp="omap", decisive=lambda d: not d["op"].startswith("chain") and not d["op"].startswith("mon C11"),
                  ignore=lambda d: d["op"].startswith("mon C11"))],
        rule="cases = histories over Add/Remove/Get/Len/First/Iterator/HasNext/Next/Close on a fresh Map: exhaustive to depth 5 (quick, keys {1,2}, <= 2 iterators) / 6 (thorough, <= 3 iterators), random histories of 10..150 ops over 2-4 keys with up to 8 simultaneously open iterators and re-added keys, all iterators closed at the end; non-trivial = an iterator was parked on an entry at the moment it was removed, or an iterator was closed while the head entry was removed-but-pinned; distinct by hash of the op list",
        assumptions=["an iterator is not used after Close and is closed at most once (documented contract)", "for Next()==false / First()==false the returned key/value are not compared (pooled nodes may carry stale keys)"],
        trusted=["modelled, not verified: pointer splicing is abstracted to list erase (the internal view `chain` compares state, refCnt and key of every linked node positionally after every op)", "sync.Pool reuse is modelled as fresh node ids"],
        explanation="C10.map_refines_spec: for every history the I-model never dereferences nil and all outputs equal the Spec's; C10.inv; release_legacy_dangles is the kernel-checked witness of D1",
    ),
    "C11": dict(
        lean=["GolibsVerif.Props.C11", "GolibsVerif.Props.C11Lru"],
        seq=[dict(comp="omap", decisive=lambda d: d["op"].startswith("mon C11"),
                  ignore=lambda d: d["op"].startswith("mon C10")),
             dict(comp="lru", decisive=lambda d: d["op"].startswith("mon C11")),
             dict(comp="lruchain", driver="lruover", decisive=lambda d: d["op"].startswith("mon C11"))],
        go_cmds=("seq", "conc"),
        # under concurrent creations the cache must not hold on to more than its capacity, and every created value
        # must reach the delete callback: the LRU trace harness of C09; what C11 talks about = its size / accounting monitors
        conc=[dict(comp="lruconc", driver="lrutrace",
                   decisive=lambda d: d["op"].startswith("mon C09-size-le-cap") or d["op"].startswith("mon C09-accounting"),
                   ignore=lambda d: not (d["op"].startswith("mon C09-size-le-cap") or d["op"].startswith("mon C09-accounting")))],
        rule="same histories as C10; after EVERY op the Go-side monitor walks the real list from the head and checks linked nodes = Len+1+removed-but-pinned, pinned <= open iterators, and = Len+1 when no iterator is open; non-trivial as in C10. LRU half (component lruchain): histories of GetOrCreate (also failing) / Remove / Clear on a real ECache — exhaustive to depth 4 (quick) / 6 (thorough) for capacities 1..2 over 3 keys, random histories of 20..400 ops for capacities 1..16 — with the node chain of the cache's internal map compared after every op with LruOver.lstep, plus the monitor C11-lru-bounded; non-trivial there = a Clear of a non-empty cache and an eviction in one history",
        assumptions=["GC reachability of pooled nodes and wall-clock cost are runtime notions; the model bounds linked nodes and traversal steps"],
        trusted=["modelled, not verified: as C10"],
        explanation="C11.chain_bound / closed_means_clean / next_fuel_suffices for every map history; C11Lru.lru_bounded / no_iterator_left_open / size_le_cap / never_panics / clear_empties for every LRU history (the cache as programs over the map's node-chain model; trace_faithful reduces them to map histories), legacy_clear_leaks keeps D2 machine-checked",
    ),
    "C08": dict(
        lean=["GolibsVerif.Props.C08"],
        seq=[dict(comp="lru", decisive=lambda d: not d["op"].startswith("mon C11"), ignore=lambda d: d["op"].startswith("mon C11"))],
        rule="cases = call sequences on a fresh cache: exhaustive to depth 5 (quick) / 6 (thorough) over {GetOrCreate 1..3, Remove 1..2, Clear} for capacities 1..3 x {Cache, ECache with key mapping pk%2, create failing on calls 1 and 3}; random sequences of 400 (900) calls for capacities 1..4 and 64 with key mappings id/%3/%5 and ~11% failing creations; ExpirableCache with ttl 3/10/50 ms under a virtual clock; callbacks (create calls with outcome, delete callbacks with key+value, in order) are part of the compared output; non-trivial = an eviction or expiry replacement, a failed creation, or a hit while several entries are resident; distinct by hash of (config, op list)",
        assumptions=["single caller (concurrency is C09)", "a panicking create function is out of scope"],
        trusted=["the recency list is modelled at the level of the ordered map's Spec (justified by C10.map_refines_spec)", "time.Now() in expirable.go is redirected to a virtual clock by a textual instrumenter applied to the CURRENT source at build time (overlay)"],
        explanation="C08.refines_reference: results and callback invocations equal those of a reference LRU (unordered residents + last-use stamps) for every call sequence, any capacity >= 1, any key mapping, any create/expiry oracle; size_le_cap; delete_callback_exactly_once",
    ),
    "C17": dict(
        generated=True,   # skeleton facts regenerated from blocks.go (every bookkeeping access inside the locked region)
        lean=["GolibsVerif.Props.C17", "GolibsVerif.Props.C17Conc", "GolibsVerif.Props.Lin"],
        facts={"blocks.unlocked_state_access": [], "blocks.locked_methods": ["ArrangeBlock", "FreeBlock"]},
        seq=[dict(comp="blk", decisive=lambda d: d["op"].startswith("mon C17") or (not d["op"].startswith("hdr")))],
        go_cmds=("seq", "conc"),
        # concurrent callers: real goroutines parked right before the allocator's lock; the calls, in the order of
        # their locked sections, are replayed through the SAME sequential model (results, Available, header bytes)
        conc=[dict(comp="blkconc", driver="blk", decisive=lambda d: d["op"].startswith("mon C17") or (not d["op"].startswith("hdr")))],
        rule="cases = (geometry, buffer size, fit flag, preset header bytes, op sequence): 22 block sizes (negative, 0, non-powers of two, powers of two up to 2048, page size +-1, multiples of the page size) x 7 small buffer sizes + exact-fit/oversized/too-small buffers x fit; exhaustive sequences to depth 5 (quick) / 6 (thorough) over {ArrangeBlock, FreeBlock(first, second, last, out of range), Block, reopen-on-a-copy, Available} on bs=1 (1 and 2 segments, 4 preset header contents) and bs=2; random runs of 20..300 ops on bs in {1,2,4,8} with 1..3 segments; buffers larger than 200 kB run with Go-side monitors only; non-trivial = an allocation followed a free, a segment boundary was crossed, the state was (re)opened with allocations present, or an invalid geometry was rejected; distinct by hash of (header, ops)",
        assumptions=["the differential run uses the in-memory Buffer; a memory-mapped file is exercised by the Go-side window scenario (close / narrower window / full reopen); mmap persistence itself is the kernel", "fewer than 2^31 blocks (available is an int32)", "concurrent callers: the sequential model is applied to the calls in the order of their locked sections (harness: callers parked right before the lock + free-running goroutines); atomicity of a locked section is Go's sync.Mutex"],
        trusted=["modelled, not verified: Buffer(offs,size) slicing, os.Getpagesize() (its value is passed to the model), sync/atomic counter"],
        explanation="C17Conc.concurrent_refines_set / order_respects_real_time / completed_in_order (generic atomic-step linearizability instantiated with Blk.B.step; premise = skeleton fact blocks.unlocked_state_access = []); C17.refines_set (outputs equal to the set model for every op sequence from any opened allocator: least free index handed out, ErrExhausted iff full, Available exact, reopen reproduces the set), geometry_valid_iff_accepted, ranges_disjoint, reopen_same_state, data_untouched; legacy_accepts_invalid is the kernel-checked witness of D4",
    ),
    "C12": dict(
        generated=True,   # lock-region fact regenerated from timeout.go: heap, watcher counter, future.idx / future.f only under the lock
        facts={"timeout.unlocked_state_access": [], "timeout.locked_methods": ["add", "cancel", "futureAsString", "watcher"]},
        lean=["GolibsVerif.Props.C12", "GolibsVerif.Props.C13Exec"],
        seq=[dict(comp="tmo", decisive=lambda d: d["op"].startswith("mon C12"))],
        go_cmds=("seq", "conc"),
        # public API only, real clock: the whole range of time.Duration incl. the "never" sentinel; still builds when
        # a change of representation breaks the package-internal accessors
        api=[dict(comp="tmoapi", decisive=lambda d: d["op"].startswith("mon C12"))],
        # the concurrent side (Cancel from other goroutines parked right before the dispatcher's lock while
        # watchers pop): the pool trace harness of C13; what C12 talks about = its timer monitors
        conc=[dict(comp="pool", driver="pooltrace",
                   decisive=lambda d: any(d["op"].startswith("mon " + m) for m in ("C12", "C13-never-early", "C13-at-most-once", "C13-cancelled-never-starts", "C13-every-live-future-fires", "C13-someone-responsible")),
                   ignore=lambda d: d["op"].startswith("mon C13-winds-down") or d["op"].startswith("mon C13-init-config"))],
        rule="cases = sequences of the dispatcher's critical sections driven on a private callControl through the package's own add()/cancel()/heap.Pop: exhaustive to depth 6 (quick) / 7 (thorough) over {add with fire time 1,2,3 (ties), cancel of each of the first 4 futures (repeated, after pop), pop}; random sequences of 10..120 ops with fire-time spreads 3/10/1000; the snapshot [(id, idx, fireT)] of the real heap array and the idx field of EVERY future created so far are compared after every op; non-trivial = a Cancel hit a non-last heap position or two equal deadlines coexisted; distinct by hash of the op list. Plus bursts (70..600 pending, drain, re-cancel, regrow). Concurrent side: the pool trace harness of C13 (real dispatcher, virtual clock) with Cancel() calls issued from other goroutines and parked right before the dispatcher's lock while watchers pop and other futures move (cancelhold / release)",
        assumptions=["Cancel is only called on a future that Call returned (validOps)", "the watcher's decision `!now.Before(head.fireT)` and real timers are tied by the pool trace run"],
        trusted=["modelled, not verified: Go's container/heap is TRANSCRIBED (up/down/Push/Pop/Remove) and proved; sync.Mutex makes every dispatcher section atomic"],
        explanation="C12.idx_inv (index integrity + heap order for every sequence of critical sections), cancel_removes_exactly, never_early, at_most_once, cancel_before_due_never_starts, root_is_min",
    ),
    "C01": dict(
        # only when the instrumented harness cannot be built against /repo: public API, default 10 s lease (about 40 s)
        api_fallback=[dict(comp="lockapi", decisive=lambda d: d["op"].startswith("mon C01"), timeout=300)],
        lean=["GolibsVerif.Props.C01", "GolibsVerif.Props.C01Exec"],
        seq=[],
        go_cmds=("seq", "conc"),
        conc=[dict(comp="lock", driver="locktrace", args=["-focus", "C01"],
                   decisive=lambda d: d["op"].startswith("mon C01"),
                   ignore=lambda d: d["op"].startswith("mon ") and not d["op"].startswith("mon C01")),
              # real time, real storage, no faults: scenarios in which a second caller gets in although the holder is
              # alive and every call is answered (a lease granted with a stale deadline, a renewal chain cut short)
              dict(comp="lockrt", driver="monitors", decisive=lambda d: d["op"].startswith("mon C01"),
                   ignore=lambda d: not d["op"].startswith("mon C01"))],
        rule=LOCK_RULE + LOCK_RULE_RT,
        assumptions=LOCK_ASSUME,
        trusted=LOCK_TRUSTED,
        explanation=LOCK_EXPL["C01"],
    ),
    "C04": dict(
        # only when the instrumented harness cannot be built against /repo: public API, default 10 s lease (about 40 s)
        api_fallback=[dict(comp="lockapi", decisive=lambda d: d["op"].startswith("mon C04"), timeout=300)],
        lean=["GolibsVerif.Props.C04", "GolibsVerif.Props.C04Live", "GolibsVerif.Props.C04Fair", "GolibsVerif.Props.C01Exec"],
        seq=[],
        go_cmds=("seq", "conc"),
        conc=[dict(comp="lock", driver="locktrace", args=["-focus", "C04"],
                   decisive=lambda d: d["op"].startswith("mon C04"),
                   ignore=lambda d: d["op"].startswith("mon ") and not d["op"].startswith("mon C04")),
              dict(comp="lockloss", driver="monitors", decisive=lambda d: d["op"].startswith("mon C04")),
              # real in-memory storage, real time: cancellation exactly at the hand-off must leave the lock and the
              # storage usable (lockrt's cancel-at-handoff scenario)
              dict(comp="lockrt", driver="monitors", decisive=lambda d: d["op"].startswith("mon C04"),
                   ignore=lambda d: not d["op"].startswith("mon C04"))],
        rule=LOCK_RULE + " Plus three Go-side scenarios on the real in-memory store (component lockloss): the lock record is deleted while the lock is held (lease lost — outside the model's lease assumption) and the holder unlocks: Unlock must return, a caller queued on the same Locker must be handed the lock, the Locker must be able to acquire again, no record may be left",
        assumptions=LOCK_ASSUME,
        trusted=LOCK_TRUSTED,
        explanation=LOCK_EXPL["C04"],
    ),
    "C05": dict(
        # only when the instrumented harness cannot be built against /repo: public API, default 10 s lease (about 40 s)
        api_fallback=[dict(comp="lockapi", decisive=lambda d: d["op"].startswith("mon C05"), timeout=300)],
        generated=True,   # Generated/LockConsts.lean: renewal / retry divisors, default lease, where the deadline is computed
        lean=["GolibsVerif.Props.C05", "GolibsVerif.Props.C05Timed", "GolibsVerif.Props.C05Cell", "GolibsVerif.Props.C01Exec"],
        seq=[],
        go_cmds=("seq", "conc"),
        conc=[dict(comp="lock", driver="locktrace", args=["-focus", "C05"],
                   decisive=lambda d: d["op"].startswith("mon C05"),
                   ignore=lambda d: d["op"].startswith("mon ") and not d["op"].startswith("mon C05")),
              dict(comp="lockrt", driver="monitors", decisive=lambda d: d["op"].startswith("mon C05"))],
        rule=LOCK_RULE + LOCK_RULE_RT,
        assumptions=LOCK_ASSUME,
        trusted=LOCK_TRUSTED,
        explanation=LOCK_EXPL["C05"],
    ),
    "C03": dict(
        lean=["GolibsVerif.Props.C03"],
        seq=[dict(comp="kvinmem", driver="kv", args=["-focus", "C03"]), dict(comp="kvredis", driver="kv", args=["-focus", "C03"])],
        rule="cases = timed histories of Storage calls run on BOTH backends (in-memory; Redis through in-process miniredis) under a virtual clock: every op kind as the first one after an expiry (3 expiry kinds x 5 time advances), fixed contract scripts (repeated keys in GetMany/PutMany, empty GetMany/PutMany, nil/empty values, glob patterns), exhaustive sequences to depth 3 (quick) / 4 (thorough) over a 12-op alphabet, random histories of 5..60 ops over keys {a,b,ab,zz/1}, CAS/Wait with current/older/never-issued versions; in-memory additionally with unconstrained times (expiry == now, already expired at write); Redis additionally with leading-'/' keys (known finding KF-2); versions compared up to renaming by first occurrence; non-trivial = a read after a write of the same key, or an op on a key whose expiry has passed; distinct by hash of the op list",
        assumptions=["Redis: keys/patterns do not start with '/', every written expiry lies in the future, no operation exactly at an expiry instant (1 ms TTL resolution) — RedisOK", "glob subset: literals, '*', '?'", "nil and empty values are the same value; a record returned alongside an error is not compared"],
        trusted=["modelled, not verified: protobuf record codec, go-redis, miniredis' Redis semantics (SET NX/PX, MSET, MGET, DEL, SCAN MATCH, TTL via FastForward), gobwas/glob; ULID generator = never repeats", "time.Now() in inmem.go / redis.go redirected to a virtual clock by the textual instrumenter (overlay of the CURRENT source)"],
        explanation="C03.inmem_refines_spec / redis_refines_spec / backends_agree for every timed history; contract facts (create_reports_stored_version, cas_outcomes, get_after_put)",
    ),
    "C06": dict(
        lean=["GolibsVerif.Props.C06"],
        seq=[dict(comp="kvinmem", driver="kv", args=["-focus", "C06"]), dict(comp="kvredis", driver="kv", args=["-focus", "C06"])],
        go_cmds=("seq", "conc"),
        # a BLOCKED WaitForVersionChange must see an expiry like a Delete (released with ErrNotExist): the waiter
        # harness of C07 (virtual clock, harness-owned expiry timers); what C06 talks about = its expiry monitors
        conc=[dict(comp="waiters", driver="waittrace",
                   decisive=lambda d: d["op"].startswith("mon C07") and "expir" in d["detail"],
                   ignore=lambda d: not (d["op"].startswith("mon C07") and "expir" in d["detail"]))],
        rule="same histories as C03 (without the leading-'/' stream); the first block forces EVERY operation kind (Get, GetMany, CasByVersion, Delete, Create, ListKeys, WaitForVersionChange, Put, PutMany) to be the first one to touch a key whose short / long / absent expiry has or has not passed; non-trivial = first op on an expired key, or read after write; distinct by hash of the op list",
        assumptions=["as C03"],
        trusted=["as C03"],
        explanation="C06.expired_eq_deleted_spec (whole continuations indistinguishable), expired_outcomes, never_dropped_early on the contract; both I-models inherit them through the C03 refinements",
    ),
    "C20": dict(
        lean=["GolibsVerif.Props.C20"],
        # what UnzipToFolder / ZipFolder∘UnzipToFolder leave on the real file system (paths AND contents) is the
        # property's subject: a different result is a failing input; only the lexical helper ops (clean / join,
        # which tie path/filepath to the model's cleanAbs) are internal
        seq=[dict(comp="zip", stateless=True, decisive=lambda d: d["op"].startswith("mon C20") or d["op"].split(" ")[0] in ("unzip", "roundtrip"))],
        rule="cases = calls on the real file system inside a sandbox under /verif/.work: (1) 300 absolute paths over segments {a,b,..,.,empty,'c d',unicode} through filepath.Clean / filepath.Join vs the lexical model; (2) hostile archives built with archive/zip (entry names with '..', absolute names, '.', 'a/..', directory/file clashes in both orders, directory entries, duplicate names, unicode) + 150 (thorough 2000) random archives, with a before/after snapshot of everything three levels above the destination; (3) 60 (600) random trees (depth 0..4, empty/binary/multi-line contents, names with spaces, dots, unicode, *.skip) x filter {all, notskip, none} x recursive x source-directory spelling {abs, abs/, ./rel, rel/, rel}; non-trivial = tree depth >= 2 with a filter rejecting something, or an entry name containing '..' or starting with '/'; distinct by op text",
        assumptions=["regular files and directories only (no symlinks, permissions, special files)", "the destination directory is an absolute clean path"],
        trusted=["modelled, not verified: archive/zip codec, the real file system (os.Create/MkdirAll/Walk); path/filepath.Clean/Join/Rel are modelled lexically (`cleanAbs`) and compared with the real functions by the run; entry names are split at '/' by the driver"],
        explanation="C20.confined (any archive: everything created lies inside the destination), escaping_entry_rejected, roundtrip (exactly the selected files with path and content), target_of_entryName; legacy_escapes is the kernel-checked witness of D11",
    ),
    "C02": dict(
        generated=True,
        lean=["GolibsVerif.Props.C02Spec", "GolibsVerif.Props.Lin", "GolibsVerif.Props.C03", "GolibsVerif.Props.C02Redis"],
        # the sequential histories of C03 carry the contract's version monitors too (fresh version on every
        # successful write incl. same-value writes, at most one CAS success per version): here they count
        seq=[dict(comp="kvinmem", driver="kv", args=["-focus", "C02"], decisive=lambda d: d["op"].startswith("mon C02") or d["op"].split(" ")[1:2] == ["cas"]),
             dict(comp="kvredis", driver="kv", args=["-focus", "C02"], decisive=lambda d: d["op"].startswith("mon C02") or d["op"].split(" ")[1:2] == ["cas"])],
        go_cmds=("seq", "conc"),
        facts={"inmem.unlocked_state_access": [], "inmem.single_section_methods": ["CasByVersion", "Create", "Delete", "Get", "GetMany", "ListKeys", "Put", "PutMany"],
               "inmem.other_methods": ["WaitForVersionChange"]},
        conc=[dict(comp="kvconc-inmem", driver="kvlin", decisive=lambda d: d["op"].startswith("mon C02")),
              dict(comp="kvconc-redis", driver="kvlin", decisive=lambda d: d["op"].startswith("mon C02")),
              dict(comp="rediscmd", driver="redistrace", decisive=lambda d: d["op"].startswith("mon C02") or d["op"].startswith("ret ")),
              # a batch with an expiring record vs a single-key writer landing after its k-th command: value and TTL of a
              # record belong to ONE write (Go-side monitors; expiries are not in the command-level model)
              dict(comp="redisttl", driver="monitors", decisive=lambda d: d["op"].startswith("mon C02"))],
        rule="cases = concurrent histories: 2-4 free-running threads x 2-5 operations over keys {a (75%), b} drawn from {Create, Get, Put, CasByVersion (with the version the thread saw last, or a never-issued one), Delete, GetMany with a repeated key, PutMany}, with staggered starts; in-memory: every operation's critical section is stamped by the instrumented lock and the section order is the linearization candidate; Redis (miniredis): a witness order is searched by the harness, plus 6 forced WATCH/EXEC races (a go-redis hook stops a CAS between its GET and its EXEC while another client writes); every history is emitted in witness order with invocation/response stamps and RE-VALIDATED by the Lean driver against Kv.Spec (real-time order + legality); non-trivial = two operations on one key overlapped in real time and one was a write; distinct by hash of the witness-ordered history. Redis command level (component rediscmd): 2-4 clients x 1-4 operations; a go-redis hook parks EVERY Redis command (SETNX, GET, MGET, SET, MSET, DEL, WATCH, MULTI/SET/EXEC) of every client, the scheduler releases one at a time (random choices plus 5 directed schedules: Create's SETNX/GET/SETNX retry, CAS overtaken between GET and EXEC by Put / Delete / Delete+Create, two CAS on one version); every command with its reply and every result is replayed through RedisConc.step by the Lean driver; non-trivial = an operation was invoked while another client was in the middle of its commands",
        assumptions=["WaitForVersionChange is excluded here (C07)", "no expiries in the concurrent runs (expiry is C06)", "Redis: each single command is atomic and EXEC after WATCH fails iff the key changed (miniredis / Redis semantics)"],
        trusted=["modelled, not verified: sync.Mutex (a critical section is atomic and lies between the call's invocation and response), go-redis (one command = one atomic server step; SET with PX/EX and NX as sent; WATCH/MULTI/EXEC), miniredis (TTLs counted down by FastForward in lock-step with the client's virtual clock; a key is gone when its TTL reaches 0; SETNX / EXEC semantics) — the command-level replay compares every reply, TTL and stored expiry with the Lean server model, so a divergence of these shows as a trace mismatch", "the concurrent Redis model keeps its clock still inside TTL windows and between a CAS's GET and EXEC (tickBlocked): real latency there is not modelled", "skeleton fact regenerated from inmem.go: every exported method except WaitForVersionChange is `s.lock.Lock(); defer s.lock.Unlock()`",
                 "the witness search (Go transcription of the contract) is untrusted: the Lean driver validates every witness"],
        explanation="LinThm.order_is_sequential / order_respects_real_time (any object whose operations take effect in one atomic step is linearizable in step order) + C03 refinements + C02 contract facts for all histories (fresh_versions, cas_same_version_at_most_once, racing_creators_one_winner, loser_changes_nothing). For Redis: C02Redis.simulates / linearizable — the command-level concurrent model of redis.go (any number of clients, any interleaving of their commands, unboundedly many lost WATCH/EXEC races and Create retries) is a run of the atomic-step system over the sequential Redis client model of C03 (Kv.Redis: server keys under rKey with TTL deadlines and the 1 ms clamp; a tick is an operation of a clock thread), hence linearizable with that model's results for ALL expiries and keys; linearizable_to_contract: where the linearized history satisfies C03's RedisOK the results are the contract's (Kv.Spec); past_expiry_visible_until_next_ms, boundary_instant, aliasing_keys_share_a_record; exec_sees_what_get_saw (the WATCH invariant), lin_once, ret_is_lin_result; putmany_loop_entry / putmany_loop_is_puts / putmany_loop_run (a PutMany with an expiring record is a sequence of complete Puts, one per record, in order, under ANY interleaving: per-key effects), tick_only_outside_ttl_windows, expired_record_invisible_to_all_clients; the model is tied to redis.go + go-redis + miniredis by the command-level trace replay; free-running histories additionally get per-history Lean-validated witnesses",
    ),
    "C07": dict(
        generated=True,   # lock-region fact regenerated from inmem.go: records / waiter table (and the helpers that assume the lock) only under the lock
        facts={"inmem.unlocked_state_access": []},
        lean=["GolibsVerif.Props.C07", "GolibsVerif.Props.C07Exec", "GolibsVerif.Props.C07Redis"],
        seq=[],
        go_cmds=("seq", "conc"),
        conc=[dict(comp="waiters", driver="waittrace", decisive=lambda d: d["op"].startswith("mon C07") or d["op"].startswith("ret ")),
              # Redis backend: the polling waiter, every GET of every waiter parked and released one at a time
              dict(comp="rediswait", driver="rediswait",
                   decisive=lambda d: d["op"].startswith("mon C07") or d["op"].startswith("ret ") or d["op"].startswith("poll ") or d["op"].startswith("wake "))],
        rule="cases = scripts on the REAL in-memory storage with 1..3 waiter goroutines on 1..2 keys: a prefix of writes (some with a 12 ms expiry), waiters started with the current / a stale / a never-issued version, then 3..9 actions from {start waiter, cancel waiter i, Put, Put with expiry, Create, CasByVersion with the current or a stale version, Delete, let the record expire}; after each action the harness waits until every waiter has returned or is parked in its select (goroutine-stack inspection); every critical section of inmem.go (announced by the instrumented lock, attributed to its goroutine, with the waiter table as seen under the lock) becomes a trace event and the Lean driver replays the trace through Waiters.Exec, comparing the waiter table after every section and every waiter's verdict; leftover waiters are cancelled at the end and the table must be empty; non-trivial = a mutation or cancellation hit a key on which waiters were parked; distinct by hash of the event list. Redis backend (component rediswait): 1..3 waiter goroutines call the REAL polling WaitForVersionChange against miniredis; a go-redis hook parks every GET of a waiter; the scheduler interleaves complete writer operations (Put / Create / CasByVersion current or stale / Delete, some with expiries), even clock ticks (odd expiries), cancellations and the release of one parked GET at a time (11 directed scripts + 150 (2000) random ones of 8..30 actions; the sleep between two polls of an unchanged record must stay below 500 ms); every reply and verdict is replayed through Model/RedisWait by the Lean driver; a free-running phase checks in real time that an unchanged record keeps the waiter blocked (1.2 s) and that a Put / Delete / cancellation then ends the wait within 500 ms with the right verdict",
        assumptions=["Redis backend: the length of a sleep between two polls (2..64 ms in the code) is not modelled — the theorem is 'returns at the FIRST poll after the change'; real-time promptness is sampled by the free-running phase", "promptness is measured by the settle deadline (10 s), not proved"],
        trusted=["modelled, not verified: Go select / channel close semantics, sync.Mutex; the textual instrumenter announces every lock/unlock site of the CURRENT inmem.go with its function name and ordinal (WaitForVersionChange#1 = check, #2 = ctx.Done path, #3 = expiry path)", "Redis waiter: go-redis refuses a GET whose context is done without reaching the server (observed and replayed as `get ctx`); the sleep between polls is real time (2..64 ms in the code) and only bounded, not modelled", "C07Exec.handle_sound / replay_reach: every accepted trace is a Waiters.Step execution"],
        explanation="C07.return_sound, no_lost_wakeup, table_exact, no_bookkeeping_left, cancel_isolated, wake_enabled for any number of waiters/keys/writers and every interleaving of the critical sections (in-memory backend); C07Redis (polling waiter of kvs/redis over the timed contract, any number of waiters, arbitrary writers, ticks, cancellations): verdict_sound / poll_complete (nil only on a visible other version, ErrNotExist only on absence, the context's error only with a done context), sleeping_means_unchanged, change_is_permanent (versions are never reused, expiry only removes: once a return condition holds it holds for ever), returns_at_first_poll_after_change, cancelled_returns, waiters_read_only / cancel_isolated / server_oblivious_to_waiters (no bookkeeping exists: the server's state equals that of the run without any waiter event)",
    ),
    "C09": dict(
        generated=True,   # lock-region fact regenerated from ecache.go: residents / in-flight table touched only under the lock
        facts={"ecache.unlocked_state_access": [], "ecache.locked_methods": ["Clear", "GetOrCreate", "Remove"]},
        lean=["GolibsVerif.Props.C09", "GolibsVerif.Props.C09Exec", "GolibsVerif.Props.Lin"],
        seq=[],
        go_cmds=("seq", "conc"),
        conc=[dict(comp="lruconc", driver="lrutrace", decisive=lambda d: d["op"].startswith("mon C09") or d["op"].startswith("ret ") or d["op"].startswith("dels "))],
        rule="cases = executions of 2..4 REAL goroutines on one ECache (capacities 1..3, key mapping identity or pk%2, 2..3 keys) under a controlled scheduler: the create function is a gate, so a creation blocks until the scheduler lets it succeed (with a fresh value) or fail; actions = {start GetOrCreate(k) / Remove(k) / Clear on an idle caller, release a pending creation as success or failure}; after every action the system settles (each caller at a create gate, blocked on another caller's in-flight channel — goroutine-stack inspection — or returned); every critical section of ecache.go (announced by the instrumented lock, with resident entries in recency order and the in-flight keys as seen under the lock), every create begin/end, every delete callback and every returned value become trace events which the Lean driver replays through Lru.Conc.Exec; at the end all creations are released, a Clear is issued and created-vs-deleted is balanced; non-trivial = a call was made while another call's creation was in flight; distinct by hash of the event list",
        assumptions=["a panicking create function is out of scope", "the create function and the delete callback do not call back into the cache"],
        trusted=["modelled, not verified: sync.Mutex, channel close wakes all receivers; the instrumenter announces the lock sites of the CURRENT ecache.go (GetOrCreate#1/#2, Remove#1, Clear#1)", "C09Exec.handle_sound / replay_reach: every accepted trace is an Lru.Conc.Step execution"],
        explanation="C09.single_flight (at most one creator per key; in-flight table exact), size_le_cap, step_simulates (every step is invisible or is the linearization point of one call and acts exactly like the sequential Lru.EC operation — forward simulation; with LinThm this gives linearizability), accounting (created = deleted + resident + unpublished at every state), waiter_enabled",
    ),
    "C13": dict(
        generated=True,
        facts={"timeout.unlocked_state_access": [], "timeout.locked_methods": ["add", "cancel", "futureAsString", "watcher"]},
        lean=["GolibsVerif.Props.C13", "GolibsVerif.Props.C13Live", "GolibsVerif.Props.C13Exec", "GolibsVerif.Props.C12"],
        seq=[],
        go_cmds=("seq", "conc"),
        conc=[dict(comp="pool", driver="pooltrace", decisive=lambda d: d["op"].startswith("mon C13"))],
        api=[dict(comp="tmoapi", decisive=lambda d: d["op"].startswith("mon C13") or d["op"].startswith("mon C12-never-early"))],
        rule="cases = executions of the REAL package-level dispatcher under a virtual clock and harness-controlled sleep timers (time.Now / time.NewTimer of the CURRENT timeout.go redirected by the instrumenter), pool limits {1,2,3,10}, idle timeouts {5,20,100} ms: scripts of 4..16 actions from {Call with delay 0/1/3/10/50/500 ms (far and near futures, a near one while the dispatcher sleeps towards a far one), a burst of limit+2 futures due at once, Cancel of a random future (incl. the head), advance time by 1/2/5/11/idle+1/60 ms, let an expired sleep timer fire}; then time is advanced past every fire time and expired timers are served fairly until every live future has started, then idle rounds until the pool has wound down to zero watchers; every locked section of the watcher loop (with watchers / heap length / wake tokens seen under the lock), every sleep with its deadline, every callback start and every exit become trace events replayed by the Lean driver through Tmo.Pool.Exec; non-trivial = an arrival preceded the current head, or a burst; distinct by hash of the event list",
        assumptions=["fair scheduling of runnable goroutines (liveness is proved as 'someone is responsible' + enabledness, not as a temporal formula)", "fire times are pairwise distinct in the trace runs (ties are covered by the C12 heap correspondence)", "callbacks return promptly (a blocked callback occupies its watcher)", "a wake token sent while a watcher is blocked in select is consumed at once (the model allows it to linger: over-approximation)"],
        trusted=["modelled, not verified: Go select / timer / buffered channel semantics, goroutine spawn; the heap is abstracted to 'head = a pending future with the least fire time' (C12.root_is_min)", "C13Exec.handle_sound / replay_reach: every accepted trace is a Tmo.Pool.Step execution"],
        explanation="C13 theorems on the pool transition system (see Props/C13.lean: watchers_exact, someone_responsible / no_stuck_state or their stated partial forms, restart, burst_spawns, wind_down, started_were_due; Props/C13Live.lean: internal_step_decreases / internal_runs_bounded (no livelock of the watchers at a fixed clock), quiescent_nothing_due, every_due_future_starts (every maximal run of watcher steps ends with every due future started, no fairness assumption))",
    ),
}

# ------------------------------------------------------------------------------------------------
# texts for MANIFEST.json (tools/mkmanifest.py)
_NOTE = ("Trusted: Lean 4.33 kernel with propext/Classical.choice/Quot.sound only (audited on every run); the hand-written "
         "I-model agrees with the Go code only as far as the correspondence run of this check shows (differential testing); "
         "Go harness, overlay accessors, extractor and line-protocol driver. Modelled-not-verified parts are listed in the evidence file.")

def _t(level, technique, note=_NOTE):
    return dict(level=level, technique=technique, note=note)

MANIFEST_TEXT = {
    "C03": _t("Lean proof that the in-memory and the Redis I-model each return exactly what the Storage contract (Spec) prescribes for every timed history (Redis under the stated RedisOK hypotheses); both I-models are tied to kvs/inmem and kvs/redis (miniredis) by a differential run under a virtual clock", "Lean 4 refinement proofs (two backends ⊑ contract) + model/code correspondence"),
    "C06": _t("Lean proof on the contract that a store with an expired key is indistinguishable from the store with the key erased for every continuation, plus the listed per-operation outcomes; inherited by both I-models through the C03 refinements; tie as C03 with every operation kind forced to be the first after an expiry", "Lean 4 proof (expired ≡ erased on the Spec, lifted by refinement) + model/code correspondence"),
    "C08": _t("Lean proof that the ECache I-model's results and callback invocations equal those of a reference LRU (unordered residents + last-use stamps) for every call sequence, capacity, key mapping and create/expiry oracle; tied to container/lru by a differential run that also compares every create/delete callback", "Lean 4 refinement proof (I-model ⊑ reference LRU) + model/code correspondence"),
    "C10": _t("Lean proof that the linked-list I-model of iterable.Map never dereferences nil and returns the Spec's outputs for every history with any number of open iterators; tied to map.go by a differential run that also compares the linked nodes (state, refCnt, key) after every op", "Lean 4 refinement proof (I-model ⊑ log/stamp Spec) + model/code correspondence"),
    "C11": _t("Lean proof that after any map history the linked nodes are exactly live entries + sentinel + removed entries pinned by open iterators (≤ #iterators), nothing retained when all are closed; composition theorem C11Lru.lru_bounded: the LRU cache expressed as programs over the map's node-chain model (the map calls ecache.go makes, in its order, incl. Clear's iterator and First's temporary one) never panics, leaves no iterator open, holds ≤ cap entries and links exactly entries+1 ≤ cap+1 nodes after EVERY history of GetOrCreate/Remove/Clear; tied to the code by differential runs that compare the real node chain (of the map and of the cache's internal map) with the models after every op, plus Go-side monitors walking the real list", "Lean 4 invariant + composition proofs + model/code correspondence with real-object monitors"),
    "C12": _t("Lean proof of index integrity + heap order + cancel-removes-exactly + never-early + at-most-once for every sequence of dispatcher critical sections over a transcription of container/heap; tied to timeout.go by driving the package's own add/cancel/heap.Pop on a private dispatcher and comparing the heap array and every future's idx after every op", "Lean 4 invariant proofs over transcribed container/heap + model/code correspondence"),
    "C14": _t("Lean proof that the ring-buffer I-model refines a bounded FIFO queue for every capacity and call sequence and keeps consumed slots zero; tied to ringbuffer.go by a differential run incl. the backing array and a Go-side zero-slot monitor", "Lean 4 refinement proof (I-model ⊑ bounded queue) + model/code correspondence"),
    "C15": _t("Lean proof of round trip, exact consumption, size = written (against the size function REGENERATED from the Go source on every run), short-buffer ⇔ error, writer = marshal and concatenation decoding for all values; tied by regeneration + differential run with Go-side round-trip/size/aliasing monitors", "Lean 4 proofs over a regenerated definition + model/code correspondence"),
    "C16": _t("Lean proof that every Unmarshal function is total on arbitrary byte lists, stays in bounds and consumes 0 on error (explicit int64 wrap-around and checked slicing in the model); tied by a differential run on exhaustive short inputs and adversarial length prefixes, each call under recover", "Lean 4 totality proof + model/code correspondence"),
    "C17": _t("Lean proof that the allocator I-model refines a set of allocated indices for every op sequence from any opened allocator (least free index, ErrExhausted iff full, Available exact, reopen reproduces the set), geometry accepted iff valid, ranges disjoint, data untouched; concurrent callers: every interleaving of calls whose bookkeeping accesses lie inside one mutex region (fact regenerated from blocks.go) is a sequential history in section order to which the refinement applies (C17Conc.concurrent_refines_set); tied to blocks.go by a differential run incl. header bytes, by real goroutines parked before the lock and replayed in section order, and Go-side monitors", "Lean 4 refinement proof (I-model ⊑ set) + model/code correspondence"),
    "C18": _t("Lean proof that the mixer I-model equals the reference two-pointer merge under every HasNext/Next/Reset pattern, is an interleaving, merges sorted inputs sorted; tied to mixer.go by a differential run", "Lean 4 refinement proof (I-model ⊑ reference merge) + model/code correspondence"),
    "C19": _t("Lean proof, against the class list and both tables REGENERATED from errors.go/grpc.go, that Is(GRPCWrap(e), c) holds exactly for the chain's class in any map order, GRPCWrap is idempotent, embedded objects stay extractable, every code maps to one class; tied by regeneration + differential run with Go-side monitors", "Lean 4 proofs over regenerated tables (decide + structural induction) + model/code correspondence"),
}

MANIFEST_TEXT.update({
    "C13": _t("Lean proofs on a transition system of the dispatcher's worker pool (watcher loop decisions, wake tokens, spawn/exit, discrete time): the watcher counter is exact, whenever a future is pending some watcher is responsible for it (awake, sleeping no longer than until its fire time, or about to receive a wake token) so a due future can always be served, a Call with no watcher starts one, a due backlog spawns, idle watchers exit; the watcher steps strictly decrease a measure at a fixed clock, so every schedule of the watchers reaches within a bounded number of steps a state in which every due future has been started (inevitability without a fairness assumption); tied to the code by replaying real executions of the dispatcher under a virtual clock with harness-controlled timers through the executable model (proved sound). Lateness in wall-clock terms rests on the Go scheduler running the watchers (not mechanised)", "Lean 4 invariant/enabledness proofs over a transition system + trace refinement of real executions under a virtual clock"),
    "C09": _t("Lean proofs on the N-caller transition system of ecache.go: single-flight (at most one creation per key in progress, in-flight table exact), size <= capacity, step-wise forward simulation to the sequential LRU model (results, evictions and callbacks of each linearization point equal the sequential operation's), exact accounting of created/deleted/resident/unpublished values; tied to the code by replaying real executions (instrumented critical sections, gated create function, delete callbacks) through the executable model, proved sound w.r.t. the step relation", "Lean 4 invariant + forward-simulation proofs over an N-process transition system + trace refinement of real executions"),
    "C07": _t("Lean proofs on a small-step model of inmem's WaitForVersionChange + mutators (any number of waiters, keys, writers): verdict soundness, no lost wake-up (a waiter parked on an open channel implies the record still has the awaited version and the channel is the key's current waiter record), exact waiter counts, empty table when nobody waits, isolation of a cancelling waiter; tied to the code by replaying the real critical sections (instrumented lock + goroutine attribution + table snapshots) through the executable model, proved sound w.r.t. the step relation", "Lean 4 inductive-invariant proofs over a small-step model + trace refinement of real critical sections"),
    "C02": _t("Lean: generic theorem that an object whose operations each take effect in one atomic step is linearizable in step order (real-time respecting, sequentially legal); contract theorems for all histories (fresh versions, at most one CAS winner per version, one winning creator, losers change nothing); in-memory backend: regenerated skeleton fact (each method = one lock region) + instrumented critical-section order replayed by the Lean driver; Redis backend: theorem C02Redis.linearizable — the command-level concurrent model of redis.go (any number of clients, any interleaving of SETNX/GET/SET [PX]/MSET/MGET/DEL/WATCH/MULTI-EXEC and clock ticks, unboundedly many lost races and retries; PutMany's loop-of-SET path as a sequence of Puts) refines the atomic-step system over the contract — tied to redis.go + go-redis + miniredis by replaying real command-level executions (every command parked and released one at a time by a go-redis hook) through the model; free-running Redis histories additionally get a Lean-validated linearization witness. Expiries and a clock are part of the concurrent model; the clock does not advance between a client computing a relative TTL and the server applying it (one command latency in reality), nor between a CAS's GET and its EXEC (whether the expiry of a WATCHed key fails the EXEC is server specific)", "Lean 4 linearizability proofs (generic atomic-step theorem + forward simulation of the Redis command-level model) + trace refinement of real command-level executions"),
    "C20": _t("Lean proof on a lexical path / small file-system model that UnzipToFolder creates files and directories only inside the destination for ANY archive, and that ZipFolder∘UnzipToFolder reproduces exactly the selected files (path and content); tied to files.go by a differential run on a sandboxed real file system (hostile archives, random trees, all filter/recursive/spelling combinations) with Go-side confinement and round-trip monitors", "Lean 4 proofs over a path/file-system model + model/code correspondence on the real file system"),
    "C01": _t("Lean proof of mutual exclusion for the N-process transition system of kvlock.go (any number of goroutines/Lockers/providers, every interleaving at storage-call granularity, cancellation anywhere, unbounded request-lost/reply-lost faults) under the explicit lease assumption; tied to the code by trace refinement: real kvsLock goroutines run under a controlled scheduler and every recorded trace is replayed through the executable model, which is proved sound w.r.t. the transition relation (C01Exec)", "Lean 4 inductive-invariant proof over an N-process transition system + trace refinement of real executions"),
    "C04": _t("Lean proofs on fault-free runs: no residue at quiescence, token/counter exact, no orphan record, deadlock freedom (some caller inside a call can always move when nobody holds), hand-off enabledness, no acquisition after shutdown, failure paths restore the Locker, and the branching-time core of liveness (service_reachable / everyone_can_be_served: no reachable state cuts an acquiring caller off — a finite continuation serves it, and all acquiring callers one after the other); tie as C01 plus Go-side residue / stuck / lease-loss monitors. Inevitability over infinite executions under weak fairness (C04Fair): no lost wake-up in the storage wait, no lost token in the local wait, cancelled / shut-down waiters return, Unlock completes, a released lock is taken by some waiting caller, and either a given caller acquires or acquisitions go on for ever; a given caller can be overtaken for ever by callers that keep re-locking (proved as a counter-run: the lock has no queue)", "Lean 4 invariant, enabledness, reachability (AG EF) and fairness (leads-to over infinite executions) proofs + trace refinement of real executions"),
    "C05": _t("Lean proofs: a TIMED model of the lease over constants regenerated from kvlock.go on every run (renewal and retry divisors, default lease, where the deadline is computed) — the record never lapses while held under the timing margin, the default configuration tolerates two consecutive transient failures at 500 ms lateness, a deadline computed before the wait lapses (negative); the renewal chain stays alive while the lock is held (under the stated timing assumption; the unrestricted statement is refuted in Lean), leftovers after Unlock are stale and die at their next CAS; in a second model where storage answers arrive arbitrarily late (Unlock and re-Lock in between) the chain stays alive for the code's CompareAndSwap discipline and provably dies for a Swap variant, the order of operations on l.future being regenerated from kvlock.go; a lapsed record lets a waiter acquire, timing margin arithmetic; tie as C01 with scheduler-driven timer firing and a Go-side chain-alive monitor. Real-time behaviour (timers, latency) is runtime and not proved", "Lean 4 invariant proofs (partial: timing assumption explicit) + trace refinement of real executions"),
})

NOT_CLAIMED = {
}
