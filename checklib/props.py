"""Per-property configuration of ./check (what to build, which correspondences to run, how to
classify a disagreement).  Design rationale: DESIGN.md §3."""

GLOBAL_TRUSTED = [
    "Lean 4.33.0 kernel; axioms allowed: propext, Classical.choice, Quot.sound (audited per property theorem with #print axioms); no native_decide / bv_decide / sorry / own axioms (grep over comment-stripped sources)",
    "the hand-written I-model is tied to /repo only by the correspondence run of this check (differential testing on generated inputs; reach bounded by the generators listed under coverage.correspondence)",
    "Go harness (/verif/harness), package-internal accessors injected with `go build -overlay` under build tag verif, the line protocol and the Lean driver executable",
]


def _not_state_dump(prefixes):
    def f(d):
        return not any(d["op"].startswith(p) for p in prefixes)
    return f


PROPS = {
    "C14": dict(
        lean=["GolibsVerif.Props.C14"],
        seq=[dict(comp="ring", decisive=_not_state_dump(["buf"]))],
        rule="cases = op sequences on a fresh ring buffer: exhaustive over a 14-17 op alphabet to depth 4 (quick) / 5 (thorough) for capacities 0..4, rotated/pre-filled starts x depth 3, random sequences (5..120 ops) for capacities up to 200 with ReadN/Skip arguments up to 300; non-trivial = the read or write index wrapped, or a ReadN/Skip spanned the wrap point; distinct = by hash of (capacity, op list)",
        assumptions=["elements are ints; Go's zero value is 0", "At's panic message is not compared"],
        trusted=["modelled, not verified: Go slice bounds checks, copy(), SliceFill's doubling copy for >= 50 elements (exercised by capacities 49..200)"],
        explanation="C14.step_refines/refines_queue/consumed_slots_zero proved for every capacity and op list; correspondence ties Ring.RB to container/ringbuffer.go incl. backing array",
    ),
}
