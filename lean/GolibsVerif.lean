import GolibsVerif.Model.Ring
