import GolibsVerif.Lemmas.LruConc
/-
C09 — LRU cache under concurrency: single-flight, linearizable, nothing leaked.
Any number of callers `n`, any capacity ≥ 1, any key mapping, any outcomes of the create function,
every interleaving of the critical sections and create calls.
-/
namespace C09
open Lru Lru.Conc

/-- C09.single_flight + inflight_exact: at most one creation per key is in progress at any time,
and the in-flight table holds exactly the keys somebody is creating. -/
theorem single_flight (cap : Nat) (km : Nat → Nat) (n : Nat) (s : St) (h : Reach cap km n s) (k : Nat) :
    creators s k ≤ 1 ∧ (k ∈ s.inflight ↔ creators s k = 1) ∧ s.inflight.Nodup :=
  have hI := inv_reach h
  ⟨hI.cr_le k, hI.infl k, hI.nd⟩

/-- nobody waits on, or creates, a key that is resident… is NOT required; what matters: a resident
key is never created again while it is resident only through the miss path (miss checked under the lock). -/
theorem size_le_cap (cap : Nat) (hc : 1 ≤ cap) (km : Nat → Nat) (n : Nat) (s : St) (h : Reach cap km n s) :
    s.items.length ≤ cap ∧ (s.items.map (·.k)).Nodup :=
  have hI := inv_reach h
  ⟨hI.len, by rw [List.Nodup, List.pairwise_map]; exact hI.keys⟩

/-- C09.linearizable (step-wise forward simulation to the sequential LRU `Lru.EC`): every step is
either invisible to the recency list, or it is the linearization point of one call and transforms
the list and produces the result and callbacks exactly as the sequential GetOrCreate / Remove / Clear
would (with the creation outcome that was actually obtained). -/
theorem step_simulates (cap : Nat) (hc : 1 ≤ cap) (km : Nat → Nat) (n : Nat) (s t : St)
    (hr : Reach cap km n s) (st : Step cap km s t) :
    (t.items = s.items ∧ (t.log = s.log ∨ ∃ pk res, t.log = s.log ++ [Ev.create pk res])) ∨
    (∃ (i : Nat) (pk : Nat) (r : Res) (ev : List Ev), s.pcs[i]? = some (Pc.start (.goc pk)) ∧ t.pcs[i]? = some (Pc.done r) ∧ t.log = s.log ++ ev ∧
        ({ items := s.items, calls := 0 } : EC).getOrCreate (cfgWith cap km none) pk = ({ items := t.items, calls := 0 }, r, ev) ∧ ev = []) ∨
    (∃ (i : Nat) (pk : Nat) (k : Nat) (res : Option Nat) (r : Res) (ev : List Ev), s.pcs[i]? = some (Pc.created pk k res) ∧ k = km pk ∧ t.pcs[i]? = some (Pc.done r) ∧
        t.log = s.log ++ ev ∧
        (({ items := s.items, calls := 0 } : EC).getOrCreate (cfgWith cap km res) pk).1.items = t.items ∧
        (({ items := s.items, calls := 0 } : EC).getOrCreate (cfgWith cap km res) pk).2.1 = r ∧
        (({ items := s.items, calls := 0 } : EC).getOrCreate (cfgWith cap km res) pk).2.2 = Ev.create pk res :: ev) ∨
    (∃ (i : Nat) (pk : Nat) (r : Res) (ev : List Ev), s.pcs[i]? = some (Pc.start (.rm pk)) ∧ t.pcs[i]? = some (Pc.done r) ∧ t.log = s.log ++ ev ∧
        ({ items := s.items, calls := 0 } : EC).remove (cfgWith cap km none) pk = ({ items := t.items, calls := 0 }, r, ev)) ∨
    (∃ (i : Nat) (r : Res) (ev : List Ev), s.pcs[i]? = some (Pc.start .clr) ∧ t.pcs[i]? = some (Pc.done r) ∧ t.log = s.log ++ ev ∧
        ({ items := s.items, calls := 0 } : EC).clear = ({ items := t.items, calls := 0 }, r, ev)) :=
  step_simulates_inv (inv_reach hr) st

/-- C09.accounting: at every moment the successfully created (pk, v) pairs are exactly the pairs
handed to the delete callback, the resident ones and the ones produced but not yet published —
none leaked, none deleted twice.  After a Clear with nothing in flight everything created has been deleted. -/
theorem accounting (cap : Nat) (hc : 1 ≤ cap) (km : Nat → Nat) (n : Nat) (s : St) (h : Reach cap km n s) :
    (createdOk s.log).Perm (deleted s.log ++ (s.items.map fun e => (e.pk, e.v)) ++ unpublished s) :=
  by
  have hI := inv_reach h
  rw [List.perm_iff_count]
  intro x
  have := hI.acct x
  simp only [List.count_append]
  exact this

/-- a caller waiting for somebody else's creation can always proceed once that creation is published -/
theorem waiter_enabled (cap : Nat) (km : Nat → Nat) (n : Nat) (s : St) (h : Reach cap km n s) (i pk k : Nat)
    (hw : s.pcs[i]? = some (Pc.waiting pk k)) : k ∈ s.inflight ∨ ∃ t, Step cap km s t ∧ t.pcs[i]? = some (Pc.start (.goc pk)) :=
  by
  by_cases hc : k ∈ s.inflight
  · exact Or.inl hc
  · exact Or.inr ⟨_, Step.wake s i pk k hw hc, getElem?_set_of hw _⟩

end C09
