import GolibsVerif.Lemmas.Kv
/-
C06 — KV storage: an expired record is indistinguishable from a deleted one.
-/
namespace C06
open Kv

/-- C06.expired_eq_deleted_spec: if key `k` is expired at time `now`, every operation issued at
`now` — Get, GetMany, CasByVersion, Delete, Create, ListKeys, the WaitForVersionChange probe, Put… —
answers exactly as if the record had been erased, and so does everything afterwards. -/
theorem expired_eq_deleted_spec (s : Spec) (now : Nat) (k : String) (r : Rec)
    (hk : s.store.get k = some r) (he : expired r now = true) (h : Hist) (hm : Monotone now h) :
    (runSpec s h).2 = (runSpec { s with store := s.store.erase k } h).2 :=
  sorry

/-- the listed outcomes on an expired key -/
theorem expired_outcomes (s : Spec) (now : Nat) (k : String) (r : Rec)
    (hk : s.store.get k = some r) (he : expired r now = true) :
    (s.step now (.get k)).2 = .errNotExist ∧
    (s.step now (.getMany [k])).2 = .recs [none] ∧
    (∀ ver v exp, (s.step now (.cas k ver v exp)).2 = .errNotExist) ∧
    (s.step now (.delete k)).2 = .errNotExist ∧
    (∀ v exp, (s.step now (.create k v exp)).2 = .okVer s.nextVer) ∧
    (∀ ver, (s.step now (.wait k ver)).2 = .errNotExist) ∧
    (∀ pat ks, (s.step now (.list pat)).2 = .keys ks → k ∉ ks) :=
  sorry

/-- C06.never_dropped_early: a record whose expiration lies in the future (or is `now` itself), or
that has none, is returned. -/
theorem never_dropped_early (s : Spec) (now : Nat) (k : String) (r : Rec)
    (hk : s.store.get k = some r) (hl : ∀ e, r.exp = some e → now ≤ e) :
    (s.step now (.get k)).2 = .record r.val r.ver r.exp :=
  sorry

/-- both I-models inherit all of the above through C03 (stated for whole histories):
what they answer is what the Spec answers, and the Spec treats expired as erased. -/
theorem inmem_expired_eq_deleted (h : Hist) (hm : Monotone 0 h) :
    (runInmem Inmem.new h).2 = (runSpec Spec.new h).2 :=
  sorry

theorem redis_expired_eq_deleted (h : Hist) (hm : Monotone 0 h) (hr : RedisOK h) :
    (runRedis Redis.new h).2 = (runSpec Spec.new h).2 :=
  sorry

example : (runSpec Spec.new [(0, .put "a" "x" (some 3)), (4, .create "a" "y" none), (4, .delete "b")]).2 =
    [.okVer 1, .okVer 2, .errNotExist] := by decide

end C06
