import GolibsVerif.Lemmas.Kv
/-
C06 — KV storage: an expired record is indistinguishable from a deleted one.
-/
namespace C06
open Kv

/-- C06.expired_eq_deleted_spec: if key `k` is expired at time `now`, every operation issued at
`now` — Get, GetMany, CasByVersion, Delete, Create, ListKeys, the WaitForVersionChange probe, Put… —
answers exactly as if the record had been erased, and so does everything afterwards.
(`hn`: keys are distinct, as in every reachable state — `Kv.runSpec_nodup`.) -/
theorem expired_eq_deleted_spec (s : Spec) (hn : (s.store.map (·.1)).Nodup) (now : Nat) (k : String) (r : Rec)
    (hk : s.store.get k = some r) (he : expired r now = true) (h : Hist) (hm : Monotone now h) :
    (runSpec s h).2 = (runSpec { s with store := s.store.erase k } h).2 := by
  have hw : s.store.WF := (Store.WF_iff_nodup _).mpr hn
  have hsr : SR now s { s with store := s.store.erase k } := ⟨rfl, (Store.Eqv.purge hw hk he).symm⟩
  exact hsr.run h hm

/-- the listed outcomes on an expired key -/
theorem expired_outcomes (s : Spec) (hn : (s.store.map (·.1)).Nodup) (now : Nat) (k : String) (r : Rec)
    (hk : s.store.get k = some r) (he : expired r now = true) :
    (s.step now (.get k)).2 = .errNotExist ∧
    (s.step now (.getMany [k])).2 = .recs [none] ∧
    (∀ ver v exp, (s.step now (.cas k ver v exp)).2 = .errNotExist) ∧
    (s.step now (.delete k)).2 = .errNotExist ∧
    (∀ v exp, (s.step now (.create k v exp)).2 = .okVer s.nextVer) ∧
    (∀ ver, (s.step now (.wait k ver)).2 = .errNotExist) ∧
    (∀ pat ks, (s.step now (.list pat)).2 = .keys ks → k ∉ ks) := by
  have hw : s.store.WF := (Store.WF_iff_nodup _).mpr hn
  have hl : s.live now k = none := by rw [Spec.live_of_get hk, he]; rfl
  refine ⟨?_, ?_, ?_, ?_, ?_, ?_, ?_⟩
  · simp only [Spec.step, hl]
  · simp only [Spec.step, hl, List.map_cons, List.map_nil, Option.map_none]
  · intro ver v exp; simp only [Spec.step, hl]
  · simp only [Spec.step, hl]
  · intro v exp; simp only [Spec.step, hl, Spec.write]
  · intro ver; simp only [Spec.step, hl]
  · intro pat ks hks hmem
    rw [Spec.list_eq] at hks
    simp only [Out.keys.injEq] at hks
    subst hks
    rw [mem_sortStrings, List.mem_map] at hmem
    obtain ⟨kr, hkr, hkk⟩ := hmem
    have hv := Store.mem_vis.mp (List.mem_filter.mp hkr).1
    have hg := hw.get_of_mem (k := kr.1) (r := kr.2) hv.1
    rw [hkk, hk] at hg
    cases hg
    rw [he] at hv
    cases hv.2

/-- C06.never_dropped_early: a record whose expiration lies in the future (or is `now` itself), or
that has none, is returned. -/
theorem never_dropped_early (s : Spec) (now : Nat) (k : String) (r : Rec)
    (hk : s.store.get k = some r) (hl : ∀ e, r.exp = some e → now ≤ e) :
    (s.step now (.get k)).2 = .record r.val r.ver r.exp := by
  have he : expired r now = false := by
    unfold expired
    cases hr : r.exp with
    | none => rfl
    | some e => have := hl e hr; simp only [decide_eq_false_iff_not]; omega
  have hlive : s.live now k = some r := by rw [Spec.live_of_get hk, he]; rfl
  simp only [Spec.step, hlive]

/-- both I-models inherit all of the above through C03 (stated for whole histories):
what they answer is what the Spec answers, and the Spec treats expired as erased. -/
theorem inmem_expired_eq_deleted (h : Hist) (hm : Monotone 0 h) :
    (runInmem Inmem.new h).2 = (runSpec Spec.new h).2 :=
  IR.run h IR.new hm

theorem redis_expired_eq_deleted (h : Hist) (hm : Monotone 0 h) (hr : RedisOK h) :
    (runRedis Redis.new h).2 = (runSpec Spec.new h).2 :=
  RR.run h RR.new hm hr

example : (runSpec Spec.new [(0, .put "a" "x" (some 3)), (4, .create "a" "y" none), (4, .delete "b")]).2 =
    [.okVer 1, .okVer 2, .errNotExist] := by decide

end C06
