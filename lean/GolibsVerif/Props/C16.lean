import GolibsVerif.Lemmas.Xbin
/-
C16 — Binary decoders are total: arbitrary bytes never panic or over-read.
No hypothesis on the input at all: any list of any naturals, any length.
-/
namespace C16
open Xbin

/-- the fixed-width instances of `in_bounds` -/
theorem fixed_in_bounds (w : Nat) (mk : Nat → Item) (buf : Bytes) (hw : 0 < w) :
    match (match unmarshalFixed w buf with
      | .ok (n, v) => DRes.ok n (mk v)
      | .err => DRes.err 0) with
    | .ok n _ => 0 < n ∧ n ≤ buf.length
    | .err n => n = 0
    | .panic => False := by
  cases hu : unmarshalFixed w buf with
  | err => simp
  | ok p =>
    obtain ⟨n, v⟩ := p
    have := unmarshalFixed_bounds hu
    simp only []
    omega

/-- C16.total: no Unmarshal function panics, on any input. -/
theorem total (k : Kind) (buf : Bytes) : unmarshalItem k buf ≠ .panic :=
  by
  cases k with
  | bytes =>
    simp only [unmarshalItem]
    rcases unmarshalBytes_cases buf with h | ⟨idx, L, _, _, h⟩ <;> rw [h] <;> simp
  | _ => simp only [unmarshalItem] <;> split <;> simp

theorem unmarshalBytes_total (buf : Bytes) : unmarshalBytes buf ≠ .panic :=
  by
  rcases unmarshalBytes_cases buf with h | ⟨idx, L, _, _, h⟩ <;> rw [h] <;> simp

/-- C16.in_bounds + err_consumes_zero for the byte-string decoder: on success the consumed length
lies within the input and the data is exactly the sub-range after the length prefix; on failure
zero bytes are reported consumed. -/
theorem unmarshalBytes_in_bounds (buf : Bytes) (n : Nat) (d : Bytes) (e : Bool)
    (h : unmarshalBytes buf = .ret n d e) :
    (e = true → n = 0) ∧
    (e = false → n ≤ buf.length ∧ d.length ≤ n ∧ d = (buf.take n).drop (n - d.length)) :=
  by
  rcases unmarshalBytes_cases buf with h' | ⟨idx, L, hpos, hle, h'⟩
  · rw [h'] at h
    injection h with h1 h2 h3
    subst h1; subst h3
    exact ⟨fun _ => rfl, fun hf => (by cases hf)⟩
  · rw [h'] at h
    injection h with h1 h2 h3
    subst h1; subst h2; subst h3
    refine ⟨fun hf => (by cases hf), fun _ => ?_⟩
    have hlen : ((buf.drop idx).take L).length = L := by
      rw [List.length_take, List.length_drop]; omega
    refine ⟨hle, by omega, ?_⟩
    have h1 : idx + L - L = idx := by omega
    have h2 : idx + L - idx = L := by omega
    rw [hlen, List.drop_take, h1, h2]

/-- every decoder: success ⇒ 0 < consumed ≤ len (input); failure ⇒ 0 consumed -/
theorem in_bounds (k : Kind) (buf : Bytes) :
    match unmarshalItem k buf with
    | .ok n _ => 0 < n ∧ n ≤ buf.length
    | .err n => n = 0
    | .panic => False :=
  by
  cases k with
  | byte => exact fixed_in_bounds 1 Item.byte buf (by decide)
  | u16 => exact fixed_in_bounds 2 Item.u16 buf (by decide)
  | u32 => exact fixed_in_bounds 4 Item.u32 buf (by decide)
  | u64 => exact fixed_in_bounds 8 Item.u64 buf (by decide)
  | uint =>
    simp only [unmarshalItem]
    cases hu : unmarshalUint buf with
    | err => simp
    | ok p =>
      obtain ⟨n, v⟩ := p
      have := unmarshalUint_bounds hu
      simp only []
      omega
  | bytes =>
    simp only [unmarshalItem]
    rcases unmarshalBytes_cases buf with h | ⟨idx, L, hpos, hle, h⟩
    · rw [h]
    · rw [h]
      simp only []
      omega

/-- the varint decoder consumes at most the input, over-long encodings included -/
theorem unmarshalUint_in_bounds (buf : Bytes) (n v : Nat) (h : unmarshalUint buf = .ok (n, v)) :
    0 < n ∧ n ≤ buf.length ∧ v < 2 ^ 64 :=
  unmarshalUint_bounds h

/-- the decoding loop on a strict prefix of a varint encoding runs into the end of the input -/
theorem unmarshalUintGo_truncated (v : Nat) : ∀ (k idx shft res : Nat), k < numGroups v →
    unmarshalUintGo ((enc v).take k) idx shft res = .err := by
  induction v using Nat.strongRecOn with
  | _ v ih =>
    intro k idx shft res hk
    cases k with
    | zero => simp [unmarshalUintGo]
    | succ k =>
      by_cases h : v > 127
      · rw [numGroups_step h] at hk
        rw [enc_step h, List.take_succ_cons, unmarshalUintGo]
        have hb : ¬ (128 + v % 128 ≤ 127) := by omega
        simp only [if_neg hb]
        exact ih (v / 128) (by omega) k _ _ _ (by omega)
      · have hv : v ≤ 127 := by omega
        rw [numGroups_small hv] at hk
        omega

/-- C16.truncated_varint_rejected: every strict prefix of the encoding of any value is reported
as an error (never decoded to some other value, never read past its end). -/
theorem truncated_varint_rejected (v k : Nat) (hk : k < (enc v).length) :
    unmarshalUint ((enc v).take k) = .err := by
  rw [enc_length] at hk
  exact unmarshalUintGo_truncated v k 0 0 0 hk

/-- regression witness: the pre-repair length test panics on `ff×9 01` (D3) -/
theorem total_fails_legacy :
    unmarshalBytesLegacy [255, 255, 255, 255, 255, 255, 255, 255, 255, 1] = .panic := by
  decide

/-- the repaired decoder rejects the same input with an error, consuming nothing -/
example : unmarshalBytes [255, 255, 255, 255, 255, 255, 255, 255, 255, 1] = .ret 0 [] true := by
  decide

end C16
