import GolibsVerif.Lemmas.TmoPool
/-
C13 — Timers: every live future fires; the pool adapts and winds down.
`c : Cfg` arbitrary with maxWorkers ≥ 1; any arrival pattern (add / cancel at any time), any
interleaving of watcher iterations, timer and token wake-ups, and time passing.
-/
namespace C13
open Tmo.Pool

/-- C13.watchers_exact: the counter equals the number of live watcher threads; tokens never exceed the channel capacity -/
theorem watchers_exact (c : Cfg) (hm : 1 ≤ c.maxWorkers) (s : St) (h : Reach c s) :
    s.watchers = live s ∧ s.tokens ≤ c.maxWorkers ∧ s.watchers ≤ c.maxWorkers :=
  sorry

/-- C13.someone_responsible: whenever a future is pending, some live watcher is awake, or sleeps no
longer than until the earliest fire time, or a wake token is waiting for a sleeping watcher. -/
theorem someone_responsible (c : Cfg) (hm : 1 ≤ c.maxWorkers) (s : St) (h : Reach c s) (id fireT : Nat)
    (hh : headOf s.heap = some (id, fireT)) :
    (∃ p ∈ s.threads, Responsible s fireT p) ∨
    (0 < s.tokens ∧ ∃ d mis cp, WPc.sleeping d mis cp ∈ s.threads) :=
  sorry

/-- C13.no_stuck_state: if the earliest pending future is due, some watcher step is enabled that is not
a mere sleep — the future cannot be forgotten (with fair scheduling it is started). -/
theorem no_stuck_state (c : Cfg) (hm : 1 ≤ c.maxWorkers) (s : St) (h : Reach c s) (id fireT : Nat)
    (hh : headOf s.heap = some (id, fireT)) (hdue : fireT < s.now) :
    (∃ (i : Nat) (f : Option Nat) (mis : Nat), s.threads[i]? = some (WPc.top f mis)) ∨
    (∃ (i : Nat) (d : Nat) (mis : Nat) (cp : Bool), s.threads[i]? = some (WPc.sleeping d mis cp) ∧ (d ≤ s.now ∨ 0 < s.tokens)) :=
  sorry

/-- C13.never_early + started only once, at pool level: a callback is started only after it was
popped when due, and every started id was pending before -/
theorem started_were_due (c : Cfg) (s t : St) (st : Step c s t) (id : Nat)
    (hn : id ∈ t.started) (ho : id ∉ s.started) :
    ∃ (i : Nat) (mis : Nat), s.threads[i]? = some (WPc.top (some id) mis) :=
  sorry

/-- C13.restart: a Call with no watcher alive starts one -/
theorem restart (c : Cfg) (s : St) (fireT : Nat) (hw : s.watchers = 0) :
    ∃ t, Step c s t ∧ t.watchers = 1 ∧ (WPc.top none 0) ∈ t.threads ∧ (s.nextId, fireT) ∈ t.heap :=
  sorry

/-- C13.burst_spawns: a watcher that pops a due future while another one is already due and the pool
is below its limit starts one more watcher -/
theorem burst_spawns (c : Cfg) (s : St) (i mis id fireT id2 t2 : Nat) (f : Option Nat)
    (h : s.threads[i]? = some (WPc.top f mis)) (hh : headOf s.heap = some (id, fireT)) (hd : fireT < s.now)
    (h2 : headOf (s.heap.filter (·.1 != id)) = some (id2, t2)) (hd2 : t2 < s.now) (hw : s.watchers < c.maxWorkers) :
    ∃ t, Step c s t ∧ t.watchers = s.watchers + 1 ∧ t.threads.length = s.threads.length + 1 :=
  sorry

/-- C13.wind_down (one-step form): with nothing pending a watcher that has found nothing to do twice exits -/
theorem wind_down (c : Cfg) (s : St) (i mis : Nat) (h : s.threads[i]? = some (WPc.top none mis)) (hm : 1 ≤ mis)
    (he : s.heap = []) :
    ∃ t, Step c s t ∧ t.threads[i]? = some WPc.exited ∧ t.watchers = s.watchers - 1 :=
  sorry

end C13
