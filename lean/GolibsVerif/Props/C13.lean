import GolibsVerif.Lemmas.TmoPool
/-
C13 — Timers: every live future fires; the pool adapts and winds down.
`c : Cfg` arbitrary with maxWorkers ≥ 1; any arrival pattern (add / cancel at any time), any
interleaving of watcher iterations, timer and token wake-ups, and time passing.
Model of the REPAIRED timeout.go (a head future is due when `!now.Before(fireT)`, i.e. fireT ≤ now).
-/
namespace C13
open Tmo.Pool

/-- C13.watchers_exact: the counter equals the number of live watcher threads; tokens never exceed the channel capacity -/
theorem watchers_exact (c : Cfg) (hm : 1 ≤ c.maxWorkers) (s : St) (h : Reach c s) :
    s.watchers = live s ∧ s.tokens ≤ c.maxWorkers ∧ s.watchers ≤ c.maxWorkers :=
  have hI := Inv.reach hm h
  ⟨hI.wl, hI.tok, hI.wmax⟩

/-- C13.someone_responsible: whenever a future is pending, some live watcher is awake, or sleeps no
longer than until the earliest fire time, or a wake token is waiting for a sleeping watcher. -/
theorem someone_responsible (c : Cfg) (hm : 1 ≤ c.maxWorkers) (s : St) (h : Reach c s) (id fireT : Nat)
    (hh : headOf s.heap = some (id, fireT)) :
    (∃ p ∈ s.threads, Responsible s fireT p) ∨
    (0 < s.tokens ∧ ∃ d mis cp, WPc.sleeping d mis cp ∈ s.threads) := by
  rcases (Inv.reach hm h).responsible hh with ⟨j, p, hj, hr⟩ | ⟨ht, j, d, m, cp, hj⟩
  · exact Or.inl ⟨p, List.mem_of_getElem? hj, hr⟩
  · exact Or.inr ⟨ht, d, m, cp, List.mem_of_getElem? hj⟩

/-- C13.no_stuck_state: if the earliest pending future is due, some watcher step is enabled that is
not a mere sleep: an awake watcher runs its section, or a sleeper's timer has run out, or a token
waits for a sleeper. -/
theorem no_stuck_state (c : Cfg) (hm : 1 ≤ c.maxWorkers) (s : St) (h : Reach c s) (id fireT : Nat)
    (hh : headOf s.heap = some (id, fireT)) (hdue : fireT ≤ s.now) :
    (∃ (i : Nat) (f : Option Nat) (mis : Nat), s.threads[i]? = some (WPc.top f mis)) ∨
    (∃ (i : Nat) (d : Nat) (mis : Nat) (cp : Bool), s.threads[i]? = some (WPc.sleeping d mis cp) ∧ (d ≤ s.now ∨ 0 < s.tokens)) :=
  (Inv.reach hm h).not_stuck hh hdue

/-- C13.due_is_popped: an awake watcher that finds the head due pops it (it does not exit or sleep) -/
theorem due_is_popped (c : Cfg) (s : St) (i mis id fireT : Nat) (f : Option Nat)
    (h : s.threads[i]? = some (WPc.top f mis)) (hh : headOf s.heap = some (id, fireT)) (hd : fireT ≤ s.now) :
    ∃ t, Step c s t ∧ (∃ mis', t.threads[i]? = some (WPc.top (some id) mis')) ∧ t.heap = s.heap.filter (·.1 != id) := by
  have e1 : (ranCb s f).heap = s.heap := by cases f <;> rfl
  have e2 : (ranCb s f).now = s.now := by cases f <;> rfl
  have e4 : (ranCb s f).threads = s.threads := by cases f <;> rfl
  have hd' := secT_due c (ranCb s f) i (misNext f mis) id fireT (e4 ▸ h) (e1 ▸ hh) (e2 ▸ hd)
  exact ⟨secT c (ranCb s f) i (misNext f mis), step_section c s i f mis h,
    ⟨misNext f mis, hd'.1⟩, e1 ▸ hd'.2⟩

/-- C13.never_early + started only once, at pool level: a callback is started only after it was
popped when due, and every started id was pending before -/
theorem started_were_due (c : Cfg) (s t : St) (st : Step c s t) (id : Nat)
    (hn : id ∈ t.started) (ho : id ∉ s.started) :
    ∃ (i : Nat) (mis : Nat), s.threads[i]? = some (WPc.top (some id) mis) := by
  cases st with
  | add fireT =>
    exfalso; apply ho
    have : (addT c s fireT).started = s.started := by
      unfold addT; split <;> rfl
    exact this ▸ hn
  | cancel id' _ =>
    exfalso; apply ho
    have : (cancelT c s id').started = s.started := by
      unfold cancelT; split <;> rfl
    exact this ▸ hn
  | section_ i f mis hi =>
    have hst : (secT c (ranCb s f) i (misNext f mis)).started = (ranCb s f).started :=
      (secT_out c _ i _).started
    cases f with
    | none =>
      exfalso; apply ho
      have hn' : id ∈ (secT c (ranCb s none) i (misNext none mis)).started := hn
      rw [hst] at hn'
      exact hn'
    | some id' =>
      have hn' : id ∈ (secT c (ranCb s (some id')) i (misNext (some id') mis)).started := hn
      rw [hst] at hn'
      have hn'' : id ∈ s.started ++ [id'] := hn'
      rw [List.mem_append] at hn''
      rcases hn'' with h1 | h2
      · exact absurd h1 ho
      · have : id = id' := by simpa using h2
        subst this
        exact ⟨i, mis, hi⟩
  | timerWake i d mis cp hi hd => exact absurd hn ho
  | tokenWake i d mis cp hi ht => exact absurd hn ho
  | tick => exact absurd hn ho

/-- C13.restart: a Call with no watcher alive starts one -/
theorem restart (c : Cfg) (s : St) (fireT : Nat) (hw : s.watchers = 0) :
    ∃ t, Step c s t ∧ t.watchers = 1 ∧ (WPc.top none 0) ∈ t.threads ∧ (s.nextId, fireT) ∈ t.heap := by
  refine ⟨addT c s fireT, Step.add s fireT, ?_, ?_, ?_⟩ <;> simp [addT, hw]

/-- C13.burst_spawns: a watcher that pops a due future while another one is already due and the pool
is below its limit starts one more watcher -/
theorem burst_spawns (c : Cfg) (s : St) (i mis id fireT id2 t2 : Nat) (f : Option Nat)
    (h : s.threads[i]? = some (WPc.top f mis)) (hh : headOf s.heap = some (id, fireT)) (hd : fireT ≤ s.now)
    (h2 : headOf (s.heap.filter (·.1 != id)) = some (id2, t2)) (hd2 : t2 < s.now) (hw : s.watchers < c.maxWorkers) :
    ∃ t, Step c s t ∧ t.watchers = s.watchers + 1 ∧ t.threads.length = s.threads.length + 1 := by
  refine ⟨secT c (ranCb s f) i (misNext f mis), step_section c s i f mis h, ?_⟩
  have e1 : (ranCb s f).heap = s.heap := by cases f <;> rfl
  have e2 : (ranCb s f).now = s.now := by cases f <;> rfl
  have e3 : (ranCb s f).watchers = s.watchers := by cases f <;> rfl
  have e4 : (ranCb s f).threads = s.threads := by cases f <;> rfl
  have ho := secT_out c (ranCb s f) i (misNext f mis)
  generalize secT c (ranCb s f) i (misNext f mis) = t at ho
  generalize ranCb s f = s0 at ho e1 e2 e3 e4
  cases ho with
  | exitEmpty hh' _ => rw [e1, hh] at hh'; cases hh'
  | sleepIdle hh' _ => rw [e1, hh] at hh'; cases hh'
  | popSpawn a b a2 b2 hh' _ _ _ _ =>
    rw [e1, hh] at hh'; cases hh'
    refine ⟨?_, ?_⟩
    · show s0.watchers + 1 = s.watchers + 1
      rw [e3]
    · show ((s0.threads ++ [WPc.top none 0]).set i _).length = s.threads.length + 1
      rw [e4]; simp
  | pop a b hh' _ hns =>
    rw [e1, hh] at hh'; cases hh'
    rw [e1, e2, e3] at hns
    exact (hns id2 t2 h2 hd2 hw).elim
  | exitBusy a b hh' hnd _ _ => rw [e1, hh] at hh'; cases hh'; omega
  | sleepCapped a b hh' hnd _ _ => rw [e1, hh] at hh'; cases hh'; omega
  | sleepUncapped a b hh' hnd _ => rw [e1, hh] at hh'; cases hh'; omega

/-- C13.wind_down (one-step form): with nothing pending a watcher that has found nothing to do twice exits -/
theorem wind_down (c : Cfg) (s : St) (i mis : Nat) (h : s.threads[i]? = some (WPc.top none mis)) (hm : 1 ≤ mis)
    (he : s.heap = []) :
    ∃ t, Step c s t ∧ t.threads[i]? = some WPc.exited ∧ t.watchers = s.watchers - 1 := by
  refine ⟨secT c (ranCb s none) i (misNext none mis), step_section c s i none mis h, ?_⟩
  have hgt : misNext none mis > 1 := by simp [misNext]; omega
  have : secT c (ranCb s none) i (misNext none mis)
      = setT { s with watchers := s.watchers - 1 } i .exited := by
    unfold secT
    simp only [ranCb, he, headOf_nil, hgt, if_true]
  rw [this]
  exact ⟨get_set_self h, rfl⟩

end C13
