import GolibsVerif.Lemmas.TmoPool
/-
C13 — Timers: every live future fires; the pool adapts and winds down.
`c : Cfg` arbitrary with maxWorkers ≥ 1; any arrival pattern (add / cancel at any time), any
interleaving of watcher iterations, timer and token wake-ups, and time passing.

`someone_responsible` and `no_stuck_state` as originally stated are FALSE for the model (see
`someone_responsible_refuted`, `no_stuck_state_refuted`; run in Lemmas/TmoPoolCex.lean): a watcher that
sleeps until exactly the head's fire time wakes when `now = fireT`, finds the head "not due"
(`now.After(fireT)` is strict) and, with `mis > 1` and `watchers > 1`, exits, leaving only
idle-capped sleepers whose deadlines lie after the fire time.  What does hold
(`someone_responsible_partial`): strictly before the head's fire time somebody is always
responsible; from the fire time on, at worst an idle-capped sleeper wakes within `idle` (and no
later than `fireT + idle`).
-/
namespace C13
open Tmo.Pool

/-- C13.watchers_exact: the counter equals the number of live watcher threads; tokens never exceed the channel capacity -/
theorem watchers_exact (c : Cfg) (hm : 1 ≤ c.maxWorkers) (s : St) (h : Reach c s) :
    s.watchers = live s ∧ s.tokens ≤ c.maxWorkers ∧ s.watchers ≤ c.maxWorkers :=
  have hI := Inv.reach hm h
  ⟨hI.wl, hI.tok, hI.wmax⟩

/-- C13.someone_responsible as originally stated: whenever a future is pending, some live watcher is
awake, or sleeps no longer than until the earliest fire time, or a wake token is waiting for a
sleeping watcher.  REFUTED below. -/
def someone_responsible_full : Prop :=
  ∀ (c : Cfg) (_hm : 1 ≤ c.maxWorkers) (s : St) (_h : Reach c s) (id fireT : Nat)
    (_hh : headOf s.heap = some (id, fireT)),
    (∃ p ∈ s.threads, Responsible s fireT p) ∨
    (0 < s.tokens ∧ ∃ d mis cp, WPc.sleeping d mis cp ∈ s.threads)

theorem someone_responsible_refuted : ¬ someone_responsible_full := by
  intro hf
  have := hf cexCfg (by decide) cexState cex_reach 2 1 (by decide)
  simp [cexState, Responsible] at this

/-- C13.someone_responsible, the part that holds: a pending head future has a responsible watcher or
a token waiting for a sleeper — except possibly once its fire time has been reached
(`fireT ≤ now`), when the guarantee degrades to: some idle-capped sleeper wakes within `idle`
from now and no later than `idle` after the fire time. -/
theorem someone_responsible_partial (c : Cfg) (hm : 1 ≤ c.maxWorkers) (s : St) (h : Reach c s) (id fireT : Nat)
    (hh : headOf s.heap = some (id, fireT)) :
    (∃ p ∈ s.threads, Responsible s fireT p) ∨
    (0 < s.tokens ∧ ∃ d mis cp, WPc.sleeping d mis cp ∈ s.threads) ∨
    (fireT ≤ s.now ∧ ∃ d mis, WPc.sleeping d mis true ∈ s.threads ∧ d ≤ s.now + c.idle ∧ d ≤ fireT + c.idle) := by
  have hI := Inv.reach hm h
  have hL := Late.reach hm h
  have hw := hI.ne id fireT hh
  rw [hI.wl] at hw
  obtain ⟨j, p, hj, hp⟩ := exists_live_of_pos hw
  have hmem := List.mem_of_getElem? hj
  cases p with
  | top f mis => exact Or.inl ⟨_, hmem, trivial⟩
  | exited => exact absurd rfl hp
  | sleeping d m cp =>
    by_cases ht : 0 < s.tokens
    · exact Or.inr (Or.inl ⟨ht, d, m, cp, hmem⟩)
    · have ht0 : s.tokens = 0 := by omega
      by_cases hnow : s.now < fireT
      · rcases hI.key id fireT hh ht0 hnow with h1 | ⟨j', p', hj', hs⟩ | ⟨j', m', cp', hj'⟩
        · exact Or.inl ⟨_, hmem, h1 j d m cp hj⟩
        · have hmem' := List.mem_of_getElem? hj'
          cases p' with
          | top f mis => exact Or.inl ⟨_, hmem', trivial⟩
          | sleeping _ _ _ => exact hs.elim
          | exited => exact hs.elim
        · exact Or.inl ⟨_, List.mem_of_getElem? hj', Nat.le_refl _⟩
      · cases cp with
        | true =>
          by_cases hx : ∃ (j : Nat) (g : Option Nat) (mis : Nat), s.threads[j]? = some (WPc.top g mis)
          · obtain ⟨j', g, mis, hj'⟩ := hx
            exact Or.inl ⟨_, List.mem_of_getElem? hj', trivial⟩
          · have hnt : NoTop s := fun j' g mis hj' => hx ⟨j', g, mis, hj'⟩
            exact Or.inr (Or.inr ⟨by omega, d, m, hmem, hI.cap j d m hj, hL id fireT hh ht0 hnt j d m hj⟩)
        | false =>
          rcases hI.uncd j d m hj with h0 | h2
          · exact absurd h0 ht
          · exact Or.inl ⟨_, hmem, h2 id fireT hh⟩

/-- corollary: strictly before the earliest fire time the original statement holds -/
theorem someone_responsible_before_due (c : Cfg) (hm : 1 ≤ c.maxWorkers) (s : St) (h : Reach c s) (id fireT : Nat)
    (hh : headOf s.heap = some (id, fireT)) (hb : s.now < fireT) :
    (∃ p ∈ s.threads, Responsible s fireT p) ∨
    (0 < s.tokens ∧ ∃ d mis cp, WPc.sleeping d mis cp ∈ s.threads) := by
  rcases someone_responsible_partial c hm s h id fireT hh with h1 | h2 | ⟨h3, _⟩
  · exact Or.inl h1
  · exact Or.inr h2
  · omega

/-- C13.no_stuck_state as originally stated: if the earliest pending future is due, some watcher step
is enabled that is not a mere sleep.  REFUTED below. -/
def no_stuck_state_full : Prop :=
  ∀ (c : Cfg) (_hm : 1 ≤ c.maxWorkers) (s : St) (_h : Reach c s) (id fireT : Nat)
    (_hh : headOf s.heap = some (id, fireT)) (_hdue : fireT < s.now),
    (∃ (i : Nat) (f : Option Nat) (mis : Nat), s.threads[i]? = some (WPc.top f mis)) ∨
    (∃ (i : Nat) (d : Nat) (mis : Nat) (cp : Bool), s.threads[i]? = some (WPc.sleeping d mis cp) ∧ (d ≤ s.now ∨ 0 < s.tokens))

theorem no_stuck_state_refuted : ¬ no_stuck_state_full := by
  intro hf
  rcases hf cexCfg (by decide) cexState2 cex_reach2 2 1 (by decide) (by decide) with ⟨i, f, mis, hi⟩ | ⟨i, d, mis, cp, hi, hd⟩
  · have hmem := List.mem_of_getElem? hi
    simp [cexState2, cexState] at hmem
  · have hmem := List.mem_of_getElem? hi
    simp [cexState2, cexState] at hmem
    obtain ⟨rfl, _, _⟩ := hmem
    simp [cexState2, cexState] at hd

/-- C13.no_stuck_state, the part that holds: if the earliest pending future is due, then now (`k = 0`)
or after `k ≤ idle` further ticks (and no other step), at a time no later than `fireT + idle`, some
watcher step other than sleeping on is enabled — the future can be late by up to the idle timeout,
but it cannot be forgotten. -/
theorem no_stuck_state_partial (c : Cfg) (hm : 1 ≤ c.maxWorkers) (s : St) (h : Reach c s) (id fireT : Nat)
    (hh : headOf s.heap = some (id, fireT)) (hdue : fireT < s.now) :
    ∃ k, k ≤ c.idle ∧ (k = 0 ∨ s.now + k ≤ fireT + c.idle) ∧
    ((∃ (i : Nat) (f : Option Nat) (mis : Nat), s.threads[i]? = some (WPc.top f mis)) ∨
     (∃ (i : Nat) (d : Nat) (mis : Nat) (cp : Bool), s.threads[i]? = some (WPc.sleeping d mis cp) ∧ (d ≤ s.now + k ∨ 0 < s.tokens))) := by
  rcases someone_responsible_partial c hm s h id fireT hh with ⟨p, hp, hr⟩ | ⟨ht, d, mis, cp, hp⟩ | ⟨_, d, mis, hp, hd, hd2⟩
  · obtain ⟨i, hi⟩ := List.getElem?_of_mem hp
    cases p with
    | top f mis => exact ⟨0, Nat.zero_le _, Or.inl rfl, Or.inl ⟨i, f, mis, hi⟩⟩
    | sleeping d mis cp =>
      have hr' : d ≤ fireT := hr
      exact ⟨0, Nat.zero_le _, Or.inl rfl, Or.inr ⟨i, d, mis, cp, hi, Or.inl (by omega)⟩⟩
    | exited => exact hr.elim
  · obtain ⟨i, hi⟩ := List.getElem?_of_mem hp
    exact ⟨0, Nat.zero_le _, Or.inl rfl, Or.inr ⟨i, d, mis, cp, hi, Or.inr ht⟩⟩
  · obtain ⟨i, hi⟩ := List.getElem?_of_mem hp
    exact ⟨d - s.now, by omega, by omega, Or.inr ⟨i, d, mis, true, hi, Or.inl (by omega)⟩⟩

/-- C13.never_early + started only once, at pool level: a callback is started only after it was
popped when due, and every started id was pending before -/
theorem started_were_due (c : Cfg) (s t : St) (st : Step c s t) (id : Nat)
    (hn : id ∈ t.started) (ho : id ∉ s.started) :
    ∃ (i : Nat) (mis : Nat), s.threads[i]? = some (WPc.top (some id) mis) := by
  cases st with
  | add fireT =>
    exfalso; apply ho
    have : (addT c s fireT).started = s.started := by
      unfold addT; split <;> rfl
    exact this ▸ hn
  | cancel id' _ =>
    exfalso; apply ho
    have : (cancelT c s id').started = s.started := by
      unfold cancelT; split <;> rfl
    exact this ▸ hn
  | section_ i f mis hi =>
    have hst : (secT c (ranCb s f) i (misNext f mis)).started = (ranCb s f).started :=
      (secT_out c _ i _).started
    cases f with
    | none =>
      exfalso; apply ho
      have hn' : id ∈ (secT c (ranCb s none) i (misNext none mis)).started := hn
      rw [hst] at hn'
      exact hn'
    | some id' =>
      have hn' : id ∈ (secT c (ranCb s (some id')) i (misNext (some id') mis)).started := hn
      rw [hst] at hn'
      have hn'' : id ∈ s.started ++ [id'] := hn'
      rw [List.mem_append] at hn''
      rcases hn'' with h1 | h2
      · exact absurd h1 ho
      · have : id = id' := by simpa using h2
        subst this
        exact ⟨i, mis, hi⟩
  | timerWake i d mis cp hi hd => exact absurd hn ho
  | tokenWake i d mis cp hi ht => exact absurd hn ho
  | tick => exact absurd hn ho

/-- C13.restart: a Call with no watcher alive starts one -/
theorem restart (c : Cfg) (s : St) (fireT : Nat) (hw : s.watchers = 0) :
    ∃ t, Step c s t ∧ t.watchers = 1 ∧ (WPc.top none 0) ∈ t.threads ∧ (s.nextId, fireT) ∈ t.heap := by
  refine ⟨addT c s fireT, Step.add s fireT, ?_, ?_, ?_⟩ <;> simp [addT, hw]

/-- C13.burst_spawns: a watcher that pops a due future while another one is already due and the pool
is below its limit starts one more watcher -/
theorem burst_spawns (c : Cfg) (s : St) (i mis id fireT id2 t2 : Nat) (f : Option Nat)
    (h : s.threads[i]? = some (WPc.top f mis)) (hh : headOf s.heap = some (id, fireT)) (hd : fireT < s.now)
    (h2 : headOf (s.heap.filter (·.1 != id)) = some (id2, t2)) (hd2 : t2 < s.now) (hw : s.watchers < c.maxWorkers) :
    ∃ t, Step c s t ∧ t.watchers = s.watchers + 1 ∧ t.threads.length = s.threads.length + 1 := by
  refine ⟨secT c (ranCb s f) i (misNext f mis), step_section c s i f mis h, ?_⟩
  have e1 : (ranCb s f).heap = s.heap := by cases f <;> rfl
  have e2 : (ranCb s f).now = s.now := by cases f <;> rfl
  have e3 : (ranCb s f).watchers = s.watchers := by cases f <;> rfl
  have e4 : (ranCb s f).threads = s.threads := by cases f <;> rfl
  have ho := secT_out c (ranCb s f) i (misNext f mis)
  generalize secT c (ranCb s f) i (misNext f mis) = t at ho
  generalize ranCb s f = s0 at ho e1 e2 e3 e4
  cases ho with
  | exitEmpty hh' _ => rw [e1, hh] at hh'; cases hh'
  | sleepIdle hh' _ => rw [e1, hh] at hh'; cases hh'
  | popSpawn a b a2 b2 hh' _ _ _ _ =>
    rw [e1, hh] at hh'; cases hh'
    refine ⟨?_, ?_⟩
    · show s0.watchers + 1 = s.watchers + 1
      rw [e3]
    · show ((s0.threads ++ [WPc.top none 0]).set i _).length = s.threads.length + 1
      rw [e4]; simp
  | pop a b hh' _ hns =>
    rw [e1, hh] at hh'; cases hh'
    rw [e1, e2, e3] at hns
    exact (hns id2 t2 h2 hd2 hw).elim
  | exitBusy a b hh' hnd _ _ => rw [e1, hh] at hh'; cases hh'; omega
  | sleepCapped a b hh' hnd _ _ => rw [e1, hh] at hh'; cases hh'; omega
  | sleepUncapped a b hh' hnd _ => rw [e1, hh] at hh'; cases hh'; omega

/-- C13.wind_down (one-step form): with nothing pending a watcher that has found nothing to do twice exits -/
theorem wind_down (c : Cfg) (s : St) (i mis : Nat) (h : s.threads[i]? = some (WPc.top none mis)) (hm : 1 ≤ mis)
    (he : s.heap = []) :
    ∃ t, Step c s t ∧ t.threads[i]? = some WPc.exited ∧ t.watchers = s.watchers - 1 := by
  refine ⟨secT c (ranCb s none) i (misNext none mis), step_section c s i none mis h, ?_⟩
  have hgt : misNext none mis > 1 := by simp [misNext]; omega
  have : secT c (ranCb s none) i (misNext none mis)
      = setT { s with watchers := s.watchers - 1 } i .exited := by
    unfold secT
    simp only [ranCb, he, headOf_nil, hgt, if_true]
  rw [this]
  exact ⟨get_set_self h, rfl⟩

end C13
