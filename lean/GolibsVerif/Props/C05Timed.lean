import GolibsVerif.Model.LeaseTimed
import GolibsVerif.Generated.LockConsts
import GolibsVerif.Lemmas.LeaseTimed
/-
C05 (timing part) — the lease is kept while the lock is held, for ANY hold duration and any pattern of
up to `m` consecutive transient renewal failures, provided the timing margin holds; stated over the
lease constants REGENERATED from kvlock.go (`Generated/LockConsts.lean`): renewal period L/2 after an
acquisition and after a successful renewal, retry period L/8 after a transient failure, deadline computed
from a fresh clock reading inside the retry loop.
-/
namespace C05Timed
open LeaseTimed

/-- the attempt pattern behind it (the inductive invariant `LeaseTimed.Inv`, with the deadline computed at
the write): in every reachable state
  * the clock has not passed `due + δ` (an attempt that is due is made at most δ late);
  * the next attempt is due at most `L/renewDiv + fails·δ + fails·(L/retryDiv)` after the record was last
    written (the last write was at `exp - L`; written with `L` added on the left instead of a subtraction);
  * at most `m` attempts in a row have failed. -/
theorem since_last_write (c : Cfg) (m t0 wait : Nat) (hf : c.fresh = true) (s : St)
    (h : Reach c m t0 wait s) :
    s.now ≤ s.due + c.δ ∧
    s.due + c.L ≤ s.exp + c.L / c.renewDiv + s.fails * c.δ + s.fails * (c.L / c.retryDiv) ∧
    s.fails ≤ m :=
  inv_reach c m t0 wait hf h

/-- consequence (the originally guessed form): the time since the record was last written never exceeds
`L/renewDiv + (fails+1)·δ + fails·(L/retryDiv)` -/
theorem since_last_write_now (c : Cfg) (m t0 wait : Nat) (hf : c.fresh = true) (s : St)
    (h : Reach c m t0 wait s) :
    s.now + c.L ≤ s.exp + c.L / c.renewDiv + (s.fails + 1) * c.δ + s.fails * (c.L / c.retryDiv) ∧ s.fails ≤ m := by
  obtain ⟨h1, h2, h3⟩ := since_last_write c m t0 wait hf s h
  refine ⟨?_, h3⟩
  rw [Nat.add_mul, Nat.one_mul]
  generalize c.L / c.renewDiv = a at *
  generalize c.L / c.retryDiv = b at *
  generalize s.fails * c.δ = x at *
  generalize s.fails * b = y at *
  omega

/-- C05Timed.lease_kept: with the deadline computed at the write (`fresh`), in every reachable state the
record has not lapsed — however long the acquisition waited and however long the lock is held. -/
theorem lease_kept (c : Cfg) (m t0 wait : Nat) (hf : c.fresh = true) (hm : Margin c m) (s : St)
    (h : Reach c m t0 wait s) : s.now < s.exp := by
  obtain ⟨h1, h2, h3⟩ := since_last_write c m t0 wait hf s h
  have e1 : s.fails * c.δ ≤ m * c.δ := Nat.mul_le_mul_right _ h3
  have e2 : s.fails * (c.L / c.retryDiv) ≤ m * (c.L / c.retryDiv) := Nat.mul_le_mul_right _ h3
  unfold Margin at hm
  rw [Nat.add_mul, Nat.one_mul] at hm
  generalize c.L / c.renewDiv = a at *
  generalize c.L / c.retryDiv = b at *
  generalize s.fails * c.δ = x at *
  generalize s.fails * b = y at *
  generalize m * c.δ = x' at *
  generalize m * b = y' at *
  omega

/-- C05Timed.stale_deadline_lapses (negative): if the acquisition's deadline is computed when the call is
ENTERED and the caller then waits at least one lease for the lock, it holds a record that has already
lapsed (the seeded change `lease-deadline-fixed-before-the-wait`). -/
theorem stale_deadline_lapses (c : Cfg) (m t0 wait : Nat) (hf : c.fresh = false) (hw : c.L ≤ wait) :
    ∃ s, Reach c m t0 wait s ∧ s.exp ≤ s.now := by
  refine ⟨acquired c t0 wait, Reach.init, ?_⟩
  simp only [acquired, hf]
  show t0 + c.L ≤ t0 + wait
  omega

/-- the constants the model is instantiated with are the ones in the code -/
theorem code_constants :
    LockConsts.acquireDivs = [2, 2] ∧ LockConsts.supportDivs = [8, 2] ∧
    LockConsts.deadlineFromFreshClock = true ∧ LockConsts.deadlineInsideRetryLoop = true ∧
    LockConsts.recordLiterals = 3 := by
  decide

/-- the configuration of the code: lease from the source, renewal and retry divisors from the source -/
def codeCfg (δ : Nat) : Cfg :=
  { L := LockConsts.leaseMs, renewDiv := LockConsts.acquireDivs.headD 1, retryDiv := LockConsts.supportDivs.headD 1,
    δ := δ, fresh := LockConsts.deadlineFromFreshClock && LockConsts.deadlineInsideRetryLoop }

/-- C05Timed.default_config_tolerates: with the code's default lease (10 s), attempts at most 500 ms late and up
to TWO consecutive transient failures, the lease never lapses while held -/
theorem default_config_tolerates (t0 wait : Nat) (s : St) (h : Reach (codeCfg 500) 2 t0 wait s) : s.now < s.exp :=
  lease_kept (codeCfg 500) 2 t0 wait (by decide) (by unfold Margin; decide) s h

/-- … and three consecutive failures at 500 ms lateness are NOT covered by the margin (the bound is tight enough to matter) -/
theorem default_margin_tight : ¬ Margin (codeCfg 500) 3 := by
  unfold Margin; decide

/-- non-vacuity: a run with two failed attempts and a success -/
example : ∃ s, Reach (codeCfg 500) 2 0 0 s ∧ s.fails = 0 ∧ 5000 < s.now := by
  -- acquisition at time 0: deadline 10000, first attempt due at 5000
  have r0 : Reach (codeCfg 500) 2 0 0 ⟨0, 10000, 5000, 0⟩ := Reach.init
  -- 5000 ticks, then the attempt at 5000 fails: retry due at 6250
  have r1 : Reach (codeCfg 500) 2 0 0 ⟨5000, 10000, 5000, 0⟩ :=
    reach_ticks _ _ _ _ _ r0 5000 (by decide)
  have r2 : Reach (codeCfg 500) 2 0 0 ⟨5000, 10000, 6250, 1⟩ :=
    Reach.step r1 (Step.renewFail _ (by decide) (by decide))
  -- 1250 ticks, the retry at 6250 fails as well: retry due at 7500
  have r3 : Reach (codeCfg 500) 2 0 0 ⟨6250, 10000, 6250, 1⟩ :=
    reach_ticks _ _ _ _ _ r2 1250 (by decide)
  have r4 : Reach (codeCfg 500) 2 0 0 ⟨6250, 10000, 7500, 2⟩ :=
    Reach.step r3 (Step.renewFail _ (by decide) (by decide))
  -- 1250 ticks, the retry at 7500 succeeds: deadline 17500, next attempt due at 12500
  have r5 : Reach (codeCfg 500) 2 0 0 ⟨7500, 10000, 7500, 2⟩ :=
    reach_ticks _ _ _ _ _ r4 1250 (by decide)
  have r6 : Reach (codeCfg 500) 2 0 0 ⟨7500, 17500, 12500, 0⟩ :=
    Reach.step r5 (Step.renewOk _ (by decide))
  exact ⟨_, r6, rfl, by decide⟩

end C05Timed
