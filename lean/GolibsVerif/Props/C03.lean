import GolibsVerif.Lemmas.Kv
/-
C03 — KV backends implement one and the same sequential contract.
-/
namespace C03
open Kv

/-- C03.inmem_refines_spec: for every timed history (time non-decreasing) the in-memory I-model
returns exactly what the contract prescribes. -/
theorem inmem_refines_spec (h : Hist) (hm : Monotone 0 h) :
    (runInmem Inmem.new h).2 = (runSpec Spec.new h).2 :=
  sorry

/-- C03.redis_refines_spec: same for the Redis I-model under `RedisOK` (no leading '/', 1 ms TTL
resolution respected). -/
theorem redis_refines_spec (h : Hist) (hm : Monotone 0 h) (hr : RedisOK h) :
    (runRedis Redis.new h).2 = (runSpec Spec.new h).2 :=
  sorry

/-- C03.backends_agree -/
theorem backends_agree (h : Hist) (hm : Monotone 0 h) (hr : RedisOK h) :
    (runRedis Redis.new h).2 = (runInmem Inmem.new h).2 :=
  sorry

/-- contract facts, read off the Spec: Create on a present key reports the stored version -/
theorem create_reports_stored_version (s : Spec) (now : Nat) (k v : String) (exp : Option Nat) (r : Rec)
    (h : s.live now k = some r) : s.step now (.create k v exp) = (s, .errExist (some r.ver)) :=
  sorry

/-- Get returns the last written value, version and expiry -/
theorem get_after_put (s : Spec) (now t : Nat) (k v : String) (exp : Option Nat) (ht : now ≤ t)
    (hlive : ∀ e, exp = some e → t ≤ e) :
    ((s.step now (.put k v exp)).1.step t (.get k)).2 = .record v s.nextVer exp :=
  sorry

/-- CasByVersion distinguishes ErrNotExist from ErrConflict -/
theorem cas_outcomes (s : Spec) (now : Nat) (k v : String) (ver : Nat) (exp : Option Nat) :
    (s.live now k = none → (s.step now (.cas k ver v exp)).2 = .errNotExist) ∧
    (∀ r, s.live now k = some r → r.ver ≠ ver → (s.step now (.cas k ver v exp)).2 = .errConflict) ∧
    (∀ r, s.live now k = some r → r.ver = ver → (s.step now (.cas k ver v exp)).2 = .okVer s.nextVer) :=
  sorry

/-- non-vacuity: the hypotheses are met by a history that exercises expiry on both backends -/
example : RedisOK [(0, .put "a" "x" (some 5)), (2, .get "a"), (6, .get "a"), (6, .create "a" "y" none), (8, .list "*")] ∧
    (runRedis Redis.new [(0, .put "a" "x" (some 5)), (2, .get "a"), (6, .get "a"), (6, .create "a" "y" none), (8, .list "*")]).2 =
      [.okVer 1, .record "x" 1 (some 5), .errNotExist, .okVer 2, .keys ["a"]] := by
  sorry

end C03
