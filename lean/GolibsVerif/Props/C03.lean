import GolibsVerif.Lemmas.Kv
/-
C03 — KV backends implement one and the same sequential contract.
-/
namespace C03
open Kv

/-- C03.inmem_refines_spec: for every timed history (time non-decreasing) the in-memory I-model
returns exactly what the contract prescribes. -/
theorem inmem_refines_spec (h : Hist) (hm : Monotone 0 h) :
    (runInmem Inmem.new h).2 = (runSpec Spec.new h).2 :=
  IR.run h IR.new hm

/-- C03.redis_refines_spec: same for the Redis I-model under `RedisOK` (no leading '/', 1 ms TTL
resolution respected). -/
theorem redis_refines_spec (h : Hist) (hm : Monotone 0 h) (hr : RedisOK h) :
    (runRedis Redis.new h).2 = (runSpec Spec.new h).2 :=
  RR.run h RR.new hm hr

/-- C03.backends_agree -/
theorem backends_agree (h : Hist) (hm : Monotone 0 h) (hr : RedisOK h) :
    (runRedis Redis.new h).2 = (runInmem Inmem.new h).2 :=
  (redis_refines_spec h hm hr).trans (inmem_refines_spec h hm).symm

/-- contract facts, read off the Spec: Create on a present key reports the stored version -/
theorem create_reports_stored_version (s : Spec) (now : Nat) (k v : String) (exp : Option Nat) (r : Rec)
    (h : s.live now k = some r) : s.step now (.create k v exp) = (s, .errExist (some r.ver)) := by
  simp only [Spec.step, h]

/-- Get returns the last written value, version and expiry -/
theorem get_after_put (s : Spec) (now t : Nat) (k v : String) (exp : Option Nat) (ht : now ≤ t)
    (hlive : ∀ e, exp = some e → t ≤ e) :
    ((s.step now (.put k v exp)).1.step t (.get k)).2 = .record v s.nextVer exp := by
  have _ := ht
  have hl : (s.write k v exp).1.live t k = some ⟨v, s.nextVer, exp⟩ := by
    rw [Spec.live_of_get (r := ⟨v, s.nextVer, exp⟩) (by simp only [Spec.write]; exact Store.get_put_self _ _ _)]
    have : expired ⟨v, s.nextVer, exp⟩ t = false := by
      unfold expired
      cases exp with
      | none => rfl
      | some e => have := hlive e rfl; simp only [decide_eq_false_iff_not]; omega
    simp [this]
  simp only [Spec.step, hl]

/-- CasByVersion distinguishes ErrNotExist from ErrConflict -/
theorem cas_outcomes (s : Spec) (now : Nat) (k v : String) (ver : Nat) (exp : Option Nat) :
    (s.live now k = none → (s.step now (.cas k ver v exp)).2 = .errNotExist) ∧
    (∀ r, s.live now k = some r → r.ver ≠ ver → (s.step now (.cas k ver v exp)).2 = .errConflict) ∧
    (∀ r, s.live now k = some r → r.ver = ver → (s.step now (.cas k ver v exp)).2 = .okVer s.nextVer) := by
  refine ⟨fun h => ?_, fun r h hv => ?_, fun r h hv => ?_⟩
  · simp only [Spec.step, h]
  · simp only [Spec.step, h, ne_eq, hv, not_false_eq_true, if_true]
  · simp only [Spec.step, h, ne_eq, hv, not_true_eq_false, if_false, Spec.write]

/-- non-vacuity: the hypotheses are met by a history that exercises expiry on both backends -/
example : RedisOK [(0, .put "a" "x" (some 5)), (2, .get "a"), (6, .get "a"), (6, .create "a" "y" none), (8, .list "*")] ∧
    (runRedis Redis.new [(0, .put "a" "x" (some 5)), (2, .get "a"), (6, .get "a"), (6, .create "a" "y" none), (8, .list "*")]).2 =
      [.okVer 1, .record "x" 1 (some 5), .errNotExist, .okVer 2, .keys ["a"]] := by
  have okA : okName "a" := by unfold okName; decide
  have okStar : okName "*" := by unfold okName; decide
  constructor
  · simp only [RedisOK, Op.expiries, Op.names]
    decide
  · simp [runRedis, Redis.step, Redis.new, Redis.setRec, RedisSrv.purge, RedisSrv.get, RedisSrv.set, deadlineOf,
      glob_rKey okStar okA, drop_rKey okA, glob_star, sortStrings, insertSorted]

end C03
