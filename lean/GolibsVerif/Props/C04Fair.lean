import GolibsVerif.Lemmas.Lock
import GolibsVerif.Lemmas.LockServe
import GolibsVerif.Lemmas.LockFair
import GolibsVerif.Lemmas.LockFairRuns
/-
C04 (liveness part, INEVITABILITY form) — "no wake-up is lost whatever the interleaving".
`C04Live` proves the possibility form (from every reachable state every acquiring caller CAN still be
served).  Here: over infinite fault-free executions (with stuttering) of `Lock.Step`, under weak
fairness of a goroutine's own internal steps,
  * a caller inside `Storage.Create` / `WaitForVersionChange` cannot sit there for ever while the lock
    is free (`no_lost_wakeup`, `wakeup_delivered`, `free_lock_is_taken`, `released_lock_is_taken`);
  * a token cannot lie in a Locker's channel for ever while a caller of that Locker waits for it
    (`no_lost_token`), a cancelled / shut-down waiter returns;
  * whoever is inside a Locker's section without holding leaves it (`section_is_left`), Unlock
    completes and puts the token back (`unlock_completes`).
What fairness of the caller's own steps can NOT give is service to a PARTICULAR caller: the wake-up
(`lWaitRet`) and the following `Storage.Create` are two steps, and another caller may create the record
in between, every time (`overtaken_forever`: an explicit fair run in which a caller starves).
-/
namespace C04Fair
open Lock

/-! ### definitions -/

/-- an infinite fault-free execution with stuttering -/
structure Exec (c : Cfg) (σ : Nat → St) : Prop where
  start : Reach c false false (σ 0)
  next : ∀ i, Step c false false (σ i) (σ (i + 1)) ∨ σ (i + 1) = σ i

/-- goroutine `g` moves at position `i` (every own step of `g` changes `pc g` and only `g`'s own steps
do: `pc_changes_only_by_own_step`) -/
def Moves (σ : Nat → St) (g : G) (i : Nat) : Prop := (σ (i + 1)).pc g ≠ (σ i).pc g

/-- `g` is inside a call (it has an internal step to take or is blocked inside
Lock / LockWithCtx / TryLock / Unlock) -/
def Busy (s : St) (g : G) : Prop := s.pc g ≠ .idle

/-- some step of the model changes `g`'s pc -/
def CanMove (c : Cfg) (s : St) (g : G) : Prop := ∃ t, Step c false false s t ∧ t.pc g ≠ s.pc g

/-- weak fairness for the INTERNAL steps of `g` (a client is never obliged to call anything: an idle
goroutine may stay idle): if from some point on `g` is busy and can move at every position, it
eventually moves -/
def WeaklyFair (c : Cfg) (σ : Nat → St) (g : G) : Prop :=
  ∀ i, (∀ j, i ≤ j → Busy (σ j) g ∧ CanMove c (σ j) g) → ∃ j, i ≤ j ∧ Moves σ g j

/-- `g` is inside `Storage.Create` or `Storage.WaitForVersionChange` of Lock / LockWithCtx -/
def StorageStage (s : St) (g : G) : Prop := s.pc g = .lCreate ∨ ∃ v, s.pc g = .lWait v

/-- `g` newly acquires the lock in the step at position `j` -/
def Acquires (σ : Nat → St) (g : G) (j : Nat) : Prop :=
  (σ j).holds g = false ∧ (σ (j + 1)).holds g = true

/-- the token of `g`'s Locker is in the channel and `g`'s select can take it -/
def Takeable (c : Cfg) (s : St) (g : G) : Prop :=
  s.token (c.lk g) = true ∧ s.cntr (c.lk g) = 0 ∧ s.done (c.pv (c.lk g)) = false ∧ s.ctxDone g = false

section
variable {c : Cfg} {σ : Nat → St} {g : G}

/-! ### basic facts -/

theorem Exec.reach (hx : Exec c σ) (i : Nat) : Reach c false false (σ i) :=
  seq_reach hx.start hx.next i

theorem Exec.inv (hx : Exec c σ) (i : Nat) : Inv c (σ i) := Reach_Inv c false _ (hx.reach i)

/-- a fault-free step changes `pc g` iff it is one of `g`'s own steps (`Lock.GStep c g`: the goroutine
constructors of `Lock.Step` with actor `g`): steps of other goroutines, lease activity and environment
steps leave `pc g` alone, and every own step changes it -/
theorem pc_changes_only_by_own_step {s t : St} (h : Step c false false s t) (g : G) :
    t.pc g ≠ s.pc g ↔ GStep c g s t :=
  ⟨step_pc_cases g h, GStep.pc_ne⟩

/-- a move of `g` in an execution is an own step of `g` -/
theorem Exec.own_step (hx : Exec c σ) {i : Nat} (hm : Moves σ g i) : GStep c g (σ i) (σ (i + 1)) := by
  rcases hx.next i with h | h
  · exact step_pc_cases g h hm
  · exact absurd (by rw [h]) hm

/-- `CanMove` is exactly: some own step of `g` is enabled -/
theorem canMove_iff (s : St) : CanMove c s g ↔ ∃ t, GStep c g s t :=
  ⟨fun ⟨t, h, hne⟩ => ⟨t, step_pc_cases g h hne⟩, fun ⟨_, h⟩ => h.enabled⟩

/-- the basic fairness argument: a busy goroutine that can move as long as it stands at its current
pc does move; at its first move it still stands there -/
theorem WeaklyFair.first_move (hf : WeaklyFair c σ g) (i : Nat) (hb : Busy (σ i) g)
    (hen : ∀ j, i ≤ j → (σ j).pc g = (σ i).pc g → CanMove c (σ j) g) :
    ∃ j, i ≤ j ∧ Moves σ g j ∧ ∀ k, i ≤ k → k ≤ j → (σ k).pc g = (σ i).pc g := by
  have hm : ∃ j, i ≤ j ∧ Moves σ g j := by
    apply Classical.byContradiction
    intro hno
    have hconst : ∀ j, i ≤ j → (σ j).pc g = (σ i).pc g :=
      const_of_no_change (fun j => (σ j).pc g) i
        (fun j hj => Classical.byContradiction fun e => hno ⟨j, hj, e⟩)
    exact hno (hf i fun j hj =>
      ⟨by unfold Busy; rw [hconst j hj]; exact hb, hen j hj (hconst j hj)⟩)
  exact first_change (fun j => (σ j).pc g) i hm

/-! ### 1. storage stage: no lost wake-up -/

/-- C04Fair.no_lost_wakeup: a fair caller with a live context cannot sit inside `Storage.Create` /
`WaitForVersionChange` for ever while the lock is free -/
theorem no_lost_wakeup (hx : Exec c σ) (hf : WeaklyFair c σ g) (i : Nat)
    (hctx : ∀ j, i ≤ j → (σ j).ctxDone g = false) :
    ¬ ∀ j, i ≤ j → (σ j).lrec = none ∧ StorageStage (σ j) g := by
  intro hall
  -- the wait returns: g reaches lCreate
  have h1 : ∃ k, i ≤ k ∧ (σ k).pc g = .lCreate := by
    rcases (hall i (Nat.le_refl i)).2 with h | ⟨v, h⟩
    · exact ⟨i, Nat.le_refl i, h⟩
    · obtain ⟨j, hij, hm, hk⟩ := hf.first_move i (by simp [Busy, h]) (fun j hj hp =>
        enabled_lWait c (σ j) g v (hp.trans h) (Or.inr (Or.inl (hall j hj).1)))
      have hpj : (σ j).pc g = .lWait v := (hk j hij (Nat.le_refl j)).trans h
      have := (gstep_lWait (hx.own_step hm) v hpj).1
      rw [hctx j hij] at this
      exact ⟨j + 1, by omega, by simpa using this⟩
  -- the Create is issued: it succeeds, the record exists
  obtain ⟨k, hik, hpk⟩ := h1
  obtain ⟨j, hkj, hm, hk⟩ := hf.first_move k (by simp [Busy, hpk]) (fun j hj hp =>
    enabled_section c (σ j) g (Or.inr (Or.inl (hp.trans hpk))))
  have hpj : (σ j).pc g = .lCreate := (hk j hkj (Nat.le_refl j)).trans hpk
  rcases gstep_lCreate (hx.own_step hm) hpj with ⟨_, h₂, _⟩ | ⟨r, h₁, _⟩ | ⟨h₁, _⟩
  · have := (hall (j + 1) (by omega)).1
    rw [this] at h₂; cases h₂
  · have := (hall j (by omega)).1
    rw [this] at h₁; cases h₁
  · rw [hctx j (by omega)] at h₁; cases h₁

/-- as long as the lock stays free, a caller with a live context stays in the storage stage -/
theorem stage_while_free (hx : Exec c σ) (i : Nat) (hctx : ∀ j, i ≤ j → (σ j).ctxDone g = false)
    (hs : StorageStage (σ i) g) (n : Nat) (hfree : ∀ k, i ≤ k → k ≤ i + n → (σ k).lrec = none) :
    StorageStage (σ (i + n)) g := by
  induction n with
  | zero => exact hs
  | succ n ih =>
    have h := ih (fun k h₁ h₂ => hfree k h₁ (by omega))
    rcases stage_step g (hx.next (i + n)) h (hctx _ (by omega)) with h' | ⟨_, _, r, hr⟩
    · exact h'
    · have := hfree (i + n + 1) (by omega) (by omega)
      rw [this] at hr; cases hr

/-- C04Fair.wakeup_delivered (positive form of `no_lost_wakeup`, strongest form): a fair caller `g`
with a live context that is in the storage stage while the lock is free: the lock stays free and `g`
stays in the storage stage up to a position `j` at which some caller `g'` (possibly `g` itself)
creates the record and thereby newly acquires the lock -/
theorem wakeup_delivered (hx : Exec c σ) (hf : WeaklyFair c σ g) (i : Nat)
    (hctx : ∀ j, i ≤ j → (σ j).ctxDone g = false) (hs : StorageStage (σ i) g)
    (hn : (σ i).lrec = none) :
    ∃ j, i ≤ j ∧ (∀ k, i ≤ k → k ≤ j → (σ k).lrec = none ∧ StorageStage (σ k) g) ∧
      ∃ g' r, (σ (j + 1)).lrec = some r ∧ r.owner = some g' ∧ Acquires σ g' j := by
  have hex : ∃ j, i ≤ j ∧ (σ j).lrec ≠ none := by
    apply Classical.byContradiction
    intro hno
    have hfree : ∀ j, i ≤ j → (σ j).lrec = none :=
      fun j hj => Classical.byContradiction fun e => hno ⟨j, hj, e⟩
    refine no_lost_wakeup hx hf i hctx (fun j hj => ⟨hfree j hj, ?_⟩)
    obtain ⟨n, rfl⟩ : ∃ n, j = i + n := ⟨j - i, by omega⟩
    exact stage_while_free hx i hctx hs n (fun k h₁ _ => hfree k h₁)
  obtain ⟨j₁, hij₁, hP, hmin⟩ := first_pos (fun j => (σ j).lrec ≠ none) i hex
  have hlt : i < j₁ := by
    rcases Nat.lt_or_eq_of_le hij₁ with h | h
    · exact h
    · rw [← h] at hP; exact absurd hn hP
  obtain ⟨j, rfl⟩ : ∃ j, j₁ = j + 1 := ⟨j₁ - 1, by omega⟩
  have hfree : ∀ k, i ≤ k → k ≤ j → (σ k).lrec = none :=
    fun k h₁ h₂ => Classical.byContradiction fun e => hmin k h₁ (by omega) e
  refine ⟨j, by omega, fun k h₁ h₂ => ⟨hfree k h₁ h₂, ?_⟩, ?_⟩
  · obtain ⟨n, rfl⟩ : ∃ n, k = i + n := ⟨k - i, by omega⟩
    exact stage_while_free hx i hctx hs n (fun k' h₁' h₂' => hfree k' h₁' (by omega))
  · have hnj := hfree j (by omega) (Nat.le_refl j)
    cases hr : (σ (j + 1)).lrec with
    | none => exact absurd hr hP
    | some r =>
      rcases hx.next j with hstep | hst
      · obtain ⟨g', hpc, ho, hh, _⟩ := lrec_created hstep hnj r hr
        refine ⟨g', r, rfl, ho, not_holds_of_pc c _ (hx.reach j) g' ?_, hh⟩
        rcases hpc with h | h <;> simp [h]
      · rw [hst, hnj] at hr; cases hr

/-- the form "g holds, or the record exists because somebody else created it" -/
theorem wakeup_delivered' (hx : Exec c σ) (hf : WeaklyFair c σ g) (i : Nat)
    (hctx : ∀ j, i ≤ j → (σ j).ctxDone g = false) (hs : StorageStage (σ i) g)
    (hn : (σ i).lrec = none) :
    ∃ j, i < j ∧ ∃ r, (σ j).lrec = some r ∧
      ((σ j).holds g = true ∨ ∃ g', g' ≠ g ∧ r.owner = some g' ∧ (σ j).holds g' = true) := by
  obtain ⟨j, hij, _, g', r, hr, ho, _, hh⟩ := wakeup_delivered hx hf i hctx hs hn
  refine ⟨j + 1, by omega, r, hr, ?_⟩
  by_cases e : g' = g
  · subst e; exact Or.inl hh
  · exact Or.inr ⟨g', e, ho, hh⟩

/-! ### 2. local stage: no lost token -/

/-- C04Fair.no_lost_token: a token cannot lie in the Locker's channel for ever while a fair caller of
that Locker stands at the select (stronger than asked: nothing is assumed on `cntr`, `done`, `ctxDone` —
in a reachable state a token in the channel means `cntr = 0`, and if the provider is shut down or the
context is done the select has those exits) -/
theorem no_lost_token (hx : Exec c σ) (hf : WeaklyFair c σ g) (i : Nat) :
    ¬ ∀ j, i ≤ j → (σ j).pc g = .lSelect ∧ (σ j).token (c.lk g) = true := by
  intro hall
  obtain ⟨j, hij, hm⟩ := hf i (fun j hj => ⟨by simp [Busy, (hall j hj).1],
    enabled_lSelect_token c _ g (hx.inv j).tokCnt (hall j hj).1 (hall j hj).2⟩)
  exact hm (by rw [(hall (j + 1) (by omega)).1, (hall j hij).1])

/-- the literal form: the token is there and takeable at every position -/
theorem no_lost_token' (hx : Exec c σ) (hf : WeaklyFair c σ g) (i : Nat) :
    ¬ ∀ j, i ≤ j → (σ j).pc g = .lSelect ∧ Takeable c (σ j) g :=
  fun hall => no_lost_token hx hf i (fun j hj => ⟨(hall j hj).1, (hall j hj).2.1⟩)

/-- positive form: a fair caller at the select eventually leaves the select or finds the channel empty -/
theorem token_is_taken (hx : Exec c σ) (hf : WeaklyFair c σ g) (i : Nat) :
    ∃ j, i ≤ j ∧ ((σ j).pc g ≠ .lSelect ∨ (σ j).token (c.lk g) = false) := by
  apply Classical.byContradiction
  intro hno
  refine no_lost_token hx hf i (fun j hj => ⟨?_, ?_⟩)
  · exact Classical.byContradiction fun e => hno ⟨j, hj, Or.inl e⟩
  · cases ht : (σ j).token (c.lk g) with
    | true => rfl
    | false => exact absurd ⟨j, hj, Or.inr ht⟩ hno

/-- C04Fair.cancelled_waiter_returns: a fair caller whose context is done does not stay at the select -/
theorem cancelled_waiter_returns (hf : WeaklyFair c σ g) (i : Nat) :
    ¬ ∀ j, i ≤ j → (σ j).pc g = .lSelect ∧ (σ j).ctxDone g = true := by
  intro hall
  obtain ⟨j, hij, hm⟩ := hf i (fun j hj => ⟨by simp [Busy, (hall j hj).1],
    enabled_lSelect_ctx c _ g (hall j hj).1 (hall j hj).2⟩)
  exact hm (by rw [(hall (j + 1) (by omega)).1, (hall j hij).1])

/-- C04Fair.shutdown_waiter_returns: a fair caller whose provider is shut down does not stay at the select -/
theorem shutdown_waiter_returns (hf : WeaklyFair c σ g) (i : Nat) :
    ¬ ∀ j, i ≤ j → (σ j).pc g = .lSelect ∧ (σ j).done (c.pv (c.lk g)) = true := by
  intro hall
  obtain ⟨j, hij, hm⟩ := hf i (fun j hj => ⟨by simp [Busy, (hall j hj).1],
    enabled_lSelect_done c _ g (hall j hj).1 (hall j hj).2⟩)
  exact hm (by rw [(hall (j + 1) (by omega)).1, (hall j hij).1])

/-- the three exits of the select together, positive form: if at every position at which `g` still
stands at the select one of the exits is open, `g` leaves the select — with the token taken
(`lCtxCheck`) or returning an error (`idle`) -/
theorem select_is_left (hx : Exec c σ) (hf : WeaklyFair c σ g) (i : Nat)
    (hp : (σ i).pc g = .lSelect)
    (hopen : ∀ j, i ≤ j → (σ j).pc g = .lSelect →
      (σ j).token (c.lk g) = true ∨ (σ j).ctxDone g = true ∨ (σ j).done (c.pv (c.lk g)) = true) :
    ∃ j, i ≤ j ∧ (σ j).pc g = .lSelect ∧
      ((σ (j + 1)).pc g = .idle ∨
       ((σ (j + 1)).pc g = .lCtxCheck ∧ (σ j).token (c.lk g) = true ∧ (σ (j + 1)).token (c.lk g) = false)) := by
  obtain ⟨j, hij, hm, hk⟩ := hf.first_move i (by simp [Busy, hp]) (fun j hj hpj => by
    rcases hopen j hj (hpj.trans hp) with h | h | h
    · exact enabled_lSelect_token c _ g (hx.inv j).tokCnt (hpj.trans hp) h
    · exact enabled_lSelect_ctx c _ g (hpj.trans hp) h
    · exact enabled_lSelect_done c _ g (hpj.trans hp) h)
  have hpj : (σ j).pc g = .lSelect := (hk j hij (Nat.le_refl j)).trans hp
  refine ⟨j, hij, hpj, ?_⟩
  rcases gstep_lSelect (hx.own_step hm) hpj with ⟨h, _⟩ | h
  · exact Or.inl h
  · exact Or.inr h

/-! ### 3. the section is left, Unlock completes -/

/-- C04Fair.section_is_left: a fair goroutine inside the Locker-serialised section that is not holding
(and not in the storage stage) moves; up to its first move it stands where it stood -/
theorem section_is_left (hx : Exec c σ) (hf : WeaklyFair c σ g) (i : Nat) (p : Pc)
    (hp : (σ i).pc g = p)
    (hmem : p ∈ [Pc.lCtxCheck, .lFail, .tCreate, .tFail, .uCancel, .uDelete, .uToken, .tSelect]) :
    ∃ j, i ≤ j ∧ Moves σ g j ∧ ∀ k, i ≤ k → k ≤ j → (σ k).pc g = p := by
  subst hp
  refine hf.first_move i ?_ (fun j hj hpj => ?_)
  · intro h; rw [h] at hmem; simp at hmem
  · rw [← hpj] at hmem
    simp only [List.mem_cons, List.not_mem_nil, or_false] at hmem
    rcases hmem with h | h | h | h | h | h | h | h
    · exact enabled_section c _ g (Or.inl h)
    · exact enabled_section c _ g (Or.inr (Or.inr (Or.inl h)))
    · exact enabled_section c _ g (Or.inr (Or.inr (Or.inr (Or.inl h))))
    · exact enabled_section c _ g (Or.inr (Or.inr (Or.inr (Or.inr (Or.inl h)))))
    · exact enabled_section c _ g (Or.inr (Or.inr (Or.inr (Or.inr (Or.inr (Or.inl h))))))
    · exact enabled_section c _ g (Or.inr (Or.inr (Or.inr (Or.inr (Or.inr (Or.inr (Or.inl h)))))))
    · exact enabled_section c _ g (Or.inr (Or.inr (Or.inr (Or.inr (Or.inr (Or.inr (Or.inr h)))))))
    · exact enabled_tSelect c _ g (hx.inv j).tokCnt h

/-- Unlock, `future.Cancel()` done -/
theorem unlock_cancel_done (hx : Exec c σ) (hf : WeaklyFair c σ g) (i : Nat)
    (hp : (σ i).pc g = .uCancel) :
    ∃ j, i ≤ j ∧ (σ j).pc g = .uCancel ∧ (σ (j + 1)).pc g = .uDelete := by
  obtain ⟨j, hij, hm, hk⟩ := section_is_left hx hf i _ hp (by simp)
  exact ⟨j, hij, hk j hij (Nat.le_refl j), gstep_uCancel (hx.own_step hm) (hk j hij (Nat.le_refl j))⟩

/-- Unlock, `Storage.Delete` done: the record is gone -/
theorem unlock_delete_done (hx : Exec c σ) (hf : WeaklyFair c σ g) (i : Nat)
    (hp : (σ i).pc g = .uDelete) :
    ∃ j, i ≤ j ∧ (σ j).pc g = .uDelete ∧ (σ (j + 1)).pc g = .uToken ∧ (σ (j + 1)).lrec = none := by
  obtain ⟨j, hij, hm, hk⟩ := section_is_left hx hf i _ hp (by simp)
  exact ⟨j, hij, hk j hij (Nat.le_refl j), gstep_uDelete (hx.own_step hm) (hk j hij (Nat.le_refl j))⟩

/-- Unlock, `lockCh <- true` done -/
theorem unlock_token_done (hx : Exec c σ) (hf : WeaklyFair c σ g) (i : Nat)
    (hp : (σ i).pc g = .uToken) :
    ∃ j, i ≤ j ∧ (σ j).pc g = .uToken ∧ (σ (j + 1)).pc g = .idle ∧ (σ (j + 1)).token (c.lk g) = true := by
  obtain ⟨j, hij, hm, hk⟩ := section_is_left hx hf i _ hp (by simp)
  exact ⟨j, hij, hk j hij (Nat.le_refl j), gstep_uToken (hx.own_step hm) (hk j hij (Nat.le_refl j))⟩

/-- C04Fair.unlock_completes: a fair goroutine that has entered Unlock deletes the record (position `k`:
Delete done, record gone) and returns (position `j + 1`: idle) having put its Locker's token back -/
theorem unlock_completes (hx : Exec c σ) (hf : WeaklyFair c σ g) (i : Nat)
    (hp : (σ i).pc g = .uCancel) :
    ∃ k j, i < k ∧ k ≤ j ∧ (σ k).pc g = .uToken ∧ (σ k).lrec = none ∧
      (σ j).pc g = .uToken ∧ (σ (j + 1)).pc g = .idle ∧ (σ (j + 1)).token (c.lk g) = true := by
  obtain ⟨j₁, h₁, _, hp₁⟩ := unlock_cancel_done hx hf i hp
  obtain ⟨j₂, h₂, _, hp₂, hn₂⟩ := unlock_delete_done hx hf (j₁ + 1) hp₁
  obtain ⟨j₃, h₃, hq₃, hp₃, ht₃⟩ := unlock_token_done hx hf (j₂ + 1) hp₂
  exact ⟨j₂ + 1, j₃, by omega, h₃, hp₂, hn₂, hq₃, hp₃, ht₃⟩

/-- the failure paths of Lock / TryLock return with the token put back -/
theorem failure_returns_token (hx : Exec c σ) (hf : WeaklyFair c σ g) (i : Nat)
    (hp : (σ i).pc g = .lFail ∨ (σ i).pc g = .tFail) :
    ∃ j, i ≤ j ∧ (σ (j + 1)).pc g = .idle ∧ (σ (j + 1)).token (c.lk g) = true := by
  rcases hp with hp | hp
  · obtain ⟨j, hij, hm, hk⟩ := section_is_left hx hf i _ hp (by simp)
    exact ⟨j, hij, gstep_fail (hx.own_step hm) (Or.inl (hk j hij (Nat.le_refl j)))⟩
  · obtain ⟨j, hij, hm, hk⟩ := section_is_left hx hf i _ hp (by simp)
    exact ⟨j, hij, gstep_fail (hx.own_step hm) (Or.inr (hk j hij (Nat.le_refl j)))⟩

/-! ### 4. a free lock is taken; a released lock is taken -/

/-- C04Fair.free_lock_is_taken: if the lock is free at `i` and a fair caller `g` with a live context is
in the storage stage, then at some position `j ≥ i` SOME goroutine newly acquires.  (Only `g` itself
has to be fair; shutdown is irrelevant in the storage stage; "nobody holds at `i`" follows from
`lrec = none` by the invariant.  `j = i` is possible: the very next step may be the acquire.) -/
theorem free_lock_is_taken (hx : Exec c σ) (hf : WeaklyFair c σ g) (i : Nat)
    (hctx : ∀ j, i ≤ j → (σ j).ctxDone g = false) (hs : StorageStage (σ i) g)
    (hn : (σ i).lrec = none) :
    ∃ j, i ≤ j ∧ ∃ g', Acquires σ g' j := by
  obtain ⟨j, hij, _, g', _, _, _, ha⟩ := wakeup_delivered hx hf i hctx hs hn
  exact ⟨j, hij, g', ha⟩

/-- while the lock is free nobody holds -/
theorem free_nobody_holds (hx : Exec c σ) (i : Nat) (hn : (σ i).lrec = none) (g' : G) :
    (σ i).holds g' = false := by
  cases hh : (σ i).holds g' with
  | false => rfl
  | true =>
    obtain ⟨r, hr, _⟩ := (hx.inv i).own g' (Or.inl hh)
    rw [hn] at hr; cases hr

/-- a caller in the storage stage with a live context is still there `n` positions later unless it
has acquired in between -/
theorem stage_or_acquired (hx : Exec c σ) (i : Nat) (hctx : ∀ j, i ≤ j → (σ j).ctxDone g = false)
    (hs : StorageStage (σ i) g) (n : Nat) :
    StorageStage (σ (i + n)) g ∨ ∃ j, i ≤ j ∧ j < i + n ∧ Acquires σ g j := by
  induction n with
  | zero => exact Or.inl hs
  | succ n ih =>
    rcases ih with h | ⟨j, h₁, h₂, h₃⟩
    · rcases stage_step g (hx.next (i + n)) h (hctx _ (by omega)) with h' | ⟨_, hh, _⟩
      · exact Or.inl h'
      · refine Or.inr ⟨i + n, by omega, by omega, not_holds_of_pc c _ (hx.reach _) g ?_, hh⟩
        rcases h with h | ⟨v, h⟩ <;> simp [h]
    · exact Or.inr ⟨j, h₁, by omega, h₃⟩

/-- if every goroutine is fair and every holder eventually calls Unlock, the lock is free again and again -/
theorem lock_gets_free (hx : Exec c σ) (hfair : ∀ g', WeaklyFair c σ g')
    (hunl : ∀ j g', (σ j).holds g' = true → ∃ k, j ≤ k ∧ (σ k).holds g' = false) (i : Nat) :
    ∃ k, i ≤ k ∧ (σ k).lrec = none := by
  cases hr : (σ i).lrec with
  | none => exact ⟨i, Nat.le_refl i, hr⟩
  | some r =>
    obtain ⟨g₀, _, hg₀⟩ := Reach_ILive c _ (hx.reach i) r hr
    have hdel : ∀ i', i ≤ i' → (σ i').pc g₀ = .uDelete → ∃ k, i ≤ k ∧ (σ k).lrec = none := by
      intro i' hi' hp
      obtain ⟨j, hj, _, _, hn⟩ := unlock_delete_done hx (hfair g₀) i' hp
      exact ⟨j + 1, by omega, hn⟩
    have hcan : ∀ i', i ≤ i' → (σ i').pc g₀ = .uCancel → ∃ k, i ≤ k ∧ (σ k).lrec = none := by
      intro i' hi' hp
      obtain ⟨j, hj, _, hp'⟩ := unlock_cancel_done hx (hfair g₀) i' hp
      exact hdel (j + 1) (by omega) hp'
    rcases hg₀ with hh | hp | hp
    · obtain ⟨k₁, hik₁, hk₁, hmin⟩ := first_pos (fun k => (σ k).holds g₀ = false) i (hunl i g₀ hh)
      have hlt : i < k₁ := by
        rcases Nat.lt_or_eq_of_le hik₁ with h | h
        · exact h
        · rw [← h] at hk₁
          have : (σ i).holds g₀ = false := hk₁
          rw [hh] at this; cases this
      obtain ⟨k, rfl⟩ : ∃ k, k₁ = k + 1 := ⟨k₁ - 1, by omega⟩
      have hhk : (σ k).holds g₀ = true := by
        cases h : (σ k).holds g₀ with
        | true => rfl
        | false => exact absurd h (hmin k (by omega) (by omega))
      rcases hx.next k with hstep | hst
      · exact hcan (k + 1) (by omega) (holds_off hstep g₀ hhk hk₁)
      · have : (σ (k + 1)).holds g₀ = false := hk₁
        rw [hst, hhk] at this; cases this
    · exact hcan i (Nat.le_refl i) hp
    · exact hdel i (Nat.le_refl i) hp

/-- C04Fair.released_lock_is_taken ("when a holder unlocks, some waiting caller acquires"): all
goroutines weakly fair, every holder eventually calls Unlock; if a caller `g` is in the storage stage
with a context that is never done, then at some later position some goroutine newly acquires the lock
(whoever holds at `i` releases it, the record is deleted, and the free lock is taken — by `g` or by a
caller that overtakes it) -/
theorem released_lock_is_taken (hx : Exec c σ) (hfair : ∀ g', WeaklyFair c σ g')
    (hunl : ∀ j g', (σ j).holds g' = true → ∃ k, j ≤ k ∧ (σ k).holds g' = false) (i : Nat)
    (hctx : ∀ j, i ≤ j → (σ j).ctxDone g = false) (hs : StorageStage (σ i) g) :
    ∃ j, i ≤ j ∧ ∃ g', Acquires σ g' j := by
  obtain ⟨k, hik, hn⟩ := lock_gets_free hx hfair hunl i
  obtain ⟨n, rfl⟩ : ∃ n, k = i + n := ⟨k - i, by omega⟩
  rcases stage_or_acquired hx i hctx hs n with h | ⟨j, h₁, _, h₃⟩
  · obtain ⟨j, hj, hg⟩ := free_lock_is_taken hx (hfair g) (i + n) (fun j hj => hctx j (by omega)) h hn
    exact ⟨j, by omega, hg⟩
  · exact ⟨j, h₁, g, h₃⟩

/-- … and this happens again and again: as long as `g` waits, the lock keeps being acquired -/
theorem lock_keeps_being_taken (hx : Exec c σ) (hfair : ∀ g', WeaklyFair c σ g')
    (hunl : ∀ j g', (σ j).holds g' = true → ∃ k, j ≤ k ∧ (σ k).holds g' = false) (i : Nat)
    (hctx : ∀ j, i ≤ j → (σ j).ctxDone g = false) (hs : StorageStage (σ i) g) :
    (∃ j, i ≤ j ∧ Acquires σ g j) ∨ ∀ k, i ≤ k → ∃ j, k ≤ j ∧ ∃ g', Acquires σ g' j := by
  by_cases hg : ∃ j, i ≤ j ∧ Acquires σ g j
  · exact Or.inl hg
  · refine Or.inr (fun k hk => ?_)
    obtain ⟨n, rfl⟩ : ∃ n, k = i + n := ⟨k - i, by omega⟩
    rcases stage_or_acquired hx i hctx hs n with h | ⟨j, h₁, _, h₃⟩
    · exact released_lock_is_taken hx hfair hunl (i + n) (fun j hj => hctx j (by omega)) h
    · exact absurd ⟨j, h₁, h₃⟩ hg

end

/-! ### 5. strong fairness: enough for the local stage, NOT enough for the storage stage -/

/-- strong fairness for the internal steps of `g`, with respect to every KIND of step (a kind is a set
`K` of pairs (source pc, target pc); e.g. "the successful Create" is `K p q := p = .lCreate ∧ q = .idle`):
if steps of `g` of kind `K` are enabled at infinitely many positions at which `g` is busy, then `g`
takes steps of kind `K` at infinitely many positions -/
def StronglyFair (c : Cfg) (σ : Nat → St) (g : G) : Prop :=
  ∀ K : Pc → Pc → Prop,
    (∀ k, ∃ j, k ≤ j ∧ Busy (σ j) g ∧
      ∃ t, Step c false false (σ j) t ∧ t.pc g ≠ (σ j).pc g ∧ K ((σ j).pc g) (t.pc g)) →
    ∀ k, ∃ j, k ≤ j ∧ Moves σ g j ∧ K ((σ j).pc g) ((σ (j + 1)).pc g)

theorem StronglyFair.weaklyFair {c : Cfg} {σ : Nat → St} {g : G} (h : StronglyFair c σ g) :
    WeaklyFair c σ g := by
  intro i hall
  obtain ⟨j, hj, hm, _⟩ := h (fun _ _ => True) (fun k => by
    obtain ⟨hb, t, ht, hne⟩ := hall (max k i) (Nat.le_max_right k i)
    exact ⟨max k i, Nat.le_max_left k i, hb, t, ht, hne, trivial⟩) i
  exact ⟨j, hj, hm⟩

/-- local stage, strong fairness: a strongly fair caller cannot stand at the select for ever if the
token of its Locker is in the channel again and again (other callers of the same Locker cannot
overtake it for ever) -/
theorem strongly_fair_takes_token {c : Cfg} {σ : Nat → St} {g : G} (hx : Exec c σ)
    (hsf : StronglyFair c σ g) (i : Nat) :
    ¬ ((∀ j, i ≤ j → (σ j).pc g = .lSelect) ∧ ∀ k, ∃ j, k ≤ j ∧ (σ j).token (c.lk g) = true) := by
  intro ⟨hsel, htok⟩
  obtain ⟨j, hj, hm, _⟩ := hsf (fun _ _ => True) (fun k => by
    obtain ⟨j, hj, ht⟩ := htok (max k i)
    have hji : i ≤ j := Nat.le_trans (Nat.le_max_right k i) hj
    obtain ⟨t, hst, hne⟩ := enabled_lSelect_token c (σ j) g (hx.inv j).tokCnt (hsel j hji) ht
    exact ⟨j, Nat.le_trans (Nat.le_max_left k i) hj, by simp [Busy, hsel j hji], t, hst, hne, trivial⟩) i
  exact hm (by rw [hsel (j + 1) (by omega), hsel j hj])

theorem ovr_exec : Exec cfgOwn Ovr.run := ⟨Reach.init, Ovr.run_next⟩

theorem ovr_fair (g : G) : WeaklyFair cfgOwn Ovr.run g := by
  intro i hall
  by_cases h0 : g = 0
  · subst h0; exact ⟨8 + 10 * i + 8, by omega, Ovr.run_moves0 i⟩
  · by_cases h1 : g = 1
    · subst h1; exact ⟨8 + 10 * i + 0, by omega, Ovr.run_moves1 i⟩
    · have hg : 2 ≤ g := by
        rcases g with _ | _ | g
        · exact absurd rfl h0
        · exact absurd rfl h1
        · exact Nat.le_add_left 2 g
      exact absurd (Ovr.run_others i g hg).1 (hall i (Nat.le_refl i)).1

theorem ovr_strongly_fair : StronglyFair cfgOwn Ovr.run 0 := by
  intro K hprem k
  obtain ⟨j, hj, _, t, hst, hne, hK⟩ := hprem (k + 8)
  obtain ⟨j', hjj', hp, hq⟩ := Ovr.run_strong j (by omega) t (step_pc_cases 0 hst hne)
  refine ⟨j', by omega, ?_, ?_⟩
  · unfold Moves; rw [hq, hp]; exact hne
  · rw [hp, hq]; exact hK

theorem ovr_unlocks (j : Nat) (g' : G) (hh : (Ovr.run j).holds g' = true) :
    ∃ k, j ≤ k ∧ (Ovr.run k).holds g' = false := by
  by_cases h0 : g' = 0
  · subst h0; rw [(Ovr.run_quiet j).1] at hh; cases hh
  · by_cases h1 : g' = 1
    · subst h1; exact ⟨8 + 10 * j + 1, by omega, Ovr.run_unl1 j⟩
    · have hg : 2 ≤ g' := by
        rcases g' with _ | _ | g'
        · exact absurd rfl h0
        · exact absurd rfl h1
        · exact Nat.le_add_left 2 g'
      rw [(Ovr.run_others j g' hg).2] at hh; cases hh

/-- C04Fair.overtaken_forever — the target "every fair acquiring caller is eventually served" is FALSE
in the model, even with strong fairness of the caller's own steps.  In the run `Lock.Ovr.run` (own
Lockers; goroutine 1 holds, goroutine 0 is parked in `WaitForVersionChange`; for ever: 1 unlocks, calls
Lock again and creates the record before 0's wait returns; 0 wakes up, its Create finds the record, it
waits on the new version) all goroutines are weakly fair, goroutine 0 is strongly fair for every kind
of step (its successful Create is never enabled: whenever it stands at `lCreate` the record exists),
nothing is shut down, no context is done, the holder unlocks again and again, no record expires —
and goroutine 0, acquiring from position 8 on, never holds the lock. -/
theorem overtaken_forever :
    ∃ σ : Nat → St, Exec cfgOwn σ ∧ (∀ g, WeaklyFair cfgOwn σ g) ∧ StronglyFair cfgOwn σ 0 ∧
      (∀ j p, (σ j).done p = false) ∧ (∀ j, (σ j).ctxDone 0 = false) ∧
      (∀ j g', (σ j).holds g' = true → ∃ k, j ≤ k ∧ (σ k).holds g' = false) ∧
      (∀ j, 8 ≤ j → StorageStage (σ j) 0) ∧ ∀ j, (σ j).holds 0 = false :=
  ⟨Ovr.run, ovr_exec, ovr_fair, ovr_strongly_fair, fun j p => (Ovr.run_quiet j).2.2 p,
    fun j => (Ovr.run_quiet j).2.1 0, ovr_unlocks, Ovr.run_stage0, fun j => (Ovr.run_quiet j).1⟩

/-! ### 6. non-vacuity: the hypotheses are satisfiable -/

/-- `Lock.Demo.run`: goroutine 0 calls Lock (no context) on a free lock: select, token, ctx check,
Create; then the run stutters for ever -/
theorem demo_exec : Exec cfgOwn Demo.run := ⟨Reach.init, Demo.run_next⟩

theorem demo_fair (g : G) : WeaklyFair cfgOwn Demo.run g := by
  intro i hall
  have h := (hall (i + 4) (by omega)).1
  rw [Busy, Demo.run_ge (i + 4) (by omega)] at h
  exact absurd (Demo.s₄_idle g) h

/-- at position 3 goroutine 0 is at `lCreate`, the lock is free, its context is never done -/
theorem demo_hyps : StorageStage (Demo.run 3) 0 ∧ (Demo.run 3).lrec = none ∧
    ∀ j, 3 ≤ j → (Demo.run j).ctxDone 0 = false :=
  ⟨Or.inl rfl, rfl, fun j _ => Demo.run_ctx j⟩

/-- theorems 1 and 4 instantiated on the demo run … -/
theorem demo_instance :
    (¬ ∀ j, 3 ≤ j → (Demo.run j).lrec = none ∧ StorageStage (Demo.run j) 0) ∧
    (∃ j, 3 ≤ j ∧ ∃ g', Acquires Demo.run g' j) :=
  ⟨no_lost_wakeup demo_exec (demo_fair 0) 3 demo_hyps.2.2,
   free_lock_is_taken demo_exec (demo_fair 0) 3 demo_hyps.2.2 demo_hyps.1 demo_hyps.2.1⟩

/-- … and the witness of the conclusion: goroutine 0 acquires in the step at position 3 -/
theorem demo_witness : Acquires Demo.run 0 3 ∧
    (Demo.run 4).lrec = some { ver := 1, owner := some 0 } := ⟨⟨rfl, rfl⟩, rfl⟩

/-- the hypotheses of `released_lock_is_taken` (all goroutines fair, every holder unlocks, a caller in
the storage stage whose context is never done) are satisfiable as well: the overtaking run; there the
lock is acquired again and again — by the other caller -/
theorem ovr_instance (k : Nat) (hk : 8 ≤ k) : ∃ j, k ≤ j ∧ ∃ g', Acquires Ovr.run g' j :=
  released_lock_is_taken (g := 0) ovr_exec ovr_fair ovr_unlocks k
    (fun j _ => (Ovr.run_quiet j).2.1 0) (Ovr.run_stage0 k hk)

/-- theorem 3 on the overtaking run: goroutine 1 enters Unlock at position 9 (`uCancel`) and completes it -/
theorem ovr_unlock_instance :
    (Ovr.run 9).pc 1 = .uCancel ∧
    ∃ k j, 9 < k ∧ k ≤ j ∧ (Ovr.run k).pc 1 = .uToken ∧ (Ovr.run k).lrec = none ∧
      (Ovr.run j).pc 1 = .uToken ∧ (Ovr.run (j + 1)).pc 1 = .idle ∧
      (Ovr.run (j + 1)).token (cfgOwn.lk 1) = true :=
  ⟨rfl, unlock_completes ovr_exec (ovr_fair 1) 9 rfl⟩

/-- theorem 2 on the demo run: at position 1 goroutine 0 stands at the select with the token in the
channel; it takes it in the step at position 1 -/
theorem demo_token_instance :
    (Demo.run 1).pc 0 = .lSelect ∧ Takeable cfgOwn (Demo.run 1) 0 ∧
    (∃ j, 1 ≤ j ∧ ((Demo.run j).pc 0 ≠ .lSelect ∨ (Demo.run j).token (cfgOwn.lk 0) = false)) ∧
    (Demo.run 2).pc 0 = .lCtxCheck ∧ (Demo.run 2).token (cfgOwn.lk 0) = false :=
  ⟨rfl, ⟨rfl, rfl, rfl, rfl⟩, token_is_taken demo_exec (demo_fair 0) 1, rfl, rfl⟩

end C04Fair
