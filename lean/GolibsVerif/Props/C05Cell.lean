import GolibsVerif.Lemmas.LeaseCell
import GolibsVerif.Generated.LockConsts
/-
C05 (renewal bookkeeping, answers arriving late) — `Model/LeaseCell.lean`.

`Lock.Sys` (Props/C05.lean) treats a storage call and the delivery of its answer as ONE step.  Here a
renewal's CasByVersion is applied at one step and answered at a later one; in between the holder may
Unlock and Lock again through the same Locker, other providers may take and give up the lock, and the
stale `supportTimeout` finishes whenever it likes.

* `chain_alive_late_answers` — for the code as it is (`future.CompareAndSwap(loaded, new)`, else Cancel of
  the NEW timer): in every run without early fires (timing assumption of C05.lease_chain_alive_partial)
  and without transient storage errors, while the Locker holds the record exists, is its own, and some
  timer or supportTimeout will still try to renew exactly its current version — however late the answers
  of earlier renewals arrive.
* `swap_variant_breaks_chain` — negative, kernel-checked: with `future.Swap(new)` + Cancel of the REPLACED
  timer (the seeded change `C05-rearm-swap-cancels-next-tenure`) a run of that same kind ends with the lock
  held and nothing left to renew it.
* `chain_alive_full` — the same statement with transient errors allowed is FALSE of the model even for the
  code as it is (`chain_alive_refuted`): a supportTimeout of a finished tenure which starts late (loads
  `l.future` after the re-lock) and meets a transient error re-arms itself and takes over `l.future`; when
  that happens a second time exactly between the load and the CompareAndSwap of the live chain's renewal,
  the live chain cancels its own new timer.  Needs a renewal goroutine delayed across a complete
  Unlock + Lock and two transient errors hitting microsecond windows; see DESIGN.md §2 C05.
* `chain_alive_current_errors` — transient errors that only ever hit renewals of the record's CURRENT
  version (i.e. never a stale supportTimeout) keep the chain alive.
* `code_skeleton` — the order of the operations on `l.future`, the timers and the storage in TryLock,
  lockWithCtx, Unlock and supportTimeout, regenerated from kvlock.go, is the one this model follows.
-/
namespace C05Cell
open LeaseCell

/-- C05Cell.held_has_record: while held the record exists and is the Locker's own -/
theorem held_has_record (cas : Bool) (s : St) (h : Reach cas s) (hh : s.phase = .held) :
    ∃ v, s.lrec = some (v, true) :=
  LeaseCell.held_has_record h hh

/-- C05Cell.chain_alive_late_answers -/
theorem chain_alive_late_answers (s : St) (h : ReachQuiet true s) (hh : s.phase = .held) :
    ∃ v, s.lrec = some (v, true) ∧ Alive s v :=
  chain_alive_quiet h hh

def chain_alive_full : Prop :=
  ∀ s, ReachNE true s → s.phase = .held → ∃ v, s.lrec = some (v, true) ∧ Alive s v

/-- C05Cell.chain_alive_refuted -/
theorem chain_alive_refuted : ¬ chain_alive_full := by
  intro H
  obtain ⟨s, hr, hh, v, hv, hna⟩ := stale_errors_run
  obtain ⟨v', hv', ha⟩ := H s hr hh
  rw [hv] at hv'
  cases hv'
  exact hna ha

/-- C05Cell.chain_alive_current_errors: transient errors which only hit renewals of the record's current
version (`ReachCur`: no early fire, no `IsStaleLose` step) keep the chain alive -/
theorem chain_alive_current_errors (s : St) (h : ReachCur true s) (hh : s.phase = .held) :
    ∃ v, s.lrec = some (v, true) ∧ Alive s v :=
  chain_alive_cur h hh

/-- C05Cell.swap_variant_breaks_chain -/
theorem swap_variant_breaks_chain :
    ∃ s, ReachQuiet false s ∧ s.phase = .held ∧ ∃ v, s.lrec = some (v, true) ∧ ¬ Alive s v :=
  swap_variant_run

/-- C05Cell.code_skeleton: what the model assumes about the code, checked against the regenerated skeleton -/
theorem code_skeleton :
    LockConsts.futureSkeleton =
      [("TryLock", ["Create", "arm", "store"]),
       ("Unlock", ["load", "cancel", "Delete"]),
       ("lockWithCtx", ["Create", "arm", "store", "Wait"]),
       ("supportTimeout", ["load", "CasByVersion", "arm", "cas", "cancel", "arm", "cas", "cancel"])] := by
  decide

end C05Cell
