import GolibsVerif.Lemmas.Lin
/-
Linearizability of atomic-step objects (generic; instantiated by C02 / C09 / C12 / C17).
-/
namespace LinThm
open Lin

variable {σ ι ρ : Type} [DecidableEq ρ]

/-- the order of the atomic steps is a legal sequential history: the results the operations
returned are exactly those of running the sequential object over the inputs in that order -/
theorem order_is_sequential (o : Obj σ ι ρ) (s0 : σ) (es : List (Ev ι ρ)) (s : Sys σ ι ρ)
    (h : (Sys.init s0).run o es = some s) :
    seqRun o s0 (s.order.map (·.2.1)) = (s.st, s.order.map (·.2.2)) :=
  SeqInv_run o s0 es (Sys.init s0) s (SeqInv_init o s0) h

/-- that order respects real time: if operation a's response precedes operation b's invocation in
the execution, a's atomic step precedes b's -/
theorem order_respects_real_time (o : Obj σ ι ρ) (s0 : σ) (es : List (Ev ι ρ)) (s : Sys σ ι ρ)
    (h : (Sys.init s0).run o es = some s) (a b : Nat) (pa : Nat)
    (ha : (a, pa) ∈ s.retPos) (hb : b ∈ s.order.map (·.1)) (hlt : pa < b) :
    ∃ ia ib, (s.order.map (·.1)).idxOf? a = some ia ∧ (s.order.map (·.1)).idxOf? b = some ib ∧ ia < ib :=
  by
    have hinv := RTInv_run o es (Sys.init s0) s (RTInv_init s0) h
    exact Before.idxOf? hinv.nodup (hinv.ret_before a pa ha b hb hlt)

/-- every completed operation is in the order exactly once -/
theorem completed_in_order (o : Obj σ ι ρ) (s0 : σ) (es : List (Ev ι ρ)) (s : Sys σ ι ρ)
    (h : (Sys.init s0).run o es = some s) :
    (s.order.map (·.1)).Nodup ∧ ∀ a pa, (a, pa) ∈ s.retPos → a ∈ s.order.map (·.1) :=
  by
    have hinv := RTInv_run o es (Sys.init s0) s (RTInv_init s0) h
    exact ⟨hinv.nodup, hinv.ret_mem⟩

end LinThm
