import GolibsVerif.Lemmas.OMap
/-
C11 — Ordered map retains nothing beyond live entries + entries pinned by open iterators.
(The LRU-cache half of C11 is in Props/C11Lru.lean.)
-/
namespace C11
open OMap

/-- C11.chain_bound: linked nodes = live entries + sentinel + removed-but-pinned entries, and the
pinned ones are at most as many as the open iterators. -/
theorem chain_bound (ops : List Op) (m : M) (outs : List Out) (h : runI false M.new ops = some (m, outs)) :
    m.chain.length = m.vals.length + 1 + (m.chain.filter (·.st == .deleted)).length ∧
    (m.chain.filter (·.st == .deleted)).length ≤ m.its.length :=
  ⟨(reach_sim' h).chain_length, (reach_sim' h).deleted_le⟩

/-- C11.closed_means_clean: once every iterator has been closed no removed entry is retained. -/
theorem closed_means_clean (ops : List Op) (m : M) (outs : List Out)
    (h : runI false M.new ops = some (m, outs)) (hc : m.its = []) :
    m.chain.length = m.vals.length + 1 := by
  have h1 := (reach_sim' h).chain_length
  have h2 := (reach_sim' h).deleted_le
  rw [hc] at h2
  simp only [List.length_nil] at h2
  omega

/-- the loop of `next()` never needs more iterations than there are linked nodes (cost bound) -/
theorem next_fuel_suffices (ops : List Op) (m : M) (outs : List Out)
    (h : runI false M.new ops = some (m, outs)) (p : Nat) (hp : (findNode m.chain p).isSome) :
    (m.next p).isSome :=
  next_isSome hp (reach_sim' h).cs.toStr

end C11
