import GolibsVerif.Lemmas.TmoPoolLive
/-
C13 (inevitability) — "every live future fires" as a TOTAL-correctness statement.

`Props/C13.lean` shows that a reachable state with a due future always has a useful watcher step
enabled (`no_stuck_state`).  That alone leaves room for a livelock: watchers could go on taking steps
for ever without starting the callback.  This file closes the gap without a fairness assumption:

* `internal_step_decreases` — at a fixed clock every watcher step (a decision section, a timer
  wake-up, a token wake-up) strictly decreases the natural number `mu`, so
* `internal_runs_bounded` — no run of watcher steps from `s` is longer than `mu s`: the watchers
  cannot livelock, whatever the scheduler does;
* `quiescent_nothing_due` — a reachable state in which no watcher step is enabled has no due future
  pending and no popped callback waiting to be run;
* `every_due_future_starts` — hence EVERY maximal run of watcher steps from a reachable state ends
  with the callback of every future that was due started; with the bound above every scheduler
  reaches such an end within `mu s` watcher steps.

`IStep` are exactly the watcher constructors of `Tmo.Pool.Step` (`IStep.toStep`); Call, Cancel and the
passage of time are the environment.  `0 < c.idle` is the code's `idleTimeout` (a positive constant).
-/
namespace C13Live
open Tmo.Pool

/-- C13Live.internal_step_decreases -/
theorem internal_step_decreases (c : Cfg) (hidle : 0 < c.idle) (s t : St) (st : IStep c s t) : mu t < mu s :=
  IStep.mu_lt hidle st

/-- C13Live.internal_runs_bounded: a run of `n` watcher steps from `s` has `n ≤ mu s` -/
theorem internal_runs_bounded (c : Cfg) (hidle : 0 < c.idle) (s t : St) (n : Nat) (r : IRun c s n t) : n ≤ mu s :=
  IRun.len_le hidle r

/-- C13Live.istep_is_step: watcher steps are steps of the pool model (so reachability is preserved) -/
theorem istep_is_step (c : Cfg) (s t : St) (st : IStep c s t) : Step c s t := st.toStep

/-- C13Live.quiescent_nothing_due -/
theorem quiescent_nothing_due (c : Cfg) (hm : 1 ≤ c.maxWorkers) (s : St) (h : Reach c s)
    (hq : ∀ t, ¬ IStep c s t) :
    (∀ p ∈ s.heap, s.now < p.2) ∧ (∀ (i : Nat) (f : Option Nat) (mis : Nat), s.threads[i]? ≠ some (WPc.top f mis)) :=
  quiescent_nothing_due' hm h hq

/-- C13Live.every_due_future_starts: from a reachable state, along ANY run of watcher steps that ends
in a state where no watcher step is enabled, every future that was pending and due has been started -/
theorem every_due_future_starts (c : Cfg) (hm : 1 ≤ c.maxWorkers) (s t : St) (n : Nat) (h : Reach c s)
    (r : IRun c s n t) (hq : ∀ u, ¬ IStep c t u) (id fireT : Nat) (hp : (id, fireT) ∈ s.heap) (hd : fireT ≤ s.now) :
    id ∈ t.started :=
  every_due_future_starts' hm h r hq hp hd

/-- C13Live.popped_callback_runs: likewise a callback already popped (a watcher at `top (some id)`) is started -/
theorem popped_callback_runs (c : Cfg) (s t : St) (n : Nat)
    (r : IRun c s n t) (hq : ∀ u, ¬ IStep c t u) (i id mis : Nat) (hp : s.threads[i]? = some (WPc.top (some id) mis)) :
    id ∈ t.started :=
  popped_callback_runs' r hq hp

/-- C13Live.maximal_run_exists: a maximal run exists from every state (so the statements above are not vacuous) -/
theorem maximal_run_exists (c : Cfg) (hidle : 0 < c.idle) (s : St) :
    ∃ t n, IRun c s n t ∧ ∀ u, ¬ IStep c t u :=
  maximal_run_exists' hidle s

/-- non-vacuity: one watcher, one due future: the run section;section;section ends quiescent with it started -/
example : ∃ t n, IRun ⟨2, 5⟩ exSt n t ∧ (∀ u, ¬ IStep ⟨2, 5⟩ t u) ∧ 0 ∈ t.started :=
  nonvacuous_example

end C13Live
