import GolibsVerif.Lemmas.RedisConcSim
/-
C02 (Redis backend, all interleavings) — the command-level concurrent model `RedisConc` of
kvs/redis/redis.go is linearizable w.r.t. the KV contract `Kv.Spec`: for ANY number of clients, ANY
programs over Create / Get / GetMany / Put / PutMany(MSET) / CasByVersion / Delete and ANY
interleaving of their Redis commands (including any number of lost WATCH/EXEC races and of
Create's SETNX/GET retries), every operation takes effect at exactly one of its commands, between
its invocation and its response, with exactly the result the contract gives at that moment.
-/
namespace C02Redis
open Kv RedisConc Lin

/- `Corr p ts` (Lemmas/RedisConcSim.lean): client at `idle` ↔ Lin thread `idle`; `done r` ↔ `linearized _ _ r`
(the result is the one fixed at the linearization point); any other pc ↔ `pending _ op` with `op` the
operation the pc belongs to (`opOf`). -/
/-- the WATCH guarantee the CAS relies on: a client about to EXEC whose watch is untouched still sees
the record it read: the key holds a record with exactly the expected version. -/
theorem exec_sees_what_get_saw (n : Nat) (es : List Ev) (s : St) (ls : List (Lin.Ev Op Out))
    (h : runL (St.init n) es = some (s, ls)) (t : Nat) (k : String) (ver : Nat) (v : String) (kw : String)
    (hp : s.pc[t]? = some (.casExec k ver v)) (hw : s.watch[t]? = some (some (kw, false))) :
    kw = k ∧ ∃ r, s.srv.live 0 k = some r ∧ r.ver = ver := by
  have hi := (WInv.init n).runL h
  obtain ⟨d, hd, hr⟩ := hi.ok t _ hp
  rw [hd] at hw
  simp only [Option.some.injEq, Prod.mk.injEq] at hw
  exact ⟨hw.1.symm, hr hw.2⟩

/-- C02Redis.simulates: every concurrent run of the Redis clients is a run of the atomic-step
system `Lin.Sys` over the KV contract: the Lin events it produces are accepted, the contract state
equals the server state, and every client's operation is in the corresponding phase. -/
theorem simulates (n : Nat) (es : List Ev) (s : St) (ls : List (Lin.Ev Op Out))
    (h : runL (St.init n) es = some (s, ls)) :
    ∃ L : Lin.Sys Spec Op Out, (Lin.Sys.init Spec.new).run obj ls = some L ∧ L.st = s.srv ∧
      ∀ t p, s.pc[t]? = some p → Corr p (L.th t) := by
  obtain ⟨L, hL, hs⟩ := sim_runL (WInv.init n) (sim_init n) h
  exact ⟨L, hL, hs.1, hs.2⟩

/-- C02Redis.linearizable: the order in which the operations took effect is a legal sequential
history of the KV contract producing exactly the results the clients got and the server's final
state; it respects real time; every completed operation is in it exactly once. -/
theorem linearizable (n : Nat) (es : List Ev) (s : St) (ls : List (Lin.Ev Op Out))
    (h : runL (St.init n) es = some (s, ls)) :
    ∃ L : Lin.Sys Spec Op Out, (Lin.Sys.init Spec.new).run obj ls = some L ∧
      seqRun obj Spec.new (L.order.map (·.2.1)) = (s.srv, L.order.map (·.2.2)) ∧
      (L.order.map (·.1)).Nodup ∧ (∀ a pa, (a, pa) ∈ L.retPos → a ∈ L.order.map (·.1)) ∧
      (∀ a b pa, (a, pa) ∈ L.retPos → b ∈ L.order.map (·.1) → pa < b →
        ∃ ia ib, (L.order.map (·.1)).idxOf? a = some ia ∧ (L.order.map (·.1)).idxOf? b = some ib ∧ ia < ib) := by
  obtain ⟨L, hL, hst, _⟩ := simulates n es s ls h
  have h1 := LinThm.order_is_sequential obj Spec.new ls L hL
  have h2 := LinThm.completed_in_order obj Spec.new ls L hL
  refine ⟨L, hL, by rw [h1, hst], h2.1, h2.2, ?_⟩
  intro a b pa ha hb hlt
  exact LinThm.order_respects_real_time obj Spec.new ls L hL a b pa ha hb hlt

/-- a returned result is the one fixed at the operation's linearization point: `ret t r` is accepted
only when the client's pc is `done r` -/
theorem ret_is_lin_result (s s' : St) (t : Nat) (r : Out) (l : List (Lin.Ev Op Out))
    (h : step s (.ret t r) = some (s', l)) : s.pc[t]? = some (.done r) ∧ l = [.ret t r] := by
  simp only [RedisConc.step] at h
  split at h
  · rename_i r' hp
    split at h
    · rename_i hrr
      subst hrr
      simp only [Option.some.injEq, Prod.mk.injEq] at h
      exact ⟨hp, h.2.symm⟩
    · cases h
  · cases h

/-- every operation has at most one linearization point: a command step emits `lin t` only when it
moves the client to `done` -/
theorem lin_once (s s' : St) (t : Nat) (l : List (Lin.Ev Op Out))
    (h : step s (.cmd t) = some (s', l)) :
    (l = [.lin t] ∧ ∃ r, s'.pc[t]? = some (.done r)) ∨ (l = [] ∧ ∃ p, s'.pc[t]? = some p ∧ opOf p = (s.pc[t]?.bind opOf) ∧ s'.srv = s.srv) := by
  simp only [RedisConc.step] at h
  cases hcs : cmdStep s t with
  | none => simp [hcs] at h
  | some x =>
    obtain ⟨s1, b⟩ := x
    simp only [hcs, Option.map_some, Option.some.injEq, Prod.mk.injEq] at h
    obtain ⟨rfl, rfl⟩ := h
    obtain ⟨p, hp, hcase⟩ := cmdStep_weak hcs
    have hlt : t < s.pc.length := (List.getElem?_eq_some_iff.mp hp).1
    rcases hcase with ⟨rfl, r, hpc⟩ | ⟨rfl, hsrv, p', hpc, ho⟩
    · exact .inl ⟨rfl, r, by rw [hpc]; simp [hlt]⟩
    · exact .inr ⟨rfl, p', by rw [hpc]; simp [hlt], by rw [hp]; exact ho, hsrv⟩

/-- non-vacuity: a run in which a CAS loses the WATCH/EXEC race against a Put, starts over, and
reports ErrConflict; and a run in which Create's GET finds the key gone again and the second SETNX wins. -/
example : ∃ s ls, runL (St.init 2)
    [.call 0 (.put "a" "x" none), .cmd 0, .ret 0 (.okVer 1),
     .call 0 (.cas "a" 1 "y" none), .cmd 0, .cmd 0,
     .call 1 (.put "a" "z" none), .cmd 1, .ret 1 (.okVer 2),
     .cmd 0, .cmd 0, .cmd 0, .ret 0 .errConflict] = some (s, ls) := by
  apply exists_of_isSome
  decide

example : ∃ s ls, runL (St.init 2)
    [.call 0 (.put "a" "x" none), .cmd 0, .ret 0 (.okVer 1),
     .call 1 (.create "a" "y" none), .cmd 1,
     .call 0 (.delete "a"), .cmd 0, .ret 0 .ok,
     .cmd 1, .cmd 1, .ret 1 (.okVer 2)] = some (s, ls) := by
  apply exists_of_isSome
  decide

end C02Redis
