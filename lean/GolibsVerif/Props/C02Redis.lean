import GolibsVerif.Lemmas.RedisConcSim
import GolibsVerif.Lemmas.RedisConcLoop
/-
C02 (Redis backend, all interleavings, with expiries and a clock) — the command-level concurrent
model `RedisConc` of kvs/redis/redis.go is linearizable w.r.t. the KV contract `Kv.Spec` read at the
server's time: for ANY number of clients, ANY programs over Create / Get / GetMany / Put /
PutMany (MSET, or the loop of SETs) / CasByVersion / Delete with ANY expiries, ANY interleaving of
their Redis commands (including any number of lost WATCH/EXEC races and of Create's SETNX/GET
retries) and ANY advance of the clock outside the clients' TTL windows, every operation takes effect
at exactly one of its commands, between its invocation and its response, with exactly the result the
contract gives at that moment and that time.  The loop path of PutMany is not one operation: each of
its SETs is one complete Put of that client, in the order of the records ("per-key effects").
-/
namespace C02Redis
open Kv RedisConc Lin

/- `Corr p ts` (Lemmas/RedisConcSim.lean): Lin thread `idle` ↔ client at `idle`, `putLoop _` or `loopDone`;
`linearized _ _ r` ↔ `done r` (the result is the one fixed at the linearization point);
`pending _ (.op op)` ↔ a pc with `opOf pc = some op`. -/
/-- the WATCH guarantee the CAS relies on: a client about to EXEC whose watch is untouched still sees
the record it read: the key holds a (live) record with exactly the expected version. -/
theorem exec_sees_what_get_saw (n : Nat) (es : List Ev) (s : St) (ls : List (Lin.Ev LOp Out))
    (h : runL (St.init n) es = some (s, ls)) (t : Nat) (k : String) (ver : Nat) (v : String) (e : Option Nat)
    (kw : String)
    (hp : s.pc[t]? = some (.casExec k ver v e)) (hw : s.watch[t]? = some (some (kw, false))) :
    kw = k ∧ ∃ r, s.srv.live s.now k = some r ∧ r.ver = ver := by
  have hi := (WInv.init n).runL h
  obtain ⟨d, hd, hr⟩ := hi.ok t _ hp
  rw [hd] at hw
  simp only [Option.some.injEq, Prod.mk.injEq] at hw
  exact ⟨hw.1.symm, hr hw.2⟩

/-- C02Redis.simulates: every concurrent run of the Redis clients and the clock is a run of the
atomic-step system `Lin.Sys` over the KV contract with its time: the Lin events it produces are
accepted, the contract state and time equal the server state and time, every client's operation is in
the corresponding phase, and the clock thread (id = number of clients) is idle. -/
theorem simulates (n : Nat) (es : List Ev) (s : St) (ls : List (Lin.Ev LOp Out))
    (h : runL (St.init n) es = some (s, ls)) :
    ∃ L : Lin.Sys (Spec × Nat) LOp Out, (Lin.Sys.init (Spec.new, 0)).run obj ls = some L ∧
      L.st = (s.srv, s.now) ∧
      (∀ t p, s.pc[t]? = some p → Corr p (L.th t)) ∧
      L.th s.pc.length = .idle := by
  obtain ⟨L, hL, hs⟩ := sim_runL (WInv.init n) (sim_init n) h
  exact ⟨L, hL, hs.1, hs.2.1, hs.2.2⟩

/-- C02Redis.linearizable: the order in which the operations (and the ticks of the clock) took effect
is a legal sequential history of the KV contract producing exactly the results the clients got and
the server's final state and time; it respects real time; every completed operation is in it exactly
once. -/
theorem linearizable (n : Nat) (es : List Ev) (s : St) (ls : List (Lin.Ev LOp Out))
    (h : runL (St.init n) es = some (s, ls)) :
    ∃ L : Lin.Sys (Spec × Nat) LOp Out, (Lin.Sys.init (Spec.new, 0)).run obj ls = some L ∧
      seqRun obj (Spec.new, 0) (L.order.map (·.2.1)) = ((s.srv, s.now), L.order.map (·.2.2)) ∧
      (L.order.map (·.1)).Nodup ∧ (∀ a pa, (a, pa) ∈ L.retPos → a ∈ L.order.map (·.1)) ∧
      (∀ a b pa, (a, pa) ∈ L.retPos → b ∈ L.order.map (·.1) → pa < b →
        ∃ ia ib, (L.order.map (·.1)).idxOf? a = some ia ∧ (L.order.map (·.1)).idxOf? b = some ib ∧ ia < ib) := by
  obtain ⟨L, hL, hst, _⟩ := simulates n es s ls h
  have h1 := LinThm.order_is_sequential obj (Spec.new, 0) ls L hL
  have h2 := LinThm.completed_in_order obj (Spec.new, 0) ls L hL
  refine ⟨L, hL, by rw [h1, hst], h2.1, h2.2, ?_⟩
  intro a b pa ha hb hlt
  exact LinThm.order_respects_real_time obj (Spec.new, 0) ls L hL a b pa ha hb hlt

/-- a returned result is the one fixed at the operation's linearization point: `ret t r` is accepted
only when the client's pc is `done r` — or, for the loop path of PutMany (every SET already reported
as a complete Put), when the loop is over and `r = ok`; that return is no `Lin` event. -/
theorem ret_is_lin_result (s s' : St) (t : Nat) (r : Out) (l : List (Lin.Ev LOp Out))
    (h : step s (.ret t r) = some (s', l)) :
    (s.pc[t]? = some (.done r) ∧ l = [.ret t r]) ∨ (s.pc[t]? = some .loopDone ∧ r = .ok ∧ l = []) := by
  simp only [RedisConc.step] at h
  split at h
  · rename_i r' hp
    split at h
    · rename_i hrr
      subst hrr
      simp only [Option.some.injEq, Prod.mk.injEq] at h
      exact .inl ⟨hp, h.2.symm⟩
    · cases h
  · rename_i hp
    split at h
    · rename_i hrr
      simp only [Option.some.injEq, Prod.mk.injEq] at h
      exact .inr ⟨hp, hrr, h.2.symm⟩
    · cases h
  · cases h

/-- every operation has at most one linearization point.  A command step has one of three shapes:
it emits `lin t` and moves the client (which was inside an operation) to `done`; or it emits nothing,
leaves the server unchanged and stays inside the same operation; or it is one SET of the PutMany
loop: a complete Put of the head record, the server takes that write, the loop advances. -/
theorem lin_once (s s' : St) (t : Nat) (l : List (Lin.Ev LOp Out))
    (h : step s (.cmd t) = some (s', l)) :
    (l = [.lin t] ∧ (∃ op, s.pc[t]?.bind opOf = some op) ∧ ∃ r, s'.pc[t]? = some (.done r)) ∨
    (l = [] ∧ ∃ p op, s'.pc[t]? = some p ∧ opOf p = some op ∧ s.pc[t]?.bind opOf = some op ∧ s'.srv = s.srv) ∨
    (∃ k v e rest, s.pc[t]? = some (.putLoop ((k, v, e) :: rest)) ∧
      l = [.inv t (.op (.put k v e)), .lin t, .ret t (.okVer s.srv.nextVer)] ∧
      s'.pc[t]? = some (if rest = [] then .loopDone else .putLoop rest) ∧
      s'.srv = (s.srv.write k v e).1) := by
  simp only [RedisConc.step] at h
  obtain ⟨p, hp, hcase⟩ := cmdStep_weak h
  have hlt : t < s.pc.length := (List.getElem?_eq_some_iff.mp hp).1
  rcases hcase with ⟨rfl, ⟨op, ho⟩, r, hpc⟩ | ⟨rfl, hsrv, op, p', hpc, ho', ho⟩ | ⟨k, v, e, rest, rfl, rfl, hsrv, hpc⟩
  · exact .inl ⟨rfl, ⟨op, by rw [hp]; exact ho⟩, r, by rw [hpc]; simp [hlt]⟩
  · exact .inr (.inl ⟨rfl, p', op, by rw [hpc]; simp [hlt], ho', by rw [hp]; exact ho, hsrv⟩)
  · exact .inr (.inr ⟨k, v, e, rest, hp, rfl, by rw [hpc, ← loopNext_eq]; simp [hlt], hsrv⟩)

/-- PutMany of a non-empty list in which some record has an expiry takes the loop path: the call
emits no `Lin` event and parks the client at `putLoop rs` -/
theorem putmany_loop_entry (s : St) (t : Nat) (rs : List (String × String × Option Nat))
    (hne : rs ≠ []) (hexp : rs.all (fun r => r.2.2.isNone) = false) (hidle : s.pc[t]? = some .idle) :
    step s (.call t (.putMany rs)) = some (s.setPc t (.putLoop rs), []) := by
  have h1 : rs.isEmpty = false := by cases rs <;> simp at hne ⊢
  simp only [RedisConc.step, hidle, entry, h1, hexp]
  rfl

/-- one command of the PutMany loop is one SET, reported as ONE complete Put of the head record with
the version that write got; the server takes exactly that write (touching the watchers of the key);
the loop goes on with the remaining records, or is over -/
theorem putmany_loop_is_puts (s s' : St) (t : Nat) (k v : String) (e : Option Nat)
    (rest : List (String × String × Option Nat)) (l : List (Lin.Ev LOp Out))
    (hp : s.pc[t]? = some (.putLoop ((k, v, e) :: rest))) (h : step s (.cmd t) = some (s', l)) :
    l = [.inv t (.op (.put k v e)), .lin t, .ret t (.okVer s.srv.nextVer)] ∧
    s'.pc[t]? = some (if rest = [] then .loopDone else .putLoop rest) ∧
    s'.srv = (s.srv.write k v e).1 ∧ s'.watch = touch s.watch [k] ∧ s'.now = s.now := by
  have hlt : t < s.pc.length := (List.getElem?_eq_some_iff.mp hp).1
  simp only [RedisConc.step, cmdStep_putLoop hp, Option.some.injEq, Prod.mk.injEq] at h
  obtain ⟨rfl, rfl⟩ := h
  refine ⟨rfl, ?_, rfl, rfl, rfl⟩
  rw [← loopNext_eq]
  simp [St.setPc, hlt]

/-- the whole loop, under any interleaving: client t is called with `putMany rs` on the loop path and
then, while other clients do whatever they do, issues `rs.length` commands (and neither returns nor
is called again): the `Lin` events of thread t, in order, are exactly one completed `put k v e` per
record of `rs`, in the order of `rs` (`putEvs`; `vers` are the versions the writes got), and the client
is at `loopDone`, about to return `ok`. -/
theorem putmany_loop_run (s s' : St) (t : Nat) (rs : List (String × String × Option Nat))
    (es : List Ev) (ls : List (Lin.Ev LOp Out))
    (hne : rs ≠ []) (hexp : rs.all (fun r => r.2.2.isNone) = false) (hidle : s.pc[t]? = some .idle)
    (honly : ∀ e ∈ es, clientOf e = some t → e = .cmd t) (hcnt : es.count (.cmd t) = rs.length)
    (h : runL s (.call t (.putMany rs) :: es) = some (s', ls)) :
    ∃ vers : List Nat, vers.length = rs.length ∧
      ls.filter (fun x => threadOf x == t) = putEvs t (rs.zip vers) ∧
      s'.pc[t]? = some .loopDone := by
  obtain ⟨s1, l, ls', hst, hr, rfl⟩ := runL_cons h
  rw [putmany_loop_entry s t rs hne hexp hidle] at hst
  simp only [Option.some.injEq, Prod.mk.injEq] at hst
  obtain ⟨rfl, rfl⟩ := hst
  have hlt : t < s.pc.length := (List.getElem?_eq_some_iff.mp hidle).1
  have hp : (s.setPc t (.putLoop rs)).pc[t]? = some (loopNext rs) := by
    cases rs with
    | nil => exact absurd rfl hne
    | cons a rs => simp [St.setPc, hlt, loopNext]
  simpa using loop_run t es _ _ _ rs hp honly hcnt hr

/-- the clock advances only outside every client's TTL window, and moves nothing but the time -/
theorem tick_only_outside_ttl_windows (s s' : St) (d : Nat) (l : List (Lin.Ev LOp Out))
    (h : step s (.tick d) = some (s', l)) :
    (∀ (t : Nat) (p : Pc), s.pc[t]? = some p → tickBlocked p = false) ∧
    s'.now = s.now + d ∧ s'.srv = s.srv ∧ s'.pc = s.pc ∧ s'.watch = s.watch ∧
    l = [.inv s.pc.length (.tick d), .lin s.pc.length, .ret s.pc.length .ok] := by
  obtain ⟨hb, rfl, rfl⟩ := tick_shape h
  exact ⟨hb, rfl, rfl, rfl, rfl, rfl⟩

/-- expiry in the concurrent model: a record whose expiry lies before the server's time is invisible
to every client, whatever command it issues next: GET / DEL / the GET of a CAS answer "absent", SETNX
succeeds (and overwrites it). -/
theorem expired_record_invisible_to_all_clients (s : St) (k : String) (r : Rec) (e : Nat)
    (hr : s.srv.store.get k = some r) (he : r.exp = some e) (hlt : e < s.now) (t : Nat) :
    s.srv.live s.now k = none ∧
    (s.pc[t]? = some (.get k) → step s (.cmd t) = some (s.setPc t (.done .errNotExist), [.lin t])) ∧
    (∀ v e', s.pc[t]? = some (.create1 k v e') →
      step s (.cmd t) = some ({ s with srv := (s.srv.write k v e').1, watch := touch s.watch [k] }.setPc t
        (.done (.okVer s.srv.nextVer)), [.lin t])) ∧
    (s.pc[t]? = some (.del k) → step s (.cmd t) = some (s.setPc t (.done .errNotExist), [.lin t])) ∧
    (∀ ver v e', s.pc[t]? = some (.casGet k ver v e') →
      step s (.cmd t) = some ({ s with watch := s.watch.set t none }.setPc t (.done .errNotExist), [.lin t])) := by
  have hl : s.srv.live s.now k = none := by simp [Spec.live, hr, expired, he, hlt]
  refine ⟨hl, ?_, ?_, ?_, ?_⟩
  · intro hp; simp [RedisConc.step, cmdStep, hp, Spec.step, hl]
  · intro v e' hp; simp [RedisConc.step, cmdStep, hp, hl, Spec.write]
  · intro hp; simp [RedisConc.step, cmdStep, hp, hl]
  · intro ver v e' hp; simp [RedisConc.step, cmdStep, hp, hl]

/-- non-vacuity: a run in which a CAS loses the WATCH/EXEC race against a Put, starts over, and
reports ErrConflict; and a run in which Create's GET finds the key gone again and the second SETNX wins. -/
example : ∃ s ls, runL (St.init 2)
    [.call 0 (.put "a" "x" none), .cmd 0, .ret 0 (.okVer 1),
     .call 0 (.cas "a" 1 "y" none), .cmd 0, .cmd 0,
     .call 1 (.put "a" "z" none), .cmd 1, .ret 1 (.okVer 2),
     .cmd 0, .cmd 0, .cmd 0, .ret 0 .errConflict] = some (s, ls) := by
  apply exists_of_isSome
  decide

example : ∃ s ls, runL (St.init 2)
    [.call 0 (.put "a" "x" none), .cmd 0, .ret 0 (.okVer 1),
     .call 1 (.create "a" "y" none), .cmd 1,
     .call 0 (.delete "a"), .cmd 0, .ret 0 .ok,
     .cmd 1, .cmd 1, .ret 1 (.okVer 2)] = some (s, ls) := by
  apply exists_of_isSome
  decide

/-- non-vacuity (a): a record expires between two Gets of another client -/
example : ∃ s ls, runL (St.init 2)
    [.call 0 (.put "a" "x" (some 5)), .cmd 0, .ret 0 (.okVer 1),
     .call 1 (.get "a"), .cmd 1, .ret 1 (.record "x" 1 (some 5)),
     .tick 10,
     .call 1 (.get "a"), .cmd 1, .ret 1 .errNotExist] = some (s, ls) := by
  apply exists_of_isSome
  decide

/-- non-vacuity (b): a loop-path PutMany of two records, another client's Put on the first key lands
between the two SETs (and survives: the PutMany is not atomic) -/
example : ∃ s ls, runL (St.init 2)
    [.call 0 (.putMany [("a", "x", some 5), ("b", "y", none)]), .cmd 0,
     .call 1 (.put "a" "z" none), .cmd 1, .ret 1 (.okVer 2),
     .cmd 0, .ret 0 .ok,
     .call 1 (.getMany ["a", "b"]), .cmd 1, .ret 1 (.recs [some ("z", 2, none), some ("y", 3, none)])]
    = some (s, ls) := by
  apply exists_of_isSome
  decide

/-- non-vacuity (c): a tick is REFUSED while a client is parked at a `put` with an expiry (its TTL is
computed, its SET not yet sent), and accepted once the SET has been executed -/
example : runL (St.init 2) [.call 0 (.put "a" "x" (some 5)), .tick 1] = none := by
  rw [← Option.isNone_iff_eq_none]
  decide

example : ∃ s ls, runL (St.init 2) [.call 0 (.put "a" "x" (some 5)), .cmd 0, .tick 1] = some (s, ls) := by
  apply exists_of_isSome
  decide

end C02Redis
