import GolibsVerif.Lemmas.RedisConcSim
import GolibsVerif.Lemmas.RedisConcLoop
import GolibsVerif.Lemmas.RedisConcFacts
import GolibsVerif.Lemmas.RedisConcHist
import GolibsVerif.Props.C03
/-
C02 (Redis backend, all interleavings, with expiries and a clock) — the command-level concurrent
model `RedisConc` of kvs/redis/redis.go is linearizable w.r.t. the SEQUENTIAL model of that client over
a Redis server (`Kv.Redis.step`: the server drops the keys whose TTL has elapsed, then the client
acts; `Kv.RedisSrv`, `deadlineOf` — the 1 ms clamp —, `rKey` — leading slashes stripped) run at the
server's time: for ANY number of clients, ANY programs over Create / Get / GetMany / Put / PutMany
(MSET, or the loop of SETs) / CasByVersion / Delete with ANY expiries (past, present, future) and ANY
keys (aliasing ones included), ANY interleaving of their Redis commands (including any number of lost
WATCH/EXEC races and of Create's SETNX/GET retries) and ANY advance of the clock outside the clients'
TTL windows, every operation takes effect at exactly one of its commands, between its invocation and
its response, with exactly the result the sequential client model gives at that moment and that time.
The loop path of PutMany is not one operation: each of its SETs is one complete Put of that client,
in the order of the records ("per-key effects").

No hypothesis on expiries or keys anywhere.  The tie to the KV contract `Kv.Spec` is the corollary
`linearizable_to_contract`: where the linearized timed history satisfies `Kv.RedisOK` (the hypothesis
of `C03.redis_refines_spec`), the clients got the contract's results.

State correspondence: `L.st = (s.srv, s.now)` where `s.srv : Kv.Redis` is the server exactly as the last
command that took effect left it (purged at THAT command's time, not since; every command and
`Kv.Redis.step` purge at the current time before they look).  `s.psrv` is `s.srv` purged at `s.now`.
-/
namespace C02Redis
open Kv RedisConc Lin

/- `Corr p ts` (Lemmas/RedisConcSim.lean): Lin thread `idle` ↔ client at `idle`, `putLoop _` or `loopDone`;
`linearized _ _ r` ↔ `done r` (the result is the one fixed at the linearization point);
`pending _ (.op op)` ↔ a pc with `opOf pc = some op`. -/
/-- the WATCH guarantee the CAS relies on: a client about to EXEC whose watch is untouched still sees
the record it read: it watches the REDIS key of its key, and that key (on the server purged at the
current time) holds a record with exactly the expected version. -/
theorem exec_sees_what_get_saw (n : Nat) (es : List Ev) (s : St) (ls : List (Lin.Ev LOp Out))
    (h : runL (St.init n) es = some (s, ls)) (t : Nat) (k : String) (ver : Nat) (v : String) (e : Option Nat)
    (kw : String)
    (hp : s.pc[t]? = some (.casExec k ver v e)) (hw : s.watch[t]? = some (some (kw, false))) :
    kw = rKey k ∧ ∃ rv, s.psrv.srv.get (rKey k) = some rv ∧ rv.r.ver = ver := by
  have hi := (WInv.init n).runL h
  obtain ⟨d, hd, hr⟩ := hi.ok t _ hp
  rw [hd] at hw
  simp only [Option.some.injEq, Prod.mk.injEq] at hw
  exact ⟨hw.1.symm, hr hw.2⟩

/-- C02Redis.simulates: every concurrent run of the Redis clients and the clock is a run of the
atomic-step system `Lin.Sys` over the sequential Redis client model with its time: the Lin events it
produces are accepted, the sequential model's state and time equal the server state and time, every
client's operation is in the corresponding phase, and the clock thread (id = number of clients) is idle. -/
theorem simulates (n : Nat) (es : List Ev) (s : St) (ls : List (Lin.Ev LOp Out))
    (h : runL (St.init n) es = some (s, ls)) :
    ∃ L : Lin.Sys (Redis × Nat) LOp Out, (Lin.Sys.init (Redis.new, 0)).run obj ls = some L ∧
      L.st = (s.srv, s.now) ∧
      (∀ t p, s.pc[t]? = some p → Corr p (L.th t)) ∧
      L.th s.pc.length = .idle := by
  obtain ⟨L, hL, hs⟩ := sim_runL (WInv.init n) (sim_init n) h
  exact ⟨L, hL, hs.1, hs.2.1, hs.2.2⟩

/-- C02Redis.linearizable: the order in which the operations (and the ticks of the clock) took effect
is a legal sequential history of the sequential Redis client model producing exactly the results the
clients got and the server's final state and time; it respects real time; every completed operation
is in it exactly once. -/
theorem linearizable (n : Nat) (es : List Ev) (s : St) (ls : List (Lin.Ev LOp Out))
    (h : runL (St.init n) es = some (s, ls)) :
    ∃ L : Lin.Sys (Redis × Nat) LOp Out, (Lin.Sys.init (Redis.new, 0)).run obj ls = some L ∧
      seqRun obj (Redis.new, 0) (L.order.map (·.2.1)) = ((s.srv, s.now), L.order.map (·.2.2)) ∧
      (L.order.map (·.1)).Nodup ∧ (∀ a pa, (a, pa) ∈ L.retPos → a ∈ L.order.map (·.1)) ∧
      (∀ a b pa, (a, pa) ∈ L.retPos → b ∈ L.order.map (·.1) → pa < b →
        ∃ ia ib, (L.order.map (·.1)).idxOf? a = some ia ∧ (L.order.map (·.1)).idxOf? b = some ib ∧ ia < ib) := by
  obtain ⟨L, hL, hst, _⟩ := simulates n es s ls h
  have h1 := LinThm.order_is_sequential obj (Redis.new, 0) ls L hL
  have h2 := LinThm.completed_in_order obj (Redis.new, 0) ls L hL
  refine ⟨L, hL, by rw [h1, hst], h2.1, h2.2, ?_⟩
  intro a b pa ha hb hlt
  exact LinThm.order_respects_real_time obj (Redis.new, 0) ls L hL a b pa ha hb hlt

/-- C02Redis.linearizable_to_contract: the tie to the KV contract.  Read the linearization order of a
run as a timed history (`histOf`: the time of an operation is the sum of the clock's ticks that took
effect before it).  That history is ALWAYS monotone (the clock only advances), the clients' results are
ALWAYS those of the sequential Redis client model on it (`runRedis`), and WHERE it satisfies
`Kv.RedisOK` (no leading '/', every written expiry in the future, no operation at an expiry instant —
the hypothesis of `C03.redis_refines_spec`) they are exactly the results of the contract `Kv.Spec` on it. -/
theorem linearizable_to_contract (n : Nat) (es : List Ev) (s : St) (ls : List (Lin.Ev LOp Out))
    (h : runL (St.init n) es = some (s, ls)) :
    ∃ L : Lin.Sys (Redis × Nat) LOp Out, (Lin.Sys.init (Redis.new, 0)).run obj ls = some L ∧
      Monotone 0 (histOf (L.order.map (·.2.1)) 0) ∧
      runRedis Redis.new (histOf (L.order.map (·.2.1)) 0) = (s.srv, opResults (L.order.map (·.2))) ∧
      (RedisOK (histOf (L.order.map (·.2.1)) 0) →
        opResults (L.order.map (·.2)) = (runSpec Spec.new (histOf (L.order.map (·.2.1)) 0)).2) := by
  obtain ⟨L, hL, hseq, _⟩ := linearizable n es s ls h
  have hm := histOf_monotone (L.order.map (·.2.1)) 0 0 (Nat.le_refl 0)
  have hrun : runRedis Redis.new (histOf (L.order.map (·.2.1)) 0) = (s.srv, opResults (L.order.map (·.2))) := by
    rw [seqRun_histOf, hseq, List.zip_map']
  refine ⟨L, hL, hm, hrun, fun hok => ?_⟩
  rw [← C03.redis_refines_spec _ hm hok, hrun]

/-- a returned result is the one fixed at the operation's linearization point: `ret t r` is accepted
only when the client's pc is `done r` — or, for the loop path of PutMany (every SET already reported
as a complete Put), when the loop is over and `r = ok`; that return is no `Lin` event. -/
theorem ret_is_lin_result (s s' : St) (t : Nat) (r : Out) (l : List (Lin.Ev LOp Out))
    (h : step s (.ret t r) = some (s', l)) :
    (s.pc[t]? = some (.done r) ∧ l = [.ret t r]) ∨ (s.pc[t]? = some .loopDone ∧ r = .ok ∧ l = []) := by
  simp only [RedisConc.step] at h
  split at h
  · rename_i r' hp
    split at h
    · rename_i hrr
      subst hrr
      simp only [Option.some.injEq, Prod.mk.injEq] at h
      exact .inl ⟨hp, h.2.symm⟩
    · cases h
  · rename_i hp
    split at h
    · rename_i hrr
      simp only [Option.some.injEq, Prod.mk.injEq] at h
      exact .inr ⟨hp, hrr, h.2.symm⟩
    · cases h
  · cases h

/-- every operation has at most one linearization point.  A command step has one of three shapes:
it emits `lin t` and moves the client (which was inside an operation) to `done`; or it emits nothing,
leaves the server unchanged and stays inside the same operation; or it is one SET of the PutMany
loop: a complete Put of the head record, the (purged) server takes that write, the loop advances. -/
theorem lin_once (s s' : St) (t : Nat) (l : List (Lin.Ev LOp Out))
    (h : step s (.cmd t) = some (s', l)) :
    (l = [.lin t] ∧ (∃ op, s.pc[t]?.bind opOf = some op) ∧ ∃ r, s'.pc[t]? = some (.done r)) ∨
    (l = [] ∧ ∃ p op, s'.pc[t]? = some p ∧ opOf p = some op ∧ s.pc[t]?.bind opOf = some op ∧ s'.srv = s.srv) ∨
    (∃ k v e rest, s.pc[t]? = some (.putLoop ((k, v, e) :: rest)) ∧
      l = [.inv t (.op (.put k v e)), .lin t, .ret t (.okVer s.srv.nextVer)] ∧
      s'.pc[t]? = some (if rest = [] then .loopDone else .putLoop rest) ∧
      s'.srv = (s.psrv.setRec s.now k v e).1) := by
  simp only [RedisConc.step] at h
  obtain ⟨p, hp, hcase⟩ := cmdStep_weak h
  have hlt : t < s.pc.length := (List.getElem?_eq_some_iff.mp hp).1
  rcases hcase with ⟨rfl, ⟨op, ho⟩, r, hpc⟩ | ⟨rfl, hsrv, op, p', hpc, ho', ho⟩ | ⟨k, v, e, rest, rfl, rfl, hsrv, hpc⟩
  · exact .inl ⟨rfl, ⟨op, by rw [hp]; exact ho⟩, r, by rw [hpc]; simp [hlt]⟩
  · exact .inr (.inl ⟨rfl, p', op, by rw [hpc]; simp [hlt], ho', by rw [hp]; exact ho, hsrv⟩)
  · exact .inr (.inr ⟨k, v, e, rest, hp, rfl, by rw [hpc, ← loopNext_eq]; simp [hlt], hsrv⟩)

/-- PutMany of a non-empty list in which some record has an expiry takes the loop path: the call
emits no `Lin` event and parks the client at `putLoop rs` -/
theorem putmany_loop_entry (s : St) (t : Nat) (rs : List (String × String × Option Nat))
    (hne : rs ≠ []) (hexp : rs.all (fun r => r.2.2.isNone) = false) (hidle : s.pc[t]? = some .idle) :
    step s (.call t (.putMany rs)) = some (s.setPc t (.putLoop rs), []) := by
  have h1 : rs.isEmpty = false := by cases rs <;> simp at hne ⊢
  simp only [RedisConc.step, hidle, entry, h1, hexp]
  rfl

/-- one command of the PutMany loop is one SET, reported as ONE complete Put of the head record with
the version that write got; the server (purged at the current time) takes exactly that write
(`Redis.setRec`: payload with the requested expiry, key deadline `deadlineOf e now`), touching the
watchers of the Redis key;
the loop goes on with the remaining records, or is over -/
theorem putmany_loop_is_puts (s s' : St) (t : Nat) (k v : String) (e : Option Nat)
    (rest : List (String × String × Option Nat)) (l : List (Lin.Ev LOp Out))
    (hp : s.pc[t]? = some (.putLoop ((k, v, e) :: rest))) (h : step s (.cmd t) = some (s', l)) :
    l = [.inv t (.op (.put k v e)), .lin t, .ret t (.okVer s.srv.nextVer)] ∧
    s'.pc[t]? = some (if rest = [] then .loopDone else .putLoop rest) ∧
    s'.srv = (s.psrv.setRec s.now k v e).1 ∧ s'.watch = touch s.watch [rKey k] ∧ s'.now = s.now := by
  have hlt : t < s.pc.length := (List.getElem?_eq_some_iff.mp hp).1
  simp only [RedisConc.step, cmdStep_putLoop hp, Option.some.injEq, Prod.mk.injEq] at h
  obtain ⟨rfl, rfl⟩ := h
  refine ⟨rfl, ?_, rfl, rfl, rfl⟩
  rw [← loopNext_eq]
  simp [St.setPc, hlt]

/-- the whole loop, under any interleaving: client t is called with `putMany rs` on the loop path and
then, while other clients do whatever they do, issues `rs.length` commands (and neither returns nor
is called again): the `Lin` events of thread t, in order, are exactly one completed `put k v e` per
record of `rs`, in the order of `rs` (`putEvs`; `vers` are the versions the writes got), and the client
is at `loopDone`, about to return `ok`. -/
theorem putmany_loop_run (s s' : St) (t : Nat) (rs : List (String × String × Option Nat))
    (es : List Ev) (ls : List (Lin.Ev LOp Out))
    (hne : rs ≠ []) (hexp : rs.all (fun r => r.2.2.isNone) = false) (hidle : s.pc[t]? = some .idle)
    (honly : ∀ e ∈ es, clientOf e = some t → e = .cmd t) (hcnt : es.count (.cmd t) = rs.length)
    (h : runL s (.call t (.putMany rs) :: es) = some (s', ls)) :
    ∃ vers : List Nat, vers.length = rs.length ∧
      ls.filter (fun x => threadOf x == t) = putEvs t (rs.zip vers) ∧
      s'.pc[t]? = some .loopDone := by
  obtain ⟨s1, l, ls', hst, hr, rfl⟩ := runL_cons h
  rw [putmany_loop_entry s t rs hne hexp hidle] at hst
  simp only [Option.some.injEq, Prod.mk.injEq] at hst
  obtain ⟨rfl, rfl⟩ := hst
  have hlt : t < s.pc.length := (List.getElem?_eq_some_iff.mp hidle).1
  have hp : (s.setPc t (.putLoop rs)).pc[t]? = some (loopNext rs) := by
    cases rs with
    | nil => exact absurd rfl hne
    | cons a rs => simp [St.setPc, hlt, loopNext]
  simpa using loop_run t es _ _ _ rs hp honly hcnt hr

/-- the clock advances only outside every client's TTL window, and moves nothing but the time -/
theorem tick_only_outside_ttl_windows (s s' : St) (d : Nat) (l : List (Lin.Ev LOp Out))
    (h : step s (.tick d) = some (s', l)) :
    (∀ (t : Nat) (p : Pc), s.pc[t]? = some p → tickBlocked p = false) ∧
    s'.now = s.now + d ∧ s'.srv = s.srv ∧ s'.pc = s.pc ∧ s'.watch = s.watch ∧
    l = [.inv s.pc.length (.tick d), .lin s.pc.length, .ret s.pc.length .ok] := by
  obtain ⟨hb, rfl, rfl⟩ := tick_shape h
  exact ⟨hb, rfl, rfl, rfl, rfl, rfl⟩

/-- a key that is absent from the server purged at the current time is absent for every client,
whatever command it issues next: GET / DEL / the GET of a CAS answer "absent", SETNX succeeds.
(Any state; the key is given as a client key `k`, the premise speaks of its Redis key: every alias
`k'` with `rKey k' = rKey k` is covered by instantiating the theorem with `k'`.) -/
theorem absent_key_invisible_to_all_clients (s : St) (k : String) (hl : s.psrv.srv.get (rKey k) = none) (t : Nat) :
    (s.pc[t]? = some (.get k) →
      step s (.cmd t) = some ({ s with srv := s.psrv }.setPc t (.done .errNotExist), [.lin t])) ∧
    (∀ v e', s.pc[t]? = some (.create1 k v e') →
      step s (.cmd t) = some ({ s with srv := (s.psrv.setRec s.now k v e').1, watch := touch s.watch [rKey k] }.setPc t
        (.done (.okVer s.srv.nextVer)), [.lin t])) ∧
    (s.pc[t]? = some (.del k) →
      step s (.cmd t) = some ({ s with srv := s.psrv }.setPc t (.done .errNotExist), [.lin t])) ∧
    (∀ ver v e', s.pc[t]? = some (.casGet k ver v e') →
      step s (.cmd t) = some ({ s with srv := s.psrv, watch := s.watch.set t none }.setPc t (.done .errNotExist), [.lin t])) :=
  absent_cmds s k hl t

/-- expiry in the concurrent model: in every reachable state, a key whose deadline has been reached
(`d ≤ now`: Redis drops a key AT its deadline) is invisible to every client, whatever command it
issues next: GET / DEL / the GET of a CAS answer "absent", SETNX succeeds (and overwrites it).
(Reachability is used for one fact only: the server never holds a key twice.) -/
theorem expired_record_invisible_to_all_clients (n : Nat) (es : List Ev) (s : St) (ls : List (Lin.Ev LOp Out))
    (h : runL (St.init n) es = some (s, ls)) (k : String) (rv : RVal) (d : Nat)
    (hr : s.srv.srv.get (rKey k) = some rv) (hd : rv.deadline = some d) (hle : d ≤ s.now) (t : Nat) :
    s.psrv.srv.get (rKey k) = none ∧
    (s.pc[t]? = some (.get k) →
      step s (.cmd t) = some ({ s with srv := s.psrv }.setPc t (.done .errNotExist), [.lin t])) ∧
    (∀ v e', s.pc[t]? = some (.create1 k v e') →
      step s (.cmd t) = some ({ s with srv := (s.psrv.setRec s.now k v e').1, watch := touch s.watch [rKey k] }.setPc t
        (.done (.okVer s.srv.nextVer)), [.lin t])) ∧
    (s.pc[t]? = some (.del k) →
      step s (.cmd t) = some ({ s with srv := s.psrv }.setPc t (.done .errNotExist), [.lin t])) ∧
    (∀ ver v e', s.pc[t]? = some (.casGet k ver v e') →
      step s (.cmd t) = some ({ s with srv := s.psrv, watch := s.watch.set t none }.setPc t (.done .errNotExist), [.lin t])) := by
  have hn : KeysNodup s.srv := KeysNodup.runL (WInv.init n) (KeysNodup.init n) h
  have hdead : rv.alive s.now = false := by simp [RVal.alive, hd]; omega
  have hl : s.psrv.srv.get (rKey k) = none := by
    have hr' : RedisSrv.get ⟨s.srv.srv.keys⟩ (rKey k) = some rv := hr
    exact dead_invisible hn hr' hdead
  exact ⟨hl, absent_cmds s k hl t⟩

/-! ### what the re-basing on the Redis server model buys -/

/-- a Put whose requested expiry is NOT in the future (`e ≤ now`): the Go code clamps the TTL to 1 ms,
so the record — payload expiry `e`, in the past — is on the server until `now + 1`: a GET of ANY client
(through any alias of the key) at the same millisecond returns it, and after the clock has advanced
(by 1 ms or more) it is gone.  (`Kv.Spec` drops such a record at once.) -/
theorem past_expiry_visible_until_next_ms (s s1 : St) (t : Nat) (k v : String) (e : Nat)
    (l : List (Lin.Ev LOp Out))
    (hp : s.pc[t]? = some (.put k v (some e))) (he : e ≤ s.now) (h : step s (.cmd t) = some (s1, l)) :
    s1.now = s.now ∧
    s1.psrv.srv.get (rKey k) = some { r := { val := v, ver := s.srv.nextVer, exp := some e }, deadline := some (s.now + 1) } ∧
    (∀ t' k', rKey k' = rKey k → s1.pc[t']? = some (.get k') →
      step s1 (.cmd t') = some ({ s1 with srv := s1.psrv }.setPc t' (.done (.record v s.srv.nextVer (some e))), [.lin t'])) ∧
    (∀ d s2 l2, 1 ≤ d → step s1 (.tick d) = some (s2, l2) →
      s2.psrv.srv.get (rKey k) = none ∧
      ∀ t' k', rKey k' = rKey k → s2.pc[t']? = some (.get k') →
        step s2 (.cmd t') = some ({ s2 with srv := s2.psrv }.setPc t' (.done .errNotExist), [.lin t'])) := by
  obtain ⟨hnow, hsrv, _, _, _⟩ := put_cmd hp h
  have hver : s.psrv.nextVer = s.srv.nextVer := rfl
  have hdl : deadlineOf (some e) s.now = some (s.now + 1) := by
    simp only [deadlineOf, Option.map_some]
    rw [if_pos (by omega)]
  have hvis : s1.psrv.srv.get (rKey k)
      = some { r := { val := v, ver := s.srv.nextVer, exp := some e }, deadline := some (s.now + 1) } := by
    rw [look_after_set s1 _ _ _ _ _ hsrv, hnow, alive_deadlineOf, if_pos rfl, hdl, hver]
  refine ⟨hnow, hvis, ?_, ?_⟩
  · intro t' k' hk hp'
    exact present_get s1 k' _ (by rw [hk]; exact hvis) t' hp'
  · intro d s2 l2 hd ht
    obtain ⟨hnow2, hsrv2, _, _⟩ := tick_cmd ht
    have hgone : s2.psrv.srv.get (rKey k) = none := by
      rw [look_after_set s2 _ _ _ _ _ (hsrv2.trans hsrv), alive_deadlineOf_later, if_neg]
      simp only [decide_eq_true_eq]
      omega
    refine ⟨hgone, ?_⟩
    intro t' k' hk hp'
    exact (absent_cmds s2 k' (by rw [hk]; exact hgone) t').1 hp'

/-- the boundary instant: a record written with an expiry `e` in the future gets the key deadline `e`;
it is there for every client as long as the server's time is before `e`, and it is gone for every
client when the server's time is EXACTLY `e` (Redis: gone iff `deadline ≤ now`) — whereas the contract
`Kv.Spec` still shows it at that instant (`Kv.expired`: expired iff `e < now`). -/
theorem boundary_instant (s s1 : St) (t : Nat) (k v : String) (e : Nat) (l : List (Lin.Ev LOp Out))
    (hp : s.pc[t]? = some (.put k v (some e))) (he : s.now < e) (h : step s (.cmd t) = some (s1, l)) :
    s1.srv.srv.get (rKey k) = some { r := { val := v, ver := s.srv.nextVer, exp := some e }, deadline := some e } ∧
    (∀ d s2 l2, step s1 (.tick d) = some (s2, l2) → s2.now < e →
      s2.psrv.srv.get (rKey k) = some { r := { val := v, ver := s.srv.nextVer, exp := some e }, deadline := some e }) ∧
    (∀ d s2 l2, step s1 (.tick d) = some (s2, l2) → s2.now = e →
      expired { val := v, ver := s.srv.nextVer, exp := some e } s2.now = false ∧
      s2.psrv.srv.get (rKey k) = none ∧
      ∀ t' k', rKey k' = rKey k →
        (s2.pc[t']? = some (.get k') →
          step s2 (.cmd t') = some ({ s2 with srv := s2.psrv }.setPc t' (.done .errNotExist), [.lin t'])) ∧
        (∀ v' e', s2.pc[t']? = some (.create1 k' v' e') →
          step s2 (.cmd t') = some ({ s2 with srv := (s2.psrv.setRec s2.now k' v' e').1, watch := touch s2.watch [rKey k'] }.setPc t'
            (.done (.okVer s2.srv.nextVer)), [.lin t'])) ∧
        (s2.pc[t']? = some (.del k') →
          step s2 (.cmd t') = some ({ s2 with srv := s2.psrv }.setPc t' (.done .errNotExist), [.lin t'])) ∧
        (∀ ver v' e', s2.pc[t']? = some (.casGet k' ver v' e') →
          step s2 (.cmd t') = some ({ s2 with srv := s2.psrv, watch := s2.watch.set t' none }.setPc t' (.done .errNotExist), [.lin t']))) := by
  obtain ⟨hnow, hsrv, _, _, _⟩ := put_cmd hp h
  have hver : s.psrv.nextVer = s.srv.nextVer := rfl
  have hdl : deadlineOf (some e) s.now = some e := by
    simp only [deadlineOf, Option.map_some]
    rw [if_neg (by omega)]
    congr 1; omega
  have hlook : ∀ s2 : St, s2.srv = s1.srv → s2.psrv.srv.get (rKey k) =
      if s2.now < e then some { r := { val := v, ver := s.srv.nextVer, exp := some e }, deadline := some e } else none := by
    intro s2 h2
    rw [look_after_set s2 _ _ _ _ _ (h2.trans hsrv), alive_deadlineOf_later, hdl, hver]
    have hmax : max e (s.now + 1) = e := by omega
    simp [hmax]
  refine ⟨?_, ?_, ?_⟩
  · rw [raw_after_set s1 _ _ _ _ _ hsrv, hdl, hver]
  · intro d s2 l2 ht hlt
    rw [hlook s2 (tick_cmd ht).2.1, if_pos hlt]
  · intro d s2 l2 ht heq
    have hgone := hlook s2 (tick_cmd ht).2.1
    rw [if_neg (by omega)] at hgone
    refine ⟨by simp [expired, heq], hgone, ?_⟩
    intro t' k' hk
    exact absent_cmds s2 k' (by rw [hk]; exact hgone) t'

/-- leading slashes do not count: `"/" ++ x` and `x` are the same Redis key -/
theorem rKey_slash (x : String) : rKey ("/" ++ x) = rKey x := by
  unfold rKey
  simp only [String.toList_append]
  rfl

/-- aliasing keys share ONE record and ONE watch: let `k'` and `k` be the same Redis key (`"/s"` and
`"s"`, or any `"/" ++ x` and `x`).  After client t's `put k`, a GET of `k'` by any client returns that
record; and a client t' that is between the GET and the EXEC of a CAS on `k'` when the SET of `put k`
is executed finds its watch touched: its EXEC fails and the CAS starts over. -/
theorem aliasing_keys_share_a_record (s s1 : St) (t : Nat) (k k' v : String) (e : Option Nat)
    (l : List (Lin.Ev LOp Out))
    (hk : rKey k' = rKey k) (hp : s.pc[t]? = some (.put k v e)) (h : step s (.cmd t) = some (s1, l)) :
    rKey "/s" = rKey "s" ∧ (∀ x, rKey ("/" ++ x) = rKey x) ∧
    (∀ t', s1.pc[t']? = some (.get k') →
      step s1 (.cmd t') = some ({ s1 with srv := s1.psrv }.setPc t' (.done (.record v s.srv.nextVer e)), [.lin t'])) ∧
    (∀ t' ver v' e' d, t' ≠ t → s.pc[t']? = some (.casExec k' ver v' e') → s.watch[t']? = some (some (rKey k', d)) →
      s1.watch[t']? = some (some (rKey k', true)) ∧
      step s1 (.cmd t') = some ({ s1 with watch := s1.watch.set t' none }.setPc t' (.casWatch k' ver v' e'), [])) := by
  obtain ⟨hnow, hsrv, hwatch, hpc, _⟩ := put_cmd hp h
  have hver : s.psrv.nextVer = s.srv.nextVer := rfl
  refine ⟨rKey_slash "s", rKey_slash, ?_, ?_⟩
  · intro t' hp'
    have hvis : s1.psrv.srv.get (rKey k') = some { r := { val := v, ver := s.srv.nextVer, exp := e }, deadline := deadlineOf e s.now } := by
      rw [hk, look_after_set s1 _ _ _ _ _ hsrv, hnow, alive_deadlineOf, if_pos rfl, hver]
    exact present_get s1 k' _ hvis t' hp'
  · intro t' ver v' e' d hne hpc' hw
    have hw1 : s1.watch[t']? = some (some (rKey k', true)) := by
      rw [hwatch, touch_getElem?, hw]
      simp [touchE, hk]
    have hp1 : s1.pc[t']? = some (.casExec k' ver v' e') := by
      rw [hpc, List.getElem?_set_ne (Ne.symm hne)]; exact hpc'
    refine ⟨hw1, ?_⟩
    simp [RedisConc.step, cmdStep, hp1, hw1]

/-- non-vacuity: a run in which a CAS loses the WATCH/EXEC race against a Put, starts over, and
reports ErrConflict; and a run in which Create's GET finds the key gone again and the second SETNX wins. -/
example : ∃ s ls, runL (St.init 2)
    [.call 0 (.put "a" "x" none), .cmd 0, .ret 0 (.okVer 1),
     .call 0 (.cas "a" 1 "y" none), .cmd 0, .cmd 0,
     .call 1 (.put "a" "z" none), .cmd 1, .ret 1 (.okVer 2),
     .cmd 0, .cmd 0, .cmd 0, .ret 0 .errConflict] = some (s, ls) := by
  apply exists_of_isSome
  decide

example : ∃ s ls, runL (St.init 2)
    [.call 0 (.put "a" "x" none), .cmd 0, .ret 0 (.okVer 1),
     .call 1 (.create "a" "y" none), .cmd 1,
     .call 0 (.delete "a"), .cmd 0, .ret 0 .ok,
     .cmd 1, .cmd 1, .ret 1 (.okVer 2)] = some (s, ls) := by
  apply exists_of_isSome
  decide

/-- non-vacuity (a): a record expires between two Gets of another client -/
example : ∃ s ls, runL (St.init 2)
    [.call 0 (.put "a" "x" (some 5)), .cmd 0, .ret 0 (.okVer 1),
     .call 1 (.get "a"), .cmd 1, .ret 1 (.record "x" 1 (some 5)),
     .tick 10,
     .call 1 (.get "a"), .cmd 1, .ret 1 .errNotExist] = some (s, ls) := by
  apply exists_of_isSome
  decide

/-- non-vacuity (b): a loop-path PutMany of two records, another client's Put on the first key lands
between the two SETs (and survives: the PutMany is not atomic) -/
example : ∃ s ls, runL (St.init 2)
    [.call 0 (.putMany [("a", "x", some 5), ("b", "y", none)]), .cmd 0,
     .call 1 (.put "a" "z" none), .cmd 1, .ret 1 (.okVer 2),
     .cmd 0, .ret 0 .ok,
     .call 1 (.getMany ["a", "b"]), .cmd 1, .ret 1 (.recs [some ("z", 2, none), some ("y", 3, none)])]
    = some (s, ls) := by
  apply exists_of_isSome
  decide

/-- non-vacuity (c): a tick is REFUSED while a client is parked at a `put` with an expiry (its TTL is
computed, its SET not yet sent), and accepted once the SET has been executed -/
example : runL (St.init 2) [.call 0 (.put "a" "x" (some 5)), .tick 1] = none := by
  rw [← Option.isNone_iff_eq_none]
  decide

example : ∃ s ls, runL (St.init 2) [.call 0 (.put "a" "x" (some 5)), .cmd 0, .tick 1] = some (s, ls) := by
  apply exists_of_isSome
  decide

/-- non-vacuity (d): the boundary instant and a past expiry.  A record written at time 0 with expiry 5
is there at 4 and gone at EXACTLY 5 (the contract would still show it); a Put at time 5 with the past
expiry 3 is seen — payload expiry 3 — by the other client before the next tick, and is gone after it;
a Create then succeeds -/
example : ∃ s ls, runL (St.init 2)
    [.call 0 (.put "a" "x" (some 5)), .cmd 0, .ret 0 (.okVer 1),
     .tick 4,
     .call 1 (.get "a"), .cmd 1, .ret 1 (.record "x" 1 (some 5)),
     .tick 1,
     .call 1 (.get "a"), .cmd 1, .ret 1 .errNotExist,
     .call 0 (.put "b" "y" (some 3)), .cmd 0, .ret 0 (.okVer 2),
     .call 1 (.get "b"), .cmd 1, .ret 1 (.record "y" 2 (some 3)),
     .tick 1,
     .call 1 (.get "b"), .cmd 1, .ret 1 .errNotExist,
     .call 1 (.create "b" "z" (some 6)), .cmd 1, .ret 1 (.okVer 3),
     .call 0 (.get "b"), .cmd 0, .ret 0 (.record "z" 3 (some 6))] = some (s, ls) := by
  apply exists_of_isSome
  decide

/-- non-vacuity (e): two aliasing keys under a CAS race.  Client 0 puts "s"; client 1 reads it as "/s"
and starts a CAS on "/s" (WATCH, GET); client 0's Put on "s" lands before the EXEC: the EXEC fails
(the watch is on the shared Redis key), the CAS starts over, finds version 2 and reports ErrConflict;
a CAS on "//s" with the current version then succeeds and is read back through "s" -/
example : ∃ s ls, runL (St.init 2)
    [.call 0 (.put "s" "x" none), .cmd 0, .ret 0 (.okVer 1),
     .call 1 (.get "/s"), .cmd 1, .ret 1 (.record "x" 1 none),
     .call 1 (.cas "/s" 1 "y" none), .cmd 1, .cmd 1,
     .call 0 (.put "s" "z" none), .cmd 0, .ret 0 (.okVer 2),
     .cmd 1, .cmd 1, .cmd 1, .ret 1 .errConflict,
     .call 1 (.cas "//s" 2 "w" none), .cmd 1, .cmd 1, .cmd 1, .ret 1 (.okVer 3),
     .call 0 (.get "s"), .cmd 0, .ret 0 (.record "w" 3 none)] = some (s, ls) := by
  apply exists_of_isSome
  decide

/-- non-vacuity (f) of `linearizable_to_contract`: a history that meets `RedisOK` (even operation
times, odd future expiries, no leading slash) as the linearization of a run with expiry -/
example : ∃ s ls L, runL (St.init 2)
    [.call 0 (.put "a" "x" (some 5)), .cmd 0, .ret 0 (.okVer 1),
     .tick 2,
     .call 1 (.get "a"), .cmd 1, .ret 1 (.record "x" 1 (some 5)),
     .tick 4,
     .call 1 (.get "a"), .cmd 1, .ret 1 .errNotExist] = some (s, ls) ∧
    (Lin.Sys.init (Redis.new, 0)).run obj ls = some L ∧
    histOf (L.order.map (·.2.1)) 0 = [(0, .put "a" "x" (some 5)), (2, .get "a"), (6, .get "a")] ∧
    RedisOK (histOf (L.order.map (·.2.1)) 0) := by
  refine ⟨_, _, _, rfl, rfl, rfl, ?_⟩
  show RedisOK [(0, .put "a" "x" (some 5)), (2, .get "a"), (6, .get "a")]
  simp only [RedisOK, Op.expiries, Op.names]
  decide

end C02Redis
