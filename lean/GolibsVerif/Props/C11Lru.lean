import GolibsVerif.Lemmas.LruOver
import GolibsVerif.Props.C11
/-
C11 (LRU half) — the cache retains nothing beyond its capacity: for EVERY history of
GetOrCreate / Remove / Clear on a cache of capacity `cap ≥ 1`, executed as programs over the map's
node-chain model (`LruOver`), the internal map never panics, is left without any open iterator
(Clear closes the iterator it opens, First its temporary one), holds at most `cap` entries, and its
linked chain has exactly `entries + 1 ≤ cap + 1` nodes — independent of the length of the history.
-/
namespace C11Lru
open OMap LruOver

/-- the map calls an LRU history performs form an ordinary map history: running them on a fresh map
gives the same final map (so every C10 / C11 theorem about map histories applies) -/
theorem trace_faithful (cap : Nat) (lops : List LOp) (m : M) (tr : List Op)
    (h : lrun cap M.new lops = some (m, tr)) :
    ∃ outs, runI false M.new tr = some (m, outs) := by
  exact lrun_runs cap lops M.new m tr h

/-- C11Lru.never_panics: no LRU history makes the map dereference nil / panic, and the fuel of the
Clear loop always suffices (the loop ends because HasNext answers false) -/
theorem never_panics (cap : Nat) (lops : List LOp) : (lrun cap M.new lops).isSome = true := by
  obtain ⟨m, tr, h, _⟩ := lrun_good cap lops M.new (good_new cap)
  rw [h]; rfl

/-- C11Lru.no_iterator_left_open: after every history no iterator of the internal map is open -/
theorem no_iterator_left_open (cap : Nat) (lops : List LOp) (m : M) (tr : List Op)
    (h : lrun cap M.new lops = some (m, tr)) : m.its = [] := by
  obtain ⟨m', tr', h', hg⟩ := lrun_good cap lops M.new (good_new cap)
  rw [h] at h'
  simp only [Option.some.injEq, Prod.mk.injEq] at h'
  rw [h'.1]; exact hg.its

/-- C11Lru.size_le_cap -/
theorem size_le_cap (cap : Nat) (hc : 1 ≤ cap) (lops : List LOp) (m : M) (tr : List Op)
    (h : lrun cap M.new lops = some (m, tr)) : m.vals.length ≤ cap := by
  have _ := hc   -- not needed: the bound holds for cap = 0 as well
  obtain ⟨m', tr', h', hg⟩ := lrun_good cap lops M.new (good_new cap)
  rw [h] at h'
  simp only [Option.some.injEq, Prod.mk.injEq] at h'
  rw [h'.1]; exact hg.size

/-- C11Lru.lru_bounded: the number of linked nodes is entries + 1 ≤ cap + 1, whatever the history -/
theorem lru_bounded (cap : Nat) (hc : 1 ≤ cap) (lops : List LOp) (m : M) (tr : List Op)
    (h : lrun cap M.new lops = some (m, tr)) :
    m.chain.length = m.vals.length + 1 ∧ m.chain.length ≤ cap + 1 := by
  have h1 := C11.closed_means_clean tr m _ (trace_faithful cap lops m tr h).choose_spec
    (no_iterator_left_open cap lops m tr h)
  have h2 := size_le_cap cap hc lops m tr h
  exact ⟨h1, by omega⟩

/-- C11Lru.clear_empties: Clear removes every entry -/
theorem clear_empties (cap : Nat) (lops : List LOp) (m : M) (tr : List Op)
    (h : lrun cap M.new (lops ++ [.clear]) = some (m, tr)) : m.vals = [] ∧ m.chain.length = 1 := by
  rw [lrun_append] at h
  obtain ⟨m1, tr1, h1, hg1⟩ := lrun_good cap lops M.new (good_new cap)
  obtain ⟨m2, tr2, h2, hg2, hv⟩ := lstep_good cap m1 .clear hg1
  simp only [h1, lrun, h2, Option.map_some, Option.some.injEq, Prod.mk.injEq] at h
  obtain ⟨rfl, _⟩ := h
  have := hg2.chain
  rw [hv rfl] at this ⊢
  exact ⟨rfl, this⟩

/-- regression witness (D2): with Clear NOT closing its iterator (the pre-repair code) the iterator
stays parked on the sentinel; the next added entry inherits its reference count, and when that entry is
removed it stays linked: entries = 0 but two nodes are linked, and so on for every further Clear. -/
def lstepLegacyClear (m : M) : Option M :=
  match m.step false .iterator with
  | some (m1, .handle h) => (clearLoop (m1.chain.length + 1) m1 h).map (·.1)
  | _ => none

theorem legacy_clear_leaks :
    ∃ m0 m1 m2 tr, lrun 2 M.new [.goc 1 (some 10)] = some (m0, [.get 1, .add 1 10, .len]) ∧
      lstepLegacyClear m0 = some m1 ∧ m1.its ≠ [] ∧
      lrun 2 m1 [.goc 2 (some 20), .remove 2] = some (m2, tr) ∧ m2.vals = [] ∧ m2.chain.length = 2 := by
  refine ⟨{ chain := [{ id := 0, st := .ok, refCnt := 0, key := 1, val := 10 },
                      { id := 1, st := .last, refCnt := 0, key := 0, val := 0 }],
            head := 0, last := 1, vals := [(1, 0)], nextId := 2, its := [], nextIt := 0 },
          { chain := [{ id := 1, st := .last, refCnt := 1, key := 0, val := 0 }],
            head := 1, last := 1, vals := [], nextId := 2, its := [(0, 1)], nextIt := 1 },
          { chain := [{ id := 1, st := .deleted, refCnt := 1, key := 2, val := 0 },
                      { id := 2, st := .last, refCnt := 0, key := 0, val := 0 }],
            head := 1, last := 2, vals := [], nextId := 3, its := [(0, 1)], nextIt := 1 },
          [.get 2, .add 2 20, .len, .get 2, .remove 2], ?_, ?_, ?_, ?_, ?_, ?_⟩ <;> decide

/-- non-vacuity: a history that hits, misses, evicts, removes and clears -/
example : (lrun 2 M.new [.goc 1 (some 10), .goc 2 (some 20), .goc 1 none, .goc 3 (some 30), .remove 2, .goc 4 none, .clear, .goc 5 (some 50)]).isSome = true := by
  decide

end C11Lru
