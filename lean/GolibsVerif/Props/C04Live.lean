import GolibsVerif.Lemmas.Lock
import GolibsVerif.Lemmas.LockServe
/-
C04 (liveness part, possibility form) — "when a holder unlocks, some waiting caller acquires the lock,
and so on until every caller has had it".  The inevitability of service under a fair scheduler is not
expressible over the untimed step relation without a fairness operator; what IS proved here is the
branching-time core of it ("AG EF served"): from EVERY reachable fault-free state, every caller that is
inside Lock / LockWithCtx with a live context can still be served — there is a finite continuation,
made only of steps of the callers involved (the current holder unlocking, callers ahead of it being
served and unlocking), at the end of which it holds the lock.  No reachable state is a trap: no lost
wake-up, no lost token, no stale record can cut a waiting caller off for ever.
-/
namespace C04
open Lock

/-- finite sequences of fault-free steps under the lease assumption -/
inductive Steps (c : Cfg) : St → St → Prop
  | refl (s : St) : Steps c s s
  | step {s t u : St} : Step c false false s t → Steps c t u → Steps c s u

/-- the caller is inside Lock / LockWithCtx (before the outcome is decided) -/
def Acquiring (s : St) (g : G) : Prop :=
  s.pc g = .lSelect ∨ s.pc g = .lCtxCheck ∨ s.pc g = .lCreate ∨ ∃ v, s.pc g = .lWait v

theorem Steps.trans {c : Cfg} {s t u : St} (h₁ : Steps c s t) (h₂ : Steps c t u) : Steps c s u := by
  induction h₁ with
  | refl _ => exact h₂
  | step hs _ ih => exact Steps.step hs (ih h₂)

theorem Steps.of_run {c : Cfg} {s t : St} (h : Run c s t) : Steps c s t := by
  induction h with
  | refl _ => exact Steps.refl _
  | step hs _ ih => exact Steps.step hs ih

theorem Steps.reach {c : Cfg} {s t : St} (h : Steps c s t) (hr : Reach c false false s) :
    Reach c false false t := by
  induction h with
  | refl _ => exact hr
  | step hs _ ih => exact ih (Reach.step hr hs)

/-- C04.service_reachable: no reachable state cuts an acquiring caller off -/
theorem service_reachable (c : Cfg) (s : St) (h : Reach c false false s) (g : G)
    (ha : Acquiring s g) (hc : s.ctxDone g = false) (hd : ∀ p, s.done p = false) :
    ∃ t, Steps c s t ∧ t.holds g = true := by
  obtain ⟨_, _, _, _, u, hu, _, hh⟩ := serve_one c s h hd g ha hc
  exact ⟨u, Steps.of_run hu, hh⟩

/-- C04.everyone_can_be_served: from every reachable state all callers that are acquiring (with live
contexts) can be served one after the other, each unlocking before the next: there is a continuation
in which every one of them has held the lock. -/
theorem everyone_can_be_served (c : Cfg) (s : St) (h : Reach c false false s) (gs : List G)
    (ha : ∀ g ∈ gs, Acquiring s g ∧ s.ctxDone g = false) (hn : gs.Nodup) (hd : ∀ p, s.done p = false) :
    ∃ t, Steps c s t ∧ Reach c false false t ∧ ∀ g ∈ gs, t.pc g = .idle ∧ t.holds g = false ∧
      ∃ u, Steps c s u ∧ Steps c u t ∧ u.holds g = true := by
  have _ := hn  -- not needed: duplicates in the list are harmless
  obtain ⟨t, ph, hall⟩ := serve_all c gs s h hd
  refine ⟨t, Steps.of_run ph.run, ph.run.reach h, fun g hg => ?_⟩
  obtain ⟨hp, hh, u, h₁, h₂, hu⟩ := hall g hg (ha g hg).1 (ha g hg).2
  exact ⟨hp, hh, u, Steps.of_run h₁, Steps.of_run h₂, hu⟩

end C04
