import GolibsVerif.Lemmas.Kv
/-
C02 (contract part) — facts about the KV contract that hold for ALL histories; the concurrent
backends are tied to this contract by the linearizability theorems in Props/C02.lean.
-/
namespace C02
open Kv

/-- versions handed out by successful writes in a run -/
def issued : List Out → List Nat
  | [] => []
  | .okVer v :: rest => v :: issued rest
  | _ :: rest => issued rest

/-- C02.fresh_versions: every successful write gets a version never handed out before (strictly
above everything issued so far), so a holder of an older version can always detect the change. -/
theorem fresh_versions (s : Spec) (h : Hist) :
    (issued (runSpec s h).2).Pairwise (· < ·) ∧ ∀ v ∈ issued (runSpec s h).2, s.nextVer ≤ v :=
  sorry

/-- every stored version was issued: stored versions stay below `nextVer` -/
theorem stored_below_next (h : Hist) :
    ∀ kr ∈ (runSpec Spec.new h).1.store, kr.2.ver < (runSpec Spec.new h).1.nextVer :=
  sorry

/-- C02.cas_same_version_at_most_once: in any history, CasByVersion against one given version of
one key succeeds at most once. -/
theorem cas_same_version_at_most_once (h : Hist) (k : String) (ver : Nat) :
    ((List.zip h (runSpec Spec.new h).2).filter fun (x, o) =>
        match x.2, o with
        | .cas k' ver' _ _, .okVer _ => k' == k && ver' == ver
        | _, _ => false).length ≤ 1 :=
  sorry

/-- C02.racing_creators_one_winner: among any number of Create calls on one key with no Delete /
expiry in between, exactly the first succeeds (whatever order they are linearised in, one wins). -/
theorem racing_creators_one_winner (s : Spec) (now : Nat) (k : String) (vs : List String)
    (hfree : s.live now k = none) (hne : vs ≠ []) :
    (issued (runSpec s (vs.map fun v => (now, Op.create k v none))).2).length = 1 :=
  sorry

/-- C02.loser_changes_nothing: ErrExist / ErrConflict / ErrNotExist leave the visible store unchanged -/
theorem loser_changes_nothing (s : Spec) (now : Nat) (op : Op) :
    (match (s.step now op).2 with
      | .errExist _ | .errConflict | .errNotExist => True
      | _ => False) → (s.step now op).1 = s :=
  sorry

end C02
