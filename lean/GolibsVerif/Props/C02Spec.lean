import GolibsVerif.Lemmas.Kv
/-
C02 (contract part) — facts about the KV contract that hold for ALL histories; the concurrent
backends are tied to this contract by the linearizability theorems in Props/C02.lean.
-/
namespace C02
open Kv

/-- versions handed out by successful writes in a run -/
def issued : List Out → List Nat
  | [] => []
  | .okVer v :: rest => v :: issued rest
  | _ :: rest => issued rest

/-- C02.fresh_versions: every successful write gets a version never handed out before (strictly
above everything issued so far), so a holder of an older version can always detect the change. -/
theorem fresh_versions (s : Spec) (h : Hist) :
    (issued (runSpec s h).2).Pairwise (· < ·) ∧ ∀ v ∈ issued (runSpec s h).2, s.nextVer ≤ v := by
  induction h generalizing s with
  | nil => simp [runSpec, issued]
  | cons a h ih =>
    obtain ⟨t, op⟩ := a
    simp only [runSpec]
    have hv := Spec.step_ver s t op
    have ih' := ih (s.step t op).1
    cases ho : (s.step t op).2 with
    | okVer v =>
      obtain ⟨h1, h2⟩ := hv.2 v ho
      simp only [issued]
      refine ⟨List.pairwise_cons.mpr ⟨fun w hw => ?_, ih'.1⟩, ?_⟩
      · have := ih'.2 w hw; omega
      · intro w hw
        rcases List.mem_cons.mp hw with h | h
        · omega
        · have := ih'.2 w h; omega
    | _ => simp only [issued]; exact ⟨ih'.1, fun w hw => Nat.le_trans hv.1 (ih'.2 w hw)⟩

/-- every stored version was issued: stored versions stay below `nextVer` -/
theorem stored_below_next (h : Hist) :
    ∀ kr ∈ (runSpec Spec.new h).1.store, kr.2.ver < (runSpec Spec.new h).1.nextVer :=
  Spec.Below.run h Spec.Below.new

/-- C02.cas_same_version_at_most_once: in any history, CasByVersion against one given version of
one key succeeds at most once. -/
theorem cas_same_version_at_most_once (h : Hist) (k : String) (ver : Nat) :
    ((List.zip h (runSpec Spec.new h).2).filter fun (x, o) =>
        match x.2, o with
        | .cas k' ver' _ _, .okVer _ => k' == k && ver' == ver
        | _, _ => false).length ≤ 1 := by
  have hf : (fun (p : (Nat × Op) × Out) => match p with
      | (x, o) => match x.2, o with
        | .cas k' ver' _ _, .okVer _ => k' == k && ver' == ver
        | _, _ => false) = casHit k ver := by
    funext ⟨x, o⟩; rfl
  rw [hf]
  exact Spec.Below.hit_le_one h Spec.Below.new

/-- once `k` holds a record that never expires, further Creates all fail -/
theorem creators_lose (now : Nat) (k : String) (vs : List String) (s : Spec) (r : Rec)
    (hg : s.store.get k = some r) (he : r.exp = none) :
    issued (runSpec s (vs.map fun v => (now, Op.create k v none))).2 = [] := by
  have hl : s.live now k = some r := by
    rw [Spec.live_of_get hg]
    simp [expired, he]
  induction vs with
  | nil => rfl
  | cons v vs ih =>
    simp only [List.map_cons, runSpec, Spec.step, hl, issued]
    exact ih

/-- C02.racing_creators_one_winner: among any number of Create calls on one key with no Delete /
expiry in between, exactly the first succeeds (whatever order they are linearised in, one wins). -/
theorem racing_creators_one_winner (s : Spec) (now : Nat) (k : String) (vs : List String)
    (hfree : s.live now k = none) (hne : vs ≠ []) :
    (issued (runSpec s (vs.map fun v => (now, Op.create k v none))).2).length = 1 := by
  cases vs with
  | nil => exact absurd rfl hne
  | cons v vs =>
    simp only [List.map_cons, runSpec, Spec.step, hfree, issued]
    rw [creators_lose now k vs (s.write k v none).1 ⟨v, s.nextVer, none⟩
      (by simp only [Spec.write]; exact Store.get_put_self _ _ _) rfl]
    rfl

/-- C02.loser_changes_nothing: ErrExist / ErrConflict / ErrNotExist leave the visible store unchanged -/
theorem loser_changes_nothing (s : Spec) (now : Nat) (op : Op) :
    (match (s.step now op).2 with
      | .errExist _ | .errConflict | .errNotExist => True
      | _ => False) → (s.step now op).1 = s := by
  cases op with
  | create k v e => simp only [Spec.step]; cases s.live now k <;> simp
  | get k => simp only [Spec.step]; cases s.live now k <;> simp
  | getMany ks => simp [Spec.step]
  | put k v e => simp [Spec.step]
  | putMany rs => rw [Spec.step_putMany]; simp
  | cas k ver v e =>
    simp only [Spec.step]
    cases s.live now k with
    | none => simp
    | some r => by_cases hv : r.ver = ver <;> simp [hv]
  | delete k => simp only [Spec.step]; cases s.live now k <;> simp
  | list pat => simp [Spec.step]
  | wait k ver =>
    simp only [Spec.step]
    cases s.live now k with
    | none => simp
    | some r => by_cases hv : r.ver = ver <;> simp [hv]

end C02
