import GolibsVerif.Lemmas.Blk
/-
C17 — Block allocator: no double allocation, disjoint blocks, recoverable state.
`P` is the page size (any positive number), `mem0` any initial buffer content of bytes.
-/
namespace C17
open Blk

def BytesOK (mem : List Nat) : Prop := ∀ x ∈ mem, x < 256

/-- C17.geometry_valid_iff_accepted: the (repaired) constructor returns an allocator exactly for
valid geometries with a buffer that holds at least one segment (and divides evenly when `fit`),
and ErrInvalid otherwise — never a panic, never a malformed allocator. -/
theorem geometry_valid_iff_accepted (P : Nat) (hP : 0 < P) (bs : Int) (mem : List Nat) (fit : Bool) :
    (∃ b, newBlocks P bs mem fit = .ok b ∧ 0 < b.bs ∧ (b.bs : Int) = bs ∧ 1 ≤ b.segs ∧
        b.segs * b.segmSize ≤ mem.length ∧ (fit = true → b.segs * b.segmSize = mem.length) ∧ b.mem = mem) ∧
      ValidGeom P bs ∧ (8 * bs.toNat + 1) * bs.toNat ≤ mem.length ∧
        (fit = true → mem.length % ((8 * bs.toNat + 1) * bs.toNat) = 0)
    ∨
    newBlocks P bs mem fit = .error .invalid ∧
      ¬ (ValidGeom P bs ∧ (8 * bs.toNat + 1) * bs.toNat ≤ mem.length ∧
        (fit = true → mem.length % ((8 * bs.toNat + 1) * bs.toNat) = 0)) :=
  sorry

/-- regression witness (D4): the pre-repair test accepted bs = 3 and panicked on bs = 0 -/
theorem legacy_accepts_invalid : acceptsLegacy 4096 3 100 false = some true ∧ acceptsLegacy 4096 0 100 false = none ∧
    ¬ ValidGeom 4096 3 ∧ ¬ ValidGeom 4096 0 := by
  refine ⟨by decide, by decide, ?_, ?_⟩ <;> sorry

/-- C17.ranges_disjoint: for an opened allocator, the data ranges of distinct valid indices are
disjoint from each other and from every header range, and lie inside the buffer. -/
theorem ranges_disjoint (b : B) (hbs : 0 < b.bs) (hfit : b.segs * b.segmSize ≤ b.mem.length)
    (i j : Nat) (hi : i < b.count) (hj : j < b.count) (hij : i ≠ j) (s : Nat) (hs : s < b.segs) :
    ∃ oi oj, b.block i = .ok (oi, b.bs) ∧ b.block j = .ok (oj, b.bs) ∧
      (oi + b.bs ≤ oj ∨ oj + b.bs ≤ oi) ∧
      oi + b.bs ≤ b.mem.length ∧
      (oi + b.bs ≤ (b.hdrRange s).1 ∨ (b.hdrRange s).1 + b.bs ≤ oi) :=
  sorry

/-- C17.refines_set: from any freshly opened allocator (any valid geometry, any byte content),
every sequence of ArrangeBlock / FreeBlock / Block / Available / Count / reopen-on-the-same-bytes
returns exactly what the set model returns: an index is never handed out while allocated (it is the
least free one), ErrExhausted exactly when nothing is free, Available = Count − allocated, and
reopening reproduces exactly the allocated set. No loop diverges. -/
theorem refines_set (P : Nat) (hP : 0 < P) (bs : Int) (mem0 : List Nat) (hb : BytesOK mem0) (fit : Bool)
    (b : B) (hopen : newBlocks P bs mem0 fit = .ok b) (ops : List Op) :
    (runI P b ops).2 = (runS b.abs ops).2 ∧ (runI P b ops).1.abs = (runS b.abs ops).1 :=
  sorry

/-- Spec facts: arrange returns an index that was free; exhausted iff all allocated; free of a free block is ErrNotExist -/
theorem spec_arrange_fresh (s : S) (hn : s.alloc.Nodup) (hr : ∀ i ∈ s.alloc, i < s.count) :
    match s.step .arrange with
    | (s', .idx i) => i ∉ s.alloc ∧ i < s.count ∧ s'.alloc = i :: s.alloc
    | (s', .err .exhausted) => s' = s ∧ s.alloc.length = s.count
    | _ => False :=
  sorry

/-- C17.reopen_same_state: opening the bytes of any reachable state yields the same allocated set
and the same Available. -/
theorem reopen_same_state (P : Nat) (hP : 0 < P) (bs : Int) (mem0 : List Nat) (hb : BytesOK mem0) (fit : Bool)
    (b : B) (hopen : newBlocks P bs mem0 fit = .ok b) (ops : List Op) :
    let b1 := (runI P b ops).1
    ∃ b2, newBlocks P b1.bs b1.mem false = .ok b2 ∧ b2.abs = b1.abs ∧ b2.avail = b1.avail :=
  sorry

/-- the user data ranges are never written by the allocator: bytes outside all header ranges never change -/
theorem data_untouched (P : Nat) (b : B) (hbs : 0 < b.bs) (op : Op) (k : Nat)
    (hk : ∀ s, s < b.segs → ¬ ((b.hdrRange s).1 ≤ k ∧ k < (b.hdrRange s).1 + b.bs)) :
    (b.step P op).1.mem.getD k 0 = b.mem.getD k 0 :=
  sorry

example : ∃ b, newBlocks 4096 1 (List.replicate 20 0) false = .ok b ∧ b.segs = 2 ∧ b.avail = 16 := by
  refine ⟨_, rfl, ?_, ?_⟩ <;> decide

end C17
