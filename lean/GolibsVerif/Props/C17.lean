import GolibsVerif.Lemmas.Blk
/-
C17 — Block allocator: no double allocation, disjoint blocks, recoverable state.
`P` is the page size (any positive number), `mem0` any initial buffer content of bytes.
-/
namespace C17
open Blk

def BytesOK (mem : List Nat) : Prop := ∀ x ∈ mem, x < 256

/-- C17.geometry_valid_iff_accepted: the (repaired) constructor returns an allocator exactly for
valid geometries with a buffer that holds at least one segment (and divides evenly when `fit`),
and ErrInvalid otherwise — never a panic, never a malformed allocator. -/
theorem geometry_valid_iff_accepted (P : Nat) (_hP : 0 < P) (bs : Int) (mem : List Nat) (fit : Bool) :
    (∃ b, newBlocks P bs mem fit = .ok b ∧ 0 < b.bs ∧ (b.bs : Int) = bs ∧ 1 ≤ b.segs ∧
        b.segs * b.segmSize ≤ mem.length ∧ (fit = true → b.segs * b.segmSize = mem.length) ∧ b.mem = mem) ∧
      ValidGeom P bs ∧ (8 * bs.toNat + 1) * bs.toNat ≤ mem.length ∧
        (fit = true → mem.length % ((8 * bs.toNat + 1) * bs.toNat) = 0)
    ∨
    newBlocks P bs mem fit = .error .invalid ∧
      ¬ (ValidGeom P bs ∧ (8 * bs.toNat + 1) * bs.toNat ≤ mem.length ∧
        (fit = true → mem.length % ((8 * bs.toNat + 1) * bs.toNat) = 0)) := by
  by_cases hv : ValidGeom P bs
  · have hpos : 0 < bs := hv.1
    obtain ⟨n, rfl⟩ : ∃ n : Nat, bs = n := ⟨bs.toNat, by omega⟩
    have hn : 0 < n := by omega
    rw [newBlocks_of_valid P n mem fit hv]
    simp only [Int.toNat_natCast]
    have hZ : 0 < (8 * n + 1) * n := Nat.mul_pos (by omega) hn
    by_cases hsz : mem.length < (8 * n + 1) * n ∨ (fit = true ∧ mem.length % ((8 * n + 1) * n) ≠ 0)
    · right
      rw [if_pos hsz]
      refine ⟨rfl, ?_⟩
      rintro ⟨_, h1, h2⟩
      rcases hsz with h | ⟨hf, h⟩
      · omega
      · exact h (h2 hf)
    · left
      rw [if_neg hsz]
      have h1 : (8 * n + 1) * n ≤ mem.length := by omega
      have h2 : fit = true → mem.length % ((8 * n + 1) * n) = 0 := by
        intro hf; by_cases h : mem.length % ((8 * n + 1) * n) = 0
        · exact h
        · exact absurd (Or.inr ⟨hf, h⟩) hsz
      refine ⟨⟨_, rfl, hn, rfl, ?_, ?_, ?_, rfl⟩, hv, h1, h2⟩
      · exact Nat.div_pos h1 hZ
      · exact Nat.div_mul_le_self _ _
      · intro hf
        exact Nat.div_mul_cancel (Nat.dvd_of_mod_eq_zero (h2 hf))
  · right
    exact ⟨newBlocks_of_not_valid P bs mem fit hv, fun h => hv h.1⟩

/-- regression witness (D4): the pre-repair test accepted bs = 3 and panicked on bs = 0 -/
theorem legacy_accepts_invalid : acceptsLegacy 4096 3 100 false = some true ∧ acceptsLegacy 4096 0 100 false = none ∧
    ¬ ValidGeom 4096 3 ∧ ¬ ValidGeom 4096 0 := by
  refine ⟨by decide, by decide, ?_, ?_⟩
  · intro h
    have := (validGeom_nat_iff 4096 3).mp h
    revert this; decide
  · exact not_validGeom_of_nonpos _ _ (by decide)

/-- C17.ranges_disjoint: for an opened allocator, the data ranges of distinct valid indices are
disjoint from each other and from every header range, and lie inside the buffer. -/
theorem ranges_disjoint (b : B) (hbs : 0 < b.bs) (hfit : b.segs * b.segmSize ≤ b.mem.length)
    (i j : Nat) (hi : i < b.count) (hj : j < b.count) (hij : i ≠ j) (s : Nat) (_hs : s < b.segs) :
    ∃ oi oj, b.block i = .ok (oi, b.bs) ∧ b.block j = .ok (oj, b.bs) ∧
      (oi + b.bs ≤ oj ∨ oj + b.bs ≤ oi) ∧
      oi + b.bs ≤ b.mem.length ∧
      (oi + b.bs ≤ (b.hdrRange s).1 ∨ (b.hdrRange s).1 + b.bs ≤ oi) := by
  refine ⟨_, _, b.block_nat hbs i hi, b.block_nat hbs j hj, ?_⟩
  have hsi : i / (8 * b.bs) < b.segs := (idx_seg_lt hbs).mpr hi
  have hsj : j / (8 * b.bs) < b.segs := (idx_seg_lt hbs).mpr hj
  have hK : 0 < 8 * b.bs := by omega
  have hri := Nat.mod_lt i hK
  have hrj := Nat.mod_lt j hK
  have ei := Nat.div_add_mod i (8 * b.bs)
  have ej := Nat.div_add_mod j (8 * b.bs)
  simp only [B.hdrRange]
  have hZ : b.segmSize = 8 * b.bs * b.bs + b.bs := by simp [B.segmSize, Nat.add_mul]
  generalize b.segmSize = Z at *
  generalize i / (8 * b.bs) = si at *
  generalize i % (8 * b.bs) = ri at *
  generalize j / (8 * b.bs) = sj at *
  generalize j % (8 * b.bs) = rj at *
  -- q bounds
  have qi1 : (ri + 1) * b.bs + b.bs ≤ 8 * b.bs * b.bs + b.bs := by
    have := Nat.mul_le_mul_right b.bs (show ri + 1 ≤ 8 * b.bs by omega); omega
  have qj1 : (rj + 1) * b.bs + b.bs ≤ 8 * b.bs * b.bs + b.bs := by
    have := Nat.mul_le_mul_right b.bs (show rj + 1 ≤ 8 * b.bs by omega); omega
  have qi0 : b.bs ≤ (ri + 1) * b.bs := by rw [Nat.add_mul]; omega
  have qj0 : b.bs ≤ (rj + 1) * b.bs := by rw [Nat.add_mul]; omega
  have hsegi := mul_lt_of_lt (Z := Z) hsi (Nat.le_refl Z)
  refine ⟨?_, by omega, ?_⟩
  · rcases Nat.lt_trichotomy si sj with h | h | h
    · have := succ_mul_le (Z := Z) h; omega
    · subst h
      have hr : ri ≠ rj := by intro h; subst h; omega
      rcases Nat.lt_or_gt_of_ne hr with h | h
      · have := Nat.mul_le_mul_right b.bs (show ri + 1 + 1 ≤ rj + 1 by omega)
        rw [Nat.add_mul _ 1, Nat.one_mul] at this; omega
      · have := Nat.mul_le_mul_right b.bs (show rj + 1 + 1 ≤ ri + 1 by omega)
        rw [Nat.add_mul _ 1, Nat.one_mul] at this; omega
    · have := succ_mul_le (Z := Z) h; omega
  · rcases Nat.lt_trichotomy s si with h | h | h
    · have := succ_mul_le (Z := Z) h; omega
    · subst h; omega
    · have := succ_mul_le (Z := Z) h; omega

/-- C17.refines_set: from any freshly opened allocator (any valid geometry, any byte content),
every sequence of ArrangeBlock / FreeBlock / Block / Available / Count / reopen-on-the-same-bytes
returns exactly what the set model returns: an index is never handed out while allocated (it is the
least free one), ErrExhausted exactly when nothing is free, Available = Count − allocated, and
reopening reproduces exactly the allocated set. No loop diverges.
(The Spec keeps `alloc` as a list in allocation order, the abstraction lists it ascending, so the
states agree up to permutation of `alloc`.) -/
theorem refines_set (P : Nat) (_hP : 0 < P) (bs : Int) (mem0 : List Nat) (hb : BytesOK mem0) (fit : Bool)
    (b : B) (hopen : newBlocks P bs mem0 fit = .ok b) (ops : List Op) :
    (runI P b ops).2 = (runS b.abs ops).2 ∧
      (runI P b ops).1.abs.count = (runS b.abs ops).1.count ∧
      (runI P b ops).1.abs.bs = (runS b.abs ops).1.bs ∧
      (runI P b ops).1.abs.segs = (runS b.abs ops).1.segs ∧
      (runI P b ops).1.abs.alloc.Perm (runS b.abs ops).1.alloc := by
  obtain ⟨hI, hR⟩ := open_ok hb hopen
  obtain ⟨h1, _, h3⟩ := run_ok ops hI hR
  exact ⟨h1, h3.count.symm, h3.bs.symm, h3.segs.symm, h3.perm⟩

/-- Spec facts: arrange returns an index that was free; exhausted iff all allocated; free of a free block is ErrNotExist -/
theorem spec_arrange_fresh (s : S) (hn : s.alloc.Nodup) (hr : ∀ i ∈ s.alloc, i < s.count) :
    match s.step .arrange with
    | (s', .idx i) => i ∉ s.alloc ∧ i < s.count ∧ s'.alloc = i :: s.alloc
    | (s', .err .exhausted) => s' = s ∧ s.alloc.length = s.count
    | _ => False := by
  unfold S.step
  cases h : s.leastFree with
  | some i =>
    simp only
    unfold S.leastFree at h
    rw [List.find?_range_eq_some] at h
    simp only [List.contains_eq_mem, Bool.not_eq_eq_eq_not, Bool.not_true, decide_eq_false_iff_not, List.mem_range] at h
    exact ⟨h.1, h.2.1, trivial⟩
  | none =>
    simp only
    unfold S.leastFree at h
    rw [List.find?_range_eq_none] at h
    refine ⟨trivial, ?_⟩
    have hp : s.alloc.Perm (List.range s.count) := by
      rw [List.perm_ext_iff_of_nodup hn List.nodup_range]
      intro a
      constructor
      · intro ha; exact List.mem_range.mpr (hr a ha)
      · intro ha; have := h a (List.mem_range.mp ha); simpa using this
    simpa using hp.length_eq

/-- C17.reopen_same_state: opening the bytes of any reachable state yields the same allocated set
and the same Available. -/
theorem reopen_same_state (P : Nat) (_hP : 0 < P) (bs : Int) (mem0 : List Nat) (hb : BytesOK mem0) (fit : Bool)
    (b : B) (hopen : newBlocks P bs mem0 fit = .ok b) (ops : List Op) :
    let b1 := (runI P b ops).1
    ∃ b2, newBlocks P b1.bs b1.mem false = .ok b2 ∧ b2.abs = b1.abs ∧ b2.avail = b1.avail := by
  intro b1
  obtain ⟨hI, hR⟩ := open_ok hb hopen
  obtain ⟨_, h2, h3⟩ := run_ok ops hI hR
  exact ⟨_, reopen_eq h2, rfl, (avail_eq_countFree h2 h3).symm⟩

/-- the user data ranges are never written by the allocator: in every reachable state, bytes
outside all header ranges never change -/
theorem data_untouched (P : Nat) (_hP : 0 < P) (bs : Int) (mem0 : List Nat) (hb : BytesOK mem0) (fit : Bool)
    (b0 : B) (hopen : newBlocks P bs mem0 fit = .ok b0) (ops : List Op) (op : Op) (k : Nat) :
    let b := (runI P b0 ops).1
    (∀ s, s < b.segs → ¬ ((b.hdrRange s).1 ≤ k ∧ k < (b.hdrRange s).1 + b.bs)) →
    (b.step P op).1.mem.getD k 0 = b.mem.getD k 0 := by
  intro b hk
  obtain ⟨hI, hR⟩ := open_ok hb hopen
  obtain ⟨_, h2, _⟩ := run_ok ops hI hR
  exact step_mem_outside h2 op k hk

example : ∃ b, newBlocks 4096 1 (List.replicate 20 0) false = .ok b ∧ b.segs = 2 ∧ b.avail = 16 := by
  refine ⟨_, rfl, ?_, ?_⟩ <;> decide

end C17
