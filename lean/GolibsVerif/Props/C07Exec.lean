import GolibsVerif.Model.WaitersExec
import GolibsVerif.Props.C07
import GolibsVerif.Lemmas.WaitersExec
/-
Soundness of the C07 trace-replay interpreter: accepted traces are executions of `Waiters.Step`.
-/
namespace C07Exec
open Waiters Waiters.Exec

theorem handle_sound (s t : St) (e : Event) (h : handle s e = some t) : Steps s t :=
  handle_steps h

theorem replay_reach (ws : List W) (es : List Event) (t : St) (h : replay (St.init ws) es = some t) :
    Reach ws t :=
  Steps.reach Reach.init (replay_steps h)

/-- hence the waiter table is exact in every state the driver passes through -/
theorem replay_table_exact (ws : List W) (hf : C07.Fresh ws) (es : List Event) (t : St)
    (h : replay (St.init ws) es = some t) :
    ∀ e ∈ t.table, e.2.2 = parkedOn t e.2.1 ∧ 0 < e.2.2 ∧ e.2.1 ∉ t.closed :=
  (C07.table_exact ws hf t (replay_reach ws es t h)).1

end C07Exec
