import GolibsVerif.Model.TmoPoolExec
import GolibsVerif.Lemmas.TmoPoolExec
/-
Soundness of the C13 trace-replay interpreter: accepted traces are executions of `Tmo.Pool.Step`.
-/
namespace C13Exec
open Tmo.Pool Tmo.Pool.Exec

theorem handle_sound (c : Cfg) (s t : St) (e : Event) (h : handle c s e = some t) : Steps c s t := by
  cases e with
  | add fireT =>
    simp only [handle, Option.some.injEq] at h
    subst h
    exact Steps.single (xAdd_step c s fireT)
  | cancel id => exact Steps.single (xCancel_step c s t id h)
  | ticks n =>
    simp only [handle, Option.some.injEq] at h
    subst h
    exact xTicks_steps c n s
  | timerWake i => exact Steps.single (xTimerWake_step c s t i h)
  | tokenWake i => exact Steps.single (xTokenWake_step c s t i h)
  | sec i => exact Steps.single (xSection_step c s t i h)

theorem replay_steps (c : Cfg) (es : List Event) (s t : St) (h : replay c s es = some t) : Steps c s t := by
  induction es generalizing s with
  | nil =>
    simp only [replay, Option.some.injEq] at h
    subst h
    exact .refl s
  | cons e es ih =>
    simp only [replay] at h
    cases he : handle c s e with
    | none => rw [he] at h; cases h
    | some s' =>
      rw [he] at h
      exact Steps.trans (handle_sound c s s' e he) (ih s' h)

theorem replay_reach (c : Cfg) (es : List Event) (t : St) (h : replay c St.init es = some t) : Reach c t :=
  Steps.reach (replay_steps c es St.init t h) Reach.init

end C13Exec
