import GolibsVerif.Lemmas.Tmo
/-
C12 — Timers: never early, at most once, cancel is effective and precise.
Every dispatcher operation (add, cancel, the watcher's pop) runs under one package lock, so any
concurrent use is some sequence `ops` of these critical sections (Lin.atomic_object, Props/Lin.lean);
the theorems quantify over ALL such sequences.
-/
namespace C12
open Tmo

/-- an op sequence is valid when every `.cancel id` names a future that an earlier `.add` returned
(`n` = number of futures created so far): Cancel can only be called on a future that Call returned.
Without this `[.cancel 0]` outputs `undefined` (lookup of an unknown id). -/
def validOps : Nat → List Op → Prop
  | _, [] => True
  | n, .add _ :: rest => validOps (n + 1) rest
  | n, .cancel id :: rest => id < n ∧ validOps n rest
  | n, _ :: rest => validOps n rest

/-- from a heap satisfying the run invariant, a valid op sequence never outputs `undefined` -/
private theorem run_no_undef {h : Heap} (I : h.Inv) (ops : List Op) :
    validOps h.fut.length ops → Out.undefined ∉ (run h ops).2 := by
  induction ops generalizing h with
  | nil => intro _ c; simp [run_nil] at c
  | cons op ops ih =>
    intro v
    have I' := step_inv I op
    have fl := step_fut_length I op
    rw [run_cons]
    intro c
    rcases List.mem_cons.1 c with c | c
    · obtain ⟨id, rfl, hle⟩ := step_undef I op c.symm
      have : id < h.fut.length := v.1
      omega
    · have v' : validOps (h.step op).1.fut.length ops := by
        rw [fl]
        cases op with
        | add t => exact v
        | cancel id => exact v.2
        | popIfDue now => exact v
        | rawPop => exact v
      exact ih I' v' c

/-- C12.idx_inv + heap_order: after any sequence of critical sections every future in the heap
knows its own index, every future outside has idx = −1, ids are distinct, the array is a heap,
and (for valid sequences) no container/heap loop ran out of fuel (no output is `undefined`). -/
theorem idx_inv (ops : List Op) :
    (run Heap.new ops).1.IdxInv ∧ (run Heap.new ops).1.Ordered ∧
      (validOps 0 ops → Out.undefined ∉ (run Heap.new ops).2) := by
  have I := run_inv Heap.inv_new ops
  exact ⟨I.1, I.2.1, run_no_undef Heap.inv_new ops⟩

/-- the root is a minimum: a future is popped by the watcher only if nothing pending fires earlier -/
theorem root_is_min (ops : List Op) :
    let h := (run Heap.new ops).1
    ∀ i, i < h.arr.length → h.fireAt 0 ≤ h.fireAt i :=
  root_min (run_inv Heap.inv_new ops).2.1

/-- C12.cancel_removes_exactly: Cancel removes exactly that future (if it is still pending) and
nothing else: every other future keeps its membership, fire time and callback. Cancelling a
fired / already cancelled future changes nothing at all. -/
theorem cancel_removes_exactly (ops : List Op) (id : Nat) :
    let h := (run Heap.new ops).1
    let h' := (h.step (.cancel id)).1
    (h'.pending.Perm (h.pending.filter (·.1 ≠ id))) ∧
    (∀ j, j ≠ id → (h'.get j).map (fun f => (f.fireT, f.hasF)) = (h.get j).map (fun f => (f.fireT, f.hasF))) ∧
    (id ∉ h.arr → h' = h) :=
  cancel_exact (run_inv Heap.inv_new ops) id

/-- add inserts exactly one new pending future and touches no other -/
theorem add_inserts_exactly (ops : List Op) (t : Nat) :
    let h := (run Heap.new ops).1
    let r := h.step (.add t)
    r.2 = .id h.fut.length ∧ r.1.pending.Perm ((h.fut.length, t) :: h.pending) :=
  add_exact (run_inv Heap.inv_new ops) t

/-- C12.never_early: whenever the watcher section pops (= starts) a future at time `now`, that
future's fire time is not after `now`, and it was the pending future with the least fire time. -/
theorem never_early (ops : List Op) (now : Nat) (id : Nat) (st : Bool) :
    let h := (run Heap.new ops).1
    (h.step (.popIfDue now)).2 = .popped id st →
      (∃ f, h.get id = some f ∧ f.fireT ≤ now ∧ f.hasF = true ∧ st = true ∧ id ∈ h.arr ∧
        ∀ p ∈ h.pending, f.fireT ≤ p.2) ∧
      id ∉ (h.step (.popIfDue now)).1.arr :=
  never_early_h (run_inv Heap.inv_new ops) now id st

/-- ids started (popped with a callback) in a run, in order -/
def started : List Out → List Nat
  | [] => []
  | .popped id true :: rest => id :: started rest
  | _ :: rest => started rest

/-- started ids are among the popped ids, in order -/
private theorem started_sublist : ∀ l : List Out, (started l).Sublist (l.filterMap Out.poppedId)
  | [] => List.Sublist.slnil
  | o :: rest => by
    have ih := started_sublist rest
    cases o with
    | popped id st =>
      cases st with
      | true => simpa [started, Out.poppedId] using ih
      | false =>
        simp only [started, List.filterMap_cons, Out.poppedId]
        exact List.Sublist.cons _ ih
    | id n => exact ih
    | ok => exact ih
    | notDue => exact ih
    | empty => exact ih
    | undefined => exact ih

/-- C12.at_most_once: no future is started twice, in any run. -/
theorem at_most_once (ops : List Op) : (started (run Heap.new ops).2).Nodup :=
  (started_sublist _).nodup (run_popped Heap.inv_new ops).1

/-- C12.cancel_before_due_never_starts: once Cancel(id) has run while the future was pending, the
future is never started by anything that follows. -/
theorem cancel_before_due_never_starts (ops1 ops2 : List Op) (id : Nat)
    (hp : id ∈ (run Heap.new ops1).1.arr) :
    id ∉ started ((run Heap.new (ops1 ++ [.cancel id] ++ ops2)).2.drop ops1.length) := by
  have I1 := run_inv Heap.inv_new ops1
  obtain ⟨h2, e, I2, p, d⟩ := cancel_in I1 hp
  have nd : (id :: h2.arr).Nodup := p.nodup_iff.2 I1.1.2.2.1
  have lt : id < h2.fut.length := by
    rw [clearF_fut_length _ id d]; exact I1.1.2.2.2.1 id hp
  rw [List.append_assoc, run_append]
  have l := run_length Heap.new ops1
  rw [← l, List.drop_left]
  show id ∉ started (run (run Heap.new ops1).1 (Op.cancel id :: ops2)).2
  rw [run_cons, e]
  show id ∉ started (run h2 ops2).2
  intro c
  have c' := (started_sublist _).subset c
  rcases (run_popped I2 ops2).2 id c' with x | x
  · exact (List.nodup_cons.1 nd).1 x
  · omega

example : (run Heap.new [.add 5, .add 3, .add 9, .add 1, .cancel 1, .popIfDue 2, .popIfDue 4, .rawPop]).2 =
    [.id 0, .id 1, .id 2, .id 3, .ok, .popped 3 true, .notDue, .popped 0 true] := by decide

end C12
