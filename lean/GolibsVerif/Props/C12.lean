import GolibsVerif.Lemmas.Tmo
/-
C12 — Timers: never early, at most once, cancel is effective and precise.
Every dispatcher operation (add, cancel, the watcher's pop) runs under one package lock, so any
concurrent use is some sequence `ops` of these critical sections (Lin.atomic_object, Props/Lin.lean);
the theorems quantify over ALL such sequences.
-/
namespace C12
open Tmo

/-- C12.idx_inv + heap_order: after any sequence of critical sections every future in the heap
knows its own index, every future outside has idx = −1, ids are distinct, the array is a heap,
and no container/heap loop ran out of fuel (no output is `undefined`). -/
theorem idx_inv (ops : List Op) :
    (run Heap.new ops).1.IdxInv ∧ (run Heap.new ops).1.Ordered ∧ Out.undefined ∉ (run Heap.new ops).2 :=
  sorry

/-- the root is a minimum: a future is popped by the watcher only if nothing pending fires earlier -/
theorem root_is_min (ops : List Op) :
    let h := (run Heap.new ops).1
    ∀ i, i < h.arr.length → h.fireAt 0 ≤ h.fireAt i :=
  sorry

/-- C12.cancel_removes_exactly: Cancel removes exactly that future (if it is still pending) and
nothing else: every other future keeps its membership, fire time and callback. Cancelling a
fired / already cancelled future changes nothing at all. -/
theorem cancel_removes_exactly (ops : List Op) (id : Nat) :
    let h := (run Heap.new ops).1
    let h' := (h.step (.cancel id)).1
    (h'.pending.Perm (h.pending.filter (·.1 ≠ id))) ∧
    (∀ j, j ≠ id → (h'.get j).map (fun f => (f.fireT, f.hasF)) = (h.get j).map (fun f => (f.fireT, f.hasF))) ∧
    (id ∉ h.arr → h' = h) :=
  sorry

/-- add inserts exactly one new pending future and touches no other -/
theorem add_inserts_exactly (ops : List Op) (t : Nat) :
    let h := (run Heap.new ops).1
    let r := h.step (.add t)
    r.2 = .id h.fut.length ∧ r.1.pending.Perm ((h.fut.length, t) :: h.pending) :=
  sorry

/-- C12.never_early: whenever the watcher section pops (= starts) a future at time `now`, that
future's fire time is strictly before `now`, and it was the pending future with the least fire time. -/
theorem never_early (ops : List Op) (now : Nat) (id : Nat) (st : Bool) :
    let h := (run Heap.new ops).1
    (h.step (.popIfDue now)).2 = .popped id st →
      (∃ f, h.get id = some f ∧ f.fireT < now ∧ f.hasF = true ∧ st = true ∧ id ∈ h.arr ∧
        ∀ p ∈ h.pending, f.fireT ≤ p.2) ∧
      id ∉ (h.step (.popIfDue now)).1.arr :=
  sorry

/-- ids started (popped with a callback) in a run, in order -/
def started : List Out → List Nat
  | [] => []
  | .popped id true :: rest => id :: started rest
  | _ :: rest => started rest

/-- C12.at_most_once: no future is started twice, in any run. -/
theorem at_most_once (ops : List Op) : (started (run Heap.new ops).2).Nodup :=
  sorry

/-- C12.cancel_before_due_never_starts: once Cancel(id) has run while the future was pending, the
future is never started by anything that follows. -/
theorem cancel_before_due_never_starts (ops1 ops2 : List Op) (id : Nat)
    (hp : id ∈ (run Heap.new ops1).1.arr) :
    id ∉ started ((run Heap.new (ops1 ++ [.cancel id] ++ ops2)).2.drop ops1.length) :=
  sorry

example : (run Heap.new [.add 5, .add 3, .add 9, .add 1, .cancel 1, .popIfDue 2, .popIfDue 4, .rawPop]).2 =
    [.id 0, .id 1, .id 2, .id 3, .ok, .popped 3 true, .notDue, .popped 0 true] := by decide

end C12
