import GolibsVerif.Lemmas.Waiters
/-
C07 — KV storage: WaitForVersionChange never misses or invents a change (in-memory backend).
Any number of waiters, keys and writers, every interleaving of the critical sections.
-/
namespace C07
open Waiters

/-- initial waiters: all about to start, none returned -/
def Fresh (ws : List W) : Prop := ∀ w ∈ ws, w.pc = .start

/-- C07.return_sound: a waiter returns nil only if at that critical section the key is live with a
different version, ErrNotExist only if it is absent (or expired), the context error only if its
context is done. -/
theorem return_sound (s t : St) (h : Step s t) (i : Nat) (w w' : W) (r : WRes)
    (hw : s.ws[i]? = some w) (hw' : t.ws[i]? = some w') (hn : ∀ r0, w.pc ≠ .returned r0) (hr : w'.pc = .returned r) :
    match r with
    | .nil => ∃ v, (live s w.key).2 = some v ∧ v ≠ w.ver
    | .notExist => (live s w.key).2 = none
    | .ctxErr => w.ctxDone = true :=
  sorry

/-- C07.no_lost_wakeup: a waiter parked on an open channel implies the record still exists with
exactly the version the waiter waits on and the channel is the key's current waiter record — so
every mutation of the key (which closes that channel) reaches it, and nothing else keeps it parked. -/
theorem no_lost_wakeup (ws : List W) (hf : Fresh ws) (s : St) (h : Reach ws s) (i : Nat) (w : W) (ch : Nat)
    (hw : s.ws[i]? = some w) (hp : w.pc = .parked ch) (ho : ch ∉ s.closed) :
    (∃ r, getRec s w.key = some r ∧ r.ver = w.ver) ∧ (∃ n, getEntry s w.key = some (ch, n)) :=
  sorry

/-- C07.table_exact: every waiter record counts exactly the waiters parked on its channel, is never
empty and never closed; hence the table is empty when no waiter is parked. -/
theorem table_exact (ws : List W) (hf : Fresh ws) (s : St) (h : Reach ws s) :
    (∀ e ∈ s.table, e.2.2 = parkedOn s e.2.1 ∧ 0 < e.2.2 ∧ e.2.1 ∉ s.closed) ∧
    (s.table.map (·.1)).Nodup ∧ (s.table.map (·.2.1)).Nodup :=
  sorry

theorem no_bookkeeping_left (ws : List W) (hf : Fresh ws) (s : St) (h : Reach ws s)
    (hq : ∀ w ∈ s.ws, ∀ ch, w.pc ≠ .parked ch) : s.table = [] :=
  sorry

/-- C07.cancel_isolated: a waiter that gives up closes the channel only if it was the last one
parked on the key's current record; every other waiter keeps its state. -/
theorem cancel_isolated (ws : List W) (hf : Fresh ws) (s : St) (h : Reach ws s) (i : Nat) (w : W) (ch : Nat)
    (hw : s.ws[i]? = some w) (hp : w.pc = .parked ch) (hd : w.ctxDone = true) :
    let t := setW (leave s w.key ch) i { w with pc := .returned .ctxErr }
    (∀ j, j ≠ i → t.ws[j]? = s.ws[j]?) ∧
    (∀ c, c ∈ t.closed → c ∉ s.closed → c = ch ∧ parkedOn t ch = 0) ∧ t.recs = s.recs :=
  sorry

/-- a parked waiter whose condition has come true can always proceed: its channel is closed -/
theorem wake_enabled (ws : List W) (hf : Fresh ws) (s : St) (h : Reach ws s) (i : Nat) (w : W) (ch : Nat)
    (hw : s.ws[i]? = some w) (hp : w.pc = .parked ch)
    (hc : getRec s w.key = none ∨ ∃ r, getRec s w.key = some r ∧ r.ver ≠ w.ver) : ch ∈ s.closed :=
  sorry

end C07
