import GolibsVerif.Lemmas.Waiters
/-
C07 — KV storage: WaitForVersionChange never misses or invents a change (in-memory backend).
Any number of waiters, keys and writers, every interleaving of the critical sections.
-/
namespace C07
open Waiters

/-- initial waiters: all about to start, none returned -/
def Fresh (ws : List W) : Prop := ∀ w ∈ ws, w.pc = .start

/-- C07.return_sound: a waiter returns nil only if at that critical section the key is live with a
different version, ErrNotExist only if it is absent (or expired), the context error only if its
context is done. -/
theorem return_sound (s t : St) (h : Step s t) (i : Nat) (w w' : W) (r : WRes)
    (hw : s.ws[i]? = some w) (hw' : t.ws[i]? = some w') (hn : ∀ r0, w.pc ≠ .returned r0) (hr : w'.pc = .returned r) :
    match r with
    | .nil => ∃ v, (live s w.key).2 = some v ∧ v ≠ w.ver
    | .notExist => (live s w.key).2 = none
    | .ctxErr => w.ctxDone = true := by
  have key : ∀ (i0 : Nat) (w0 w0' : W), s.ws[i0]? = some w0 →
      (∀ j, t.ws[j]? = if j = i0 then some w0' else s.ws[j]?) → i = i0 ∧ w = w0 ∧ w' = w0' := by
    intro i0 w0 w0' h0 hg
    by_cases hii : i = i0
    · subst hii
      rw [hg, if_pos rfl] at hw'
      rw [h0] at hw
      cases hw; cases hw'
      exact ⟨rfl, rfl, rfl⟩
    · rw [hg, if_neg hii, hw] at hw'
      cases hw'
      exact absurd hr (hn r)
  have same : t.ws = s.ws → False := fun h => by
    rw [h, hw] at hw'; cases hw'; exact hn r hr
  cases h with
  | check i0 w0 hw0 hp0 =>
    obtain ⟨w0', hg, hres⟩ := check_obs s i0 w0 hw0
    obtain ⟨rfl, rfl, rfl⟩ := key i0 w0 w0' hw0 hg
    have := hres r hr
    cases r <;> simp_all
  | wake i0 w0 ch hw0 hp0 hc =>
    obtain ⟨rfl, rfl, rfl⟩ := key i0 w0 _ hw0 (fun j => setW_get s i0 j w0 _ hw0)
    simp at hr
  | cancelled i0 w0 ch hw0 hp0 hd =>
    have hw1 : (leave s w0.key ch).ws[i0]? = some w0 := by simpa using hw0
    obtain ⟨rfl, rfl, rfl⟩ := key i0 w0 { w0 with pc := .returned .ctxErr } hw0
      (fun j => by simpa using setW_get _ i0 j w0 { w0 with pc := .returned .ctxErr } hw1)
    simp at hr; subst hr; exact hd
  | timer i0 w0 ch hw0 hp0 =>
    have hw1 : (leave s w0.key ch).ws[i0]? = some w0 := by simpa using hw0
    obtain ⟨rfl, rfl, rfl⟩ := key i0 w0 { w0 with pc := .start } hw0
      (fun j => by simpa using setW_get _ i0 j w0 { w0 with pc := .start } hw1)
    simp at hr
  | write k => exact (same (by simp)).elim
  | delete k r0 hr0 => exact (same (by simp)).elim
  | touch k => exact (same (live_ws s k)).elim
  | expire k r0 hr0 => exact (same rfl).elim
  | ctxCancel i0 w0 hw0 =>
    obtain ⟨rfl, rfl, rfl⟩ := key i0 w0 _ hw0 (fun j => setW_get s i0 j w0 _ hw0)
    exact absurd hr (hn r)

/-- C07.no_lost_wakeup: a waiter parked on an open channel implies the record still exists with
exactly the version the waiter waits on and the channel is the key's current waiter record — so
every mutation of the key (which closes that channel) reaches it, and nothing else keeps it parked. -/
theorem no_lost_wakeup (ws : List W) (hf : Fresh ws) (s : St) (h : Reach ws s) (i : Nat) (w : W) (ch : Nat)
    (hw : s.ws[i]? = some w) (hp : w.pc = .parked ch) (ho : ch ∉ s.closed) :
    (∃ r, getRec s w.key = some r ∧ r.ver = w.ver) ∧ (∃ n, getEntry s w.key = some (ch, n)) :=
  (Inv.reach hf h).park i w ch hw hp ho

/-- C07.table_exact: every waiter record counts exactly the waiters parked on its channel, is never
empty and never closed; hence the table is empty when no waiter is parked. -/
theorem table_exact (ws : List W) (hf : Fresh ws) (s : St) (h : Reach ws s) :
    (∀ e ∈ s.table, e.2.2 = parkedOn s e.2.1 ∧ 0 < e.2.2 ∧ e.2.1 ∉ s.closed) ∧
    (s.table.map (·.1)).Nodup ∧ (s.table.map (·.2.1)).Nodup := by
  have hi := Inv.reach hf h
  exact ⟨fun e he => hi.tex e.1 e.2.1 e.2.2 (hi.mem_table he), hi.tkeys, hi.chs_nodup⟩

theorem no_bookkeeping_left (ws : List W) (hf : Fresh ws) (s : St) (h : Reach ws s)
    (hq : ∀ w ∈ s.ws, ∀ ch, w.pc ≠ .parked ch) : s.table = [] := by
  have hi := Inv.reach hf h
  cases ht : s.table with
  | nil => rfl
  | cons e l =>
    have he : e ∈ s.table := by simp [ht]
    have h1 := hi.tex e.1 e.2.1 e.2.2 (hi.mem_table he)
    obtain ⟨w, hw, hp⟩ := exists_of_parkedOn_pos s e.2.1 (by omega)
    exact absurd hp (hq w hw _)

/-- C07.cancel_isolated: a waiter that gives up closes the channel only if it was the last one
parked on the key's current record; every other waiter keeps its state. -/
theorem cancel_isolated (ws : List W) (hf : Fresh ws) (s : St) (h : Reach ws s) (i : Nat) (w : W) (ch : Nat)
    (hw : s.ws[i]? = some w) (hp : w.pc = .parked ch) (hd : w.ctxDone = true) :
    let t := setW (leave s w.key ch) i { w with pc := .returned .ctxErr }
    (∀ j, j ≠ i → t.ws[j]? = s.ws[j]?) ∧
    (∀ c, c ∈ t.closed → c ∉ s.closed → c = ch ∧ parkedOn t ch = 0) ∧ t.recs = s.recs := by
  have hi := Inv.reach hf h
  have hw1 : (leave s w.key ch).ws[i]? = some w := by simpa using hw
  refine ⟨?_, ?_, by simp⟩
  · intro j hj
    have := setW_get _ i j w { w with pc := .returned .ctxErr } hw1
    simpa [hj] using this
  · intro c hc hnc
    have hpk := parkedOn_setW (leave s w.key ch) i w { w with pc := .returned .ctxErr } ch hw1
    rw [parkedOn_congr s (leave s w.key ch) (leave_ws s w.key ch) ch] at hpk
    simp only [hp, if_true] at hpk
    rcases leave_cases s w.key ch with ⟨_, hl⟩ | ⟨n, hen, hn, hl⟩ | ⟨n, hen, hn, hl⟩
    · rw [hl] at hc; exact absurd hc hnc
    · have hex := hi.tex _ _ _ hen
      rw [hl] at hc
      simp only [setW_closed, List.mem_cons] at hc
      rcases hc with rfl | hc
      · refine ⟨rfl, ?_⟩
        simp at hpk
        omega
      · exact absurd hc hnc
    · rw [hl] at hc; exact absurd hc hnc

/-- a parked waiter whose condition has come true can always proceed: its channel is closed -/
theorem wake_enabled (ws : List W) (hf : Fresh ws) (s : St) (h : Reach ws s) (i : Nat) (w : W) (ch : Nat)
    (hw : s.ws[i]? = some w) (hp : w.pc = .parked ch)
    (hc : getRec s w.key = none ∨ ∃ r, getRec s w.key = some r ∧ r.ver ≠ w.ver) : ch ∈ s.closed := by
  apply Classical.byContradiction
  intro ho
  obtain ⟨⟨r, hr, hv⟩, _⟩ := (Inv.reach hf h).park i w ch hw hp ho
  rcases hc with hc | ⟨r', hr', hv'⟩
  · rw [hc] at hr; cases hr
  · rw [hr'] at hr; cases hr; exact hv' hv

end C07
