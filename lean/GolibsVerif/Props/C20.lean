import GolibsVerif.Lemmas.Zip
/-
C20 — Zip helpers: lossless round trip and extraction confined to target.
-/
namespace C20
open Zip

/-- `dest` is a cleaned absolute path -/
def CleanPath (p : Path) : Prop := ∀ s ∈ p, validSeg s = true

/-- C20.confined: for ANY archive whatsoever (arbitrary entry names: `..` segments, absolute names,
empty names, clashes), every file and directory UnzipToFolder creates lies inside the destination. -/
theorem confined (dest : Path) (entries : List Entry) :
    let r := unzip dest FS.empty entries
    (∀ f ∈ r.1.files, inside dest f.1 = true ∧ f.1 ≠ dest) ∧ (∀ d ∈ r.1.dirs, inside dest d = true) :=
  unzip_confined dest entries FS.empty (confined_empty dest)

/-- an entry whose cleaned target leaves the destination is rejected, and nothing after it is written -/
theorem escaping_entry_rejected (dest : Path) (fs : FS) (e : Entry)
    (hd : e.isDirEntry = false) (he : inside dest (target dest e.name) = false) :
    unzipOne dest fs e = (fs, some .escapes) :=
  unzipOne_escapes hd he

/-- regression witness (D11): the pre-repair code writes `../escaped.txt` outside the destination -/
theorem legacy_escapes :
    unzipOneLegacy ["tmp", "dest"] FS.empty { name := ["..", "escaped.txt"], content := "x" } =
      ({ files := [(["tmp", "escaped.txt"], "x")], dirs := [["tmp"]] }, none) := by
  decide

/-- lexical cleaning never leaves the root and returns a clean path -/
theorem cleanAbs_clean (segs : List String) : ∀ s ∈ cleanAbs segs, s ≠ "" ∧ s ≠ "." ∧ s ≠ ".." := by
  rw [cleanAbs_eq_foldl]
  exact foldl_cleanStep_clean segs [] (by simp)

/-- the target of an entry produced by ZipFolder is destination ++ relative path -/
theorem target_of_entryName (dest : Path) (hd : CleanPath dest) (rel : List String)
    (hr : ∀ s ∈ rel, validSeg s = true) : target dest (entryName rel) = dest ++ rel :=
  target_entryName dest hd rel hr

/-- C20.roundtrip: ZipFolder followed by UnzipToFolder into an empty destination reproduces every
selected regular file — relative path and content — and nothing else, without error. -/
theorem roundtrip (dest : Path) (hd : CleanPath dest) (tree : List TFile) (hw : TreeWF tree)
    (keep : List String → Bool) (recursive : Bool) :
    let r := unzip dest FS.empty (zipFolder tree keep recursive)
    r.2 = none ∧
    r.1.files.Perm ((selected tree keep recursive).map fun f => (dest ++ f.rel, f.content)) := by
  intro r
  obtain ⟨fs', h1, h2⟩ := unzip_zipFolder hd hw keep recursive
  have hr : r = (fs', none) := h1
  rw [hr]
  exact ⟨rfl, by rw [h2]⟩

example : (unzip ["d"] FS.empty [{ name := ["", "a", "b.txt"], content := "1" }, { name := ["..", "x"], content := "2" }, { name := ["c"], content := "3" }]) =
    ({ files := [(["d", "a", "b.txt"], "1")], dirs := [["d", "a"]] }, some .escapes) := by
  decide

end C20
