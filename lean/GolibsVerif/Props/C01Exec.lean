import GolibsVerif.Model.LockExec
import GolibsVerif.Lemmas.LockExec
import GolibsVerif.Props.C01
import GolibsVerif.Props.C04
/-
Soundness of the trace-replay interpreter (tie "T"): whatever the driver accepts is an execution
of `Lock.Step` (with faults, under the lease assumption), so every theorem about `Reach` applies to
every state the driver passes through while replaying a trace of the REAL kvsLock goroutines.
-/
namespace C01Exec
open Lock Lock.Exec

/-- one accepted event = a finite sequence of model steps -/
theorem handle_sound (c : Cfg) (s t : St) (e : Event) (h : handle c s e = some t) : Steps c s t :=
  handle_sound' c h

theorem steps_reach (c : Cfg) (s t : St) (hr : Reach c false true s) (h : Steps c s t) : Reach c false true t :=
  steps_reach' c hr h

/-- an accepted trace from the initial state ends in a reachable state -/
theorem replay_reach (c : Cfg) (es : List Event) (t : St) (h : replay c St.init es = some t) :
    Reach c false true t :=
  replay_reach' c es Reach.init h

/-- hence mutual exclusion holds in every state the driver reaches -/
theorem replay_mutex (c : Cfg) (es : List Event) (t : St) (h : replay c St.init es = some t) (g₁ g₂ : G)
    (h₁ : t.holds g₁ = true) (h₂ : t.holds g₂ = true) : g₁ = g₂ :=
  C01.mutex c true t (replay_reach c es t h) g₁ g₂ h₁ h₂

/-- the executable lease guard is the lease assumption -/
theorem mayExpireB_iff (s : St) : mayExpireB s = true ↔ mayExpire s :=
  mayExpireB_iff' s

end C01Exec
