import GolibsVerif.Model.LruConcExec
import GolibsVerif.Lemmas.LruConcExec
/-
Soundness of the C09 trace-replay interpreter: accepted traces are executions of `Lru.Conc.Step`.
-/
namespace C09Exec
open Lru Lru.Conc Lru.Conc.Exec

theorem handle_sound (cap : Nat) (km : Nat → Nat) (s t : St) (e : Event) (h : handle cap km s e = some t) :
    Steps cap km s t := by
  cases e with
  | call i op => exact Steps.single (xCall_step cap km h)
  | ret i => exact Steps.single (xRet_step cap km h)
  | sec1 i => exact Steps.single (xGocSec1_step cap km h)
  | createBegin i => exact Steps.single (xCreateBegin_step cap km h)
  | createEnd i res => exact Steps.single (xCreateEnd_step cap km h)
  | sec2 i =>
    simp only [handle] at h
    split at h
    · next _ k _ _ =>
      cases hp : xPublish cap s i with
      | none => rw [hp] at h; cases h
      | some u =>
        rw [hp] at h
        simp only [Option.map_some, Option.some.injEq] at h
        subst h
        exact Steps.cons (xPublish_step cap km hp) (wakeAll_steps cap km k _ u)
    · cases h
  | secRm i => exact Steps.single (xRemove_step cap km h)
  | secClr i => exact Steps.single (xClear_step cap km h)

theorem replay_steps (cap : Nat) (km : Nat → Nat) (es : List Event) (s t : St)
    (h : replay cap km s es = some t) : Steps cap km s t := by
  induction es generalizing s with
  | nil => simp only [replay, Option.some.injEq] at h; subst h; exact Steps.refl s
  | cons e es ih =>
    simp only [replay] at h
    cases hh : handle cap km s e with
    | none => rw [hh] at h; cases h
    | some u =>
      rw [hh] at h
      exact Steps.trans (handle_sound cap km s u e hh) (ih u h)

theorem replay_reach (cap : Nat) (km : Nat → Nat) (n : Nat) (es : List Event) (t : St)
    (h : replay cap km (St.init n) es = some t) : Reach cap km n t :=
  Steps.reach (replay_steps cap km es (St.init n) t h) Reach.init

end C09Exec
