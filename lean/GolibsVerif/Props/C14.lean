import GolibsVerif.Lemmas.Ring
/-
C14 — Ring buffer is a bounded FIFO queue for every call sequence.
Only the property theorems live here; helper lemmas are in Lemmas/Ring.lean.
-/
namespace C14
open Ring

/-- Representation invariant: indices in range and every slot outside the live window is zero. -/
def Inv (b : RB) : Prop := b.WF ∧ b.Clean

theorem new_inv (size : Nat) : Inv (RB.new size) ∧ (RB.new size).abs = { cap := size, items := [] } := by
  have hn : (RB.new size).n = size + 1 := by simp [RB.new, RB.n]
  have hl : (RB.new size).len = 0 := by simp [RB.new, RB.len]
  refine ⟨⟨?_, ?_⟩, ?_⟩
  · unfold RB.WF; rw [hn]; simp [RB.new]
  · intro i hi _
    rw [hn] at hi
    simp [RB.new, List.getD_eq_getElem?_getD, hi]
  · simp [RB.abs, RB.cap, hn, toList_nil_of_len _ hl]

theorem step_write (b : RB) (v : Nat) (h : Inv b) :
    (b.step (.write v)).2 = (b.abs.step (.write v)).2 ∧
    (b.step (.write v)).1.abs = (b.abs.step (.write v)).1 ∧ Inv (b.step (.write v)).1 := by
  obtain ⟨hwf, hc⟩ := h
  simp only [RB.step, write_eq, Q.step, RB.abs, toList_length]
  by_cases hne : b.len = b.cap
  · simp only [hne, if_true]
    exact ⟨(by trivial), (by trivial), hwf, hc⟩
  · simp only [hne, if_false]
    exact ⟨(by trivial), abs_eq b _ _ (push_n b v) (push_toList b v hwf hne),
      push_WF b v hwf, push_Clean b v hwf hc hne⟩

theorem step_read (b : RB) (h : Inv b) :
    (b.step .read).2 = (b.abs.step .read).2 ∧
    (b.step .read).1.abs = (b.abs.step .read).1 ∧ Inv (b.step .read).1 := by
  obtain ⟨hwf, hc⟩ := h
  simp only [RB.step, read_eq, Q.step, RB.abs]
  by_cases hl : b.len = 0
  · simp only [hl, if_true, toList_nil_of_len b hl]
    exact ⟨(by trivial), (by trivial), hwf, hc⟩
  · have hpos : 0 < b.len := by omega
    have h2 : b.r + 1 ≤ b.n := by unfold RB.WF at hwf; omega
    simp only [hl, if_false]
    rw [toList_cons b hwf hpos]
    exact ⟨(by trivial), abs_eq b _ _ (consume_n b 1) (by trivial),
      consume_WF b 1 hwf h2, consume_Clean b 1 hwf hc hpos h2⟩

theorem step_readN (b : RB) (k : Nat) (h : Inv b) :
    (b.step (.readN k)).2 = (b.abs.step (.readN k)).2 ∧
    (b.step (.readN k)).1.abs = (b.abs.step (.readN k)).1 ∧ Inv (b.step (.readN k)).1 := by
  obtain ⟨hwf, hc⟩ := h
  obtain ⟨b', he, hwf', hc', ht', hn'⟩ := readNLoop_spec loopFuel b k [] hwf hc (rmeas_lt b k)
  simp only [RB.step, he, Q.step, RB.abs, List.nil_append]
  exact ⟨(by trivial), abs_eq b _ _ hn' ht', hwf', hc'⟩

theorem step_skip (b : RB) (n : Int) (h : Inv b) :
    (b.step (.skip n)).2 = (b.abs.step (.skip n)).2 ∧
    (b.step (.skip n)).1.abs = (b.abs.step (.skip n)).1 ∧ Inv (b.step (.skip n)).1 := by
  obtain ⟨hwf, hc⟩ := h
  obtain ⟨b', he, hwf', hc', ht', hn'⟩ := skipLoop_spec loopFuel b n 0 hwf hc (smeas_lt b n)
  simp only [RB.step, he, Q.step, RB.abs, toList_length, Nat.zero_add]
  exact ⟨(by trivial), abs_eq b _ _ hn' ht', hwf', hc'⟩

theorem step_clear (b : RB) (h : Inv b) :
    (b.step .clear).2 = (b.abs.step .clear).2 ∧
    (b.step .clear).1.abs = (b.abs.step .clear).1 ∧ Inv (b.step .clear).1 := by
  obtain ⟨hwf, hc⟩ := h
  obtain ⟨b', he, hwf', hc', ht', hn'⟩ :=
    skipLoop_spec loopFuel b (b.len : Int) 0 hwf hc (smeas_lt b _)
  have hm : min (b.len : Int).toNat b.len = b.len := by omega
  rw [hm] at he ht'
  have hd : b.toList.drop b.len = [] := by
    apply List.drop_eq_nil_of_le; rw [toList_length]; omega
  rw [hd] at ht'
  simp only [RB.step, he, Q.step, RB.abs]
  exact ⟨(by trivial), abs_eq b _ _ hn' ht', hwf', hc'⟩

theorem step_at (b : RB) (i : Int) (h : Inv b) :
    (b.step (.at i)).2 = (b.abs.step (.at i)).2 ∧
    (b.step (.at i)).1.abs = (b.abs.step (.at i)).1 ∧ Inv (b.step (.at i)).1 := by
  obtain ⟨hwf, hc⟩ := h
  simp only [RB.step, RB.at, Q.step, RB.abs, toList_length]
  by_cases hi : i < 0 ∨ i ≥ (b.len : Int)
  · simp only [hi, if_true]
    exact ⟨(by trivial), (by trivial), hwf, hc⟩
  · simp only [hi, if_false]
    rw [toList_getD b hwf i.toNat (by omega)]
    exact ⟨(by trivial), (by trivial), hwf, hc⟩

/-- One API call: same output as the bounded queue, the abstraction commutes, the invariant
(including "consumed slots are zero") is kept, and no loop runs out of fuel. -/
theorem step_refines (b : RB) (op : Op) (h : Inv b) :
    (b.step op).2 = (b.abs.step op).2 ∧ (b.step op).1.abs = (b.abs.step op).1 ∧ Inv (b.step op).1 := by
  cases op with
  | write v => exact step_write b v h
  | read => exact step_read b h
  | readN k => exact step_readN b k h
  | skip n => exact step_skip b n h
  | «at» i => exact step_at b i h
  | clear => exact step_clear b h
  | len => exact ⟨by simp [RB.step, Q.step, RB.abs, toList_length], rfl, h⟩
  | cap => exact ⟨rfl, rfl, h⟩

/-- general form of the lifting to call sequences -/
theorem run_refines (ops : List Op) : ∀ (b : RB), Inv b →
    (runI b ops).2 = (runS b.abs ops).2 ∧ Inv (runI b ops).1 := by
  induction ops with
  | nil => intro b h; exact ⟨rfl, h⟩
  | cons op ops ih =>
    intro b h
    obtain ⟨h1, h2, h3⟩ := step_refines b op h
    obtain ⟨i1, i2⟩ := ih (b.step op).1 h3
    simp only [runI, runS]
    rw [h2] at i1
    exact ⟨by rw [h1, i1], i2⟩

/-- C14.refines_queue: for every capacity (0 included) and every call sequence the I-model's
outputs are those of the bounded FIFO queue. -/
theorem refines_queue (size : Nat) (ops : List Op) :
    (runI (RB.new size) ops).2 = (runS { cap := size, items := [] } ops).2 := by
  have h := new_inv size
  rw [← h.2]
  exact (run_refines ops _ h.1).1

/-- C14.wf / consumed_slots_zero: after any call sequence the representation is well formed and
every slot outside the live window holds the zero value. -/
theorem consumed_slots_zero (size : Nat) (ops : List Op) :
    Inv (runI (RB.new size) ops).1 :=
  (run_refines ops _ (new_inv size).1).2

/-- no call ever diverges or disagrees on panics: `At` panics exactly when out of range -/
theorem at_panics_iff (size : Nat) (ops : List Op) (i : Int) :
    let b := (runI (RB.new size) ops).1
    (b.step (.at i)).2 = .panic ↔ (i < 0 ∨ i ≥ (b.len : Int)) := by
  intro b
  simp only [RB.step, RB.at]
  by_cases hi : i < 0 ∨ i ≥ (b.len : Int)
  · simp [hi]
  · simp [hi]

/-- the Spec facts the property statement lists, read off the queue -/
theorem write_exhausted_iff (q : Q) (v : Nat) : (q.step (.write v)).2 = .errExhausted ↔ q.items.length = q.cap := by
  simp only [Q.step]
  by_cases h : q.items.length = q.cap
  · simp [h]
  · simp [h]
theorem read_eof_iff (q : Q) : (q.step .read).2 = .eof ↔ q.items = [] := by
  simp only [Q.step]
  cases q.items with
  | nil => simp
  | cons x xs => simp

/-- the abstraction commutes with whole call sequences, not only with the outputs -/
theorem run_abs (ops : List Op) : ∀ (b : RB), Inv b →
    (runI b ops).1.abs = (runS b.abs ops).1 := by
  induction ops with
  | nil => intro b _; rfl
  | cons op ops ih =>
    intro b h
    obtain ⟨_, h2, h3⟩ := step_refines b op h
    have i1 := ih (b.step op).1 h3
    simp only [runI, runS]
    rw [h2] at i1
    exact i1

/-- one queue call keeps the capacity and never stores more than `cap` elements -/
theorem q_step_bounded (q : Q) (op : Op) (h : q.items.length ≤ q.cap) :
    (q.step op).1.cap = q.cap ∧ (q.step op).1.items.length ≤ q.cap := by
  cases op with
  | write v =>
    simp only [Q.step]
    by_cases hc : q.items.length = q.cap
    · simp [hc]
    · simp [hc]; omega
  | read =>
    simp only [Q.step]
    cases hq : q.items with
    | nil => simp; exact h
    | cons x xs => simp [hq] at h ⊢; omega
  | readN k => simp [Q.step]; omega
  | skip n => simp [Q.step]; omega
  | «at» i =>
    simp only [Q.step]
    by_cases hi : i < 0 ∨ i ≥ (q.items.length : Int)
    · simp [hi, h]
    · simp [hi, h]
  | clear => simp [Q.step]
  | len => simp [Q.step, h]
  | cap => simp [Q.step, h]

theorem q_run_bounded (ops : List Op) : ∀ (q : Q), q.items.length ≤ q.cap →
    (runS q ops).1.cap = q.cap ∧ (runS q ops).1.items.length ≤ q.cap := by
  induction ops with
  | nil => intro q h; exact ⟨rfl, h⟩
  | cons op ops ih =>
    intro q h
    obtain ⟨h1, h2⟩ := q_step_bounded q op h
    have i := ih (q.step op).1 (by rw [h1]; exact h2)
    simp only [runS]
    rw [h1] at i
    exact i

/-- C14.bounded: after any call sequence on a buffer of capacity `size`, `Cap()` is still `size`
and `Len()` never exceeds it — "bounded" holds of the implementation model, not only of the spec. -/
theorem bounded (size : Nat) (ops : List Op) :
    (runI (RB.new size) ops).1.cap = size ∧ (runI (RB.new size) ops).1.len ≤ size := by
  have h := new_inv size
  have ha := run_abs ops _ h.1
  rw [h.2] at ha
  have hb := q_run_bounded ops { cap := size, items := [] } (by simp)
  rw [← ha] at hb
  simpa [RB.abs, toList_length] using hb

/-- C14.never_diverges: no call of any sequence runs a loop out of fuel, and only `At` can panic. -/
theorem never_diverges (size : Nat) (ops : List Op) :
    Out.diverge ∉ (runI (RB.new size) ops).2 := by
  rw [refines_queue]
  generalize ({ cap := size, items := [] } : Q) = q
  induction ops generalizing q with
  | nil => simp [runS]
  | cons op ops ih =>
    simp only [runS, List.mem_cons, not_or]
    refine ⟨?_, ih _⟩
    cases op <;> simp only [Q.step] <;> (try split) <;> simp

/-! ### the FIFO law read off the refinement -/

theorem runS_append (q : Q) (a b : List Op) :
    runS q (a ++ b) = ((runS (runS q a).1 b).1, (runS q a).2 ++ (runS (runS q a).1 b).2) := by
  induction a generalizing q with
  | nil => simp [runS]
  | cons op a ih => simp only [List.cons_append, runS, ih]

theorem q_writes (vs : List Nat) : ∀ (q : Q), q.items.length + vs.length ≤ q.cap →
    runS q (vs.map Op.write) = ({ q with items := q.items ++ vs }, vs.map fun _ => Out.ok) := by
  induction vs with
  | nil => intro q _; simp [runS]
  | cons v vs ih =>
    intro q h
    simp only [List.length_cons] at h
    have hne : ¬ q.items.length = q.cap := by omega
    simp only [List.map_cons, runS, Q.step, if_neg hne]
    rw [ih { q with items := q.items ++ [v] } (by simp; omega)]
    simp

theorem q_reads (xs : List Nat) : ∀ (q : Q), q.items = xs →
    runS q (List.replicate xs.length Op.read) = ({ q with items := [] }, xs.map Out.val) := by
  induction xs with
  | nil => intro q h; cases q; simp only at h; subst h; simp [runS]
  | cons x xs ih =>
    intro q h
    simp only [List.length_cons, List.replicate_succ, runS, Q.step, h]
    rw [ih { q with items := xs } rfl]
    simp

/-- C14.fifo, stated outright: on a fresh buffer of capacity `size`, any `n ≤ size` writes all succeed
and the next `n` reads return exactly the written values in the order written. -/
theorem fifo (size : Nat) (vs : List Nat) (h : vs.length ≤ size) :
    (runI (RB.new size) (vs.map Op.write ++ List.replicate vs.length Op.read)).2 =
      (vs.map fun _ => Out.ok) ++ vs.map Out.val := by
  rw [refines_queue, runS_append, q_writes vs _ (by simpa using h)]
  simp only [List.nil_append]
  rw [q_reads vs _ rfl]

/-- C14.overflow_rejected: the write after `size` successful writes is refused with ErrExhausted -/
theorem overflow_rejected (size : Nat) (vs : List Nat) (v : Nat) (h : vs.length = size) :
    (runI (RB.new size) (vs.map Op.write ++ [Op.write v])).2 = (vs.map fun _ => Out.ok) ++ [Out.errExhausted] := by
  rw [refines_queue, runS_append, q_writes vs _ (by simp [h])]
  simp [runS, Q.step, h]

/-- non-vacuity: a reachable wrapped state satisfies the invariant's premises -/
example : (runI (RB.new 2) [.write 1, .write 2, .read, .write 3, .read]).1 = { buf := [0, 0, 3], r := 2, w := 0 } := by
  decide

end C14
