import GolibsVerif.Lemmas.RedisWait
/-
C07 (Redis backend) — `WaitForVersionChange` of kvs/redis/redis.go, which POLLS the key
(model: `RedisWait`, GolibsVerif/Model/RedisWait.lean).

  * the verdicts are sound and complete at every poll (`verdict_sound`, `poll_complete`,
    `sleeping_means_unchanged`);
  * a waiter never touches the server: there is no waiter table, nothing to clean up, nobody to disturb
    (`waiters_read_only`, `cancel_isolated`, `env_keeps_waiters`, `server_oblivious_to_waiters`);
  * versions are never reused (`reachable_inv`), so a change the waiter is entitled to see never
    disappears again (`change_is_permanent`) and the FIRST poll after the change returns, whatever writers,
    deleters, expiries, other waiters and cancellations do in between
    (`next_poll_returns`, `returns_at_first_poll_after_change`): the call is late by at most one sleep;
  * a cancelled waiter returns the context's error at its next step (`cancelled_returns`).

Not modelled: the length of the sleeps (2 … 64 ms), Redis failures other than the done context, the
network.  `Res` (the result of the call) has exactly the three values `waitNil`, `errNotExist`, `ctxErr`:
that no other result is possible is a fact of the model's typing (redis.go additionally passes through
any error of the GET; a broken connection is outside the model).
-/
namespace C07Redis
open Kv RedisWait

/-- every reachable state satisfies the version invariant: stored versions, and the versions pending
waiters hold, were all handed out already (are below `nextVer`) -/
theorem reachable_inv {n : Nat} {es : List Ev} {s : St} (hr : run (St.init n) es = some s) : VerInv s :=
  VerInv.run es (VerInv.init n) hr

/-- sizes never change: there are exactly `n` waiters and `n` context flags -/
theorem reachable_sizes {n : Nat} {es : List Ev} {s : St} (hr : run (St.init n) es = some s) :
    s.w.length = n ∧ s.ctxDone.length = n :=
  run_lengths es hr

/-- C07Redis.verdict_sound: whenever a step of waiter i (its GET, or its wake-up by the context) fixes
the result `r` of the call, `r` is justified by the state the step was taken in:
nil — the key is visible with another version; ErrNotExist — the key is not visible (absent or
expired); the context's error — the context is done.  (In the first two cases the context was live.) -/
theorem verdict_sound {s s' : St} {i : Nat} {r : Res}
    (h : step s (.poll i) = some s' ∨ step s (.wakeCtx i) = some s')
    (hd : s'.w[i]? = some (.done r)) :
    match r with
    | .waitNil => ∃ k ver rc, (s.w[i]? = some (.polling k ver) ∨ s.w[i]? = some (.sleeping k ver)) ∧
        s.ctxDone[i]? ≠ some true ∧ s.srv.live s.now k = some rc ∧ rc.ver ≠ ver
    | .errNotExist => ∃ k ver, (s.w[i]? = some (.polling k ver) ∨ s.w[i]? = some (.sleeping k ver)) ∧
        s.ctxDone[i]? ≠ some true ∧ s.srv.live s.now k = none
    | .ctxErr => s.ctxDone[i]? = some true := by
  rcases h with h | h
  · obtain ⟨k, ver, hw, rfl⟩ := step_poll h
    have hsome : ∃ b, s.w[i]? = some b := by rcases hw with h0 | h0 <;> exact ⟨_, h0⟩
    obtain ⟨b, hb⟩ := hsome
    simp only [get_set_self hb] at hd
    rcases verdict_cases s i k ver with ⟨hv, hc⟩ | ⟨hc, ⟨hv, hl⟩ | ⟨rc, hv, hl, hne⟩ | ⟨rc, hv, _⟩⟩
    · rw [hv] at hd; cases hd; exact hc
    · rw [hv] at hd; cases hd; exact ⟨k, ver, hw, hc, hl⟩
    · rw [hv] at hd; cases hd; exact ⟨k, ver, rc, hw, hc, hl, hne⟩
    · rw [hv] at hd; cases hd
  · obtain ⟨k, ver, hw, hc, rfl⟩ := step_wake h
    simp only [get_set_self hw] at hd
    cases hd
    exact hc

/-- C07Redis.poll_complete: with a live context, a GET of a pending waiter is always possible and
yields EXACTLY the verdict determined by the record visible now: absent — ErrNotExist; another
version — nil; the same version — back to sleep. -/
theorem poll_complete {s : St} {i : Nat} {k : String} {ver : Nat}
    (hw : s.w[i]? = some (.polling k ver) ∨ s.w[i]? = some (.sleeping k ver))
    (hc : s.ctxDone[i]? ≠ some true) :
    ∃ s', step s (.poll i) = some s' ∧
      s'.w[i]? = some (match s.srv.live s.now k with
        | none => .done .errNotExist
        | some rc => if rc.ver ≠ ver then .done .waitNil else .sleeping k ver) := by
  refine ⟨_, step_poll_of_waits hw, ?_⟩
  have hsome : ∃ b, s.w[i]? = some b := by rcases hw with h0 | h0 <;> exact ⟨_, h0⟩
  obtain ⟨b, hb⟩ := hsome
  simp only [get_set_self hb, verdict, hc, if_false]
  cases s.srv.live s.now k <;> rfl

/-- C07Redis.sleeping_means_unchanged: a GET that sends the waiter (back) to sleep saw the key with
exactly the version the caller holds (and a live context): the waiter never sleeps through a change
that is visible AT the poll. -/
theorem sleeping_means_unchanged {s s' : St} {i : Nat} {k : String} {ver : Nat}
    (h : step s (.poll i) = some s') (hs : s'.w[i]? = some (.sleeping k ver)) :
    (s.w[i]? = some (.polling k ver) ∨ s.w[i]? = some (.sleeping k ver)) ∧
    s.ctxDone[i]? ≠ some true ∧ ∃ rc, s.srv.live s.now k = some rc ∧ rc.ver = ver := by
  obtain ⟨k0, ver0, hw, rfl⟩ := step_poll h
  have hsome : ∃ b, s.w[i]? = some b := by rcases hw with h0 | h0 <;> exact ⟨_, h0⟩
  obtain ⟨b, hb⟩ := hsome
  simp only [get_set_self hb] at hs
  rcases verdict_cases s i k0 ver0 with ⟨hv, _⟩ | ⟨hc, ⟨hv, _⟩ | ⟨rc, hv, _⟩ | ⟨rc, hv, hl, he⟩⟩
  · rw [hv] at hs; cases hs
  · rw [hv] at hs; cases hs
  · rw [hv] at hs; cases hs
  · rw [hv] at hs; cases hs; exact ⟨hw, hc, rc, hl, he⟩

/-- C07Redis.waiters_read_only: no step of a waiter (`start`, `poll`, `wakeCtx`, `cancel`, `ret`) changes
the server or the clock, and a step of waiter i changes neither the program counter nor the context
flag of any other waiter. -/
theorem waiters_read_only {s s' : St} {e : Ev} {i : Nat} (he : e.waiter = some i)
    (h : step s e = some s') :
    s'.srv = s.srv ∧ s'.now = s.now ∧
    ∀ j, j ≠ i → s'.w[j]? = s.w[j]? ∧ s'.ctxDone[j]? = s.ctxDone[j]? :=
  ⟨(step_waiter_srv he h).1, (step_waiter_srv he h).2, fun _ hj => step_waiter_others he hj h⟩

/-- C07Redis.env_keeps_waiters: operations of other clients and the clock change no waiter and no
context flag (a waiter learns of a change only by its own next GET). -/
theorem env_keeps_waiters {s s' : St} {e : Ev} (he : e.waiter = none) (h : step s e = some s') :
    s'.w = s.w ∧ s'.ctxDone = s.ctxDone :=
  step_env_waiters he h

/-- C07Redis.cancel_isolated: whatever waiter i does — in particular giving up: `cancel i`, then
`wakeCtx i` or `poll i`, then `ret i ctxErr` — any sequence of its steps leaves the server, the clock
and every other waiter exactly as they were. -/
theorem cancel_isolated {s s' : St} {i j : Nat} (hij : j ≠ i) (es : List Ev)
    (hes : ∀ e ∈ es, e.waiter = some i) (h : run s es = some s') :
    s'.srv = s.srv ∧ s'.now = s.now ∧ s'.w[j]? = s.w[j]? ∧ s'.ctxDone[j]? = s.ctxDone[j]? := by
  induction es generalizing s with
  | nil => simp at h; subst h; exact ⟨rfl, rfl, rfl, rfl⟩
  | cons e es ih =>
    rw [run_cons] at h
    cases hs : step s e with
    | none => simp [hs] at h
    | some s1 =>
      simp [hs] at h
      have he := hes e (List.mem_cons_self ..)
      obtain ⟨a1, a2, a3⟩ := waiters_read_only he hs
      obtain ⟨b1, b2, b3, b4⟩ := ih (fun e' he' => hes e' (List.mem_cons_of_mem _ he')) h
      exact ⟨b1.trans a1, b2.trans a2, b3.trans (a3 j hij).1, b4.trans (a3 j hij).2⟩

/-- C07Redis.server_oblivious_to_waiters ("no bookkeeping is left behind"): the server state and the
clock at the end of a run are those of the run with ALL waiter events removed — starting, polling,
cancelling, giving up and returning leave no trace on the server. -/
theorem server_oblivious_to_waiters {s s' : St} (es : List Ev) (h : run s es = some s') :
    ∃ t, run s (es.filter fun e => e.waiter.isNone) = some t ∧
      t.srv = s'.srv ∧ t.now = s'.now ∧ t.w = s.w ∧ t.ctxDone = s.ctxDone := by
  suffices H : ∀ (es : List Ev) (s t s' : St), s.srv = t.srv → s.now = t.now → run s es = some s' →
      ∃ t', run t (es.filter fun e => e.waiter.isNone) = some t' ∧
        t'.srv = s'.srv ∧ t'.now = s'.now ∧ t'.w = t.w ∧ t'.ctxDone = t.ctxDone from
    H es s s s' rfl rfl h
  intro es
  induction es with
  | nil => intro s t s' h1 h2 h; simp at h; subst h; exact ⟨t, rfl, h1.symm, h2.symm, rfl, rfl⟩
  | cons e es ih =>
    intro s t s' h1 h2 h
    rw [run_cons] at h
    cases hs : step s e with
    | none => simp [hs] at h
    | some s1 =>
      simp [hs] at h
      cases hwt : e.waiter with
      | some i =>
        have := step_waiter_srv hwt hs
        have hf : (List.filter (fun e => e.waiter.isNone) (e :: es)) = List.filter (fun e => e.waiter.isNone) es := by
          simp [hwt]
        rw [hf]
        exact ih s1 t s' (this.1.trans h1) (this.2.trans h2) h
      | none =>
        have hf : (List.filter (fun e => e.waiter.isNone) (e :: es)) = e :: List.filter (fun e => e.waiter.isNone) es := by
          simp [hwt]
        rw [hf, run_cons]
        cases e with
        | env op =>
          simp only [step] at hs ⊢
          split at hs
          · next hok =>
            cases hs
            simp only [hok, if_true, Option.bind_some]
            obtain ⟨t', r1, r2, r3, r4, r5⟩ := ih { s with srv := (s.srv.step s.now op).1 }
              { t with srv := (t.srv.step t.now op).1 } s' (by simp [h1, h2]) h2 h
            exact ⟨t', r1, r2, r3, r4, r5⟩
          · cases hs
        | tick d =>
          simp only [step] at hs ⊢
          cases hs
          simp only [Option.bind_some]
          obtain ⟨t', r1, r2, r3, r4, r5⟩ := ih { s with now := s.now + d } { t with now := t.now + d } s'
            h1 (by simp [h2]) h
          exact ⟨t', r1, r2, r3, r4, r5⟩
        | start j k ver => cases hwt
        | poll j => cases hwt
        | wakeCtx j => cases hwt
        | cancel j => cases hwt
        | ret j r => cases hwt

/-- C07Redis.change_is_permanent: in a reachable state, once a return condition holds for a pending
waiter (the key is not visible, or visible with another version than the one the waiter holds), it
holds after ANY further events — writes, deletes, re-creations, expiries, ticks, other waiters,
cancellations: versions are never handed out twice, expiry only removes, time only advances.
(In particular it still holds at the waiter's next poll, however late that is.) -/
theorem change_is_permanent {n : Nat} {es : List Ev} {s : St} (hr : run (St.init n) es = some s)
    {i : Nat} {k : String} {ver : Nat}
    (hw : s.w[i]? = some (.polling k ver) ∨ s.w[i]? = some (.sleeping k ver))
    (hc : Changed s k ver) {es' : List Ev} {s' : St} (h : run s es' = some s') :
    Changed s' k ver := by
  have hg : s.srv.Gone s.now k ver := ⟨(reachable_inv hr).2 i k ver hw, (changed_iff s k ver).mp hc⟩
  exact (changed_iff s' k ver).mpr (gone_run es' hg h).2

/-- C07Redis.next_poll_returns: a pending waiter with a live context for which a return condition
holds RETURNS at its next GET (nil or ErrNotExist) — it never goes back to sleep. -/
theorem next_poll_returns {s : St} {i : Nat} {k : String} {ver : Nat}
    (hw : s.w[i]? = some (.polling k ver) ∨ s.w[i]? = some (.sleeping k ver))
    (hc : Changed s k ver) (hctx : s.ctxDone[i]? = some false) :
    ∃ s', step s (.poll i) = some s' ∧
      (s'.w[i]? = some (.done .waitNil) ∨ s'.w[i]? = some (.done .errNotExist)) := by
  obtain ⟨s', hs, hv⟩ := poll_complete hw (by rw [hctx]; simp)
  refine ⟨s', hs, ?_⟩
  unfold Changed at hc
  cases hl : s.srv.live s.now k with
  | none => right; simpa [hl] using hv
  | some rc =>
    rw [hl] at hc
    left; simpa [hl, hc] using hv

/-- a pending waiter stays where it is, with the same context flag, along any run without events of
its own -/
theorem run_untouched {s s' : St} {i : Nat} {k : String} {ver : Nat} (es : List Ev)
    (hw : s.w[i]? = some (.polling k ver) ∨ s.w[i]? = some (.sleeping k ver))
    (hq : ∀ e ∈ es, e.touches i = false) (h : run s es = some s') :
    s'.w[i]? = s.w[i]? ∧ s'.ctxDone[i]? = s.ctxDone[i]? := by
  induction es generalizing s with
  | nil => simp at h; subst h; exact ⟨rfl, rfl⟩
  | cons e es ih =>
    rw [run_cons] at h
    cases hs : step s e with
    | none => simp [hs] at h
    | some s1 =>
      simp [hs] at h
      have h1 := step_untouched hw (hq e (List.mem_cons_self ..)) hs
      have hw1 : s1.w[i]? = some (.polling k ver) ∨ s1.w[i]? = some (.sleeping k ver) := by
        rw [h1.1]; exact hw
      have h2 := ih hw1 (fun e' he' => hq e' (List.mem_cons_of_mem _ he')) h
      exact ⟨h2.1.trans h1.1, h2.2.trans h1.2⟩

/-- C07Redis.returns_at_first_poll_after_change: reachable state, waiter i pending on `(k, ver)` with
a live context, a return condition holds.  Let ANYTHING happen (`es'`: writes, deletes, ticks, other
waiters starting / polling / giving up, cancellations of others) except events of waiter i itself
(`Ev.touches i`: its `poll`, `wakeCtx`, `ret`, and `cancel i`); then waiter i's next GET returns nil
or ErrNotExist.  So the call is late by at most ONE poll interval, whatever the others do. -/
theorem returns_at_first_poll_after_change {n : Nat} {es : List Ev} {s : St}
    (hr : run (St.init n) es = some s) {i : Nat} {k : String} {ver : Nat}
    (hw : s.w[i]? = some (.polling k ver) ∨ s.w[i]? = some (.sleeping k ver))
    (hc : Changed s k ver) (hctx : s.ctxDone[i]? = some false)
    {es' : List Ev} (hq : ∀ e ∈ es', e.touches i = false)
    {s' : St} (h : run s (es' ++ [.poll i]) = some s') :
    s'.w[i]? = some (.done .waitNil) ∨ s'.w[i]? = some (.done .errNotExist) := by
  rw [run_append] at h
  cases h1 : run s es' with
  | none => simp [h1] at h
  | some s1 =>
    simp [h1, run_cons] at h
    have hu := run_untouched es' hw hq h1
    have hw1 : s1.w[i]? = some (.polling k ver) ∨ s1.w[i]? = some (.sleeping k ver) := by
      rw [hu.1]; exact hw
    have hc1 : Changed s1 k ver := change_is_permanent hr hw hc h1
    obtain ⟨s2, hs2, hres⟩ := next_poll_returns hw1 hc1 (by rw [hu.2]; exact hctx)
    rw [hs2] at h
    simp at h
    subst h
    exact hres

/-- C07Redis.cancelled_returns: a pending waiter whose context is done returns the context's error at
its next step, whichever it is: its GET fails with it (always possible), and if it sleeps, the wake-up
by the context is possible too. -/
theorem cancelled_returns {s : St} {i : Nat} {k : String} {ver : Nat}
    (hw : s.w[i]? = some (.polling k ver) ∨ s.w[i]? = some (.sleeping k ver))
    (hctx : s.ctxDone[i]? = some true) :
    (∃ s', step s (.poll i) = some s' ∧ s'.w[i]? = some (.done .ctxErr)) ∧
    (∀ s', step s (.wakeCtx i) = some s' → s'.w[i]? = some (.done .ctxErr)) ∧
    (s.w[i]? = some (.sleeping k ver) → ∃ s', step s (.wakeCtx i) = some s') := by
  have hsome : ∃ b, s.w[i]? = some b := by rcases hw with h0 | h0 <;> exact ⟨_, h0⟩
  obtain ⟨b, hb⟩ := hsome
  refine ⟨⟨_, step_poll_of_waits hw, ?_⟩, ?_, ?_⟩
  · simp only [get_set_self hb, verdict, hctx, if_true]
  · intro s' h
    obtain ⟨k0, ver0, hw0, _, rfl⟩ := step_wake h
    simp only [get_set_self hb]
  · intro hs
    exact ⟨{ s with w := s.w.set i (.done .ctxErr) }, by simp [step, hs, hctx]⟩

/-! ### non-vacuity -/

/-- (a) the waiter polls, sees its own version and sleeps; another client Puts; the next poll returns nil -/
example : (run (St.init 1) [.env (.put "a" "x" none), .start 0 "a" 1, .poll 0]).bind (·.w[0]?)
    = some (.sleeping "a" 1) := by decide
example : (run (St.init 1) [.env (.put "a" "x" none), .start 0 "a" 1, .poll 0,
    .env (.put "a" "y" none), .poll 0]).bind (·.w[0]?) = some (.done .waitNil) := by decide
example : (run (St.init 1) [.env (.put "a" "x" none), .start 0 "a" 1, .poll 0,
    .env (.put "a" "y" none), .poll 0, .ret 0 .waitNil]).bind (·.w[0]?) = some .idle := by decide

/-- (b) the record expires (by a tick) while the waiter sleeps: ErrNotExist -/
example : (run (St.init 1) [.env (.put "a" "x" (some 5)), .start 0 "a" 1, .poll 0, .tick 5, .poll 0]).bind (·.w[0]?)
    = some (.sleeping "a" 1) := by decide
example : (run (St.init 1) [.env (.put "a" "x" (some 5)), .start 0 "a" 1, .poll 0, .tick 5, .poll 0,
    .tick 1, .poll 0]).bind (·.w[0]?) = some (.done .errNotExist) := by decide

/-- (c) delete and re-create (same value, new version) between two polls: nil -/
example : (run (St.init 1) [.env (.put "a" "x" none), .start 0 "a" 1, .poll 0,
    .env (.delete "a"), .env (.create "a" "x" none), .poll 0]).bind (·.w[0]?) = some (.done .waitNil) := by decide

/-- (d) cancelled while sleeping: the select takes ctx.Done — the context's error; the other waiter
sleeps on undisturbed and is served by the next write -/
example : (run (St.init 2) [.env (.put "a" "x" none), .start 0 "a" 1, .start 1 "a" 1, .poll 0, .poll 1,
    .cancel 0, .wakeCtx 0]).bind (fun s => some (s.w, s.srv.store.length, s.srv.nextVer))
    = some ([.done .ctxErr, .sleeping "a" 1], 1, 2) := by decide
example : (run (St.init 2) [.env (.put "a" "x" none), .start 0 "a" 1, .start 1 "a" 1, .poll 0, .poll 1,
    .cancel 0, .wakeCtx 0, .ret 0 .ctxErr, .env (.put "a" "y" none), .poll 1]).bind (fun s => some s.w)
    = some [.idle, .done .waitNil] := by decide
/-- … and the wake-up is not possible while the context is live -/
example : run (St.init 1) [.env (.put "a" "x" none), .start 0 "a" 1, .poll 0, .wakeCtx 0] = none := by decide

/-- (e) a version of the future is refused; 0 ("never issued") and every issued version are accepted -/
example : run (St.init 1) [.env (.put "a" "x" none), .start 0 "a" 2] = none := by decide
example : (run (St.init 1) [.env (.put "a" "x" none), .start 0 "a" 0, .poll 0]).bind (·.w[0]?)
    = some (.done .waitNil) := by decide
/-- a waiter on a key that was never written: ErrNotExist at the first poll -/
example : (run (St.init 1) [.start 0 "a" 0, .poll 0]).bind (·.w[0]?) = some (.done .errNotExist) := by decide
/-- `list` / `wait` are not operations of the environment -/
example : run (St.init 1) [.env (.wait "a" 0)] = none := by decide

end C07Redis
