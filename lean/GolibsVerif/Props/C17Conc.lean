import GolibsVerif.Props.C17
import GolibsVerif.Props.Lin
/-
C17, concurrent callers.  Every operation of the allocator that touches the bookkeeping does so inside ONE
region protected by the allocator's mutex (skeleton fact `blocks.unlocked_state_access = []`, regenerated from
blocks.go on every run: no read or write of the header bytes or of the free hint lies outside the locked
region).  An execution of any number of goroutines is then an execution of the atomic-step system `Lin.Sys`
over the sequential model `Blk.B.step`, and the generic theorem applies: the operations, in the order of their
locked sections, form a sequential history — so `C17.refines_set` speaks about every concurrent execution:
the results the callers got are exactly those of the set model run in that order (no index handed out while
allocated, ErrExhausted iff nothing is free, Available exact), the order respects real time, every completed
call is in it exactly once.
Tie T (`harness/cmd/conc/blkconc.go`): real goroutines parked right before the lock; the calls in the order of
their locked sections are replayed through the same model.
-/
namespace C17Conc
open Blk Lin

/-- the allocator as an atomic-step object: one locked section = one step of the sequential model -/
def obj (P : Nat) : Obj B Op Out := { step := fun b op => b.step P op }

theorem seqRun_eq_runI (P : Nat) (b : B) (ops : List Op) : seqRun (obj P) b ops = runI P b ops := by
  induction ops generalizing b with
  | nil => rfl
  | cons op ops ih =>
    simp only [seqRun, runI, obj]
    have := ih (b.step P op).1
    simp only [obj] at this
    rw [this]

/-- C17Conc.concurrent_refines_set: for any geometry, any initial bytes and ANY concurrent execution `es`
(invocations, locked sections and responses of any number of goroutines in any interleaving) the results
returned, taken in the order of the locked sections, are those of the set model on that order of calls -/
theorem concurrent_refines_set (P : Nat) (hP : 0 < P) (bs : Int) (mem0 : List Nat) (hb : C17.BytesOK mem0) (fit : Bool)
    (b : B) (hopen : newBlocks P bs mem0 fit = .ok b)
    (es : List (Ev Op Out)) (s : Sys B Op Out) (h : (Sys.init b).run (obj P) es = some s) :
    s.order.map (·.2.2) = (runS b.abs (s.order.map (·.2.1))).2 := by
  have h1 := LinThm.order_is_sequential (obj P) b es s h
  rw [seqRun_eq_runI] at h1
  have h2 := (C17.refines_set P hP bs mem0 hb fit b hopen (s.order.map (·.2.1))).1
  rw [← h2, h1]

/-- C17Conc.order_respects_real_time: a call that returned before another one was invoked precedes it in that order -/
theorem order_respects_real_time (P : Nat) (b : B) (es : List (Ev Op Out)) (s : Sys B Op Out)
    (h : (Sys.init b).run (obj P) es = some s) (a c pa : Nat)
    (ha : (a, pa) ∈ s.retPos) (hc : c ∈ s.order.map (·.1)) (hlt : pa < c) :
    ∃ ia ic, (s.order.map (·.1)).idxOf? a = some ia ∧ (s.order.map (·.1)).idxOf? c = some ic ∧ ia < ic :=
  LinThm.order_respects_real_time (obj P) b es s h a c pa ha hc hlt

/-- C17Conc.completed_in_order: every completed call is in the order exactly once -/
theorem completed_in_order (P : Nat) (b : B) (es : List (Ev Op Out)) (s : Sys B Op Out)
    (h : (Sys.init b).run (obj P) es = some s) :
    (s.order.map (·.1)).Nodup ∧ ∀ a pa, (a, pa) ∈ s.retPos → a ∈ s.order.map (·.1) :=
  LinThm.completed_in_order (obj P) b es s h

end C17Conc
