import GolibsVerif.Lemmas.LockLease
/-
C05 — Distributed lock: lease is kept while held and lapses after holder death (logical part;
the timing part is the arithmetic lemma `lease_margin` + the real-time correspondence run).
A "renewal token" for Locker l and version v is anything that will lead to a CasByVersion(v):
an armed timer, or a running supportTimeout before its CAS, or one that is about to arm (l, v).
-/
namespace C05
open Lock

def HasToken (s : St) (l : L) (v : Nat) : Prop :=
  (∃ t ∈ s.armed, t.l = l ∧ t.ver = v) ∨
  (∃ u ∈ s.sups, u.l = l ∧ ((u.ver = v ∧ (u.pc = .load ∨ ∃ f, u.pc = .cas f)) ∨ (∃ f, u.pc = .arm f v))) ∨
  (∃ u ∈ s.sups, u.l = l ∧ ∃ f tn, u.pc = .swap f tn ∧ ∃ t ∈ s.armed, t.id = tn ∧ t.ver = v)

/-- C05.lease_chain_alive: while a caller holds the lock (any hold duration, any interleaving) and
no renewal CAS is answered with an error after having been applied, there is always a renewal token
for the CURRENT version of the record: the renewal chain never dies, so the record keeps being
extended.  Request-lost faults (transient errors) are allowed: they are retried. -/
def lease_chain_alive_full : Prop :=
  ∀ (c : Cfg) (s : St), Reach c false false s → ∀ g, s.holds g = true →
    ∃ r, s.lrec = some r ∧ HasToken s (c.lk g) r.ver
-- The full-strength statement above is FALSE of the model (`lease_chain_alive_refuted`, the
-- early-fire race: a timer armed by supportTimeout fires before that supportTimeout has executed
-- future.CompareAndSwap).  What is proved is `lease_chain_alive_partial`: the same conclusion for
-- every run in which arm + CompareAndSwap complete before the timer just armed fires (`ReachNE`),
-- i.e. under the timing assumption that a renewal goroutine is not stalled for leaseTTL/2.

/-- `lease_chain_alive` is FALSE of the model: the fault-free run `Lock.early_fire_run` ends in a state
where goroutine 0 holds, the record is there, and there is no timer and no supportTimeout at all. -/
theorem lease_chain_alive_refuted : ¬ lease_chain_alive_full := by
  unfold lease_chain_alive_full
  intro H
  obtain ⟨s, hr, hh, _, ha, hs⟩ := early_fire_run
  obtain ⟨r, _, ht⟩ := H c0 s hr 0 hh
  simp [HasToken, ha, hs] at ht

/-- closest true statement: `lease_chain_alive` holds for all fault-free runs WITHOUT early fires
(`Lock.ReachNE`: no lease timer fires while the supportTimeout that armed it is still before its
`future.CompareAndSwap`, i.e. arm + CompareAndSwap take less than L/2). -/
theorem lease_chain_alive_partial (c : Cfg) (s : St) (h : ReachNE c s) (g : G) (hg : s.holds g = true) :
    ∃ r, s.lrec = some r ∧ HasToken s (c.lk g) r.ver := by
  obtain ⟨ho, _, _, hl⟩ := h.reach.inv
  obtain ⟨r, hr, hown⟩ := ho.owner g (Or.inl hg)
  obtain ⟨hlt, hlu⟩ := hl.rec_l r g hr hown
  refine ⟨r, hr, ?_⟩
  rcases h.chain.alive g r hg hr with ⟨t, ht, hv⟩ | ⟨u, hu, hv⟩
  · exact Or.inl ⟨t, ht, hlt t ht hv, hv⟩
  · refine Or.inr (Or.inl ⟨u, hu, hlu u hu hv, ?_⟩)
    cases u with | mk l v pc =>
    cases pc <;> simp_all [Sup.foot]

/-- C05.reply_lost_breaks_chain (negative; known finding KF-3): with reply-lost faults a holder can
be left with no renewal token at all — the lock is held, the record will lapse. -/
theorem reply_lost_breaks_chain :
    ∃ (c : Cfg) (s : St), Reach c false true s ∧ s.holds 0 = true ∧ s.armed = [] ∧ s.sups = [] :=
  let ⟨s, h⟩ := reply_lost_run
  ⟨c0, s, h⟩

/-- C05.renewal_dies_after_unlock: when no goroutine of Locker l holds or is inside a call, at most
one renewal activity of l is left, it is for a version that is no longer the record's, so its CAS is
definitive (changes nothing) and the chain ends there (arms nothing). -/
def renewal_dies_after_unlock_full : Prop :=
  ∀ (c : Cfg) (s : St), Reach c false false s → ∀ l : L,
    (∀ g, c.lk g = l → s.pc g = .idle ∧ s.holds g = false) →
    (s.armed.filter (·.l = l)).length + (s.sups.filter (·.l = l)).length ≤ 1 ∧
    (∀ t ∈ s.armed, t.l = l → ∀ r, s.lrec = some r → r.ver ≠ t.ver) ∧
    (∀ u ∈ s.sups, u.l = l → (u.pc = .load ∨ ∃ f, u.pc = .cas f) → ∀ r, s.lrec = some r → r.ver ≠ u.ver)
-- The first conjunct (at most ONE leftover activity) is FALSE of the untimed model
-- (`renewal_dies_after_unlock_refuted`: each tenure may leave one fired-but-unfinished
-- supportTimeout, and without a clock they accumulate).  Proved: `renewal_dies_after_unlock_partial`
-- — every leftover activity of the Locker is stale, so its CAS is definitive and arms nothing.

/-- `renewal_dies_after_unlock` is FALSE of the model (its first conjunct): every tenure can leave one
fired-but-unfinished supportTimeout behind, and they accumulate (`Lock.two_stale_run`: two of them). -/
theorem renewal_dies_after_unlock_refuted :
    ¬ ∀ (c : Cfg) (s : St), Reach c false false s → ∀ l : L,
        (∀ g, c.lk g = l → s.pc g = .idle ∧ s.holds g = false) →
        (s.armed.filter (·.l = l)).length + (s.sups.filter (·.l = l)).length ≤ 1 := by
  intro H
  obtain ⟨s, hr, hq, ha, hs, _⟩ := two_stale_run
  have := H c0 s hr 0 (fun g _ => hq g)
  simp [ha, hs] at this

/-- closest true statement (conjuncts 2 and 3 of `renewal_dies_after_unlock`, plus the same for a
supportTimeout about to arm): when no goroutine of Locker l holds or is inside a call, EVERY renewal
activity left for l is for a version that is not the record's: each remaining CAS is definitive, each
timer still to be armed is for a dead version.  (Their number is not bounded in the untimed model.) -/
theorem renewal_dies_after_unlock_partial (c : Cfg) (s : St) (h : Reach c false false s) (l : L)
    (hq : ∀ g, c.lk g = l → s.pc g = .idle ∧ s.holds g = false) :
    (∀ t ∈ s.armed, t.l = l → ∀ r, s.lrec = some r → r.ver ≠ t.ver) ∧
    (∀ u ∈ s.sups, u.l = l → (u.pc = .load ∨ ∃ f, u.pc = .cas f) → ∀ r, s.lrec = some r → r.ver ≠ u.ver) ∧
    (∀ u ∈ s.sups, u.l = l → ∀ f nv, u.pc = .arm f nv → ∀ r, s.lrec = some r → r.ver ≠ nv) := by
  obtain ⟨ho, _, _, hl⟩ := h.inv
  have key : ∀ r, s.lrec = some r → ∃ g, c.lk g ≠ l ∧
      (∀ t ∈ s.armed, t.ver = r.ver → t.l = c.lk g) ∧ (∀ u ∈ s.sups, u.foot = some r.ver → u.l = c.lk g) := by
    intro r hr
    obtain ⟨g, hown, hg⟩ := ho.rec_owned r hr
    refine ⟨g, ?_, hl.rec_l r g hr hown⟩
    intro e
    obtain ⟨h1, h2⟩ := hq g e
    simp [h1, h2] at hg
  refine ⟨?_, ?_, ?_⟩
  · intro t ht htl r hr e
    obtain ⟨g, hne, hkt, _⟩ := key r hr
    exact hne ((hkt t ht e.symm).symm.trans htl)
  · intro u hu hul hp r hr e
    obtain ⟨g, hne, _, hku⟩ := key r hr
    refine hne ((hku u hu ?_).symm.trans hul)
    rcases hp with hp | ⟨f, hp⟩
    · rw [(Sup.of_load hp).1, e]
    · rw [(Sup.of_cas hp).1, e]
  · intro u hu hul f nv hp r hr e
    obtain ⟨g, hne, _, hku⟩ := key r hr
    refine hne ((hku u hu ?_).symm.trans hul)
    rw [(Sup.of_arm hp).1, e]

/-- C05.dead_holder_released: if the holder dies (takes no more steps) and its renewal activities
are gone, the lease assumption no longer protects the record: once it has lapsed, a parked waiter's
return is enabled and its Create succeeds. -/
theorem dead_holder_released (c : Cfg) (s : St) (g w : G) (v : Nat)
    (hw : s.pc w = .lWait v) (hc : s.ctxDone w = false) (hr : s.lrec = none) :
    ∃ t₁ t₂, Step c false false s t₁ ∧ t₁.pc w = .lCreate ∧ Step c false false t₁ t₂ ∧ t₂.holds w = true := by
  refine ⟨_, _, Step.lWaitRet s w v false (by simp) hw (Or.inr (Or.inr (Or.inl hr))), ?_, Step.lCreateOk _ w ?_ hr, ?_⟩
  · simp [upd, hc]
  · simp [upd, hc]
  · simp [upd]

/-- timing margin: with lease L, renewal due L/2 after the last success, each attempt late by at
most δ, retries every ρ after a transient failure, m consecutive failures: the record is still
valid when the (m+1)-th attempt succeeds, provided (m+1)·δ + m·ρ < L/2. -/
theorem lease_margin (L δ ρ m t0 : Nat) (hm : (m + 1) * δ + m * ρ < L / 2) :
    t0 + L / 2 + (m + 1) * δ + m * ρ < t0 + L := by
  omega

end C05
