import GolibsVerif.Lemmas.LockLease
/-
C05 — Distributed lock: lease is kept while held and lapses after holder death (logical part;
the timing part is the arithmetic lemma `lease_margin` + the real-time correspondence run).
A "renewal token" for Locker l and version v is anything that will lead to a CasByVersion(v):
an armed timer, or a running supportTimeout before its CAS, or one that is about to arm (l, v).
-/
namespace C05
open Lock

def HasToken (s : St) (l : L) (v : Nat) : Prop :=
  (∃ t ∈ s.armed, t.l = l ∧ t.ver = v) ∨
  (∃ u ∈ s.sups, u.l = l ∧ ((u.ver = v ∧ (u.pc = .load ∨ ∃ f, u.pc = .cas f)) ∨ (∃ f, u.pc = .arm f v))) ∨
  (∃ u ∈ s.sups, u.l = l ∧ ∃ f tn, u.pc = .swap f tn ∧ ∃ t ∈ s.armed, t.id = tn ∧ t.ver = v)

/-- C05.lease_chain_alive: while a caller holds the lock (any hold duration, any interleaving) and
no renewal CAS is answered with an error after having been applied, there is always a renewal token
for the CURRENT version of the record: the renewal chain never dies, so the record keeps being
extended.  Request-lost faults (transient errors) are allowed: they are retried. -/
theorem lease_chain_alive (c : Cfg) (s : St) (h : Reach c false false s) (g : G) (hg : s.holds g = true) :
    ∃ r, s.lrec = some r ∧ HasToken s (c.lk g) r.ver :=
  sorry

/-- C05.reply_lost_breaks_chain (negative; known finding KF-3): with reply-lost faults a holder can
be left with no renewal token at all — the lock is held, the record will lapse. -/
theorem reply_lost_breaks_chain :
    ∃ (c : Cfg) (s : St), Reach c false true s ∧ s.holds 0 = true ∧ s.armed = [] ∧ s.sups = [] :=
  sorry

/-- C05.renewal_dies_after_unlock: when no goroutine of Locker l holds or is inside a call, at most
one renewal activity of l is left, it is for a version that is no longer the record's, so its CAS is
definitive (changes nothing) and the chain ends there (arms nothing). -/
theorem renewal_dies_after_unlock (c : Cfg) (s : St) (h : Reach c false false s) (l : L)
    (hq : ∀ g, c.lk g = l → s.pc g = .idle ∧ s.holds g = false) :
    (s.armed.filter (·.l = l)).length + (s.sups.filter (·.l = l)).length ≤ 1 ∧
    (∀ t ∈ s.armed, t.l = l → ∀ r, s.lrec = some r → r.ver ≠ t.ver) ∧
    (∀ u ∈ s.sups, u.l = l → (u.pc = .load ∨ ∃ f, u.pc = .cas f) → ∀ r, s.lrec = some r → r.ver ≠ u.ver) :=
  sorry

/-- C05.dead_holder_released: if the holder dies (takes no more steps) and its renewal activities
are gone, the lease assumption no longer protects the record: once it has lapsed, a parked waiter's
return is enabled and its Create succeeds. -/
theorem dead_holder_released (c : Cfg) (s : St) (g w : G) (v : Nat)
    (hw : s.pc w = .lWait v) (hc : s.ctxDone w = false) (hr : s.lrec = none) :
    ∃ t₁ t₂, Step c false false s t₁ ∧ t₁.pc w = .lCreate ∧ Step c false false t₁ t₂ ∧ t₂.holds w = true :=
  sorry

/-- timing margin: with lease L, renewal due L/2 after the last success, each attempt late by at
most δ, retries every ρ after a transient failure, m consecutive failures: the record is still
valid when the (m+1)-th attempt succeeds, provided (m+1)·δ + m·ρ < L/2. -/
theorem lease_margin (L δ ρ m t0 : Nat) (hm : (m + 1) * δ + m * ρ < L / 2) :
    t0 + L / 2 + (m + 1) * δ + m * ρ < t0 + L :=
  sorry

end C05
