import GolibsVerif.Lemmas.Mixer
/-
C18 — Iterator mixer is a faithful two-way merge.  Property theorems only.

`g1 g2` mark inputs whose tail vanishes (HasNext() = true once more after the last element, then
Next() = (0, false): the imparity the Iterator contract allows).  Every theorem about `Mx.init`
holds for arbitrary `g1 g2`; `vanishing_tail_irrelevant` says the outputs do not depend on them.
-/
namespace C18
open Mixer

theorem init_inv (sf : Nat → Nat → Bool) (l1 l2 : List Nat) (r1 r2 g1 g2 : Bool) :
    (Mx.init l1 l2 r1 r2 g1 g2).Inv sf ∧
    (Mx.init l1 l2 r1 r2 g1 g2).abs = { p1 := l1, p2 := l2, a1 := l1, a2 := l2 } :=
  Mixer.init_inv sf l1 l2 r1 r2 g1 g2

/-- One call of HasNext / Next / Reset (both sources resettable): same output as the Spec,
abstraction commutes, cached-state invariant kept. -/
theorem step_refines (sf : Nat → Nat → Bool) (m : Mx) (op : Op) (h : m.Inv sf)
    (hr : m.s1.canReset = true ∧ m.s2.canReset = true) :
    (m.step sf op).2 = (m.abs.step sf op).2 ∧ (m.step sf op).1.abs = (m.abs.step sf op).1 ∧
    (m.step sf op).1.Inv sf ∧
    ((m.step sf op).1.s1.canReset = true ∧ (m.step sf op).1.s2.canReset = true) :=
  Mixer.step_refines sf m op h hr

/-- C18.pattern_independent: under ANY pattern of HasNext/Next/Reset calls the mixer's answers
are those of the reference (HasNext ⇔ merge non-empty and changes nothing; Next = head of merge). -/
theorem pattern_independent (sf : Nat → Nat → Bool) (l1 l2 : List Nat) (g1 g2 : Bool) (ops : List Op) :
    (runI sf (Mx.init l1 l2 true true g1 g2) ops).2 =
      (runS sf { p1 := l1, p2 := l2, a1 := l1, a2 := l2 } ops).2 := by
  have hi := Mixer.init_inv sf l1 l2 true true g1 g2
  have h := (run_refines sf ops (Mx.init l1 l2 true true g1 g2) hi.1 ⟨rfl, rfl⟩).1
  rw [hi.2] at h
  exact h

/-- the Spec's Next really is "head of the reference merge, rest is the merge of what remains" -/
theorem spec_next_is_merge_head (sf : Nat → Nat → Bool) (s : S) :
    match (s.step sf .next) with
    | (s', .nx v true) => merge sf s.p1 s.p2 = v :: merge sf s'.p1 s'.p2
    | (s', .nx _ false) => merge sf s.p1 s.p2 = [] ∧ s' = s
    | _ => False := by
  rcases s with ⟨p1, p2, a1, a2⟩
  cases p1 with
  | nil => cases p2 <;> simp [S.step]
  | cons x xs =>
    cases p2 with
    | nil => simp [S.step]
    | cons y ys =>
      by_cases hsf : sf x y = true <;> simp [S.step, merge_cons_cons, hsf]

/-- HasNext is idempotent and agrees with the following Next's flag -/
theorem hasNext_agrees_with_next (sf : Nat → Nat → Bool) (m : Mx) (h : m.Inv sf) :
    let (m1, b1) := m.hasNext sf
    (m1.hasNext sf) = (m1, b1) ∧ (m1.next sf).2.2 = b1 ∧ (m.next sf) = (m1.next sf) := by
  obtain ⟨hi, h0, _⟩ := selectState_spec sf m h
  have hid := selectState_idem sf m h
  have hn := next_eq_next_selectState sf m h
  simp only [Mx.hasNext]
  refine ⟨by rw [hid], ?_, hn⟩
  simp only [Mx.next, hid]
  rcases hi.1 with h' | h' | h' | h'
  · exact absurd h' h0
  · simp [h']
  · simp [h']
  · simp [h']

/-- C18.output_eq_merge: draining a fresh mixer yields exactly the reference merge, any selector,
resettable or not, vanishing tails or not. -/
theorem output_eq_merge (sf : Nat → Nat → Bool) (l1 l2 : List Nat) (r1 r2 g1 g2 : Bool) (fuel : Nat)
    (hf : fuel ≥ l1.length + l2.length) :
    drain sf fuel (Mx.init l1 l2 r1 r2 g1 g2) = merge sf l1 l2 := by
  have hi := Mixer.init_inv sf l1 l2 r1 r2 g1 g2
  have h := drain_eq_merge sf fuel (Mx.init l1 l2 r1 r2 g1 g2) hi.1 (by rw [hi.2]; exact hf)
  rw [hi.2] at h
  exact h

/-- C18.is_interleaving: every element of both inputs exactly once, each input's order kept. -/
theorem is_interleaving (sf : Nat → Nat → Bool) (l1 l2 : List Nat) :
    Interleave l1 l2 (merge sf l1 l2) :=
  interleave_merge sf l1 l2

/-- `is_interleaving` for what the mixer itself emits, vanishing tails or not -/
theorem drain_is_interleaving (sf : Nat → Nat → Bool) (l1 l2 : List Nat) (r1 r2 g1 g2 : Bool)
    (fuel : Nat) (hf : fuel ≥ l1.length + l2.length) :
    Interleave l1 l2 (drain sf fuel (Mx.init l1 l2 r1 r2 g1 g2)) := by
  rw [output_eq_merge sf l1 l2 r1 r2 g1 g2 fuel hf]
  exact is_interleaving sf l1 l2

theorem interleave_facts {l1 l2 l : List Nat} (h : Interleave l1 l2 l) :
    l.length = l1.length + l2.length ∧ l1.Sublist l ∧ l2.Sublist l ∧ l.Perm (l1 ++ l2) :=
  ⟨interleave_length h, interleave_sublist_left h, interleave_sublist_right h, interleave_perm h⟩

/-- C18.empty_input_passthrough: with one input empty the mixer emits exactly the other input,
whatever the selector says (the selector is not a filter). -/
theorem empty_input_passthrough (sf : Nat → Nat → Bool) (l : List Nat) (r1 r2 g1 g2 : Bool)
    (fuel : Nat) (hf : fuel ≥ l.length) :
    drain sf fuel (Mx.init [] l r1 r2 g1 g2) = l ∧ drain sf fuel (Mx.init l [] r1 r2 g1 g2) = l := by
  constructor
  · have h := interleave_facts (drain_is_interleaving sf [] l r1 r2 g1 g2 fuel (by simpa using hf))
    exact (h.2.2.1.eq_of_length (by simpa using h.1.symm)).symm
  · have h := interleave_facts (drain_is_interleaving sf l [] r1 r2 g1 g2 fuel (by simpa using hf))
    exact (h.2.1.eq_of_length (by simpa using h.1.symm)).symm

/-- C18.sorted_merge: a total, transitive selector merges sorted inputs into a sorted output. -/
theorem sorted_merge (sf : Nat → Nat → Bool)
    (total : ∀ a b, sf a b = true ∨ sf b a = true)
    (trans : ∀ a b c, sf a b = true → sf b c = true → sf a c = true)
    (l1 l2 : List Nat) (h1 : l1.Pairwise (fun a b => sf a b = true)) (h2 : l2.Pairwise (fun a b => sf a b = true)) :
    (merge sf l1 l2).Pairwise (fun a b => sf a b = true) :=
  pairwise_merge sf total trans l1 l2 h1 h2

/-- `sorted_merge` for what the mixer itself emits, vanishing tails or not -/
theorem drain_sorted (sf : Nat → Nat → Bool)
    (total : ∀ a b, sf a b = true ∨ sf b a = true)
    (trans : ∀ a b c, sf a b = true → sf b c = true → sf a c = true)
    (l1 l2 : List Nat) (h1 : l1.Pairwise (fun a b => sf a b = true)) (h2 : l2.Pairwise (fun a b => sf a b = true))
    (r1 r2 g1 g2 : Bool) (fuel : Nat) (hf : fuel ≥ l1.length + l2.length) :
    (drain sf fuel (Mx.init l1 l2 r1 r2 g1 g2)).Pairwise (fun a b => sf a b = true) := by
  rw [output_eq_merge sf l1 l2 r1 r2 g1 g2 fuel hf]
  exact sorted_merge sf total trans l1 l2 h1 h2

/-- C18.reset_restarts: after any call pattern, Reset (resettable inputs) restarts from the beginning. -/
theorem reset_restarts (sf : Nat → Nat → Bool) (l1 l2 : List Nat) (g1 g2 : Bool) (ops : List Op) :
    let m := (runI sf (Mx.init l1 l2 true true g1 g2) ops).1
    (m.reset).2 = .ok ∧ (m.reset).1.abs = { p1 := l1, p2 := l2, a1 := l1, a2 := l2 } ∧ (m.reset).1.st = 0 := by
  have hi := Mixer.init_inv sf l1 l2 true true g1 g2
  obtain ⟨_, hb, _, hd⟩ := run_refines sf ops (Mx.init l1 l2 true true g1 g2) hi.1 ⟨rfl, rfl⟩
  have ha := runS_all sf ops (Mx.init l1 l2 true true g1 g2).abs
  rw [← hb, hi.2] at ha
  obtain ⟨a, b, _, d, _⟩ := reset_refines sf (runI sf (Mx.init l1 l2 true true g1 g2) ops).1 hd
  refine ⟨a, ?_, d⟩
  simp only at ha
  rw [b]
  simp [ha.1, ha.2]

/-- emits source 1's head exactly when the selector prefers it or source 2 is exhausted -/
theorem emits_first_iff (sf : Nat → Nat → Bool) (x : Nat) (xs ys : List Nat) :
    (merge sf (x :: xs) ys = x :: merge sf xs ys) ∧
      (ys = [] ∨ ∃ y ys', ys = y :: ys' ∧ sf x y = true) ∨
    (∃ y ys', ys = y :: ys' ∧ sf x y = false ∧ merge sf (x :: xs) ys = y :: merge sf (x :: xs) ys') := by
  cases ys with
  | nil => left; simp
  | cons y ys' =>
    cases hsf : sf x y with
    | true => left; simp [merge_cons_cons, hsf]
    | false => right; exact ⟨y, ys', rfl, hsf, by simp [merge_cons_cons, hsf]⟩

/-- C18.vanishing_tail_irrelevant: the outputs of EVERY call pattern are the same with and without
vanishing tails, also for non-resettable sources (where Reset fails half-way). -/
theorem vanishing_tail_irrelevant (sf : Nat → Nat → Bool) (l1 l2 : List Nat) (r1 r2 g1 g2 : Bool)
    (ops : List Op) :
    (runI sf (Mx.init l1 l2 r1 r2 g1 g2) ops).2 = (runI sf (Mx.init l1 l2 r1 r2) ops).2 :=
  (run_sim sf ops _ _ (init_sim l1 l2 r1 r2 g1 g2 false false)).1

/-- non-vacuity: tie handling on a concrete case -/
example : drain (fun a b => a ≤ b) 10 (Mx.init [1, 2, 2] [2, 3]) = [1, 2, 2, 2, 3] := by decide

/-- a concrete vanishing tail: input 1 answers HasNext() = true after its last element; the mixer
takes `load` from Next()'s ok and goes on with input 2 -/
example : (runI (fun a b => a ≤ b) (Mx.init [1, 2] [1, 3] true true true false)
      [.next, .next, .next, .next, .hasNext, .next]).2 =
    [.nx 1 true, .nx 1 true, .nx 2 true, .nx 3 true, .b false, .nx 0 false] := by decide

/-- the phantom HasNext really is consumed (the states differ, the outputs do not), and Reset re-arms it -/
example : let m := (runI (fun a b => a ≤ b) (Mx.init [1] [] true true true true) [.next, .hasNext]).1
    (m.s1.ghostLeft, m.s2.ghostLeft, m.st, m.reset.1.s1.ghostLeft) = (false, false, 3, true) := by decide

/-- non-resettable first input with a vanishing tail: Reset fails early, the stale state 1 emits the
cleared look-ahead — with and without the ghost alike -/
example : (runI (fun a b => a ≤ b) (Mx.init [4] [5] false true true true)
      [.hasNext, .reset, .next, .next, .next, .hasNext]).2 =
    [.b true, .rs .unimplemented, .nx 0 true, .nx 5 true, .nx 0 false, .b false] := by decide

end C18
