import GolibsVerif.Lemmas.Lru
/-
C08 — LRU cache behaves as a reference LRU for every call sequence.
`c : Cfg` is arbitrary: any capacity ≥ 1, any (possibly many-to-one) key mapping, any create
function (failing wherever it likes), any expiry assignment.
-/
namespace C08
open Lru

/-- C08.refines_reference: results AND callback invocations (create calls with their outcome,
delete callbacks with key and value, in order) equal those of the reference LRU, for every call
sequence over GetOrCreate / Remove / Clear / ExpirableCache.GetOrCreate. -/
theorem refines_reference (c : Cfg) (hc : 1 ≤ c.cap) (ops : List Op) :
    (runI c EC.new ops).2 = (runS c Ref.new ops).2 :=
  (run_sim hc ops (Rel_new c)).2

/-- C08.size_le_cap and distinct keys, after every call sequence -/
theorem size_le_cap (c : Cfg) (hc : 1 ≤ c.cap) (ops : List Op) :
    (runI c EC.new ops).1.items.length ≤ c.cap ∧ ((runI c EC.new ops).1.items.map (·.k)).Nodup :=
  (run_sim hc ops (Rel_new c)).1.inv

/-- C08.delete_callback_exactly_once: the successfully created (pk, v) pairs are exactly the pairs
handed to the delete callback plus the resident ones — nothing leaked, nothing deleted twice,
never a resident one. -/
theorem delete_callback_exactly_once (c : Cfg) (hc : 1 ≤ c.cap) (ops : List Op) :
    let r := runI c EC.new ops
    (createdOk (events r.2)).Perm (deleted (events r.2) ++ r.1.items.map fun e => (e.pk, e.v)) :=
  by
  show (createdOk (events (runI c EC.new ops).2)).Perm
    (deleted (events (runI c EC.new ops).2) ++ (runI c EC.new ops).1.items.map pv)
  rw [List.perm_iff_count]
  intro a
  have h := run_bal hc ops (Rel_new c) a
  simpa [List.count_append, EC.new] using h

/-- C08.hit_no_create_becomes_mru -/
theorem hit_no_create_becomes_mru (c : Cfg) (s : EC) (pk : Nat) (e : Entry)
    (h : findK s.items (c.km pk) = some e) :
    s.getOrCreate c pk = ({ s with items := eraseK s.items (c.km pk) ++ [e] }, .val e.v, []) :=
  by
  unfold EC.getOrCreate
  simp only [h]

/-- C08.failed_create_no_change: nothing resident changes, no delete callback runs -/
theorem failed_create_no_change (c : Cfg) (s : EC) (pk : Nat)
    (hm : findK s.items (c.km pk) = none) (hf : c.cr pk s.calls = none) :
    (s.getOrCreate c pk).1.items = s.items ∧ (s.getOrCreate c pk).2 = (.err, [.create pk none]) :=
  by
  unfold EC.getOrCreate
  simp only [hm, hf, and_self]

/-- C08.evicts_exactly_lru (Spec side): a successful miss on a full cache evicts exactly one
resident and it is one with the minimal last-use stamp. -/
theorem ref_evicts_min (c : Cfg) (s : Ref) (pk v : Nat)
    (hm : s.res.find? (·.k == c.km pk) = none) (hv : c.cr pk s.calls = some v)
    (hfull : c.cap < s.res.length + 1) :
    ∃ m, lruOf ({ k := c.km pk, pk := pk, v := v, lastUse := s.clock } :: s.res) = some m ∧
      (∀ x ∈ ({ k := c.km pk, pk := pk, v := v, lastUse := s.clock } :: s.res), m.lastUse ≤ x.lastUse) ∧
      (s.getOrCreate c pk).2.2 = [.create pk (some v), .delete m.pk m.v] :=
  by
  have hne : ({ k := c.km pk, pk := pk, v := v, lastUse := s.clock } :: s.res : List REntry) ≠ [] := by simp
  obtain ⟨m, hm'⟩ := lruOf_isSome hne
  refine ⟨m, hm', lruOf_le hm', ?_⟩
  unfold Ref.getOrCreate
  simp only [hm, hv, List.length_cons, if_pos hfull, hm']

/-- non-vacuity: capacity 2, a hit reorders, the next miss evicts the least recently used -/
example :
    let c : Cfg := { cap := 2, km := id, cr := fun pk n => some (100 * pk + n), expOf := fun _ => 0 }
    (runI c EC.new [.getOrCreate 1, .getOrCreate 2, .getOrCreate 1, .getOrCreate 3]).2.map (·.2) =
      [[.create 1 (some 100)], [.create 2 (some 201)], [], [.create 3 (some 302), .delete 2 201]] := by
  decide

end C08
