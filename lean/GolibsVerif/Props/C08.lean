import GolibsVerif.Lemmas.Lru
/-
C08 — LRU cache behaves as a reference LRU for every call sequence.
`c : Cfg` is arbitrary: any capacity ≥ 1, any (possibly many-to-one) key mapping, any create
function (failing wherever it likes), any expiry assignment.
-/
namespace C08
open Lru

/-- C08.refines_reference: results AND callback invocations (create calls with their outcome,
delete callbacks with key and value, in order) equal those of the reference LRU, for every call
sequence over GetOrCreate / Remove / Clear / ExpirableCache.GetOrCreate. -/
theorem refines_reference (c : Cfg) (hc : 1 ≤ c.cap) (ops : List Op) :
    (runI c EC.new ops).2 = (runS c Ref.new ops).2 :=
  (run_sim hc ops (Rel_new c)).2

/-- C08.size_le_cap and distinct keys, after every call sequence -/
theorem size_le_cap (c : Cfg) (hc : 1 ≤ c.cap) (ops : List Op) :
    (runI c EC.new ops).1.items.length ≤ c.cap ∧ ((runI c EC.new ops).1.items.map (·.k)).Nodup :=
  (run_sim hc ops (Rel_new c)).1.inv

/-- C08.delete_callback_exactly_once: the successfully created (pk, v) pairs are exactly the pairs
handed to the delete callback plus the resident ones — nothing leaked, nothing deleted twice,
never a resident one. -/
theorem delete_callback_exactly_once (c : Cfg) (hc : 1 ≤ c.cap) (ops : List Op) :
    let r := runI c EC.new ops
    (createdOk (events r.2)).Perm (deleted (events r.2) ++ r.1.items.map fun e => (e.pk, e.v)) :=
  by
  show (createdOk (events (runI c EC.new ops).2)).Perm
    (deleted (events (runI c EC.new ops).2) ++ (runI c EC.new ops).1.items.map pv)
  rw [List.perm_iff_count]
  intro a
  have h := run_bal hc ops (Rel_new c) a
  simpa [List.count_append, EC.new] using h

/-- C08.hit_no_create_becomes_mru -/
theorem hit_no_create_becomes_mru (c : Cfg) (s : EC) (pk : Nat) (e : Entry)
    (h : findK s.items (c.km pk) = some e) :
    s.getOrCreate c pk = ({ s with items := eraseK s.items (c.km pk) ++ [e] }, .val e.v, []) :=
  by
  unfold EC.getOrCreate
  simp only [h]

/-- C08.failed_create_no_change: nothing resident changes, no delete callback runs -/
theorem failed_create_no_change (c : Cfg) (s : EC) (pk : Nat)
    (hm : findK s.items (c.km pk) = none) (hf : c.cr pk s.calls = none) :
    (s.getOrCreate c pk).1.items = s.items ∧ (s.getOrCreate c pk).2 = (.err, [.create pk none]) :=
  by
  unfold EC.getOrCreate
  simp only [hm, hf, and_self]

/-- C08.evicts_exactly_lru (Spec side): a successful miss on a full cache evicts exactly one
resident and it is one with the minimal last-use stamp. -/
theorem ref_evicts_min (c : Cfg) (s : Ref) (pk v : Nat)
    (hm : s.res.find? (·.k == c.km pk) = none) (hv : c.cr pk s.calls = some v)
    (hfull : c.cap < s.res.length + 1) :
    ∃ m, lruOf ({ k := c.km pk, pk := pk, v := v, lastUse := s.clock } :: s.res) = some m ∧
      (∀ x ∈ ({ k := c.km pk, pk := pk, v := v, lastUse := s.clock } :: s.res), m.lastUse ≤ x.lastUse) ∧
      (s.getOrCreate c pk).2.2 = [.create pk (some v), .delete m.pk m.v] :=
  by
  have hne : ({ k := c.km pk, pk := pk, v := v, lastUse := s.clock } :: s.res : List REntry) ≠ [] := by simp
  obtain ⟨m, hm'⟩ := lruOf_isSome hne
  refine ⟨m, hm', lruOf_le hm', ?_⟩
  unfold Ref.getOrCreate
  simp only [hm, hv, List.length_cons, if_pos hfull, hm']

/-! helper facts about `findK` / `eraseK` for `created_then_hit` -/
theorem findK_last (l : List Entry) (e : Entry) (hl : ∀ x ∈ l, x.k ≠ e.k) :
    findK (l ++ [e]) e.k = some e := by
  unfold findK
  rw [List.find?_append]
  have : l.find? (fun x => x.k == e.k) = none := by
    rw [List.find?_eq_none]; intro x hx; simpa using hl x hx
  rw [this]; simp

theorem findK_none_keys {l : List Entry} {k : Nat} (h : findK l k = none) : ∀ x ∈ l, x.k ≠ k := by
  unfold findK at h
  rw [List.find?_eq_none] at h
  intro x hx; simpa using h x hx

theorem findK_some_key {l : List Entry} {k : Nat} {e : Entry} (h : findK l k = some e) : e.k = k := by
  unfold findK at h
  have := List.find?_some h
  simpa using this

theorem eraseK_keys (l : List Entry) (k : Nat) : ∀ x ∈ eraseK l k, x.k ≠ k := by
  intro x hx
  unfold eraseK at hx
  simpa using (List.mem_filter.mp hx).2

/-- C08.created_then_hit: whenever GetOrCreate(pk) returns a value — by a hit or by a successful
create, with or without an eviction — the entry it returned is resident afterwards: an immediate
second GetOrCreate(pk) is a hit on the same value with no create call and no delete callback
(the entry just used is never the one evicted; needs capacity ≥ 1). -/
theorem created_then_hit (c : Cfg) (hc : 1 ≤ c.cap) (s : EC) (pk v : Nat)
    (h : (s.getOrCreate c pk).2.1 = .val v) :
    ((s.getOrCreate c pk).1.getOrCreate c pk).2 = (.val v, []) := by
  cases hf : findK s.items (c.km pk) with
  | some e =>
    have hk := findK_some_key hf
    have h1 : s.getOrCreate c pk = ({ s with items := eraseK s.items (c.km pk) ++ [e] }, .val e.v, []) := by
      unfold EC.getOrCreate; simp only [hf]
    rw [h1] at h ⊢
    simp only at h
    have h2 := findK_last (eraseK s.items (c.km pk)) e (by rw [hk]; exact eraseK_keys _ _)
    rw [hk] at h2
    unfold EC.getOrCreate
    simp only [h2]
    injection h with h; rw [h]
  | none =>
    have hkeys := findK_none_keys hf
    cases hcr : c.cr pk s.calls with
    | none =>
      have h1 : (s.getOrCreate c pk).2.1 = .err := by
        unfold EC.getOrCreate; simp only [hf, hcr]
      rw [h1] at h; cases h
    | some v' =>
      let new : Entry := { k := c.km pk, pk := pk, v := v' }
      by_cases hfull : c.cap < (s.items ++ [new]).length
      · cases hs : s.items with
        | nil => rw [hs] at hfull; simp at hfull; omega
        | cons a t =>
          have hak : a.k ≠ c.km pk := hkeys a (by rw [hs]; simp)
          have h1 : s.getOrCreate c pk = ({ s with calls := s.calls + 1, items := eraseK (s.items ++ [new]) a.k }, .val v', [.create pk (some v'), .delete a.pk a.v]) := by
            unfold EC.getOrCreate
            simp only [hf, hcr]
            rw [if_pos hfull]
            simp only [hs, List.cons_append]
            rfl
          rw [h1] at h ⊢
          simp only at h
          injection h with h
          have he : eraseK (s.items ++ [new]) a.k = eraseK s.items a.k ++ [new] := by
            unfold eraseK
            rw [List.filter_append]
            congr 1
            simp [new]; exact fun hh => hak hh.symm
          have h2 := findK_last (eraseK s.items a.k) new (by
            intro x hx; unfold eraseK at hx; exact hkeys x (List.mem_filter.mp hx).1)
          unfold EC.getOrCreate
          simp only [he]
          have h3 : new.k = c.km pk := rfl
          rw [h3] at h2
          simp only [h2]; rw [← h]
      · have h1 : s.getOrCreate c pk = ({ s with calls := s.calls + 1, items := s.items ++ [new] }, .val v', [.create pk (some v')]) := by
          unfold EC.getOrCreate
          simp only [hf, hcr]
          rw [if_neg hfull]
        rw [h1] at h ⊢
        simp only at h
        injection h with h
        have h2 := findK_last s.items new hkeys
        have h3 : new.k = c.km pk := rfl
        rw [h3] at h2
        unfold EC.getOrCreate
        simp only [h2]; rw [← h]

/-- non-vacuity: capacity 2, a hit reorders, the next miss evicts the least recently used -/
example :
    let c : Cfg := { cap := 2, km := id, cr := fun pk n => some (100 * pk + n), expOf := fun _ => 0 }
    (runI c EC.new [.getOrCreate 1, .getOrCreate 2, .getOrCreate 1, .getOrCreate 3]).2.map (·.2) =
      [[.create 1 (some 100)], [.create 2 (some 201)], [], [.create 3 (some 302), .delete 2 201]] := by
  decide

end C08
