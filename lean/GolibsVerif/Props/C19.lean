import GolibsVerif.Lemmas.Errs
/-
C19 — Error classes survive wrapping and the gRPC boundary.
Tables and class list are regenerated from errors/grpc.go and errors/errors.go on every run.
-/
namespace C19
open Errs Gen.Errs

/-- C19.tables_consistent: every class that has a gRPC code maps back to itself. -/
theorem tables_consistent : ∀ p ∈ errorsToCode, fromCode p.2 = some p.1 := by
  decide

theorem keys_nodup : (errorsToCode.map (·.1)).Nodup ∧ (grpcToErrors.map (·.1)).Nodup := by
  decide

/-- no class is sent to the code `Unknown` (which GRPCWrap treats as "not a gRPC error") -/
theorem no_unknown_code : ∀ p ∈ errorsToCode, p.2 ≠ .cUnknown := by
  decide

/-- C19.codes_total: each of the 17 codes maps to exactly one class (`fromCode` is a function),
nil only for OK. -/
theorem codes_total : ∀ code ∈ allCodes, (code = .cOK → fromCode code = none) ∧
    (code ≠ .cOK → (fromCode code).isSome = true) := by
  decide

theorem allCodes_complete (code : Code) : code ∈ allCodes := by
  cases code <;> decide

/-- C19.is_after_wrap + no_other_class: for every class with a code and ANY chain of wrappings /
embedding around it (`Around`: around the sentinel or an OS error value of the class, through single
`%w`, embedding, and two-`%w` / `errors.Join` nodes whose other child is `Plain`), in ANY map
iteration order, Is(GRPCWrap(err), class) holds and
Is(GRPCWrap(err), other) fails for every other class. -/
theorem is_after_wrap (c : Cls) (code : Code) (hc : (c, code) ∈ errorsToCode) (e : Err) (h : Around c e)
    (tbl : List (Cls × Code)) (hp : tbl.Perm errorsToCode) (t : Cls) :
    is (grpcWrapOrd tbl e) t = (t == c) :=
  is_grpcWrapOrd_of_around keys_nodup.1 tables_consistent hc h hp t

/-- C19.order_independent -/
theorem order_independent (c : Cls) (e : Err) (h : Around c e)
    (tbl : List (Cls × Code)) (hp : tbl.Perm errorsToCode) :
    grpcStatusCodeOrd tbl e = grpcStatusCodeOrd errorsToCode e := by
  rw [grpcStatusCodeOrd_of_around keys_nodup.1 h hp,
    grpcStatusCodeOrd_of_around keys_nodup.1 h (List.Perm.refl _)]

/-- the code chosen for a chain around a class is the table's code for that class -/
theorem code_of_chain (c : Cls) (code : Code) (hc : (c, code) ∈ errorsToCode) (e : Err) (h : Around c e) :
    grpcStatusCode e = code :=
  grpcStatusCodeOrd_of_around_mem keys_nodup.1 hc h (List.Perm.refl _)

/-- an OS error value (`*fs.PathError` around ENOENT/EEXIST/EACCES) is not a key of the Go map, so
the direct lookup misses; the `errors.Is` loop finds the code of its class in ANY iteration order
(instance of `grpcStatusCodeOrd_of_around_mem` at `Around.os`) -/
theorem os_error_class (c : Cls) (code : Code) (hc : (c, code) ∈ errorsToCode) (m : String)
    (tbl : List (Cls × Code)) (hp : tbl.Perm errorsToCode) :
    grpcStatusCodeOrd tbl (.osErr c m) = code :=
  grpcStatusCodeOrd_of_around_mem keys_nodup.1 hc .os hp

/-- C19.wrap_idempotent, for every error whatsoever -/
theorem wrap_idempotent (e : Err) : grpcWrap (grpcWrap e) = grpcWrap e :=
  grpcWrapOrd_idem no_unknown_code no_unknown_code e

/-- idempotence also holds in every map iteration order -/
theorem wrap_idempotent_ord (tbl : List (Cls × Code)) (hp : tbl.Perm errorsToCode) (e : Err) :
    grpcWrapOrd tbl (grpcWrapOrd tbl e) = grpcWrapOrd tbl e :=
  grpcWrapOrd_idem (fun p hm => no_unknown_code p (hp.mem_iff.1 hm)) no_unknown_code e

/-- stronger form: for ANY error and ANY iteration order, whatever `ExtractObject` returned before
`GRPCWrap` it returns after (the hypotheses `Around`, `EmbedOK`, `markers = 2` below are not needed) -/
theorem extract_after_wrap_any (tbl : List (Cls × Code)) (e : Err) (j : String)
    (hj : extractObject e = some j) : extractObject (grpcWrapOrd tbl e) = some j :=
  extractObject_grpcWrapOrd tbl hj

set_option linter.unusedVariables false in
/-- C19.extract_after_wrap: an object embedded anywhere in the chain is extractable after GRPCWrap
(and before). -/
theorem extract_after_wrap (c : Cls) (e : Err) (h : Around c e) (hok : EmbedOK e)
    (j : String) (hm : markers (text e) = 2) (hj : extractObject e = some j) :
    extractObject (grpcWrap e) = some j :=
  extractObject_grpcWrapOrd errorsToCode hj

set_option linter.unusedVariables false in
theorem extract_embedded (c : Cls) (e : Err) (h : Around c e) (hm : markers (text e) = 0) (j : String)
    (pre post : String) :
    extractObject (.embed j e) = some j ∧ extractObject (.wrap pre post (.embed j e)) = some j ∧
    markers (text (.wrap pre post (.embed j e))) = 2 :=
  ⟨extractObject_embed hm j, extractObject_wrap_embed hm j pre post, markers_wrap_embed hm j pre post⟩

/-- a class without a gRPC code falls back to Internal (so the property is restricted to classes with a code) -/
example : grpcStatusCode (.wrap "x: " "" (.cls .ErrCommunication)) = .cInternal := by decide

/-- non-vacuity -/
example : is (grpcWrap (.wrap "ctx: " "" (.embed "{\"a\":1}" (.cls .ErrNotExist)))) .ErrNotExist = true ∧
    extractObject (grpcWrap (.wrap "ctx: " "" (.embed "{\"a\":1}" (.cls .ErrNotExist)))) = some "{\"a\":1}" := by
  decide

/-- two `%w` verbs: the class of the left child survives GRPCWrap, no other class appears -/
example : is (grpcWrap (.wrap2 "a: " " / " "" (.cls .ErrNotExist) (.other "eof"))) .ErrNotExist = true ∧
    is (grpcWrap (.wrap2 "a: " " / " "" (.cls .ErrNotExist) (.other "eof"))) .ErrInternal = false := by
  decide

/-- a wrapped OS error: found by the table loop only -/
example : is (grpcWrap (.wrap "open x: " "" (.osErr .ErrNotExist "no such file or directory"))) .ErrNotExist = true ∧
    is (grpcWrap (.wrap "open x: " "" (.osErr .ErrNotExist "no such file or directory"))) .ErrInternal = false := by
  decide

end C19
