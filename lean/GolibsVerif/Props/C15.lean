import GolibsVerif.Lemmas.Xbin
/-
C15 — Binary codec: decode(encode(x)) = x and predicted size = written size.
`Gen.Xbin.writableUintSize` is regenerated from the Go source on every run; these theorems are
re-checked against it.
-/
namespace C15
open Xbin

/-- size predicted for an item (Go: 1/2/4/8, WritableUintSize, WritebleBytesSize) -/
def sizeOf : Item → Nat
  | .byte _ => 1 | .u16 _ => 2 | .u32 _ => 4 | .u64 _ => 8
  | .uint v => Gen.Xbin.writableUintSize v
  | .bytes d => Gen.Xbin.writableUintSize d.length + d.length

/-- C15.size_eq_written (varint): the regenerated size function equals the number of bytes
MarshalUint writes, for every 64-bit value and every sufficient buffer. -/
theorem uint_size_eq_written (v n : Nat) (hv : v < 2 ^ 64) (bs : Bytes)
    (h : marshalUint v n = .ok bs) : bs.length = Gen.Xbin.writableUintSize v :=
  by
  obtain ⟨rfl, _⟩ := marshalUint_ok h
  rw [enc_length, numGroups_eq_wus v hv]

/-- C15.short_buffer_errors (varint): error exactly when the buffer is shorter than the predicted size -/
theorem uint_short_buffer_iff (v n : Nat) (hv : v < 2 ^ 64) :
    marshalUint v n = .err ↔ n < Gen.Xbin.writableUintSize v :=
  by
  rw [marshalUint_err_iff, numGroups_eq_wus v hv]

/-- the bytes written do not depend on how much spare room the buffer has -/
theorem uint_bytes_independent_of_room (v n m : Nat) (bs bs' : Bytes)
    (h : marshalUint v n = .ok bs) (h' : marshalUint v m = .ok bs') : bs = bs' :=
  by
  rw [(marshalUint_ok h).1, (marshalUint_ok h').1]

/-- C15.uint_roundtrip + consumes_exactly -/
theorem uint_roundtrip (v n : Nat) (hv : v < 2 ^ 64) (bs rest : Bytes)
    (h : marshalUint v n = .ok bs) : unmarshalUint (bs ++ rest) = .ok (bs.length, v) :=
  by
  obtain ⟨rfl, _⟩ := marshalUint_ok h
  rw [unmarshalUint_enc v hv, enc_length]

/-- C15.uint_prefix_free: the varint code is prefix free and injective — if the encodings of two
64-bit values start the same byte stream (whatever follows each), the values and the encodings
are equal. This is what lets items be concatenated without separators. -/
theorem uint_prefix_free (v v' n m : Nat) (hv : v < 2 ^ 64) (hv' : v' < 2 ^ 64)
    (bs bs' rest rest' : Bytes)
    (h : marshalUint v n = .ok bs) (h' : marshalUint v' m = .ok bs')
    (heq : bs ++ rest = bs' ++ rest') : v = v' ∧ bs = bs' ∧ rest = rest' :=
  by
  have r := uint_roundtrip v n hv bs rest h
  have r' := uint_roundtrip v' m hv' bs' rest' h'
  rw [heq, r'] at r
  injection r with r
  injection r with hl hvv
  have hbs : bs = bs' := by
    have := congrArg (List.take bs.length) heq
    rw [List.take_left', ← hl, List.take_left'] at this <;> first | rfl | exact this
  subst hbs
  exact ⟨hvv.symm, rfl, List.append_cancel_left heq⟩

theorem uint_injective (v v' n m : Nat) (hv : v < 2 ^ 64) (hv' : v' < 2 ^ 64) (bs : Bytes)
    (h : marshalUint v n = .ok bs) (h' : marshalUint v' m = .ok bs) : v = v' :=
  (uint_prefix_free v v' n m hv hv' bs bs [] [] h h' rfl).1

theorem numGroups_mono (w : Nat) : ∀ v, v ≤ w → numGroups v ≤ numGroups w := by
  induction w using Nat.strongRecOn with
  | _ w ih =>
    intro v hvw
    by_cases hw : w > 127
    · by_cases hv : v > 127
      · rw [numGroups_step hw, numGroups_step hv]
        have := ih (w / 128) (by omega) (v / 128) (Nat.div_le_div_right hvw)
        omega
      · rw [numGroups_small (by omega : v ≤ 127)]
        exact numGroups_pos w
    · rw [numGroups_small (by omega : v ≤ 127), numGroups_small (by omega : w ≤ 127)]
      exact Nat.le_refl 1

/-- C15.uint_size_monotone: the regenerated size function is monotone in the value and always
between 1 and 10 bytes for 64-bit values (so a buffer sized for the largest value fits them all). -/
theorem uint_size_monotone (v w : Nat) (hvw : v ≤ w) (hw : w < 2 ^ 64) :
    Gen.Xbin.writableUintSize v ≤ Gen.Xbin.writableUintSize w ∧
    1 ≤ Gen.Xbin.writableUintSize v ∧ Gen.Xbin.writableUintSize w ≤ 10 := by
  have hv : v < 2 ^ 64 := by omega
  rw [← numGroups_eq_wus v hv, ← numGroups_eq_wus w hw]
  refine ⟨numGroups_mono w v hvw, numGroups_pos v, ?_⟩
  exact numGroups_le_of_lt 9 w (by omega)

theorem marshalUint_bytesWF (v n : Nat) (bs : Bytes) (h : marshalUint v n = .ok bs) : BytesWF bs :=
  by
  obtain ⟨rfl, _⟩ := marshalUint_ok h
  exact enc_bytesWF v

/-- fixed width round trips (byte, uint16, uint32, uint64) -/
theorem fixed_roundtrip (k v n : Nat) (hk : k = 1 ∨ k = 2 ∨ k = 4 ∨ k = 8) (hv : v < 2 ^ (8 * k)) (bs rest : Bytes)
    (h : marshalFixed k v n = .ok bs) :
    bs.length = k ∧ BytesWF bs ∧ unmarshalFixed k (bs ++ rest) = .ok (k, v) :=
  by
  have _ := hk  -- the round trip holds for every width; `hk` only records the widths Go uses
  obtain ⟨rfl, _⟩ := marshalFixed_ok h
  exact ⟨putBE_length k v, putBE_bytesWF k v, unmarshalFixed_putBE k v hv rest⟩

theorem fixed_short_buffer_iff (k v n : Nat) : marshalFixed k v n = .err ↔ n < k :=
  marshalFixed_err_iff k v n

/-- ObjectsWriter's 10-byte scratch buffer is always large enough for a 64-bit varint -/
theorem writer_uint (v : Nat) (hv : v < 2 ^ 64) : writerItem (.uint v) = enc v := by
  simp only [writerItem, marshalUint_eq, if_pos (numGroups_le_of_lt 9 v (by omega))]

theorem writer_bytes (d : Bytes) (hd : d.length < 2 ^ 64) :
    writerItem (.bytes d) = enc d.length ++ d := by
  simp only [writerItem, marshalUint_eq, if_pos (numGroups_le_of_lt 9 d.length (by omega))]

/-- the fixed-width instances of `item_roundtrip` -/
theorem fixed_item (k v n : Nat) (mk : Nat → Item) (hv : v < 2 ^ (8 * k))
    (hmar : marshalItem (mk v) n = marshalFixed k v n) (hsize : sizeOf (mk v) = k)
    (hwr : writerItem (mk v) = putBE k v)
    (hun : ∀ buf, unmarshalItem (mk v).kind buf =
      match unmarshalFixed k buf with | .ok (n, v) => .ok n (mk v) | .err => .err 0) :
    (marshalItem (mk v) n = .err ↔ n < sizeOf (mk v)) ∧
    (∀ bs, marshalItem (mk v) n = .ok bs →
        bs.length = sizeOf (mk v) ∧ bs = writerItem (mk v) ∧
        ∀ rest, unmarshalItem (mk v).kind (bs ++ rest) = .ok bs.length (mk v)) := by
  rw [hmar, hsize, hwr]
  refine ⟨marshalFixed_err_iff k v n, fun bs h => ?_⟩
  obtain ⟨rfl, _⟩ := marshalFixed_ok h
  refine ⟨putBE_length k v, rfl, fun rest => ?_⟩
  rw [hun, unmarshalFixed_putBE k v hv rest, putBE_length]

/-- One statement for every kind: for a well-formed item, marshalling into a buffer of length `n`
fails iff `n < sizeOf it`; otherwise it writes exactly `sizeOf it` bytes, the same bytes whatever
the spare room, the same bytes ObjectsWriter emits, and decoding them (followed by anything)
returns the item and consumes exactly those bytes. -/
theorem item_roundtrip (it : Item) (hwf : it.WF) (n : Nat) :
    (marshalItem it n = .err ↔ n < sizeOf it) ∧
    (∀ bs, marshalItem it n = .ok bs →
        bs.length = sizeOf it ∧ bs = writerItem it ∧
        ∀ rest, unmarshalItem it.kind (bs ++ rest) = .ok bs.length it) :=
  by
  cases it with
  | byte v => exact fixed_item 1 v n Item.byte hwf rfl rfl rfl (fun _ => rfl)
  | u16 v => exact fixed_item 2 v n Item.u16 hwf rfl rfl rfl (fun _ => rfl)
  | u32 v => exact fixed_item 4 v n Item.u32 hwf rfl rfl rfl (fun _ => rfl)
  | u64 v => exact fixed_item 8 v n Item.u64 hwf rfl rfl rfl (fun _ => rfl)
  | uint v =>
    have hv : v < 2 ^ 64 := hwf
    refine ⟨uint_short_buffer_iff v n hv, fun bs h => ?_⟩
    obtain ⟨rfl, _⟩ := marshalUint_ok h
    refine ⟨by rw [enc_length]; exact numGroups_eq_wus v hv, (writer_uint v hv).symm, fun rest => ?_⟩
    simp only [unmarshalItem, Item.kind, unmarshalUint_enc v hv rest, enc_length]
  | bytes d =>
    obtain ⟨_, hd⟩ : BytesWF d ∧ d.length < 2 ^ 63 := hwf
    have hl : d.length < 2 ^ 64 := by omega
    have hm := marshalBytes_eq d n
    simp only [marshalItem, sizeOf, ← numGroups_eq_wus _ hl]
    rw [hm]
    constructor
    · split <;> simp [*]
    · intro bs h
      split at h
      · cases h
      · injection h with h
        subst h
        refine ⟨by simp [enc_length], ?_, fun rest => ?_⟩
        · exact (writer_bytes d hl).symm
        · simp only [unmarshalItem, Item.kind, unmarshalBytes_enc d rest hd]
          simp [enc_length]

/-- C15.writer_eq_marshal: ObjectsWriter emits `sizeOf it` bytes, identical to Marshal's -/
theorem writer_eq_marshal (it : Item) (hwf : it.WF) :
    marshalItem it (sizeOf it) = .ok (writerItem it) ∧ (writerItem it).length = sizeOf it :=
  by
  have h := item_roundtrip it hwf (sizeOf it)
  cases hm : marshalItem it (sizeOf it) with
  | err => exact absurd (h.1.mp hm) (Nat.lt_irrefl _)
  | ok bs =>
    obtain ⟨h1, h2, _⟩ := h.2 bs hm
    rw [← h2]; exact ⟨rfl, h1⟩

/-- C15.concat_decodes: any concatenation of encoded items decodes back to the same items and
leaves exactly the trailing bytes. -/
theorem concat_decodes (items : List Item) (hwf : ∀ it ∈ items, it.WF) (rest : Bytes) :
    decodeAll (items.map Item.kind) ((items.map writerItem).flatten ++ rest) = some (items, rest) :=
  by
  induction items with
  | nil => simp [decodeAll]
  | cons it its ih =>
    have hw := hwf it (by simp)
    obtain ⟨hm, hlen⟩ := writer_eq_marshal it hw
    have hdec := (item_roundtrip it hw (sizeOf it)).2 _ hm
    simp only [List.map_cons, List.flatten_cons, List.append_assoc, decodeAll]
    rw [hdec.2.2]
    simp only []
    rw [List.drop_left' rfl, ih (fun x hx => hwf x (by simp [hx]))]

/-- non-vacuity: boundary values of the varint groups -/
example : marshalUint 127 10 = .ok [127] ∧ marshalUint 128 10 = .ok [128, 1] ∧
    marshalUint 16383 10 = .ok [255, 127] ∧ marshalUint 16384 2 = .err ∧
    Gen.Xbin.writableUintSize (2 ^ 64 - 1) = 10 := by decide

end C15
