import GolibsVerif.Lemmas.OMap
/-
C10 — Ordered map: iteration stays correct under any mutation history.
Histories are arbitrary lists of Add/Remove/Get/Len/First/Iterator/HasNext/Next/Close with any
number of simultaneously open iterators (handles are numbered in order of creation; an op on a
handle that is not open is answered `badHandle` by both model and Spec and changes nothing).
-/
namespace C10
open OMap

/-- C10.never_undefined + map_refines_spec: for EVERY history the I-model never reaches a nil
dereference / panic, and every output (Get, Len, First, HasNext, Next, …) equals the Spec's:
entries in insertion order, only those live when reached, none twice, entries added during
iteration are seen, a new iterator and First start at the oldest live entry. -/
theorem map_refines_spec (ops : List Op) :
    ∃ m, runI false M.new ops = some (m, (runS S.new ops).2) := by
  obtain ⟨m, h, _⟩ := reach_sim ops
  exact ⟨m, h⟩

/-- facts about the representation after any history -/
structure Shape (m : M) : Prop where
  head_first : m.chain.head?.map (·.id) = some m.head
  last_final : m.chain.getLast?.map (·.id) = some m.last
  sentinel_only_last : ∀ n ∈ m.chain, (n.st = .last ↔ n.id = m.last)
  ids_distinct : (m.chain.map (·.id)).Nodup
  deleted_pinned : ∀ n ∈ m.chain, n.st = .deleted → 0 < n.refCnt
  refcnt_exact : ∀ n ∈ m.chain, n.refCnt = ((m.its.filter (·.2 == n.id)).length : Int)
  vals_are_ok_nodes : m.vals.length = (m.chain.filter (·.st == .ok)).length

/-- C10.inv -/
theorem inv (ops : List Op) (m : M) (outs : List Out) (h : runI false M.new ops = some (m, outs)) :
    Shape m := by
  have hs := reach_sim' h
  exact
    { head_first := hs.cs.head
      last_final := hs.cs.toStr.getLast
      sentinel_only_last := hs.cs.last_state
      ids_distinct := hs.cs.toStr.nodup
      deleted_pinned := hs.cs.pinned
      refcnt_exact := hs.cs.refc
      vals_are_ok_nodes := by rw [hs.vals, List.length_map, okl, List.length_map] }

/-! Spec-level facts that spell out the property's sentences -/

/-- the Spec's Next returns the oldest live entry at or after the iterator's position and moves past it:
never a removed entry, never one twice (positions strictly increase), in insertion order. -/
theorem spec_next (s : S) (h pos : Nat) (hp : lookupIt s.its h = some pos) :
    match s.firstFrom pos with
    | some e => (s.step (.next h)).2 = .kv e.key e.val ∧ e.alive = true ∧ pos ≤ e.stamp ∧
        lookupIt (s.step (.next h)).1.its h = some (e.stamp + 1)
    | none => (s.step (.next h)).2 = .none ∧ (s.step (.next h)).1 = s :=
  OMap.spec_next s h pos hp

/-- C10.new_iterator_starts_at_oldest_live (for every reachable Spec state: the statement is false
for unreachable states in which `s.its` already holds the handle `s.nextIt`; the general form with
an explicit freshness hypothesis is `OMap.new_iterator_starts_at_oldest_live_of_fresh`) -/
theorem new_iterator_starts_at_oldest_live (ops : List Op) :
    let s := (runS S.new ops).1
    let (s1, o) := s.step .iterator
    o = .handle s.nextIt ∧
    (s1.step (.next s.nextIt)).2 = (match s.live with | e :: _ => .kv e.key e.val | [] => .none) ∧
    (s.step .first).2 = (match s.live with | e :: _ => .key e.key | [] => .none) := by
  obtain ⟨m, _, hs⟩ := reach_sim ops
  exact new_iterator_starts_at_oldest_live_of_fresh _ hs.fresh

/-- regression witness (D1): with the pre-repair `release` the history
Add(1); it := Iterator(); Remove(1); it.Close(); First()  dereferences nil. -/
theorem release_legacy_dangles :
    runI true M.new [.add 1 1, .iterator, .remove 1, .close 0, .first] = none := by
  decide

/-- non-vacuity: the same history is fine with the repaired `release` -/
example : (runI false M.new [.add 1 1, .iterator, .remove 1, .close 0, .first]).isSome = true := by
  decide

end C10
