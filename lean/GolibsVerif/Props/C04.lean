import GolibsVerif.Lemmas.Lock
/-
C04 — Distributed lock: hand-off, cancellation and shutdown leave no residue.
Fault-free runs (`faults = false`), lease assumption in force (`weak = false`).
-/
namespace C04
open Lock

def Quiescent (s : St) : Prop := ∀ g, s.pc g = .idle ∧ s.holds g = false

/-- C04.no_residue: once every call has returned and nobody holds, the lock record is gone, every
Locker's token is back and every counter is 0 — whatever mix of Lock / TryLock / LockWithCtx with
cancellation at any point / Unlock ran before — provided no provider was shut down. -/
theorem no_residue (c : Cfg) (s : St) (h : Reach c false false s) (hq : Quiescent s)
    (hd : ∀ p, s.done p = false) :
    s.lrec = none ∧ ∀ l, s.token l = true ∧ s.cntr l = 0 :=
  by
  have hi := Reach_Inv c false s h
  have hl := Reach_ILive c s h
  have htok : ∀ l, s.token l = true := by
    intro l
    cases ht : s.token l with
    | true => rfl
    | false =>
      rcases hi.tokBack l ht with hd' | ⟨g, _, hg⟩
      · rw [hd] at hd'; cases hd'
      · have hq' := hq g
        rw [hq'.1, hq'.2] at hg
        simp at hg
  refine ⟨?_, fun l => ⟨htok l, hi.tokCnt l (htok l)⟩⟩
  cases hr : s.lrec with
  | none => rfl
  | some r =>
    obtain ⟨g, _, hg⟩ := hl r hr
    have hq' := hq g
    rw [hq'.1, hq'.2] at hg
    simp at hg

/-- the token of a Locker is away exactly while one of its goroutines is in the section (no shutdown) -/
theorem token_exact (c : Cfg) (s : St) (h : Reach c false false s) (hd : ∀ p, s.done p = false) (l : L) :
    s.token l = false ↔ ∃ g, c.lk g = l ∧ InSection s g :=
  by
  have hi := Reach_Inv c false s h
  constructor
  · intro ht
    rcases hi.tokBack l ht with hd' | ⟨g, hg, hs⟩
    · rw [hd] at hd'; cases hd'
    · exact ⟨g, hg, (inSection_iff s g).2 hs⟩
  · rintro ⟨g, rfl, hs⟩
    exact hi.secTok g ((inSection_iff s g).1 hs)

/-- a record exists only while somebody holds or is unlocking (fault-free runs have no orphans) -/
theorem record_has_live_owner (c : Cfg) (s : St) (h : Reach c false false s) (r : Rec) (hr : s.lrec = some r) :
    ∃ g, r.owner = some g ∧ (s.holds g = true ∨ s.pc g = .uCancel ∨ s.pc g = .uDelete) :=
  Reach_ILive c s h r hr

/-- a step taken by a goroutine that is inside a call (not a call step, not an environment step) -/
def Internal (c : Cfg) (s t : St) : Prop :=
  Step c false false s t ∧ ∃ g, s.pc g ≠ .idle ∧ t.pc g ≠ s.pc g

/-- C04.no_deadlock / no lost wake-up: if nobody holds and some caller is still inside a call, some
caller inside a call can take a step — nobody is waiting for an event that can no longer happen. -/
theorem no_deadlock (c : Cfg) (s : St) (h : Reach c false false s)
    (hnh : ∀ g, s.holds g = false) (hw : ∃ g, s.pc g ≠ .idle) (hd : ∀ p, s.done p = false) :
    ∃ t, Internal c s t :=
  by
  obtain ⟨g, hg⟩ := hw
  have hi := Reach_Inv c false s h
  exact moves c s hi.tokCnt hi.tokBack (Reach_ILive c s h) hnh hd g hg

/-- after a successful Delete of the holder every parked waiter can return from its wait and the
next Create succeeds: the hand-off cannot be missed -/
theorem handoff (c : Cfg) (s : St) (g : G) (v : Nat) (hw : s.pc g = .lWait v) (hr : s.lrec = none) :
    ∃ t₁, Step c false false s t₁ ∧ t₁.pc g = (if s.ctxDone g then .lFail else .lCreate) ∧ t₁.lrec = none ∧
      (s.ctxDone g = false → ∃ t₂, Step c false false t₁ t₂ ∧ t₂.holds g = true) :=
  by
  refine ⟨_, Step.lWaitRet s g v false (by simp) hw (Or.inr (Or.inr (Or.inl hr))), by simp [upd], hr, ?_⟩
  intro hcd
  exact ⟨_, Step.lCreateOk _ g (by simp [upd, hcd]) hr, by simp [upd]⟩

/-- C04.after_shutdown_no_acquire (one-step form; `done` is monotone): an attempt standing at the
select after its provider was shut down never gets past it. -/
theorem after_shutdown_no_acquire (c : Cfg) (w f : Bool) (s t : St) (st : Step c w f s t) (g : G)
    (hd : s.done (c.pv (c.lk g)) = true) (hp : s.pc g = .lSelect ∨ s.pc g = .tSelect) :
    (t.pc g = s.pc g ∨ t.pc g = .idle) ∧ t.holds g = s.holds g ∧ t.done (c.pv (c.lk g)) = true :=
  by
  cases st <;> (try split) <;> simp_all [upd] <;> grind

/-- C04.cancel_returns: a LockWithCtx whose context is done leaves the select / the retry loop
through the failure path, and the failure path puts counter and token back. -/
theorem fail_path_restores (c : Cfg) (w f : Bool) (s t : St) (st : Step c w f s t) (g : G)
    (hp : s.pc g = .lFail ∨ s.pc g = .tFail) (hg : t.pc g ≠ s.pc g) :
    t.pc g = .idle ∧ t.token (c.lk g) = true ∧ t.cntr (c.lk g) = 0 ∧ t.holds g = s.holds g :=
  by
  cases st <;> (try split) <;> simp_all [upd] <;> grind

/-- a goroutine on the failure path or at the select is not holding (holders are at `idle`) -/
theorem fail_path_not_holding (c : Cfg) (faults : Bool) (s : St) (h : Reach c false faults s) (g : G)
    (hp : s.pc g = .lFail ∨ s.pc g = .tFail ∨ s.pc g = .lSelect ∨ s.pc g = .tSelect) :
    s.holds g = false :=
  by
  cases hh : s.holds g with
  | false => rfl
  | true =>
    have hi := (Reach_Inv c faults s h).idle g hh
    rw [hi] at hp
    simp at hp

end C04
