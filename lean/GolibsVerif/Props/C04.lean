import GolibsVerif.Lemmas.Lock
/-
C04 — Distributed lock: hand-off, cancellation and shutdown leave no residue.
Fault-free runs (`faults = false`), lease assumption in force (`weak = false`).
-/
namespace C04
open Lock

def Quiescent (s : St) : Prop := ∀ g, s.pc g = .idle ∧ s.holds g = false

/-- C04.no_residue: once every call has returned and nobody holds, the lock record is gone, every
Locker's token is back and every counter is 0 — whatever mix of Lock / TryLock / LockWithCtx with
cancellation at any point / Unlock ran before — provided no provider was shut down. -/
theorem no_residue (c : Cfg) (s : St) (h : Reach c false false s) (hq : Quiescent s)
    (hd : ∀ p, s.done p = false) :
    s.lrec = none ∧ ∀ l, s.token l = true ∧ s.cntr l = 0 :=
  sorry

/-- the token of a Locker is away exactly while one of its goroutines is in the section (no shutdown) -/
theorem token_exact (c : Cfg) (s : St) (h : Reach c false false s) (hd : ∀ p, s.done p = false) (l : L) :
    s.token l = false ↔ ∃ g, c.lk g = l ∧ InSection s g :=
  sorry

/-- a record exists only while somebody holds or is unlocking (fault-free runs have no orphans) -/
theorem record_has_live_owner (c : Cfg) (s : St) (h : Reach c false false s) (r : Rec) (hr : s.lrec = some r) :
    ∃ g, r.owner = some g ∧ (s.holds g = true ∨ s.pc g = .uCancel ∨ s.pc g = .uDelete) :=
  sorry

/-- a step taken by a goroutine that is inside a call (not a call step, not an environment step) -/
def Internal (c : Cfg) (s t : St) : Prop :=
  Step c false false s t ∧ ∃ g, s.pc g ≠ .idle ∧ t.pc g ≠ s.pc g

/-- C04.no_deadlock / no lost wake-up: if nobody holds and some caller is still inside a call, some
caller inside a call can take a step — nobody is waiting for an event that can no longer happen. -/
theorem no_deadlock (c : Cfg) (s : St) (h : Reach c false false s)
    (hnh : ∀ g, s.holds g = false) (hw : ∃ g, s.pc g ≠ .idle) (hd : ∀ p, s.done p = false) :
    ∃ t, Internal c s t :=
  sorry

/-- after a successful Delete of the holder every parked waiter can return from its wait and the
next Create succeeds: the hand-off cannot be missed -/
theorem handoff (c : Cfg) (s : St) (g : G) (v : Nat) (hw : s.pc g = .lWait v) (hr : s.lrec = none) :
    (∃ t, Step c false false s t ∧ t.pc g = (if s.ctxDone g then .lFail else .lCreate)) ∧
    (s.pc g = .lCreate → ∃ t, Step c false false s t ∧ t.holds g = true) :=
  sorry

/-- C04.after_shutdown_no_acquire (one-step form; `done` is monotone): an attempt standing at the
select after its provider was shut down never gets past it. -/
theorem after_shutdown_no_acquire (c : Cfg) (w f : Bool) (s t : St) (st : Step c w f s t) (g : G)
    (hd : s.done (c.pv (c.lk g)) = true) (hp : s.pc g = .lSelect ∨ s.pc g = .tSelect) :
    (t.pc g = s.pc g ∨ t.pc g = .idle) ∧ t.holds g = s.holds g ∧ t.done (c.pv (c.lk g)) = true :=
  sorry

/-- C04.cancel_returns: a LockWithCtx whose context is done leaves the select / the retry loop
through the failure path, and the failure path puts counter and token back. -/
theorem fail_path_restores (c : Cfg) (w f : Bool) (s t : St) (st : Step c w f s t) (g : G)
    (hp : s.pc g = .lFail ∨ s.pc g = .tFail) (hg : t.pc g ≠ s.pc g) :
    t.pc g = .idle ∧ t.token (c.lk g) = true ∧ t.cntr (c.lk g) = 0 ∧ t.holds g = false ∨ s.holds g = true :=
  sorry

end C04
