import GolibsVerif.Lemmas.Lock
/-
C01 — Distributed lock: at most one holder at any instant.
`c : Cfg` is arbitrary: any number of goroutines, any assignment of goroutines to Locker objects
(`c.lk`, several goroutines may share one) and of Lockers to providers (`c.pv`).  `faults` is
arbitrary too: with `faults = true` every storage call may fail as request-lost or reply-lost,
any number of times.  `Reach c false faults s`: reachable under the lease assumption (`mayExpire`).
-/
namespace C01
open Lock

/-- C01.holder_owns_record: a holder — and a goroutine inside Unlock whose Delete has not taken
effect yet — owns the lock record's renewal chain. -/
theorem holder_owns_record (c : Cfg) (faults : Bool) (s : St) (h : Reach c false faults s) (g : G)
    (hg : s.holds g = true ∨ s.pc g = .uCancel ∨ s.pc g = .uDelete) :
    ∃ r, s.lrec = some r ∧ r.owner = some g :=
  (Reach_Inv c faults s h).own g hg

/-- C01.mutex: two callers never hold the lock at the same time — any N, any sharing of Lockers and
providers, any interleaving at storage-call granularity, cancellation anywhere, unboundedly many
request-lost / reply-lost faults. -/
theorem mutex (c : Cfg) (faults : Bool) (s : St) (h : Reach c false faults s) (g₁ g₂ : G)
    (h₁ : s.holds g₁ = true) (h₂ : s.holds g₂ = true) : g₁ = g₂ :=
  by
  have hi := (Reach_Inv c faults s h).own
  obtain ⟨r₁, hr₁, ho₁⟩ := hi g₁ (Or.inl h₁)
  obtain ⟨r₂, hr₂, ho₂⟩ := hi g₂ (Or.inl h₂)
  rw [hr₁] at hr₂
  cases hr₂
  rw [ho₁] at ho₂
  exact Option.some.inj ho₂

/-- one-slot token + 0/1 counter serialise the goroutines that share a Locker -/
theorem locker_serialised (c : Cfg) (faults : Bool) (s : St) (h : Reach c false faults s) (g₁ g₂ : G)
    (hl : c.lk g₁ = c.lk g₂) (h₁ : InSection s g₁) (h₂ : InSection s g₂) : g₁ = g₂ :=
  (Reach_Inv c faults s h).ser g₁ g₂ hl ((inSection_iff s g₁).1 h₁) ((inSection_iff s g₂).1 h₂)

/-- the counter is 1 exactly while some goroutine of the Locker is between taking the token and
Unlock's CAS — so a well-bracketed Unlock never hits the panic branch and Lock never sees a non-zero
counter after taking the token -/
theorem counter_exact (c : Cfg) (faults : Bool) (s : St) (h : Reach c false faults s) (g : G) :
    (s.holds g = true → s.cntr (c.lk g) = 1 ∧ s.token (c.lk g) = false) ∧
    ((s.pc g = .lSelect ∨ s.pc g = .tSelect) → s.token (c.lk g) = true → s.cntr (c.lk g) = 0) :=
  by
  have hi := Reach_Inv c faults s h
  exact ⟨fun hh => ⟨hi.cnt1 g (Or.inl hh), hi.secTok g (Or.inl hh)⟩, fun _ ht => hi.tokCnt _ ht⟩

/-- a renewal can only ever touch a record of the chain it was armed for: versions are never reused -/
theorem versions_fresh (c : Cfg) (faults : Bool) (s : St) (h : Reach c false faults s) :
    (∀ r, s.lrec = some r → r.ver < s.nextVer) ∧ (∀ t ∈ s.armed, t.ver < s.nextVer) ∧
    (∀ u ∈ s.sups, u.ver < s.nextVer) :=
  by
  have hi := (Reach_Inv c faults s h).ver
  exact ⟨hi.1, hi.2.1, fun u hu => (hi.2.2 u hu).1⟩

/-- C01.mutex_needs_timely_unlock (negative; this is known finding KF-1): if the record may lapse as
soon as its owner is no longer *holding* — i.e. while the owner's Unlock has not yet issued its
Delete — two callers can hold at once:
A.Lock ok · A.Unlock{cancel} · lease lapses · B.Lock ok · A's Delete removes B's record · C.Lock ok. -/
theorem mutex_needs_timely_unlock :
    ∃ (c : Cfg) (s : St), Reach c true false s ∧ s.holds 1 = true ∧ s.holds 2 = true :=
  by
  obtain ⟨s, hr, h₁, h₂⟩ := weak_double_hold
  exact ⟨cfgOwn, s, hr, h₁, h₂⟩

/-- non-vacuity: a reachable state with a holder, a waiter parked in WaitForVersionChange on
another Locker and a goroutine blocked on the shared Locker's token -/
theorem nonvacuous : ∃ (c : Cfg) (s : St), Reach c false true s ∧ s.holds 0 = true ∧
    (∃ v, s.pc 1 = .lWait v) ∧ s.pc 2 = .lSelect ∧ c.lk 2 = c.lk 0 ∧ c.lk 1 ≠ c.lk 0 :=
  by
  obtain ⟨s, hr, h₀, h₁, h₂⟩ := nonvacuous_run
  exact ⟨cfgShared, s, hr, h₀, h₁, h₂, by decide, by decide⟩

end C01
