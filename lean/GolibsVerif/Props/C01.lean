import GolibsVerif.Lemmas.Lock
/-
C01 — Distributed lock: at most one holder at any instant.
`c : Cfg` is arbitrary: any number of goroutines, any assignment of goroutines to Locker objects
(`c.lk`, several goroutines may share one) and of Lockers to providers (`c.pv`).  `faults` is
arbitrary too: with `faults = true` every storage call may fail as request-lost or reply-lost,
any number of times.  `Reach c false faults s`: reachable under the lease assumption (`mayExpire`).
-/
namespace C01
open Lock

/-- C01.holder_owns_record: a holder — and a goroutine inside Unlock whose Delete has not taken
effect yet — owns the lock record's renewal chain. -/
theorem holder_owns_record (c : Cfg) (faults : Bool) (s : St) (h : Reach c false faults s) (g : G)
    (hg : s.holds g = true ∨ s.pc g = .uCancel ∨ s.pc g = .uDelete) :
    ∃ r, s.lrec = some r ∧ r.owner = some g :=
  sorry

/-- C01.mutex: two callers never hold the lock at the same time — any N, any sharing of Lockers and
providers, any interleaving at storage-call granularity, cancellation anywhere, unboundedly many
request-lost / reply-lost faults. -/
theorem mutex (c : Cfg) (faults : Bool) (s : St) (h : Reach c false faults s) (g₁ g₂ : G)
    (h₁ : s.holds g₁ = true) (h₂ : s.holds g₂ = true) : g₁ = g₂ :=
  sorry

/-- one-slot token + 0/1 counter serialise the goroutines that share a Locker -/
theorem locker_serialised (c : Cfg) (faults : Bool) (s : St) (h : Reach c false faults s) (g₁ g₂ : G)
    (hl : c.lk g₁ = c.lk g₂) (h₁ : InSection s g₁) (h₂ : InSection s g₂) : g₁ = g₂ :=
  sorry

/-- the counter is 1 exactly while some goroutine of the Locker is between taking the token and
Unlock's CAS — so a well-bracketed Unlock never hits the panic branch and Lock never sees a non-zero
counter after taking the token -/
theorem counter_exact (c : Cfg) (faults : Bool) (s : St) (h : Reach c false faults s) (g : G) :
    (s.holds g = true → s.cntr (c.lk g) = 1 ∧ s.token (c.lk g) = false) ∧
    ((s.pc g = .lSelect ∨ s.pc g = .tSelect) → s.token (c.lk g) = true → s.cntr (c.lk g) = 0) :=
  sorry

/-- a renewal can only ever touch a record of the chain it was armed for: versions are never reused -/
theorem versions_fresh (c : Cfg) (faults : Bool) (s : St) (h : Reach c false faults s) :
    (∀ r, s.lrec = some r → r.ver < s.nextVer) ∧ (∀ t ∈ s.armed, t.ver < s.nextVer) ∧
    (∀ u ∈ s.sups, u.ver < s.nextVer) :=
  sorry

/-- C01.mutex_needs_timely_unlock (negative; this is known finding KF-1): if the record may lapse as
soon as its owner is no longer *holding* — i.e. while the owner's Unlock has not yet issued its
Delete — two callers can hold at once:
A.Lock ok · A.Unlock{cancel} · lease lapses · B.Lock ok · A's Delete removes B's record · C.Lock ok. -/
theorem mutex_needs_timely_unlock :
    ∃ (c : Cfg) (s : St), Reach c true false s ∧ s.holds 1 = true ∧ s.holds 2 = true :=
  sorry

/-- non-vacuity: a reachable state with a holder, a waiter parked in WaitForVersionChange on
another Locker and a goroutine blocked on the shared Locker's token -/
theorem nonvacuous : ∃ (c : Cfg) (s : St), Reach c false true s ∧ s.holds 0 = true ∧
    (∃ v, s.pc 1 = .lWait v) ∧ s.pc 2 = .lSelect ∧ c.lk 2 = c.lk 0 ∧ c.lk 1 ≠ c.lk 0 :=
  sorry

end C01
