import GolibsVerif.Lemmas.TmoHeapOps
/-
Dispatcher level: the invariant of runs, a case summary of `Heap.step`, and `run` lemmas.
-/
namespace Tmo

/-- every future in the heap still has its callback (Cancel removes it from the heap) -/
def Heap.HasFInv (h : Heap) : Prop := ∀ id ∈ h.arr, (h.get id).map (·.hasF) = some true

def Heap.Inv (h : Heap) : Prop := h.IdxInv ∧ h.Ordered ∧ h.HasFInv

theorem Heap.hasF_eq (h : Heap) (id : Nat) :
    (h.get id).map (·.hasF) = ((h.get id).map (fun f => (f.fireT, f.hasF))).map (·.2) := by
  cases h.get id <;> rfl

theorem Heap.hasF_congr {h h' : Heap} (e : h'.data = h.data) (id : Nat) :
    (h'.get id).map (·.hasF) = (h.get id).map (·.hasF) := by
  rw [Heap.hasF_eq, Heap.hasF_eq, Heap.get_congr e]

theorem Heap.pending_eq (h : Heap) : h.pending = h.arr.map fun id => (id, h.key id) := rfl

theorem Heap.inv_new : Heap.new.Inv := by
  refine ⟨⟨?_, ?_, ?_, ?_, ?_⟩, ?_, ?_⟩
  · intro i hi; simp [Heap.new] at hi
  · intro x hx; simp [Heap.new] at hx
  · simp [Heap.new]
  · intro id hid; simp [Heap.new] at hid
  · simp [Heap.new]
  · intro i _ hi; simp [Heap.new] at hi
  · intro id hid; simp [Heap.new] at hid

/-- the callback-clearing update of Cancel -/
def clearF (f : Fut) : Fut := { f with hasF := false }

theorem add_spec {h : Heap} (I : h.Inv) (t : Nat) :
    ∃ h', h.step (.add t) = (h', .id h.fut.length) ∧ h'.Inv ∧
      h'.arr.Perm (h.arr ++ [h.fut.length]) ∧ h'.data = h.data ++ [(h.fut.length, t, true)] := by
  obtain ⟨H, O, F⟩ := I
  obtain ⟨h', e, a, b, c, d⟩ := hPush_spec H O t
  refine ⟨h', by simp only [Heap.step, e], ⟨a, b, ?_⟩, c, d⟩
  intro id hid
  have d' : h'.data = (h.pushRaw t).1.data := by rw [d, Heap.pushRaw_data]
  rw [Heap.hasF_congr d', Heap.pushRaw_get h t id H.2.2.2.2]
  have := c.mem_iff.1 hid
  simp only [List.mem_append, List.mem_singleton] at this
  by_cases e1 : id = h.fut.length
  · rw [if_pos e1]; rfl
  · rw [if_neg e1]; exact F id (this.resolve_right e1)

theorem pop_spec {h : Heap} (I : h.Inv) (hd : Nat) (tl : List Nat) (c : h.arr = hd :: tl) :
    ∃ h', h.hPop = some (h', hd) ∧ h'.Inv ∧ (hd :: h'.arr).Perm h.arr ∧ h'.data = h.data := by
  obtain ⟨H, O, F⟩ := I
  have hn : h.arr.length = tl.length + 1 := by rw [c]; rfl
  obtain ⟨h', e, a, b, p, d⟩ := hPop_spec H O tl.length hn
  have e0 : h.arr[0]'(by omega) = hd := by simp [c]
  rw [e0] at e p
  refine ⟨h', e, ⟨a, b, ?_⟩, p, d⟩
  intro id hid
  rw [Heap.hasF_congr d]
  exact F id (p.mem_iff.1 (List.mem_cons_of_mem _ hid))

theorem hPop_nil {h : Heap} (c : h.arr = []) : h.hPop = none := by
  unfold Heap.hPop; simp [c]

theorem cancel_in {h : Heap} (I : h.Inv) {id : Nat} (hid : id ∈ h.arr) :
    ∃ h', h.step (.cancel id) = (h', .ok) ∧ h'.Inv ∧ (id :: h'.arr).Perm h.arr ∧
      h'.data = (h.upd id clearF).data := by
  obtain ⟨H, O, F⟩ := I
  obtain ⟨k, hk, rfl⟩ := List.mem_iff_getElem.1 hid
  obtain ⟨f, hf, fi⟩ := H.get_some k hk
  have O0 : (h.upd h.arr[k] clearF).Ordered := by
    intro i h0 hi
    rw [Heap.fireAt_upd _ _ _ _ (by intro f; rfl), Heap.fireAt_upd _ _ _ _ (by intro f; rfl)]
    exact O i h0 hi
  obtain ⟨h', e, a, b, p, d⟩ := hRemove_spec (H.clearF h.arr[k]) O0 k hk
  have e' : (h.upd h.arr[k] clearF).hRemove k = some (h', h.arr[k]) := e
  have p' : (h.arr[k] :: h'.arr).Perm h.arr := p
  refine ⟨h', ?_, ⟨a, b, ?_⟩, p', d⟩
  · have n0 : ¬ f.idx < 0 := by rw [fi]; omega
    have tn : f.idx.toNat = k := by rw [fi]; simp
    simp only [Heap.step, hf, if_neg n0, tn]
    change (match (h.upd h.arr[k] clearF).hRemove k with
      | some (h', _) => (h', Out.ok) | none => (h, Out.undefined)) = _
    rw [e']
  · intro x hx
    have nd : (h.arr[k] :: h'.arr).Nodup := p'.nodup_iff.2 H.2.2.1
    have ne : x ≠ h.arr[k] := by
      intro c; subst c; exact (List.nodup_cons.1 nd).1 hx
    rw [Heap.hasF_congr d, Heap.get_upd, if_neg ne]
    exact F x (p'.mem_iff.1 (List.mem_cons_of_mem _ hx))

theorem cancel_out {h : Heap} (H : h.IdxInv) {id : Nat} (hid : id ∉ h.arr) :
    h.step (.cancel id) = (h, if id < h.fut.length then .ok else .undefined) := by
  cases e : h.get id with
  | none =>
    have : ¬ id < h.fut.length := by
      intro c
      obtain ⟨f, hf⟩ := Heap.get_isSome_of_lt H.2.2.2.2 c
      rw [hf] at e; cases e
    simp only [Heap.step, e, if_neg this]
  | some f =>
    have := Heap.lt_of_get H.2.2.2.2 e
    have fi := H.idx_neg hid e
    have n0 : f.idx < 0 := by rw [fi]; omega
    simp only [Heap.step, e, if_pos n0, if_pos this]

/-- output of a pop -/
def popOut (h : Heap) (id : Nat) : Out := .popped id (((h.get id).map (·.hasF)).getD false)

/-- case summary of one critical section -/
theorem step_cases {h : Heap} (I : h.Inv) (op : Op) :
    (∃ t h', op = .add t ∧ h.step op = (h', .id h.fut.length) ∧ h'.Inv ∧
        h'.arr.Perm (h.arr ++ [h.fut.length]) ∧ h'.data = h.data ++ [(h.fut.length, t, true)]) ∨
    (∃ id h', op = .cancel id ∧ id ∈ h.arr ∧ h.step op = (h', .ok) ∧ h'.Inv ∧
        (id :: h'.arr).Perm h.arr ∧ h'.data = (h.upd id clearF).data) ∨
    (∃ id, op = .cancel id ∧ id ∉ h.arr ∧
        h.step op = (h, if id < h.fut.length then .ok else .undefined)) ∨
    (∃ id h', (op = .rawPop ∨ ∃ now, op = .popIfDue now ∧ h.key id ≤ now) ∧ h.arr.head? = some id ∧
        h.step op = (h', popOut h id) ∧ h'.Inv ∧ (id :: h'.arr).Perm h.arr ∧ h'.data = h.data) ∨
    ((∃ now, op = .popIfDue now) ∧ h.step op = (h, .notDue)) ∨
    ((op = .rawPop ∨ ∃ now, op = .popIfDue now) ∧ h.step op = (h, .empty)) := by
  cases op with
  | add t =>
    obtain ⟨h', r⟩ := add_spec I t
    exact Or.inl ⟨t, h', rfl, r⟩
  | cancel id =>
    by_cases hid : id ∈ h.arr
    · obtain ⟨h', r⟩ := cancel_in I hid
      exact Or.inr (Or.inl ⟨id, h', rfl, hid, r⟩)
    · exact Or.inr (Or.inr (Or.inl ⟨id, rfl, hid, cancel_out I.1 hid⟩))
  | popIfDue now =>
    cases c : h.arr with
    | nil =>
      refine Or.inr (Or.inr (Or.inr (Or.inr (Or.inr ⟨Or.inr ⟨now, rfl⟩, ?_⟩))))
      simp only [Heap.step, c, List.head?_nil]
    | cons hd tl =>
      by_cases due : h.key hd ≤ now
      · obtain ⟨h', e, r⟩ := pop_spec I hd tl c
        refine Or.inr (Or.inr (Or.inr (Or.inl ⟨hd, h', Or.inr ⟨now, rfl, due⟩, by simp, ?_, ?_⟩)))
        · have due' : now ≥ ((h.get hd).map (·.fireT)).getD 0 := due
          simp only [Heap.step, c, List.head?_cons, if_pos due']
          rw [e]; rfl
        · rw [← c]; exact r
      · refine Or.inr (Or.inr (Or.inr (Or.inr (Or.inl ⟨⟨now, rfl⟩, ?_⟩))))
        have due' : ¬ now ≥ ((h.get hd).map (·.fireT)).getD 0 := due
        simp only [Heap.step, c, List.head?_cons, if_neg due']
  | rawPop =>
    cases c : h.arr with
    | nil =>
      refine Or.inr (Or.inr (Or.inr (Or.inr (Or.inr ⟨Or.inl rfl, ?_⟩))))
      simp only [Heap.step, hPop_nil c]
    | cons hd tl =>
      obtain ⟨h', e, r⟩ := pop_spec I hd tl c
      refine Or.inr (Or.inr (Or.inr (Or.inl ⟨hd, h', Or.inl rfl, by simp, ?_, ?_⟩)))
      · simp only [Heap.step, e]; rfl
      · rw [← c]; exact r

/-! ### consequences used by the run-level theorems -/

def Out.poppedId : Out → Option Nat
  | .popped i _ => some i
  | _ => none

theorem fut_length_of_data_append {h h' : Heap} {x : Nat × Nat × Bool} (e : h'.data = h.data ++ [x]) :
    h'.fut.length = h.fut.length + 1 := by
  rw [← Heap.data_length, ← Heap.data_length, e]; simp

theorem clearF_fut_length (h : Heap) (id : Nat) {h' : Heap} (e : h'.data = (h.upd id clearF).data) :
    h'.fut.length = h.fut.length := by
  rw [Heap.fut_length_congr e, Heap.upd_fut_length]

theorem step_inv {h : Heap} (I : h.Inv) (op : Op) : (h.step op).1.Inv := by
  rcases step_cases I op with ⟨t, h', _, e, r, _⟩ | ⟨id, h', _, _, e, r, _⟩ | ⟨id, _, _, e⟩ |
    ⟨id, h', _, _, e, r, _⟩ | ⟨_, e⟩ | ⟨_, e⟩ <;> rw [e] <;> first | exact r | exact I

theorem step_mono {h : Heap} (I : h.Inv) (op : Op) :
    (∀ x ∈ (h.step op).1.arr, x ∈ h.arr ∨ h.fut.length ≤ x) ∧
    h.fut.length ≤ (h.step op).1.fut.length ∧
    (∀ id, (h.step op).2.poppedId = some id → id ∈ h.arr ∧ id ∉ (h.step op).1.arr) := by
  rcases step_cases I op with ⟨t, h', _, e, r, p, d⟩ | ⟨id, h', _, _, e, r, p, d⟩ | ⟨id, _, _, e⟩ |
    ⟨id, h', _, _, e, r, p, d⟩ | ⟨_, e⟩ | ⟨_, e⟩ <;> rw [e]
  · refine ⟨?_, ?_, ?_⟩
    · intro x hx
      have := p.mem_iff.1 hx
      simp only [List.mem_append, List.mem_singleton] at this
      rcases this with a | a
      · exact Or.inl a
      · exact Or.inr (by omega)
    · show h.fut.length ≤ h'.fut.length
      rw [fut_length_of_data_append d]; omega
    · intro id hp; simp [Out.poppedId] at hp
  · refine ⟨?_, ?_, ?_⟩
    · intro x hx; exact Or.inl (p.mem_iff.1 (List.mem_cons_of_mem _ hx))
    · show h.fut.length ≤ h'.fut.length
      rw [clearF_fut_length h id d]; exact Nat.le_refl _
    · intro id hp; simp [Out.poppedId] at hp
  · refine ⟨fun x hx => Or.inl hx, Nat.le_refl _, ?_⟩
    intro id' hp
    dsimp only at hp
    split at hp <;> simp [Out.poppedId] at hp
  · refine ⟨?_, ?_, ?_⟩
    · intro x hx; exact Or.inl (p.mem_iff.1 (List.mem_cons_of_mem _ hx))
    · show h.fut.length ≤ h'.fut.length
      rw [Heap.fut_length_congr d]; exact Nat.le_refl _
    · intro id' hp
      simp only [popOut, Out.poppedId, Option.some.injEq] at hp
      subst hp
      have nd : (id :: h'.arr).Nodup := p.nodup_iff.2 I.1.2.2.1
      exact ⟨p.mem_iff.1 List.mem_cons_self, (List.nodup_cons.1 nd).1⟩
  · exact ⟨fun x hx => Or.inl hx, Nat.le_refl _, by intro id hp; simp [Out.poppedId] at hp⟩
  · exact ⟨fun x hx => Or.inl hx, Nat.le_refl _, by intro id hp; simp [Out.poppedId] at hp⟩

/-! ### run -/

theorem run_nil (h : Heap) : run h [] = (h, []) := rfl

theorem run_cons (h : Heap) (op : Op) (ops : List Op) :
    run h (op :: ops) = ((run (h.step op).1 ops).1, (h.step op).2 :: (run (h.step op).1 ops).2) := rfl

theorem run_append (h : Heap) (a b : List Op) :
    run h (a ++ b) = ((run (run h a).1 b).1, (run h a).2 ++ (run (run h a).1 b).2) := by
  induction a generalizing h with
  | nil => rfl
  | cons op a ih => simp only [List.cons_append, run_cons, ih]

theorem run_length (h : Heap) (ops : List Op) : (run h ops).2.length = ops.length := by
  induction ops generalizing h with
  | nil => rfl
  | cons op ops ih => simp only [run_cons, List.length_cons, ih]

theorem run_inv {h : Heap} (I : h.Inv) (ops : List Op) : (run h ops).1.Inv := by
  induction ops generalizing h with
  | nil => exact I
  | cons op ops ih => rw [run_cons]; exact ih (step_inv I op)

/-- every id is popped at most once, and only ids that are in the heap now or are created later -/
theorem run_popped {h : Heap} (I : h.Inv) (ops : List Op) :
    ((run h ops).2.filterMap Out.poppedId).Nodup ∧
    ∀ id ∈ (run h ops).2.filterMap Out.poppedId, id ∈ h.arr ∨ h.fut.length ≤ id := by
  induction ops generalizing h with
  | nil => simp [run_nil]
  | cons op ops ih =>
    obtain ⟨m1, m2, m3⟩ := step_mono I op
    obtain ⟨n1, n2⟩ := ih (step_inv I op)
    have sub : ∀ id ∈ (run (h.step op).1 ops).2.filterMap Out.poppedId, id ∈ h.arr ∨ h.fut.length ≤ id := by
      intro id hid
      rcases n2 id hid with a | a
      · exact m1 id a
      · exact Or.inr (by omega)
    rw [run_cons]
    simp only [List.filterMap_cons]
    cases hp : (h.step op).2.poppedId with
    | none => exact ⟨n1, sub⟩
    | some id =>
      obtain ⟨a, b⟩ := m3 id hp
      have lt : id < h.fut.length := I.1.2.2.2.1 id a
      refine ⟨List.nodup_cons.2 ⟨?_, n1⟩, ?_⟩
      · intro c
        rcases n2 id c with x | x
        · exact b x
        · omega
      · intro x hx
        rcases List.mem_cons.1 hx with rfl | hx
        · exact Or.inl a
        · exact sub x hx

end Tmo
