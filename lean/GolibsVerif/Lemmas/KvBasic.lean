import GolibsVerif.Model.Kv
/-
Basic facts about association-list stores: distinct keys (`Store.WF`), the view of a store at a
time (`Store.vis`), and "equal up to expired records from `now` on" (`Store.Eqv`).
-/
namespace Kv

/-- keys distinct -/
def Store.WF (l : Store) : Prop := l.Pairwise (fun a b => a.1 ≠ b.1)

/-- the records that are not expired at `t` -/
def Store.vis (l : Store) (t : Nat) : Store := l.filter (fun kr => !expired kr.2 t)

theorem Store.WF_iff_nodup (l : Store) : l.WF ↔ (l.map (·.1)).Nodup := by
  unfold Store.WF List.Nodup
  rw [List.pairwise_map]

theorem expired_mono {r : Rec} {t t' : Nat} (h : expired r t = true) (htt : t ≤ t') :
    expired r t' = true := by
  unfold expired at *
  cases hr : r.exp with
  | none => simp [hr] at h
  | some e => simp [hr] at h ⊢; omega

theorem not_expired_anti {r : Rec} {t t' : Nat} (h : expired r t' = false) (htt : t ≤ t') :
    expired r t = false := by
  cases h' : expired r t with
  | false => rfl
  | true => rw [expired_mono h' htt] at h; cases h

/-! ### get / erase / put -/

@[simp] theorem Store.get_nil (k : String) : Store.get [] k = none := rfl

theorem Store.get_cons (k' : String) (r' : Rec) (l : Store) (k : String) :
    Store.get ((k', r') :: l) k = if k' = k then some r' else Store.get l k := by
  unfold Store.get
  by_cases h : k' = k <;> simp [h]

theorem Store.get_eq_none {l : Store} {k : String} (h : ∀ kr ∈ l, kr.1 ≠ k) : l.get k = none := by
  induction l with
  | nil => rfl
  | cons a l ih =>
    obtain ⟨k', r'⟩ := a
    rw [Store.get_cons]
    have h1 : k' ≠ k := h (k', r') (by simp)
    simp only [h1, if_false]
    exact ih (fun kr hkr => h kr (by simp [hkr]))

theorem Store.get_some_mem {l : Store} {k : String} {r : Rec} (h : l.get k = some r) : (k, r) ∈ l := by
  induction l with
  | nil => cases h
  | cons a l ih =>
    obtain ⟨k', r'⟩ := a
    rw [Store.get_cons] at h
    by_cases h1 : k' = k
    · simp [h1] at h; subst h; subst h1; simp
    · simp [h1] at h; simp [ih h]

theorem Store.WF.get_of_mem {l : Store} (hw : l.WF) {k : String} {r : Rec} (h : (k, r) ∈ l) :
    l.get k = some r := by
  induction l with
  | nil => cases h
  | cons a l ih =>
    obtain ⟨k', r'⟩ := a
    rw [Store.get_cons]
    unfold Store.WF at hw
    rw [List.pairwise_cons] at hw
    rcases List.mem_cons.mp h with h1 | h1
    · cases h1; simp
    · have : k' ≠ k := hw.1 (k, r) h1
      simp only [this, if_false]
      exact ih hw.2 h1

theorem Store.mem_erase {l : Store} {k : String} {kr : String × Rec} :
    kr ∈ l.erase k ↔ kr ∈ l ∧ kr.1 ≠ k := by
  unfold Store.erase
  simp [List.mem_filter]

theorem Store.get_erase_self (l : Store) (k : String) : (l.erase k).get k = none :=
  Store.get_eq_none (fun _ h => (Store.mem_erase.mp h).2)

theorem Store.get_erase_ne (l : Store) {k k' : String} (h : k ≠ k') : (l.erase k).get k' = l.get k' := by
  induction l with
  | nil => rfl
  | cons a l ih =>
    obtain ⟨k1, r1⟩ := a
    unfold Store.erase at *
    by_cases h1 : k1 = k
    · subst h1
      simp only [List.filter_cons, bne_self_eq_false, Bool.false_eq_true, if_false]
      rw [ih, Store.get_cons]; simp [h]
    · have : (k1 != k) = true := by simp [h1]
      simp only [List.filter_cons, this, if_true]
      rw [Store.get_cons, Store.get_cons, ih]

theorem Store.get_append (l1 l2 : Store) (k : String) :
    Store.get (l1 ++ l2) k = (l1.get k).or (l2.get k) := by
  unfold Store.get
  rw [List.find?_append]
  cases List.find? (fun x => x.1 == k) l1 <;> simp

theorem Store.get_put_self (l : Store) (k : String) (r : Rec) : (l.put k r).get k = some r := by
  unfold Store.put
  rw [Store.get_append, Store.get_erase_self, Store.get_cons]
  simp

theorem Store.get_put_ne (l : Store) {k k' : String} (r : Rec) (h : k ≠ k') :
    (l.put k r).get k' = l.get k' := by
  unfold Store.put
  rw [Store.get_append, Store.get_erase_ne l h, Store.get_cons]
  simp [h]

theorem Store.erase_erase (l : Store) (k : String) : (l.erase k).erase k = l.erase k := by
  unfold Store.erase
  rw [List.filter_filter]; simp

theorem Store.put_erase (l : Store) (k : String) (r : Rec) : (l.erase k).put k r = l.put k r := by
  unfold Store.put
  rw [Store.erase_erase]

theorem Store.mem_put {l : Store} {k : String} {r : Rec} {kr : String × Rec} :
    kr ∈ l.put k r ↔ (kr ∈ l ∧ kr.1 ≠ k) ∨ kr = (k, r) := by
  unfold Store.put
  simp [Store.mem_erase]

theorem Store.WF.erase {l : Store} (hw : l.WF) (k : String) : (l.erase k).WF :=
  List.Pairwise.filter _ hw

theorem Store.WF.put {l : Store} (hw : l.WF) (k : String) (r : Rec) : (l.put k r).WF := by
  unfold Store.put Store.WF
  rw [List.pairwise_append]
  refine ⟨hw.erase k, by simp, ?_⟩
  intro a ha b hb
  simp at hb; subst hb
  exact (Store.mem_erase.mp ha).2

theorem Store.WF.vis {l : Store} (hw : l.WF) (t : Nat) : (l.vis t).WF :=
  List.Pairwise.filter _ hw

theorem Store.WF_nil : Store.WF [] := List.Pairwise.nil

/-! ### vis -/

theorem Store.vis_vis (l : Store) {t0 t : Nat} (h : t0 ≤ t) : (l.vis t0).vis t = l.vis t := by
  unfold Store.vis
  rw [List.filter_filter]
  apply List.filter_congr
  intro kr _
  cases h1 : expired kr.2 t with
  | false => simp [not_expired_anti h1 h]
  | true => simp

theorem Store.vis_erase (l : Store) (k : String) (t : Nat) : (l.erase k).vis t = (l.vis t).erase k := by
  unfold Store.vis Store.erase
  rw [List.filter_filter, List.filter_filter]
  apply List.filter_congr
  intro kr _
  exact Bool.and_comm _ _

theorem Store.vis_put (l : Store) (k : String) (r : Rec) (t : Nat) :
    (l.put k r).vis t = (l.vis t).erase k ++ Store.vis [(k, r)] t := by
  unfold Store.put
  rw [← Store.vis_erase]
  unfold Store.vis
  rw [List.filter_append]

theorem Store.mem_vis {l : Store} {t : Nat} {kr : String × Rec} :
    kr ∈ l.vis t ↔ kr ∈ l ∧ expired kr.2 t = false := by
  unfold Store.vis
  simp [List.mem_filter]

/-- on a store with distinct keys, the live record is the one found in the view -/
theorem Store.WF.live_eq {l : Store} (hw : l.WF) (n t : Nat) (k : String) :
    Spec.live ⟨l, n⟩ t k = (l.vis t).get k := by
  unfold Spec.live
  simp only
  cases hg : l.get k with
  | none =>
    simp only
    symm
    apply Store.get_eq_none
    intro kr hkr hk
    have hm := (Store.mem_vis.mp hkr).1
    have := hw.get_of_mem (k := kr.1) (r := kr.2) hm
    rw [hk, hg] at this; cases this
  | some r =>
    simp only
    have hm := Store.get_some_mem hg
    cases he : expired r t with
    | true =>
      simp only [if_true]
      symm
      apply Store.get_eq_none
      intro kr hkr hk
      have hm' := Store.mem_vis.mp hkr
      have := hw.get_of_mem (k := kr.1) (r := kr.2) hm'.1
      rw [hk, hg] at this
      cases this
      rw [he] at hm'; cases hm'.2
    | false =>
      simp only [Bool.false_eq_true, if_false]
      symm
      exact (hw.vis t).get_of_mem (Store.mem_vis.mpr ⟨hm, he⟩)

theorem Spec.live_some {s : Spec} {t : Nat} {k : String} {r : Rec} (h : s.live t k = some r) :
    s.store.get k = some r ∧ expired r t = false := by
  unfold Spec.live at h
  cases hg : s.store.get k with
  | none => simp [hg] at h
  | some r' =>
    simp only [hg] at h
    cases he : expired r' t with
    | true => simp [he] at h
    | false => simp [he] at h; subst h; exact ⟨rfl, he⟩

theorem Spec.live_none_of_get_none {s : Spec} {t : Nat} {k : String} (h : s.store.get k = none) :
    s.live t k = none := by
  unfold Spec.live; simp [h]

theorem Spec.live_of_get {s : Spec} {t : Nat} {k : String} {r : Rec} (h : s.store.get k = some r) :
    s.live t k = if expired r t then none else some r := by
  unfold Spec.live; simp [h]

/-! ### Eqv -/

/-- two stores with distinct keys that show the same records at every time from `now` on -/
def Store.Eqv (now : Nat) (l1 l2 : Store) : Prop :=
  l1.WF ∧ l2.WF ∧ ∀ t, now ≤ t → l1.vis t = l2.vis t

theorem Store.Eqv.refl {l : Store} (hw : l.WF) (now : Nat) : Store.Eqv now l l := ⟨hw, hw, fun _ _ => rfl⟩

theorem Store.Eqv.symm {now : Nat} {l1 l2 : Store} (h : Store.Eqv now l1 l2) : Store.Eqv now l2 l1 :=
  ⟨h.2.1, h.1, fun t ht => (h.2.2 t ht).symm⟩

theorem Store.Eqv.trans {now : Nat} {l1 l2 l3 : Store} (h : Store.Eqv now l1 l2) (h' : Store.Eqv now l2 l3) :
    Store.Eqv now l1 l3 :=
  ⟨h.1, h'.2.1, fun t ht => (h.2.2 t ht).trans (h'.2.2 t ht)⟩

theorem Store.Eqv.mono {now t : Nat} {l1 l2 : Store} (h : Store.Eqv now l1 l2) (ht : now ≤ t) :
    Store.Eqv t l1 l2 :=
  ⟨h.1, h.2.1, fun t' ht' => h.2.2 t' (Nat.le_trans ht ht')⟩

theorem Store.Eqv.erase {now : Nat} {l1 l2 : Store} (h : Store.Eqv now l1 l2) (k : String) :
    Store.Eqv now (l1.erase k) (l2.erase k) :=
  ⟨h.1.erase k, h.2.1.erase k, fun t ht => by rw [Store.vis_erase, Store.vis_erase, h.2.2 t ht]⟩

theorem Store.Eqv.put {now : Nat} {l1 l2 : Store} (h : Store.Eqv now l1 l2) (k : String) (r : Rec) :
    Store.Eqv now (l1.put k r) (l2.put k r) :=
  ⟨h.1.put k r, h.2.1.put k r, fun t ht => by rw [Store.vis_put, Store.vis_put, h.2.2 t ht]⟩

theorem Store.Eqv.live {now : Nat} {l1 l2 : Store} (h : Store.Eqv now l1 l2) (n m : Nat) {t : Nat}
    (ht : now ≤ t) (k : String) : Spec.live ⟨l1, n⟩ t k = Spec.live ⟨l2, m⟩ t k := by
  rw [h.1.live_eq, h.2.1.live_eq, h.2.2 t ht]

/-- physically dropping a record that is already expired changes nothing from now on -/
theorem Store.Eqv.purge {l : Store} (hw : l.WF) {k : String} {r : Rec} {now : Nat}
    (hg : l.get k = some r) (he : expired r now = true) : Store.Eqv now (l.erase k) l := by
  refine ⟨hw.erase k, hw, fun t ht => ?_⟩
  unfold Store.vis Store.erase
  rw [List.filter_filter]
  apply List.filter_congr
  intro kr hkr
  by_cases hk : kr.1 = k
  · have := hw.get_of_mem (k := kr.1) (r := kr.2) hkr
    rw [hk, hg] at this
    cases this
    simp [expired_mono he ht]
  · simp [hk]

theorem Store.Eqv.vis_self {l : Store} (hw : l.WF) (now : Nat) : Store.Eqv now (l.vis now) l :=
  ⟨hw.vis now, hw, fun _ ht => Store.vis_vis l ht⟩

/-- the ListKeys answer is a function of the view -/
theorem Spec.list_eq (s : Spec) (now : Nat) (pat : String) :
    s.step now (.list pat) =
      (s, .keys (sortStrings (((s.store.vis now).filter fun kr => globMatch pat.toList kr.1.toList).map (·.1)))) := by
  unfold Spec.step Store.vis
  simp only
  rw [List.filter_filter]
  congr 4
  apply List.filter_congr
  intro kr _
  exact Bool.and_comm _ _

end Kv
