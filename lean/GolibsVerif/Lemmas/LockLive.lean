import GolibsVerif.Lemmas.LockBasic
import GolibsVerif.Lemmas.LockInvB
/- enabledness lemmas for C04.no_deadlock (fault-free, lease assumption) -/
namespace Lock

/-- some goroutine that is inside a call changes its pc in `s → t` -/
def Moves (c : Cfg) (s : St) : Prop :=
  ∃ t, Step c false false s t ∧ ∃ g, s.pc g ≠ .idle ∧ t.pc g ≠ s.pc g

/-- a goroutine past the select and not parked in the wait always has an enabled step -/
theorem moves_easy (c : Cfg) (s : St) (g : G)
    (h : s.pc g ≠ .idle ∧ s.pc g ≠ .lSelect ∧ s.pc g ≠ .tSelect ∧ ∀ v, s.pc g ≠ .lWait v) : Moves c s := by
  cases hp : s.pc g with
  | idle => simp [hp] at h
  | lSelect => simp [hp] at h
  | tSelect => simp [hp] at h
  | lWait v => simp [hp] at h
  | lCtxCheck =>
    cases hd : s.ctxDone g with
    | false => exact ⟨_, Step.lCtxOk s g hp hd, g, by simp [hp], by simp [upd, hp]⟩
    | true => exact ⟨_, Step.lCtxErr s g hp hd, g, by simp [hp], by simp [upd, hp]⟩
  | lCreate =>
    cases hr : s.lrec with
    | none => exact ⟨_, Step.lCreateOk s g hp hr, g, by simp [hp], by simp [upd, hp]⟩
    | some r => exact ⟨_, Step.lCreateExists s g r hp hr, g, by simp [hp], by simp [upd, hp]⟩
  | lFail => exact ⟨_, Step.lFail s g hp, g, by simp [hp], by simp [upd, hp]⟩
  | tCreate =>
    cases hr : s.lrec with
    | none => exact ⟨_, Step.tCreateOk s g hp hr, g, by simp [hp], by simp [upd, hp]⟩
    | some r => exact ⟨_, Step.tCreateExists s g r hp hr, g, by simp [hp], by simp [upd, hp]⟩
  | tFail => exact ⟨_, Step.tFail s g hp, g, by simp [hp], by simp [upd, hp]⟩
  | uCancel => exact ⟨_, Step.uCancel s g hp, g, by simp [hp], by simp [upd, hp]⟩
  | uDelete => exact ⟨_, Step.uDeleteEffect s g hp, g, by simp [hp], by simp [upd, hp]⟩
  | uToken => exact ⟨_, Step.uToken s g hp, g, by simp [hp], by simp [upd, hp]⟩

/-- a parked waiter: either the record is gone (its wait returns) or the record's live owner is
inside Unlock and moves -/
theorem moves_wait (c : Cfg) (s : St) (hl : ILive s) (hnh : ∀ g, s.holds g = false) (g : G) (v : Nat)
    (hp : s.pc g = .lWait v) : Moves c s := by
  cases hr : s.lrec with
  | none =>
    refine ⟨_, Step.lWaitRet s g v false (by simp) hp (Or.inr (Or.inr (Or.inl hr))), g, by simp [hp], ?_⟩
    cases hd : s.ctxDone g <;> simp [upd, hp]
  | some r =>
    obtain ⟨g₀, _, hg₀⟩ := hl r hr
    rw [hnh g₀] at hg₀
    apply moves_easy c s g₀
    rcases hg₀ with h | h | h
    · cases h
    · simp [h]
    · simp [h]

theorem moves_tSelect (c : Cfg) (s : St) (htc : ITokCnt s) (hd : ∀ p, s.done p = false) (g : G)
    (hp : s.pc g = .tSelect) : Moves c s := by
  cases ht : s.token (c.lk g) with
  | false => exact ⟨_, Step.tSelDefault s g hp ht (hd _), g, by simp [hp], by simp [upd, hp]⟩
  | true => exact ⟨_, Step.tSelToken s g hp ht (hd _) (htc _ ht), g, by simp [hp], by simp [upd, hp]⟩

theorem moves_lSelect (c : Cfg) (s : St) (htc : ITokCnt s) (htb : ITokBack c s) (hl : ILive s)
    (hnh : ∀ g, s.holds g = false) (hd : ∀ p, s.done p = false) (g : G)
    (hp : s.pc g = .lSelect) : Moves c s := by
  cases ht : s.token (c.lk g) with
  | true => exact ⟨_, Step.lSelToken s g hp ht (hd _) (htc _ ht), g, by simp [hp], by simp [upd, hp]⟩
  | false =>
    rcases htb _ ht with h | ⟨g', _, hs⟩
    · rw [hd] at h; cases h
    · rw [hnh g'] at hs
      have hs' : (s.pc g').sec = true := by simpa using hs
      by_cases hw : ∃ v, s.pc g' = .lWait v
      · obtain ⟨v, hv⟩ := hw
        exact moves_wait c s hl hnh g' v hv
      · apply moves_easy c s g'
        refine ⟨?_, ?_, ?_, fun v hv => hw ⟨v, hv⟩⟩ <;> intro h <;> simp [h] at hs'

theorem moves (c : Cfg) (s : St) (htc : ITokCnt s) (htb : ITokBack c s) (hl : ILive s)
    (hnh : ∀ g, s.holds g = false) (hd : ∀ p, s.done p = false) (g : G) (hp : s.pc g ≠ .idle) : Moves c s := by
  by_cases h1 : s.pc g = .lSelect
  · exact moves_lSelect c s htc htb hl hnh hd g h1
  by_cases h2 : s.pc g = .tSelect
  · exact moves_tSelect c s htc hd g h2
  by_cases h3 : ∃ v, s.pc g = .lWait v
  · obtain ⟨v, hv⟩ := h3
    exact moves_wait c s hl hnh g v hv
  exact moves_easy c s g ⟨hp, h1, h2, fun v hv => h3 ⟨v, hv⟩⟩

end Lock
