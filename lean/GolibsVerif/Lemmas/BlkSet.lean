import GolibsVerif.Lemmas.BlkInv
/-! Effect of writing one header byte on the header bytes and on `isAlloc`. -/
namespace Blk

theorem hb_mk_set (b : B) (sg f : Nat) (a : Int) {s p v s' p' : Nat}
    (hin : s * b.segmSize + p < b.mem.length) (hp : p < b.bs) (hp' : p' < b.bs) :
    (B.mk b.bs sg f a (b.mem.set (s * b.segmSize + p) v)).hb s' p' =
      if s' = s ∧ p' = p then v else b.hb s' p' := by
  show (b.mem.set (s * b.segmSize + p) v).getD (s' * b.segmSize + p') 0 = _
  by_cases h : s' = s ∧ p' = p
  · obtain ⟨rfl, rfl⟩ := h
    simp only [and_self, ↓reduceIte]
    exact getD_set_eq hin
  · rw [if_neg h]
    apply getD_set_ne
    intro he
    have hZ := b.bs_le_segm
    have := off_inj (Z := b.segmSize) (by omega) (by omega) he
    exact h ⟨this.1.symm, this.2.symm⟩

/-- setting bit `j` of header byte `(s, p)` allocates exactly block `s*K + p*8 + j` -/
theorem isAlloc_set_or (b : B) (sg f : Nat) (a : Int) (hbs : 0 < b.bs) (hbytes : ∀ x ∈ b.mem, x < 256)
    {s p j : Nat} (hin : s * b.segmSize + p < b.mem.length) (hp : p < b.bs) (hj : j < 8) (k : Nat) :
    (B.mk b.bs sg f a (b.mem.set (s * b.segmSize + p) (b.hb s p ||| 1 <<< j))).isAlloc k = true ↔
      (k = s * (8 * b.bs) + p * 8 + j ∨ b.isAlloc k = true) := by
  have hp' : k % (8 * b.bs) / 8 < b.bs := idx_byte_lt hbs
  have hj' : k % (8 * b.bs) % 8 < 8 := Nat.mod_lt _ (by omega)
  have hk := idx_encode (8 * b.bs) k
  rw [B.isAlloc_eq, B.isAlloc_eq]
  show ((B.mk b.bs sg f a _).hb (k / (8 * b.bs)) (k % (8 * b.bs) / 8) &&& _ != 0) = true ↔ _
  rw [hb_mk_set b sg f a hin hp hp']
  generalize k / (8 * b.bs) = s' at *
  generalize k % (8 * b.bs) / 8 = p' at *
  generalize k % (8 * b.bs) % 8 = j' at *
  have hv : b.hb s p < 256 := getD_lt hbytes _
  by_cases h : s' = s ∧ p' = p
  · obtain ⟨rfl, rfl⟩ := h
    simp only [and_self, ↓reduceIte, bne_iff_ne, ne_eq]
    rw [or_and_zero hv hj hj']
    constructor
    · intro h
      by_cases hjj : j' = j
      · left; rw [hk, hjj]
      · right; exact fun h0 => h ⟨hjj, h0⟩
    · rintro (h | h)
      · have := coord_inj hp' hj' hp hj (hk ▸ h)
        intro h2; exact h2.1 this.2.2
      · intro h2; exact h h2.2
  · rw [if_neg h]
    constructor
    · intro h; right; exact h
    · rintro (h1 | h1)
      · have := coord_inj hp' hj' hp hj (hk ▸ h1)
        exact absurd ⟨this.1, this.2.1⟩ h
      · exact h1

/-- clearing bit `j` of header byte `(s, p)` frees exactly block `s*K + p*8 + j` -/
theorem isAlloc_set_clr (b : B) (sg f : Nat) (a : Int) (hbs : 0 < b.bs) (hbytes : ∀ x ∈ b.mem, x < 256)
    {s p j : Nat} (hin : s * b.segmSize + p < b.mem.length) (hp : p < b.bs) (hj : j < 8) (k : Nat) :
    (B.mk b.bs sg f a (b.mem.set (s * b.segmSize + p) (b.hb s p &&& (0xFF ^^^ 1 <<< j)))).isAlloc k = true ↔
      (k ≠ s * (8 * b.bs) + p * 8 + j ∧ b.isAlloc k = true) := by
  have hp' : k % (8 * b.bs) / 8 < b.bs := idx_byte_lt hbs
  have hj' : k % (8 * b.bs) % 8 < 8 := Nat.mod_lt _ (by omega)
  have hk := idx_encode (8 * b.bs) k
  rw [B.isAlloc_eq, B.isAlloc_eq]
  show ((B.mk b.bs sg f a _).hb (k / (8 * b.bs)) (k % (8 * b.bs) / 8) &&& _ != 0) = true ↔ _
  rw [hb_mk_set b sg f a hin hp hp']
  generalize k / (8 * b.bs) = s' at *
  generalize k % (8 * b.bs) / 8 = p' at *
  generalize k % (8 * b.bs) % 8 = j' at *
  have hv : b.hb s p < 256 := getD_lt hbytes _
  by_cases h : s' = s ∧ p' = p
  · obtain ⟨rfl, rfl⟩ := h
    simp only [and_self, ↓reduceIte, bne_iff_ne, ne_eq]
    rw [clr_and_zero hv hj hj']
    constructor
    · intro h
      refine ⟨?_, fun h0 => h (Or.inr h0)⟩
      intro he
      have := coord_inj hp' hj' hp hj (hk ▸ he)
      exact h (Or.inl this.2.2)
    · rintro ⟨h1, h2⟩ (h3 | h3)
      · apply h1; rw [hk, h3]
      · exact h2 h3
  · rw [if_neg h]
    constructor
    · intro h1
      refine ⟨?_, h1⟩
      intro he
      have := coord_inj hp' hj' hp hj (hk ▸ he)
      exact h ⟨this.1, this.2.1⟩
    · exact fun h1 => h1.2

end Blk
