import GolibsVerif.Model.Kv
/-! Frame lemmas about the Redis server model `Kv.RedisSrv` (purge / get / set / del), with NO
well-formedness assumption on the key list.  Used by Lemmas/RedisConc*.lean and Props/C02Redis.lean. -/
namespace Kv

/-- the key is still there at `now`: no deadline, or a deadline in the future -/
def RVal.alive (v : RVal) (now : Nat) : Bool := match v.deadline with | some d => decide (now < d) | none => true

theorem RedisSrv.purge_keys (r : RedisSrv) (now : Nat) :
    (r.purge now).keys = r.keys.filter (fun kv => kv.2.alive now) := by
  unfold RedisSrv.purge
  simp only
  apply List.filter_congr
  intro kv _
  obtain ⟨k, v⟩ := kv
  simp only [RVal.alive]
  cases v.deadline <;> rfl

theorem RedisSrv.get_def (r : RedisSrv) (k : String) : r.get k = (r.keys.find? (·.1 == k)).map (·.2) := rfl

theorem RedisSrv.purge_purge (r : RedisSrv) (now : Nat) : (r.purge now).purge now = r.purge now := by
  unfold RedisSrv.purge
  simp only [List.filter_filter, Bool.and_self]

theorem find_filter_ne (l : List (String × RVal)) (p : String × RVal → Bool) {k k' : String} (h : k ≠ k') :
    ((l.filter (·.1 != k')).filter p).find? (·.1 == k) = (l.filter p).find? (·.1 == k) := by
  rw [List.find?_filter, List.find?_filter, List.find?_filter]
  congr 1
  funext a
  by_cases h1 : a.1 = k
  · have h2 : a.1 ≠ k' := fun h2 => h (h1.symm.trans h2)
    simp [h2]
  · simp [h1]

theorem find_filter_self (l : List (String × RVal)) (p : String × RVal → Bool) (k : String) :
    ((l.filter (·.1 != k)).filter p).find? (·.1 == k) = none := by
  rw [List.find?_eq_none]
  intro x hx
  have := (List.mem_filter.mp (List.mem_filter.mp hx).1).2
  simpa using this

theorem RedisSrv.get_purge_set_ne (r : RedisSrv) (now : Nat) {k k' : String} (v : RVal) (h : k ≠ k') :
    ((r.set k' v).purge now).get k = (r.purge now).get k := by
  rw [RedisSrv.get_def, RedisSrv.get_def, RedisSrv.purge_keys, RedisSrv.purge_keys]
  simp only [RedisSrv.set, List.filter_append, List.find?_append, find_filter_ne _ _ h]
  have : (List.filter (fun kv : String × RVal => kv.2.alive now) [(k', v)]).find? (·.1 == k) = none := by
    rw [List.find?_eq_none]
    intro x hx
    have := (List.mem_filter.mp hx).1
    simp only [List.mem_singleton] at this
    subst this
    simpa using fun h' => h h'.symm
  rw [this, Option.or_none]

theorem RedisSrv.get_purge_del_ne (r : RedisSrv) (now : Nat) {k k' : String} (h : k ≠ k') :
    ((r.del k').purge now).get k = (r.purge now).get k := by
  rw [RedisSrv.get_def, RedisSrv.get_def, RedisSrv.purge_keys, RedisSrv.purge_keys]
  simp only [RedisSrv.del, find_filter_ne _ _ h]

theorem RedisSrv.get_purge_set_self (r : RedisSrv) (now : Nat) (k : String) (v : RVal) :
    ((r.set k v).purge now).get k = if v.alive now then some v else none := by
  rw [RedisSrv.get_def, RedisSrv.purge_keys]
  simp only [RedisSrv.set, List.filter_append, List.find?_append, find_filter_self]
  by_cases ha : v.alive now = true <;> simp [ha]

theorem RedisSrv.get_set_self (r : RedisSrv) (k : String) (v : RVal) : (r.set k v).get k = some v := by
  rw [RedisSrv.get_def]
  simp only [RedisSrv.set, List.find?_append]
  have : (r.keys.filter (·.1 != k)).find? (·.1 == k) = none := by
    rw [List.find?_eq_none]
    intro x hx
    simpa using (List.mem_filter.mp hx).2
  rw [this]
  simp

theorem RedisSrv.get_purge_del_self (r : RedisSrv) (now : Nat) (k : String) :
    ((r.del k).purge now).get k = none := by
  rw [RedisSrv.get_def, RedisSrv.purge_keys]
  simp only [RedisSrv.del, find_filter_self, Option.map_none]

/-- a key set with `deadlineOf` is alive at the time of writing … -/
theorem alive_deadlineOf (r : Rec) (e : Option Nat) (now : Nat) :
    RVal.alive { r := r, deadline := deadlineOf e now } now = true := by
  cases e with
  | none => rfl
  | some x =>
    simp only [RVal.alive, deadlineOf, Option.map_some, decide_eq_true_eq]
    split <;> omega

/-- … and at a later time `t` iff `t` lies before both `now + 1` … `e` (whichever is later) -/
theorem alive_deadlineOf_later (r : Rec) (e now t : Nat) :
    RVal.alive { r := r, deadline := deadlineOf (some e) now } t = decide (t < max e (now + 1)) := by
  simp only [RVal.alive, deadlineOf, Option.map_some]
  congr 1
  apply propext
  split <;> omega

end Kv
