import GolibsVerif.Lemmas.OMapRel3
/- HasNext / Next / Close preserve the refinement relation. -/
set_option linter.unusedSimpArgs false
namespace OMap

namespace Sim
variable {m : M} {s : S}

theorem spec_pos (h : Sim m s) {hd p : Nat} (hp : lookupIt m.its hd = some p) :
    ∃ pos, lookupIt s.its hd = some pos := by
  have : lookupIt s.its hd ≠ none := by
    intro hc; rw [← h.lookup_none_iff] at hc; rw [hc] at hp; cases hp
  exact Option.ne_none_iff_exists'.mp this

theorem firstFrom_trip (h : Sim m s) (pos : Nat) :
    (s.firstFrom pos).map trip = (okl m.chain).find? (fun t => decide (pos ≤ t.1)) := by
  unfold S.firstFrom
  rw [← h.live, find_live_trip]
  rfl

/-- the stepping iterator `hd` has moved to node `q` (Spec position `pos'`) -/
theorem move (h : Sim m s) {m1 : M} {hd p q pos' : Nat} {sits' : List (Nat × Nat)}
    (hp : lookupIt m.its hd = some p) (hsame : Same m m1)
    (hcs : CS m1.chain m1.head m1.last (plus (rcOf (m.its.filter (·.1 != hd))) q))
    (hokl : okl m1.chain = okl m.chain)
    (hh : sits'.map (·.1) = s.its.map (·.1))
    (hl : ∀ h', lookupIt sits' h' = if h' = hd then some pos' else lookupIt s.its h')
    (hrel : ∀ t ∈ okl m.chain, (q ≤ t.1 ↔ pos' ≤ t.1)) (hle : pos' ≤ m.last) :
    Sim { m1 with its := setIt m1.its hd q } { s with its := sits' } := by
  obtain ⟨e1, e2, e3, e4, e5⟩ := hsame
  constructor
  · show CS m1.chain m1.head m1.last (rcOf (setIt m1.its hd q))
    rw [e4, ← h.rc_join hp q]; exact hcs
  · show m1.nextId = m1.last + 1
    rw [e1, e3]; exact h.nextId
  · show HAsc (setIt m1.its hd q)
    rw [e4]; exact h.hasc.setIt hd q
  · show ∀ x ∈ (setIt m1.its hd q).map (·.1), x < m1.nextIt
    rw [e4, e5, map_fst_setIt]; exact h.hlt
  · show m1.vals = _
    rw [e2, hokl]; exact h.vals
  · show ((okl m1.chain).map (·.2.1)).Nodup
    rw [hokl]; exact h.keys
  · show s.nextStamp = m1.last
    rw [e1]; exact h.stamp
  · show s.nextIt = m1.nextIt
    rw [e5]; exact h.nextIt
  · show s.live.map trip = okl m1.chain
    rw [hokl]; exact h.live
  · show sits'.map (·.1) = (setIt m1.its hd q).map (·.1)
    rw [hh, e4, map_fst_setIt]; exact h.handles
  · intro h' p' pos hp' hpos
    have hp'' : lookupIt (setIt m1.its hd q) h' = some p' := hp'
    have hpos' : lookupIt sits' h' = some pos := hpos
    show (∀ t ∈ okl m1.chain, _) ∧ pos ≤ m1.last
    rw [hokl, e1]
    rw [e4, lookupIt_setIt] at hp''
    rw [hl] at hpos'
    by_cases he : h' = hd
    · simp only [he, if_true, hp, Option.map_some, Option.some.injEq] at hp'' hpos'
      subst hp'' hpos'
      exact ⟨hrel, hle⟩
    · simp only [he, if_false] at hp'' hpos'
      exact h.itrel h' p' pos hp'' hpos'

/-- the iterator `hd` has been closed -/
theorem drop (h : Sim m s) {m1 : M} {hd p : Nat}
    (_hp : lookupIt m.its hd = some p) (hsame : Same m m1)
    (hcs : CS m1.chain m1.head m1.last (rcOf (m.its.filter (·.1 != hd))))
    (hokl : okl m1.chain = okl m.chain) :
    Sim { m1 with its := m1.its.filter (·.1 != hd) } { s with its := s.its.filter (·.1 != hd) } := by
  obtain ⟨e1, e2, e3, e4, e5⟩ := hsame
  constructor
  · show CS m1.chain m1.head m1.last (rcOf (m1.its.filter (·.1 != hd)))
    rw [e4]; exact hcs
  · show m1.nextId = m1.last + 1
    rw [e1, e3]; exact h.nextId
  · show HAsc (m1.its.filter (·.1 != hd))
    rw [e4]; exact h.hasc.filter hd
  · show ∀ x ∈ (m1.its.filter (·.1 != hd)).map (·.1), x < m1.nextIt
    rw [e4, e5, map_fst_filter]
    intro x hx; exact h.hlt x (List.mem_filter.mp hx).1
  · show m1.vals = _
    rw [e2, hokl]; exact h.vals
  · show ((okl m1.chain).map (·.2.1)).Nodup
    rw [hokl]; exact h.keys
  · show s.nextStamp = m1.last
    rw [e1]; exact h.stamp
  · show s.nextIt = m1.nextIt
    rw [e5]; exact h.nextIt
  · show s.live.map trip = okl m1.chain
    rw [hokl]; exact h.live
  · show (s.its.filter (·.1 != hd)).map (·.1) = (m1.its.filter (·.1 != hd)).map (·.1)
    rw [e4, map_fst_filter, map_fst_filter, h.handles]
  · intro h' p' pos hp' hpos
    have hp'' : lookupIt (m1.its.filter (·.1 != hd)) h' = some p' := hp'
    have hpos' : lookupIt (s.its.filter (·.1 != hd)) h' = some pos := hpos
    show (∀ t ∈ okl m1.chain, _) ∧ pos ≤ m1.last
    rw [hokl, e1]
    rw [e4, lookupIt_filter] at hp''
    rw [lookupIt_filter] at hpos'
    by_cases he : h' = hd
    · simp [he] at hp''
    · simp only [he, if_false] at hp'' hpos'
      exact h.itrel h' p' pos hp'' hpos'

end Sim

/-- what a (non-deleted) node `q` sees as the next entry -/
theorem find_from_node {c : List Node} {hd L : Nat} {rc : Nat → Int} (hs : CS c hd L rc)
    {q : Nat} {n1 : Node} (hf : findNode c q = some n1) (hnd : n1.st ≠ .deleted) :
    (okl c).find? (fun t => decide (q ≤ t.1)) =
      if n1.st = .last then none else some (q, n1.key, n1.val) := by
  obtain ⟨hmem, hid⟩ := findNode_mem hf
  by_cases hst : n1.st = .last
  · rw [if_pos hst, List.find?_eq_none]
    intro t ht hq
    obtain ⟨y, hy, hyok, rfl⟩ := mem_okl.mp ht
    have h2 := hs.le_last y hy
    have h3 := (hs.last_state n1 hmem).mp hst
    have h4 : y.id = n1.id := by simp at hq; omega
    have := mem_id_unique hs.asc hy hmem h4
    rw [this, hst] at hyok; simp at hyok
  · rw [if_neg hst]
    have hok : n1.st = .ok := by cases h : n1.st <;> simp_all
    have hm : (q, n1.key, n1.val) ∈ okl c := by
      rw [← hid]; exact mem_okl.mpr ⟨n1, hmem, hok, rfl⟩
    exact find_sorted (okl_sorted hs.asc) hm

theorem step_hasNext {m : M} {s : S} (h : Sim m s) (hd : Nat) :
    ∃ m', m.stepCore false (.hasNext hd) = some (m', (s.step (.hasNext hd)).2) ∧
      Sim m' (s.step (.hasNext hd)).1 := by
  simp only [M.stepCore, S.step]
  cases hp : lookupIt m.its hd with
  | none =>
    rw [(h.lookup_none_iff hd).mp hp]
    exact ⟨m, rfl, h⟩
  | some p =>
    obtain ⟨pos, hpos⟩ := h.spec_pos hp
    obtain ⟨n, hn⟩ := h.ptr_node hp
    have hcs := h.cs; rw [h.rc_split hp] at hcs
    obtain ⟨m1, p1, n1, hgv, hcs1, hok1, hsame1, hf1, hnd1, hle1, hA⟩ := getValue_spec hn hcs
    obtain ⟨hr1, hr2⟩ := h.itrel hd p pos hp hpos
    have hrel : ∀ t ∈ okl m.chain, (p1 ≤ t.1 ↔ pos ≤ t.1) := by
      intro t ht; rw [← hA t ht]; exact hr1 t ht
    have hout : (s.firstFrom pos).isSome = (n1.st != .last) := by
      have h1 := h.firstFrom_trip pos
      have h2 : (okl m.chain).find? (fun t => decide (pos ≤ t.1)) =
          (okl m.chain).find? (fun t => decide (p1 ≤ t.1)) := by
        apply find_congr; intro t ht; simp [hrel t ht]
      rw [h2, ← hok1, find_from_node hcs1 hf1 hnd1] at h1
      have h3 : (s.firstFrom pos).isSome = ((s.firstFrom pos).map trip).isSome := by simp
      rw [h3, h1]
      by_cases hst : n1.st = .last <;> simp [hst]
    simp only [hpos, hgv, hf1, hout]
    refine ⟨_, rfl, ?_⟩
    have := h.move (sits' := s.its) (pos' := pos) hp hsame1 hcs1 hok1 rfl
      (by intro h'; by_cases he : h' = hd <;> simp [he, hpos]) hrel hr2
    exact this

theorem step_next {m : M} {s : S} (h : Sim m s) (hd : Nat) :
    ∃ m', m.stepCore false (.next hd) = some (m', (s.step (.next hd)).2) ∧
      Sim m' (s.step (.next hd)).1 := by
  simp only [M.stepCore, S.step]
  cases hp : lookupIt m.its hd with
  | none =>
    rw [(h.lookup_none_iff hd).mp hp]
    exact ⟨m, rfl, h⟩
  | some p =>
    obtain ⟨pos, hpos⟩ := h.spec_pos hp
    obtain ⟨n, hn⟩ := h.ptr_node hp
    have hcs := h.cs; rw [h.rc_split hp] at hcs
    obtain ⟨m1, q, e, hrun, hcs1, hok1, hsame1, hle1, hcase⟩ := itNext_spec hn hcs
    obtain ⟨hr1, hr2⟩ := h.itrel hd p pos hp hpos
    have h1 := h.firstFrom_trip pos
    rcases hcase with ⟨rfl, hno⟩ | ⟨p1, k, v, rfl, hmem, hA, hlt, hB⟩
    · have hnone : s.firstFrom pos = none := by
        have : (okl m.chain).find? (fun t => decide (pos ≤ t.1)) = none := by
          rw [List.find?_eq_none]; intro t ht hq
          exact hno t ht ((hr1 t ht).mpr (by simpa using hq))
        rw [this] at h1; simpa using h1
      simp only [hpos, hrun, hnone]
      refine ⟨_, rfl, ?_⟩
      refine h.move (sits' := s.its) (pos' := pos) hp hsame1 hcs1 hok1 rfl
        (by intro h'; by_cases he : h' = hd <;> simp [he, hpos]) ?_ hr2
      intro t ht
      have h2 := hno t ht
      have h3 := hr1 t ht
      constructor
      · intro hq; exact absurd (by omega : p ≤ t.1) h2
      · intro hq; exact absurd (h3.mpr hq) h2
    · have hfind : (okl m.chain).find? (fun t => decide (pos ≤ t.1)) = some (p1, k, v) := by
        have h2 : (okl m.chain).find? (fun t => decide (pos ≤ t.1)) =
            (okl m.chain).find? (fun t => decide (p1 ≤ t.1)) := by
          apply find_congr; intro t ht
          have := hr1 t ht; have := hA t ht; simp only [decide_eq_decide]; omega
        rw [h2]; exact find_sorted (okl_sorted h.cs.asc) hmem
      rw [hfind] at h1
      obtain ⟨e', he', htrip⟩ := Option.map_eq_some_iff.mp h1
      simp only [trip, Prod.mk.injEq] at htrip
      obtain ⟨rfl, rfl, rfl⟩ := htrip
      simp only [hpos, hrun, he']
      refine ⟨_, rfl, ?_⟩
      refine h.move (sits' := setIt s.its hd (e'.stamp + 1)) (pos' := e'.stamp + 1) hp hsame1 hcs1 hok1
        (map_fst_setIt _ _ _) ?_ ?_ ?_
      · intro h'; rw [lookupIt_setIt]; by_cases he : h' = hd <;> simp [he, hpos]
      · intro t ht; rw [← hB t ht]; omega
      · have := h.okl_lt_last hmem; simp only at this; omega

theorem step_close {m : M} {s : S} (h : Sim m s) (hd : Nat) :
    ∃ m', m.stepCore false (.close hd) = some (m', (s.step (.close hd)).2) ∧
      Sim m' (s.step (.close hd)).1 := by
  simp only [M.stepCore, S.step]
  cases hp : lookupIt m.its hd with
  | none =>
    rw [(h.lookup_none_iff hd).mp hp]
    exact ⟨m, rfl, h⟩
  | some p =>
    obtain ⟨pos, hpos⟩ := h.spec_pos hp
    obtain ⟨n, hn⟩ := h.ptr_node hp
    have hcs := h.cs; rw [h.rc_split hp] at hcs
    obtain ⟨m1, hrel, hcs1, hok1, hsame1⟩ := release_spec hn hcs
    simp only [hpos, hrel, Bool.false_eq_true, if_false]
    exact ⟨_, rfl, h.drop hp hsame1 hcs1 hok1⟩

end OMap
