import GolibsVerif.Lemmas.OMapRel2
import GolibsVerif.Lemmas.OMapSpec
/- Iterator / HasNext / Next / Close preserve the refinement relation. -/
set_option linter.unusedSimpArgs false
namespace OMap

theorem Sim.startPos {m : M} {s : S} (h : Sim m s) :
    (∀ t ∈ okl m.chain, (m.head ≤ t.1 ↔ s.startPos ≤ t.1)) ∧ s.startPos ≤ m.last := by
  unfold S.startPos
  have hl := h.live
  have hsort := okl_sorted h.cs.asc
  cases hlv : s.live with
  | nil =>
    rw [hlv] at hl
    simp only [List.map_nil] at hl
    rw [← hl]
    exact ⟨by simp, by simp [h.stamp]⟩
  | cons e rest =>
    rw [hlv] at hl
    simp only [List.map_cons] at hl
    have hmem : trip e ∈ okl m.chain := by rw [← hl]; simp
    refine ⟨?_, ?_⟩
    · intro t ht
      obtain ⟨x, hx, _, rfl⟩ := mem_okl.mp ht
      have h1 := h.cs.head_le x hx
      rw [← hl] at ht hsort
      have hp := List.pairwise_cons.mp hsort
      have h2 : e.stamp ≤ x.id := by
        rcases List.mem_cons.mp ht with h3 | h3
        · have : (trip e).1 = x.id := by rw [← h3]
          simp [trip] at this; omega
        · have := hp.1 _ h3; simp [trip] at this; omega
      show (m.head ≤ x.id ↔ e.stamp ≤ x.id)
      constructor <;> intro <;> assumption
    · have := h.okl_lt_last hmem
      show e.stamp ≤ m.last
      simp [trip] at this; omega

theorem step_iterator {m : M} {s : S} (h : Sim m s) :
    ∃ m', m.stepCore false .iterator = some (m', (s.step .iterator).2) ∧
      Sim m' (s.step .iterator).1 := by
  obtain ⟨c', hit, hcs, hokl⟩ := iterator_spec h.cs
  simp only [M.stepCore, S.step, hit, h.nextIt]
  refine ⟨_, rfl, ?_⟩
  have hnone_m : lookupIt m.its m.nextIt = none := by
    rw [lookupIt_eq_none_iff]; intro hc; have := h.hlt _ hc; omega
  constructor
  · show CS c' m.head m.last (rcOf (m.its ++ [(m.nextIt, m.head)]))
    have : rcOf (m.its ++ [(m.nextIt, m.head)]) = plus (rcOf m.its) m.head := by
      funext y
      simp only [rcOf, plus, cnt_append, cnt_cons, cnt_nil]
      by_cases hy : y = m.head
      · subst hy; simp
      · have : ¬ m.head = y := fun e => hy e.symm
        simp [hy, this]
    rw [this]; exact hcs
  · exact h.nextId
  · show HAsc (m.its ++ [(m.nextIt, m.head)])
    unfold HAsc
    rw [List.map_append, List.pairwise_append]
    refine ⟨h.hasc, by simp, ?_⟩
    intro a ha b hb
    simp at hb; subst hb
    exact h.hlt a ha
  · show ∀ hd ∈ (m.its ++ [(m.nextIt, m.head)]).map (·.1), hd < m.nextIt + 1
    intro hd hh
    rw [List.map_append, List.mem_append] at hh
    rcases hh with hh | hh
    · have := h.hlt hd hh; omega
    · simp at hh; omega
  · show m.vals = _
    rw [hokl]; exact h.vals
  · show ((okl c').map (·.2.1)).Nodup
    rw [hokl]; exact h.keys
  · exact h.stamp
  · rfl
  · show s.live.map trip = okl c'
    rw [hokl]; exact h.live
  · show (s.its ++ [(m.nextIt, s.startPos)]).map (·.1) = (m.its ++ [(m.nextIt, m.head)]).map (·.1)
    rw [List.map_append, List.map_append, h.handles]; rfl
  · intro hd p pos hp hpos
    have hp' : lookupIt (m.its ++ [(m.nextIt, m.head)]) hd = some p := hp
    have hpos' : lookupIt (s.its ++ [(m.nextIt, s.startPos)]) hd = some pos := hpos
    rw [lookupIt_append] at hp' hpos'
    show (∀ t ∈ okl c', _) ∧ pos ≤ m.last
    rw [hokl]
    cases hm : lookupIt m.its hd with
    | some p0 =>
      have hs0 : lookupIt s.its hd ≠ none := by
        intro hc; rw [← h.lookup_none_iff] at hc; rw [hc] at hm; cases hm
      obtain ⟨pos0, hs0'⟩ := Option.ne_none_iff_exists'.mp hs0
      rw [hm] at hp'; rw [hs0'] at hpos'
      simp only [Option.some_or, Option.some.injEq] at hp' hpos'
      subst hp' hpos'
      exact h.itrel hd p0 pos0 hm hs0'
    | none =>
      have hs0 : lookupIt s.its hd = none := (h.lookup_none_iff hd).mp hm
      rw [hm] at hp'; rw [hs0] at hpos'
      simp only [Option.none_or, lookupIt_cons, lookupIt_nil] at hp' hpos'
      by_cases he : m.nextIt = hd
      · simp only [he, if_true, Option.some.injEq] at hp' hpos'
        subst hp' hpos'
        exact h.startPos
      · simp [he] at hp'

end OMap
