import GolibsVerif.Lemmas.WaitersOps
/-
The inductive invariant of the Waiters model and its preservation by the primitives.
-/
namespace Waiters
set_option linter.unusedVariables false

structure Inv (s : St) : Prop where
  tkeys : TKeys s
  tlt : ∀ k c n, getEntry s k = some (c, n) → c < s.nextCh
  clt : ∀ c, c ∈ s.closed → c < s.nextCh
  plt : ∀ (i : Nat) (w : W) (c : Nat), s.ws[i]? = some w → w.pc = .parked c → c < s.nextCh
  tinj : ∀ k k' c n n', getEntry s k = some (c, n) → getEntry s k' = some (c, n') → k = k'
  tex : ∀ k c n, getEntry s k = some (c, n) → n = parkedOn s c ∧ 0 < n ∧ c ∉ s.closed
  park : ∀ (i : Nat) (w : W) (c : Nat), s.ws[i]? = some w → w.pc = .parked c → c ∉ s.closed →
    (∃ r, getRec s w.key = some r ∧ r.ver = w.ver) ∧ (∃ n, getEntry s w.key = some (c, n))

/-- a mutation of key `k`: the key's waiter record is closed and dropped, the record of `k` changes
arbitrarily -/
theorem Inv.mutate {s t : St} (k : String) (hi : Inv s)
    (hws : t.ws = s.ws) (hnc : t.nextCh = s.nextCh) (hk : TKeys t)
    (he : ∀ k', getEntry t k' = if k' = k then none else getEntry s k')
    (hc : ∀ c, c ∈ t.closed ↔ c ∈ s.closed ∨ ∃ n, getEntry s k = some (c, n))
    (hr : ∀ k', k' ≠ k → getRec t k' = getRec s k') : Inv t := by
  have hp : ∀ c, parkedOn t c = parkedOn s c := parkedOn_congr s t hws
  obtain ⟨_, h2, h3, h4, h5, h6, h7⟩ := hi
  refine ⟨hk, ?_, ?_, ?_, ?_, ?_, ?_⟩
  · grind
  · grind
  · grind
  · grind
  · grind
  · grind

/-- the record of `k` is marked expired (version unchanged) -/
theorem Inv.expire {s t : St} (k : String) (r : Rec) (hi : Inv s) (hr0 : getRec s k = some r)
    (hws : t.ws = s.ws) (hnc : t.nextCh = s.nextCh) (htab : t.table = s.table) (hcl : t.closed = s.closed)
    (hr : ∀ k', getRec t k' = if k' = k then some { r with expired := true } else getRec s k') : Inv t := by
  have hp : ∀ c, parkedOn t c = parkedOn s c := parkedOn_congr s t hws
  have he : ∀ k', getEntry t k' = getEntry s k' := fun k' => by simp [getEntry, htab]
  obtain ⟨h1, h2, h3, h4, h5, h6, h7⟩ := hi
  refine ⟨by simpa [TKeys, htab] using h1, ?_, ?_, ?_, ?_, ?_, ?_⟩
  · grind
  · grind
  · grind
  · grind
  · grind
  · intro i w c hw hp hc
    have := h7 i w c (hws ▸ hw) hp (hcl ▸ hc)
    refine ⟨?_, by grind⟩
    by_cases hk : w.key = k
    · rw [hr, if_pos hk]; grind
    · rw [hr, if_neg hk]; exact this.1

/-- one waiter changes, nothing else; it does not park, and it was not parked on an open channel -/
theorem Inv.wupd_unparked {s t : St} {i : Nat} {w w' : W} (hi : Inv s) (hw : s.ws[i]? = some w)
    (hget : ∀ j, t.ws[j]? = if j = i then some w' else s.ws[j]?)
    (hpk : ∀ c, parkedOn t c + (if w.pc = .parked c then 1 else 0) =
      parkedOn s c + (if w'.pc = .parked c then 1 else 0))
    (h1 : ∀ c, w'.pc ≠ .parked c)
    (h0 : (∀ c, w.pc ≠ .parked c) ∨ ∃ c, w.pc = .parked c ∧ c ∈ s.closed)
    (hnc : t.nextCh = s.nextCh) (htab : t.table = s.table) (hcl : t.closed = s.closed)
    (hrec : t.recs = s.recs) : Inv t := by
  have he : ∀ k', getEntry t k' = getEntry s k' := fun k' => by simp [getEntry, htab]
  have hr : ∀ k', getRec t k' = getRec s k' := fun k' => by simp [getRec, hrec]
  obtain ⟨h1, h2, h3, h4, h5, h6, h7⟩ := hi
  refine ⟨by simpa [TKeys, htab] using h1, ?_, ?_, ?_, ?_, ?_, ?_⟩
  · grind
  · grind
  · grind
  · grind
  · grind
  · grind

/-- one waiter changes but keeps key, version and pc -/
theorem Inv.wupd_samepc {s t : St} {i : Nat} {w w' : W} (hi : Inv s) (hw : s.ws[i]? = some w)
    (hget : ∀ j, t.ws[j]? = if j = i then some w' else s.ws[j]?)
    (hpk : ∀ c, parkedOn t c + (if w.pc = .parked c then 1 else 0) =
      parkedOn s c + (if w'.pc = .parked c then 1 else 0))
    (h1 : w'.pc = w.pc) (h2 : w'.key = w.key) (h3 : w'.ver = w.ver)
    (hnc : t.nextCh = s.nextCh) (htab : t.table = s.table) (hcl : t.closed = s.closed)
    (hrec : t.recs = s.recs) : Inv t := by
  have he : ∀ k', getEntry t k' = getEntry s k' := fun k' => by simp [getEntry, htab]
  have hr : ∀ k', getRec t k' = getRec s k' := fun k' => by simp [getRec, hrec]
  obtain ⟨h1, h2, h3, h4, h5, h6, h7⟩ := hi
  refine ⟨by simpa [TKeys, htab] using h1, ?_, ?_, ?_, ?_, ?_, ?_⟩
  · grind
  · grind
  · grind
  · grind
  · grind
  · grind

/-- the last waiter of the record leaves: the record is closed and dropped -/
theorem Inv.leave_last {s t : St} {i : Nat} {w w' : W} {c n : Nat} (hi : Inv s) (hw : s.ws[i]? = some w)
    (hget : ∀ j, t.ws[j]? = if j = i then some w' else s.ws[j]?)
    (hpk : ∀ c, parkedOn t c + (if w.pc = .parked c then 1 else 0) =
      parkedOn s c + (if w'.pc = .parked c then 1 else 0))
    (hp : w.pc = .parked c) (h1 : ∀ c, w'.pc ≠ .parked c)
    (hen : getEntry s w.key = some (c, n)) (hn : n - 1 = 0)
    (hnc : t.nextCh = s.nextCh) (hk : TKeys t)
    (he : ∀ k', getEntry t k' = if k' = w.key then none else getEntry s k')
    (hc : ∀ c', c' ∈ t.closed ↔ c' = c ∨ c' ∈ s.closed)
    (hrec : t.recs = s.recs) : Inv t := by
  have hr : ∀ k', getRec t k' = getRec s k' := fun k' => by simp [getRec, hrec]
  obtain ⟨_, h2, h3, h4, h5, h6, h7⟩ := hi
  refine ⟨hk, ?_, ?_, ?_, ?_, ?_, ?_⟩
  · grind
  · grind
  · grind
  · grind
  · grind
  · grind

/-- a waiter leaves a record that still has other waiters -/
theorem Inv.leave_dec {s t : St} {i : Nat} {w w' : W} {c n : Nat} (hi : Inv s) (hw : s.ws[i]? = some w)
    (hget : ∀ j, t.ws[j]? = if j = i then some w' else s.ws[j]?)
    (hpk : ∀ c, parkedOn t c + (if w.pc = .parked c then 1 else 0) =
      parkedOn s c + (if w'.pc = .parked c then 1 else 0))
    (hp : w.pc = .parked c) (h1 : ∀ c, w'.pc ≠ .parked c)
    (hen : getEntry s w.key = some (c, n)) (hn : n - 1 ≠ 0)
    (hnc : t.nextCh = s.nextCh) (hk : TKeys t)
    (he : ∀ k', getEntry t k' = if k' = w.key then some (c, n - 1) else getEntry s k')
    (hcl : t.closed = s.closed)
    (hrec : t.recs = s.recs) : Inv t := by
  have hr : ∀ k', getRec t k' = getRec s k' := fun k' => by simp [getRec, hrec]
  obtain ⟨_, h2, h3, h4, h5, h6, h7⟩ := hi
  refine ⟨hk, ?_, ?_, ?_, ?_, ?_, ?_⟩
  · grind
  · grind
  · grind
  · grind
  · grind
  · grind

/-- a waiter registers on the key's existing record -/
theorem Inv.reg_existing {s t : St} {i : Nat} {w w' : W} {c n : Nat} {r : Rec} (hi : Inv s)
    (hw : s.ws[i]? = some w)
    (hget : ∀ j, t.ws[j]? = if j = i then some w' else s.ws[j]?)
    (hpk : ∀ c, parkedOn t c + (if w.pc = .parked c then 1 else 0) =
      parkedOn s c + (if w'.pc = .parked c then 1 else 0))
    (hp : ∀ c, w.pc ≠ .parked c) (h1 : w'.pc = .parked c) (hkey : w'.key = w.key) (hver : w'.ver = w.ver)
    (hen : getEntry s w.key = some (c, n)) (hrc : getRec s w.key = some r) (hrv : r.ver = w.ver)
    (hnc : t.nextCh = s.nextCh) (hk : TKeys t)
    (he : ∀ k', getEntry t k' = if k' = w.key then some (c, n + 1) else getEntry s k')
    (hcl : t.closed = s.closed)
    (hrec : t.recs = s.recs) : Inv t := by
  have hr : ∀ k', getRec t k' = getRec s k' := fun k' => by simp [getRec, hrec]
  obtain ⟨_, h2, h3, h4, h5, h6, h7⟩ := hi
  refine ⟨hk, ?_, ?_, ?_, ?_, ?_, ?_⟩
  · grind
  · grind
  · grind
  · grind
  · grind
  · grind

/-- a waiter creates a fresh record for its key -/
theorem Inv.reg_new {s t : St} {i : Nat} {w w' : W} {r : Rec} (hi : Inv s)
    (hw : s.ws[i]? = some w)
    (hget : ∀ j, t.ws[j]? = if j = i then some w' else s.ws[j]?)
    (hpk : ∀ c, parkedOn t c + (if w.pc = .parked c then 1 else 0) =
      parkedOn s c + (if w'.pc = .parked c then 1 else 0))
    (hp : ∀ c, w.pc ≠ .parked c) (h1 : w'.pc = .parked s.nextCh) (hkey : w'.key = w.key) (hver : w'.ver = w.ver)
    (hen : getEntry s w.key = none) (hrc : getRec s w.key = some r) (hrv : r.ver = w.ver)
    (hnc : t.nextCh = s.nextCh + 1) (hk : TKeys t)
    (he : ∀ k', getEntry t k' = if k' = w.key then some (s.nextCh, 1) else getEntry s k')
    (hcl : t.closed = s.closed)
    (hrec : t.recs = s.recs) : Inv t := by
  have hr : ∀ k', getRec t k' = getRec s k' := fun k' => by simp [getRec, hrec]
  have hz : parkedOn s s.nextCh = 0 := by
    apply parkedOn_eq_zero_of
    intro w0 hw0 hp0
    obtain ⟨j, hj⟩ := List.getElem?_of_mem hw0
    have := hi.plt j w0 _ hj hp0
    omega
  obtain ⟨_, h2, h3, h4, h5, h6, h7⟩ := hi
  refine ⟨hk, ?_, ?_, ?_, ?_, ?_, ?_⟩
  · grind
  · grind
  · grind
  · grind
  · grind
  · grind

end Waiters
