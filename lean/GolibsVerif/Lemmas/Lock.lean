import GolibsVerif.Model.Lock
import GolibsVerif.Lemmas.LockBasic
import GolibsVerif.Lemmas.LockInvA
import GolibsVerif.Lemmas.LockInvB
import GolibsVerif.Lemmas.LockWitness
import GolibsVerif.Lemmas.LockLive
/-
The inductive invariant of the kvlock transition system (`Lock.Inv`, any `faults`) and its
fault-free extension (`Lock.ILive`), with `Reach → Inv`.
-/
namespace Lock

structure Inv (c : Cfg) (s : St) : Prop where
  idle : IIdle s
  own : IOwn s
  ser : ISer c s
  secTok : ISecTok c s
  cnt1 : ICnt1 c s
  cnt0 : ICnt0 c s
  tokCnt : ITokCnt s
  ver : IVer s
  tokBack : ITokBack c s

theorem Inv_init (c : Cfg) : Inv c St.init := by
  constructor <;> simp [IIdle, IOwn, ISer, ISecTok, ICnt1, ICnt0, ITokCnt, IVer, ITokBack, St.init]

theorem ILive_init : ILive St.init := by simp [ILive, St.init]

theorem Inv_step (c : Cfg) (faults : Bool) (s t : St) (h : Step c false faults s t) (hi : Inv c s) : Inv c t where
  idle := IIdle_step c faults s t h hi.idle
  own := IOwn_step c faults s t h hi.idle hi.own
  ser := ISer_step c faults s t h hi.idle hi.secTok hi.ser
  secTok := ISecTok_step c faults s t h hi.idle hi.ser hi.secTok
  cnt1 := ICnt1_step c faults s t h hi.idle hi.ser hi.secTok hi.cnt1
  cnt0 := ICnt0_step c faults s t h hi.idle hi.ser hi.secTok hi.cnt0
  tokCnt := ITokCnt_step c faults s t h hi.cnt0 hi.tokCnt
  ver := IVer_step c faults s t h hi.ver
  tokBack := ITokBack_step c faults s t h hi.idle hi.tokBack

theorem Reach_Inv (c : Cfg) (faults : Bool) (s : St) (h : Reach c false faults s) : Inv c s := by
  induction h with
  | init => exact Inv_init c
  | step _ hs ih => exact Inv_step c faults _ _ hs ih

theorem Reach_ILive (c : Cfg) (s : St) (h : Reach c false false s) : ILive s := by
  induction h with
  | init => exact ILive_init
  | step hr hs ih => exact ILive_step c _ _ hs (Reach_Inv c false _ hr).idle ih

end Lock
