import GolibsVerif.Model.Lock
