import GolibsVerif.Lemmas.OMapRel4
/- First, the per-operation simulation, its lift to histories, and the derived representation facts. -/
set_option linter.unusedSimpArgs false
namespace OMap

theorem Sim.fresh {m : M} {s : S} (h : Sim m s) : lookupIt s.its s.nextIt = none := by
  rw [lookupIt_eq_none_iff, h.handles, h.nextIt]
  intro hc; have := h.hlt _ hc; omega

/-- give the temporary iterator's handle number back -/
theorem Sim.reset {m3 : M} {s : S} {its3 : List (Nat × Nat)} {n3 : Nat}
    (h3 : Sim m3 { s with its := its3, nextIt := n3 })
    (hmap : its3.map (·.1) = s.its.map (·.1))
    (hlk : ∀ h', lookupIt its3 h' = lookupIt s.its h')
    (hlt : ∀ x ∈ s.its.map (·.1), x < s.nextIt) :
    Sim { m3 with nextIt := s.nextIt } s := by
  constructor
  · exact h3.cs
  · exact h3.nextId
  · exact h3.hasc
  · show ∀ x ∈ m3.its.map (·.1), x < s.nextIt
    have : m3.its.map (·.1) = s.its.map (·.1) := by rw [← hmap]; exact h3.handles.symm
    rw [this]; exact hlt
  · exact h3.vals
  · exact h3.keys
  · exact h3.stamp
  · rfl
  · exact h3.live
  · show s.its.map (·.1) = m3.its.map (·.1)
    rw [← hmap]; exact h3.handles
  · intro h' p pos hp hpos
    exact h3.itrel h' p pos hp (by show lookupIt its3 h' = some pos; rw [hlk]; exact hpos)

theorem step_first {m : M} {s : S} (h : Sim m s) :
    ∃ m', m.step false .first = some (m', (s.step .first).2) ∧ Sim m' (s.step .first).1 := by
  have hfresh := h.fresh
  obtain ⟨m1, hr1, hs1⟩ := step_iterator h
  obtain ⟨m2, hr2, hs2⟩ := step_next hs1 s.nextIt
  obtain ⟨m3, hr3, hs3⟩ := step_close hs2 s.nextIt
  obtain ⟨its2, ⟨q, hq⟩, hmap, hlk, heq⟩ := spec_iter_next s hfresh
  have ho1 : (s.step .iterator).2 = .handle s.nextIt := rfl
  rw [ho1] at hr1
  rw [heq] at hr2 hs2 hr3 hs3
  have hclose : ({ s with its := its2, nextIt := s.nextIt + 1 } : S).step (.close s.nextIt) =
      ({ s with its := its2.filter (·.1 != s.nextIt), nextIt := s.nextIt + 1 }, .ok) := by
    simp only [S.step, hq]
  simp only [hclose] at hr3 hs3
  have hltS : ∀ x ∈ s.its.map (·.1), x < s.nextIt := by
    rw [h.handles, h.nextIt]; exact h.hlt
  have hmap3 : (its2.filter (·.1 != s.nextIt)).map (·.1) = s.its.map (·.1) := by
    rw [map_fst_filter, hmap, List.filter_append]
    have : (s.its.map (·.1)).filter (· != s.nextIt) = s.its.map (·.1) := by
      rw [List.filter_eq_self]; intro a ha; have := hltS a ha; simp; omega
    rw [this]; simp
  have hlk3 : ∀ h', lookupIt (its2.filter (·.1 != s.nextIt)) h' = lookupIt s.its h' := by
    intro h'; rw [lookupIt_filter]
    by_cases he : h' = s.nextIt
    · simp [he, hfresh]
    · simp [he, hlk h' he]
  have hres := hs3.reset hmap3 hlk3 hltS
  unfold M.step
  simp only [hr1, hr2, hr3]
  refine ⟨{ m3 with nextIt := m.nextIt }, ?_, ?_⟩
  · simp only [S.step]
    cases s.live <;> rfl
  · have hsame : (s.step .first).1 = s := by
      simp only [S.step]; cases s.live <;> rfl
    rw [hsame, ← h.nextIt]; exact hres

theorem step_sim {m : M} {s : S} (h : Sim m s) (op : Op) :
    ∃ m', m.step false op = some (m', (s.step op).2) ∧ Sim m' (s.step op).1 := by
  cases op with
  | first => exact step_first h
  | add k v => exact step_add h k v
  | remove k => exact step_remove h k
  | get k => exact step_get h k
  | len => exact step_len h
  | iterator => exact step_iterator h
  | hasNext hd => exact step_hasNext h hd
  | next hd => exact step_next h hd
  | close hd => exact step_close h hd

theorem sim_new : Sim M.new S.new := by
  constructor
  · refine ⟨⟨?_, ?_, ?_, ?_⟩, ?_, ?_, ?_, ?_, ?_⟩ <;> simp [M.new, Asc, rcOf]
  · rfl
  · simp [M.new, HAsc]
  · simp [M.new]
  · rfl
  · simp [M.new, okl]
  · rfl
  · rfl
  · rfl
  · rfl
  · intro h p pos hp; simp [M.new, lookupIt_nil] at hp

theorem run_sim : ∀ (ops : List Op) (m : M) (s : S), Sim m s →
    ∃ m', runI false m ops = some (m', (runS s ops).2) ∧ Sim m' (runS s ops).1 := by
  intro ops
  induction ops with
  | nil => intro m s h; exact ⟨m, rfl, h⟩
  | cons op ops ih =>
    intro m s h
    obtain ⟨m1, hr1, hs1⟩ := step_sim h op
    obtain ⟨m2, hr2, hs2⟩ := ih m1 _ hs1
    refine ⟨m2, ?_, ?_⟩
    · simp only [runI, hr1, hr2, runS]
    · simpa only [runS] using hs2

/-- every reachable I-model state is related to the Spec state reached by the same history -/
theorem reach_sim (ops : List Op) :
    ∃ m, runI false M.new ops = some (m, (runS S.new ops).2) ∧ Sim m (runS S.new ops).1 :=
  run_sim ops M.new S.new sim_new

theorem reach_sim' {ops : List Op} {m : M} {outs : List Out}
    (h : runI false M.new ops = some (m, outs)) : Sim m (runS S.new ops).1 := by
  obtain ⟨m', hr, hs⟩ := reach_sim ops
  rw [hr] at h
  simp only [Option.some.injEq, Prod.mk.injEq] at h
  rw [← h.1]; exact hs

end OMap
