import GolibsVerif.Model.WaitersExec
/-
Soundness of the executable primitives of `Waiters.Exec` w.r.t. `Waiters.Step`.
-/
namespace Waiters.Exec
open Waiters

theorem xCheck_step {s t : St} {i : Nat} (h : xCheck s i = some t) : Step s t := by
  unfold xCheck at h
  split at h
  · rename_i w hw
    split at h
    · rename_i hp
      cases h
      exact Step.check s i w hw hp
    · cases h
  · cases h

theorem xWake_step {s t : St} {i : Nat} (h : xWake s i = some t) : Step s t := by
  unfold xWake at h
  split at h
  · rename_i w hw
    split at h
    · rename_i ch hp
      split at h
      · rename_i hc
        cases h
        exact Step.wake s i w ch hw hp hc
      · cases h
    · cases h
  · cases h

theorem xCancelled_step {s t : St} {i : Nat} (h : xCancelled s i = some t) : Step s t := by
  unfold xCancelled at h
  split at h
  · rename_i w hw
    split at h
    · rename_i ch hp
      split at h
      · rename_i hd
        cases h
        exact Step.cancelled s i w ch hw hp hd
      · cases h
    · cases h
  · cases h

theorem xTimer_step {s t : St} {i : Nat} (h : xTimer s i = some t) : Step s t := by
  unfold xTimer at h
  split at h
  · rename_i w hw
    split at h
    · rename_i ch hp
      cases h
      exact Step.timer s i w ch hw hp
    · cases h
  · cases h

theorem xWrite_step (s : St) (k : String) : Step s (xWrite s k) := Step.write s k

theorem xDelete_step {s t : St} {k : String} (h : xDelete s k = some t) : Step s t := by
  unfold xDelete at h
  split at h
  · rename_i r hr
    cases h
    exact Step.delete s k r hr
  · cases h

theorem xTouch_step (s : St) (k : String) : Step s (xTouch s k) := Step.touch s k

theorem xExpire_step {s t : St} {k : String} (h : xExpire s k = some t) : Step s t := by
  unfold xExpire at h
  split at h
  · rename_i r hr
    cases h
    exact Step.expire s k r hr
  · cases h

theorem xCtxCancel_step {s t : St} {i : Nat} (h : xCtxCancel s i = some t) : Step s t := by
  unfold xCtxCancel at h
  split at h
  · rename_i w hw
    cases h
    exact Step.ctxCancel s i w hw
  · cases h

theorem Steps.single {s t : St} (h : Step s t) : Steps s t := Steps.cons h (Steps.refl t)

theorem Steps.trans {s t u : St} (h1 : Steps s t) (h2 : Steps t u) : Steps s u := by
  induction h1 with
  | refl _ => exact h2
  | cons hs _ ih => exact Steps.cons hs (ih h2)

theorem Steps.reach {ws : List W} {s t : St} (hr : Reach ws s) (h : Steps s t) : Reach ws t := by
  induction h with
  | refl _ => exact hr
  | cons hs _ ih => exact ih (Reach.step hr hs)

theorem handle_steps {s t : St} {e : Event} (h : handle s e = some t) : Steps s t := by
  cases e with
  | secCheck i =>
    simp only [handle] at h
    split at h
    · split at h
      · cases h1 : xWake s i with
        | none => rw [h1] at h; cases h
        | some s1 =>
          rw [h1] at h
          exact Steps.cons (xWake_step h1) (Steps.single (xCheck_step h))
      · exact Steps.single (xCheck_step h)
    · cases h
  | secCancelled i => exact Steps.single (xCancelled_step h)
  | secTimer i => exact Steps.single (xTimer_step h)
  | write k => cases h; exact Steps.single (xWrite_step s k)
  | delete k => exact Steps.single (xDelete_step h)
  | touch k => cases h; exact Steps.single (xTouch_step s k)
  | expire k => exact Steps.single (xExpire_step h)
  | ctxCancel i => exact Steps.single (xCtxCancel_step h)

theorem replay_steps {s t : St} {es : List Event} (h : replay s es = some t) : Steps s t := by
  induction es generalizing s with
  | nil => cases h; exact Steps.refl _
  | cons e es ih =>
    simp only [replay] at h
    cases h1 : handle s e with
    | none => rw [h1] at h; cases h
    | some s1 =>
      rw [h1] at h
      exact Steps.trans (handle_steps h1) (ih h)

end Waiters.Exec
