import GolibsVerif.Lemmas.LeaseCellInv
/-
`LeaseCell`: the invariant of the held phase (`HeldInv`, see the header of LeaseCellInv.lean) and its
preservation, one lemma per `Step` constructor.
-/
namespace LeaseCell

/-- a supportTimeout which is not the live link of the chain for the record version `cv` (tenure bound `b`) -/
def StalePc (A : List Timer) (cv b ver : Nat) : SupPc → Prop
  | .load => ver ≠ cv
  | .call _ => ver ≠ cv
  | .okPending g nv => nv ≠ cv ∧ optLt g b
  | .failPending _ => True
  | .errPending g => ver ≠ cv ∧ optLt g b
  | .arm g nv => nv ≠ cv ∧ optLt g b
  | .swap g tn => optLt g b ∧ ∀ t ∈ A, t.id = tn → t.ver ≠ cv

def StaleSup (A : List Timer) (cv b : Nat) (u : Sup) : Prop := StalePc A cv b u.ver u.pc

/-- the live link: renews `cv` (or holds the answer for `cv`) and, once loaded, loaded the current `future` -/
def LivePc (F : Option Nat) (cv ver : Nat) : SupPc → Prop
  | .load => ver = cv
  | .call g => ver = cv ∧ g = F
  | .okPending g nv => nv = cv ∧ g = F
  | .failPending _ => False
  | .errPending g => ver = cv ∧ g = F
  | .arm g nv => nv = cv ∧ g = F
  | .swap _ _ => False

def LiveSup (F : Option Nat) (cv : Nat) (u : Sup) : Prop := LivePc F cv u.ver u.pc

theorem stale_not_live {A : List Timer} {F : Option Nat} {cv b : Nat} {u : Sup}
    (hs : StaleSup A cv b u) (hl : LiveSup F cv u) : False := by
  rcases u with ⟨ver, pc⟩
  cases pc <;> simp_all [StaleSup, LiveSup, StalePc, LivePc]

theorem stale_not_inst {A : List Timer} {F : Option Nat} {cv b : Nat} {u : Sup} {t : Timer}
    (hs : StaleSup A cv b u) (hp : u.pc = .swap F t.id) (ht : t ∈ A) (hv : t.ver = cv) : False := by
  unfold StaleSup at hs
  rw [hp] at hs
  exact hs.2 t ht rfl hv

theorem StaleSup.subset {A A' : List Timer} {cv b : Nat} {u : Sup} (hs : StaleSup A cv b u)
    (hsub : ∀ t ∈ A', t ∈ A) : StaleSup A' cv b u := by
  rcases u with ⟨ver, pc⟩
  cases pc with
  | swap g tn => exact ⟨hs.1, fun t ht => hs.2 t (hsub t ht)⟩
  | _ => exact hs

theorem StaleSup.cons_ne {A : List Timer} {cv b : Nat} {u : Sup} (hs : StaleSup A cv b u) {id nv : Nat}
    (hnv : nv ≠ cv) : StaleSup (⟨id, nv⟩ :: A) cv b u := by
  rcases u with ⟨ver, pc⟩
  cases pc with
  | swap g tn =>
    refine ⟨hs.1, fun t ht hid => ?_⟩
    simp only [List.mem_cons] at ht
    rcases ht with rfl | ht
    · exact hnv
    · exact hs.2 t ht hid
  | _ => exact hs

theorem StaleSup.cons_fresh {A : List Timer} {cv b : Nat} {u : Sup} (hs : StaleSup A cv b u) {nV nT v : Nat}
    (hf : FreshSup nV nT u) : StaleSup (⟨nT, v⟩ :: A) cv b u := by
  rcases u with ⟨ver, pc⟩
  cases pc with
  | swap g tn =>
    refine ⟨hs.1, fun t ht hid => ?_⟩
    simp only [List.mem_cons] at ht
    rcases ht with rfl | ht
    · exact absurd hid (Nat.ne_of_gt hf.2.2)
    · exact hs.2 t ht hid
  | _ => exact hs

/-- the record moves on to the fresh version `nV`: what was stale stays stale -/
theorem StaleSup.new_cv {A : List Timer} {cv b : Nat} {u : Sup} (hs : StaleSup A cv b u) {nV nT : Nat}
    (hf : FreshSup nV nT u) (ha : ∀ t ∈ A, t.ver < nV) : StaleSup A nV b u := by
  rcases u with ⟨ver, pc⟩
  cases pc with
  | load => exact Nat.ne_of_lt hf.1
  | call g => exact Nat.ne_of_lt hf.1
  | okPending g nv => exact ⟨Nat.ne_of_lt hf.2.2, hs.2⟩
  | failPending g => trivial
  | errPending g => exact ⟨Nat.ne_of_lt hf.1, hs.2⟩
  | arm g nv => exact ⟨Nat.ne_of_lt hf.2.2, hs.2⟩
  | swap g tn => exact ⟨hs.1, fun t ht _ => Nat.ne_of_lt (ha t ht)⟩

/-- at Lock everything that is still around is stale for the new tenure -/
theorem stale_of_fresh {A : List Timer} {nV nT : Nat} {u : Sup} (hf : FreshSup nV nT u)
    (ha : ∀ t ∈ A, t.ver < nV) : StaleSup (⟨nT, nV⟩ :: A) nV nT u := by
  rcases u with ⟨ver, pc⟩
  cases pc with
  | load => exact Nat.ne_of_lt hf.1
  | call g => exact Nat.ne_of_lt hf.1
  | okPending g nv => exact ⟨Nat.ne_of_lt hf.2.2, hf.2.1⟩
  | failPending g => trivial
  | errPending g => exact ⟨Nat.ne_of_lt hf.1, hf.2⟩
  | arm g nv => exact ⟨Nat.ne_of_lt hf.2.2, hf.2.1⟩
  | swap g tn =>
    refine ⟨hf.2.1, fun t ht hid => ?_⟩
    simp only [List.mem_cons] at ht
    rcases ht with rfl | ht
    · exact absurd hid (Nat.ne_of_gt hf.2.2)
    · exact Nat.ne_of_lt (ha t ht)

/-- exactly one live renewal token for `cv` -/
inductive Chain (A : List Timer) (S : List Sup) (F : Option Nat) (cv b : Nat) : Prop
  | timer (t : Timer) (ht : t ∈ A) (hv : t.ver = cv) (hb : b ≤ t.id) (hq : ∀ t' ∈ A, t'.ver = cv → t' = t)
      (hst : ∀ x ∈ S, StaleSup A cv b x)
  | inst (t : Timer) (ht : t ∈ A) (hv : t.ver = cv) (hb : b ≤ t.id) (hq : ∀ t' ∈ A, t'.ver = cv → t' = t)
      (u : Sup) (hu : u ∈ S) (hp : u.pc = .swap F t.id) (hst : ∀ x ∈ S.erase u, StaleSup A cv b x)
  | sup (hnt : ∀ t ∈ A, t.ver ≠ cv) (u : Sup) (hu : u ∈ S) (hl : LiveSup F cv u)
      (hst : ∀ x ∈ S.erase u, StaleSup A cv b x)

/-- the part a given supportTimeout plays -/
inductive Role (A : List Timer) (S : List Sup) (F : Option Nat) (cv b : Nat) (u : Sup) : Prop
  | stale (h : StaleSup A cv b u)
  | inst (t : Timer) (ht : t ∈ A) (hv : t.ver = cv) (hb : b ≤ t.id) (hq : ∀ t' ∈ A, t'.ver = cv → t' = t)
      (hp : u.pc = .swap F t.id) (hst : ∀ x ∈ S.erase u, StaleSup A cv b x)
  | live (hnt : ∀ t ∈ A, t.ver ≠ cv) (hl : LiveSup F cv u) (hst : ∀ x ∈ S.erase u, StaleSup A cv b x)

theorem Chain.role {A : List Timer} {S : List Sup} {F : Option Nat} {cv b : Nat} (h : Chain A S F cv b)
    {u : Sup} (hu : u ∈ S) : Role A S F cv b u := by
  cases h with
  | timer t ht hv hb hq hst => exact .stale (hst u hu)
  | inst t ht hv hb hq u0 hu0 hp hst =>
    by_cases he : u = u0
    · subst he; exact .inst t ht hv hb hq hp hst
    · exact .stale (hst u ((List.mem_erase_of_ne he).mpr hu))
  | sup hnt u0 hu0 hl hst =>
    by_cases he : u = u0
    · subst he; exact .live hnt hl hst
    · exact .stale (hst u ((List.mem_erase_of_ne he).mpr hu))

theorem erase_cons_ne {a b : Sup} {l : List Sup} (h : b ≠ a) : (b :: l).erase a = b :: l.erase a := by
  simp [h]

theorem rest_erase {P : Sup → Prop} {S : List Sup} {u u0 : Sup} (hu0 : u0 ∈ S) (hne : u ≠ u0)
    (hst : ∀ x ∈ S.erase u0, P x) : u0 ∈ S.erase u ∧ ∀ x ∈ (S.erase u).erase u0, P x := by
  refine ⟨(List.mem_erase_of_ne (Ne.symm hne)).mpr hu0, fun x hx => ?_⟩
  rw [List.erase_comm] at hx
  exact hst x (List.mem_of_mem_erase hx)

theorem rest_cons {P : Sup → Prop} {S : List Sup} {u' u0 : Sup} (hu0 : u0 ∈ S) (hne : u' ≠ u0)
    (hst : ∀ x ∈ S.erase u0, P x) (hp : P u') : u0 ∈ u' :: S ∧ ∀ x ∈ (u' :: S).erase u0, P x := by
  refine ⟨List.mem_cons_of_mem _ hu0, fun x hx => ?_⟩
  rw [erase_cons_ne hne] at hx
  simp only [List.mem_cons] at hx
  rcases hx with rfl | hx
  · exact hp
  · exact hst x hx

theorem Chain.erase_stale {A : List Timer} {S : List Sup} {F : Option Nat} {cv b : Nat} (h : Chain A S F cv b)
    {u : Sup} (hs : StaleSup A cv b u) : Chain A (S.erase u) F cv b := by
  cases h with
  | timer t ht hv hb hq hst => exact .timer t ht hv hb hq (fun x hx => hst x (List.mem_of_mem_erase hx))
  | inst t ht hv hb hq u0 hu0 hp hst =>
    have hne : u ≠ u0 := by rintro rfl; exact stale_not_inst hs hp ht hv
    have := rest_erase hu0 hne hst
    exact .inst t ht hv hb hq u0 this.1 hp this.2
  | sup hnt u0 hu0 hl hst =>
    have hne : u ≠ u0 := by rintro rfl; exact stale_not_live hs hl
    have := rest_erase hu0 hne hst
    exact .sup hnt u0 this.1 hl this.2

theorem Chain.cons_stale {A : List Timer} {S : List Sup} {F : Option Nat} {cv b : Nat} (h : Chain A S F cv b)
    {u : Sup} (hs : StaleSup A cv b u) : Chain A (u :: S) F cv b := by
  cases h with
  | timer t ht hv hb hq hst =>
    refine .timer t ht hv hb hq (fun x hx => ?_)
    simp only [List.mem_cons] at hx
    rcases hx with rfl | hx
    · exact hs
    · exact hst x hx
  | inst t ht hv hb hq u0 hu0 hp hst =>
    have hne : u ≠ u0 := by rintro rfl; exact stale_not_inst hs hp ht hv
    have := rest_cons hu0 hne hst hs
    exact .inst t ht hv hb hq u0 this.1 hp this.2
  | sup hnt u0 hu0 hl hst =>
    have hne : u ≠ u0 := by rintro rfl; exact stale_not_live hs hl
    have := rest_cons hu0 hne hst hs
    exact .sup hnt u0 this.1 hl this.2

theorem Chain.armed_filter {A : List Timer} {S : List Sup} {F : Option Nat} {cv b : Nat} (h : Chain A S F cv b)
    (p : Timer → Bool) (hp : ∀ t ∈ A, t.ver = cv → p t = true) : Chain (A.filter p) S F cv b := by
  have hsub : ∀ t ∈ A.filter p, t ∈ A := fun t ht => (List.mem_filter.mp ht).1
  cases h with
  | timer t ht hv hb hq hst =>
    exact .timer t (List.mem_filter.mpr ⟨ht, hp t ht hv⟩) hv hb (fun t' ht' => hq t' (hsub t' ht'))
      (fun x hx => (hst x hx).subset hsub)
  | inst t ht hv hb hq u0 hu0 hp' hst =>
    exact .inst t (List.mem_filter.mpr ⟨ht, hp t ht hv⟩) hv hb (fun t' ht' => hq t' (hsub t' ht')) u0 hu0 hp'
      (fun x hx => (hst x hx).subset hsub)
  | sup hnt u0 hu0 hl hst =>
    exact .sup (fun t ht => hnt t (hsub t ht)) u0 hu0 hl (fun x hx => (hst x hx).subset hsub)

theorem Chain.armed_cons_stale {A : List Timer} {S : List Sup} {F : Option Nat} {cv b : Nat} (h : Chain A S F cv b)
    {id nv : Nat} (hnv : nv ≠ cv) : Chain (⟨id, nv⟩ :: A) S F cv b := by
  have hq' : ∀ {t : Timer}, (∀ t' ∈ A, t'.ver = cv → t' = t) →
      ∀ t' ∈ (⟨id, nv⟩ : Timer) :: A, t'.ver = cv → t' = t := by
    intro t hq t' ht' hv'
    simp only [List.mem_cons] at ht'
    rcases ht' with rfl | ht'
    · exact absurd hv' hnv
    · exact hq t' ht' hv'
  cases h with
  | timer t ht hv hb hq hst =>
    exact .timer t (List.mem_cons_of_mem _ ht) hv hb (hq' hq) (fun x hx => (hst x hx).cons_ne hnv)
  | inst t ht hv hb hq u0 hu0 hp' hst =>
    exact .inst t (List.mem_cons_of_mem _ ht) hv hb (hq' hq) u0 hu0 hp' (fun x hx => (hst x hx).cons_ne hnv)
  | sup hnt u0 hu0 hl hst =>
    refine .sup (fun t ht => ?_) u0 hu0 hl (fun x hx => (hst x hx).cons_ne hnv)
    simp only [List.mem_cons] at ht
    rcases ht with rfl | ht
    · exact hnv
    · exact hnt t ht

/-- the invariant of the held phase -/
def HeldInv (s : St) : Prop :=
  s.phase = .held → ∃ cv b, s.lrec = some (cv, true) ∧ (∃ f, s.future = some f ∧ b ≤ f) ∧
    Chain s.armed s.sups s.future cv b

theorem heldInv_alive {s : St} (hi : HeldInv s) (hh : s.phase = .held) :
    ∃ v, s.lrec = some (v, true) ∧ Alive s v := by
  obtain ⟨cv, b, hr, _, hc⟩ := hi hh
  refine ⟨cv, hr, ?_⟩
  cases hc with
  | timer t ht hv hb hq hst => exact Or.inl ⟨t, ht, hv⟩
  | inst t ht hv hb hq u0 hu0 hp hst => exact Or.inl ⟨t, ht, hv⟩
  | sup hnt u hu hl hst =>
    right
    rcases u with ⟨ver, pc⟩
    cases pc with
    | load => exact Or.inl ⟨_, hu, hl, Or.inl rfl⟩
    | call g => exact Or.inl ⟨_, hu, hl.1, Or.inr (Or.inl ⟨g, rfl⟩)⟩
    | okPending g nv =>
      obtain ⟨rfl, _⟩ := hl
      exact Or.inr ⟨_, hu, Or.inl ⟨g, rfl⟩⟩
    | failPending g => exact hl.elim
    | errPending g => exact Or.inl ⟨_, hu, hl.1, Or.inr (Or.inr ⟨g, rfl⟩)⟩
    | arm g nv =>
      obtain ⟨rfl, _⟩ := hl
      exact Or.inr ⟨_, hu, Or.inr ⟨g, rfl⟩⟩
    | swap g tn => exact hl.elim

theorem heldInv_init : HeldInv St.init := by
  intro h; cases h

theorem heldInv_acquire {s : St} (hf : Fresh s) :
    HeldInv { s with phase := .held, lrec := some (s.nextVer, true), nextVer := s.nextVer + 1,
                     armed := { id := s.nextTimer, ver := s.nextVer } :: s.armed,
                     future := some s.nextTimer, nextTimer := s.nextTimer + 1 } := by
  intro _
  refine ⟨s.nextVer, s.nextTimer, rfl, ⟨s.nextTimer, rfl, Nat.le_refl _⟩, ?_⟩
  refine Chain.timer ⟨s.nextTimer, s.nextVer⟩ (List.mem_cons_self ..) rfl (Nat.le_refl _) ?_ ?_
  · intro t' ht' hv'
    simp only [List.mem_cons] at ht'
    rcases ht' with rfl | ht'
    · rfl
    · exact absurd hv' (Nat.ne_of_lt (hf.armed t' ht').2)
  · intro x hx
    exact stale_of_fresh (hf.sups x hx) (fun t ht => (hf.armed t ht).2)

theorem heldInv_fire {s : St} {tm : Timer} (hi : HeldInv s) (hm : tm ∈ s.armed)
    (hne : ∀ u ∈ s.sups, ∀ f, u.pc ≠ .swap f tm.id) :
    HeldInv { s with armed := s.armed.filter (· ≠ tm), sups := { ver := tm.ver, pc := .load } :: s.sups } := by
  intro hph
  obtain ⟨cv, b, hr, hfut, hc⟩ := hi hph
  refine ⟨cv, b, hr, hfut, ?_⟩
  show Chain (s.armed.filter (· ≠ tm)) (⟨tm.ver, .load⟩ :: s.sups) s.future cv b
  have hsub : ∀ t ∈ s.armed.filter (· ≠ tm), t ∈ s.armed := fun t ht => (List.mem_filter.mp ht).1
  by_cases hv : tm.ver = cv
  · cases hc with
    | timer t ht hv' hb hq hst =>
      have : tm = t := hq tm hm hv
      subst this
      refine Chain.sup ?_ ⟨tm.ver, .load⟩ (List.mem_cons_self ..) hv ?_
      · intro x hx hxv
        have h2 := (List.mem_filter.mp hx).2
        exact (of_decide_eq_true h2) (hq x (hsub x hx) hxv)
      · intro x hx
        rw [List.erase_cons_head] at hx
        exact (hst x hx).subset hsub
    | inst t ht hv' hb hq u hu hp hst =>
      have : tm = t := hq tm hm hv
      subst this
      exact absurd hp (hne u hu _)
    | sup hnt u hu hl hst => exact absurd hv (hnt tm hm)
  · refine (hc.armed_filter _ (fun t ht htv => ?_)).cons_stale (u := ⟨tm.ver, .load⟩) hv
    apply decide_eq_true
    rintro rfl
    exact hv htv

theorem heldInv_supLoad {s : St} {u : Sup} (hi : HeldInv s) (hu : u ∈ s.sups) (hp : u.pc = .load) :
    HeldInv { s with sups := setSup s u (.call s.future) } := by
  intro hph
  obtain ⟨cv, b, hr, hfut, hc⟩ := hi hph
  refine ⟨cv, b, hr, hfut, ?_⟩
  show Chain s.armed ({ u with pc := .call s.future } :: s.sups.erase u) s.future cv b
  cases hc.role hu with
  | stale h =>
    refine (hc.erase_stale h).cons_stale ?_
    unfold StaleSup at h ⊢
    rw [hp] at h
    exact h
  | inst t ht hv hb hq hp' hst => rw [hp] at hp'; cases hp'
  | live hnt hl hst =>
    refine Chain.sup hnt _ (List.mem_cons_self ..) ?_ (by rw [List.erase_cons_head]; exact hst)
    unfold LiveSup at hl ⊢
    rw [hp] at hl
    exact ⟨hl, rfl⟩

theorem heldInv_supApply {s : St} {u : Sup} {fut : Option Nat} {v : Nat} {o : Bool} (hf : Fresh s)
    (hi : HeldInv s) (hu : u ∈ s.sups) (hp : u.pc = .call fut) (hr' : s.lrec = some (v, o)) (hv : v = u.ver) :
    HeldInv { s with lrec := some (s.nextVer, o), nextVer := s.nextVer + 1,
                     sups := setSup s u (.okPending fut s.nextVer) } := by
  intro hph
  obtain ⟨cv, b, hr, hfut, hc⟩ := hi hph
  have hcv : u.ver = cv ∧ o = true := by
    rw [hr] at hr'; cases hr'; exact ⟨hv.symm, rfl⟩
  obtain ⟨hcv, rfl⟩ := hcv
  refine ⟨s.nextVer, b, rfl, hfut, ?_⟩
  show Chain s.armed ({ u with pc := .okPending fut s.nextVer } :: s.sups.erase u) s.future s.nextVer b
  cases hc.role hu with
  | stale h =>
    unfold StaleSup at h
    rw [hp] at h
    exact absurd hcv h
  | inst t ht hv hb hq hp' hst => rw [hp] at hp'; cases hp'
  | live hnt hl hst =>
    unfold LiveSup at hl
    rw [hp] at hl
    refine Chain.sup (fun t ht => Nat.ne_of_lt (hf.armed t ht).2) _ (List.mem_cons_self ..) ⟨rfl, hl.2⟩ ?_
    rw [List.erase_cons_head]
    intro x hx
    exact (hst x hx).new_cv (hf.sups x (List.mem_of_mem_erase hx)) (fun t ht => (hf.armed t ht).2)

theorem heldInv_supRefuse {s : St} {u : Sup} {fut : Option Nat} (hi : HeldInv s) (hu : u ∈ s.sups)
    (hp : u.pc = .call fut) (hr' : s.lrec = none ∨ ∃ v o, s.lrec = some (v, o) ∧ v ≠ u.ver) :
    HeldInv { s with sups := setSup s u (.failPending fut) } := by
  intro hph
  obtain ⟨cv, b, hr, hfut, hc⟩ := hi hph
  refine ⟨cv, b, hr, hfut, ?_⟩
  show Chain s.armed ({ u with pc := .failPending fut } :: s.sups.erase u) s.future cv b
  cases hc.role hu with
  | stale h => exact (hc.erase_stale h).cons_stale (u := { u with pc := .failPending fut }) trivial
  | inst t ht hv hb hq hp' hst => rw [hp] at hp'; cases hp'
  | live hnt hl hst =>
    unfold LiveSup at hl
    rw [hp] at hl
    rcases hr' with hn | ⟨v, o, hvo, hne⟩
    · rw [hr] at hn; cases hn
    · rw [hr] at hvo; cases hvo; exact absurd hl.1.symm hne

theorem heldInv_supLose {s : St} {u : Sup} {fut : Option Nat} (hi : HeldInv s) (hu : u ∈ s.sups)
    (hp : u.pc = .call fut) (hcur : s.phase = .held → ∃ o, s.lrec = some (u.ver, o)) :
    HeldInv { s with sups := setSup s u (.errPending fut) } := by
  intro hph
  obtain ⟨cv, b, hr, hfut, hc⟩ := hi hph
  refine ⟨cv, b, hr, hfut, ?_⟩
  show Chain s.armed ({ u with pc := .errPending fut } :: s.sups.erase u) s.future cv b
  have hcv : u.ver = cv := by
    obtain ⟨o, ho⟩ := hcur hph
    rw [hr] at ho; cases ho; rfl
  cases hc.role hu with
  | stale h =>
    unfold StaleSup at h
    rw [hp] at h
    exact absurd hcv h
  | inst t ht hv hb hq hp' hst => rw [hp] at hp'; cases hp'
  | live hnt hl hst =>
    unfold LiveSup at hl
    rw [hp] at hl
    exact Chain.sup hnt _ (List.mem_cons_self ..) hl (by rw [List.erase_cons_head]; exact hst)

theorem heldInv_supOk {s : St} {u : Sup} {fut : Option Nat} {nv : Nat} (hi : HeldInv s) (hu : u ∈ s.sups)
    (hp : u.pc = .okPending fut nv) :
    HeldInv { s with sups := setSup s u (.arm fut nv) } := by
  intro hph
  obtain ⟨cv, b, hr, hfut, hc⟩ := hi hph
  refine ⟨cv, b, hr, hfut, ?_⟩
  show Chain s.armed ({ u with pc := .arm fut nv } :: s.sups.erase u) s.future cv b
  cases hc.role hu with
  | stale h =>
    refine (hc.erase_stale h).cons_stale ?_
    unfold StaleSup at h ⊢
    rw [hp] at h
    exact h
  | inst t ht hv hb hq hp' hst => rw [hp] at hp'; cases hp'
  | live hnt hl hst =>
    unfold LiveSup at hl
    rw [hp] at hl
    exact Chain.sup hnt _ (List.mem_cons_self ..) hl (by rw [List.erase_cons_head]; exact hst)

theorem heldInv_supFail {s : St} {u : Sup} {fut : Option Nat} (hi : HeldInv s) (hu : u ∈ s.sups)
    (hp : u.pc = .failPending fut) :
    HeldInv { s with sups := s.sups.erase u } := by
  intro hph
  obtain ⟨cv, b, hr, hfut, hc⟩ := hi hph
  refine ⟨cv, b, hr, hfut, ?_⟩
  show Chain s.armed (s.sups.erase u) s.future cv b
  cases hc.role hu with
  | stale h => exact hc.erase_stale h
  | inst t ht hv hb hq hp' hst => rw [hp] at hp'; cases hp'
  | live hnt hl hst =>
    unfold LiveSup at hl
    rw [hp] at hl
    exact hl.elim

theorem heldInv_supErr {s : St} {u : Sup} {fut : Option Nat} (hi : HeldInv s) (hu : u ∈ s.sups)
    (hp : u.pc = .errPending fut) :
    HeldInv { s with sups := setSup s u (.arm fut u.ver) } := by
  intro hph
  obtain ⟨cv, b, hr, hfut, hc⟩ := hi hph
  refine ⟨cv, b, hr, hfut, ?_⟩
  show Chain s.armed ({ u with pc := .arm fut u.ver } :: s.sups.erase u) s.future cv b
  cases hc.role hu with
  | stale h =>
    refine (hc.erase_stale h).cons_stale ?_
    unfold StaleSup at h ⊢
    rw [hp] at h
    exact h
  | inst t ht hv hb hq hp' hst => rw [hp] at hp'; cases hp'
  | live hnt hl hst =>
    unfold LiveSup at hl
    rw [hp] at hl
    exact Chain.sup hnt _ (List.mem_cons_self ..) hl (by rw [List.erase_cons_head]; exact hst)

theorem heldInv_supArm {s : St} {u : Sup} {fut : Option Nat} {nv : Nat} (hf : Fresh s) (hi : HeldInv s)
    (hu : u ∈ s.sups) (hp : u.pc = .arm fut nv) :
    HeldInv { s with armed := { id := s.nextTimer, ver := nv } :: s.armed, nextTimer := s.nextTimer + 1,
                     sups := setSup s u (.swap fut s.nextTimer) } := by
  intro hph
  obtain ⟨cv, b, hr, hfut, hc⟩ := hi hph
  refine ⟨cv, b, hr, hfut, ?_⟩
  show Chain (⟨s.nextTimer, nv⟩ :: s.armed) ({ u with pc := .swap fut s.nextTimer } :: s.sups.erase u)
    s.future cv b
  cases hc.role hu with
  | stale h =>
    have h' := h
    unfold StaleSup at h'
    rw [hp] at h'
    refine ((hc.armed_cons_stale (id := s.nextTimer) h'.1).erase_stale (h.cons_ne h'.1)).cons_stale ?_
    refine ⟨h'.2, fun t ht hid => ?_⟩
    simp only [List.mem_cons] at ht
    rcases ht with rfl | ht
    · exact h'.1
    · exact absurd hid (Nat.ne_of_lt (hf.armed t ht).1)
  | inst t ht hv hb hq hp' hst => rw [hp] at hp'; cases hp'
  | live hnt hl hst =>
    unfold LiveSup at hl
    rw [hp] at hl
    obtain ⟨rfl, rfl⟩ := hl
    obtain ⟨f, hfu, hbf⟩ := hfut
    refine Chain.inst ⟨s.nextTimer, nv⟩ (List.mem_cons_self ..) rfl ?_ ?_ _ (List.mem_cons_self ..) rfl ?_
    · exact Nat.le_trans hbf (Nat.le_of_lt (hf.future f hfu))
    · intro t' ht' hv'
      simp only [List.mem_cons] at ht'
      rcases ht' with rfl | ht'
      · rfl
      · exact absurd hv' (hnt t' ht')
    · rw [List.erase_cons_head]
      intro x hx
      exact (hst x hx).cons_fresh (hf.sups x (List.mem_of_mem_erase hx))

theorem heldInv_supSwap_eq {s : St} {u : Sup} {fut : Option Nat} {tn : Nat} (hi : HeldInv s)
    (hu : u ∈ s.sups) (hp : u.pc = .swap fut tn) (he : s.future = fut) :
    HeldInv { s with future := some tn, sups := s.sups.erase u } := by
  intro hph
  obtain ⟨cv, b, hr, ⟨f, hfu, hbf⟩, hc⟩ := hi hph
  cases hc.role hu with
  | stale h =>
    unfold StaleSup at h
    rw [hp] at h
    have := h.1 f (by rw [← he]; exact hfu)
    exact absurd hbf (Nat.not_le_of_lt this)
  | inst t ht hv hb hq hp' hst =>
    rw [hp] at hp'
    have htn : tn = t.id := by cases hp'; rfl
    subst htn
    exact ⟨cv, b, hr, ⟨t.id, rfl, hb⟩, Chain.timer t ht hv hb hq hst⟩
  | live hnt hl hst =>
    unfold LiveSup at hl
    rw [hp] at hl
    exact hl.elim

theorem heldInv_supSwap_ne {s : St} {u : Sup} {fut : Option Nat} {tn : Nat} (hi : HeldInv s)
    (hu : u ∈ s.sups) (hp : u.pc = .swap fut tn) (he : s.future ≠ fut) :
    HeldInv { s with armed := s.armed.filter (·.id ≠ tn), sups := s.sups.erase u } := by
  intro hph
  obtain ⟨cv, b, hr, hfut, hc⟩ := hi hph
  refine ⟨cv, b, hr, hfut, ?_⟩
  show Chain (s.armed.filter (·.id ≠ tn)) (s.sups.erase u) s.future cv b
  cases hc.role hu with
  | stale h =>
    have h' := h
    unfold StaleSup at h'
    rw [hp] at h'
    refine (hc.erase_stale h).armed_filter _ (fun t ht htv => ?_)
    apply decide_eq_true
    intro hid
    exact h'.2 t ht hid htv
  | inst t ht hv hb hq hp' hst =>
    rw [hp] at hp'
    exact absurd (by cases hp'; rfl) he
  | live hnt hl hst =>
    unfold LiveSup at hl
    rw [hp] at hl
    exact hl.elim

/-- no early fire, transient errors only for renewals of the record's current version -/
theorem heldInv_step {s t : St} (hf : Fresh s) (hi : HeldInv s) (st : Step true s t)
    (hne : ¬ EarlyFire s t)
    (hnl : ¬ ∃ u ∈ s.sups, ∃ fut, u.pc = .call fut ∧ t = { s with sups := setSup s u (.errPending fut) } ∧
              ¬ (∃ o, s.lrec = some (u.ver, o))) :
    HeldInv t := by
  cases st with
  | acquire hp hr => exact heldInv_acquire hf
  | unlock hp => intro h; cases h
  | uCancel hp => intro h; cases h
  | uDelete hp => intro h; cases h
  | fire tm hm => exact heldInv_fire hi hm (not_early_fire hm hne)
  | supLoad u hu hp => exact heldInv_supLoad hi hu hp
  | supApply u fut v o hu hp hr hv => exact heldInv_supApply hf hi hu hp hr hv
  | supRefuse u fut hu hp hr => exact heldInv_supRefuse hi hu hp hr
  | supLose u fut hu hp =>
    refine heldInv_supLose hi hu hp (fun _ => ?_)
    exact Classical.byContradiction fun h => hnl ⟨u, hu, fut, hp, rfl, h⟩
  | supOk u fut nv hu hp => exact heldInv_supOk hi hu hp
  | supFail u fut hu hp => exact heldInv_supFail hi hu hp
  | supErr u fut hu hp => exact heldInv_supErr hi hu hp
  | supArm u fut nv hu hp => exact heldInv_supArm hf hi hu hp
  | supSwap u fut tn hu hp =>
    by_cases he : s.future = fut
    · rw [if_pos rfl, if_pos he]; exact heldInv_supSwap_eq hi hu hp he
    · rw [if_pos rfl, if_neg he]; exact heldInv_supSwap_ne hi hu hp he
  | otherCreate hr =>
    intro hph
    obtain ⟨cv, b, hr', _⟩ := hi hph
    rw [hr] at hr'; cases hr'
  | otherRenew v hr =>
    intro hph
    obtain ⟨cv, b, hr', _⟩ := hi hph
    rw [hr] at hr'; cases hr'
  | otherDelete v hr =>
    intro hph
    obtain ⟨cv, b, hr', _⟩ := hi hph
    rw [hr] at hr'; cases hr'
  | expire v o hr ho =>
    intro hph
    obtain ⟨cv, b, hr', _⟩ := hi hph
    rw [hr] at hr'; cases hr'
    have := ho rfl
    rw [this] at hph; cases hph

end LeaseCell
