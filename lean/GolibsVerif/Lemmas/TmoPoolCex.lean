import GolibsVerif.Lemmas.TmoPoolInv
/-
A sound trace replayer for the Tmo.Pool transition system and the concrete run (found by the explorer
`ExploreC13.lean`) that leaves a pending future without a responsible watcher.
-/
namespace Tmo.Pool

inductive Lbl where
  | add (fireT : Nat)
  | cancel (id : Nat)
  | section_ (i : Nat)
  | timerWake (i : Nat)
  | tokenWake (i : Nat)
  | tick
deriving Repr

/-- one labelled step, `none` if the step is not enabled -/
def exec (c : Cfg) (s : St) : Lbl → Option St
  | .add fireT => some (addT c s fireT)
  | .cancel id => if id ∈ s.heap.map (·.1) then some (cancelT c s id) else none
  | .section_ i =>
    match s.threads[i]? with
    | some (.top f mis) => some (secT c (ranCb s f) i (misNext f mis))
    | _ => none
  | .timerWake i =>
    match s.threads[i]? with
    | some (.sleeping d mis _) => if d ≤ s.now then some (setT s i (.top none mis)) else none
    | _ => none
  | .tokenWake i =>
    match s.threads[i]? with
    | some (.sleeping _ _ _) =>
      if 0 < s.tokens then some (setT { s with tokens := s.tokens - 1 } i (.top none 0)) else none
    | _ => none
  | .tick => some { s with now := s.now + 1 }

theorem exec_sound {c : Cfg} {s t : St} {l : Lbl} (h : exec c s l = some t) : Step c s t := by
  cases l with
  | add fireT =>
    simp only [exec, Option.some.injEq] at h; subst h
    exact Step.add s fireT
  | cancel id =>
    simp only [exec] at h
    split at h
    · rename_i hid
      simp only [Option.some.injEq] at h; subst h
      exact Step.cancel s id hid
    · cases h
  | section_ i =>
    simp only [exec] at h
    split at h
    · rename_i f mis hi
      simp only [Option.some.injEq] at h; subst h
      exact step_section c s i f mis hi
    · cases h
  | timerWake i =>
    simp only [exec] at h
    split at h
    · rename_i d mis cp hi
      split at h
      · rename_i hd
        simp only [Option.some.injEq] at h; subst h
        exact Step.timerWake s i d mis cp hi hd
      · cases h
    · cases h
  | tokenWake i =>
    simp only [exec] at h
    split at h
    · rename_i d mis cp hi
      split at h
      · rename_i ht
        simp only [Option.some.injEq] at h; subst h
        exact Step.tokenWake s i d mis cp hi ht
      · cases h
    · cases h
  | tick =>
    simp only [exec, Option.some.injEq] at h; subst h
    exact Step.tick s

def run (c : Cfg) (s : St) : List Lbl → Option St
  | [] => some s
  | l :: ls => match exec c s l with
    | some t => run c t ls
    | none => none

theorem run_sound {c : Cfg} {s t : St} {ls : List Lbl} (hs : Reach c s) (h : run c s ls = some t) :
    Reach c t := by
  induction ls generalizing s with
  | nil => simp only [run, Option.some.injEq] at h; subst h; exact hs
  | cons l ls ih =>
    simp only [run] at h
    split at h
    · rename_i u hu
      exact ih (Reach.step hs (exec_sound hu)) h
    · cases h

/-! ### the counterexample run (maxWorkers = 2, idle = 2) -/

def cexCfg : Cfg := { maxWorkers := 2, idle := 2 }

/-- Two futures with fire time 0 are added at time 0; at time 1 watcher 0 pops the first and spawns
watcher 1, which pops the second; both run their callbacks and go idle (capped sleep until 3, no
token left).  A third future (id 2) with fire time 1 is added at time 1 (one token); watcher 1 takes the
token, finds the head not yet due (`now > fireT` is false for now = fireT = 1) and sleeps until
exactly the fire time (deadline 1 = now, `mis = 1`).  Its timer fires immediately (1 ≤ now); at its
section the head is still not due, `watchers = 2 > 1` and `mis' = 2 > 1`, so it exits.  What remains:
watcher 0 sleeping until 3, no token, future 2 (fire time 1) pending — nobody is responsible, and
after one more tick the future is overdue with no non-sleep step enabled. -/
def cexTrace : List Lbl :=
  [.add 0, .section_ 0, .add 0, .tick, .tokenWake 0, .section_ 0, .section_ 1, .section_ 1,
   .section_ 0, .add 1, .tokenWake 1, .section_ 1, .timerWake 1, .section_ 1]

def cexState : St :=
  { heap := [(2, 1)], now := 1, watchers := 1, tokens := 0,
    threads := [.sleeping 3 0 true, .exited], started := [1, 0], nextId := 3 }

theorem cex_run : run cexCfg St.init cexTrace = some cexState := by decide

theorem cex_reach : Reach cexCfg cexState := run_sound Reach.init cex_run

/-- one more tick: the future is now due and no watcher step other than sleeping on is enabled -/
def cexState2 : St := { cexState with now := 2 }

theorem cex_reach2 : Reach cexCfg cexState2 := Reach.step cex_reach (Step.tick cexState)

end Tmo.Pool
