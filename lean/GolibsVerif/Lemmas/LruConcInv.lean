import GolibsVerif.Lemmas.LruConcBase
/-
Every step of `Lru.Conc` preserves `Inv`; hence `Inv` holds in every reachable state.
-/
namespace Lru.Conc
open Lru

theorem inv_init (cap : Nat) (km : Nat → Nat) (n : Nat) : Inv cap km (St.init n) := by
  have hc : ∀ k, creators (St.init n) k = 0 := by
    intro k
    rw [creators_eq]
    simp [St.init, isCr]
  have hu : unpublished (St.init n) = [] := by
    rw [unpublished_eq]
    simp [St.init, List.filterMap_replicate, upOf]
  constructor
  · intro k; rw [hc]; omega
  · intro k; rw [hc]; simp [St.init]
  · simp [St.init]
  · intro p hp
    simp only [St.init, List.mem_replicate] at hp
    rw [hp.2]; trivial
  · intro k hk; rw [hc] at hk; omega
  · simp [St.init]
  · simp [St.init]
  · intro x; rw [hu]; simp [St.init, createdOk, deleted]

theorem unpublished_same {s t : St} {i : Nat} {a b : Pc} (h : s.pcs[i]? = some a)
    (hp : t.pcs = s.pcs.set i b) (hup : upOf b = upOf a) (x : Nat × Nat) :
    (unpublished t).count x = (unpublished s).count x := by
  have := unpublished_upd h hp x
  rw [hup] at this
  omega

/-- acct is preserved when log and items are untouched and the caller's unpublished status is unchanged -/
theorem acct_same {cap : Nat} {km : Nat → Nat} {s t : St} (hI : Inv cap km s) {i : Nat} {a b : Pc}
    (h : s.pcs[i]? = some a) (hp : t.pcs = s.pcs.set i b) (hup : upOf b = upOf a)
    (hlog : t.log = s.log) (hit : t.items = s.items) (x : Nat × Nat) :
    (createdOk t.log).count x =
      (deleted t.log).count x + (t.items.map pv).count x + (unpublished t).count x := by
  rw [hlog, hit, unpublished_same h hp hup x]
  exact hI.acct x

theorem hit_perm {items a b : List Entry} {e : Entry} {k : Nat} (hab : items = a ++ e :: b)
    (hke : e.k = k) (ha : ∀ x ∈ a, x.k ≠ k) (hb : ∀ x ∈ b, x.k ≠ k) :
    (eraseK items k ++ [e]).Perm items := by
  rw [hab, eraseK, filter_ne_split (f := Entry.k) hke ha hb]
  exact (List.perm_append_singleton _ _).trans (List.perm_middle).symm

theorem inv_call {cap km} {s : St} (hI : Inv cap km s) (i : Nat) (op : COp)
    (h : s.pcs[i]? = some .idle) : Inv cap km (setPc s i (.start op)) :=
  hI.quiet h rfl (fun _ => rfl) trivial rfl hI.nores hI.len hI.keys
    (acct_same hI h rfl rfl rfl rfl)

theorem inv_ret {cap km} {s : St} (hI : Inv cap km s) (i : Nat) (r : Res)
    (h : s.pcs[i]? = some (.done r)) : Inv cap km (setPc s i .idle) :=
  hI.quiet h rfl (fun _ => rfl) trivial rfl hI.nores hI.len hI.keys
    (acct_same hI h rfl rfl rfl rfl)

theorem inv_gocWait {cap km} {s : St} (hI : Inv cap km s) (i pk : Nat)
    (h : s.pcs[i]? = some (.start (.goc pk))) : Inv cap km (setPc s i (.waiting pk (km pk))) :=
  hI.quiet h rfl (fun _ => rfl) trivial rfl hI.nores hI.len hI.keys
    (acct_same hI h rfl rfl rfl rfl)

theorem inv_wake {cap km} {s : St} (hI : Inv cap km s) (i pk k : Nat)
    (h : s.pcs[i]? = some (.waiting pk k)) : Inv cap km (setPc s i (.start (.goc pk))) :=
  hI.quiet h rfl (fun _ => rfl) trivial rfl hI.nores hI.len hI.keys
    (acct_same hI h rfl rfl rfl rfl)

theorem inv_createBegin {cap km} {s : St} (hI : Inv cap km s) (i pk k : Nat)
    (h : s.pcs[i]? = some (.creating pk k)) : Inv cap km (setPc s i (.inCreate pk k)) :=
  hI.quiet h rfl (fun _ => rfl) (hI.wf (.creating pk k) (mem_of_getElem?_eq h)) rfl hI.nores hI.len hI.keys
    (acct_same hI h rfl rfl rfl rfl)

theorem inv_createEnd {cap km} {s : St} (hI : Inv cap km s) (i pk k : Nat) (res : Option Nat)
    (h : s.pcs[i]? = some (.inCreate pk k)) :
    Inv cap km (setPc { s with log := s.log ++ [.create pk res] } i (.created pk k res)) := by
  refine hI.quiet h rfl (fun _ => rfl) (hI.wf (.inCreate pk k) (mem_of_getElem?_eq h)) rfl hI.nores hI.len hI.keys ?_
  intro x
  have hu := unpublished_upd (t := setPc { s with log := s.log ++ [.create pk res] } i (.created pk k res))
    h rfl x
  have ha := hI.acct x
  cases res with
  | none =>
    simp only [upOf, Option.toList_none, List.count_nil] at hu
    simp only [setPc, createdOk_append, deleted_append, createdOk, deleted, List.append_nil] at hu ⊢
    omega
  | some v =>
    simp only [upOf, Option.toList_none, Option.toList_some, List.count_nil, List.count_cons] at hu
    simp only [setPc, createdOk_append, deleted_append, createdOk, deleted, List.append_nil,
      List.count_append, List.count_cons, List.count_nil] at hu ⊢
    omega

theorem inv_gocHit {cap km} {s : St} (hI : Inv cap km s) (i pk : Nat) (e : Entry)
    (h : s.pcs[i]? = some (.start (.goc pk))) (hf : findK s.items (km pk) = some e) :
    Inv cap km (setPc { s with items := eraseK s.items (km pk) ++ [e] } i (.done (.val e.v))) := by
  obtain ⟨hke, a, b, hab, ha, hb⟩ := find_split (f := Entry.k) hI.keys hf
  have hperm := hit_perm hab hke ha hb
  refine hI.quiet h rfl (fun _ => rfl) trivial rfl ?_ ?_ ?_ ?_
  · intro k hk e' he'
    exact hI.nores k hk e' (hperm.mem_iff.1 he')
  · show (eraseK s.items (km pk) ++ [e]).length ≤ cap
    rw [hperm.length_eq]; exact hI.len
  · show (eraseK s.items (km pk) ++ [e]).Pairwise _
    exact (hperm.pairwise_iff (fun h => Ne.symm h)).2 hI.keys
  · intro x
    have hu := unpublished_same (t := setPc { s with items := eraseK s.items (km pk) ++ [e] } i (.done (.val e.v)))
      h rfl rfl x
    rw [hu]
    show _ = _ + ((eraseK s.items (km pk) ++ [e]).map pv).count x + _
    rw [(hperm.map pv).count_eq x]
    exact hI.acct x

theorem inv_remove {cap km} {s : St} (hI : Inv cap km s) (i pk : Nat)
    (h : s.pcs[i]? = some (.start (.rm pk))) :
    Inv cap km (match findK s.items (km pk) with
      | none => setPc s i (.done (.b false))
      | some e => setPc { s with items := eraseK s.items (km pk), log := s.log ++ [.delete e.pk e.v] } i (.done (.b true))) := by
  cases hf : findK s.items (km pk) with
  | none =>
    exact hI.quiet h rfl (fun _ => rfl) trivial rfl hI.nores hI.len hI.keys
      (acct_same hI h rfl rfl rfl rfl)
  | some e =>
    simp only
    obtain ⟨hke, a, b, hab, ha, hb⟩ := find_split (f := Entry.k) hI.keys hf
    have hsub : (eraseK s.items (km pk)).Sublist s.items := List.filter_sublist
    refine hI.quiet h rfl (fun _ => rfl) trivial rfl ?_ ?_ ?_ ?_
    · intro k hk e' he'
      exact hI.nores k hk e' (hsub.subset he')
    · exact Nat.le_trans hsub.length_le hI.len
    · exact hI.keys.sublist hsub
    · intro x
      have hu := unpublished_same
        (t := setPc { s with items := eraseK s.items (km pk), log := s.log ++ [.delete e.pk e.v] } i (.done (.b true)))
        h rfl rfl x
      rw [hu]
      have ha' := hI.acct x
      show (createdOk (s.log ++ [.delete e.pk e.v])).count x =
        (deleted (s.log ++ [.delete e.pk e.v])).count x + ((eraseK s.items (km pk)).map pv).count x + _
      rw [hab] at ha'
      rw [hab, eraseK, filter_ne_split (f := Entry.k) hke ha hb]
      simp only [createdOk_append, deleted_append, createdOk, deleted, List.append_nil, List.map_append,
        List.map_cons, List.count_append, List.count_cons, List.count_nil, pv] at ha' ⊢
      omega

theorem inv_clear {cap km} {s : St} (hI : Inv cap km s) (i : Nat)
    (h : s.pcs[i]? = some (.start .clr)) :
    Inv cap km (setPc { s with items := [], log := s.log ++ s.items.map fun e => .delete e.pk e.v } i
      (.done (.num s.items.length))) := by
  refine hI.quiet h rfl (fun _ => rfl) trivial rfl ?_ ?_ ?_ ?_
  · intro k _ e' he'; cases he'
  · exact Nat.zero_le _
  · exact List.Pairwise.nil
  · intro x
    have hu := unpublished_same
      (t := setPc { s with items := [], log := s.log ++ s.items.map fun e => .delete e.pk e.v } i
        (.done (.num s.items.length))) h rfl rfl x
    rw [hu]
    have ha' := hI.acct x
    show (createdOk (s.log ++ s.items.map fun e => Ev.delete e.pk e.v)).count x =
      (deleted (s.log ++ s.items.map fun e => Ev.delete e.pk e.v)).count x + (([] : List Entry).map pv).count x + _
    simp only [createdOk_append, deleted_append, createdOk_deletes, deleted_deletes, List.append_nil,
      List.count_append, List.map_nil, List.count_nil]
    omega

theorem inv_gocRegister {cap km} {s : St} (hI : Inv cap km s) (i pk : Nat)
    (h : s.pcs[i]? = some (.start (.goc pk))) (hf : findK s.items (km pk) = none)
    (hi : km pk ∉ s.inflight) :
    Inv cap km (setPc { s with inflight := km pk :: s.inflight } i (.creating pk (km pk))) := by
  have h0 : creators s (km pk) = 0 := by
    have h1 := hI.cr_le (km pk)
    have h2 := hI.infl (km pk)
    cases hc : creators s (km pk) with
    | zero => rfl
    | succ m => exact absurd (h2.2 (by omega)) hi
  have hc : ∀ k, creators (setPc { s with inflight := km pk :: s.inflight } i (.creating pk (km pk))) k =
      creators s k + (if km pk = k then 1 else 0) := by
    intro k
    have := creators_upd (t := setPc { s with inflight := km pk :: s.inflight } i (.creating pk (km pk)))
      h rfl k
    simp only [isCr, beq_iff_eq] at this
    simpa using this
  have hne : ∀ y ∈ s.items, y.k ≠ km pk := by
    intro y hy; simpa using (List.find?_eq_none.1 hf) y hy
  constructor
  · intro k; rw [hc]
    by_cases hk : km pk = k
    · subst hk; rw [h0]; simp
    · rw [if_neg hk]; exact hI.cr_le k
  · intro k; rw [hc]
    show k ∈ km pk :: s.inflight ↔ _
    by_cases hk : km pk = k
    · subst hk; rw [h0]; simp
    · rw [if_neg hk, List.mem_cons]
      have := hI.infl k
      constructor
      · rintro (rfl | h')
        · exact absurd rfl hk
        · exact this.1 h'
      · intro h'; exact Or.inr (this.2 h')
  · exact List.nodup_cons.2 ⟨hi, hI.nd⟩
  · exact wf_set hI.wf i rfl
  · intro k hk e he
    rw [hc] at hk
    by_cases hkk : km pk = k
    · subst hkk; exact hne e he
    · rw [if_neg hkk] at hk; exact hI.nores k hk e he
  · exact hI.len
  · exact hI.keys
  · exact acct_same hI h rfl rfl rfl rfl

theorem creator_of_created {cap km} {s : St} (_hI : Inv cap km s) {i pk k : Nat} {res : Option Nat}
    (h : s.pcs[i]? = some (.created pk k res)) : 1 ≤ creators s k := by
  have := creators_upd (t := setPc s i .idle) h rfl k
  simp only [isCr, beq_self_eq_true, if_true] at this
  simp at this
  omega

theorem inv_publish_none {cap km} {s : St} (hI : Inv cap km s) (i pk k : Nat)
    (h : s.pcs[i]? = some (.created pk k none)) :
    Inv cap km (setPc { s with inflight := s.inflight.filter (· != k) } i (.done .err)) := by
  have hc : ∀ k', creators (setPc { s with inflight := s.inflight.filter (· != k) } i (.done .err)) k' +
      (if k = k' then 1 else 0) = creators s k' := by
    intro k'
    have := creators_upd (t := setPc { s with inflight := s.inflight.filter (· != k) } i (.done .err))
      h rfl k'
    simp only [isCr, beq_iff_eq] at this
    simpa using this
  constructor
  · intro k'; have := hc k'; have := hI.cr_le k'; omega
  · intro k'
    show k' ∈ s.inflight.filter (· != k) ↔ _
    have h1 := hc k'; have h2 := hI.cr_le k'; have h3 := hI.infl k'
    rw [List.mem_filter]
    by_cases hk : k = k'
    · subst hk; rw [if_pos rfl] at h1; simp; omega
    · rw [if_neg hk] at h1
      have : (k' != k) = true := by simp; exact fun h => hk h.symm
      rw [this, h3]; simp; omega
  · exact List.Pairwise.filter _ hI.nd
  · exact wf_set hI.wf i trivial
  · intro k' hk' e he
    have h1 := hc k'
    exact hI.nores k' (by omega) e he
  · exact hI.len
  · exact hI.keys
  · exact acct_same hI h rfl rfl rfl rfl

theorem inv_publish_some {cap km} {s : St} (hI : Inv cap km s) (i pk k v : Nat)
    (h : s.pcs[i]? = some (.created pk k (some v))) : Inv cap km (pubSt cap s i pk k v) := by
  have hp : (pubSt cap s i pk k v).pcs = s.pcs.set i (.done (.val v)) := rfl
  have hin : (pubSt cap s i pk k v).inflight = s.inflight.filter (· != k) := rfl
  have hit : (pubSt cap s i pk k v).items = (pubItems cap s.items { k := k, pk := pk, v := v }).1 := rfl
  have hlog : (pubSt cap s i pk k v).log =
      s.log ++ (pubItems cap s.items { k := k, pk := pk, v := v }).2 := rfl
  generalize pubSt cap s i pk k v = t at hp hin hit hlog
  have hc : ∀ k', creators t k' + (if k = k' then 1 else 0) = creators s k' := by
    intro k'
    have := creators_upd h hp k'
    simp only [isCr, beq_iff_eq] at this
    simpa using this
  have hcr := creator_of_created hI h
  have hfresh : ∀ e ∈ s.items, e.k ≠ ({ k := k, pk := pk, v := v } : Entry).k := hI.nores k hcr
  have hk' : (s.items ++ [({ k := k, pk := pk, v := v } : Entry)]).Pairwise (fun a b => a.k ≠ b.k) := by
    refine List.pairwise_append.2 ⟨hI.keys, by simp, ?_⟩
    intro x hx y hy
    simp only [List.mem_singleton] at hy; subst hy
    exact hfresh x hx
  have hu : ∀ x, (unpublished t).count x + (if (pk, v) == x then 1 else 0) = (unpublished s).count x := by
    intro x
    have := unpublished_upd h hp x
    simpa [upOf, List.count_cons] using this
  -- facts about the new recency list
  have hsub : t.items.Sublist (s.items ++ [{ k := k, pk := pk, v := v }]) := by
    rw [hit]
    rcases pubItems_spec (cap := cap) hI.keys hfresh with ⟨e1, _⟩ | ⟨f, rest, e1, e2⟩
    · rw [e1]; exact List.Sublist.refl _
    · rw [e2, e1]; exact List.sublist_cons_self f rest
  constructor
  · intro k'; have := hc k'; have := hI.cr_le k'; omega
  · intro k'
    rw [hin]
    have h1 := hc k'; have h2 := hI.cr_le k'; have h3 := hI.infl k'
    rw [List.mem_filter]
    by_cases hk : k = k'
    · subst hk; rw [if_pos rfl] at h1; simp; omega
    · rw [if_neg hk] at h1
      have : (k' != k) = true := by simp; exact fun h => hk h.symm
      rw [this, h3]; simp; omega
  · rw [hin]; exact List.Pairwise.filter _ hI.nd
  · rw [hp]; exact wf_set hI.wf i trivial
  · intro k' hk1 e he
    have h1 := hc k'
    have hkk : k ≠ k' := by
      intro hkk; rw [if_pos hkk] at h1; subst hkk; have := hI.cr_le k; omega
    rw [if_neg hkk] at h1
    rcases List.mem_append.1 (hsub.subset he) with he | he
    · exact hI.nores k' (by omega) e he
    · simp only [List.mem_singleton] at he; subst he; exact hkk
  · rw [hit]
    rcases pubItems_spec (cap := cap) hI.keys hfresh with ⟨e1, hl⟩ | ⟨f, rest, e1, e2⟩
    · rw [e1]; simpa using hl
    · rw [e2]
      have : (s.items ++ [({ k := k, pk := pk, v := v } : Entry)]).length = (f :: rest).length := by rw [e1]
      have := hI.len
      simp only [List.length_append, List.length_cons, List.length_nil] at *
      omega
  · exact hk'.sublist hsub
  · intro x
    have ha := hI.acct x
    have hux := hu x
    rw [hit, hlog]
    rcases pubItems_spec (cap := cap) hI.keys hfresh with ⟨e1, _⟩ | ⟨f, rest, e1, e2⟩
    · rw [e1]
      simp only [List.append_nil, List.map_append, List.map_cons, List.map_nil, List.count_append,
        List.count_cons, List.count_nil, pv]
      omega
    · rw [e2]
      have hm : (s.items.map pv).count x + (if (pk, v) == x then 1 else 0) =
          (if (f.pk, f.v) == x then 1 else 0) + (rest.map pv).count x := by
        have := congrArg (fun l => (l.map pv).count x) e1
        simp only [List.map_append, List.map_cons, List.map_nil, List.count_append, List.count_cons,
          List.count_nil, pv] at this
        omega
      simp only [createdOk_append, deleted_append, createdOk, deleted, List.append_nil,
        List.count_append, List.count_cons, List.count_nil]
      omega

theorem inv_step {cap : Nat} {km : Nat → Nat} {s t : St} (hI : Inv cap km s) (st : Step cap km s t) :
    Inv cap km t := by
  cases st with
  | call i op h => exact inv_call hI i op h
  | ret i r h => exact inv_ret hI i r h
  | gocHit i pk e h hf => exact inv_gocHit hI i pk e h hf
  | gocWait i pk h hf hi => exact inv_gocWait hI i pk h
  | gocRegister i pk h hf hi => exact inv_gocRegister hI i pk h hf hi
  | wake i pk k h hc => exact inv_wake hI i pk k h
  | createBegin i pk k h => exact inv_createBegin hI i pk k h
  | createEnd i pk k res h => exact inv_createEnd hI i pk k res h
  | gocPublish i pk k res h =>
    cases res with
    | none => exact inv_publish_none hI i pk k h
    | some v =>
      have := inv_publish_some hI i pk k v h
      rw [← publish_some_eq] at this
      exact this
  | remove i pk h => exact inv_remove hI i pk h
  | clear i h => exact inv_clear hI i h

theorem inv_reach {cap : Nat} {km : Nat → Nat} {n : Nat} {s : St} (h : Reach cap km n s) :
    Inv cap km s := by
  induction h with
  | init => exact inv_init cap km n
  | step _ st ih => exact inv_step ih st

end Lru.Conc
