import GolibsVerif.Model.LruConcExec
/-
Soundness lemmas for the executable primitives of `Lru.Conc.Exec`: each result is a `Lru.Conc.Step`.
-/
namespace Lru.Conc.Exec
open Lru Lru.Conc

theorem xCall_step (cap : Nat) (km : Nat → Nat) {s t : St} {i : Nat} {op : COp}
    (h : xCall s i op = some t) : Step cap km s t := by
  unfold xCall at h
  split at h
  · next hp => cases h; exact Step.call s i op hp
  · cases h

theorem xRet_step (cap : Nat) (km : Nat → Nat) {s t : St} {i : Nat}
    (h : xRet s i = some t) : Step cap km s t := by
  unfold xRet at h
  split at h
  · next r hp => cases h; exact Step.ret s i r hp
  · cases h

theorem xGocSec1_step (cap : Nat) (km : Nat → Nat) {s t : St} {i : Nat}
    (h : xGocSec1 km s i = some t) : Step cap km s t := by
  unfold xGocSec1 at h
  split at h
  · next pk hp =>
    split at h
    · next e hf => cases h; exact Step.gocHit s i pk e hp hf
    · next hf =>
      split at h
      · next hi => cases h; exact Step.gocWait s i pk hp hf hi
      · next hi => cases h; exact Step.gocRegister s i pk hp hf hi
  · cases h

theorem xWake_step (cap : Nat) (km : Nat → Nat) {s t : St} {i : Nat}
    (h : xWake s i = some t) : Step cap km s t := by
  unfold xWake at h
  split at h
  · next pk k hp =>
    split at h
    · next hc => cases h; exact Step.wake s i pk k hp hc
    · cases h
  · cases h

theorem xCreateBegin_step (cap : Nat) (km : Nat → Nat) {s t : St} {i : Nat}
    (h : xCreateBegin s i = some t) : Step cap km s t := by
  unfold xCreateBegin at h
  split at h
  · next pk k hp => cases h; exact Step.createBegin s i pk k hp
  · cases h

theorem xCreateEnd_step (cap : Nat) (km : Nat → Nat) {s t : St} {i : Nat} {res : Option Nat}
    (h : xCreateEnd s i res = some t) : Step cap km s t := by
  unfold xCreateEnd at h
  split at h
  · next pk k hp => cases h; exact Step.createEnd s i pk k res hp
  · cases h

theorem xPublish_step (cap : Nat) (km : Nat → Nat) {s t : St} {i : Nat}
    (h : xPublish cap s i = some t) : Step cap km s t := by
  unfold xPublish at h
  split at h
  · next pk k res hp =>
    have := Step.gocPublish (cap := cap) (km := km) s i pk k res hp
    cases h
    cases res with
    | none => exact this
    | some v => exact this
  · cases h

theorem xRemove_step (cap : Nat) (km : Nat → Nat) {s t : St} {i : Nat}
    (h : xRemove km s i = some t) : Step cap km s t := by
  unfold xRemove at h
  split at h
  · next pk hp =>
    have := Step.remove (cap := cap) (km := km) s i pk hp
    cases h; exact this
  · cases h

theorem xClear_step (cap : Nat) (km : Nat → Nat) {s t : St} {i : Nat}
    (h : xClear s i = some t) : Step cap km s t := by
  unfold xClear at h
  split at h
  · next hp => cases h; exact Step.clear s i hp
  · cases h

theorem Steps.single {cap : Nat} {km : Nat → Nat} {s t : St} (h : Step cap km s t) :
    Steps cap km s t := Steps.cons h (Steps.refl t)

theorem Steps.trans {cap : Nat} {km : Nat → Nat} {s t u : St}
    (h1 : Steps cap km s t) (h2 : Steps cap km t u) : Steps cap km s u := by
  induction h1 with
  | refl => exact h2
  | cons hs _ ih => exact Steps.cons hs (ih h2)

theorem xWake_getD_steps (cap : Nat) (km : Nat → Nat) (s : St) (i : Nat) :
    Steps cap km s ((xWake s i).getD s) := by
  cases hw : xWake s i with
  | none => exact Steps.refl s
  | some t => exact Steps.single (xWake_step cap km hw)

theorem wakeAll_steps (cap : Nat) (km : Nat → Nat) (k : Nat) (is : List Nat) (s : St) :
    Steps cap km s (wakeAll k is s) := by
  induction is generalizing s with
  | nil => exact Steps.refl s
  | cons i is ih =>
    unfold wakeAll
    split
    · split
      · exact Steps.trans (xWake_getD_steps cap km s i) (ih _)
      · exact ih s
    · exact ih s

theorem Steps.reach {cap : Nat} {km : Nat → Nat} {n : Nat} {s t : St}
    (hs : Steps cap km s t) (hr : Reach cap km n s) : Reach cap km n t := by
  induction hs with
  | refl => exact hr
  | cons hst _ ih => exact ih (Reach.step hr hst)

end Lru.Conc.Exec
