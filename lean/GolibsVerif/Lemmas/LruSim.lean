import GolibsVerif.Lemmas.LruBasic
/-
Refinement relation between the recency-list cache `EC` and the reference LRU `Ref`, and the
proof that every operation preserves it while producing equal outputs.
-/
namespace Lru

def REntry.toEntry (x : REntry) : Entry := { k := x.k, pk := x.pk, v := x.v }

/-- `l` is the residents of `r` sorted strictly by stamp, and projects onto the recency list -/
structure R (c : Cfg) (s : EC) (r : Ref) (l : List REntry) : Prop where
  calls : s.calls = r.calls
  perm : l.Perm r.res
  sorted : l.Pairwise (fun a b => a.lastUse < b.lastUse)
  items : s.items = l.map REntry.toEntry
  keys : l.Pairwise (fun a b => a.k ≠ b.k)
  clock : ∀ x ∈ l, x.lastUse < r.clock
  len : l.length ≤ c.cap

def Rel (c : Cfg) (s : EC) (r : Ref) : Prop := ∃ l, R c s r l

theorem Rel_new (c : Cfg) : Rel c EC.new Ref.new :=
  ⟨[], by constructor <;> simp [EC.new, Ref.new]⟩

theorem findK_map (l : List REntry) (k : Nat) :
    findK (l.map REntry.toEntry) k = (l.find? (fun x => x.k == k)).map REntry.toEntry := by
  unfold findK; rw [List.find?_map]; rfl

theorem eraseK_map (l : List REntry) (k : Nat) :
    eraseK (l.map REntry.toEntry) k = (l.filter (fun x => x.k != k)).map REntry.toEntry := by
  unfold eraseK; rw [List.filter_map]; rfl

theorem R.find_res {c s r l} (h : R c s r l) (k : Nat) :
    r.res.find? (fun x => x.k == k) = l.find? (fun x => x.k == k) :=
  find_perm (f := REntry.k) h.keys h.perm k

theorem R.findK_items {c s r l} (h : R c s r l) (k : Nat) :
    findK s.items k = (l.find? (fun x => x.k == k)).map REntry.toEntry := by
  rw [h.items, findK_map]

theorem map_eq_self_of {α : Type} {f : α → α} {l : List α} (h : ∀ x ∈ l, f x = x) : l.map f = l := by
  induction l with
  | nil => rfl
  | cons x xs ih =>
    simp only [List.map_cons, h x List.mem_cons_self]
    rw [ih (fun y hy => h y (List.mem_cons_of_mem _ hy))]

/-! ### GetOrCreate -/

theorem hit_R {c : Cfg} {s : EC} {r : Ref} {a b : List REntry} {e : REntry} {k : Nat}
    (h : R c s r (a ++ e :: b)) (hk : e.k = k) (ha : ∀ x ∈ a, x.k ≠ k) (hb : ∀ x ∈ b, x.k ≠ k) :
    R c { s with items := eraseK s.items k ++ [e.toEntry] }
      { r with res := r.res.map (fun x => if x.k == k then { x with lastUse := r.clock } else x),
               clock := r.clock + 1 }
      (a ++ b ++ [{ e with lastUse := r.clock }]) := by
  have hs := List.pairwise_append.1 h.sorted
  have hs2 := List.pairwise_cons.1 hs.2.1
  have hkk := List.pairwise_append.1 h.keys
  have hkk2 := List.pairwise_cons.1 hkk.2.1
  have hmapa : a.map (fun x => if x.k == k then { x with lastUse := r.clock } else x) = a := by
    apply map_eq_self_of; intro x hx; simp [ha x hx]
  have hmapb : b.map (fun x => if x.k == k then { x with lastUse := r.clock } else x) = b := by
    apply map_eq_self_of; intro x hx; simp [hb x hx]
  constructor
  · exact h.calls
  · refine List.Perm.trans ?_ (h.perm.map _)
    simp only [List.map_append, List.map_cons, hmapa, hmapb, hk, beq_self_eq_true, if_true]
    simp only [List.append_assoc]
    exact List.Perm.append_left a (List.perm_append_singleton _ _)
  · refine List.pairwise_append.2 ⟨List.pairwise_append.2 ⟨hs.1, hs2.2, ?_⟩, by simp, ?_⟩
    · intro x hx y hy
      have := hs.2.2 x hx y (List.mem_cons_of_mem _ hy); exact this
    · intro x hx y hy
      simp only [List.mem_singleton] at hy; subst hy
      simp only
      apply h.clock
      rcases List.mem_append.1 hx with hx | hx
      · exact List.mem_append_left _ hx
      · exact List.mem_append_right _ (List.mem_cons_of_mem _ hx)
  · simp only [h.items, eraseK_map, filter_ne_split (f := REntry.k) hk ha hb]
    simp [REntry.toEntry]
  · refine List.pairwise_append.2 ⟨List.pairwise_append.2 ⟨hkk.1, hkk2.2, ?_⟩, by simp, ?_⟩
    · intro x hx y hy
      exact hkk.2.2 x hx y (List.mem_cons_of_mem _ hy)
    · intro x hx y hy
      simp only [List.mem_singleton] at hy; subst hy
      simp only
      rcases List.mem_append.1 hx with hx | hx
      · have := ha x hx; omega
      · have := hb x hx; omega
  · intro x hx
    simp only [List.mem_append, List.mem_singleton] at hx
    simp only
    rcases hx with (hx | hx) | hx
    · have := h.clock x (List.mem_append_left _ hx); omega
    · have := h.clock x (List.mem_append_right _ (List.mem_cons_of_mem _ hx)); omega
    · subst hx; simp
  · have := h.len; simp only [List.length_append, List.length_cons, List.length_nil] at this ⊢; omega

theorem miss_fail_R {c : Cfg} {s : EC} {r : Ref} {l : List REntry} (h : R c s r l) :
    R c { s with calls := s.calls + 1 } { r with calls := r.calls + 1 } l :=
  { h with calls := by simp [h.calls] }

theorem miss_ok_R {c : Cfg} {s : EC} {r : Ref} {l : List REntry} {k pk v : Nat}
    (h : R c s r l) (hk : ∀ x ∈ l, x.k ≠ k) (hlen : l.length + 1 ≤ c.cap) :
    R c { items := s.items ++ [{ k := k, pk := pk, v := v }], calls := s.calls + 1 }
      { res := { k := k, pk := pk, v := v, lastUse := r.clock } :: r.res, clock := r.clock + 1,
        calls := r.calls + 1 }
      (l ++ [{ k := k, pk := pk, v := v, lastUse := r.clock }]) := by
  constructor
  · simp [h.calls]
  · exact (List.perm_append_singleton _ _).trans (h.perm.cons _)
  · refine List.pairwise_append.2 ⟨h.sorted, by simp, ?_⟩
    intro x hx y hy
    simp only [List.mem_singleton] at hy; subst hy
    exact h.clock x hx
  · simp [h.items, REntry.toEntry]
  · refine List.pairwise_append.2 ⟨h.keys, by simp, ?_⟩
    intro x hx y hy
    simp only [List.mem_singleton] at hy; subst hy
    exact hk x hx
  · intro x hx
    simp only [List.mem_append, List.mem_singleton] at hx
    simp only
    rcases hx with hx | hx
    · have := h.clock x hx; omega
    · subst hx; simp
  · simpa using hlen

theorem miss_evict_R {c : Cfg} {s : EC} {r : Ref} {f : REntry} {l : List REntry} {k pk v : Nat}
    (h : R c s r (f :: l)) (hk : ∀ x ∈ f :: l, x.k ≠ k) :
    R c { items := l.map REntry.toEntry ++ [{ k := k, pk := pk, v := v }], calls := s.calls + 1 }
      { res := ({ k := k, pk := pk, v := v, lastUse := r.clock } :: r.res).filter (fun x => x.k != f.k),
        clock := r.clock + 1, calls := r.calls + 1 }
      (l ++ [{ k := k, pk := pk, v := v, lastUse := r.clock }]) := by
  have hs := List.pairwise_cons.1 h.sorted
  have hkk := List.pairwise_cons.1 h.keys
  have hfk : f.k ≠ k := hk f List.mem_cons_self
  constructor
  · simp [h.calls]
  · have hp : (l ++ [({ k := k, pk := pk, v := v, lastUse := r.clock } : REntry)]).Perm
        ((({ k := k, pk := pk, v := v, lastUse := r.clock } : REntry) :: (f :: l)).filter (fun x => x.k != f.k)) := by
      have hl : l.filter (fun x => x.k != f.k) = l :=
        filter_ne_self (f := REntry.k) (fun x hx => (hkk.1 x hx).symm)
      simp only [List.filter_cons, hl]
      simp [Ne.symm hfk]
    exact hp.trans ((h.perm.cons _).filter _)
  · refine List.pairwise_append.2 ⟨hs.2, by simp, ?_⟩
    intro x hx y hy
    simp only [List.mem_singleton] at hy; subst hy
    exact h.clock x (List.mem_cons_of_mem _ hx)
  · simp [REntry.toEntry]
  · refine List.pairwise_append.2 ⟨hkk.2, by simp, ?_⟩
    intro x hx y hy
    simp only [List.mem_singleton] at hy; subst hy
    exact hk x (List.mem_cons_of_mem _ hx)
  · intro x hx
    simp only [List.mem_append, List.mem_singleton] at hx
    simp only
    rcases hx with hx | hx
    · have := h.clock x (List.mem_cons_of_mem _ hx); omega
    · subst hx; simp
  · have := h.len; simp only [List.length_append, List.length_cons, List.length_nil] at this ⊢; omega

/-- the reference evicts the head of the strictly sorted resident list -/
theorem R.lru_head {c s r f l} (h : R c s r (f :: l)) (new : REntry) (hn : new.lastUse = r.clock) :
    lruOf (new :: r.res) = some f := by
  have hs := List.pairwise_cons.1 h.sorted
  apply lruOf_eq_of_strict_min
  · exact List.mem_cons_of_mem _ (h.perm.mem_iff.1 List.mem_cons_self)
  · intro x hx
    rcases List.mem_cons.1 hx with rfl | hx
    · right; rw [hn]; exact h.clock f List.mem_cons_self
    · rcases List.mem_cons.1 (h.perm.mem_iff.2 hx) with rfl | hx
      · left; rfl
      · right; exact hs.1 x hx

theorem getOrCreate_sim {c : Cfg} (hc : 1 ≤ c.cap) {s : EC} {r : Ref} (h : Rel c s r) (pk : Nat) :
    Rel c (s.getOrCreate c pk).1 (r.getOrCreate c pk).1 ∧
      (s.getOrCreate c pk).2 = (r.getOrCreate c pk).2 := by
  obtain ⟨l, h⟩ := h
  unfold EC.getOrCreate Ref.getOrCreate
  simp only [h.findK_items, h.find_res]
  cases hf : l.find? (fun x => x.k == c.km pk) with
  | some e =>
    obtain ⟨hk, a, b, rfl, ha, hb⟩ := find_split (f := REntry.k) h.keys hf
    simp only [Option.map_some]
    exact ⟨⟨_, hit_R h hk ha hb⟩, rfl⟩
  | none =>
    have hk : ∀ x ∈ l, x.k ≠ c.km pk := by
      intro x hx; simpa using (List.find?_eq_none.1 hf) x hx
    have hcr' : c.cr pk r.calls = c.cr pk s.calls := by rw [h.calls]
    simp only [Option.map_none, hcr']
    cases hcr : c.cr pk s.calls with
    | none => exact ⟨⟨_, miss_fail_R h⟩, rfl⟩
    | some v =>
      simp only
      have hlen : (s.items ++ [({ k := c.km pk, pk := pk, v := v } : Entry)]).length = l.length + 1 := by
        simp [h.items]
      have hlen' : (({ k := c.km pk, pk := pk, v := v, lastUse := r.clock } : REntry) :: r.res).length
          = l.length + 1 := by simp [h.perm.length_eq]
      rw [hlen, hlen']
      by_cases hfull : c.cap < l.length + 1
      · rw [if_pos hfull, if_pos hfull]
        cases l with
        | nil => simp at hfull; omega
        | cons f l =>
          have hlru := h.lru_head { k := c.km pk, pk := pk, v := v, lastUse := r.clock } rfl
          have hkk := List.pairwise_cons.1 h.keys
          have hfk : f.k ≠ c.km pk := hk f List.mem_cons_self
          have hl : l.filter (fun x => x.k != f.k) = l :=
            filter_ne_self (f := REntry.k) (fun x hx => (hkk.1 x hx).symm)
          have hitems : s.items ++ [{ k := c.km pk, pk := pk, v := v }]
              = f.toEntry :: (l.map REntry.toEntry ++ [{ k := c.km pk, pk := pk, v := v }]) := by
            simp [h.items]
          have herase : eraseK (f.toEntry :: (l.map REntry.toEntry ++ [{ k := c.km pk, pk := pk, v := v }]))
              f.toEntry.k = l.map REntry.toEntry ++ [{ k := c.km pk, pk := pk, v := v }] := by
            have : f.toEntry.k = f.k := rfl
            rw [this]
            unfold eraseK
            rw [List.filter_cons, List.filter_append, ← eraseK, eraseK_map, hl]
            simp [REntry.toEntry, Ne.symm hfk]
          rw [hlru, hitems]
          simp only [herase]
          exact ⟨⟨_, miss_evict_R h hk⟩, rfl⟩
      · rw [if_neg hfull, if_neg hfull]
        exact ⟨⟨_, miss_ok_R h hk (by omega)⟩, rfl⟩

/-! ### Remove, Clear -/

theorem remove_sim {c : Cfg} {s : EC} {r : Ref} (h : Rel c s r) (pk : Nat) :
    Rel c (s.remove c pk).1 (r.remove c pk).1 ∧ (s.remove c pk).2 = (r.remove c pk).2 := by
  obtain ⟨l, h⟩ := h
  unfold EC.remove Ref.remove
  simp only [h.findK_items, h.find_res]
  cases hf : l.find? (fun x => x.k == c.km pk) with
  | none => exact ⟨⟨l, h⟩, rfl⟩
  | some e =>
    simp only [Option.map_some]
    refine ⟨⟨l.filter (fun x => x.k != c.km pk), ?_⟩, rfl⟩
    have hsub : (l.filter (fun x => x.k != c.km pk)).Sublist l := List.filter_sublist
    constructor
    · exact h.calls
    · exact h.perm.filter _
    · exact h.sorted.sublist hsub
    · simp only [h.items, eraseK_map]
    · exact h.keys.sublist hsub
    · intro x hx; exact h.clock x (hsub.subset hx)
    · exact Nat.le_trans hsub.length_le h.len

theorem clear_sim {c : Cfg} {s : EC} {r : Ref} (h : Rel c s r) :
    Rel c s.clear.1 r.clear.1 ∧ s.clear.2 = r.clear.2 := by
  obtain ⟨l, h⟩ := h
  unfold EC.clear Ref.clear
  refine ⟨⟨[], ?_⟩, ?_⟩
  · constructor <;> simp [h.calls]
  · simp only [sortByUse_eq h.perm h.sorted, h.items, ← h.perm.length_eq]
    simp [REntry.toEntry]

/-! ### ExpirableCache.GetOrCreate, steps, runs -/

theorem getOrCreateExp_sim {c : Cfg} (hc : 1 ≤ c.cap) {s : EC} {r : Ref} (h : Rel c s r)
    (now pk : Nat) :
    Rel c (s.getOrCreateExp c now pk).1 (r.getOrCreateExp c now pk).1 ∧
      (s.getOrCreateExp c now pk).2 = (r.getOrCreateExp c now pk).2 := by
  have h1 := getOrCreate_sim hc h pk
  unfold EC.getOrCreateExp Ref.getOrCreateExp
  rcases hs1 : s.getOrCreate c pk with ⟨s1, res1, ev1⟩
  rcases hr1 : r.getOrCreate c pk with ⟨r1, res1', ev1'⟩
  rw [hs1, hr1] at h1
  obtain ⟨hR1, heq⟩ := h1
  simp only [Prod.mk.injEq] at heq
  obtain ⟨rfl, rfl⟩ := heq
  cases res1 with
  | val v =>
    simp only
    by_cases hexp : c.expOf v < now
    · simp only [if_pos hexp]
      have h2 := remove_sim hR1 pk
      rcases hs2 : s1.remove c pk with ⟨s2, res2, ev2⟩
      rcases hr2 : r1.remove c pk with ⟨r2, res2', ev2'⟩
      rw [hs2, hr2] at h2
      obtain ⟨hR2, heq2⟩ := h2
      simp only [Prod.mk.injEq] at heq2
      obtain ⟨rfl, rfl⟩ := heq2
      have h3 := getOrCreate_sim hc hR2 pk
      rcases hs3 : s2.getOrCreate c pk with ⟨s3, res3, ev3⟩
      rcases hr3 : r2.getOrCreate c pk with ⟨r3, res3', ev3'⟩
      rw [hs3, hr3] at h3
      obtain ⟨hR3, heq3⟩ := h3
      simp only [Prod.mk.injEq] at heq3
      obtain ⟨rfl, rfl⟩ := heq3
      exact ⟨hR3, rfl⟩
    · simp only [if_neg hexp]
      exact ⟨hR1, trivial⟩
  | err => exact ⟨hR1, rfl⟩
  | b x => exact ⟨hR1, rfl⟩
  | num n => exact ⟨hR1, rfl⟩

theorem step_sim {c : Cfg} (hc : 1 ≤ c.cap) {s : EC} {r : Ref} (h : Rel c s r) (op : Op) :
    Rel c (s.step c op).1 (r.step c op).1 ∧ (s.step c op).2 = (r.step c op).2 := by
  cases op with
  | getOrCreate pk => exact getOrCreate_sim hc h pk
  | remove pk => exact remove_sim h pk
  | clear => exact clear_sim h
  | getOrCreateExp now pk => exact getOrCreateExp_sim hc h now pk

theorem run_sim {c : Cfg} (hc : 1 ≤ c.cap) (ops : List Op) : ∀ {s : EC} {r : Ref}, Rel c s r →
    Rel c (runI c s ops).1 (runS c r ops).1 ∧ (runI c s ops).2 = (runS c r ops).2 := by
  induction ops with
  | nil => intro s r h; exact ⟨h, rfl⟩
  | cons op ops ih =>
    intro s r h
    obtain ⟨hR, heq⟩ := step_sim hc h op
    have := ih hR
    have h1 : (s.step c op).2.1 = (r.step c op).2.1 := by rw [heq]
    have h2 : (s.step c op).2.2 = (r.step c op).2.2 := by rw [heq]
    simp only [runI, runS]
    rw [h1, h2, this.2]
    exact ⟨this.1, rfl⟩

/-- what the relation says about the cache alone -/
theorem Rel.inv {c s r} (h : Rel c s r) : s.items.length ≤ c.cap ∧ (s.items.map (·.k)).Nodup := by
  obtain ⟨l, h⟩ := h
  refine ⟨by simpa [h.items] using h.len, ?_⟩
  rw [h.items, List.map_map, List.Nodup, List.pairwise_map]
  exact h.keys

end Lru
