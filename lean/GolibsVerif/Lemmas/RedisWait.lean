import GolibsVerif.Model.RedisWait
import GolibsVerif.Lemmas.KvVer
/-
Lemmas about `RedisWait` (polling WaitForVersionChange of the Redis backend): frame facts of `step`,
the version invariant, and the stable form of "one of the return conditions holds" (`Spec.Gone`).
-/
namespace Kv

/-- version `ver` can never (again) be SEEN at key `k` from time `now` on: it was handed out already
(or is 0), and if the stored record of `k` still carries it, that record is expired -/
def Spec.Gone (s : Spec) (now : Nat) (k : String) (ver : Nat) : Prop :=
  ver < s.nextVer ∧ ∀ r, s.store.get k = some r → r.ver = ver → expired r now = true

theorem Spec.Gone.mono {s : Spec} {now now' : Nat} {k : String} {ver : Nat} (h : s.Gone now k ver)
    (hle : now ≤ now') : s.Gone now' k ver :=
  ⟨h.1, fun r hr hv => expired_mono (h.2 r hr hv) hle⟩

theorem Spec.Gone.write {s : Spec} {now : Nat} {k : String} {ver : Nat} (h : s.Gone now k ver)
    (k' v : String) (e : Option Nat) : (s.write k' v e).1.Gone now k ver := by
  refine ⟨Nat.lt_succ_of_lt h.1, ?_⟩
  intro r hr hv
  simp only [Spec.write] at hr
  by_cases hk : k' = k
  · subst hk
    rw [Store.get_put_self] at hr
    cases hr
    exact absurd hv (Nat.ne_of_gt h.1)
  · rw [Store.get_put_ne _ _ hk] at hr
    exact h.2 r hr hv

theorem Spec.Gone.putMany {now : Nat} {k : String} {ver : Nat} (rs : List (String × String × Option Nat)) :
    ∀ {s : Spec}, s.Gone now k ver →
    (rs.foldl (fun st (x : String × String × Option Nat) => (st.write x.1 x.2.1 x.2.2).1) s).Gone now k ver := by
  induction rs with
  | nil => intro s h; exact h
  | cons a rs ih => intro s h; exact ih (h.write _ _ _)

theorem Spec.Gone.step {s : Spec} {now : Nat} {k : String} {ver : Nat} (h : s.Gone now k ver) (op : Op) :
    (s.step now op).1.Gone now k ver := by
  cases op with
  | create k' v e =>
    simp only [Spec.step]
    cases s.live now k' with
    | some r => exact h
    | none => exact h.write k' v e
  | get k' => simp only [Spec.step]; cases s.live now k' <;> exact h
  | getMany ks => exact h
  | put k' v e => exact h.write k' v e
  | putMany rs => rw [Spec.step_putMany]; exact Spec.Gone.putMany rs h
  | cas k' ver' v e =>
    simp only [Spec.step]
    cases s.live now k' with
    | none => exact h
    | some r =>
      by_cases hv : r.ver = ver'
      · simp only [hv, ne_eq, not_true_eq_false, if_false]; exact h.write k' v e
      · simp only [ne_eq, hv, not_false_eq_true, if_true]; exact h
  | delete k' =>
    simp only [Spec.step]
    cases s.live now k' with
    | none => exact h
    | some r =>
      refine ⟨h.1, fun r' hr' hv' => ?_⟩
      simp only at hr'
      by_cases hk : k' = k
      · subst hk; rw [Store.get_erase_self] at hr'; cases hr'
      · rw [Store.get_erase_ne _ hk] at hr'; exact h.2 r' hr' hv'
  | list pat => exact h
  | wait k' ver' =>
    simp only [Spec.step]
    cases s.live now k' with
    | none => exact h
    | some r => by_cases hv : r.ver = ver' <;> simp only [hv, ne_eq, not_true_eq_false, not_false_eq_true, if_false, if_true] <;> exact h

end Kv

namespace RedisWait
open Kv

/-- waiter i is inside a call for `(k, ver)` whose result is not fixed yet -/
def Waits (s : St) (i : Nat) (k : String) (ver : Nat) : Prop :=
  s.w[i]? = some (WPc.polling k ver) ∨ s.w[i]? = some (WPc.sleeping k ver)

/-- one of the return conditions of `WaitForVersionChange(k, ver)` holds: the key is absent, or
carries another version -/
def Changed (s : St) (k : String) (ver : Nat) : Prop :=
  match s.srv.live s.now k with
  | none => True
  | some r => r.ver ≠ ver

/-- every stored version, and every version a pending waiter holds, was handed out already -/
def VerInv (s : St) : Prop :=
  (∀ kr ∈ s.srv.store, kr.2.ver < s.srv.nextVer) ∧
  ∀ (i : Nat) (k : String) (ver : Nat), (s.w[i]? = some (WPc.polling k ver) ∨ s.w[i]? = some (WPc.sleeping k ver)) → ver < s.srv.nextVer

/-- events of waiter i that move its program counter or end its context: its return, its GET, its
wake-up by the context, the cancellation of its context -/
def Ev.touches (i : Nat) : Ev → Bool
  | .ret j _ => j == i
  | .poll j => j == i
  | .wakeCtx j => j == i
  | .cancel j => j == i
  | _ => false

/-! ### lists -/

theorem get_set_self {α : Type} {l : List α} {i : Nat} {a b : α} (h : l[i]? = some b) :
    (l.set i a)[i]? = some a := by
  have hi : i < l.length := by
    rcases Nat.lt_or_ge i l.length with h' | h'
    · exact h'
    · rw [List.getElem?_eq_none h'] at h; cases h
  exact List.getElem?_set_self hi

theorem get_set_ne {α : Type} (l : List α) {i j : Nat} (h : i ≠ j) (a : α) : (l.set i a)[j]? = l[j]? :=
  List.getElem?_set_ne h

/-! ### run -/

@[simp] theorem run_nil (s : St) : run s [] = some s := rfl

theorem run_cons (s : St) (e : Ev) (es : List Ev) : run s (e :: es) = (step s e).bind fun s' => run s' es := rfl

theorem run_append (s : St) (es es' : List Ev) : run s (es ++ es') = (run s es).bind fun s' => run s' es' := by
  induction es generalizing s with
  | nil => simp
  | cons e es ih =>
    simp only [List.cons_append, run_cons]
    cases step s e with
    | none => rfl
    | some s1 => simpa using ih s1

/-- an invariant of `step` holds along every run -/
theorem run_induct {P : St → Prop} (hstep : ∀ s e s', P s → step s e = some s' → P s') :
    ∀ (es : List Ev) (s s' : St), P s → run s es = some s' → P s' := by
  intro es
  induction es with
  | nil => intro s s' hp h; simp at h; subst h; exact hp
  | cons e es ih =>
    intro s s' hp h
    rw [run_cons] at h
    cases hs : step s e with
    | none => simp [hs] at h
    | some s1 => simp [hs] at h; exact ih s1 s' (hstep s e s1 hp hs) h

/-! ### frame facts -/

/-- the verdict of a GET is `done …` or (back to) `sleeping` on the same `(k, ver)` — never `polling`, `idle` -/
theorem verdict_cases (s : St) (i : Nat) (k : String) (ver : Nat) :
    (verdict s i k ver = .done .ctxErr ∧ s.ctxDone[i]? = some true) ∨
    (s.ctxDone[i]? ≠ some true ∧
      ((verdict s i k ver = .done .errNotExist ∧ s.srv.live s.now k = none) ∨
       (∃ r, verdict s i k ver = .done .waitNil ∧ s.srv.live s.now k = some r ∧ r.ver ≠ ver) ∨
       (∃ r, verdict s i k ver = .sleeping k ver ∧ s.srv.live s.now k = some r ∧ r.ver = ver))) := by
  unfold verdict
  by_cases hc : s.ctxDone[i]? = some true
  · left; simp [hc]
  · right
    refine ⟨hc, ?_⟩
    simp only [hc, if_false]
    cases hl : s.srv.live s.now k with
    | none => left; simp
    | some r =>
      right
      by_cases hv : r.ver = ver
      · right; exact ⟨r, by simp [hv], rfl, hv⟩
      · left; exact ⟨r, by simp [hv], rfl, hv⟩

/-- what a `poll` does -/
theorem step_poll {s s' : St} {i : Nat} (h : step s (.poll i) = some s') :
    ∃ k ver, Waits s i k ver ∧ s' = { s with w := s.w.set i (verdict s i k ver) } := by
  simp only [step] at h
  split at h
  · next k ver hw => cases h; exact ⟨k, ver, Or.inl hw, rfl⟩
  · next k ver hw => cases h; exact ⟨k, ver, Or.inr hw, rfl⟩
  · cases h

theorem step_poll_of_waits {s : St} {i : Nat} {k : String} {ver : Nat} (hw : Waits s i k ver) :
    step s (.poll i) = some { s with w := s.w.set i (verdict s i k ver) } := by
  rcases hw with hw | hw <;> simp [step, hw]

/-- what a `wakeCtx` does -/
theorem step_wake {s s' : St} {i : Nat} (h : step s (.wakeCtx i) = some s') :
    ∃ k ver, s.w[i]? = some (.sleeping k ver) ∧ s.ctxDone[i]? = some true ∧
      s' = { s with w := s.w.set i (.done .ctxErr) } := by
  simp only [step] at h
  split at h
  · next k ver hw =>
    split at h
    · next hc => cases h; exact ⟨k, ver, hw, hc, rfl⟩
    · cases h
  · cases h

/-- events of a waiter leave the server and the clock alone -/
theorem step_waiter_srv {s s' : St} {e : Ev} {i : Nat} (he : e.waiter = some i) (h : step s e = some s') :
    s'.srv = s.srv ∧ s'.now = s.now := by
  cases e with
  | env op => cases he
  | tick d => cases he
  | start j k ver =>
    simp only [step] at h
    split at h
    · split at h
      · cases h; exact ⟨rfl, rfl⟩
      · cases h
    · cases h
  | poll j => obtain ⟨k, ver, _, rfl⟩ := step_poll h; exact ⟨rfl, rfl⟩
  | wakeCtx j => obtain ⟨k, ver, _, _, rfl⟩ := step_wake h; exact ⟨rfl, rfl⟩
  | cancel j =>
    simp only [step] at h
    split at h
    · cases h; exact ⟨rfl, rfl⟩
    · cases h
  | ret j r =>
    simp only [step] at h
    split at h
    · split at h
      · cases h; exact ⟨rfl, rfl⟩
      · cases h
    · cases h

/-- events of waiter i leave every other waiter alone -/
theorem step_waiter_others {s s' : St} {e : Ev} {i j : Nat} (he : e.waiter = some i) (hij : j ≠ i)
    (h : step s e = some s') : s'.w[j]? = s.w[j]? ∧ s'.ctxDone[j]? = s.ctxDone[j]? := by
  have hij' : i ≠ j := fun h => hij h.symm
  cases e with
  | env op => cases he
  | tick d => cases he
  | start j' k ver =>
    cases he
    simp only [step] at h
    split at h
    · split at h
      · cases h; exact ⟨get_set_ne _ hij' _, get_set_ne _ hij' _⟩
      · cases h
    · cases h
  | poll j' =>
    cases he
    obtain ⟨k, ver, _, rfl⟩ := step_poll h
    exact ⟨get_set_ne _ hij' _, rfl⟩
  | wakeCtx j' =>
    cases he
    obtain ⟨k, ver, _, _, rfl⟩ := step_wake h
    exact ⟨get_set_ne _ hij' _, rfl⟩
  | cancel j' =>
    cases he
    simp only [step] at h
    split at h
    · cases h; exact ⟨rfl, get_set_ne _ hij' _⟩
    · cases h
  | ret j' r =>
    cases he
    simp only [step] at h
    split at h
    · split at h
      · cases h; exact ⟨get_set_ne _ hij' _, rfl⟩
      · cases h
    · cases h

/-- events of the environment leave every waiter alone -/
theorem step_env_waiters {s s' : St} {e : Ev} (he : e.waiter = none) (h : step s e = some s') :
    s'.w = s.w ∧ s'.ctxDone = s.ctxDone := by
  cases e with
  | env op =>
    simp only [step] at h
    split at h
    · cases h; exact ⟨rfl, rfl⟩
    · cases h
  | tick d => simp only [step] at h; cases h; exact ⟨rfl, rfl⟩
  | start j k ver => cases he
  | poll j => cases he
  | wakeCtx j => cases he
  | cancel j => cases he
  | ret j r => cases he

/-- server and clock after any step: only `env` changes the server (by one `Spec.step`), only `tick`
moves the clock (forward) -/
theorem step_srv_cases {s s' : St} {e : Ev} (h : step s e = some s') :
    (s'.srv = s.srv ∧ s.now ≤ s'.now) ∨ (∃ op, s'.srv = (s.srv.step s.now op).1 ∧ s'.now = s.now) := by
  cases e with
  | env op =>
    simp only [step] at h
    split at h
    · cases h; exact Or.inr ⟨op, rfl, rfl⟩
    · cases h
  | tick d => simp only [step] at h; cases h; exact Or.inl ⟨rfl, Nat.le_add_right _ _⟩
  | start j k ver => have := step_waiter_srv (i := j) rfl h; exact Or.inl ⟨this.1, Nat.le_of_eq this.2.symm⟩
  | poll j => have := step_waiter_srv (i := j) rfl h; exact Or.inl ⟨this.1, Nat.le_of_eq this.2.symm⟩
  | wakeCtx j => have := step_waiter_srv (i := j) rfl h; exact Or.inl ⟨this.1, Nat.le_of_eq this.2.symm⟩
  | cancel j => have := step_waiter_srv (i := j) rfl h; exact Or.inl ⟨this.1, Nat.le_of_eq this.2.symm⟩
  | ret j r => have := step_waiter_srv (i := j) rfl h; exact Or.inl ⟨this.1, Nat.le_of_eq this.2.symm⟩

/-- a waiter that is pending after a step was pending on the same `(k, ver)` before it, or has just
started with a version that was handed out already -/
theorem step_waits {s s' : St} {e : Ev} {j : Nat} {k : String} {ver : Nat} (h : step s e = some s')
    (hw : Waits s' j k ver) : Waits s j k ver ∨ (e = .start j k ver ∧ ver < s.srv.nextVer) := by
  cases hwt : e.waiter with
  | none =>
    have := step_env_waiters hwt h
    left; unfold Waits at *; rw [this.1] at hw; exact hw
  | some i =>
    by_cases hij : j = i
    · subst hij
      cases e with
      | env op => cases hwt
      | tick d => cases hwt
      | start j' k' ver' =>
        cases hwt
        simp only [step] at h
        split at h
        · next hidle =>
          split at h
          · next hlt =>
            cases h
            unfold Waits at hw
            simp only [get_set_self hidle] at hw
            rcases hw with hw | hw
            · cases hw; exact Or.inr ⟨rfl, hlt⟩
            · cases hw
          · cases h
        · cases h
      | poll j' =>
        cases hwt
        obtain ⟨k0, ver0, hw0, rfl⟩ := step_poll h
        have hsome : ∃ b, s.w[j]? = some b := by rcases hw0 with h0 | h0 <;> exact ⟨_, h0⟩
        obtain ⟨b, hb⟩ := hsome
        unfold Waits at hw
        simp only [get_set_self hb] at hw
        rcases verdict_cases s j k0 ver0 with ⟨hv, _⟩ | ⟨_, ⟨hv, _⟩ | ⟨r, hv, _⟩ | ⟨r, hv, _⟩⟩
        · rw [hv] at hw; rcases hw with hw | hw <;> cases hw
        · rw [hv] at hw; rcases hw with hw | hw <;> cases hw
        · rw [hv] at hw; rcases hw with hw | hw <;> cases hw
        · rw [hv] at hw
          rcases hw with hw | hw
          · cases hw
          · cases hw; exact Or.inl hw0
      | wakeCtx j' =>
        cases hwt
        obtain ⟨k0, ver0, hw0, _, rfl⟩ := step_wake h
        unfold Waits at hw
        simp only [get_set_self hw0] at hw
        rcases hw with hw | hw <;> cases hw
      | cancel j' =>
        cases hwt
        simp only [step] at h
        split at h
        · cases h; exact Or.inl hw
        · cases h
      | ret j' r =>
        cases hwt
        simp only [step] at h
        split at h
        · next r' hd =>
          split at h
          · cases h
            unfold Waits at hw
            simp only [get_set_self hd] at hw
            rcases hw with hw | hw <;> cases hw
          · cases h
        · cases h
    · have := step_waiter_others hwt hij h
      left; unfold Waits at *; rw [this.1] at hw; exact hw

/-- a pending waiter stays exactly where it is under every event that is not its own (`Ev.touches`):
same program counter, same context flag -/
theorem step_untouched {s s' : St} {e : Ev} {i : Nat} {k : String} {ver : Nat} (hw : Waits s i k ver)
    (hq : e.touches i = false) (h : step s e = some s') :
    s'.w[i]? = s.w[i]? ∧ s'.ctxDone[i]? = s.ctxDone[i]? := by
  cases hwt : e.waiter with
  | none => have := step_env_waiters hwt h; rw [this.1, this.2]; exact ⟨rfl, rfl⟩
  | some j =>
    by_cases hij : i = j
    · subst hij
      cases e with
      | env op => cases hwt
      | tick d => cases hwt
      | start j' k' ver' =>
        cases hwt
        simp only [step] at h
        split at h
        · next hidle => rcases hw with hw | hw <;> rw [hw] at hidle <;> cases hidle
        · cases h
      | poll j' => cases hwt; simp [Ev.touches] at hq
      | wakeCtx j' => cases hwt; simp [Ev.touches] at hq
      | cancel j' => cases hwt; simp [Ev.touches] at hq
      | ret j' r => cases hwt; simp [Ev.touches] at hq
    · exact step_waiter_others hwt hij h

/-! ### the version invariant -/

theorem VerInv.init (n : Nat) : VerInv (St.init n) := by
  refine ⟨fun kr h => (by cases h), ?_⟩
  intro i k ver h
  simp only [St.init, List.getElem?_replicate] at h
  rcases h with h | h <;> (split at h <;> cases h)

theorem VerInv.step {s s' : St} {e : Ev} (hi : VerInv s) (h : step s e = some s') : VerInv s' := by
  have hnext : s.srv.nextVer ≤ s'.srv.nextVer := by
    rcases step_srv_cases h with ⟨h1, _⟩ | ⟨op, h1, _⟩
    · rw [h1]; exact Nat.le_refl _
    · rw [h1]; exact (Spec.step_ver s.srv s.now op).1
  refine ⟨?_, ?_⟩
  · rcases step_srv_cases h with ⟨h1, _⟩ | ⟨op, h1, _⟩
    · rw [h1]; exact hi.1
    · rw [h1]; exact Spec.Below.step (s := s.srv) hi.1 s.now op
  · intro j k ver hw
    rcases step_waits h hw with h0 | ⟨_, hlt⟩
    · exact Nat.lt_of_lt_of_le (hi.2 j k ver h0) hnext
    · exact Nat.lt_of_lt_of_le hlt hnext

theorem VerInv.run {s s' : St} (es : List Ev) (hi : VerInv s) (h : run s es = some s') : VerInv s' :=
  run_induct (P := VerInv) (fun _ _ _ hp hs => hp.step hs) es s s' hi h

/-! ### `Changed` is stable -/

theorem changed_iff (s : St) (k : String) (ver : Nat) :
    Changed s k ver ↔ ∀ r, s.srv.store.get k = some r → r.ver = ver → expired r s.now = true := by
  unfold Changed Spec.live
  cases hg : s.srv.store.get k with
  | none => simp
  | some r =>
    cases he : expired r s.now with
    | true => simp [he]
    | false => simp [he]

theorem gone_step {s s' : St} {e : Ev} {k : String} {ver : Nat} (hg : s.srv.Gone s.now k ver)
    (h : step s e = some s') : s'.srv.Gone s'.now k ver := by
  rcases step_srv_cases h with ⟨h1, h2⟩ | ⟨op, h1, h2⟩
  · rw [h1]; exact hg.mono h2
  · rw [h1, h2]; exact hg.step op

theorem gone_run {s s' : St} {k : String} {ver : Nat} (es : List Ev) (hg : s.srv.Gone s.now k ver)
    (h : run s es = some s') : s'.srv.Gone s'.now k ver :=
  run_induct (P := fun s => s.srv.Gone s.now k ver) (fun _ _ _ hp hs => gone_step hp hs) es s s' hg h

/-! ### sizes -/

theorem step_lengths {s s' : St} {e : Ev} (h : step s e = some s') :
    s'.w.length = s.w.length ∧ s'.ctxDone.length = s.ctxDone.length := by
  cases hwt : e.waiter with
  | none => have := step_env_waiters hwt h; rw [this.1, this.2]; exact ⟨rfl, rfl⟩
  | some i =>
    cases e with
    | env op => cases hwt
    | tick d => cases hwt
    | start j k ver =>
      simp only [step] at h
      split at h
      · split at h
        · cases h; simp
        · cases h
      · cases h
    | poll j => obtain ⟨k, ver, _, rfl⟩ := step_poll h; simp
    | wakeCtx j => obtain ⟨k, ver, _, _, rfl⟩ := step_wake h; simp
    | cancel j =>
      simp only [step] at h
      split at h
      · cases h; simp
      · cases h
    | ret j r =>
      simp only [step] at h
      split at h
      · split at h
        · cases h; simp
        · cases h
      · cases h

theorem run_lengths {n : Nat} {s : St} (es : List Ev) (h : run (St.init n) es = some s) :
    s.w.length = n ∧ s.ctxDone.length = n :=
  run_induct (P := fun s => s.w.length = n ∧ s.ctxDone.length = n)
    (fun _ _ _ hp hs => by have := step_lengths hs; exact ⟨this.1.trans hp.1, this.2.trans hp.2⟩)
    es (St.init n) s (by simp [St.init]) h

end RedisWait
