import GolibsVerif.Lemmas.BlkArith
/-! Offsets of the data blocks (`Block(idx)`). -/
namespace Blk

theorem block_off (bs i : Nat) :
    (i + i / (8 * bs) + 1) * bs = (i / (8 * bs)) * ((8 * bs + 1) * bs) + (i % (8 * bs) + 1) * bs := by
  have h := Nat.div_add_mod i (8 * bs)
  generalize i / (8 * bs) = s at *
  generalize i % (8 * bs) = r at *
  subst h
  grind

theorem B.block_nat (b : B) (hbs : 0 < b.bs) (i : Nat) (hi : i < b.count) :
    b.block (i : Int) = .ok ((i / (8 * b.bs)) * b.segmSize + (i % (8 * b.bs) + 1) * b.bs, b.bs) := by
  have hs : i / (8 * b.bs) < b.segs := (idx_seg_lt hbs).mpr hi
  unfold B.block B.blksInSegm
  have h1 : ¬ (8 * b.bs = 0) := by omega
  have h2 : ¬ ((i : Int) < 0) := by omega
  have h3 : ¬ (i / (8 * b.bs) ≥ b.segs) := by omega
  simp only [h1, h2, Int.toNat_natCast, h3, ↓reduceIte, B.segmSize, block_off]

end Blk
