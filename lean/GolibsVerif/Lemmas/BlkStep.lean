import GolibsVerif.Lemmas.BlkArrange
import GolibsVerif.Lemmas.BlkSet
import GolibsVerif.Lemmas.BlkCount
/-! One step of the implementation model simulates one step of the set Spec. -/
namespace Blk

def StepOK (P : Nat) (b : B) (s : S) (op : Op) : Prop :=
  (b.step P op).2 = (s.step op).2 ∧ Inv P (b.step P op).1 ∧ Rel (b.step P op).1 (s.step op).1

theorem leastFree_some {s : S} {i : Nat} (h1 : i < s.count) (h2 : i ∉ s.alloc)
    (h3 : ∀ k, k < i → k ∈ s.alloc) : s.leastFree = some i := by
  unfold S.leastFree
  rw [List.find?_range_eq_some]
  refine ⟨by simpa using h2, List.mem_range.mpr h1, ?_⟩
  intro k hk
  simpa using h3 k hk

theorem leastFree_none {s : S} (h : ∀ k, k < s.count → k ∈ s.alloc) : s.leastFree = none := by
  unfold S.leastFree
  rw [List.find?_range_eq_none]
  intro k hk
  simpa using h k hk

theorem step_arrange {P : Nat} {b : B} {s : S} (hI : Inv P b) (hR : Rel b s) : StepOK P b s .arrange := by
  have hspec := arrange_spec hI
  have hbs := hI.bs_pos
  unfold StepOK
  cases harr : b.arrange with
  | ok r =>
    obtain ⟨b', idx⟩ := r
    rw [harr] at hspec
    obtain ⟨s0, p0, j0, hs0, hp0, hz, hbefore, hidx, hb'⟩ := hspec
    obtain ⟨hj0, hzero, hlow⟩ := firstZeroBit_some hz
    have hin := b.hdr_in hI.fit hs0 hp0
    have hfree : b.isAlloc idx = false := by
      rw [hidx, B.isAlloc_coord b hp0 hj0, hzero]; rfl
    have hltc : idx < b.count := hidx ▸ b.coord_lt_count hs0 hp0 hj0
    have hnot : idx ∉ s.alloc := by
      intro hm; have := ((hR.mem_iff idx).mp hm).2; rw [hfree] at this; exact Bool.noConfusion this
    have hbelow : ∀ k, k < idx → k ∈ s.alloc := by
      intro k hk
      have hkc : k < b.count := by omega
      refine (hR.mem_iff k).mpr ⟨hkc, ?_⟩
      obtain ⟨s', p', j', hs', hp', hj', rfl⟩ := b.coord_of_lt hbs hkc
      rw [B.isAlloc_coord b hp' hj']
      rw [hidx] at hk
      rcases coord_lt hp' hj' hp0 hj0 hk with h | ⟨h1, h2⟩ | ⟨h1, h2, h3⟩
      · rw [hbefore s' p' hs' hp' (Or.inl h)]; simpa using ff_and hj'
      · rw [hbefore s' p' hs' hp' (Or.inr ⟨h1, h2⟩)]; simpa using ff_and hj'
      · subst h1; subst h2; simpa using hlow j' h3
    have hleast : s.leastFree = some idx := leastFree_some (hR.count ▸ hltc) hnot hbelow
    simp only [B.step, harr, S.step, hleast]
    have hv : b.hb s0 p0 < 256 := getD_lt hI.bytes _
    refine ⟨trivial, ?_, ?_⟩
    · subst hb'
      refine ⟨hbs, hI.geom, ?_, ?_, ?_, ?_⟩
      · show b.segs = (b.mem.set _ _).length / b.segmSize
        rw [List.length_set]; exact hI.segs_eq
      · show b.segmSize ≤ (b.mem.set _ _).length
        rw [List.length_set]; exact hI.one_seg
      · exact set_lt hI.bytes (or_lt hv hj0)
      · refine ⟨s0, p0, rfl, Nat.le_of_lt hs0, hp0, ?_⟩
        intro s' p' hs' hp' hlex
        rw [hb_mk_set b _ _ _ hin hp0 hp', if_neg (by omega)]
        exact hbefore s' p' hs' hp' hlex
    · subst hb'
      have hiff := isAlloc_set_or b b.segs (s0 * b.segmSize + p0) (b.avail - 1) hbs hI.bytes hin hp0 hj0
      refine ⟨hR.count, hR.bs, hR.segs, ?_, ?_, ?_⟩
      · exact List.nodup_cons.mpr ⟨hnot, hR.nodup⟩
      · intro k
        show k ∈ idx :: s.alloc ↔ k < b.count ∧ _
        rw [hiff k, List.mem_cons, hR.mem_iff k, ← hidx]
        constructor
        · rintro (h | h)
          · exact ⟨h ▸ hltc, Or.inl h⟩
          · exact ⟨h.1, Or.inr h.2⟩
        · rintro ⟨h1, h2 | h2⟩
          · exact Or.inl h2
          · exact Or.inr ⟨h1, h2⟩
      · show b.avail - 1 = (b.count : Int) - ((idx :: s.alloc).length : Nat)
        rw [hR.avail, List.length_cons]; omega
  | error e =>
    rw [harr] at hspec
    obtain ⟨he, hall⟩ := hspec
    have hnone : s.leastFree = none := by
      apply leastFree_none
      intro k hk
      have hkc : k < b.count := hR.count ▸ hk
      refine (hR.mem_iff k).mpr ⟨hkc, ?_⟩
      obtain ⟨s', p', j', hs', hp', hj', rfl⟩ := b.coord_of_lt hbs hkc
      rw [B.isAlloc_coord b hp' hj', hall s' p' hs' hp']; simpa using ff_and hj'
    simp only [B.step, harr, S.step, hnone, he]
    exact ⟨trivial, hI, hR⟩

theorem filter_ne_length {l : List Nat} (hn : l.Nodup) {a : Nat} (ha : a ∈ l) :
    (l.filter (· != a)).length + 1 = l.length := by
  rw [← hn.erase_eq_filter a, List.length_erase_of_mem ha]
  have := List.length_pos_of_mem ha; omega

theorem hdrPos_nat (b : B) (hbs : 0 < b.bs) (n : Nat) :
    b.hdrPos (n : Int) = if n < b.count then
      some ((n / (8 * b.bs)) * b.segmSize, n % (8 * b.bs) / 8, n % (8 * b.bs) % 8) else none := by
  unfold B.hdrPos B.blksInSegm
  have h1 : ¬ (8 * b.bs = 0) := by omega
  have h2 : ¬ ((n : Int) < 0) := by omega
  simp only [h1, h2, ↓reduceIte, Int.toNat_natCast, ge_iff_le]
  by_cases hc : n < b.count
  · have : ¬ (b.segs ≤ n / (8 * b.bs)) := by have := (idx_seg_lt hbs).mpr hc; omega
    simp [hc, this]
  · have : b.segs ≤ n / (8 * b.bs) := by
      have := mt (idx_seg_lt (segs := b.segs) (i := n) hbs).mp hc; omega
    simp [hc, this]

theorem step_free {P : Nat} {b : B} {s : S} (hI : Inv P b) (hR : Rel b s) (i : Int) :
    StepOK P b s (.free i) := by
  have hbs := hI.bs_pos
  unfold StepOK
  by_cases hneg : i < 0
  · have h1 : b.free i = .error .invalid := by simp [B.free, B.hdrPos, hneg]
    simp only [B.step, h1, S.step, hneg, true_or, ↓reduceIte]
    exact ⟨trivial, hI, hR⟩
  · obtain ⟨n, rfl⟩ : ∃ n : Nat, i = n := ⟨i.toNat, by omega⟩
    by_cases hc : n < b.count
    · have hs0 : n / (8 * b.bs) < b.segs := (idx_seg_lt hbs).mpr hc
      have hp0 : n % (8 * b.bs) / 8 < b.bs := idx_byte_lt hbs
      have hj0 : n % (8 * b.bs) % 8 < 8 := Nat.mod_lt _ (by omega)
      have hn := idx_encode (8 * b.bs) n
      have halloc := b.isAlloc_eq n
      have hin := b.hdr_in hI.fit hs0 hp0
      have h2 : ¬ ((n : Int) < 0 ∨ n ≥ s.count) := by
        rw [hR.count]; omega
      have hfree : b.free (n : Int) =
          if b.hb (n / (8 * b.bs)) (n % (8 * b.bs) / 8) &&& 1 <<< (n % (8 * b.bs) % 8) = 0 then .error .notExist
          else .ok ⟨b.bs, b.segs,
            if b.freeIdx > n / (8 * b.bs) * b.segmSize + n % (8 * b.bs) / 8
              then n / (8 * b.bs) * b.segmSize + n % (8 * b.bs) / 8 else b.freeIdx,
            b.avail + 1,
            b.mem.set (n / (8 * b.bs) * b.segmSize + n % (8 * b.bs) / 8)
              (b.hb (n / (8 * b.bs)) (n % (8 * b.bs) / 8) &&& (0xFF ^^^ 1 <<< (n % (8 * b.bs) % 8)))⟩ := by
        simp only [B.free, hdrPos_nat b hbs, hc, ↓reduceIte, B.hb]
        rfl
      generalize n / (8 * b.bs) = s0 at *
      generalize n % (8 * b.bs) / 8 = p0 at *
      generalize n % (8 * b.bs) % 8 = j0 at *
      by_cases hbit : b.hb s0 p0 &&& 1 <<< j0 = 0
      · have hna : b.isAlloc n = false := by rw [halloc, hbit]; rfl
        have hnot : s.alloc.contains n = false := by
          rw [List.contains_eq_mem, decide_eq_false_iff_not]
          intro hm; have := ((hR.mem_iff n).mp hm).2; rw [hna] at this; exact Bool.noConfusion this
        rw [if_pos hbit] at hfree
        simp only [B.step, hfree, S.step, h2, ↓reduceIte, Int.toNat_natCast, hnot, Bool.false_eq_true]
        exact ⟨trivial, hI, hR⟩
      · have hya : b.isAlloc n = true := by rw [halloc]; simpa using hbit
        have hmem : n ∈ s.alloc := (hR.mem_iff n).mpr ⟨hc, hya⟩
        have hyes : s.alloc.contains n = true := by
          rw [List.contains_eq_mem, decide_eq_true_iff]; exact hmem
        rw [if_neg hbit] at hfree
        simp only [B.step, hfree, S.step, h2, ↓reduceIte, Int.toNat_natCast, hyes]
        have hv : b.hb s0 p0 < 256 := getD_lt hI.bytes _
        refine ⟨trivial, ?_, ?_⟩
        · refine ⟨hbs, hI.geom, ?_, ?_, ?_, ?_⟩
          · show b.segs = (b.mem.set _ _).length / b.segmSize
            rw [List.length_set]; exact hI.segs_eq
          · show b.segmSize ≤ (b.mem.set _ _).length
            rw [List.length_set]; exact hI.one_seg
          · exact set_lt hI.bytes (Nat.lt_of_le_of_lt Nat.and_le_left hv)
          · obtain ⟨fs, fp, hfree', hfs, hfp, hhint⟩ := hI.hint
            have hZ := b.bs_le_segm
            have hlex := lex_lt_iff (Z := b.segmSize) (s := s0) (p := p0) (s' := fs) (p' := fp)
              (by omega) (by omega)
            by_cases hgt : b.freeIdx > s0 * b.segmSize + p0
            · refine ⟨s0, p0, by simp only [hgt, ↓reduceIte]; rfl, Nat.le_of_lt hs0, hp0, ?_⟩
              intro s' p' hs' hp' hl
              rw [hb_mk_set b _ _ _ hin hp0 hp', if_neg (by omega)]
              rw [hfree'] at hgt
              have := hlex.mp hgt
              exact hhint s' p' hs' hp' (by omega)
            · refine ⟨fs, fp, by simp only [hgt, ↓reduceIte]; exact hfree', hfs, hfp, ?_⟩
              intro s' p' hs' hp' hl
              rw [hfree'] at hgt
              have := mt hlex.mpr hgt
              rw [hb_mk_set b _ _ _ hin hp0 hp', if_neg (by omega)]
              exact hhint s' p' hs' hp' hl
        · have hiff := isAlloc_set_clr b b.segs
            (if b.freeIdx > s0 * b.segmSize + p0 then s0 * b.segmSize + p0 else b.freeIdx)
            (b.avail + 1) hbs hI.bytes hin hp0 hj0
          refine ⟨hR.count, hR.bs, hR.segs, ?_, ?_, ?_⟩
          · exact List.Nodup.sublist List.filter_sublist hR.nodup
          · intro k
            show k ∈ s.alloc.filter (· != n) ↔ k < b.count ∧ _
            rw [hiff k, List.mem_filter, hR.mem_iff k, ← hn]
            simp only [bne_iff_ne, ne_eq]
            constructor
            · rintro ⟨⟨h1, h2⟩, h3⟩; exact ⟨h1, h3, h2⟩
            · rintro ⟨h1, h3, h2⟩; exact ⟨⟨h1, h2⟩, h3⟩
          · show b.avail + 1 = (b.count : Int) - ((s.alloc.filter (· != n)).length : Nat)
            have := filter_ne_length hR.nodup hmem
            rw [hR.avail]; omega
    · have h1 : b.free (n : Int) = .error .invalid := by
        simp [B.free, hdrPos_nat b hbs, hc]
      have h2 : (n : Int) < 0 ∨ (n : Int).toNat ≥ s.count := by
        right; rw [hR.count]; simp only [Int.toNat_natCast]; omega
      simp only [B.step, h1, S.step, h2, ↓reduceIte]
      exact ⟨trivial, hI, hR⟩

theorem step_block {P : Nat} {b : B} {s : S} (hI : Inv P b) (hR : Rel b s) (i : Int) :
    StepOK P b s (.block i) := by
  have hbs := hI.bs_pos
  unfold StepOK
  have h1 : ¬ (8 * b.bs = 0) := by omega
  by_cases hneg : i < 0
  · have hb : b.block i = .error .invalid := by simp [B.block, hneg]
    simp only [B.step, hb, S.step, hneg, true_or, ↓reduceIte]
    exact ⟨trivial, hI, hR⟩
  · obtain ⟨n, rfl⟩ : ∃ n : Nat, i = n := ⟨i.toNat, by omega⟩
    by_cases hc : n < b.count
    · have hs0 : ¬ (n / (8 * b.bs) ≥ b.segs) := by have := (idx_seg_lt hbs).mpr hc; omega
      have hb : b.block (n : Int) = .ok ((n + n / (8 * b.bs) + 1) * b.bs, b.bs) := by
        simp only [B.block, h1, hneg, ↓reduceIte, Int.toNat_natCast, B.blksInSegm, hs0]
      have h2 : ¬ ((n : Int) < 0 ∨ n ≥ s.count) := by rw [hR.count]; omega
      simp only [B.step, hb, S.step, Int.toNat_natCast, h2, ↓reduceIte, hR.bs]
      exact ⟨trivial, hI, hR⟩
    · have hs0 : n / (8 * b.bs) ≥ b.segs := by
        have := mt (idx_seg_lt (segs := b.segs) (i := n) hbs).mp hc; omega
      have hb : b.block (n : Int) = .error .invalid := by
        simp only [B.block, h1, hneg, ↓reduceIte, Int.toNat_natCast, B.blksInSegm, hs0]
      have h2 : (n : Int) < 0 ∨ n ≥ s.count := by rw [hR.count]; omega
      simp only [B.step, hb, S.step, Int.toNat_natCast, h2, ↓reduceIte]
      exact ⟨trivial, hI, hR⟩

theorem step_available {P : Nat} {b : B} {s : S} (hI : Inv P b) (hR : Rel b s) :
    StepOK P b s .available := by
  unfold StepOK
  simp only [B.step, S.step]
  refine ⟨?_, hI, hR⟩
  rw [hR.avail, hR.count]

theorem step_count {P : Nat} {b : B} {s : S} (hI : Inv P b) (hR : Rel b s) :
    StepOK P b s .count := by
  unfold StepOK
  simp only [B.step, S.step]
  refine ⟨?_, hI, hR⟩
  rw [hR.count]

/-- reopening the bytes of a state satisfying the invariant -/
theorem reopen_eq {P : Nat} {b : B} (hI : Inv P b) :
    newBlocks P (b.bs : Int) b.mem false =
      .ok ⟨b.bs, b.segs, 0, countFree b.bs b.segs b.mem, b.mem⟩ := by
  rw [newBlocks_of_valid P b.bs b.mem false hI.geom, ← B.segmSize_eq, ← hI.segs_eq]
  have := hI.one_seg
  rw [if_neg (by simp; omega)]

theorem inv_reopen {P : Nat} {b : B} (hI : Inv P b) :
    Inv P ⟨b.bs, b.segs, 0, countFree b.bs b.segs b.mem, b.mem⟩ :=
  ⟨hI.bs_pos, hI.geom, hI.segs_eq, hI.one_seg, hI.bytes,
    ⟨0, 0, by simp, Nat.zero_le _, hI.bs_pos, by intro s p _ _ h; omega⟩⟩

theorem avail_eq_countFree {P : Nat} {b : B} {s : S} (hI : Inv P b) (hR : Rel b s) :
    b.avail = (countFree b.bs b.segs b.mem : Int) := by
  have h1 := countFree_add_alloc b hI.fit
  have h2 : b.abs.alloc.length = s.alloc.length := hR.perm.length_eq
  have h3 : b.abs.alloc.length = ((List.range b.count).filter b.isAlloc).length := rfl
  rw [hR.avail]; omega

theorem step_reopen {P : Nat} {b : B} {s : S} (hI : Inv P b) (hR : Rel b s) :
    StepOK P b s .reopen := by
  unfold StepOK
  simp only [B.step, reopen_eq hI, S.step]
  refine ⟨trivial, inv_reopen hI, ?_⟩
  refine ⟨hR.count, hR.bs, hR.segs, hR.nodup, hR.mem_iff, ?_⟩
  show (countFree b.bs b.segs b.mem : Int) = (b.count : Int) - (s.alloc.length : Nat)
  rw [← avail_eq_countFree hI hR, hR.avail]

theorem step_ok {P : Nat} {b : B} {s : S} (hI : Inv P b) (hR : Rel b s) (op : Op) : StepOK P b s op := by
  cases op with
  | arrange => exact step_arrange hI hR
  | free i => exact step_free hI hR i
  | block i => exact step_block hI hR i
  | available => exact step_available hI hR
  | count => exact step_count hI hR
  | reopen => exact step_reopen hI hR

/-- a freshly opened allocator satisfies the invariant and is related to its abstraction -/
theorem open_ok {P : Nat} {bs : Int} {mem0 : List Nat} {fit : Bool} {b : B}
    (hb : ∀ x ∈ mem0, x < 256) (hopen : newBlocks P bs mem0 fit = .ok b) : Inv P b ∧ Rel b b.abs := by
  by_cases hv : ValidGeom P bs
  · have hpos : 0 < bs := hv.1
    obtain ⟨n, rfl⟩ : ∃ n : Nat, bs = n := ⟨bs.toNat, by omega⟩
    rw [newBlocks_of_valid P n mem0 fit hv] at hopen
    split at hopen
    · cases hopen
    · rename_i hc
      have hb' := (Except.ok.inj hopen).symm
      subst hb'
      have hI : Inv P ⟨n, mem0.length / ((8 * n + 1) * n), 0,
          countFree n (mem0.length / ((8 * n + 1) * n)) mem0, mem0⟩ :=
        ⟨by show 0 < n; omega, hv, rfl, by show (8 * n + 1) * n ≤ mem0.length; omega, hb,
          ⟨0, 0, by simp, Nat.zero_le _, by show 0 < n; omega, by intro s p _ _ h; omega⟩⟩
      refine ⟨hI, ?_⟩
      refine ⟨rfl, rfl, rfl, List.Nodup.sublist List.filter_sublist List.nodup_range, ?_, ?_⟩
      · intro i; simp only [B.abs, List.mem_filter, List.mem_range]
      · have := countFree_add_alloc _ hI.fit
        simp only [B.abs] at this ⊢
        omega
  · rw [newBlocks_of_not_valid P bs mem0 fit hv] at hopen
    cases hopen

theorem run_ok {P : Nat} : ∀ (ops : List Op) {b : B} {s : S}, Inv P b → Rel b s →
    (runI P b ops).2 = (runS s ops).2 ∧ Inv P (runI P b ops).1 ∧ Rel (runI P b ops).1 (runS s ops).1
  | [], b, s, hI, hR => ⟨rfl, hI, hR⟩
  | op :: ops, b, s, hI, hR => by
    obtain ⟨h1, h2, h3⟩ := step_ok hI hR op
    obtain ⟨g1, g2, g3⟩ := run_ok ops h2 h3
    simp only [runI, runS]
    exact ⟨by rw [h1, g1], g2, g3⟩

/-- `FreeBlock` writes at most one header byte -/
theorem free_mem {b b' : B} {i : Int} (h : b.free i = .ok b') :
    ∃ s p v, s < b.segs ∧ p < b.bs ∧ b'.mem = b.mem.set (s * b.segmSize + p) v := by
  unfold B.free at h
  cases hpos : b.hdrPos i with
  | none => rw [hpos] at h; cases h
  | some r =>
    obtain ⟨offs, fidx, bit⟩ := r
    rw [hpos] at h
    simp only at h
    unfold B.hdrPos at hpos
    split at hpos
    · cases hpos
    · rename_i hK
      split at hpos
      · cases hpos
      · simp only at hpos
        split at hpos
        · cases hpos
        · rename_i hseg
          simp only [Option.some.injEq, Prod.mk.injEq] at hpos
          obtain ⟨rfl, rfl, rfl⟩ := hpos
          split at h
          · cases h
          · have := (Except.ok.inj h).symm
            subst this
            refine ⟨_, _, _, by omega, ?_, rfl⟩
            unfold B.blksInSegm at hK ⊢
            have := Nat.mod_lt i.toNat (show 0 < 8 * b.bs by omega)
            omega

/-- bytes outside the headers of the segments are never written -/
theorem step_mem_outside {P : Nat} {b : B} (hI : Inv P b) (op : Op) (k : Nat)
    (hk : ∀ s, s < b.segs → ¬ (s * b.segmSize ≤ k ∧ k < s * b.segmSize + b.bs)) :
    (b.step P op).1.mem.getD k 0 = b.mem.getD k 0 := by
  cases op with
  | arrange =>
    have hspec := arrange_spec hI
    cases harr : b.arrange with
    | ok r =>
      obtain ⟨b', idx⟩ := r
      rw [harr] at hspec
      obtain ⟨s0, p0, j0, hs0, hp0, _, _, _, hb'⟩ := hspec
      simp only [B.step, harr]
      subst hb'
      apply getD_set_ne
      intro he
      exact hk s0 hs0 ⟨by omega, by omega⟩
    | error e => simp only [B.step, harr]
  | free i =>
    cases hf : b.free i with
    | ok b' =>
      obtain ⟨s0, p0, v, hs0, hp0, hm⟩ := free_mem hf
      simp only [B.step, hf, hm]
      apply getD_set_ne
      intro he
      exact hk s0 hs0 ⟨by omega, by omega⟩
    | error e => simp only [B.step, hf]
  | block i =>
    cases hf : b.block i with
    | ok r => simp only [B.step, hf]
    | error e => simp only [B.step, hf]
  | available => rfl
  | count => rfl
  | reopen => simp only [B.step, reopen_eq hI]

end Blk
