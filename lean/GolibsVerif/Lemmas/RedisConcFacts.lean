import GolibsVerif.Lemmas.RedisConc
/-! Facts about `RedisConc` used by the "what the re-basing buys" theorems of Props/C02Redis.lean:
server keys stay distinct along every run; what a command answers when the (purged) server holds /
does not hold the key. -/
namespace RedisConc
open Kv Lin

/-! ### the server never holds a key twice -/

def KeysNodup (c : Redis) : Prop := (c.srv.keys.map (·.1)).Nodup

theorem nodup_filter {l : List (String × RVal)} (h : (l.map (·.1)).Nodup) (p : String × RVal → Bool) :
    ((l.filter p).map (·.1)).Nodup :=
  List.Nodup.sublist (List.Sublist.map _ List.filter_sublist) h

theorem KeysNodup.purge {c : Redis} (h : KeysNodup c) (now : Nat) : KeysNodup { c with srv := c.srv.purge now } := by
  unfold KeysNodup RedisSrv.purge
  exact nodup_filter h _

theorem KeysNodup.set {c : Redis} (h : KeysNodup c) (k : String) (v : RVal) (n : Nat) :
    KeysNodup { srv := c.srv.set k v, nextVer := n } := by
  unfold KeysNodup RedisSrv.set
  simp only [List.map_append, List.map_cons, List.map_nil]
  rw [List.nodup_append]
  refine ⟨nodup_filter h _, by simp, ?_⟩
  intro a ha b hb
  simp only [List.mem_singleton] at hb
  subst hb
  obtain ⟨x, hx, rfl⟩ := List.mem_map.mp ha
  simpa using (List.mem_filter.mp hx).2

theorem KeysNodup.del {c : Redis} (h : KeysNodup c) (k : String) : KeysNodup { c with srv := c.srv.del k } := by
  unfold KeysNodup RedisSrv.del
  exact nodup_filter h _

theorem KeysNodup.setRec {c : Redis} (h : KeysNodup c) (now : Nat) (k v : String) (e : Option Nat) :
    KeysNodup (c.setRec now k v e).1 := by
  simp only [Redis.setRec]
  exact h.set _ _ _

theorem KeysNodup.putMany (now : Nat) (rs : List (String × String × Option Nat)) :
    ∀ {c : Redis}, KeysNodup c →
      KeysNodup (rs.foldl (fun st (x : String × String × Option Nat) => (st.setRec now x.1 x.2.1 x.2.2).1) c) := by
  induction rs with
  | nil => intro c h; exact h
  | cons a rs ih => intro c h; exact ih (h.setRec now _ _ _)

theorem KeysNodup.step {c : Redis} (h : KeysNodup c) (now : Nat) (op : Op) : KeysNodup (c.step now op).1 := by
  have hp := h.purge now
  cases op with
  | putMany rs => rw [Redis.step_putMany']; exact KeysNodup.putMany now rs hp
  | create k v e => simp only [Redis.step]; split; exact hp; exact hp.setRec now _ _ _
  | get k => simp only [Redis.step]; split <;> exact hp
  | getMany ks => exact hp
  | put k v e => exact hp.setRec now _ _ _
  | cas k ver v e =>
    simp only [Redis.step]; split
    · exact hp
    · split
      · exact hp
      · exact hp.setRec now _ _ _
  | delete k => simp only [Redis.step]; split; exact hp; exact hp.del _
  | list p => exact hp
  | wait k ver =>
    simp only [Redis.step]; split
    · exact hp
    · split <;> exact hp

theorem KeysNodup.stepE {s s' : St} {e : RedisConc.Ev} {l : List (Lin.Ev LOp Out)} (hi : WInv s)
    (hn : KeysNodup s.srv) (h : RedisConc.step s e = some (s', l)) : KeysNodup s'.srv := by
  cases e with
  | call t op =>
    simp only [RedisConc.step] at h
    split at h
    · simp only [Option.some.injEq, Prod.mk.injEq] at h; obtain ⟨rfl, rfl⟩ := h; exact hn
    · cases h
  | cmd t =>
    simp only [RedisConc.step] at h
    obtain ⟨p, _, _, hcase⟩ := cmdStep_shape hi h
    rcases hcase with ⟨op, _, _, hsrv, _⟩ | ⟨op, _, _, hsrv, _⟩ | ⟨k, v, e, rest, _, _, hsrv, _⟩
    · rw [hsrv]; exact hn.step _ _
    · rw [hsrv]; exact hn
    · rw [hsrv]; exact (hn.purge s.now).setRec _ _ _ _
  | ret t r =>
    simp only [RedisConc.step] at h
    split at h
    · split at h
      · simp only [Option.some.injEq, Prod.mk.injEq] at h; obtain ⟨rfl, rfl⟩ := h; exact hn
      · cases h
    · split at h
      · simp only [Option.some.injEq, Prod.mk.injEq] at h; obtain ⟨rfl, rfl⟩ := h; exact hn
      · cases h
    · cases h
  | tick d =>
    obtain ⟨_, rfl, _⟩ := tick_shape h
    exact hn

theorem KeysNodup.runL {es : List RedisConc.Ev} : ∀ {s s' : St} {ls : List (Lin.Ev LOp Out)}, WInv s →
    KeysNodup s.srv → runL s es = some (s', ls) → KeysNodup s'.srv := by
  induction es with
  | nil => intro s s' ls _ hn h; simp only [RedisConc.runL, Option.some.injEq, Prod.mk.injEq] at h; exact h.1 ▸ hn
  | cons e es ih =>
    intro s s' ls hi hn h
    obtain ⟨s1, l, ls', hs, hr, _⟩ := runL_cons h
    exact ih (hi.step hs) (hn.stepE hi hs) hr

theorem KeysNodup.init (n : Nat) : KeysNodup (St.init n).srv := by
  simp [KeysNodup, St.init, Redis.new]

/-- with distinct keys: a key whose TTL has elapsed is not found on the purged server -/
theorem dead_invisible {l : List (String × RVal)} (hn : (l.map (·.1)).Nodup) {k : String} {rv : RVal} {now : Nat}
    (hg : RedisSrv.get ⟨l⟩ k = some rv) (hd : rv.alive now = false) :
    (RedisSrv.purge ⟨l⟩ now).get k = none := by
  rw [RedisSrv.get_def, RedisSrv.purge_keys, List.find?_filter, Option.map_eq_none_iff, List.find?_eq_none]
  intro x hx hcon
  simp only [beq_iff_eq, decide_eq_true_eq] at hcon
  obtain ⟨ha, hk⟩ := hcon
  apply absurd ha
  -- x is the entry `get` found
  have : x.2 = rv := by
    clear ha hd
    rw [RedisSrv.get_def] at hg
    simp only at hg
    induction l with
    | nil => cases hx
    | cons a l ih =>
      simp only [List.map_cons, List.nodup_cons] at hn
      by_cases h1 : a.1 = k
      · simp only [List.find?_cons, h1, beq_self_eq_true, Option.map_some, Option.some.injEq] at hg
        rcases List.mem_cons.mp hx with rfl | hx'
        · exact hg
        · exact absurd (List.mem_map.mpr ⟨x, hx', hk.trans h1.symm⟩) hn.1
      · have hb : (a.1 == k) = false := by simpa using h1
        simp only [List.find?_cons, hb] at hg
        rcases List.mem_cons.mp hx with rfl | hx'
        · exact absurd hk h1
        · exact ih hn.2 hg hx'
  rw [this, hd]
  simp

/-! ### what the commands answer -/

theorem get_result (s : St) (k : String) :
    (s.srv.step s.now (.get k)).2 = match s.psrv.srv.get (rKey k) with
      | some rv => .record rv.r.val rv.r.ver rv.r.exp
      | none => .errNotExist := by
  simp only [Redis.step, St.psrv]
  cases (s.srv.srv.purge s.now).get (rKey k) <;> rfl

/-- the key is absent from the purged server: GET / DEL / the GET of a CAS answer "absent", SETNX succeeds -/
theorem absent_cmds (s : St) (k : String) (hl : s.psrv.srv.get (rKey k) = none) (t : Nat) :
    (s.pc[t]? = some (.get k) →
      step s (.cmd t) = some ({ s with srv := s.psrv }.setPc t (.done .errNotExist), [.lin t])) ∧
    (∀ v e', s.pc[t]? = some (.create1 k v e') →
      step s (.cmd t) = some ({ s with srv := (s.psrv.setRec s.now k v e').1, watch := touch s.watch [rKey k] }.setPc t
        (.done (.okVer s.srv.nextVer)), [.lin t])) ∧
    (s.pc[t]? = some (.del k) →
      step s (.cmd t) = some ({ s with srv := s.psrv }.setPc t (.done .errNotExist), [.lin t])) ∧
    (∀ ver v e', s.pc[t]? = some (.casGet k ver v e') →
      step s (.cmd t) = some ({ s with srv := s.psrv, watch := s.watch.set t none }.setPc t (.done .errNotExist), [.lin t])) := by
  have hl' : (s.srv.srv.purge s.now).get (rKey k) = none := hl
  refine ⟨?_, ?_, ?_, ?_⟩
  · intro hp; simp [RedisConc.step, cmdStep, hp, get_result, hl]
  · intro v e' hp; simp [RedisConc.step, cmdStep, hp, hl', Redis.setRec, St.psrv]
  · intro hp; simp [RedisConc.step, cmdStep, hp, hl]
  · intro ver v e' hp; simp [RedisConc.step, cmdStep, hp, hl]

/-- the key is present on the purged server: GET returns its payload -/
theorem present_get (s : St) (k : String) (rv : RVal) (hl : s.psrv.srv.get (rKey k) = some rv) (t : Nat)
    (hp : s.pc[t]? = some (.get k)) :
    step s (.cmd t) = some ({ s with srv := s.psrv }.setPc t (.done (.record rv.r.val rv.r.ver rv.r.exp)), [.lin t]) := by
  simp [RedisConc.step, cmdStep, hp, get_result, hl]

/-- what a SET leaves on the server, seen (through the purge) at the time of any later state that
still has that server -/
theorem look_after_set (s' : St) (c : Redis) (now : Nat) (k v : String) (e : Option Nat)
    (hsrv : s'.srv = (c.setRec now k v e).1) :
    s'.psrv.srv.get (rKey k) =
      if RVal.alive { r := { val := v, ver := c.nextVer, exp := e }, deadline := deadlineOf e now } s'.now
      then some { r := { val := v, ver := c.nextVer, exp := e }, deadline := deadlineOf e now } else none := by
  simp only [St.psrv, hsrv, Redis.setRec]
  exact RedisSrv.get_purge_set_self _ _ _ _

theorem raw_after_set (s' : St) (c : Redis) (now : Nat) (k v : String) (e : Option Nat)
    (hsrv : s'.srv = (c.setRec now k v e).1) :
    s'.srv.srv.get (rKey k) = some { r := { val := v, ver := c.nextVer, exp := e }, deadline := deadlineOf e now } := by
  simp only [hsrv, Redis.setRec]
  exact RedisSrv.get_set_self _ _ _

/-- the SET of a Put -/
theorem put_cmd {s s1 : St} {t : Nat} {k v : String} {e : Option Nat} {l : List (Lin.Ev LOp Out)}
    (hp : s.pc[t]? = some (.put k v e)) (h : step s (.cmd t) = some (s1, l)) :
    s1.now = s.now ∧ s1.srv = (s.psrv.setRec s.now k v e).1 ∧ s1.watch = touch s.watch [rKey k] ∧
    s1.pc = s.pc.set t (.done (.okVer s.srv.nextVer)) ∧ l = [.lin t] := by
  simp only [RedisConc.step, cmdStep, hp, Option.some.injEq, Prod.mk.injEq] at h
  obtain ⟨rfl, rfl⟩ := h
  exact ⟨rfl, rfl, rfl, rfl, rfl⟩

/-- a tick moves nothing but the time -/
theorem tick_cmd {s s' : St} {d : Nat} {l : List (Lin.Ev LOp Out)} (h : step s (.tick d) = some (s', l)) :
    s'.now = s.now + d ∧ s'.srv = s.srv ∧ s'.pc = s.pc ∧ s'.watch = s.watch := by
  obtain ⟨_, rfl, _⟩ := tick_shape h
  exact ⟨rfl, rfl, rfl, rfl⟩

end RedisConc
