import GolibsVerif.Lemmas.Lock
import GolibsVerif.Lemmas.LockServe
/-
State-level helpers for C04Fair (inevitability under fairness over infinite fault-free runs):
  * `GStep c g s t` — "goroutine `g` takes one of ITS OWN steps from `s` to `t`" (the fault-free
    goroutine constructors of `Lock.Step` with the actor fixed), and the classification
    `step_pc_cases` : a fault-free step changes `pc g` iff it is a `GStep` of `g`;
  * enabledness (`∃ t, Step … s t ∧ t.pc g ≠ s.pc g`) of the pcs that always have a step;
  * how the record can appear (`lrec_created`) in a fault-free step;
  * generic facts on infinite sequences (first change of a component, first position of a property).
-/
namespace Lock

/-- goroutine `g` takes one of its own steps (fault-free variants only) -/
inductive GStep (c : Cfg) (g : G) : St → St → Prop
  | callLock (s : St) (ctx : Bool) (cd : Bool) (h : s.pc g = .idle) (hh : s.holds g = false)
      (hcd : cd = true → ctx = true) :
      GStep c g s { s with pc := upd s.pc g .lSelect, hasCtx := upd s.hasCtx g ctx, ctxDone := upd s.ctxDone g cd }
  | callTry (s : St) (h : s.pc g = .idle) (hh : s.holds g = false) :
      GStep c g s { s with pc := upd s.pc g .tSelect, hasCtx := upd s.hasCtx g false, ctxDone := upd s.ctxDone g false }
  | callUnlock (s : St) (h : s.pc g = .idle) (hh : s.holds g = true) (hc : s.cntr (c.lk g) = 1) :
      GStep c g s { s with pc := upd s.pc g .uCancel, holds := upd s.holds g false, cntr := upd s.cntr (c.lk g) 0 }
  | lSelCtx (s : St) (h : s.pc g = .lSelect) (hd : s.ctxDone g = true) :
      GStep c g s { s with pc := upd s.pc g .idle }
  | lSelDone (s : St) (h : s.pc g = .lSelect) (hd : s.done (c.pv (c.lk g)) = true) :
      GStep c g s { s with pc := upd s.pc g .idle }
  | lSelToken (s : St) (h : s.pc g = .lSelect) (ht : s.token (c.lk g) = true)
      (hd : s.done (c.pv (c.lk g)) = false) (hc : s.cntr (c.lk g) = 0) :
      GStep c g s { s with pc := upd s.pc g .lCtxCheck, token := upd s.token (c.lk g) false, cntr := upd s.cntr (c.lk g) 1 }
  | lSelTokenDone (s : St) (h : s.pc g = .lSelect) (ht : s.token (c.lk g) = true)
      (hd : s.done (c.pv (c.lk g)) = true) :
      GStep c g s { s with pc := upd s.pc g .idle, token := upd s.token (c.lk g) false }
  | lCtxOk (s : St) (h : s.pc g = .lCtxCheck) (hd : s.ctxDone g = false) :
      GStep c g s { s with pc := upd s.pc g .lCreate }
  | lCtxErr (s : St) (h : s.pc g = .lCtxCheck) (hd : s.ctxDone g = true) :
      GStep c g s { s with pc := upd s.pc g .lFail }
  | lCreateOk (s : St) (h : s.pc g = .lCreate) (hr : s.lrec = none) :
      GStep c g s { s with pc := upd s.pc g .idle, holds := upd s.holds g true, lrec := some { ver := s.nextVer, owner := some g }, nextVer := s.nextVer + 1, armed := { id := s.nextTimer, l := c.lk g, ver := s.nextVer } :: s.armed, future := upd s.future (c.lk g) (some s.nextTimer), nextTimer := s.nextTimer + 1 }
  | lCreateExists (s : St) (r : Rec) (h : s.pc g = .lCreate) (hr : s.lrec = some r) :
      GStep c g s { s with pc := upd s.pc g (.lWait r.ver) }
  | lCreateCtxErr (s : St) (h : s.pc g = .lCreate) (hd : s.ctxDone g = true) :
      GStep c g s { s with pc := upd s.pc g .lFail }
  | lWaitRet (s : St) (v : Nat) (h : s.pc g = .lWait v)
      (hw : s.ctxDone g = true ∨ s.lrec = none ∨ (∃ r, s.lrec = some r ∧ r.ver ≠ v)) :
      GStep c g s { s with pc := upd s.pc g (if s.ctxDone g then .lFail else .lCreate) }
  | lFail (s : St) (h : s.pc g = .lFail) :
      GStep c g s { s with pc := upd s.pc g .idle, cntr := upd s.cntr (c.lk g) 0, token := upd s.token (c.lk g) true }
  | tSelDone (s : St) (h : s.pc g = .tSelect) (hd : s.done (c.pv (c.lk g)) = true) :
      GStep c g s { s with pc := upd s.pc g .idle }
  | tSelToken (s : St) (h : s.pc g = .tSelect) (ht : s.token (c.lk g) = true)
      (hd : s.done (c.pv (c.lk g)) = false) (hc : s.cntr (c.lk g) = 0) :
      GStep c g s { s with pc := upd s.pc g .tCreate, token := upd s.token (c.lk g) false, cntr := upd s.cntr (c.lk g) 1 }
  | tSelTokenDone (s : St) (h : s.pc g = .tSelect) (ht : s.token (c.lk g) = true)
      (hd : s.done (c.pv (c.lk g)) = true) :
      GStep c g s { s with pc := upd s.pc g .idle, token := upd s.token (c.lk g) false }
  | tSelDefault (s : St) (h : s.pc g = .tSelect) (ht : s.token (c.lk g) = false)
      (hd : s.done (c.pv (c.lk g)) = false) :
      GStep c g s { s with pc := upd s.pc g .idle }
  | tCreateOk (s : St) (h : s.pc g = .tCreate) (hr : s.lrec = none) :
      GStep c g s { s with pc := upd s.pc g .idle, holds := upd s.holds g true, lrec := some { ver := s.nextVer, owner := some g }, nextVer := s.nextVer + 1, armed := { id := s.nextTimer, l := c.lk g, ver := s.nextVer } :: s.armed, future := upd s.future (c.lk g) (some s.nextTimer), nextTimer := s.nextTimer + 1 }
  | tCreateExists (s : St) (r : Rec) (h : s.pc g = .tCreate) (hr : s.lrec = some r) :
      GStep c g s { s with pc := upd s.pc g .tFail }
  | tFail (s : St) (h : s.pc g = .tFail) :
      GStep c g s { s with pc := upd s.pc g .idle, cntr := upd s.cntr (c.lk g) 0, token := upd s.token (c.lk g) true }
  | uCancel (s : St) (h : s.pc g = .uCancel) :
      GStep c g s { s with pc := upd s.pc g .uDelete, armed := s.armed.filter fun t => some t.id ≠ s.future (c.lk g) }
  | uDeleteEffect (s : St) (h : s.pc g = .uDelete) :
      GStep c g s { s with pc := upd s.pc g .uToken, lrec := none }
  | uToken (s : St) (h : s.pc g = .uToken) :
      GStep c g s { s with pc := upd s.pc g .idle, token := upd s.token (c.lk g) true }

/-- every own step is a step of the model -/
theorem GStep.step {c : Cfg} {g : G} {s t : St} (h : GStep c g s t) : Step c false false s t := by
  cases h
  case callLock ctx cd h hh hcd => exact Step.callLock s g ctx cd h hh hcd
  case callTry h hh => exact Step.callTry s g h hh
  case callUnlock h hh hc => exact Step.callUnlock s g h hh hc
  case lSelCtx h hd => exact Step.lSelCtx s g h hd
  case lSelDone h hd => exact Step.lSelDone s g h hd
  case lSelToken h ht hd hc => exact Step.lSelToken s g h ht hd hc
  case lSelTokenDone h ht hd => exact Step.lSelTokenDone s g h ht hd
  case lCtxOk h hd => exact Step.lCtxOk s g h hd
  case lCtxErr h hd => exact Step.lCtxErr s g h hd
  case lCreateOk h hr => exact Step.lCreateOk s g h hr
  case lCreateExists r h hr => exact Step.lCreateExists s g r h hr
  case lCreateCtxErr h hd => exact Step.lCreateCtxErr s g h hd
  case lWaitRet v h hw => exact Step.lWaitRet s g v false (by simp) h (Or.inr hw)
  case lFail h => exact Step.lFail s g h
  case tSelDone h hd => exact Step.tSelDone s g h hd
  case tSelToken h ht hd hc => exact Step.tSelToken s g h ht hd hc
  case tSelTokenDone h ht hd => exact Step.tSelTokenDone s g h ht hd
  case tSelDefault h ht hd => exact Step.tSelDefault s g h ht hd
  case tCreateOk h hr => exact Step.tCreateOk s g h hr
  case tCreateExists r h hr => exact Step.tCreateExists s g r h hr
  case tFail h => exact Step.tFail s g h
  case uCancel h => exact Step.uCancel s g h
  case uDeleteEffect h => exact Step.uDeleteEffect s g h
  case uToken h => exact Step.uToken s g h

/-- every own step changes the goroutine's pc -/
theorem GStep.pc_ne {c : Cfg} {g : G} {s t : St} (h : GStep c g s t) : t.pc g ≠ s.pc g := by
  cases h <;> simp_all [upd] <;> split <;> simp

/-- classification: a fault-free step that changes `pc g` is one of `g`'s own steps
(environment steps, lease activity and the steps of other goroutines leave `pc g` alone) -/
theorem step_pc_cases {c : Cfg} {s t : St} (g : G) (h : Step c false false s t)
    (hne : t.pc g ≠ s.pc g) : GStep c g s t := by
  cases h
  case supSwap => split at hne <;> exact absurd rfl hne
  case lWaitRet g' v fault hf h hw =>
    by_cases e : g = g'
    · subst e
      cases fault with
      | true => exact absurd (hf rfl) (by simp)
      | false => exact GStep.lWaitRet s v h (by simpa using hw)
    · exact absurd (by simp [upd, e]) hne
  all_goals first
    | exact absurd rfl hne
    | (rename_i hf _; cases hf; done)
    | (rename_i hf _ _; cases hf; done)
    | skip
  all_goals (simp only [upd] at hne; split at hne)
  all_goals first
    | exact absurd rfl hne
    | (rename_i e; subst e
       first
        | exact GStep.callLock _ _ _ ‹_› ‹_› ‹_›
        | exact GStep.callTry _ ‹_› ‹_›
        | exact GStep.callUnlock _ ‹_› ‹_› ‹_›
        | exact GStep.lSelCtx _ ‹_› ‹_›
        | exact GStep.lSelDone _ ‹_› ‹_›
        | exact GStep.lSelToken _ ‹_› ‹_› ‹_› ‹_›
        | exact GStep.lSelTokenDone _ ‹_› ‹_› ‹_›
        | exact GStep.lCtxOk _ ‹_› ‹_›
        | exact GStep.lCtxErr _ ‹_› ‹_›
        | exact GStep.lCreateOk _ ‹_› ‹_›
        | exact GStep.lCreateExists _ _ ‹_› ‹_›
        | exact GStep.lCreateCtxErr _ ‹_› ‹_›
        | exact GStep.lFail _ ‹_›
        | exact GStep.tSelDone _ ‹_› ‹_›
        | exact GStep.tSelToken _ ‹_› ‹_› ‹_› ‹_›
        | exact GStep.tSelTokenDone _ ‹_› ‹_› ‹_›
        | exact GStep.tSelDefault _ ‹_› ‹_› ‹_›
        | exact GStep.tCreateOk _ ‹_› ‹_›
        | exact GStep.tCreateExists _ _ ‹_› ‹_›
        | exact GStep.tFail _ ‹_›
        | exact GStep.uCancel _ ‹_›
        | exact GStep.uDeleteEffect _ ‹_›
        | exact GStep.uToken _ ‹_›)

/-! ### enabledness: `Enabled c s g` is the unfolded form of `C04Fair.CanMove c s g` -/

/-- some step of the model changes `g`'s pc -/
def Enabled (c : Cfg) (s : St) (g : G) : Prop := ∃ t, Step c false false s t ∧ t.pc g ≠ s.pc g

theorem GStep.enabled {c : Cfg} {g : G} {s t : St} (h : GStep c g s t) : Enabled c s g :=
  ⟨t, h.step, h.pc_ne⟩

/-- past the select and not parked in the wait: some step is always enabled -/
theorem enabled_section (c : Cfg) (s : St) (g : G)
    (h : s.pc g = .lCtxCheck ∨ s.pc g = .lCreate ∨ s.pc g = .lFail ∨ s.pc g = .tCreate ∨ s.pc g = .tFail ∨
      s.pc g = .uCancel ∨ s.pc g = .uDelete ∨ s.pc g = .uToken) : Enabled c s g := by
  rcases h with hp | hp | hp | hp | hp | hp | hp | hp
  · cases hd : s.ctxDone g with
    | false => exact (GStep.lCtxOk s hp hd).enabled
    | true => exact (GStep.lCtxErr s hp hd).enabled
  · cases hr : s.lrec with
    | none => exact (GStep.lCreateOk s hp hr).enabled
    | some r => exact (GStep.lCreateExists s r hp hr).enabled
  · exact (GStep.lFail s hp).enabled
  · cases hr : s.lrec with
    | none => exact (GStep.tCreateOk s hp hr).enabled
    | some r => exact (GStep.tCreateExists s r hp hr).enabled
  · exact (GStep.tFail s hp).enabled
  · exact (GStep.uCancel s hp).enabled
  · exact (GStep.uDeleteEffect s hp).enabled
  · exact (GStep.uToken s hp).enabled

/-- TryLock's select never blocks (the `default` branch) -/
theorem enabled_tSelect (c : Cfg) (s : St) (g : G) (htc : ITokCnt s) (hp : s.pc g = .tSelect) :
    Enabled c s g := by
  cases hd : s.done (c.pv (c.lk g)) with
  | true => exact (GStep.tSelDone s hp hd).enabled
  | false =>
    cases ht : s.token (c.lk g) with
    | false => exact (GStep.tSelDefault s hp ht hd).enabled
    | true => exact (GStep.tSelToken s hp ht hd (htc _ ht)).enabled

/-- a token in the Locker's channel enables every caller standing at the select of that Locker -/
theorem enabled_lSelect_token (c : Cfg) (s : St) (g : G) (htc : ITokCnt s) (hp : s.pc g = .lSelect)
    (ht : s.token (c.lk g) = true) : Enabled c s g := by
  cases hd : s.done (c.pv (c.lk g)) with
  | true => exact (GStep.lSelTokenDone s hp ht hd).enabled
  | false => exact (GStep.lSelToken s hp ht hd (htc _ ht)).enabled

theorem enabled_lSelect_ctx (c : Cfg) (s : St) (g : G) (hp : s.pc g = .lSelect)
    (hd : s.ctxDone g = true) : Enabled c s g := (GStep.lSelCtx s hp hd).enabled

theorem enabled_lSelect_done (c : Cfg) (s : St) (g : G) (hp : s.pc g = .lSelect)
    (hd : s.done (c.pv (c.lk g)) = true) : Enabled c s g := (GStep.lSelDone s hp hd).enabled

/-- WaitForVersionChange returns once the record is gone / changed / the context is done -/
theorem enabled_lWait (c : Cfg) (s : St) (g : G) (v : Nat) (hp : s.pc g = .lWait v)
    (hw : s.ctxDone g = true ∨ s.lrec = none ∨ (∃ r, s.lrec = some r ∧ r.ver ≠ v)) : Enabled c s g :=
  (GStep.lWaitRet s v hp hw).enabled

/-! ### what the own steps do, by source pc -/

theorem gstep_lWait {c : Cfg} {g : G} {s t : St} (h : GStep c g s t) (v : Nat) (hp : s.pc g = .lWait v) :
    t.pc g = (if s.ctxDone g then .lFail else .lCreate) ∧ t.lrec = s.lrec ∧ t.holds = s.holds := by
  cases h <;> simp_all [upd]

theorem gstep_lCreate {c : Cfg} {g : G} {s t : St} (h : GStep c g s t) (hp : s.pc g = .lCreate) :
    (s.lrec = none ∧ t.lrec = some { ver := s.nextVer, owner := some g } ∧ t.holds g = true ∧ t.pc g = .idle) ∨
    (∃ r, s.lrec = some r ∧ t.pc g = .lWait r.ver ∧ t.lrec = s.lrec ∧ t.holds = s.holds) ∨
    (s.ctxDone g = true ∧ t.pc g = .lFail) := by
  cases h <;> simp_all [upd]

theorem gstep_lSelect {c : Cfg} {g : G} {s t : St} (h : GStep c g s t) (hp : s.pc g = .lSelect) :
    (t.pc g = .idle ∧ (s.ctxDone g = true ∨ s.done (c.pv (c.lk g)) = true)) ∨
    (t.pc g = .lCtxCheck ∧ s.token (c.lk g) = true ∧ t.token (c.lk g) = false) := by
  cases h <;> simp_all [upd]

theorem gstep_lCtxCheck {c : Cfg} {g : G} {s t : St} (h : GStep c g s t) (hp : s.pc g = .lCtxCheck) :
    t.pc g = (if s.ctxDone g then .lFail else .lCreate) ∧ t.lrec = s.lrec := by
  cases h <;> simp_all [upd]

theorem gstep_uCancel {c : Cfg} {g : G} {s t : St} (h : GStep c g s t) (hp : s.pc g = .uCancel) :
    t.pc g = .uDelete := by
  cases h <;> simp_all [upd]

theorem gstep_uDelete {c : Cfg} {g : G} {s t : St} (h : GStep c g s t) (hp : s.pc g = .uDelete) :
    t.pc g = .uToken ∧ t.lrec = none := by
  cases h <;> simp_all [upd]

theorem gstep_uToken {c : Cfg} {g : G} {s t : St} (h : GStep c g s t) (hp : s.pc g = .uToken) :
    t.pc g = .idle ∧ t.token (c.lk g) = true := by
  cases h <;> simp_all [upd]

/-- the failure paths put the token back -/
theorem gstep_fail {c : Cfg} {g : G} {s t : St} (h : GStep c g s t) (hp : s.pc g = .lFail ∨ s.pc g = .tFail) :
    t.pc g = .idle ∧ t.token (c.lk g) = true := by
  cases h <;> simp_all [upd]

/-- in a fault-free step the record appears only by a successful Create, whose caller then holds -/
theorem lrec_created {c : Cfg} {s t : St} (h : Step c false false s t) (hn : s.lrec = none) (r : Rec)
    (hr : t.lrec = some r) :
    ∃ g, (s.pc g = .lCreate ∨ s.pc g = .tCreate) ∧ r.owner = some g ∧ t.holds g = true ∧ t.pc g = .idle := by
  cases h <;> (try split at hr) <;> simp_all [upd, mayExpire]
  all_goals first
    | exact ⟨_, Or.inl ‹_›, by simp [← hr], by simp, by simp⟩
    | exact ⟨_, Or.inr ‹_›, by simp [← hr], by simp, by simp⟩

/-- `holds g` is switched off only by `g` entering Unlock -/
theorem holds_off {c : Cfg} {s t : St} (h : Step c false false s t) (g : G) (h₁ : s.holds g = true)
    (h₂ : t.holds g = false) : t.pc g = .uCancel := by
  cases h <;> (try split at h₂) <;> simp_all [upd] <;> grind

/-- a caller in the storage stage with a live context stays there until it acquires -/
theorem stage_step {c : Cfg} {s t : St} (g : G) (h : Step c false false s t ∨ t = s)
    (hs : s.pc g = .lCreate ∨ ∃ v, s.pc g = .lWait v) (hc : s.ctxDone g = false) :
    (t.pc g = .lCreate ∨ ∃ v, t.pc g = .lWait v) ∨
    (s.lrec = none ∧ t.holds g = true ∧ ∃ r, t.lrec = some r) := by
  by_cases e : t.pc g = s.pc g
  · rw [e]; exact Or.inl hs
  · rcases h with h | h
    · have hg := step_pc_cases g h e
      rcases hs with hp | ⟨v, hp⟩
      · rcases gstep_lCreate hg hp with ⟨h₁, h₂, h₃, _⟩ | ⟨r, _, h₂, _⟩ | ⟨h₁, _⟩
        · exact Or.inr ⟨h₁, h₃, _, h₂⟩
        · exact Or.inl (Or.inr ⟨_, h₂⟩)
        · rw [hc] at h₁; cases h₁
      · have := (gstep_lWait hg v hp).1
        rw [hc] at this
        exact Or.inl (Or.inl (by simpa using this))
    · rw [h] at e; exact absurd rfl e

/-! ### infinite sequences -/

/-- the first position from `i` on at which a component of the sequence changes -/
theorem first_change {α : Type} (f : Nat → α) (i : Nat) (h : ∃ j, i ≤ j ∧ f (j + 1) ≠ f j) :
    ∃ j, i ≤ j ∧ f (j + 1) ≠ f j ∧ ∀ k, i ≤ k → k ≤ j → f k = f i := by
  obtain ⟨j, hij, hj⟩ := h
  obtain ⟨n, rfl⟩ : ∃ n, j = i + n := ⟨j - i, by omega⟩
  clear hij
  induction n generalizing i with
  | zero => exact ⟨i, Nat.le_refl i, hj, fun k h₁ h₂ => by rw [Nat.le_antisymm h₂ h₁]⟩
  | succ n ih =>
    by_cases e : f (i + 1) = f i
    · obtain ⟨j, hij, hj', hk⟩ := ih (i + 1) (by rw [show i + 1 + n = i + (n + 1) by omega]; exact hj)
      refine ⟨j, by omega, hj', fun k h₁ h₂ => ?_⟩
      by_cases ek : k = i
      · rw [ek]
      · rw [hk k (by omega) h₂, e]
    · exact ⟨i, Nat.le_refl i, e, fun k h₁ h₂ => by rw [Nat.le_antisymm h₂ h₁]⟩

/-- the first position from `i` on at which a property holds -/
theorem first_pos (P : Nat → Prop) (i : Nat) (h : ∃ j, i ≤ j ∧ P j) :
    ∃ j, i ≤ j ∧ P j ∧ ∀ k, i ≤ k → k < j → ¬ P k := by
  obtain ⟨j, hij, hj⟩ := h
  obtain ⟨n, rfl⟩ : ∃ n, j = i + n := ⟨j - i, by omega⟩
  clear hij
  induction n generalizing i with
  | zero => exact ⟨i, Nat.le_refl i, hj, fun k h₁ h₂ => by omega⟩
  | succ n ih =>
    by_cases e : P i
    · exact ⟨i, Nat.le_refl i, e, fun k h₁ h₂ => by omega⟩
    · obtain ⟨j, hij, hj', hk⟩ := ih (i + 1) (by rw [show i + 1 + n = i + (n + 1) by omega]; exact hj)
      refine ⟨j, by omega, hj', fun k h₁ h₂ => ?_⟩
      by_cases ek : k = i
      · rw [ek]; exact e
      · exact hk k (by omega) h₂

/-- a component that does not change from `i` on is constant from `i` on -/
theorem const_of_no_change {α : Type} (f : Nat → α) (i : Nat) (h : ∀ j, i ≤ j → f (j + 1) = f j) :
    ∀ j, i ≤ j → f j = f i := by
  intro j hij
  obtain ⟨n, rfl⟩ : ∃ n, j = i + n := ⟨j - i, by omega⟩
  induction n with
  | zero => rfl
  | succ n ih => rw [show i + (n + 1) = i + n + 1 by omega, h _ (by omega), ih (by omega)]

/-- all positions of an execution with stuttering are reachable -/
theorem seq_reach {c : Cfg} {σ : Nat → St} (h0 : Reach c false false (σ 0))
    (hn : ∀ i, Step c false false (σ i) (σ (i + 1)) ∨ σ (i + 1) = σ i) (i : Nat) :
    Reach c false false (σ i) := by
  induction i with
  | zero => exact h0
  | succ i ih =>
    rcases hn i with h | h
    · exact Reach.step ih h
    · rw [h]; exact ih

end Lock
