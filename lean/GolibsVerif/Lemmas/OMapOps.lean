import GolibsVerif.Lemmas.OMapInv
/-
Computation lemmas: what `delete`, one iteration of the `next` loop, `release`, `iterator` do on a
chain decomposed as `pre ++ n :: suf`.
-/
set_option linter.unusedSimpArgs false
namespace OMap

theorem delete_last {m : M} {pre suf : List Node} {n : Node} (hc : m.chain = pre ++ n :: suf)
    (hpre : ∀ x ∈ pre, x.id ≠ n.id) (hst : n.st = .last) : m.delete n.id = some (m, none) := by
  unfold M.delete
  simp only [hc, findNode_mid hpre, hst, if_true]

theorem delete_mark {m : M} {pre suf : List Node} {n : Node} (hc : m.chain = pre ++ n :: suf)
    (hpre : ∀ x ∈ pre, x.id ≠ n.id) (hsuf : ∀ x ∈ suf, x.id ≠ n.id)
    (hst : n.st ≠ .last) (hrc : n.refCnt ≠ 0) :
    m.delete n.id =
      some ({ m with chain := pre ++ { n with st := .deleted, val := 0 } :: suf }, none) := by
  unfold M.delete
  simp only [hc, findNode_mid hpre, hst, hrc, if_false, updNode_mid hpre hsuf]

theorem delete_unlink {m : M} {pre suf : List Node} {n g : Node} (hc : m.chain = pre ++ n :: g :: suf)
    (hpre : ∀ x ∈ pre, x.id ≠ n.id) (hsuf : ∀ x ∈ g :: suf, x.id ≠ n.id)
    (hst : n.st ≠ .last) (hrc : n.refCnt = 0) :
    m.delete n.id =
      some ({ m with chain := pre ++ g :: suf }, if pre = [] then some g.id else none) := by
  unfold M.delete
  simp only [hc, findNode_mid hpre, hst, hrc, if_false, if_true]
  cases pre with
  | nil => simp
  | cons a pre' =>
    have ha : a.id ≠ n.id := hpre a (by simp)
    have hs := succId_mid (suf := g :: suf) hpre
    have hf := filter_ne_mid hpre hsuf
    simp only [List.cons_append] at hs hf ⊢
    simp [ha, hs, hf]

/-- what the `next` loop leaves of the node it steps off -/
def decL (n : Node) : List Node :=
  if n.st = .deleted ∧ n.refCnt - 1 ≤ 0 then
    (if n.refCnt - 1 = 0 then [] else [{ n with refCnt := n.refCnt - 1, st := .deleted, val := 0 }])
  else [{ n with refCnt := n.refCnt - 1 }]

def incN (n : Node) : Node := { n with refCnt := n.refCnt + 1 }

theorem nextLoop_last {m : M} {pre suf : List Node} {n : Node} (f : Nat)
    (hc : m.chain = pre ++ n :: suf) (hpre : ∀ x ∈ pre, x.id ≠ n.id) (hst : n.st = .last) :
    M.nextLoop (f + 1) m n.id = some (m, n.id) := by
  rw [M.nextLoop]
  simp only [hc, findNode_mid hpre, hst, if_true]

/-- state after one iteration of the loop stepping from `n` to its successor `g` -/
def iterTo (m : M) (pre suf : List Node) (n g : Node) : M :=
  { m with chain := pre ++ decL n ++ incN g :: suf,
           head := if pre = [] ∧ decL n = [] then g.id else m.head }

theorem nextLoop_iter {m : M} {pre suf : List Node} {n g : Node} (f : Nat)
    (hc : m.chain = pre ++ n :: g :: suf) (hasc : Asc m.chain) (hst : n.st ≠ .last) :
    M.nextLoop (f + 1) m n.id =
      (if g.st ≠ .deleted then some (iterTo m pre suf n g, g.id)
       else M.nextLoop f (iterTo m pre suf n g) g.id) := by
  rw [hc] at hasc
  have hpre := asc_ne_pre hasc
  have hsuf := asc_ne_suf hasc
  have ha := asc_mid.mp hasc
  have hng : n.id < g.id := ha.2.2.2.1 g (by simp)
  have hpg : ∀ x ∈ pre, x.id ≠ g.id := by
    intro x hx; have := ha.2.2.2.2 x hx g (by simp); omega
  have hsg : ∀ x ∈ suf, x.id ≠ g.id := by
    intro x hx; have := (List.pairwise_cons.mp ha.2.1).1 x hx; omega
  rw [M.nextLoop]
  simp only [hc, findNode_mid hpre, hst, if_false, updNode_mid hpre hsuf]
  have hs := succId_mid (n := { n with refCnt := n.refCnt - 1 }) (suf := g :: suf) hpre
  simp only [List.head?_cons, Option.map_some] at hs
  simp only [hs]
  have tail : ∀ (X : List Node), (∀ x ∈ X, x.id ≠ g.id) →
      updNode (X ++ g :: suf) g.id (fun n => { n with refCnt := n.refCnt + 1 }) = X ++ incN g :: suf ∧
      findNode (X ++ incN g :: suf) g.id = some (incN g) := by
    intro X hX
    exact ⟨updNode_mid hX hsg, findNode_mid (n := incN g) (suf := suf) hX⟩
  have hincst : (incN g).st = g.st := rfl
  by_cases hd : n.st = .deleted ∧ n.refCnt - 1 ≤ 0
  · rw [if_pos hd]
    by_cases h0 : n.refCnt - 1 = 0
    · have hdel : ({ m with chain := pre ++ { n with refCnt := n.refCnt - 1 } :: g :: suf } : M).delete n.id
          = some ({ m with chain := pre ++ g :: suf }, if pre = [] then some g.id else none) :=
        delete_unlink (m := { m with chain := pre ++ { n with refCnt := n.refCnt - 1 } :: g :: suf })
          (n := { n with refCnt := n.refCnt - 1 }) rfl hpre hsuf hst h0
      rw [hdel]
      have hdl : decL n = [] := by simp [decL, hd, h0]
      by_cases hp : pre = []
      · obtain ⟨e1, e2⟩ := tail [] (by simp)
        simp only [hp, if_true, M.setHead, e1, e2, hincst]
        simp [iterTo, hdl, hp]
      · obtain ⟨e1, e2⟩ := tail pre hpg
        simp only [hp, if_false, M.setHead, e1, e2, hincst]
        simp [iterTo, hdl, hp]
    · have hdel : ({ m with chain := pre ++ { n with refCnt := n.refCnt - 1 } :: g :: suf } : M).delete n.id
          = some ({ m with chain := pre ++ { n with refCnt := n.refCnt - 1, st := .deleted, val := 0 } :: g :: suf }, none) :=
        delete_mark (m := { m with chain := pre ++ { n with refCnt := n.refCnt - 1 } :: g :: suf })
          (n := { n with refCnt := n.refCnt - 1 }) rfl hpre hsuf hst h0
      rw [hdel]
      simp only [M.setHead]
      have hdl : decL n = [{ n with refCnt := n.refCnt - 1, st := .deleted, val := 0 }] := by
        simp [decL, hd, h0]
      have hX : ∀ x ∈ pre ++ [{ n with refCnt := n.refCnt - 1, st := .deleted, val := 0 }], x.id ≠ g.id := by
        intro x hx
        rcases List.mem_append.mp hx with hx | hx
        · exact hpg x hx
        · simp at hx; subst hx; simp; omega
      obtain ⟨e1, e2⟩ := tail _ hX
      rw [List.append_cons pre _ (g :: suf)]
      simp only [e1, e2, hincst]
      simp [iterTo, hdl]
  · rw [if_neg hd]
    have hdl : decL n = [{ n with refCnt := n.refCnt - 1 }] := by simp [decL, hd]
    have hX : ∀ x ∈ pre ++ [{ n with refCnt := n.refCnt - 1 }], x.id ≠ g.id := by
      intro x hx
      rcases List.mem_append.mp hx with hx | hx
      · exact hpg x hx
      · simp at hx; subst hx; simp; omega
    obtain ⟨e1, e2⟩ := tail _ hX
    simp only []
    rw [List.append_cons pre _ (g :: suf)]
    simp only [e1, e2, hincst]
    simp [iterTo, hdl]

/-- `D` is what remains of node `n` after dropping one reference -/
def DecOf (n : Node) (D : List Node) : Prop :=
  (D = [] ∧ n.st = .deleted ∧ n.refCnt = 1) ∨
  (∃ n', D = [n'] ∧ n'.id = n.id ∧ n'.st = n.st ∧ n'.refCnt = n.refCnt - 1 ∧
    (n.st = .deleted → n.refCnt ≠ 1) ∧ (n.st ≠ .deleted → n'.key = n.key ∧ n'.val = n.val))

theorem decOf_decL (n : Node) : DecOf n (decL n) := by
  unfold DecOf decL
  by_cases hd : n.st = .deleted ∧ n.refCnt - 1 ≤ 0
  · by_cases h0 : n.refCnt - 1 = 0
    · left; simp [hd, h0]; omega
    · right; simp [hd, h0]; omega
  · right; simp only [hd, if_false]
    refine ⟨_, rfl, rfl, rfl, rfl, ?_, fun _ => ⟨rfl, rfl⟩⟩
    intro h1 h2; apply hd; exact ⟨h1, by omega⟩

/-- what `release` leaves of the node -/
def decR (n : Node) : List Node :=
  if n.st = .deleted then
    (if n.refCnt - 1 = 0 then [] else [{ n with refCnt := n.refCnt - 1, st := .deleted, val := 0 }])
  else [{ n with refCnt := n.refCnt - 1 }]

theorem decOf_decR (n : Node) : DecOf n (decR n) := by
  unfold DecOf decR
  by_cases hd : n.st = .deleted
  · by_cases h0 : n.refCnt - 1 = 0
    · left; simp [hd, h0]; omega
    · right; simp [hd, h0]; omega
  · right; simp only [hd, if_false]
    exact ⟨_, rfl, rfl, rfl, rfl, fun h => by simp [hd] at h, fun _ => ⟨rfl, rfl⟩⟩

theorem Str.dec {pre suf : List Node} {n g : Node} {L : Nat} {D : List Node}
    (h : Str (pre ++ n :: g :: suf) L) (hst : n.st ≠ .last) (hD : DecOf n D) :
    Str (pre ++ D ++ g :: suf) L := by
  rcases hD with ⟨rfl, _, _⟩ | ⟨n', rfl, hid, hs, _, _, _⟩
  · simpa using h.unlink hst
  · have := h.replace (n' := n') hid (by rw [hs])
    simpa using this

theorem Str.inc {X suf : List Node} {g : Node} {L : Nat} (h : Str (X ++ g :: suf) L) :
    Str (X ++ incN g :: suf) L := h.replace rfl Iff.rfl

theorem okl_inc (X suf : List Node) (g : Node) : okl (X ++ incN g :: suf) = okl (X ++ g :: suf) := by
  apply okl_mid_congr
  by_cases h : g.st = .ok
  · left; exact ⟨h, h, rfl, rfl, rfl⟩
  · right; exact ⟨h, h⟩

theorem CS.inc {X suf : List Node} {g : Node} {hd L : Nat} {r : Nat → Int}
    (h : CS (X ++ g :: suf) hd L r) :
    CS (X ++ incN g :: suf) hd L (fun y => r y + if y = g.id then 1 else 0) := by
  apply h.replace (n' := incN g) rfl Iff.rfl
  · intro hdl
    have h1 := (forall_mid.mp h.pinned).2.1 hdl
    show 0 < g.refCnt + 1; omega
  · have h1 := (forall_mid.mp h.refc).2.1
    show g.refCnt + 1 = _; simp [h1]
  · intro y hy; simp [hy]

theorem CS.dec {pre suf : List Node} {n g : Node} {hd L : Nat} {r : Nat → Int} {D : List Node}
    (h : CS (pre ++ n :: g :: suf) hd L (fun y => r y + if y = n.id then 1 else 0))
    (hst : n.st ≠ .last) (hD : DecOf n D) :
    CS (pre ++ D ++ g :: suf) (if pre = [] ∧ D = [] then g.id else hd) L r ∧
    okl (pre ++ D ++ g :: suf) = okl (pre ++ n :: g :: suf) := by
  have hrc := (forall_mid.mp h.refc).2.1
  have hpin := (forall_mid.mp h.pinned).2.1
  simp only [if_true] at hrc
  rcases hD with ⟨rfl, hdel, h1⟩ | ⟨n', rfl, hid, hs, hr, hne, hkv⟩
  · refine ⟨?_, ?_⟩
    · simp only [List.append_nil, and_true]
      apply h.unlink hst
      · omega
      · intro y hy; simp [hy]
      · intro hp; simp [hp]
      · intro hp; simp [hp]
    · simp only [List.append_nil]
      exact okl_mid_drop (by rw [hdel]; simp)
  · refine ⟨?_, ?_⟩
    · simp only [List.append_assoc, List.cons_append, List.nil_append, reduceCtorEq, and_false, if_false]
      apply h.replace hid (by rw [hs])
      · intro hdl; rw [hs] at hdl
        have := hpin hdl; have := hne hdl; omega
      · omega
      · intro y hy; simp [hy]
    · simp only [List.append_assoc, List.cons_append, List.nil_append]
      apply okl_mid_congr
      by_cases hok : n.st = .ok
      · left
        have := hkv (by rw [hok]; simp)
        exact ⟨by rw [hs]; exact hok, hok, hid, this.1, this.2⟩
      · right; exact ⟨by rw [hs]; exact hok, hok⟩

/-! ### the `next` loop -/

/-- the loop is defined on every structurally sound chain (no reference-count assumption) -/
theorem nextLoop_isSome {L : Nat} : ∀ (suf pre : List Node) (n : Node) (m : M) (f : Nat),
    m.chain = pre ++ n :: suf → Str m.chain L → suf.length < f → (M.nextLoop f m n.id).isSome := by
  intro suf
  induction suf with
  | nil =>
    intro pre n m f hc hs hf
    obtain ⟨f, rfl⟩ : ∃ f', f = f' + 1 := ⟨f - 1, by omega⟩
    rw [hc] at hs
    by_cases hst : n.st = .last
    · rw [nextLoop_last f hc (asc_ne_pre hs.asc) hst]; rfl
    · exact absurd rfl (hs.suf_ne_nil hst)
  | cons g suf ih =>
    intro pre n m f hc hs hf
    obtain ⟨f, rfl⟩ : ∃ f', f = f' + 1 := ⟨f - 1, by omega⟩
    by_cases hst : n.st = .last
    · rw [hc] at hs; rw [nextLoop_last f hc (asc_ne_pre hs.asc) hst]; rfl
    · rw [nextLoop_iter f hc hs.asc hst]
      by_cases hg : g.st ≠ .deleted
      · rw [if_pos hg]; rfl
      · rw [if_neg hg]
        rw [hc] at hs
        have hs3 : Str (iterTo m pre suf n g).chain L := (hs.dec hst (decOf_decL n)).inc
        exact ih (pre ++ decL n) (incN g) (iterTo m pre suf n g) f rfl hs3 (by simpa using hf)

theorem okl_adj {pre suf : List Node} {n g : Node} (ha : Asc (pre ++ n :: g :: suf)) :
    ∀ t ∈ okl (pre ++ n :: g :: suf), (n.id < t.1 ↔ g.id ≤ t.1) ∧ (g.st ≠ .ok → t.1 ≠ g.id) := by
  intro t ht
  obtain ⟨x, hx, hok, rfl⟩ := mem_okl.mp ht
  have h := asc_mid.mp ha
  have hng : n.id < g.id := h.2.2.2.1 g (by simp)
  have hgs := List.pairwise_cons.mp h.2.1
  simp only [List.mem_append, List.mem_cons] at hx
  rcases hx with hx | rfl | rfl | hx
  · have := h.2.2.1 x hx
    constructor
    · constructor <;> intro <;> omega
    · intro _; simp; omega
  · constructor
    · constructor <;> intro <;> omega
    · intro _; simp; omega
  · constructor
    · constructor <;> intro <;> first | omega | (simp; done)
    · intro hne; exact absurd hok hne
  · have := hgs.1 x hx
    constructor
    · constructor <;> intro <;> simp <;> omega
    · intro _; simp; omega

/-- fields of the map not touched by chain operations -/
def Same (m m' : M) : Prop :=
  m'.last = m.last ∧ m'.vals = m.vals ∧ m'.nextId = m.nextId ∧ m'.its = m.its ∧ m'.nextIt = m.nextIt

theorem Same.rfl' (m : M) : Same m m := ⟨rfl, rfl, rfl, rfl, rfl⟩

theorem Same.trans {a b c : M} (h1 : Same a b) (h2 : Same b c) : Same a c := by
  obtain ⟨a1, a2, a3, a4, a5⟩ := h1
  obtain ⟨b1, b2, b3, b4, b5⟩ := h2
  exact ⟨b1.trans a1, b2.trans a2, b3.trans a3, b4.trans a4, b5.trans a5⟩

/-- functional specification of the loop under the chain invariant with the stepping iterator's
reference "in flight" at the current node -/
theorem nextLoop_spec : ∀ (suf pre : List Node) (n : Node) (m : M) (f : Nat) (r : Nat → Int),
    m.chain = pre ++ n :: suf →
    CS m.chain m.head m.last (fun y => r y + if y = n.id then 1 else 0) → suf.length < f →
    ∃ m' q, M.nextLoop f m n.id = some (m', q) ∧
      CS m'.chain m'.head m'.last (fun y => r y + if y = q then 1 else 0) ∧
      okl m'.chain = okl m.chain ∧ Same m m' ∧
      (∃ x ∈ m'.chain, x.id = q ∧ x.st ≠ .deleted) ∧
      (n.st = .last → m' = m ∧ q = n.id) ∧
      (n.st ≠ .last → n.id < q ∧ ∀ t ∈ okl m.chain, (n.id < t.1 ↔ q ≤ t.1)) := by
  intro suf
  induction suf with
  | nil =>
    intro pre n m f r hc hs hf
    obtain ⟨f, rfl⟩ : ∃ f', f = f' + 1 := ⟨f - 1, by omega⟩
    have hs' := hs; rw [hc] at hs'
    by_cases hst : n.st = .last
    · refine ⟨m, n.id, nextLoop_last f hc (asc_ne_pre hs'.asc) hst, hs, rfl, Same.rfl' m, ?_,
        fun _ => ⟨rfl, rfl⟩, fun h => absurd hst h⟩
      exact ⟨n, by simp [hc], rfl, by simp [hst]⟩
    · exact absurd rfl (hs'.toStr.suf_ne_nil hst)
  | cons g suf ih =>
    intro pre n m f r hc hs hf
    obtain ⟨f, rfl⟩ : ∃ f', f = f' + 1 := ⟨f - 1, by omega⟩
    have hs' := hs; rw [hc] at hs'
    by_cases hst : n.st = .last
    · refine ⟨m, n.id, nextLoop_last f hc (asc_ne_pre hs'.asc) hst, hs, rfl, Same.rfl' m, ?_,
        fun _ => ⟨rfl, rfl⟩, fun h => absurd hst h⟩
      exact ⟨n, by simp [hc], rfl, by simp [hst]⟩
    · rw [nextLoop_iter f hc hs.asc hst]
      obtain ⟨hcs1, hok1⟩ := hs'.dec hst (decOf_decL n)
      have hcs3 : CS (iterTo m pre suf n g).chain (iterTo m pre suf n g).head (iterTo m pre suf n g).last
          (fun y => r y + if y = g.id then 1 else 0) := hcs1.inc
      have hok3 : okl (iterTo m pre suf n g).chain = okl m.chain := by
        rw [hc, ← hok1]; exact okl_inc _ _ _
      have hadj := okl_adj hs'.asc
      have hng : n.id < g.id := (asc_mid.mp hs'.asc).2.2.2.1 g (by simp)
      have hsame3 : Same m (iterTo m pre suf n g) := ⟨rfl, rfl, rfl, rfl, rfl⟩
      by_cases hg : g.st ≠ .deleted
      · rw [if_pos hg]
        refine ⟨_, _, rfl, hcs3, hok3, hsame3, ⟨incN g, by simp [iterTo], rfl, hg⟩,
          fun h => absurd h hst, fun _ => ⟨hng, ?_⟩⟩
        intro t ht; rw [hc] at ht; exact (hadj t ht).1
      · rw [if_neg hg]
        have hgd : g.st = .deleted := by simpa using hg
        obtain ⟨m', q, hrun, hcs', hok', hsame', hq, _, hlt⟩ :=
          ih (pre ++ decL n) (incN g) (iterTo m pre suf n g) f r rfl hcs3 (by simpa using hf)
        have hlt' := hlt (by show g.st ≠ .last; rw [hgd]; simp)
        refine ⟨m', q, hrun, hcs', hok'.trans hok3, hsame3.trans hsame', hq,
          fun h => absurd h hst, fun _ => ⟨?_, ?_⟩⟩
        · have : g.id < q := hlt'.1; omega
        · intro t ht
          have h1 := hlt'.2 t (by rw [hok3]; exact ht)
          rw [hc] at ht
          have h2 := hadj t ht
          have h3 := h2.2 (by rw [hgd]; simp)
          have h4 : (incN g).id = g.id := rfl
          rw [h4] at h1
          rw [h2.1, ← h1]
          omega

end OMap
