import GolibsVerif.Lemmas.LockLeaseChainSup
/- Lock lease (C05), part 6: the invariants hold in every reachable state -/
namespace Lock

theorem Chain.step_create {c : Cfg} {s : St} (g : G) (pc' : G → Pc) (hr : s.lrec = none)
    (ho : Own s) (hf : Fresh s) (hd : Dist s) (hl : Lnk c s) (h : Chain c s) :
    Chain c { s with pc := pc', holds := upd s.holds g true, lrec := some { ver := s.nextVer, owner := some g }, nextVer := s.nextVer + 1, armed := { id := s.nextTimer, l := c.lk g, ver := s.nextVer } :: s.armed, future := upd s.future (c.lk g) (some s.nextTimer), nextTimer := s.nextTimer + 1 } := by
  obtain ⟨h1, h2, h3⟩ := h
  obtain ⟨o1, o2, o3⟩ := ho
  obtain ⟨f1, f2, f3, f4, f5, f6⟩ := hf
  obtain ⟨d1, d2, d3, d4, d5, d6⟩ := hd
  obtain ⟨l1, l2, l3, l4⟩ := hl
  have hnh : ∀ g', s.holds g' = true → False := by
    intro g' hg'
    obtain ⟨r, e, _⟩ := o2 g' (Or.inl hg')
    simp [hr] at e
  constructor
  · intro g' r hg' hr'
    left; exact ⟨_, List.mem_cons_self, by grind⟩
  · grind [upd, → Sup.of_arm]
  · grind [upd, → Sup.of_arm]

theorem Chain.step {c : Cfg} {s t : St} (hs : Step c false false s t) (hne : ¬ EarlyFire s t)
    (ho : Own s) (hf : Fresh s) (hd : Dist s) (hl : Lnk c s) (h : Chain c s) : Chain c t := by
  cases hs
  case fire tm htm =>
    refine Chain.step_fire tm htm ?_ ho hf hd hl h
    intro u hu ha
    obtain ⟨f, hf⟩ := Sup.await_eq_some.1 ha
    exact hne ⟨tm, htm, ⟨u, hu, f, hf⟩, rfl⟩
  case supLoad u hu hp => exact Chain.step_load u hu hp ho hf hd hl h
  case supSwap u fut tn hu hp =>
    split
    · next he => exact Chain.step_swapOk u fut tn hu hp he ho hf hd hl h
    · next he => exact Chain.step_swapFail u fut tn hu hp he ho hf hd hl h
  case supCasOk u fut r hu hp hr hv => exact Chain.step_casOk u fut r hu hp hr hv ho hf hd hl h
  case supCasDefinitive u fut hu hp hr => exact Chain.step_casDef u fut hu hp hr ho hf hd hl h
  case supArm u fut nv hu hp => exact Chain.step_arm u fut nv hu hp ho hf hd hl h
  case lCreateOk g hpc hr => exact Chain.step_create g _ hr ho hf hd hl h
  case tCreateOk g hpc hr => exact Chain.step_create g _ hr ho hf hd hl h
  all_goals clear hne
  all_goals obtain ⟨h1, h2, h3⟩ := h
  all_goals first | exact ⟨h1, h2, h3⟩ | skip
  all_goals obtain ⟨o1, o2, o3⟩ := ho
  all_goals (constructor <;> grind [upd, mayExpire])

theorem ReachNE.reach {c : Cfg} {s : St} (h : ReachNE c s) : Reach c false false s := by
  induction h with
  | init => exact .init
  | step _ hs _ ih => exact .step ih hs

/-- the state-independent invariants of the fault-free system -/
theorem Reach.inv {c : Cfg} {s : St} (h : Reach c false false s) : Own s ∧ Fresh s ∧ Dist s ∧ Lnk c s := by
  induction h with
  | init => exact ⟨Own.init, Fresh.init, Dist.init, Lnk.init⟩
  | step _ hs ih =>
    obtain ⟨ho, hf, hd, hl⟩ := ih
    exact ⟨ho.step hs, hf.step hs, hd.step hs hf, hl.step hs hf hd⟩

theorem ReachNE.chain {c : Cfg} {s : St} (h : ReachNE c s) : Chain c s := by
  induction h with
  | init => exact Chain.init
  | step hr hs hne ih =>
    obtain ⟨ho, hf, hd, hl⟩ := hr.reach.inv
    exact ih.step hs hne ho hf hd hl

end Lock
