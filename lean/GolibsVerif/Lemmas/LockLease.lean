import GolibsVerif.Model.Lock
import GolibsVerif.Lemmas.LockLeaseRuns
import GolibsVerif.Lemmas.LockLeaseChain
