import GolibsVerif.Lemmas.LockBasic
set_option linter.unusedVariables false
namespace Lock

def IVer (s : St) : Prop :=
  (∀ r, s.lrec = some r → r.ver < s.nextVer) ∧ (∀ t ∈ s.armed, t.ver < s.nextVer) ∧
  (∀ u ∈ s.sups, u.ver < s.nextVer ∧ ∀ fut nv, u.pc = .arm fut nv → nv < s.nextVer)

def ITokBack (c : Cfg) (s : St) : Prop :=
  ∀ l, s.token l = false → s.done (c.pv l) = true ∨ ∃ g, c.lk g = l ∧ (s.holds g = true ∨ (s.pc g).sec = true)

def ILive (s : St) : Prop :=
  ∀ r, s.lrec = some r → ∃ g, r.owner = some g ∧ (s.holds g = true ∨ s.pc g = .uCancel ∨ s.pc g = .uDelete)

set_option maxHeartbeats 1000000 in
theorem IVer_step (c : Cfg) (faults : Bool) (s t : St) (h : Step c false faults s t) (hi : IVer s) : IVer t := by
  step_bash h with IVer

set_option maxHeartbeats 1000000 in
theorem ITokBack_step (c : Cfg) (faults : Bool) (s t : St) (h : Step c false faults s t) (h1 : IIdle s) (hi : ITokBack c s) : ITokBack c t := by
  step_bash h with IIdle, ITokBack

set_option maxHeartbeats 1000000 in
theorem ILive_step (c : Cfg) (s t : St) (h : Step c false false s t) (h1 : IIdle s) (hi : ILive s) : ILive t := by
  step_bash h with IIdle, ILive

end Lock
