import GolibsVerif.Model.Kv
import GolibsVerif.Lemmas.KvBasic
import GolibsVerif.Lemmas.KvSim
import GolibsVerif.Lemmas.KvInmem
import GolibsVerif.Lemmas.KvRedis
import GolibsVerif.Lemmas.KvVer
