import GolibsVerif.Model.Kv
