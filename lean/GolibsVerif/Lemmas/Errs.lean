import GolibsVerif.Model.Errs
/-
Lemmas for C19.  Nothing here unfolds the generated tables or cases on the generated `Cls`
constructors: every table-dependent statement takes the table-level facts (distinct keys, no
`Unknown` code, back-mapping consistency) as hypotheses; `Props/C19.lean` discharges them by `decide`.
-/
namespace Errs
open Gen.Errs

/-! ### generic association-list lookup -/

theorem mem_of_lookup_eq_some {α β : Type} [DecidableEq α] {k : α} {v : β} :
    ∀ {l : List (α × β)}, lookup k l = some v → (k, v) ∈ l
  | [], h => by simp [lookup] at h
  | (a, b) :: rest, h => by
    simp only [lookup] at h
    split at h
    · next hak => simp at h; subst hak; subst h; simp
    · exact List.mem_cons_of_mem _ (mem_of_lookup_eq_some h)

theorem lookup_eq_some_of_mem {α β : Type} [DecidableEq α] {k : α} {v : β} :
    ∀ {l : List (α × β)}, (l.map (·.1)).Nodup → (k, v) ∈ l → lookup k l = some v
  | [], _, h => by simp at h
  | (a, b) :: rest, hn, h => by
    simp only [List.map_cons, List.nodup_cons] at hn
    simp only [lookup]
    rcases List.mem_cons.1 h with h | h
    · cases h; simp
    · have hne : a ≠ k := by
        intro hak
        subst hak
        exact hn.1 (List.mem_map.2 ⟨(a, v), h, rfl⟩)
      simp only [hne, if_false]
      exact lookup_eq_some_of_mem hn.2 h

theorem lookup_eq_some_iff {α β : Type} [DecidableEq α] {k : α} {v : β} {l : List (α × β)}
    (hn : (l.map (·.1)).Nodup) : lookup k l = some v ↔ (k, v) ∈ l :=
  ⟨mem_of_lookup_eq_some, lookup_eq_some_of_mem hn⟩

/-- with distinct keys, `lookup` does not depend on the order of the table -/
theorem lookup_perm {α β : Type} [DecidableEq α] (k : α) {l₁ l₂ : List (α × β)}
    (hp : l₁.Perm l₂) (hn : (l₂.map (·.1)).Nodup) : lookup k l₁ = lookup k l₂ := by
  have hn₁ : (l₁.map (·.1)).Nodup := (List.Perm.nodup_iff (hp.map (·.1))).2 hn
  apply Option.ext
  intro v
  rw [lookup_eq_some_iff hn₁, lookup_eq_some_iff hn]
  exact hp.mem_iff

/-! ### chains around a sentinel -/

/-- `errors.New(msg)` is plain -/
theorem plain_other (m : String) : Plain (.other m) :=
  ⟨fun _ => rfl, rfl, by simp [text, markers]⟩

/-- two `%w` verbs / `errors.Join` with `errors.New(m)` as the right child -/
theorem Around.wrap2l_other {c : Cls} {pre mid post : String} {e : Err} {m : String}
    (h : Around c e) : Around c (.wrap2 pre mid post e (.other m)) :=
  .wrap2l h (plain_other m)

/-- two `%w` verbs / `errors.Join` with `errors.New(m)` as the left child -/
theorem Around.wrap2r_other {c : Cls} {pre mid post : String} {e : Err} {m : String}
    (h : Around c e) : Around c (.wrap2 pre mid post (.other m) e) :=
  .wrap2r h (plain_other m)

theorem errorsIs_of_around {c : Cls} {e : Err} (h : Around c e) (t : Cls) :
    errorsIs e t = (c == t) := by
  induction h with
  | base => rfl
  | wrap _ ih => simpa [errorsIs] using ih
  | embed _ ih => simpa [errorsIs] using ih
  | os => rfl
  | wrap2l _ hx ih => simp [errorsIs, ih, hx.noClass]
  | wrap2r _ hx ih => simp [errorsIs, ih, hx.noClass]

theorem findStatus_of_around {c : Cls} {e : Err} (h : Around c e) : findStatus e = none := by
  induction h with
  | base => rfl
  | wrap _ ih => simpa [findStatus] using ih
  | embed _ ih => simpa [findStatus] using ih
  | os => rfl
  | wrap2l _ hx ih => simp [findStatus, ih, hx.noStatus]
  | wrap2r _ hx ih => simp [findStatus, ih, hx.noStatus]

theorem statusCode_of_around {c : Cls} {e : Err} (h : Around c e) : statusCode e = .cUnknown := by
  simp [statusCode, findStatus_of_around h]

/-- the table loop over a chain around `c` is a lookup of `c`, whatever the order -/
theorem firstMatch_of_around {c : Cls} {e : Err} (h : Around c e) :
    ∀ tbl : List (Cls × Code), firstMatch e tbl = lookup c tbl
  | [] => rfl
  | (a, code) :: rest => by
    simp only [firstMatch, lookup, errorsIs_of_around h, firstMatch_of_around h rest]
    by_cases hac : a = c
    · subst hac; simp
    · have : ¬ c = a := fun h => hac h.symm
      simp [hac, this]

/-- any result of the table loop is an entry of the table -/
theorem firstMatch_mem {e : Err} {code : Code} :
    ∀ {tbl : List (Cls × Code)}, firstMatch e tbl = some code → ∃ c, (c, code) ∈ tbl
  | [], h => by simp [firstMatch] at h
  | (a, b) :: rest, h => by
    simp only [firstMatch] at h
    split at h
    · simp at h; subst h; exact ⟨a, by simp⟩
    · obtain ⟨c, hc⟩ := firstMatch_mem h
      exact ⟨c, List.mem_cons_of_mem _ hc⟩

/-- `GRPCStatusCode` of a chain around `c`, in any iteration order: the table's entry for `c`,
`Internal` if there is none.  Needs only that the table keys are distinct. -/
theorem grpcStatusCodeOrd_of_around
    (hnd : (errorsToCode.map (·.1)).Nodup)
    {c : Cls} {e : Err} (h : Around c e)
    {tbl : List (Cls × Code)} (hp : tbl.Perm errorsToCode) :
    grpcStatusCodeOrd tbl e = (lookup c errorsToCode).getD .cInternal := by
  have hl : lookup c tbl = lookup c errorsToCode := lookup_perm c hp hnd
  unfold grpcStatusCodeOrd
  simp only [statusCode_of_around h, ne_eq, not_true_eq_false, if_false,
    firstMatch_of_around h, hl]
  cases h with
  | base => cases hl' : lookup c errorsToCode <;> simp [hl']
  | wrap _ => rfl
  | embed _ => rfl
  | os => rfl
  | wrap2l _ _ => rfl
  | wrap2r _ _ => rfl

theorem grpcStatusCodeOrd_of_around_mem
    (hnd : (errorsToCode.map (·.1)).Nodup)
    {c : Cls} {code : Code} (hc : (c, code) ∈ errorsToCode) {e : Err} (h : Around c e)
    {tbl : List (Cls × Code)} (hp : tbl.Perm errorsToCode) :
    grpcStatusCodeOrd tbl e = code := by
  rw [grpcStatusCodeOrd_of_around hnd h hp, lookup_eq_some_of_mem hnd hc]
  rfl

theorem grpcWrapOrd_of_around {c : Cls} {e : Err} (h : Around c e) (tbl : List (Cls × Code)) :
    grpcWrapOrd tbl e = .status (grpcStatusCodeOrd tbl e) (text e) := by
  simp [grpcWrapOrd, statusCode_of_around h]

theorem statusCode_status (code : Code) (msg : Text) : statusCode (.status code msg) = code := rfl

theorem is_status (code : Code) (msg : Text) (t : Cls) :
    is (.status code msg) t = (match fromCode code with | some c => c == t | none => false) := by
  rfl

/-- `Is(GRPCWrap(err), t)` for a chain around a class that has a code -/
theorem is_grpcWrapOrd_of_around
    (hnd : (errorsToCode.map (·.1)).Nodup)
    (hcons : ∀ p ∈ errorsToCode, fromCode p.2 = some p.1)
    {c : Cls} {code : Code} (hc : (c, code) ∈ errorsToCode) {e : Err} (h : Around c e)
    {tbl : List (Cls × Code)} (hp : tbl.Perm errorsToCode) (t : Cls) :
    is (grpcWrapOrd tbl e) t = (t == c) := by
  rw [grpcWrapOrd_of_around h, grpcStatusCodeOrd_of_around_mem hnd hc h hp, is_status,
    hcons (c, code) hc]
  exact BEq.comm

/-! ### idempotence of GRPCWrap -/

/-- an error that carries no status gets a code different from `Unknown` -/
theorem grpcStatusCodeOrd_ne_unknown
    {tbl : List (Cls × Code)} (hnu : ∀ p ∈ tbl, p.2 ≠ .cUnknown)
    (hnu' : ∀ p ∈ errorsToCode, p.2 ≠ .cUnknown)
    {e : Err} (hs : statusCode e = .cUnknown) :
    grpcStatusCodeOrd tbl e ≠ .cUnknown := by
  unfold grpcStatusCodeOrd
  simp only [hs, ne_eq, not_true_eq_false, if_false]
  split
  · next code hcode =>
    split at hcode
    · exact hnu' _ (mem_of_lookup_eq_some hcode)
    · cases hcode
  · cases hfm : firstMatch e tbl with
    | none => simp
    | some code =>
      obtain ⟨c, hc⟩ := firstMatch_mem hfm
      exact hnu _ hc

theorem grpcWrapOrd_idem
    {tbl : List (Cls × Code)} (hnu : ∀ p ∈ tbl, p.2 ≠ .cUnknown)
    (hnu' : ∀ p ∈ errorsToCode, p.2 ≠ .cUnknown) (e : Err) :
    grpcWrapOrd tbl (grpcWrapOrd tbl e) = grpcWrapOrd tbl e := by
  by_cases hs : statusCode e = .cUnknown
  · have hne := grpcStatusCodeOrd_ne_unknown hnu hnu' hs
    have h1 : grpcWrapOrd tbl e = .status (grpcStatusCodeOrd tbl e) (text e) := by
      simp [grpcWrapOrd, hs]
    rw [h1]
    simp [grpcWrapOrd, statusCode_status, hne]
  · have h1 : grpcWrapOrd tbl e = e := by simp [grpcWrapOrd, hs]
    rw [h1, h1]

/-! ### marker splitting -/

theorem splitMarker_ne_nil : ∀ t : Text, splitMarker t ≠ []
  | [] => by simp [splitMarker]
  | .marker :: rest => by simp [splitMarker]
  | .txt s :: rest => by
    simp only [splitMarker]
    split <;> simp

/-- a leading plain segment is prepended to the first part; nothing else changes -/
theorem splitMarker_txt_cons (s : String) (t : Text) :
    ∃ p ps, splitMarker t = p :: ps ∧ splitMarker (.txt s :: t) = (s :: p) :: ps := by
  cases h : splitMarker t with
  | nil => exact absurd h (splitMarker_ne_nil t)
  | cons p ps => exact ⟨p, ps, rfl, by simp [splitMarker, h]⟩

theorem markers_nil : markers [] = 0 := rfl

theorem markers_marker_cons (t : Text) : markers (.marker :: t) = markers t + 1 := by
  simp [markers]

theorem markers_txt_cons (s : String) (t : Text) : markers (.txt s :: t) = markers t := by
  simp [markers]

theorem markers_append (a b : Text) : markers (a ++ b) = markers a + markers b := by
  simp [markers]

/-- a text without marker is one part -/
theorem splitMarker_of_markers_zero : ∀ {t : Text}, markers t = 0 → ∃ p, splitMarker t = [p]
  | [], _ => ⟨[], rfl⟩
  | .marker :: rest, h => by simp [markers_marker_cons] at h
  | .txt s :: rest, h => by
    rw [markers_txt_cons] at h
    obtain ⟨p, hp⟩ := splitMarker_of_markers_zero h
    exact ⟨s :: p, by simp [splitMarker, hp]⟩

theorem extractObject_of_split {e : Err} {a mid b : List String}
    (h : splitMarker (text e) = [a, mid, b]) : extractObject e = some (String.join mid) := by
  simp [extractObject, h]

theorem split_of_extractObject {e : Err} {j : String} (h : extractObject e = some j) :
    ∃ a mid b, splitMarker (text e) = [a, mid, b] ∧ String.join mid = j := by
  unfold extractObject at h
  split at h
  · next a mid b heq => exact ⟨a, mid, b, heq, by simpa using h⟩
  · cases h

/-- the `rpc error: …` prefix of a status error does not disturb extraction -/
theorem extractObject_status_text (code : Code) {e : Err} {j : String}
    (h : extractObject e = some j) : extractObject (.status code (text e)) = some j := by
  obtain ⟨a, mid, b, hs, hj⟩ := split_of_extractObject h
  obtain ⟨p, ps, h1, h2⟩ :=
    splitMarker_txt_cons ("rpc error: code = " ++ code.name ++ " desc = ") (text e)
  rw [hs] at h1
  cases h1
  rw [← hj]
  apply extractObject_of_split (a := ("rpc error: code = " ++ code.name ++ " desc = ") :: a) (b := b)
  simpa [text] using h2

theorem extractObject_grpcWrapOrd (tbl : List (Cls × Code)) {e : Err} {j : String}
    (h : extractObject e = some j) : extractObject (grpcWrapOrd tbl e) = some j := by
  unfold grpcWrapOrd
  split
  · exact h
  · exact extractObject_status_text _ h

theorem string_join_singleton (j : String) : String.join [j] = j := by simp [String.join]

theorem splitMarker_embed (j : String) {t : Text} (hm : markers t = 0) :
    ∃ p, splitMarker ([.marker, .txt j, .marker, .txt ": "] ++ t) = [[], [j], p] := by
  obtain ⟨p, hp⟩ := splitMarker_of_markers_zero hm
  exact ⟨": " :: p, by simp [splitMarker, hp]⟩

theorem extractObject_embed {e : Err} (hm : markers (text e) = 0) (j : String) :
    extractObject (.embed j e) = some j := by
  obtain ⟨p, hp⟩ := splitMarker_embed j hm
  have := extractObject_of_split (e := .embed j e) (by simpa [text] using hp)
  simpa [string_join_singleton] using this

theorem extractObject_wrap_embed {e : Err} (hm : markers (text e) = 0) (j pre post : String) :
    extractObject (.wrap pre post (.embed j e)) = some j := by
  have hm' : markers (text e ++ [.txt post]) = 0 := by
    rw [markers_append, hm, markers_txt_cons, markers_nil]
  obtain ⟨p, hp⟩ := splitMarker_embed j hm'
  have hsp : splitMarker (text (.wrap pre post (.embed j e))) = [[pre], [j], p] := by
    have : text (.wrap pre post (.embed j e))
        = .txt pre :: ([.marker, .txt j, .marker, .txt ": "] ++ (text e ++ [.txt post])) := by
      simp [text]
    rw [this]
    simp only [splitMarker, hp]
  have := extractObject_of_split hsp
  simpa [string_join_singleton] using this

theorem markers_wrap_embed {e : Err} (hm : markers (text e) = 0) (j pre post : String) :
    markers (text (.wrap pre post (.embed j e))) = 2 := by
  simp only [text, List.cons_append, List.nil_append, markers_txt_cons, markers_marker_cons,
    markers_append, hm, markers_nil]

end Errs
