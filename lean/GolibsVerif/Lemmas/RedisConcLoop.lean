import GolibsVerif.Lemmas.RedisConc
/-! The loop path of PutMany along a whole (interleaved) run: the `Lin` events attributed to the
client are exactly one completed Put per record, in the order of the records
(helpers for `C02Redis.putmany_loop_run`; `clientOf`, `threadOf`, `putEvs` are part of its statement). -/
namespace RedisConc
open Kv Lin

/-- the client an event of the concurrent model belongs to (`none` for the clock) -/
def clientOf : RedisConc.Ev → Option Nat
  | .call t _ => some t
  | .cmd t => some t
  | .ret t _ => some t
  | .tick _ => none

/-- the thread a `Lin` event belongs to -/
def threadOf : Lin.Ev LOp Out → Nat
  | .inv t _ => t
  | .lin t => t
  | .ret t _ => t

/-- one completed Put (invocation, atomic step, response with the version written) per record -/
def putEvs (t : Nat) : List ((String × String × Option Nat) × Nat) → List (Lin.Ev LOp Out)
  | [] => []
  | ((k, v, e), ver) :: xs => .inv t (.op (.put k v e)) :: .lin t :: .ret t (.okVer ver) :: putEvs t xs

/-- one command of the PutMany loop: one SET = one complete Put -/
theorem cmdStep_putLoop {s : St} {t : Nat} {k v : String} {e : Option Nat}
    {rest : List (String × String × Option Nat)} (hp : s.pc[t]? = some (.putLoop ((k, v, e) :: rest))) :
    cmdStep s t = some ({ s with srv := (s.psrv.setRec s.now k v e).1, watch := touch s.watch [rKey k] }.setPc t (loopNext rest),
      [.inv t (.op (.put k v e)), .lin t, .ret t (.okVer s.srv.nextVer)]) := by
  unfold cmdStep
  rw [hp]
  rfl

theorem loopNext_eq (rest : List (String × String × Option Nat)) :
    loopNext rest = if rest = [] then .loopDone else .putLoop rest := by
  cases rest <;> simp [loopNext]

theorem getElem?_set_other {pc : List Pc} {t t' : Nat} (p : Pc) (h : t' ≠ t) : (pc.set t' p)[t]? = pc[t]? :=
  List.getElem?_set_ne h

/-- an event of another client, or of the clock, neither moves client t nor emits an event of thread t -/
theorem step_other {s s' : St} {e : RedisConc.Ev} {l : List (Lin.Ev LOp Out)} {t : Nat}
    (h : step s e = some (s', l)) (hc : clientOf e ≠ some t) (hlt : t < s.pc.length) :
    s'.pc[t]? = s.pc[t]? ∧ ∀ x ∈ l, threadOf x ≠ t := by
  cases e with
  | call t' op =>
    have hne : t' ≠ t := by intro h'; exact hc (by rw [h']; rfl)
    simp only [RedisConc.step] at h
    split at h
    · rename_i p hp he
      simp only [Option.some.injEq, Prod.mk.injEq] at h; obtain ⟨rfl, rfl⟩ := h
      refine ⟨getElem?_set_other _ hne, ?_⟩
      rcases entry_opOf he with ⟨_, hev⟩ | ⟨rs, _, hev⟩
      · rw [hev]; intro x hx; simp only [List.mem_singleton] at hx; subst hx; exact hne
      · rw [hev]; intro x hx; cases hx
    · cases h
  | cmd t' =>
    have hne : t' ≠ t := by intro h'; exact hc (by rw [h']; rfl)
    simp only [RedisConc.step] at h
    obtain ⟨p, hp, hcase⟩ := cmdStep_weak h
    rcases hcase with ⟨rfl, _, r, hpc⟩ | ⟨rfl, _, op, p', hpc, _, _⟩ | ⟨k, v, e, rest, _, rfl, _, hpc⟩
    · refine ⟨by rw [hpc]; exact getElem?_set_other _ hne, ?_⟩
      intro x hx; simp only [List.mem_singleton] at hx; subst hx; exact hne
    · refine ⟨by rw [hpc]; exact getElem?_set_other _ hne, ?_⟩
      intro x hx; cases hx
    · refine ⟨by rw [hpc]; exact getElem?_set_other _ hne, ?_⟩
      intro x hx
      simp only [List.mem_cons, List.not_mem_nil, or_false] at hx
      rcases hx with rfl | rfl | rfl <;> exact hne
  | ret t' r =>
    have hne : t' ≠ t := by intro h'; exact hc (by rw [h']; rfl)
    simp only [RedisConc.step] at h
    split at h
    · split at h
      · simp only [Option.some.injEq, Prod.mk.injEq] at h; obtain ⟨rfl, rfl⟩ := h
        refine ⟨getElem?_set_other _ hne, ?_⟩
        intro x hx; simp only [List.mem_singleton] at hx; subst hx; exact hne
      · cases h
    · split at h
      · simp only [Option.some.injEq, Prod.mk.injEq] at h; obtain ⟨rfl, rfl⟩ := h
        exact ⟨getElem?_set_other _ hne, fun x hx => by cases hx⟩
      · cases h
    · cases h
  | tick d =>
    obtain ⟨_, rfl, rfl⟩ := tick_shape h
    refine ⟨rfl, ?_⟩
    have hne : s.pc.length ≠ t := by omega
    intro x hx
    simp only [List.mem_cons, List.not_mem_nil, or_false] at hx
    rcases hx with rfl | rfl | rfl <;> exact hne

theorem filter_other (t : Nat) (l : List (Lin.Ev LOp Out)) (h : ∀ x ∈ l, threadOf x ≠ t) :
    l.filter (fun x => threadOf x == t) = [] := by
  rw [List.filter_eq_nil_iff]
  intro x hx
  simpa using h x hx

/-- a client in the PutMany loop with records `rs` still to be SET, along any run in which it only
issues commands (no call, no return) and issues exactly `rs.length` of them: its `Lin` events are one
completed Put per record, in order, and it ends at `loopDone` -/
theorem loop_run (t : Nat) : ∀ (es : List RedisConc.Ev) (s s' : St) (ls : List (Lin.Ev LOp Out))
    (rs : List (String × String × Option Nat)),
    s.pc[t]? = some (loopNext rs) →
    (∀ e ∈ es, clientOf e = some t → e = .cmd t) →
    es.count (.cmd t) = rs.length →
    runL s es = some (s', ls) →
    ∃ vers : List Nat, vers.length = rs.length ∧
      ls.filter (fun x => threadOf x == t) = putEvs t (rs.zip vers) ∧ s'.pc[t]? = some .loopDone := by
  intro es
  induction es with
  | nil =>
    intro s s' ls rs hp _ hcnt h
    simp only [runL, Option.some.injEq, Prod.mk.injEq] at h
    obtain ⟨rfl, rfl⟩ := h
    cases rs with
    | nil => exact ⟨[], rfl, rfl, hp⟩
    | cons a rs => simp at hcnt
  | cons e es ih =>
    intro s s' ls rs hp hcl hcnt h
    obtain ⟨s1, l, ls', hst, hr, rfl⟩ := runL_cons h
    have hlt : t < s.pc.length := (List.getElem?_eq_some_iff.mp hp).1
    have hcl' : ∀ e ∈ es, clientOf e = some t → e = .cmd t := fun e he => hcl e (List.mem_cons_of_mem _ he)
    by_cases hc : clientOf e = some t
    · have he := hcl e List.mem_cons_self hc
      subst he
      simp only [RedisConc.step] at hst
      cases rs with
      | nil =>
        simp only [loopNext] at hp
        simp [cmdStep, hp] at hst
      | cons a rest =>
        obtain ⟨k, v, e⟩ := a
        simp only [loopNext] at hp
        rw [cmdStep_putLoop hp] at hst
        simp only [Option.some.injEq, Prod.mk.injEq] at hst
        obtain ⟨rfl, rfl⟩ := hst
        have hp1 : ({ s with srv := (s.psrv.setRec s.now k v e).1, watch := touch s.watch [rKey k] }.setPc t (loopNext rest)).pc[t]?
            = some (loopNext rest) := by
          simp [St.setPc, hlt]
        have hcnt1 : es.count (.cmd t) = rest.length := by
          simp only [List.count_cons_self, List.length_cons] at hcnt
          omega
        obtain ⟨vers, hlen, hev, hfin⟩ := ih _ _ _ rest hp1 hcl' hcnt1 hr
        refine ⟨s.srv.nextVer :: vers, by simp [hlen], ?_, hfin⟩
        simp only [List.filter_append, hev, List.zip_cons_cons, putEvs]
        simp [List.filter, threadOf]
    · obtain ⟨hpc, hoth⟩ := step_other hst hc hlt
      have hne : e ≠ .cmd t := by intro h'; subst h'; exact hc rfl
      have hcnt1 : es.count (.cmd t) = rs.length := by
        rw [List.count_cons] at hcnt
        have : (e == Ev.cmd t) = false := by simpa using hne
        simpa [this] using hcnt
      obtain ⟨vers, hlen, hev, hfin⟩ := ih _ _ _ rs (by rw [hpc]; exact hp) hcl' hcnt1 hr
      refine ⟨vers, hlen, ?_, hfin⟩
      rw [List.filter_append, filter_other t l hoth, hev]
      rfl

end RedisConc
