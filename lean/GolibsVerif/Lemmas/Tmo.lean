import GolibsVerif.Model.Tmo
