import GolibsVerif.Model.Tmo
import GolibsVerif.Lemmas.TmoRun
/-
Heap-level forms of the C12 theorems, for any heap satisfying the run invariant `Heap.Inv`.
(Structure: TmoBase → TmoInv → TmoSift → TmoHeapOps → TmoRun → this file.)
-/
namespace Tmo

/-- the root of an ordered heap is a minimum -/
theorem root_min {h : Heap} (O : h.Ordered) : ∀ i, i < h.arr.length → h.fireAt 0 ≤ h.fireAt i := by
  intro i
  induction i using Nat.strongRecOn with
  | _ i ih =>
    intro hi
    by_cases h0 : i = 0
    · subst h0; exact Nat.le_refl _
    · have a := ih ((i - 1) / 2) (by omega) (by omega)
      have b := O i (by omega) hi
      omega

theorem step_undef {h : Heap} (I : h.Inv) (op : Op) (e : (h.step op).2 = .undefined) :
    ∃ id, op = .cancel id ∧ h.fut.length ≤ id := by
  rcases step_cases I op with ⟨t, h', _, e', _⟩ | ⟨id, h', _, _, e', _⟩ | ⟨id, o, _, e'⟩ |
    ⟨id, h', _, _, e', _⟩ | ⟨_, e'⟩ | ⟨_, e'⟩ <;> rw [e'] at e
  · cases e
  · cases e
  · refine ⟨id, o, ?_⟩
    dsimp only at e
    split at e
    · cases e
    · omega
  · simp [popOut] at e
  · cases e
  · cases e

theorem step_fut_length {h : Heap} (I : h.Inv) (op : Op) :
    (h.step op).1.fut.length = h.fut.length + (match op with | .add _ => 1 | _ => 0) := by
  rcases step_cases I op with ⟨t, h', o, e', _, _, d⟩ | ⟨id, h', o, _, e', _, _, d⟩ | ⟨id, o, _, e'⟩ |
    ⟨id, h', o, _, e', _, _, d⟩ | ⟨o, e'⟩ | ⟨o, e'⟩ <;> rw [e']
  · subst o; exact fut_length_of_data_append d
  · subst o; exact clearF_fut_length h id d
  · subst o; rfl
  · show h'.fut.length = _
    rw [Heap.fut_length_congr d]
    rcases o with rfl | ⟨now, rfl, _⟩ <;> rfl
  · obtain ⟨now, rfl⟩ := o; rfl
  · rcases o with rfl | ⟨now, rfl⟩ <;> rfl

/-- Cancel removes exactly that future -/
theorem cancel_exact {h : Heap} (I : h.Inv) (id : Nat) :
    ((h.step (.cancel id)).1.pending.Perm (h.pending.filter (·.1 ≠ id))) ∧
    (∀ j, j ≠ id → ((h.step (.cancel id)).1.get j).map (fun f => (f.fireT, f.hasF)) =
      (h.get j).map (fun f => (f.fireT, f.hasF))) ∧
    (id ∉ h.arr → (h.step (.cancel id)).1 = h) := by
  by_cases hid : id ∈ h.arr
  · obtain ⟨h', e, I', p, d⟩ := cancel_in I hid
    rw [e]
    refine ⟨?_, ?_, fun c => absurd hid c⟩
    · show h'.pending.Perm _
      have nd : (id :: h'.arr).Nodup := p.nodup_iff.2 I.1.2.2.1
      have k : ∀ x, h'.key x = h.key x := by
        intro x
        rw [Heap.key_congr d, Heap.key_upd _ _ _ _ (by intro f; rfl)]
      have e1 : h'.pending = h'.arr.map fun x => (x, h.key x) := by
        rw [Heap.pending_eq]; apply List.map_congr_left; intro x _; rw [k]
      have e2 : h.pending.filter (·.1 ≠ id) = (h.arr.filter (· ≠ id)).map fun x => (x, h.key x) := by
        rw [Heap.pending_eq, List.filter_map]; rfl
      rw [e1, e2]
      apply List.Perm.map
      have p2 := p.filter (· ≠ id)
      have f1 : (id :: h'.arr).filter (· ≠ id) = h'.arr := by
        rw [List.filter_cons_of_neg (by simp)]
        apply List.filter_eq_self.2
        intro a ha
        have : a ≠ id := by intro c; subst c; exact (List.nodup_cons.1 nd).1 ha
        simpa using this
      rw [f1] at p2; exact p2
    · intro j hj
      show (h'.get j).map _ = _
      rw [Heap.get_congr d, Heap.get_upd, if_neg hj]
  · rw [cancel_out I.1 hid]
    refine ⟨?_, fun _ _ => rfl, fun _ => rfl⟩
    show h.pending.Perm _
    have : h.pending.filter (·.1 ≠ id) = h.pending := by
      apply List.filter_eq_self.2
      intro a ha
      rw [Heap.pending_eq] at ha
      obtain ⟨x, hx, rfl⟩ := List.mem_map.1 ha
      have : x ≠ id := by intro c; subst c; exact hid hx
      simpa using this
    rw [this]

/-- add inserts exactly one new pending future -/
theorem add_exact {h : Heap} (I : h.Inv) (t : Nat) :
    (h.step (.add t)).2 = .id h.fut.length ∧
    (h.step (.add t)).1.pending.Perm ((h.fut.length, t) :: h.pending) := by
  obtain ⟨h', e, I', p, d⟩ := add_spec I t
  rw [e]
  refine ⟨rfl, ?_⟩
  show h'.pending.Perm _
  have H5 := I.1.2.2.2.2
  have d' : h'.data = (h.pushRaw t).1.data := by rw [d, Heap.pushRaw_data]
  have k : ∀ x, h'.key x = (h.pushRaw t).1.key x := fun x => Heap.key_congr d' x
  have e1 : h'.pending = h'.arr.map fun x => (x, (h.pushRaw t).1.key x) := by
    rw [Heap.pending_eq]; apply List.map_congr_left; intro x _; rw [k]
  rw [e1]
  refine (p.map _).trans ?_
  rw [List.map_append, List.map_cons, List.map_nil, Heap.pushRaw_key_new h t H5]
  refine (List.perm_append_singleton _ _).trans ?_
  apply List.Perm.cons
  rw [Heap.pending_eq]
  apply List.Perm.of_eq
  apply List.map_congr_left
  intro x hx
  have : x ≠ h.fut.length := by have := I.1.2.2.2.1 x hx; omega
  rw [Heap.pushRaw_key h t H5 this]

/-- the watcher never starts a future early, and starts the earliest one -/
theorem never_early_h {h : Heap} (I : h.Inv) (now id : Nat) (st : Bool)
    (e : (h.step (.popIfDue now)).2 = .popped id st) :
    (∃ f, h.get id = some f ∧ f.fireT ≤ now ∧ f.hasF = true ∧ st = true ∧ id ∈ h.arr ∧
      ∀ p ∈ h.pending, f.fireT ≤ p.2) ∧
    id ∉ (h.step (.popIfDue now)).1.arr := by
  rcases step_cases I (.popIfDue now) with ⟨t, h', o, _⟩ | ⟨id', h', o, _⟩ | ⟨id', o, _⟩ |
    ⟨id', h', o, hd, e', I', p, d⟩ | ⟨_, e'⟩ | ⟨_, e'⟩
  · cases o
  · cases o
  · cases o
  · rw [e'] at e ⊢
    simp only [popOut, Out.popped.injEq] at e
    obtain ⟨rfl, est⟩ := e
    have due : h.key id' ≤ now := by
      rcases o with o | ⟨now', o, due⟩
      · cases o
      · cases o; exact due
    have mem : id' ∈ h.arr := p.mem_iff.1 List.mem_cons_self
    have nd : (id' :: h'.arr).Nodup := p.nodup_iff.2 I.1.2.2.1
    have hf := I.2.2 id' mem
    cases g : h.get id' with
    | none => rw [g] at hf; cases hf
    | some f =>
      rw [g] at hf est
      have hF : f.hasF = true := by simpa using hf
      have kf : h.key id' = f.fireT := by unfold Heap.key; rw [g]; rfl
      refine ⟨⟨f, rfl, by omega, hF, ?_, mem, ?_⟩, (List.nodup_cons.1 nd).1⟩
      · rw [← est]; simpa using hF
      · intro q hq
        rw [Heap.pending_eq] at hq
        obtain ⟨x, hx, rfl⟩ := List.mem_map.1 hq
        obtain ⟨i, hi, rfl⟩ := List.mem_iff_getElem.1 hx
        have r := root_min I.2.1 i hi
        rw [Heap.fireAt_eq h i hi, Heap.fireAt_eq h 0 (by omega)] at r
        have h0 : h.arr[0]'(by omega) = id' := by
          have hd' := hd
          rw [List.head?_eq_getElem?, List.getElem?_eq_getElem (by omega)] at hd'
          exact Option.some.inj hd'
        rw [h0, kf] at r
        exact r
  · rw [e'] at e; cases e
  · rw [e'] at e; cases e

end Tmo
