import GolibsVerif.Lemmas.BlkInv
/-! `initAvailable`: the zero bits of all headers are exactly the non-allocated indices. -/
namespace Blk

theorem countP_range_mul (f : Nat → Bool) (m : Nat) : ∀ n : Nat,
    (List.range (n * m)).countP f =
      ((List.range n).map fun s => (List.range m).countP fun r => f (s * m + r)).sum
  | 0 => by simp
  | n + 1 => by
    rw [Nat.succ_mul, List.range_add, List.countP_append, countP_range_mul f m n, List.range_succ,
      List.map_append, List.sum_append_nat, List.countP_map]
    simp [Function.comp_def]

theorem take_drop_eq_map (l : List Nat) (a n : Nat) (h : a + n ≤ l.length) :
    (l.drop a).take n = (List.range n).map fun p => l.getD (a + p) 0 := by
  apply List.ext_getElem?
  intro i
  simp only [List.getElem?_take, List.getElem?_drop, List.getElem?_map,
    List.getD_eq_getElem?_getD]
  by_cases hi : i < n
  · have : a + i < l.length := by omega
    simp [hi, List.getElem?_eq_getElem this]
  · simp [hi]

theorem zeroBits_eq (v : Nat) : zeroBits v = (List.range 8).countP fun j => v &&& (1 <<< j) == 0 := by
  rw [zeroBits, List.countP_eq_length_filter]

theorem countFree_eq (b : B) (hfit : b.segs * b.segmSize ≤ b.mem.length) :
    countFree b.bs b.segs b.mem = (List.range b.count).countP fun i => !b.isAlloc i := by
  rw [B.count_eq, countP_range_mul, countFree]
  congr 1
  apply List.map_congr_left
  intro s hs
  have hs' : s < b.segs := List.mem_range.mp hs
  have hin : s * b.segmSize + b.bs ≤ b.mem.length := by
    have := mul_lt_of_lt (Z := b.segmSize) hs' (Nat.le_refl _)
    have := b.bs_le_segm
    omega
  rw [← B.segmSize_eq, take_drop_eq_map _ _ _ hin, Nat.mul_comm 8 b.bs, countP_range_mul, List.map_map]
  congr 1
  apply List.map_congr_left
  intro p hp
  have hp' : p < b.bs := List.mem_range.mp hp
  simp only [Function.comp_def, zeroBits_eq]
  apply List.countP_congr
  intro j hj
  have hj' : j < 8 := List.mem_range.mp hj
  rw [← Nat.add_assoc, Nat.mul_comm b.bs 8, B.isAlloc_coord b hp' hj', B.hb]
  simp

theorem countFree_add_alloc (b : B) (hfit : b.segs * b.segmSize ≤ b.mem.length) :
    countFree b.bs b.segs b.mem + ((List.range b.count).filter b.isAlloc).length = b.count := by
  rw [countFree_eq b hfit, ← List.countP_eq_length_filter]
  have := List.length_eq_countP_add_countP (l := List.range b.count) b.isAlloc
  simp only [List.length_range] at this
  have e : (List.range b.count).countP (fun i => !b.isAlloc i) =
      (List.range b.count).countP (fun a => ¬ b.isAlloc a = true) := by
    apply List.countP_congr; intro a _; simp
  omega

end Blk
