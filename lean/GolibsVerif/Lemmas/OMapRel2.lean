import GolibsVerif.Lemmas.OMapRel
/- Add and Remove preserve the refinement relation. -/
set_option linter.unusedSimpArgs false
namespace OMap

theorem live_append (s : S) (e : SEntry) (he : e.alive = true) (ns : Nat) :
    ({ s with log := s.log ++ [e], nextStamp := ns } : S).live = s.live ++ [e] := by
  simp [S.live, List.filter_append, he]

theorem step_add {m : M} {s : S} (h : Sim m s) (k v : Nat) :
    ∃ m', m.stepCore false (.add k v) = some (m', (s.step (.add k v)).2) ∧
      Sim m' (s.step (.add k v)).1 := by
  simp only [M.stepCore, S.step]
  rw [h.lookup_key]
  cases hf : s.live.find? (·.key == k) with
  | some e =>
    have hany : s.live.any (·.key == k) = true :=
      List.any_eq_true.mpr ⟨e, List.mem_of_find?_eq_some hf, by simpa using List.find?_some hf⟩
    simp only [Option.map_some, hany, if_true]
    exact ⟨m, rfl, h⟩
  | none =>
    have hnone : ∀ e ∈ s.live, e.key ≠ k := by
      intro e he; have := List.find?_eq_none.mp hf e he; simpa using this
    have hany : s.live.any (·.key == k) = false := by
      rw [Bool.eq_false_iff]; intro ht
      obtain ⟨e, he, hk⟩ := List.any_eq_true.mp ht
      exact hnone e he (by simpa using hk)
    obtain ⟨l, hl, hlid⟩ := h.cs.last_mem
    have hfl : findNode m.chain m.last = some l := by
      rw [← hlid]; exact findNode_of_mem_asc h.cs.asc hl
    have hlst : l.st = .last := (h.cs.last_state l hl).mpr hlid
    simp only [Option.map_none, hfl, hlst, hany, ne_eq, not_true_eq_false, if_false, Bool.false_eq_true]
    refine ⟨_, rfl, ?_⟩
    obtain ⟨hcs, hokl⟩ := h.cs.add k v
    have hn := h.nextId
    rw [← hn] at hcs hokl
    constructor
    · exact hcs
    · rfl
    · exact h.hasc
    · exact h.hlt
    · simp only [hokl, h.vals, List.map_append, List.map_cons, List.map_nil]
    · simp only [hokl, List.map_append, List.map_cons, List.map_nil]
      rw [List.nodup_append]
      refine ⟨h.keys, by simp, ?_⟩
      intro a ha b hb
      simp at hb; subst hb
      rw [← h.live] at ha
      simp only [List.map_map, List.mem_map, Function.comp] at ha
      obtain ⟨e, he, rfl⟩ := ha
      exact hnone e he
    · simp only [hn, h.stamp]
    · exact h.nextIt
    · rw [live_append s _ rfl, hokl, List.map_append, h.live]
      simp [trip, h.stamp]
    · exact h.handles
    · intro hd p pos hp hpos
      obtain ⟨h1, h2⟩ := h.itrel hd p pos hp hpos
      have h3 := h.ptr_le hp
      refine ⟨?_, by simp only [hn]; omega⟩
      intro t ht
      simp only [hokl, List.mem_append, List.mem_singleton] at ht
      rcases ht with ht | rfl
      · exact h1 t ht
      · simp; omega

theorem live_remove (s : S) (k : Nat) :
    ({ s with log := s.log.map fun e =>
        if e.alive && e.key == k then { e with alive := false } else e } : S).live =
      s.live.filter (fun e => e.key != k) := by
  simp only [S.live]
  induction s.log with
  | nil => rfl
  | cons e l ih =>
    simp only [List.map_cons, List.filter_cons]
    by_cases ha : e.alive = true <;> by_cases hk : e.key = k <;> simp [ha, hk] <;> simpa using ih

theorem filter_key_mid {a b : List (Nat × Nat × Nat)} {t : Nat × Nat × Nat}
    (hn : ((a ++ t :: b).map (·.2.1)).Nodup) :
    (a ++ t :: b).filter (·.2.1 != t.2.1) = a ++ b := by
  rw [List.map_append, List.map_cons, List.nodup_append] at hn
  obtain ⟨_, h2, h3⟩ := hn
  have h2' := List.nodup_cons.mp h2
  rw [List.filter_append, List.filter_cons]
  have ha : a.filter (·.2.1 != t.2.1) = a := by
    rw [List.filter_eq_self]; intro u hu
    have := h3 u.2.1 (List.mem_map_of_mem hu) t.2.1 (by simp)
    simpa using this
  have hb : b.filter (·.2.1 != t.2.1) = b := by
    rw [List.filter_eq_self]; intro u hu
    have : u.2.1 ≠ t.2.1 := by
      intro e; apply h2'.1; rw [← e]; exact List.mem_map_of_mem hu
    simpa using this
  simp [ha, hb]

theorem delete_ok_spec {m : M} {x : Node} {rc : Nat → Int} (hs : CS m.chain m.head m.last rc)
    (hnn : ∀ y, 0 ≤ rc y) (hx : x ∈ m.chain) (hok : x.st = .ok)
    (hkeys : ((okl m.chain).map (·.2.1)).Nodup) :
    ∃ m1 h c' hd', m.delete x.id = some (m1, h) ∧
      m1.setHead h = { m with chain := c', head := hd' } ∧
      CS c' hd' m.last rc ∧ okl c' = (okl m.chain).filter (·.2.1 != x.key) := by
  have hf := findNode_of_mem_asc hs.asc hx
  obtain ⟨pre, suf, hc, _, hpre⟩ := findNode_split hf
  have hs' := hs; rw [hc] at hs'
  have hsuf := asc_ne_suf hs'.asc
  have hst : x.st ≠ .last := by rw [hok]; simp
  have hokl : okl m.chain = okl pre ++ (x.id, x.key, x.val) :: okl suf := by
    rw [hc, okl_append, okl_cons_ok hok]
  have hfil : (okl m.chain).filter (·.2.1 != x.key) = okl pre ++ okl suf := by
    rw [hokl] at hkeys ⊢
    exact filter_key_mid hkeys
  have hrc := (forall_mid.mp hs'.refc).2.1
  by_cases h0 : x.refCnt = 0
  · obtain ⟨g, suf', rfl⟩ : ∃ g suf', suf = g :: suf' := by
      cases suf with
      | nil => exact absurd rfl (hs'.toStr.suf_ne_nil hst)
      | cons g s => exact ⟨g, s, rfl⟩
    refine ⟨_, _, pre ++ g :: suf', if pre = [] then g.id else m.head,
      delete_unlink hc hpre hsuf hst h0, ?_, ?_, ?_⟩
    · by_cases hp : pre = [] <;> simp [hp, M.setHead]
    · apply hs'.unlink hst
      · rw [← hrc]; exact h0
      · intro y _; rfl
      · intro hp; simp [hp]
      · intro hp; simp [hp]
    · rw [hfil, okl_append]
  · refine ⟨_, _, pre ++ { x with st := .deleted, val := 0 } :: suf, m.head,
      delete_mark hc hpre hsuf hst h0, by simp [M.setHead], ?_, ?_⟩
    · apply hs'.replace (n' := { x with st := .deleted, val := 0 }) rfl
      · simp [hok]
      · intro _; show 0 < x.refCnt
        have := hnn x.id; omega
      · exact hrc
      · intro y _; rfl
    · rw [hfil, okl_append, okl_cons_not (by simp)]

theorem step_remove {m : M} {s : S} (h : Sim m s) (k : Nat) :
    ∃ m', m.stepCore false (.remove k) = some (m', (s.step (.remove k)).2) ∧
      Sim m' (s.step (.remove k)).1 := by
  simp only [M.stepCore, S.step]
  rw [h.lookup_key]
  have hlive := live_remove s k
  cases hf : s.live.find? (·.key == k) with
  | none =>
    have hnone : ∀ e ∈ s.live, e.key ≠ k := by
      intro e he; have := List.find?_eq_none.mp hf e he; simpa using this
    have hsame : s.live.filter (fun e => e.key != k) = s.live := by
      rw [List.filter_eq_self]; intro e he; simpa using hnone e he
    rw [hsame] at hlive
    refine ⟨m, rfl, ?_⟩
    exact { h with live := by rw [hlive]; exact h.live }
  | some e =>
    have he := List.mem_of_find?_eq_some hf
    have hek : e.key = k := by simpa using List.find?_some hf
    obtain ⟨x, hx, hok, hid, hkey, _, _⟩ := h.node_of_live he
    have hnn : ∀ y, 0 ≤ rcOf m.its y := by intro y; simp [rcOf]
    obtain ⟨m1, hh, c', hd', hdel, hset, hcs, hokl⟩ := delete_ok_spec h.cs hnn hx hok h.keys
    rw [hkey, hek] at hokl
    simp only [Option.map_some, ← hid, hdel, hset]
    refine ⟨_, rfl, ?_⟩
    constructor
    · exact hcs
    · exact h.nextId
    · exact h.hasc
    · exact h.hlt
    · show m.vals.filter (·.1 != k) = _
      rw [hokl, h.vals, List.filter_map]; rfl
    · show ((okl c').map (·.2.1)).Nodup
      rw [hokl]
      have : ((okl m.chain).filter (·.2.1 != k)).map (·.2.1) =
          ((okl m.chain).map (·.2.1)).filter (· != k) := by rw [List.filter_map]; rfl
      rw [this]
      exact List.Pairwise.filter _ h.keys
    · exact h.stamp
    · exact h.nextIt
    · show (S.live _).map trip = okl c'
      rw [hlive, hokl, ← h.live, List.filter_map]; rfl
    · exact h.handles
    · intro hd p pos hp hpos
      obtain ⟨h1, h2⟩ := h.itrel hd p pos hp hpos
      refine ⟨?_, h2⟩
      intro t ht
      have : t ∈ okl c' := ht
      rw [hokl] at this
      exact h1 t (List.mem_filter.mp this).1

end OMap
