import GolibsVerif.Model.Ring
/-
Helper lemmas for property C14 (ring buffer refines bounded FIFO queue).
-/
namespace Ring

theorem mod_wrap {x n : Nat} (h : x < n + n) : x % n = if x < n then x else x - n := by
  split
  · exact Nat.mod_eq_of_lt ‹_›
  · rw [Nat.mod_eq_sub_mod (by omega)]; exact Nat.mod_eq_of_lt (by omega)

theorem getD_set_zero (buf : List Nat) (lo i : Nat) :
    (buf.set lo 0).getD i 0 = if lo = i then 0 else buf.getD i 0 := by
  simp only [List.getD_eq_getElem?_getD, List.getElem?_set]
  by_cases h : lo = i
  · subst h; by_cases h2 : lo < buf.length <;> simp [h2]
  · simp [h]

theorem getD_set_other (buf : List Nat) (lo i v : Nat) (h : lo ≠ i) :
    (buf.set lo v).getD i 0 = buf.getD i 0 := by
  simp [List.getD_eq_getElem?_getD, h]

theorem getD_set_self (buf : List Nat) (lo v : Nat) (h : lo < buf.length) :
    (buf.set lo v).getD lo 0 = v := by
  simp [List.getD_eq_getElem?_getD, h]

theorem fillZero_length (buf : List Nat) (lo cnt : Nat) :
    (fillZero buf lo cnt).length = buf.length := by
  induction cnt generalizing buf lo with
  | zero => rfl
  | succ c ih => simp [fillZero, ih]

theorem fillZero_getD (buf : List Nat) (lo cnt i : Nat) :
    (fillZero buf lo cnt).getD i 0 = if lo ≤ i ∧ i < lo + cnt then 0 else buf.getD i 0 := by
  induction cnt generalizing buf lo with
  | zero =>
    have : ¬ (lo ≤ i ∧ i < lo + 0) := by omega
    rw [if_neg this]; rfl
  | succ c ih =>
    simp only [fillZero, ih, getD_set_zero]
    by_cases h1 : lo = i
    · subst h1
      have : (lo ≤ lo ∧ lo < lo + (c + 1)) := by omega
      simp [this]
    · by_cases h2 : lo + 1 ≤ i ∧ i < lo + 1 + c
      · have : (lo ≤ i ∧ i < lo + (c + 1)) := by omega
        simp [h2, this]
      · have : ¬ (lo ≤ i ∧ i < lo + (c + 1)) := by omega
        simp [h1, h2, this]

theorem fillZero_one (buf : List Nat) (lo : Nat) : fillZero buf lo 1 = buf.set lo 0 := rfl

/-! ### toList -/

theorem toList_length (b : RB) : b.toList.length = b.len := by simp [RB.toList]

theorem toList_getElem (b : RB) (i : Nat) (h : i < b.toList.length) :
    b.toList[i] = b.buf.getD ((b.r + i) % b.n) 0 := by
  simp [RB.toList]

theorem len_lt (b : RB) (h : b.WF) : b.len < b.n := by
  unfold RB.WF at h; unfold RB.len; split <;> omega

theorem len_of_le (b : RB) (h : b.r ≤ b.w) : b.len = b.w - b.r := by
  unfold RB.len; rw [if_pos h]

theorem len_of_gt (b : RB) (h : b.w < b.r) : b.len = b.n - (b.r - b.w) := by
  unfold RB.len; rw [if_neg (by omega)]

theorem len_pos_ne (b : RB) (h : b.len > 0) : b.r ≠ b.w := by
  intro e; rw [len_of_le b (by omega)] at h; omega

/-- explicit (mod-free) description of the live window -/
def RB.liveX (b : RB) (i : Nat) : Prop :=
  (b.r ≤ b.w ∧ b.r ≤ i ∧ i < b.w) ∨ (b.w < b.r ∧ (b.r ≤ i ∨ i < b.w))

theorem live_iff (b : RB) (h : b.WF) (i : Nat) (hi : i < b.n) : b.live i ↔ b.liveX i := by
  unfold RB.WF at h
  unfold RB.live RB.liveX
  constructor
  · rintro ⟨j, hj, hji⟩
    have hl := len_lt b h
    rw [mod_wrap (by omega)] at hji
    unfold RB.len at hj hl
    split at hji <;> split at hj <;> omega
  · intro hx
    refine ⟨if b.r ≤ i then i - b.r else i + b.n - b.r, ?_, ?_⟩
    · unfold RB.len; split <;> split <;> omega
    · rw [mod_wrap (by split <;> omega)]
      split <;> split <;> omega

/-! ### one loop iteration: consume `cnt` elements from the front (no wrap inside the segment) -/

def RB.consume (b : RB) (cnt : Nat) : RB :=
  { b with buf := fillZero b.buf b.r cnt, r := if b.r + cnt = b.n then 0 else b.r + cnt }

theorem consume_n (b : RB) (cnt : Nat) : (b.consume cnt).n = b.n := by
  simp [RB.consume, RB.n, fillZero_length]

theorem consume_w (b : RB) (cnt : Nat) : (b.consume cnt).w = b.w := rfl

theorem consume_r (b : RB) (cnt : Nat) :
    (b.consume cnt).r = if b.r + cnt = b.n then 0 else b.r + cnt := rfl

theorem consume_buf (b : RB) (cnt : Nat) : (b.consume cnt).buf = fillZero b.buf b.r cnt := rfl

theorem consume_len (b : RB) (cnt : Nat) (hwf : b.WF) (h1 : cnt ≤ b.len) (h2 : b.r + cnt ≤ b.n) :
    (b.consume cnt).len = b.len - cnt := by
  unfold RB.WF at hwf
  unfold RB.len at *
  rw [consume_n, consume_w, consume_r]
  by_cases hrw : b.r ≤ b.w
  · simp only [hrw, if_true] at h1 ⊢
    have : ¬ b.r + cnt = b.n := by omega
    simp only [this, if_false]
    split <;> omega
  · simp only [hrw, if_false] at h1 ⊢
    by_cases he : b.r + cnt = b.n
    · simp only [he, if_true]; split <;> omega
    · simp only [he, if_false]; split <;> omega

theorem consume_WF (b : RB) (cnt : Nat) (hwf : b.WF) (h2 : b.r + cnt ≤ b.n) :
    (b.consume cnt).WF := by
  unfold RB.WF at *
  rw [consume_n, consume_w, consume_r]
  split <;> omega

theorem consume_Clean (b : RB) (cnt : Nat) (hwf : b.WF) (hc : b.Clean) (h1 : cnt ≤ b.len)
    (h2 : b.r + cnt ≤ b.n) : (b.consume cnt).Clean := by
  intro i hi hnl
  have hwf' := consume_WF b cnt hwf h2
  rw [live_iff _ hwf' i hi] at hnl
  rw [consume_n] at hi
  rw [consume_buf, fillZero_getD]
  split
  · rfl
  · rename_i hni
    apply hc i hi
    rw [live_iff _ hwf i hi]
    intro hl
    apply hnl
    unfold RB.liveX at *
    rw [consume_w, consume_r]
    unfold RB.WF at hwf
    unfold RB.len at h1
    split at h1 <;> split <;> omega

theorem consume_toList (b : RB) (cnt : Nat) (hwf : b.WF) (h1 : cnt ≤ b.len)
    (h2 : b.r + cnt ≤ b.n) : (b.consume cnt).toList = b.toList.drop cnt := by
  have hl := consume_len b cnt hwf h1 h2
  have hlt := len_lt b hwf
  apply List.ext_getElem
  · simp [toList_length, hl]
  · intro i hi1 hi2
    rw [toList_length, hl] at hi1
    rw [toList_getElem, List.getElem_drop, toList_getElem, consume_n, consume_buf, fillZero_getD,
      consume_r]
    unfold RB.WF at hwf
    have e1 : ((if b.r + cnt = b.n then 0 else b.r + cnt) + i) % b.n = (b.r + (cnt + i)) % b.n := by
      split
      · rename_i he
        have : b.r + (cnt + i) = i + b.n := by omega
        rw [this, Nat.add_mod_right, Nat.zero_add]
      · congr 1; omega
    rw [e1, mod_wrap (by omega)]
    have : ¬ (b.r ≤ (if b.r + (cnt + i) < b.n then b.r + (cnt + i) else b.r + (cnt + i) - b.n) ∧
        (if b.r + (cnt + i) < b.n then b.r + (cnt + i) else b.r + (cnt + i) - b.n) < b.r + cnt) := by
      split <;> omega
    rw [if_neg this]

theorem take_eq_toList_take (b : RB) (cnt : Nat) (h1 : cnt ≤ b.len)
    (h2 : b.r + cnt ≤ b.n) : (b.buf.drop b.r).take cnt = b.toList.take cnt := by
  apply List.ext_getElem
  · simp only [List.length_take, List.length_drop, toList_length]
    unfold RB.n at h2; omega
  · intro i hi1 hi2
    simp only [List.length_take, List.length_drop, toList_length] at hi1 hi2
    rw [List.getElem_take, List.getElem_take, List.getElem_drop, toList_getElem,
      Nat.mod_eq_of_lt (by omega)]
    unfold RB.n at h2
    simp [List.getD_eq_getElem?_getD, List.getElem?_eq_getElem (show b.r + i < b.buf.length by omega)]

theorem toList_nil_of_len (b : RB) (h : b.len = 0) : b.toList = [] := by
  apply List.eq_nil_of_length_eq_zero; rw [toList_length, h]

theorem consume_zero (b : RB) (hwf : b.WF) : b.consume 0 = b := by
  unfold RB.WF at hwf
  have : ¬ b.r = b.n := by omega
  simp [RB.consume, fillZero, this]

/-! ### Write -/

def RB.push (b : RB) (v : Nat) : RB :=
  { b with buf := b.buf.set b.w v, w := if b.w + 1 = b.n then 0 else b.w + 1 }

theorem push_n (b : RB) (v : Nat) : (b.push v).n = b.n := by simp [RB.push, RB.n]

theorem push_len (b : RB) (v : Nat) (hwf : b.WF) (hne : b.len ≠ b.cap) :
    (b.push v).len = b.len + 1 := by
  unfold RB.WF at hwf
  unfold RB.cap at hne
  unfold RB.len at *
  rw [push_n]
  simp only [RB.push]
  split at hne <;> split <;> split <;> omega

theorem push_WF (b : RB) (v : Nat) (hwf : b.WF) : (b.push v).WF := by
  unfold RB.WF at *
  rw [push_n]
  simp only [RB.push]
  split <;> omega

theorem push_Clean (b : RB) (v : Nat) (hwf : b.WF) (hc : b.Clean) (hne : b.len ≠ b.cap) :
    (b.push v).Clean := by
  intro i hi hnl
  have hwf' := push_WF b v hwf
  rw [live_iff _ hwf' i hi] at hnl
  rw [push_n] at hi
  unfold RB.WF at hwf
  unfold RB.cap RB.len at hne
  have hiw : b.w ≠ i := by
    intro e
    apply hnl
    unfold RB.liveX
    simp only [RB.push]
    split at hne <;> split <;> omega
  simp only [RB.push]
  rw [getD_set_other _ _ _ _ hiw]
  apply hc i hi
  rw [live_iff _ (by unfold RB.WF; exact hwf) i hi]
  intro hl
  apply hnl
  unfold RB.liveX at *
  simp only [RB.push]
  split at hne <;> split <;> omega

theorem push_toList (b : RB) (v : Nat) (hwf : b.WF) (hne : b.len ≠ b.cap) :
    (b.push v).toList = b.toList ++ [v] := by
  have hl := push_len b v hwf hne
  have hlt := len_lt b hwf
  apply List.ext_getElem
  · simp [toList_length, hl]
  · intro i hi1 hi2
    rw [toList_length, hl] at hi1
    rw [toList_getElem, push_n]
    unfold RB.WF at hwf
    have hr : (b.push v).r = b.r := rfl
    have hb : (b.push v).buf = b.buf.set b.w v := rfl
    rw [hr, hb, mod_wrap (by omega)]
    by_cases hi : i < b.len
    · rw [List.getElem_append_left (by rw [toList_length]; exact hi), toList_getElem,
        mod_wrap (by omega)]
      apply getD_set_other
      unfold RB.len at hi
      split at hi <;> split <;> omega
    · have hie : i = b.len := by omega
      subst hie
      rw [List.getElem_append_right (by rw [toList_length]; omega)]
      simp only [toList_length, Nat.sub_self, List.getElem_cons_zero]
      have : (if b.r + b.len < b.n then b.r + b.len else b.r + b.len - b.n) = b.w := by
        unfold RB.len; split <;> split <;> omega
      rw [this]
      exact getD_set_self _ _ _ (by unfold RB.n at hwf; omega)

/-! ### At / head -/

theorem toList_getD (b : RB) (hwf : b.WF) (i : Nat) (hi : i < b.len) :
    b.toList.getD i 0 = b.buf.getD (b.r + i - (if b.r + i ≥ b.n then b.n else 0)) 0 := by
  have hlt := len_lt b hwf
  unfold RB.WF at hwf
  rw [List.getD_eq_getElem?_getD, List.getElem?_eq_getElem (by rw [toList_length]; exact hi)]
  simp only [Option.getD_some]
  rw [toList_getElem, mod_wrap (by omega)]
  congr 1
  split <;> split <;> omega

/-! ### ReadN loop -/

/-- length of the contiguous segment starting at `r` -/
def RB.seg (b : RB) : Nat := (if b.r < b.w then b.w else b.n) - b.r

theorem seg_le_len (b : RB) (hwf : b.WF) (hl : b.len > 0) : b.seg ≤ b.len := by
  unfold RB.WF at hwf; unfold RB.seg; unfold RB.len at *
  split at hl <;> split <;> omega

theorem seg_le_n (b : RB) (hwf : b.WF) : b.r + b.seg ≤ b.n := by
  unfold RB.WF at hwf; unfold RB.seg
  split <;> omega

theorem readNLoop_done (fuel : Nat) (b : RB) (k : Nat) (acc : List Nat)
    (h : ¬ (k > 0 ∧ b.len > 0)) : RB.readNLoop fuel b k acc = some (acc, b) := by
  unfold RB.readNLoop; rw [if_neg h]

theorem readNLoop_succ (fuel : Nat) (b : RB) (k : Nat) (acc : List Nat)
    (h : k > 0 ∧ b.len > 0) (hwf : b.WF) :
    RB.readNLoop (fuel + 1) b k acc =
      RB.readNLoop fuel (b.consume (min k b.seg)) (k - min k b.seg)
        (acc ++ b.toList.take (min k b.seg)) := by
  have h1 : min k b.seg ≤ b.len := by have := seg_le_len b hwf h.2; omega
  have h2 : b.r + min k b.seg ≤ b.n := by have := seg_le_n b hwf; omega
  rw [← take_eq_toList_take b _ h1 h2]
  conv => lhs; unfold RB.readNLoop
  rw [if_pos h]
  rfl

/-- number of loop iterations ReadN still needs -/
def rmeas (b : RB) (k : Nat) : Nat :=
  if k = 0 ∨ b.len = 0 then 0 else if b.r < b.w then 1 else 2

theorem readNLoop_spec (fuel : Nat) : ∀ (b : RB) (k : Nat) (acc : List Nat),
    b.WF → b.Clean → rmeas b k < fuel →
    ∃ b', RB.readNLoop fuel b k acc = some (acc ++ b.toList.take k, b') ∧ b'.WF ∧ b'.Clean ∧
      b'.toList = b.toList.drop k ∧ b'.n = b.n := by
  induction fuel with
  | zero => intro b k acc _ _ h; omega
  | succ fuel ih =>
    intro b k acc hwf hc hm
    by_cases h : k > 0 ∧ b.len > 0
    · rw [readNLoop_succ fuel b k acc h hwf]
      have hs1 := seg_le_len b hwf h.2
      have hs2 := seg_le_n b hwf
      have h1 : min k b.seg ≤ b.len := by omega
      have h2 : b.r + min k b.seg ≤ b.n := by omega
      have hwf1 := consume_WF b _ hwf h2
      have hc1 := consume_Clean b _ hwf hc h1 h2
      have hl1 := consume_len b _ hwf h1 h2
      have ht1 := consume_toList b _ hwf h1 h2
      have hm1 : rmeas (b.consume (min k b.seg)) (k - min k b.seg) < fuel := by
        unfold rmeas at hm ⊢
        rw [hl1, consume_w, consume_r]
        have hk : ¬ (k = 0 ∨ b.len = 0) := by omega
        rw [if_neg hk] at hm
        unfold RB.WF at hwf
        have hne : b.r ≠ b.w := len_pos_ne b h.2
        by_cases hrw : b.r < b.w
        · have hlen : b.len = b.w - b.r := len_of_le b (by omega)
          have hseg : b.seg = b.w - b.r := by unfold RB.seg; rw [if_pos hrw]
          simp only [hseg, hlen] at hs1 hs2 h1 h2 hl1 h ⊢
          simp only [hrw, if_true] at hm
          have : (k - min k (b.w - b.r) = 0 ∨ b.w - b.r - min k (b.w - b.r) = 0) := by omega
          rw [if_pos this]; omega
        · have hlen : b.len = b.n - (b.r - b.w) := len_of_gt b (by omega)
          have hseg : b.seg = b.n - b.r := by unfold RB.seg; rw [if_neg hrw]
          simp only [hseg, hlen] at hs1 hs2 h1 h2 hl1 h ⊢
          simp only [hrw, if_false] at hm
          by_cases hk2 : k ≤ b.n - b.r
          · have : (k - min k (b.n - b.r) = 0 ∨
                b.n - (b.r - b.w) - min k (b.n - b.r) = 0) := by omega
            rw [if_pos this]; omega
          · have : b.r + min k (b.n - b.r) = b.n := by omega
            simp only [this, if_true]
            split
            · omega
            · split <;> omega
      obtain ⟨b', he, hwf', hc', ht', hn'⟩ := ih _ (k - min k b.seg)
        (acc ++ b.toList.take (min k b.seg)) hwf1 hc1 hm1
      refine ⟨b', ?_, hwf', hc', ?_, ?_⟩
      · rw [he, List.append_assoc, ht1]
        have hk : k = min k b.seg + (k - min k b.seg) := by omega
        conv => rhs; rw [hk, List.take_add]
      · rw [ht', ht1, List.drop_drop]
        congr 1; omega
      · rw [hn', consume_n]
    · rw [readNLoop_done (fuel + 1) b k acc h]
      refine ⟨b, ?_, hwf, hc, ?_, rfl⟩
      · by_cases hk : k = 0
        · subst hk; simp
        · have : b.len = 0 := by omega
          simp [toList_nil_of_len b this]
      · by_cases hk : k = 0
        · subst hk; simp
        · have : b.len = 0 := by omega
          simp [toList_nil_of_len b this]

theorem rmeas_lt (b : RB) (k : Nat) : rmeas b k < loopFuel := by
  unfold rmeas loopFuel; split
  · omega
  · split <;> omega

/-! ### Skip loop -/

/-- `n1` of one Skip iteration -/
def RB.sn1 (b : RB) (n : Int) : Nat := if n > (b.len : Int) then b.len else n.toNat

/-- `cnt` of one Skip iteration -/
def RB.scnt (b : RB) (n : Int) : Nat :=
  (if b.r + b.sn1 n ≥ b.n then b.n else b.r + b.sn1 n) - b.r

theorem sn1_eq (b : RB) (n : Int) : b.sn1 n = min n.toNat b.len := by
  unfold RB.sn1; split <;> omega

theorem scnt_le (b : RB) (n : Int) : b.scnt n ≤ b.sn1 n := by
  unfold RB.scnt; split <;> omega

theorem scnt_le_n (b : RB) (n : Int) (hwf : b.WF) : b.r + b.scnt n ≤ b.n := by
  unfold RB.WF at hwf; unfold RB.scnt; split <;> omega

theorem skipLoop_done (fuel : Nat) (b : RB) (n : Int) (res : Nat)
    (h : ¬ (n > 0 ∧ b.len > 0)) : RB.skipLoop fuel b n res = some (res, b) := by
  unfold RB.skipLoop; rw [if_neg h]

theorem skipLoop_succ (fuel : Nat) (b : RB) (n : Int) (res : Nat)
    (h : n > 0 ∧ b.len > 0) (hwf : b.WF) :
    RB.skipLoop (fuel + 1) b n res =
      RB.skipLoop fuel (b.consume (b.scnt n)) ((b.sn1 n : Int) - (b.scnt n : Nat)) (res + b.scnt n) := by
  conv => lhs; unfold RB.skipLoop
  rw [if_pos h]
  have hr : (if (if b.r + b.sn1 n ≥ b.n then b.n else b.r + b.sn1 n) = b.n then 0
      else (if b.r + b.sn1 n ≥ b.n then b.n else b.r + b.sn1 n)) =
      (if b.r + b.scnt n = b.n then 0 else b.r + b.scnt n) := by
    unfold RB.WF at hwf; unfold RB.scnt
    split <;> split <;> split <;> omega
  show RB.skipLoop fuel ⟨fillZero b.buf b.r (b.scnt n),
    (if (if b.r + b.sn1 n ≥ b.n then b.n else b.r + b.sn1 n) = b.n then 0
      else (if b.r + b.sn1 n ≥ b.n then b.n else b.r + b.sn1 n)), b.w⟩
    ((b.sn1 n : Int) - (b.scnt n : Nat)) (res + b.scnt n) = _
  rw [hr]
  rfl

def smeas (b : RB) (n : Int) : Nat :=
  if n ≤ 0 ∨ b.len = 0 then 0 else if b.r < b.w then 1 else 2

theorem skipLoop_spec (fuel : Nat) : ∀ (b : RB) (n : Int) (res : Nat),
    b.WF → b.Clean → smeas b n < fuel →
    ∃ b', RB.skipLoop fuel b n res = some (res + min n.toNat b.len, b') ∧ b'.WF ∧ b'.Clean ∧
      b'.toList = b.toList.drop (min n.toNat b.len) ∧ b'.n = b.n := by
  induction fuel with
  | zero => intro b n res _ _ h; omega
  | succ fuel ih =>
    intro b n res hwf hc hm
    by_cases h : n > 0 ∧ b.len > 0
    · rw [skipLoop_succ fuel b n res h hwf]
      have hs0 := sn1_eq b n
      have hs1 := scnt_le b n
      have h2 := scnt_le_n b n hwf
      have h1 : b.scnt n ≤ b.len := by omega
      have hwf1 := consume_WF b _ hwf h2
      have hc1 := consume_Clean b _ hwf hc h1 h2
      have hl1 := consume_len b _ hwf h1 h2
      have ht1 := consume_toList b _ hwf h1 h2
      have hm1 : smeas (b.consume (b.scnt n)) ((b.sn1 n : Int) - (b.scnt n : Nat)) < fuel := by
        unfold smeas at hm ⊢
        rw [hl1, consume_w, consume_r]
        have hk : ¬ (n ≤ 0 ∨ b.len = 0) := by omega
        rw [if_neg hk] at hm
        have hne : b.r ≠ b.w := len_pos_ne b h.2
        have hwf0 := hwf
        unfold RB.WF at hwf
        by_cases hrw : b.r < b.w
        · have hlen : b.len = b.w - b.r := len_of_le b (by omega)
          simp only [hrw, if_true] at hm
          have hcn : b.scnt n = b.sn1 n := by
            unfold RB.scnt; split <;> omega
          have : ((b.sn1 n : Int) - (b.scnt n : Nat) ≤ 0 ∨ b.len - b.scnt n = 0) := by omega
          rw [if_pos this]; omega
        · have hlen : b.len = b.n - (b.r - b.w) := len_of_gt b (by omega)
          simp only [hrw, if_false] at hm
          by_cases hk2 : b.r + b.sn1 n ≥ b.n
          · have hcn : b.scnt n = b.n - b.r := by
              unfold RB.scnt; rw [if_pos hk2]
            have : b.r + b.scnt n = b.n := by omega
            simp only [this, if_true]
            split
            · omega
            · split <;> omega
          · have hcn : b.scnt n = b.sn1 n := by
              unfold RB.scnt; rw [if_neg hk2]; omega
            have : ((b.sn1 n : Int) - (b.scnt n : Nat) ≤ 0 ∨ b.len - b.scnt n = 0) := by omega
            rw [if_pos this]; omega
      obtain ⟨b', he, hwf', hc', ht', hn'⟩ := ih _ ((b.sn1 n : Int) - (b.scnt n : Nat))
        (res + b.scnt n) hwf1 hc1 hm1
      have hsum : b.scnt n + min ((b.sn1 n : Int) - (b.scnt n : Nat)).toNat
          (b.consume (b.scnt n)).len = min n.toNat b.len := by
        rw [hl1]; omega
      refine ⟨b', ?_, hwf', hc', ?_, ?_⟩
      · rw [he, ← hsum, Nat.add_assoc]
      · rw [ht', ht1, List.drop_drop, hsum]
      · rw [hn', consume_n]
    · rw [skipLoop_done (fuel + 1) b n res h]
      have hz : min n.toNat b.len = 0 := by omega
      refine ⟨b, ?_, hwf, hc, ?_, rfl⟩
      · rw [hz]; rfl
      · rw [hz]; rfl

theorem smeas_lt (b : RB) (n : Int) : smeas b n < loopFuel := by
  unfold smeas loopFuel; split
  · omega
  · split <;> omega

/-! ### per-operation forms -/

theorem write_eq (b : RB) (v : Nat) :
    b.write v = if b.len = b.cap then none else some (b.push v) := rfl

theorem read_eq (b : RB) :
    b.read = if b.len = 0 then none else some (b.buf.getD b.r 0, b.consume 1) := rfl

theorem toList_cons (b : RB) (hwf : b.WF) (hl : 0 < b.len) :
    b.toList = b.buf.getD b.r 0 :: (b.consume 1).toList := by
  have h2 : b.r + 1 ≤ b.n := by unfold RB.WF at hwf; omega
  rw [consume_toList b 1 hwf hl h2]
  have hg := toList_getD b hwf 0 hl
  have hr : ¬ b.r + 0 ≥ b.n := by unfold RB.WF at hwf; omega
  rw [if_neg hr] at hg
  simp only [Nat.add_zero, Nat.sub_zero] at hg
  rw [← hg]
  have hlen := toList_length b
  cases hL : b.toList with
  | nil => rw [hL] at hlen; simp at hlen; omega
  | cons x xs => simp

theorem abs_eq (b b' : RB) (l : List Nat) (hn : b'.n = b.n) (ht : b'.toList = l) :
    b'.abs = { cap := b.cap, items := l } := by
  simp [RB.abs, RB.cap, hn, ht]

end Ring
