import GolibsVerif.Lemmas.OMapM
/-
The refinement relation between the I-model and the Spec, and its preservation by
Add / Remove / Get / Len.
-/
set_option linter.unusedSimpArgs false
namespace OMap

def trip (e : SEntry) : Nat × Nat × Nat := (e.stamp, e.key, e.val)

/-- reference counts = number of open iterators on the node -/
def rcOf (its : List (Nat × Nat)) : Nat → Int := fun y => (cnt its y : Int)

structure Sim (m : M) (s : S) : Prop where
  cs : CS m.chain m.head m.last (rcOf m.its)
  nextId : m.nextId = m.last + 1
  hasc : HAsc m.its
  hlt : ∀ h ∈ m.its.map (·.1), h < m.nextIt
  vals : m.vals = (okl m.chain).map (fun t => (t.2.1, t.1))
  keys : ((okl m.chain).map (·.2.1)).Nodup
  stamp : s.nextStamp = m.last
  nextIt : s.nextIt = m.nextIt
  live : s.live.map trip = okl m.chain
  handles : s.its.map (·.1) = m.its.map (·.1)
  itrel : ∀ h p pos, lookupIt m.its h = some p → lookupIt s.its h = some pos →
      (∀ t ∈ okl m.chain, (p ≤ t.1 ↔ pos ≤ t.1)) ∧ pos ≤ m.last

theorem okl_sorted {c : List Node} (ha : Asc c) : (okl c).Pairwise (fun a b => a.1 < b.1) := by
  unfold okl
  rw [List.pairwise_map]
  exact List.Pairwise.filter _ ha

theorem find_sorted {l : List (Nat × Nat × Nat)} (hs : l.Pairwise (fun a b => a.1 < b.1))
    {t : Nat × Nat × Nat} (ht : t ∈ l) : l.find? (fun u => decide (t.1 ≤ u.1)) = some t := by
  induction l with
  | nil => simp at ht
  | cons a l ih =>
    have hp := List.pairwise_cons.mp hs
    rw [List.find?_cons]
    rcases List.mem_cons.mp ht with rfl | ht
    · simp
    · have h1 := hp.1 t ht
      have : decide (t.1 ≤ a.1) = false := by simp; omega
      rw [this]; exact ih hp.2 ht

theorem find_congr {α : Type} {l : List α} {p q : α → Bool} (h : ∀ x ∈ l, p x = q x) :
    l.find? p = l.find? q := by
  induction l with
  | nil => rfl
  | cons a l ih =>
    rw [List.find?_cons, List.find?_cons, h a (by simp), ih (fun x hx => h x (by simp [hx]))]

theorem lookupKey_map (l : List (Nat × Nat × Nat)) (k : Nat) :
    lookupKey (l.map (fun t => (t.2.1, t.1))) k = (l.find? (fun t => t.2.1 == k)).map (·.1) := by
  unfold lookupKey
  rw [List.find?_map]
  simp [Function.comp_def]

theorem find_live_trip (l : List SEntry) (p : Nat × Nat × Nat → Bool) :
    (l.map trip).find? p = (l.find? (fun e => p (trip e))).map trip := by
  rw [List.find?_map]; rfl

namespace Sim
variable {m : M} {s : S}

theorem lookup_key (h : Sim m s) (k : Nat) :
    lookupKey m.vals k = (s.live.find? (·.key == k)).map (·.stamp) := by
  rw [h.vals, lookupKey_map, ← h.live, find_live_trip]
  simp [trip, Option.map_map, Function.comp_def]

/-- a live spec entry is an `.ok` node of the chain -/
theorem node_of_live (h : Sim m s) {e : SEntry} (he : e ∈ s.live) :
    ∃ x ∈ m.chain, x.st = .ok ∧ x.id = e.stamp ∧ x.key = e.key ∧ x.val = e.val ∧
      findNode m.chain e.stamp = some x := by
  have : trip e ∈ okl m.chain := by rw [← h.live]; exact List.mem_map_of_mem he
  obtain ⟨x, hx, hok, hex⟩ := mem_okl.mp this
  simp only [trip, Prod.mk.injEq] at hex
  refine ⟨x, hx, hok, hex.1.symm, hex.2.1.symm, hex.2.2.symm, ?_⟩
  rw [hex.1]; exact findNode_of_mem_asc h.cs.asc hx

theorem lookup_none_iff (h : Sim m s) (hd : Nat) :
    lookupIt m.its hd = none ↔ lookupIt s.its hd = none := by
  rw [lookupIt_eq_none_iff, lookupIt_eq_none_iff, h.handles]

theorem ptr_node (h : Sim m s) {hd p : Nat} (hl : lookupIt m.its hd = some p) :
    ∃ n, findNode m.chain p = some n := by
  apply findNode_of_mem
  apply h.cs.valid p
  have : 0 < cnt m.its p := cnt_pos_iff.mpr ⟨(hd, p), lookupIt_mem hl, rfl⟩
  simp only [rcOf]; omega

theorem ptr_le (h : Sim m s) {hd p : Nat} (hl : lookupIt m.its hd = some p) : p ≤ m.last := by
  obtain ⟨n, hn⟩ := h.ptr_node hl
  obtain ⟨h1, h2⟩ := findNode_mem hn
  rw [← h2]; exact h.cs.le_last n h1

theorem okl_lt_last (h : Sim m s) {t : Nat × Nat × Nat} (ht : t ∈ okl m.chain) : t.1 < m.last := by
  obtain ⟨x, hx, hok, rfl⟩ := mem_okl.mp ht
  have h1 := h.cs.le_last x hx
  have h2 := h.cs.last_state x hx
  rcases Nat.lt_or_ge x.id m.last with h3 | h3
  · exact h3
  · have : x.st = .last := h2.mpr (by omega)
    rw [hok] at this; simp at this

/-- in-flight form of the reference counts for the iterator `hd` -/
theorem rc_split (h : Sim m s) {hd p : Nat} (hl : lookupIt m.its hd = some p) :
    rcOf m.its = plus (rcOf (m.its.filter (·.1 != hd))) p := by
  funext y
  have := cnt_filter h.hasc hl y
  simp only [rcOf, plus]
  by_cases hy : y = p
  · subst hy; simp at this ⊢; omega
  · have hy' : ¬ p = y := fun e => hy e.symm
    simp [hy, hy'] at this ⊢; omega

theorem rc_join (h : Sim m s) {hd p : Nat} (hl : lookupIt m.its hd = some p) (q : Nat) :
    plus (rcOf (m.its.filter (·.1 != hd))) q = rcOf (setIt m.its hd q) := by
  funext y
  have h1 := cnt_filter h.hasc hl y
  have h2 := cnt_setIt (q := q) h.hasc hl y
  simp only [rcOf, plus]
  by_cases hy : y = q
  · subst hy; simp at h1 h2 ⊢; omega
  · have hy' : ¬ q = y := fun e => hy e.symm
    simp [hy, hy'] at h1 h2 ⊢; omega

end Sim

/-! ### Get, Len -/

theorem step_get {m : M} {s : S} (h : Sim m s) (k : Nat) :
    ∃ m', m.stepCore false (.get k) = some (m', (s.step (.get k)).2) ∧ Sim m' (s.step (.get k)).1 := by
  simp only [M.stepCore, S.step]
  rw [h.lookup_key]
  cases hf : s.live.find? (·.key == k) with
  | none => exact ⟨m, rfl, h⟩
  | some e =>
    obtain ⟨x, _, _, _, _, hv, hfn⟩ := h.node_of_live (List.mem_of_find?_eq_some hf)
    simp only [Option.map_some, hfn, hv]
    exact ⟨m, rfl, h⟩

theorem step_len {m : M} {s : S} (h : Sim m s) :
    ∃ m', m.stepCore false .len = some (m', (s.step .len).2) ∧ Sim m' (s.step .len).1 := by
  simp only [M.stepCore, S.step]
  refine ⟨m, ?_, h⟩
  have : m.vals.length = s.live.length := by
    rw [h.vals, List.length_map, ← h.live, List.length_map]
  rw [this]

end OMap
