import GolibsVerif.Lemmas.TmoPoolInv
/-
Lateness bound: when a future is pending, no token is in flight and no watcher is awake, every
idle-capped sleeper wakes no later than `idle` after the head's fire time.
-/
namespace Tmo.Pool

def NoTop (s : St) : Prop := ∀ (j : Nat) (g : Option Nat) (mis : Nat), s.threads[j]? ≠ some (.top g mis)

def Late (c : Cfg) (s : St) : Prop :=
  ∀ id f, headOf s.heap = some (id, f) → s.tokens = 0 → NoTop s →
    ∀ (j d m : Nat), s.threads[j]? = some (.sleeping d m true) → d ≤ f + c.idle

theorem Late.init (c : Cfg) : Late c St.init := by
  intro id f h; simp [St.init, headOf_nil] at h

theorem Late.ran {c : Cfg} {s : St} (h : Late c s) (f : Option Nat) : Late c (ranCb s f) := by
  cases f <;> exact h

theorem Late.add {c : Cfg} (hm : 1 ≤ c.maxWorkers) {s : St} (fireT : Nat) : Late c (addT c s fireT) := by
  unfold addT
  by_cases hw : s.watchers = 0
  · simp only [hw, if_true]
    intro id f _ _ hnt
    exfalso
    refine hnt s.threads.length none 0 ?_
    show (s.threads ++ [WPc.top none 0])[s.threads.length]? = _
    simp
  · simp only [hw, if_false]
    intro id f _ ht
    have : min (s.tokens + 1) c.maxWorkers = 0 := ht
    omega

theorem Late.cancel {c : Cfg} (hm : 1 ≤ c.maxWorkers) {s : St} (hI : Inv c s) (id : Nat) :
    Late c (cancelT c s id) := by
  unfold cancelT
  by_cases hw : s.watchers > 0
  · simp only [hw, if_true]
    intro a f _ ht
    have : min (s.tokens + 1) c.maxWorkers = 0 := ht
    omega
  · simp only [hw, if_false]
    have hnone : headOf s.heap = none := by
      cases hh : headOf s.heap with
      | none => rfl
      | some x => obtain ⟨a, b⟩ := x; have := hI.ne a b hh; omega
    intro a f hh
    have : headOf (s.heap.filter (·.1 != id)) = some (a, f) := hh
    rw [headOf_filter_of_none _ hnone] at this; cases this

theorem Late.section_out {c : Cfg} {s t : St} (hI : Inv c s) {i : Nat} {f : Option Nat} {mis : Nat}
    (hi : s.threads[i]? = some (.top f mis)) (ho : SecOut c s i (misNext f mis) t) : Late c t := by
  cases ho with
  | exitEmpty hh _ =>
    intro a b hab
    have : headOf s.heap = some (a, b) := hab
    rw [hh] at this; cases this
  | sleepIdle hh _ =>
    intro a b hab
    have : headOf s.heap = some (a, b) := hab
    rw [hh] at this; cases this
  | popSpawn id fireT id2 t2 hh hdue hh2 hdue2 hlt =>
    intro a b _ _ hnt
    exact (hnt i _ _ (get_set_self (get_append hi))).elim
  | pop id fireT hh hdue _ =>
    intro a b _ _ hnt
    exact (hnt i _ _ (get_set_self hi)).elim
  | exitBusy id fireT hh hnd hw hm1 =>
    intro a b hab _ _ j d m hj
    have hab' : headOf s.heap = some (a, b) := hab
    rw [hh] at hab'; cases hab'
    rcases set_get hj with ⟨_, hq⟩ | ⟨_, hj⟩
    · cases hq
    · have := hI.cap j d m hj; omega
  | sleepCapped id fireT hh hnd hw hm1 =>
    intro a b hab _ _ j d m hj
    have hab' : headOf s.heap = some (a, b) := hab
    rw [hh] at hab'; cases hab'
    rcases set_get hj with ⟨_, hq⟩ | ⟨_, hj⟩
    · cases hq; omega
    · have := hI.cap j d m hj; omega
  | sleepUncapped id fireT hh hnd hw =>
    intro a b hab _ _ j d m hj
    have hab' : headOf s.heap = some (a, b) := hab
    rw [hh] at hab'; cases hab'
    rcases set_get hj with ⟨_, hq⟩ | ⟨_, hj⟩
    · cases hq
    · have := hI.cap j d m hj; omega

theorem Late.step {c : Cfg} (hm : 1 ≤ c.maxWorkers) {s t : St} (hI : Inv c s) (hL : Late c s)
    (st : Step c s t) : Late c t := by
  cases st with
  | add fireT => exact Late.add hm fireT
  | cancel id _ => exact Late.cancel hm hI id
  | section_ i f mis hi =>
    have hi' : (ranCb s f).threads[i]? = some (.top f mis) := by cases f <;> exact hi
    have := Late.section_out (hI.ran f) hi' (secT_out c _ i _)
    cases f <;> exact this
  | timerWake i d mis cp hi hd =>
    intro a b _ _ hnt
    exact (hnt i _ _ (get_set_self hi)).elim
  | tokenWake i d mis cp hi _ =>
    intro a b _ _ hnt
    exact (hnt i _ _ (get_set_self hi)).elim
  | tick => exact hL

theorem Late.reach {c : Cfg} (hm : 1 ≤ c.maxWorkers) {s : St} (h : Reach c s) : Late c s := by
  induction h with
  | init => exact Late.init c
  | step hr st ih => exact ih.step hm (Inv.reach hm hr) st

end Tmo.Pool
