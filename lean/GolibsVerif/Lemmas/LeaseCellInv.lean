import GolibsVerif.Lemmas.LeaseCellRun
/-
`LeaseCell`: the invariants.

* `RecInv`  — idle: the record is not the Locker's own; otherwise it exists and is its own (any `cas`).
* `Fresh`   — versions and timer ids in timers / supportTimeouts / `future` are below the counters.
* `HeldInv` — (cas = true, no early fire, transient errors only for renewals of the record's current
  version) while held with record `(cv, true)` there is a bound `b` (the timer counter at the tenure's
  Lock) with `future = some f`, `b ≤ f`, and exactly one live renewal token (`Chain`): a timer of
  version `cv`, or that timer together with the supportTimeout about to install it (which loaded the
  current `future`), or a supportTimeout renewing `cv` / holding the answer for `cv` which loaded the
  current `future`; every other supportTimeout is stale: it cannot be applied any more and, when it
  re-arms, it loaded `future` before the tenure began (`< b`), so its CompareAndSwap fails.
-/
namespace LeaseCell

/-! ### record invariant (any `cas`) -/

def RecInv (s : St) : Prop :=
  (s.phase = .idle → ∀ v, s.lrec ≠ some (v, true)) ∧ (s.phase ≠ .idle → ∃ v, s.lrec = some (v, true))

theorem recInv_init : RecInv St.init := by
  constructor
  · intro _ v h; cases h
  · intro h; exact absurd rfl h

theorem recInv_step {cas : Bool} {s t : St} (h : RecInv s) (st : Step cas s t) : RecInv t := by
  obtain ⟨h1, h2⟩ := h
  cases st with
  | acquire hp hr => exact ⟨fun hc => (by cases hc), fun _ => ⟨_, rfl⟩⟩
  | unlock hp => exact ⟨fun hc => (by cases hc), fun _ => h2 (by rw [hp]; intro hc; cases hc)⟩
  | uCancel hp => exact ⟨fun hc => (by cases hc), fun _ => h2 (by rw [hp]; intro hc; cases hc)⟩
  | uDelete hp => exact ⟨fun _ v hc => (by cases hc), fun hc => absurd rfl hc⟩
  | fire tm hm => exact ⟨h1, h2⟩
  | supLoad u hu hp => exact ⟨h1, h2⟩
  | supApply u fut v o hu hp hr hv =>
    constructor
    · intro hc v' he
      have : o = true := by cases he; rfl
      subst this
      exact h1 hc v hr
    · intro hc
      obtain ⟨v', hv'⟩ := h2 hc
      rw [hr] at hv'
      cases hv'
      exact ⟨_, rfl⟩
  | supRefuse u fut hu hp hr => exact ⟨h1, h2⟩
  | supLose u fut hu hp => exact ⟨h1, h2⟩
  | supOk u fut nv hu hp => exact ⟨h1, h2⟩
  | supFail u fut hu hp => exact ⟨h1, h2⟩
  | supErr u fut hu hp => exact ⟨h1, h2⟩
  | supArm u fut nv hu hp => exact ⟨h1, h2⟩
  | supSwap u fut tn hu hp =>
    cases cas
    · exact ⟨h1, h2⟩
    · by_cases hf : s.future = fut
      · simp only [if_true, hf]; exact ⟨h1, h2⟩
      · simp only [if_true, hf, if_false]; exact ⟨h1, h2⟩
  | otherCreate hr =>
    constructor
    · intro _ v he; cases he
    · intro hc
      obtain ⟨v', hv'⟩ := h2 hc
      rw [hr] at hv'; cases hv'
  | otherRenew v hr =>
    constructor
    · intro _ v he; cases he
    · intro hc
      obtain ⟨v', hv'⟩ := h2 hc
      rw [hr] at hv'; cases hv'
  | otherDelete v hr =>
    constructor
    · intro _ v he; cases he
    · intro hc
      obtain ⟨v', hv'⟩ := h2 hc
      rw [hr] at hv'; cases hv'
  | expire v o hr ho =>
    constructor
    · intro _ v he; cases he
    · intro hc
      obtain ⟨v', hv'⟩ := h2 hc
      rw [hr] at hv'; cases hv'
      exact absurd (ho rfl) hc

theorem recInv_of_reach {cas : Bool} {s : St} (h : Reach cas s) : RecInv s := by
  induction h with
  | init => exact recInv_init
  | step _ st ih => exact recInv_step ih st

/-! ### freshness (any `cas`) -/

def optLt (g : Option Nat) (b : Nat) : Prop := ∀ x, g = some x → x < b

theorem optLt.mono {g : Option Nat} {b b' : Nat} (h : optLt g b) (hb : b ≤ b') : optLt g b' :=
  fun x hx => Nat.lt_of_lt_of_le (h x hx) hb

def FreshPc (nV nT : Nat) : SupPc → Prop
  | .load => True
  | .call g => optLt g nT
  | .okPending g nv => optLt g nT ∧ nv < nV
  | .failPending _ => True
  | .errPending g => optLt g nT
  | .arm g nv => optLt g nT ∧ nv < nV
  | .swap g tn => optLt g nT ∧ tn < nT

theorem FreshPc.mono {nV nT nV' nT' : Nat} {pc : SupPc} (h : FreshPc nV nT pc) (hv : nV ≤ nV') (ht : nT ≤ nT') :
    FreshPc nV' nT' pc := by
  cases pc with
  | load => trivial
  | call g => exact optLt.mono h ht
  | okPending g nv => exact ⟨optLt.mono h.1 ht, Nat.lt_of_lt_of_le h.2 hv⟩
  | failPending g => trivial
  | errPending g => exact optLt.mono h ht
  | arm g nv => exact ⟨optLt.mono h.1 ht, Nat.lt_of_lt_of_le h.2 hv⟩
  | swap g tn => exact ⟨optLt.mono h.1 ht, Nat.lt_of_lt_of_le h.2 ht⟩

def FreshSup (nV nT : Nat) (u : Sup) : Prop := u.ver < nV ∧ FreshPc nV nT u.pc

theorem FreshSup.mono {nV nT nV' nT' : Nat} {u : Sup} (h : FreshSup nV nT u) (hv : nV ≤ nV') (ht : nT ≤ nT') :
    FreshSup nV' nT' u :=
  ⟨Nat.lt_of_lt_of_le h.1 hv, h.2.mono hv ht⟩

structure Fresh (s : St) : Prop where
  armed : ∀ t ∈ s.armed, t.id < s.nextTimer ∧ t.ver < s.nextVer
  sups : ∀ u ∈ s.sups, FreshSup s.nextVer s.nextTimer u
  future : optLt s.future s.nextTimer

theorem forall_setSup {P : Sup → Prop} {s : St} {u : Sup} {pc : SupPc} (h : ∀ x ∈ s.sups, P x)
    (h' : P { u with pc := pc }) : ∀ x ∈ setSup s u pc, P x := by
  intro x hx
  simp only [setSup, List.mem_cons] at hx
  rcases hx with rfl | hx
  · exact h'
  · exact h x (List.mem_of_mem_erase hx)

theorem fresh_init : Fresh St.init :=
  ⟨fun t ht => (by cases ht), fun u hu => (by cases hu), fun x hx => (by cases hx)⟩

theorem fresh_step {cas : Bool} {s t : St} (h : Fresh s) (st : Step cas s t) : Fresh t := by
  obtain ⟨ha, hs, hf⟩ := h
  cases st with
  | acquire hp hr =>
    refine ⟨?_, ?_, ?_⟩
    · intro t ht
      simp only [List.mem_cons] at ht
      rcases ht with rfl | ht
      · exact ⟨Nat.lt_succ_self _, Nat.lt_succ_self _⟩
      · exact ⟨Nat.lt_succ_of_lt (ha t ht).1, Nat.lt_succ_of_lt (ha t ht).2⟩
    · intro u hu; exact (hs u hu).mono (Nat.le_succ _) (Nat.le_succ _)
    · intro x hx; cases hx; exact Nat.lt_succ_self _
  | unlock hp => exact ⟨ha, hs, hf⟩
  | uCancel hp => exact ⟨fun t ht => ha t (List.mem_filter.mp ht).1, hs, hf⟩
  | uDelete hp => exact ⟨ha, hs, hf⟩
  | fire tm hm =>
    refine ⟨fun t ht => ha t (List.mem_filter.mp ht).1, ?_, hf⟩
    intro u hu
    simp only [List.mem_cons] at hu
    rcases hu with rfl | hu
    · exact ⟨(ha tm hm).2, trivial⟩
    · exact hs u hu
  | supLoad u hu hp =>
    exact ⟨ha, forall_setSup hs ⟨(hs u hu).1, hf⟩, hf⟩
  | supApply u fut v o hu hp hr hv =>
    have hfu := (hs u hu).2
    rw [hp] at hfu
    refine ⟨fun t ht => ⟨(ha t ht).1, Nat.lt_succ_of_lt (ha t ht).2⟩, ?_, hf⟩
    exact forall_setSup (P := FreshSup (s.nextVer + 1) s.nextTimer)
      (fun x hx => (hs x hx).mono (Nat.le_succ _) (Nat.le_refl _))
      ⟨Nat.lt_succ_of_lt (hs u hu).1, hfu, Nat.lt_succ_self _⟩
  | supRefuse u fut hu hp hr =>
    exact ⟨ha, forall_setSup hs ⟨(hs u hu).1, trivial⟩, hf⟩
  | supLose u fut hu hp =>
    have hfu := (hs u hu).2
    rw [hp] at hfu
    exact ⟨ha, forall_setSup hs ⟨(hs u hu).1, hfu⟩, hf⟩
  | supOk u fut nv hu hp =>
    have hfu := (hs u hu).2
    rw [hp] at hfu
    exact ⟨ha, forall_setSup hs ⟨(hs u hu).1, hfu⟩, hf⟩
  | supFail u fut hu hp =>
    exact ⟨ha, fun x hx => hs x (List.mem_of_mem_erase hx), hf⟩
  | supErr u fut hu hp =>
    have hfu := (hs u hu).2
    rw [hp] at hfu
    exact ⟨ha, forall_setSup hs ⟨(hs u hu).1, hfu, (hs u hu).1⟩, hf⟩
  | supArm u fut nv hu hp =>
    have hfu := (hs u hu).2
    rw [hp] at hfu
    refine ⟨?_, ?_, hf.mono (Nat.le_succ _)⟩
    · intro t ht
      simp only [List.mem_cons] at ht
      rcases ht with rfl | ht
      · exact ⟨Nat.lt_succ_self _, hfu.2⟩
      · exact ⟨Nat.lt_succ_of_lt (ha t ht).1, (ha t ht).2⟩
    · exact forall_setSup (P := FreshSup s.nextVer (s.nextTimer + 1))
        (fun x hx => (hs x hx).mono (Nat.le_refl _) (Nat.le_succ _))
        ⟨(hs u hu).1, hfu.1.mono (Nat.le_succ _), Nat.lt_succ_self _⟩
  | supSwap u fut tn hu hp =>
    have hfu := (hs u hu).2
    rw [hp] at hfu
    have hs' : ∀ x ∈ s.sups.erase u, FreshSup s.nextVer s.nextTimer x :=
      fun x hx => hs x (List.mem_of_mem_erase hx)
    have hf' : optLt (some tn) s.nextTimer := fun x hx => by cases hx; exact hfu.2
    cases cas
    · exact ⟨fun t ht => ha t (List.mem_filter.mp ht).1, hs', hf'⟩
    · by_cases hc : s.future = fut
      · simp only [if_true, hc]; exact ⟨ha, hs', hf'⟩
      · simp only [if_true, hc, if_false]
        exact ⟨fun t ht => ha t (List.mem_filter.mp ht).1, hs', hf⟩
  | otherCreate hr =>
    exact ⟨fun t ht => ⟨(ha t ht).1, Nat.lt_succ_of_lt (ha t ht).2⟩,
      fun x hx => (hs x hx).mono (Nat.le_succ _) (Nat.le_refl _), hf⟩
  | otherRenew v hr =>
    exact ⟨fun t ht => ⟨(ha t ht).1, Nat.lt_succ_of_lt (ha t ht).2⟩,
      fun x hx => (hs x hx).mono (Nat.le_succ _) (Nat.le_refl _), hf⟩
  | otherDelete v hr => exact ⟨ha, hs, hf⟩
  | expire v o hr ho => exact ⟨ha, hs, hf⟩

end LeaseCell
