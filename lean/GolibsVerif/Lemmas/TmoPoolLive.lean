import GolibsVerif.Lemmas.TmoPool
/-
Termination of the watcher steps of `Tmo.Pool` at a fixed clock, and what a quiescent state looks like.
-/
namespace Tmo.Pool

/-- the watcher steps of `Step`: everything except Call (`add`), Cancel and `tick` -/
inductive IStep (c : Cfg) : St → St → Prop
  | section_ (s : St) (i : Nat) (f : Option Nat) (mis : Nat) (h : s.threads[i]? = some (.top f mis)) :
      IStep c s (secT c (ranCb s f) i (misNext f mis))
  | timerWake (s : St) (i : Nat) (d mis : Nat) (cp : Bool) (h : s.threads[i]? = some (.sleeping d mis cp)) (hd : d ≤ s.now) :
      IStep c s (setT s i (.top none mis))
  | tokenWake (s : St) (i : Nat) (d mis : Nat) (cp : Bool) (h : s.threads[i]? = some (.sleeping d mis cp)) (ht : 0 < s.tokens) :
      IStep c s (setT { s with tokens := s.tokens - 1 } i (.top none 0))

theorem IStep.toStep {c : Cfg} {s t : St} (st : IStep c s t) : Step c s t := by
  cases st with
  | section_ i f mis h => exact step_section c s i f mis h
  | timerWake i d mis cp h hd => exact Step.timerWake s i d mis cp h hd
  | tokenWake i d mis cp h ht => exact Step.tokenWake s i d mis cp h ht

/-- runs of exactly `n` watcher steps -/
inductive IRun (c : Cfg) : St → Nat → St → Prop
  | nil (s : St) : IRun c s 0 s
  | cons {s t u : St} {n : Nat} : IStep c s t → IRun c t n u → IRun c s (n + 1) u

/-- timer-enabled sleepers -/
def timerReady (now : Nat) : WPc → Bool
  | .sleeping d _ _ => decide (d ≤ now)
  | _ => false

def isTop : WPc → Bool
  | .top _ _ => true
  | _ => false

/-- the termination measure: pending futures, wake tokens, sleepers whose timer has run out, awake watchers -/
def mu (s : St) : Nat :=
  2 * s.heap.length + 2 * s.tokens + 2 * (s.threads.filter (timerReady s.now)).length + (s.threads.filter isTop).length

/-! ### helper lemmas -/

def b2n (b : Bool) : Nat := if b then 1 else 0

theorem filter_set_len {α : Type} (q : α → Bool) {l : List α} {i : Nat} {a : α} (p : α) (h : l[i]? = some a) :
    ((l.set i p).filter q).length + b2n (q a) = (l.filter q).length + b2n (q p) := by
  induction l generalizing i with
  | nil => simp at h
  | cons x l ih =>
    cases i with
    | zero =>
      simp at h; subst h
      simp only [List.set, List.filter_cons, b2n]
      cases q x <;> cases q p <;> simp
    | succ i =>
      simp at h
      have := ih h
      simp only [List.set, List.filter_cons]
      cases q x <;> simp <;> omega

theorem filter_append_one_len {α : Type} (q : α → Bool) (l : List α) (x : α) :
    ((l ++ [x]).filter q).length = (l.filter q).length + b2n (q x) := by
  rw [List.filter_append, List.length_append]
  simp only [List.filter_cons, List.filter_nil, b2n]
  cases q x <;> simp

theorem headOf_mem {h : List (Nat × Nat)} {x : Nat × Nat} : headOf h = some x → x ∈ h := by
  unfold headOf
  split
  · intro e; cases e
  · intro e; exact List.mem_of_find?_eq_some e

theorem headOf_filter_lt {h : List (Nat × Nat)} {id f : Nat} (hh : headOf h = some (id, f)) :
    (h.filter (·.1 != id)).length < h.length := by
  rw [List.length_filter_lt_length_iff_exists]
  exact ⟨(id, f), headOf_mem hh, by simp⟩

theorem minFire_le {h : List (Nat × Nat)} {m : Nat} : minFire h = some m → ∀ x ∈ h, m ≤ x.2 := by
  induction h generalizing m with
  | nil => simp [minFire]
  | cons y rest ih =>
    obtain ⟨a, t⟩ := y
    unfold minFire
    split
    · rename_i hn
      intro hm x hx
      simp at hm
      have hr := minFire_eq_none hn
      subst hr
      simp at hx
      subst hx
      simp only []; omega
    · rename_i m' hm'
      intro hm x hx
      simp at hm
      rcases List.mem_cons.1 hx with e | hx'
      · subst e; simp only []; omega
      · have := ih hm' x hx'; omega

theorem headOf_le {h : List (Nat × Nat)} {id f : Nat} (hh : headOf h = some (id, f)) :
    ∀ x ∈ h, f ≤ x.2 := by
  unfold headOf at hh
  split at hh
  · cases hh
  · rename_i m hm
    have := List.find?_some hh
    simp at this
    subst this
    exact minFire_le hm

/-- effect of overwriting one thread on the measure -/
theorem mu_setT {s : St} {i : Nat} {a : WPc} (p : WPc) (h : s.threads[i]? = some a) :
    mu (setT s i p) + 2 * b2n (timerReady s.now a) + b2n (isTop a)
      = mu s + 2 * b2n (timerReady s.now p) + b2n (isTop p) := by
  have h1 := filter_set_len (timerReady s.now) p h
  have h2 := filter_set_len isTop p h
  unfold mu setT
  simp only []
  omega

theorem mu_ranCb (s : St) (f : Option Nat) : mu (ranCb s f) = mu s := by cases f <;> rfl

theorem SecOut.mu_lt {c : Cfg} (hidle : 0 < c.idle) {s t : St} {i m : Nat} {f : Option Nat} {mis : Nat}
    (hi : s.threads[i]? = some (.top f mis)) (ho : SecOut c s i m t) : mu t < mu s := by
  have ha1 : b2n (timerReady s.now (.top f mis)) = 0 := rfl
  have ha2 : b2n (isTop (.top f mis)) = 1 := rfl
  have hex1 : b2n (timerReady s.now .exited) = 0 := rfl
  have hex2 : b2n (isTop .exited) = 0 := rfl
  have hsl : ∀ d mm cp, s.now < d → b2n (timerReady s.now (.sleeping d mm cp)) = 0 := by
    intro d mm cp hd
    simp only [timerReady, b2n]
    have : ¬ d ≤ s.now := by omega
    simp [this]
  have hsl2 : ∀ d mm cp, b2n (isTop (.sleeping d mm cp)) = 0 := fun _ _ _ => rfl
  cases ho with
  | exitEmpty hh _ =>
    have := mu_setT (s := { s with watchers := s.watchers - 1 }) .exited hi
    have e : mu { s with watchers := s.watchers - 1 } = mu s := rfl
    simp only [] at this
    omega
  | sleepIdle hh _ =>
    have := mu_setT (s := s) (.sleeping (s.now + c.idle) m true) hi
    have := hsl (s.now + c.idle) m true (by omega)
    have := hsl2 (s.now + c.idle) m true
    omega
  | popSpawn id fireT id2 t2 hh hdue hh2 hdue2 hlt =>
    have hl := headOf_filter_lt hh
    have hi' : (s.threads ++ [WPc.top none 0])[i]? = some (.top f mis) := get_append hi
    have := mu_setT (s := { s with heap := s.heap.filter (·.1 != id), watchers := s.watchers + 1,
                                    threads := s.threads ++ [.top none 0] }) (.top (some id) m) hi'
    have e : mu { s with heap := s.heap.filter (·.1 != id), watchers := s.watchers + 1,
                                    threads := s.threads ++ [.top none 0] }
        = 2 * (s.heap.filter (·.1 != id)).length + 2 * s.tokens
          + 2 * (s.threads.filter (timerReady s.now)).length + ((s.threads.filter isTop).length + 1) := by
      unfold mu
      simp only []
      rw [filter_append_one_len, filter_append_one_len]
      rfl
    have e2 : mu s = 2 * s.heap.length + 2 * s.tokens
          + 2 * (s.threads.filter (timerReady s.now)).length + (s.threads.filter isTop).length := rfl
    have hb1 : b2n (timerReady s.now (.top (some id) m)) = 0 := rfl
    have hb2 : b2n (isTop (.top (some id) m)) = 1 := rfl
    simp only [] at this
    omega
  | pop id fireT hh hdue _ =>
    have hl := headOf_filter_lt hh
    have := mu_setT (s := { s with heap := s.heap.filter (·.1 != id) }) (.top (some id) m) hi
    have e : mu { s with heap := s.heap.filter (·.1 != id) }
        = 2 * (s.heap.filter (·.1 != id)).length + 2 * s.tokens
          + 2 * (s.threads.filter (timerReady s.now)).length + (s.threads.filter isTop).length := rfl
    have e2 : mu s = 2 * s.heap.length + 2 * s.tokens
          + 2 * (s.threads.filter (timerReady s.now)).length + (s.threads.filter isTop).length := rfl
    have hb1 : b2n (timerReady s.now (.top (some id) m)) = 0 := rfl
    have hb2 : b2n (isTop (.top (some id) m)) = 1 := rfl
    simp only [] at this
    omega
  | exitBusy id fireT hh hnd hw hm1 =>
    have := mu_setT (s := { s with watchers := s.watchers - 1 }) .exited hi
    have e : mu { s with watchers := s.watchers - 1 } = mu s := rfl
    simp only [] at this
    omega
  | sleepCapped id fireT hh hnd hw hm1 =>
    have := mu_setT (s := s) (.sleeping (s.now + min (fireT - s.now) c.idle) m true) hi
    have := hsl (s.now + min (fireT - s.now) c.idle) m true (by omega)
    have := hsl2 (s.now + min (fireT - s.now) c.idle) m true
    omega
  | sleepUncapped id fireT hh hnd hw =>
    have := mu_setT (s := s) (.sleeping fireT m false) hi
    have := hsl fireT m false hnd
    have := hsl2 fireT m false
    omega

theorem IStep.mu_lt {c : Cfg} (hidle : 0 < c.idle) {s t : St} (st : IStep c s t) : mu t < mu s := by
  cases st with
  | section_ i f mis h =>
    have hi' : (ranCb s f).threads[i]? = some (.top f mis) := by cases f <;> exact h
    rw [← mu_ranCb s f]
    exact SecOut.mu_lt hidle hi' (secT_out c _ i _)
  | timerWake i d mis cp h hd =>
    have := mu_setT (s := s) (.top none mis) h
    have h1 : b2n (timerReady s.now (.sleeping d mis cp)) = 1 := by
      simp [timerReady, b2n, hd]
    have h2 : b2n (isTop (.sleeping d mis cp)) = 0 := rfl
    have h3 : b2n (timerReady s.now (.top none mis)) = 0 := rfl
    have h4 : b2n (isTop (.top none mis)) = 1 := rfl
    omega
  | tokenWake i d mis cp h ht =>
    have := mu_setT (s := { s with tokens := s.tokens - 1 }) (.top none 0) h
    have e : mu { s with tokens := s.tokens - 1 } + 2 = mu s := by
      unfold mu; simp only []; omega
    have h1 : b2n (timerReady s.now (.sleeping d mis cp)) ≤ 1 := by
      unfold b2n; split <;> omega
    have h2 : b2n (isTop (.sleeping d mis cp)) = 0 := rfl
    have h3 : b2n (timerReady s.now (.top none 0)) = 0 := rfl
    have h4 : b2n (isTop (.top none 0)) = 1 := rfl
    simp only [] at this
    omega

theorem IRun.len_le {c : Cfg} (hidle : 0 < c.idle) {s t : St} {n : Nat} (r : IRun c s n t) : n ≤ mu s := by
  induction r with
  | nil s => exact Nat.zero_le _
  | cons st _ ih => have := st.mu_lt hidle; omega

theorem IRun.reach {c : Cfg} {s t : St} {n : Nat} (h : Reach c s) (r : IRun c s n t) : Reach c t := by
  induction r with
  | nil s => exact h
  | cons st _ ih => exact ih (Reach.step h st.toStep)

theorem IRun.inv {c : Cfg} {P : St → Prop} (hP : ∀ s t, IStep c s t → P s → P t) {s t : St} {n : Nat}
    (r : IRun c s n t) (h : P s) : P t := by
  induction r with
  | nil s => exact h
  | cons st _ ih => exact ih (hP _ _ st h)

theorem SecOut.now {c : Cfg} {s t : St} {i m : Nat} (h : SecOut c s i m t) : t.now = s.now := by
  cases h <;> rfl

theorem IStep.now {c : Cfg} {s t : St} (st : IStep c s t) : t.now = s.now := by
  cases st with
  | section_ i f mis h =>
    rw [(secT_out c _ i _).now]; cases f <;> rfl
  | timerWake i d mis cp h hd => rfl
  | tokenWake i d mis cp h ht => rfl

theorem IRun.now {c : Cfg} {s t : St} {n : Nat} (r : IRun c s n t) : t.now = s.now := by
  induction r with
  | nil s => rfl
  | cons st _ ih => rw [ih, st.now]

/-- a section step leaves the other threads alone -/
theorem SecOut.other {c : Cfg} {s t : St} {i m j : Nat} {q : WPc} (h : SecOut c s i m t) (hj : j ≠ i)
    (hq : s.threads[j]? = some q) : t.threads[j]? = some q := by
  cases h with
  | popSpawn id fireT id2 t2 _ _ _ _ _ =>
    show ((s.threads ++ [WPc.top none 0]).set i _)[j]? = some q
    rw [get_set_ne hj]; exact get_append hq
  | exitEmpty _ _ => show (s.threads.set i _)[j]? = some q; rw [get_set_ne hj]; exact hq
  | sleepIdle _ _ => show (s.threads.set i _)[j]? = some q; rw [get_set_ne hj]; exact hq
  | pop _ _ _ _ _ => show (s.threads.set i _)[j]? = some q; rw [get_set_ne hj]; exact hq
  | exitBusy _ _ _ _ _ _ => show (s.threads.set i _)[j]? = some q; rw [get_set_ne hj]; exact hq
  | sleepCapped _ _ _ _ _ _ => show (s.threads.set i _)[j]? = some q; rw [get_set_ne hj]; exact hq
  | sleepUncapped _ _ _ _ _ => show (s.threads.set i _)[j]? = some q; rw [get_set_ne hj]; exact hq

/-- a pending future survives a section step unless it is the one popped, which the thread then holds -/
theorem SecOut.heap_mem {c : Cfg} {s t : St} {i m : Nat} {q : WPc} (h : SecOut c s i m t)
    (hi : s.threads[i]? = some q) {x : Nat × Nat} (hx : x ∈ s.heap) :
    x ∈ t.heap ∨ t.threads[i]? = some (WPc.top (some x.1) m) := by
  cases h with
  | popSpawn id fireT id2 t2 _ _ _ _ _ =>
    by_cases e : x.1 = id
    · right; subst e; exact get_set_self (get_append hi)
    · left; show x ∈ s.heap.filter (·.1 != id); simp [hx, e]
  | pop id fireT _ _ _ =>
    by_cases e : x.1 = id
    · right; subst e; exact get_set_self hi
    · left; show x ∈ s.heap.filter (·.1 != id); simp [hx, e]
  | exitEmpty _ _ => exact Or.inl hx
  | sleepIdle _ _ => exact Or.inl hx
  | exitBusy _ _ _ _ _ _ => exact Or.inl hx
  | sleepCapped _ _ _ _ _ _ => exact Or.inl hx
  | sleepUncapped _ _ _ _ _ => exact Or.inl hx

/-- "popped or started" -/
def Held (id : Nat) (s : St) : Prop :=
  (∃ (i mis : Nat), s.threads[i]? = some (WPc.top (some id) mis)) ∨ id ∈ s.started

theorem Held.step {c : Cfg} {id : Nat} {s t : St} (st : IStep c s t) (h : Held id s) : Held id t := by
  cases st with
  | section_ i f mis hi =>
    have ho := secT_out c (ranCb s f) i (misNext f mis)
    have est := ho.started
    have eth : (ranCb s f).threads = s.threads := by cases f <;> rfl
    rcases h with ⟨j, m, hj⟩ | hs
    · by_cases e : j = i
      · subst e
        rw [hi] at hj
        cases hj
        right
        rw [est]
        show id ∈ s.started ++ [id]
        simp
      · left
        exact ⟨j, m, ho.other e (eth ▸ hj)⟩
    · right
      rw [est]
      cases f with
      | none => exact hs
      | some id' => show id ∈ s.started ++ [id']; simp [hs]
  | timerWake i d mis cp hi hd =>
    rcases h with ⟨j, m, hj⟩ | hs
    · by_cases e : j = i
      · subst e; rw [hi] at hj; cases hj
      · left; refine ⟨j, m, ?_⟩
        show (s.threads.set i _)[j]? = _
        rw [get_set_ne e]; exact hj
    · exact Or.inr hs
  | tokenWake i d mis cp hi ht =>
    rcases h with ⟨j, m, hj⟩ | hs
    · by_cases e : j = i
      · subst e; rw [hi] at hj; cases hj
      · left; refine ⟨j, m, ?_⟩
        show (s.threads.set i _)[j]? = _
        rw [get_set_ne e]; exact hj
    · exact Or.inr hs

theorem PendHeld.step {c : Cfg} {id fireT : Nat} {s t : St} (st : IStep c s t)
    (h : (id, fireT) ∈ s.heap ∨ Held id s) : (id, fireT) ∈ t.heap ∨ Held id t := by
  rcases h with hx | hh
  · cases st with
    | section_ i f mis hi =>
      have ho := secT_out c (ranCb s f) i (misNext f mis)
      have eth : (ranCb s f).threads[i]? = some (.top f mis) := by cases f <;> exact hi
      have ehp : (id, fireT) ∈ (ranCb s f).heap := by cases f <;> exact hx
      rcases ho.heap_mem eth ehp with h1 | h2
      · exact Or.inl h1
      · exact Or.inr (Or.inl ⟨i, _, h2⟩)
    | timerWake i d mis cp hi hd => exact Or.inl hx
    | tokenWake i d mis cp hi ht => exact Or.inl hx
  · exact Or.inr (hh.step st)

/-! ### the main lemmas -/

theorem quiescent_nothing_due' {c : Cfg} (hm : 1 ≤ c.maxWorkers) {s : St} (h : Reach c s)
    (hq : ∀ t, ¬ IStep c s t) :
    (∀ p ∈ s.heap, s.now < p.2) ∧ (∀ (i : Nat) (f : Option Nat) (mis : Nat), s.threads[i]? ≠ some (WPc.top f mis)) := by
  refine ⟨?_, ?_⟩
  · intro p hp
    apply Classical.byContradiction
    intro hlt
    have hle : p.2 ≤ s.now := by omega
    cases hh : headOf s.heap with
    | none =>
      rw [headOf_eq_none hh] at hp
      cases hp
    | some x =>
      obtain ⟨id, f⟩ := x
      have hf := headOf_le hh p hp
      have hdue : f ≤ s.now := by omega
      rcases (Inv.reach hm h).not_stuck hh hdue with ⟨i, g, mis, hi⟩ | ⟨i, d, mis, cp, hi, hd | ht⟩
      · exact hq _ (IStep.section_ s i g mis hi)
      · exact hq _ (IStep.timerWake s i d mis cp hi hd)
      · exact hq _ (IStep.tokenWake s i d mis cp hi ht)
  · intro i f mis hi
    exact hq _ (IStep.section_ s i f mis hi)

theorem popped_callback_runs' {c : Cfg} {s t : St} {n : Nat}
    (r : IRun c s n t) (hq : ∀ u, ¬ IStep c t u) {i id mis : Nat} (hp : s.threads[i]? = some (WPc.top (some id) mis)) :
    id ∈ t.started := by
  have ht : Held id t := r.inv (P := Held id) (fun _ _ st h => h.step st) (Or.inl ⟨i, mis, hp⟩)
  rcases ht with ⟨j, m, hj⟩ | hs
  · exact (hq _ (IStep.section_ t j (some id) m hj)).elim
  · exact hs

theorem every_due_future_starts' {c : Cfg} (hm : 1 ≤ c.maxWorkers) {s t : St} {n : Nat} (h : Reach c s)
    (r : IRun c s n t) (hq : ∀ u, ¬ IStep c t u) {id fireT : Nat} (hp : (id, fireT) ∈ s.heap) (hd : fireT ≤ s.now) :
    id ∈ t.started := by
  have ht : (id, fireT) ∈ t.heap ∨ Held id t :=
    r.inv (P := fun s => (id, fireT) ∈ s.heap ∨ Held id s) (fun _ _ st h => PendHeld.step st h) (Or.inl hp)
  have hQ := quiescent_nothing_due' hm (r.reach h) hq
  rcases ht with hx | ⟨j, m, hj⟩ | hs
  · have := hQ.1 _ hx
    have e := r.now
    simp only [] at this
    omega
  · exact (hQ.2 j _ m hj).elim
  · exact hs

theorem maximal_run_aux {c : Cfg} (hidle : 0 < c.idle) :
    ∀ (k : Nat) (s : St), mu s ≤ k → ∃ t n, IRun c s n t ∧ ∀ u, ¬ IStep c t u := by
  intro k
  induction k with
  | zero =>
    intro s hs
    refine ⟨s, 0, IRun.nil s, ?_⟩
    intro u st
    have := st.mu_lt hidle
    omega
  | succ k ih =>
    intro s hs
    rcases Classical.em (∃ u, IStep c s u) with ⟨u, st⟩ | hn
    · have := st.mu_lt hidle
      obtain ⟨t, n, r, hq⟩ := ih u (by omega)
      exact ⟨t, n + 1, IRun.cons st r, hq⟩
    · exact ⟨s, 0, IRun.nil s, fun u st => hn ⟨u, st⟩⟩

theorem maximal_run_exists' {c : Cfg} (hidle : 0 < c.idle) (s : St) :
    ∃ t n, IRun c s n t ∧ ∀ u, ¬ IStep c t u :=
  maximal_run_aux hidle (mu s) s (Nat.le_refl _)

/-- one watcher awake, one future (id 0) due at 3, the clock at 3 -/
def exSt : St := { heap := [(0, 3)], now := 3, watchers := 1, tokens := 0, threads := [WPc.top none 0], started := [], nextId := 1 }

/-- `exSt` after the watcher popped future 0 -/
def exSt1 : St := { heap := [], now := 3, watchers := 1, tokens := 0, threads := [WPc.top (some 0) 1], started := [], nextId := 1 }

/-- ... and after it ran the callback and went to sleep -/
def exSt2 : St := { heap := [], now := 3, watchers := 1, tokens := 0, threads := [WPc.sleeping 8 0 true], started := [0], nextId := 1 }

theorem nonvacuous_example : ∃ t n, IRun ⟨2, 5⟩ exSt n t ∧ (∀ u, ¬ IStep ⟨2, 5⟩ t u) ∧ 0 ∈ t.started := by
  have e1 : secT ⟨2, 5⟩ (ranCb exSt none) 0 (misNext none 0) = exSt1 := by decide
  have e2 : secT ⟨2, 5⟩ (ranCb exSt1 (some 0)) 0 (misNext (some 0) 1) = exSt2 := by decide
  have s1 : IStep ⟨2, 5⟩ exSt exSt1 := e1 ▸ IStep.section_ exSt 0 none 0 rfl
  have s2 : IStep ⟨2, 5⟩ exSt1 exSt2 := e2 ▸ IStep.section_ exSt1 0 (some 0) 1 rfl
  refine ⟨exSt2, 2, IRun.cons s1 (IRun.cons s2 (IRun.nil _)), ?_, by decide⟩
  have hth : ∀ (i : Nat) (p : WPc), exSt2.threads[i]? = some p → p = WPc.sleeping 8 0 true := by
    intro i p hp
    have hm := List.mem_of_getElem? hp
    simpa [exSt2] using hm
  intro u st
  cases st with
  | section_ i f mis h => have := hth i _ h; cases this
  | timerWake i d mis cp h hd =>
    have := hth i _ h; cases this
    exact absurd hd (by decide)
  | tokenWake i d mis cp h ht => exact absurd ht (by decide)

end Tmo.Pool
