import GolibsVerif.Lemmas.BlkGeom
/-! Header bytes, the allocator invariant and the simulation relation (C17). -/
namespace Blk

/-- header byte `p` of segment `s` -/
def B.hb (b : B) (s p : Nat) : Nat := b.mem.getD (s * b.segmSize + p) 0

theorem getD_set_eq {l : List Nat} {a x : Nat} (h : a < l.length) : (l.set a x).getD a 0 = x := by
  simp [List.getD_eq_getElem?_getD, h]

theorem getD_set_ne {l : List Nat} {a k x : Nat} (h : a ≠ k) : (l.set a x).getD k 0 = l.getD k 0 := by
  simp [List.getD_eq_getElem?_getD, h]

theorem getD_lt {l : List Nat} (hl : ∀ x ∈ l, x < 256) (k : Nat) : l.getD k 0 < 256 := by
  rw [List.getD_eq_getElem?_getD]
  cases h : l[k]? with
  | none => simp
  | some v => exact hl v (List.mem_of_getElem? h)

theorem set_lt {l : List Nat} (hl : ∀ x ∈ l, x < 256) {a v : Nat} (hv : v < 256) :
    ∀ x ∈ l.set a v, x < 256 := by
  intro x hx
  rcases List.mem_or_eq_of_mem_set hx with h | h
  · exact hl x h
  · omega

theorem B.isAlloc_eq (b : B) (i : Nat) :
    b.isAlloc i = (b.hb (i / (8 * b.bs)) (i % (8 * b.bs) / 8) &&& 1 <<< (i % (8 * b.bs) % 8) != 0) := rfl

theorem B.isAlloc_coord (b : B) {s p j : Nat} (hp : p < b.bs) (hj : j < 8) :
    b.isAlloc (s * (8 * b.bs) + p * 8 + j) = (b.hb s p &&& 1 <<< j != 0) := by
  obtain ⟨h1, h2, h3⟩ := idx_decode (s := s) hp hj
  rw [B.isAlloc_eq, h1, h2, h3]

theorem B.segmSize_eq (b : B) : b.segmSize = (8 * b.bs + 1) * b.bs := rfl
theorem B.count_eq (b : B) : b.count = b.segs * (8 * b.bs) := rfl

theorem B.bs_le_segm (b : B) : b.bs ≤ b.segmSize := segm_ge b.bs

/-- the header of a segment lies inside the buffer -/
theorem B.hdr_in (b : B) (hfit : b.segs * b.segmSize ≤ b.mem.length) {s p : Nat} (hs : s < b.segs)
    (hp : p < b.bs) : s * b.segmSize + p < b.mem.length := by
  have := mul_lt_of_lt (Z := b.segmSize) hs (Nat.le_refl _)
  have := b.bs_le_segm
  omega

/-- coordinates of a valid index -/
theorem B.coord_of_lt (b : B) (hbs : 0 < b.bs) {i : Nat} (hi : i < b.count) :
    ∃ s p j, s < b.segs ∧ p < b.bs ∧ j < 8 ∧ i = s * (8 * b.bs) + p * 8 + j :=
  ⟨i / (8 * b.bs), i % (8 * b.bs) / 8, i % (8 * b.bs) % 8, (idx_seg_lt hbs).mpr hi, idx_byte_lt hbs,
    Nat.mod_lt _ (by omega), idx_encode _ _⟩

theorem B.coord_lt_count (b : B) {s p j : Nat} (hs : s < b.segs) (hp : p < b.bs) (hj : j < 8) :
    s * (8 * b.bs) + p * 8 + j < b.count := by
  have := mul_lt_of_lt (Z := 8 * b.bs) hs (Nat.le_refl _)
  rw [B.count_eq]; omega

/-- index order is the lexicographic order of the coordinates -/
theorem coord_lt {bs s p j s' p' j' : Nat} (hp : p < bs) (hj : j < 8) (hp' : p' < bs) (hj' : j' < 8)
    (h : s * (8 * bs) + p * 8 + j < s' * (8 * bs) + p' * 8 + j') :
    s < s' ∨ (s = s' ∧ p < p') ∨ (s = s' ∧ p = p' ∧ j < j') := by
  have h1 : p * 8 + j < 8 * bs := by omega
  have h2 : p' * 8 + j' < 8 * bs := by omega
  rw [Nat.add_assoc, Nat.add_assoc, lex_lt_iff h1 h2] at h
  omega

theorem coord_inj {bs s p j s' p' j' : Nat} (hp : p < bs) (hj : j < 8) (hp' : p' < bs) (hj' : j' < 8)
    (h : s * (8 * bs) + p * 8 + j = s' * (8 * bs) + p' * 8 + j') : s = s' ∧ p = p' ∧ j = j' := by
  have h1 : p * 8 + j < 8 * bs := by omega
  have h2 : p' * 8 + j' < 8 * bs := by omega
  rw [Nat.add_assoc, Nat.add_assoc] at h
  have := off_inj h1 h2 h
  omega

/-- representation invariant of a reachable allocator -/
structure Inv (P : Nat) (b : B) : Prop where
  bs_pos : 0 < b.bs
  geom : ValidGeom P (b.bs : Int)
  segs_eq : b.segs = b.mem.length / b.segmSize
  one_seg : b.segmSize ≤ b.mem.length
  bytes : ∀ x ∈ b.mem, x < 256
  hint : ∃ fs fp, b.freeIdx = fs * b.segmSize + fp ∧ fs ≤ b.segs ∧ fp < b.bs ∧
    ∀ s p, s < b.segs → p < b.bs → (s < fs ∨ (s = fs ∧ p < fp)) → b.hb s p = 255

theorem Inv.fit {P : Nat} {b : B} (h : Inv P b) : b.segs * b.segmSize ≤ b.mem.length := by
  rw [h.segs_eq]; exact Nat.div_mul_le_self _ _

/-- simulation relation between the implementation model and the set Spec -/
structure Rel (b : B) (s : S) : Prop where
  count : s.count = b.count
  bs : s.bs = b.bs
  segs : s.segs = b.segs
  nodup : s.alloc.Nodup
  mem_iff : ∀ i, i ∈ s.alloc ↔ (i < b.count ∧ b.isAlloc i = true)
  avail : b.avail = (b.count : Int) - s.alloc.length

theorem Rel.perm {b : B} {s : S} (h : Rel b s) : b.abs.alloc.Perm s.alloc := by
  show ((List.range b.count).filter b.isAlloc).Perm s.alloc
  rw [List.perm_ext_iff_of_nodup (List.Nodup.sublist List.filter_sublist List.nodup_range) h.nodup]
  intro a
  simp only [List.mem_filter, List.mem_range, h.mem_iff]

end Blk
