import GolibsVerif.Lemmas.RedisConc
/-! From the linearization order of a `RedisConc` run to a timed history of `Kv` (helpers for
`C02Redis.linearizable_to_contract`; `histOf` and `opResults` are part of its statement). -/
namespace RedisConc
open Kv Lin

/-- the timed history of a sequence of inputs of `obj` started at time `now`: the time of a client
operation is `now` plus the ticks before it; the ticks themselves are dropped -/
def histOf : List LOp → Nat → Hist
  | [], _ => []
  | .op o :: is, now => (now, o) :: histOf is now
  | .tick d :: is, now => histOf is (now + d)

/-- the results of the client operations of a list of (input, result) pairs (the clock's `ok`s dropped) -/
def opResults : List (LOp × Out) → List Out
  | [] => []
  | (.op _, r) :: xs => r :: opResults xs
  | (.tick _, _) :: xs => opResults xs

/-- the clock only advances: the history of any input sequence is monotone -/
theorem histOf_monotone : ∀ (ops : List LOp) (t now : Nat), t ≤ now → Monotone t (histOf ops now) := by
  intro ops
  induction ops with
  | nil => intro t now _; trivial
  | cons i is ih =>
    intro t now h
    cases i with
    | op o => exact ⟨h, ih now now (Nat.le_refl _)⟩
    | tick d => exact ih t (now + d) (by omega)

/-- running the sequential object over inputs = running the sequential Redis client model over their
timed history -/
theorem seqRun_histOf : ∀ (ops : List LOp) (c : Redis) (now : Nat),
    runRedis c (histOf ops now) =
      ((seqRun obj (c, now) ops).1.1, opResults (ops.zip (seqRun obj (c, now) ops).2)) := by
  intro ops
  induction ops with
  | nil => intro c now; rfl
  | cons i is ih =>
    intro c now
    cases i with
    | op o => simp only [histOf, runRedis, seqRun, obj, ih, List.zip_cons_cons, opResults]
    | tick d => simp only [histOf, seqRun, obj, ih, List.zip_cons_cons, opResults]

end RedisConc
