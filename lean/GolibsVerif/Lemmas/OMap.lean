import GolibsVerif.Model.OMap
