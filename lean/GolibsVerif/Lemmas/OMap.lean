import GolibsVerif.Model.OMap
import GolibsVerif.Lemmas.OMapBasic
import GolibsVerif.Lemmas.OMapInv
import GolibsVerif.Lemmas.OMapOps
import GolibsVerif.Lemmas.OMapM
import GolibsVerif.Lemmas.OMapSpec
import GolibsVerif.Lemmas.OMapRel
import GolibsVerif.Lemmas.OMapRel2
import GolibsVerif.Lemmas.OMapRel3
import GolibsVerif.Lemmas.OMapRel4
import GolibsVerif.Lemmas.OMapRefine
import GolibsVerif.Lemmas.OMapFacts
/-
Lemmas for the ordered map (C10, C11).  Proof architecture:
* `OMapBasic`  – chain access on `pre ++ n :: suf`, observable projection `okl`, iterator tables
* `OMapInv`    – chain invariant `CS c hd L rc` (parameterised by a reference-count function) and
                 its preservation by replace / unlink / add
* `OMapOps`    – computation of `delete`, one loop iteration (`nextLoop_iter`), loop specification
                 (`nextLoop_spec`, reference of the stepping iterator "in flight") and definedness
                 (`nextLoop_isSome`, needs only the structural part `Str`)
* `OMapM`      – `next`, `getValue`, `release`, `iterator`, `itNext`
* `OMapSpec`   – Spec-level facts
* `OMapRel*`   – refinement relation `Sim` and the per-operation simulation lemmas
* `OMapRefine` – First, `step_sim`, histories (`reach_sim`)
* `OMapFacts`  – counting facts (C11)
-/
