import GolibsVerif.Model.LeaseTimed
/-
Helper lemmas for `Props/C05Timed.lean`: the inductive invariant of the timed lease loop and a
"many ticks at once" lemma used for the non-vacuity witness.
-/
namespace LeaseTimed

/-- The inductive invariant of the renewal loop (deadline computed at the write, `fresh = true`):
  * the clock never passes `due + δ` (urgency);
  * the next attempt is due at most `L/renewDiv + fails·δ + fails·(L/retryDiv)` after the last write
    (the last write happened at `exp - L`; the subtraction is avoided by adding `L` on the left);
  * at most `m` failures in a row. -/
def Inv (c : Cfg) (m : Nat) (s : St) : Prop :=
  s.now ≤ s.due + c.δ ∧
  s.due + c.L ≤ s.exp + c.L / c.renewDiv + s.fails * c.δ + s.fails * (c.L / c.retryDiv) ∧
  s.fails ≤ m

theorem inv_init (c : Cfg) (m t0 wait : Nat) (hf : c.fresh = true) : Inv c m (acquired c t0 wait) := by
  simp only [Inv, acquired, hf, if_true, Nat.zero_mul]
  generalize c.L / c.renewDiv = a
  omega

theorem inv_step (c : Cfg) (m : Nat) {s t : St} (hi : Inv c m s) (hs : Step c m s t) : Inv c m t := by
  obtain ⟨h1, h2, h3⟩ := hi
  cases hs with
  | tick h =>
    refine ⟨?_, h2, h3⟩
    show s.now + 1 ≤ s.due + c.δ
    omega
  | renewOk h =>
    refine ⟨?_, ?_, ?_⟩
    · show s.now ≤ s.now + c.L / c.renewDiv + c.δ
      generalize c.L / c.renewDiv = a
      omega
    · show s.now + c.L / c.renewDiv + c.L
        ≤ s.now + c.L + c.L / c.renewDiv + 0 * c.δ + 0 * (c.L / c.retryDiv)
      simp only [Nat.zero_mul]
      generalize c.L / c.renewDiv = a
      omega
    · show 0 ≤ m
      omega
  | renewFail h hf =>
    refine ⟨?_, ?_, ?_⟩
    · show s.now ≤ s.now + c.L / c.retryDiv + c.δ
      generalize c.L / c.retryDiv = b
      omega
    · show s.now + c.L / c.retryDiv + c.L
        ≤ s.exp + c.L / c.renewDiv + (s.fails + 1) * c.δ + (s.fails + 1) * (c.L / c.retryDiv)
      rw [Nat.add_mul, Nat.add_mul, Nat.one_mul, Nat.one_mul]
      generalize c.L / c.renewDiv = a at *
      generalize c.L / c.retryDiv = b at *
      generalize s.fails * c.δ = x at *
      generalize s.fails * b = y at *
      omega
    · show s.fails + 1 ≤ m
      omega

theorem inv_reach (c : Cfg) (m t0 wait : Nat) (hf : c.fresh = true) {s : St}
    (h : Reach c m t0 wait s) : Inv c m s := by
  induction h with
  | init => exact inv_init c m t0 wait hf
  | step _ hs ih => exact inv_step c m ih hs

/-- `n` ticks are possible while `now + n ≤ due + δ`. -/
theorem reach_ticks (c : Cfg) (m t0 wait : Nat) (s : St) (h : Reach c m t0 wait s) :
    ∀ n, s.now + n ≤ s.due + c.δ → Reach c m t0 wait { s with now := s.now + n } := by
  intro n
  induction n with
  | zero => intro _; exact h
  | succ n ih =>
    intro hn
    have r := ih (by omega)
    have st := Step.tick (c := c) (m := m) { s with now := s.now + n } (by show s.now + n < s.due + c.δ; omega)
    exact Reach.step r st

end LeaseTimed
