import GolibsVerif.Lemmas.TmoPoolBase
/-
The inductive invariant of the Tmo.Pool transition system and its preservation by every step.
-/
namespace Tmo.Pool

/-! ### list lookups after `set` / `++` -/

theorem set_get {α : Type} {l : List α} {i j : Nat} {p q : α} (h : (l.set i p)[j]? = some q) :
    (j = i ∧ q = p) ∨ (j ≠ i ∧ l[j]? = some q) := by
  rw [List.getElem?_set] at h
  by_cases hij : i = j
  · subst hij
    simp only [if_true] at h
    split at h
    · left; simp at h; exact ⟨rfl, h.symm⟩
    · simp at h
  · simp only [hij, if_false] at h
    right; exact ⟨fun e => hij e.symm, h⟩

theorem lt_of_get {α : Type} {l : List α} {i : Nat} {q : α} (h : l[i]? = some q) : i < l.length :=
  (List.getElem?_eq_some_iff.1 h).1

theorem get_set_self {α : Type} {l : List α} {i : Nat} {p q : α} (h : l[i]? = some q) :
    (l.set i p)[i]? = some p := by
  rw [List.getElem?_set]; simp [lt_of_get h]

theorem get_set_ne {α : Type} {l : List α} {i j : Nat} {p : α} (h : j ≠ i) :
    (l.set i p)[j]? = l[j]? := by
  exact List.getElem?_set_ne (fun e => h e.symm)

theorem append_get {α : Type} {l : List α} {x q : α} {j : Nat} (h : (l ++ [x])[j]? = some q) :
    l[j]? = some q ∨ q = x := by
  rw [List.getElem?_append] at h
  split at h
  · left; exact h
  · right
    have := List.mem_of_getElem? h
    simpa using this

theorem get_append {α : Type} {l : List α} {x q : α} {j : Nat} (h : l[j]? = some q) :
    (l ++ [x])[j]? = some q := by
  rw [List.getElem?_append_left (lt_of_get h)]; exact h

/-! ### the invariant -/

/-- an awake watcher that cannot exit at its next section while a future with fire time `f` heads
the heap: it has a callback to run, or its miss counter is fresh, or it is the last watcher, or the
head is already due (it will pop it) -/
def Strong (s : St) (f : Nat) : WPc → Prop
  | .top (some _) _ => True
  | .top none mis => mis = 0 ∨ s.watchers ≤ 1 ∨ f ≤ s.now
  | _ => False

theorem Strong_mono {s t : St} {f : Nat} (h : t.watchers ≤ s.watchers) (hn : s.now ≤ t.now) {p : WPc} :
    Strong s f p → Strong t f p := by
  cases p with
  | top g mis =>
    cases g with
    | none => intro hs; rcases hs with h0 | h1 | h2
              · exact Or.inl h0
              · exact Or.inr (Or.inl (Nat.le_trans h h1))
              · exact Or.inr (Or.inr (Nat.le_trans h2 hn))
    | some _ => intro _; trivial
  | sleeping _ _ _ => exact id
  | exited => exact id

theorem Strong_some (s : St) (f id m : Nat) : Strong s f (.top (some id) m) := trivial

theorem Strong_fresh (s : St) (f : Nat) : Strong s f (.top none 0) := Or.inl rfl

structure Inv (c : Cfg) (s : St) : Prop where
  wl : s.watchers = liveL s.threads
  tok : s.tokens ≤ c.maxWorkers
  wmax : s.watchers ≤ c.maxWorkers
  /-- a capped sleeper wakes within `idle` -/
  cap : ∀ (j d m : Nat), s.threads[j]? = some (.sleeping d m true) → d ≤ s.now + c.idle
  /-- an uncapped sleeper is the only live watcher -/
  alone : ∀ (j d m : Nat), s.threads[j]? = some (.sleeping d m false) →
      ∀ (k : Nat) (p : WPc), k ≠ j → s.threads[k]? = some p → p = .exited
  /-- an uncapped sleeper sleeps no longer than the head's fire time unless a token is waiting -/
  uncd : ∀ (j d m : Nat), s.threads[j]? = some (.sleeping d m false) →
      0 < s.tokens ∨ ∀ id f, headOf s.heap = some (id, f) → d ≤ f
  /-- work pending ⇒ some watcher is alive -/
  ne : ∀ id f, headOf s.heap = some (id, f) → 1 ≤ s.watchers
  /-- with a future pending and no token in flight somebody is responsible in a way that persists:
  every sleeper wakes by the head's fire time (so whoever is left after an exit still does), or an
  awake watcher cannot exit before popping / going to sleep, or a sleeper wakes exactly at the
  head's fire time (and then finds it due) -/
  key : ∀ id f, headOf s.heap = some (id, f) → s.tokens = 0 →
      (∀ (j d m : Nat) (cp : Bool), s.threads[j]? = some (.sleeping d m cp) → d ≤ f) ∨
      (∃ (j : Nat) (p : WPc), s.threads[j]? = some p ∧ Strong s f p) ∨
      (∃ (j m : Nat) (cp : Bool), s.threads[j]? = some (.sleeping f m cp))

theorem Inv.init (c : Cfg) : Inv c St.init where
  wl := rfl
  tok := Nat.zero_le _
  wmax := Nat.zero_le _
  cap := by intro j d m h; simp [St.init] at h
  alone := by intro j d m h; simp [St.init] at h
  uncd := by intro j d m h; simp [St.init] at h
  ne := by intro id f h; simp [St.init, headOf_nil] at h
  key := by intro id f h; simp [St.init, headOf_nil] at h

/-- a live thread other than an uncapped sleeper cannot coexist with it -/
theorem Inv.no_unc_other {c : Cfg} {s : St} (h : Inv c s) {i j d m : Nat} {p : WPc}
    (hi : s.threads[i]? = some p) (hp : p ≠ .exited) (hji : j ≠ i)
    (hj : s.threads[j]? = some (.sleeping d m false)) : False :=
  hp (h.alone j d m hj i p (fun e => hji e.symm) hi)

theorem Inv.pos_of_live {c : Cfg} {s : St} (h : Inv c s) {i : Nat} {p : WPc}
    (hi : s.threads[i]? = some p) (hp : p ≠ .exited) : 1 ≤ s.watchers := by
  rw [h.wl]; exact liveL_pos hi hp

/-- the invariant does not mention `started` -/
theorem Inv.ran {c : Cfg} {s : St} (h : Inv c s) (f : Option Nat) : Inv c (ranCb s f) := by
  cases f with
  | none => exact h
  | some id => exact ⟨h.wl, h.tok, h.wmax, h.cap, h.alone, h.uncd, h.ne, h.key⟩

/-! ### add -/

def addT (c : Cfg) (s : St) (fireT : Nat) : St :=
  let s1 : St := { s with heap := s.heap ++ [(s.nextId, fireT)], nextId := s.nextId + 1 }
  if s.watchers = 0 then { s1 with watchers := 1, threads := s1.threads ++ [.top none 0] }
  else notify c s1

theorem Inv.add {c : Cfg} (hm : 1 ≤ c.maxWorkers) {s : St} (h : Inv c s) (fireT : Nat) :
    Inv c (addT c s fireT) := by
  unfold addT
  by_cases hw : s.watchers = 0
  · simp only [hw, if_true]
    have hnl : ∀ (j : Nat) (p : WPc), s.threads[j]? = some p → p = .exited := by
      intro j p hj
      apply Classical.byContradiction; intro hp
      have := h.pos_of_live hj hp; omega
    refine ⟨?_, h.tok, hm, ?_, ?_, ?_, ?_, ?_⟩
    · show 1 = liveL (s.threads ++ [.top none 0])
      rw [liveL_append_one _ _ (by simp), ← h.wl, hw]
    · intro j d m hj
      rcases append_get hj with hj | hj
      · exact h.cap j d m hj
      · cases hj
    · intro j d m hj
      rcases append_get hj with hj | hj
      · cases hnl _ _ hj
      · cases hj
    · intro j d m hj
      rcases append_get hj with hj | hj
      · cases hnl _ _ hj
      · cases hj
    · intro _ _ _; exact Nat.le_refl 1
    · intro id f _ _
      refine Or.inr (Or.inl ⟨s.threads.length, WPc.top none 0, ?_, Or.inl rfl⟩)
      show (s.threads ++ [WPc.top none 0])[s.threads.length]? = _
      simp
  · simp only [hw, if_false]
    have htok : 0 < min (s.tokens + 1) c.maxWorkers := by omega
    refine ⟨h.wl, ?_, h.wmax, h.cap, h.alone, ?_, ?_, ?_⟩
    · show min (s.tokens + 1) c.maxWorkers ≤ c.maxWorkers
      omega
    · intro j d m _; exact Or.inl htok
    · intro _ _ _; show 1 ≤ s.watchers; omega
    · intro id f _ ht
      have : min (s.tokens + 1) c.maxWorkers = 0 := ht
      omega

/-! ### cancel -/

def cancelT (c : Cfg) (s : St) (id : Nat) : St :=
  let s1 : St := { s with heap := s.heap.filter (·.1 != id) }
  if s.watchers > 0 then notify c s1 else s1

theorem Inv.cancel {c : Cfg} (hm : 1 ≤ c.maxWorkers) {s : St} (h : Inv c s) (id : Nat) :
    Inv c (cancelT c s id) := by
  unfold cancelT
  by_cases hw : s.watchers > 0
  · simp only [hw, if_true]
    have htok : 0 < min (s.tokens + 1) c.maxWorkers := by omega
    refine ⟨h.wl, ?_, h.wmax, h.cap, h.alone, ?_, ?_, ?_⟩
    · show min (s.tokens + 1) c.maxWorkers ≤ c.maxWorkers
      omega
    · intro j d m _; exact Or.inl htok
    · intro _ _ _; exact hw
    · intro id f _ ht
      have : min (s.tokens + 1) c.maxWorkers = 0 := ht
      omega
  · simp only [hw, if_false]
    have hnone : headOf s.heap = none := by
      cases hh : headOf s.heap with
      | none => rfl
      | some x => obtain ⟨a, b⟩ := x; have := h.ne a b hh; omega
    have hnone' : headOf (s.heap.filter (·.1 != id)) = none := headOf_filter_of_none _ hnone
    have hnl : ∀ (j : Nat) (p : WPc), s.threads[j]? = some p → p = .exited := by
      intro j p hj
      apply Classical.byContradiction; intro hp
      have := h.pos_of_live hj hp; omega
    refine ⟨h.wl, h.tok, h.wmax, h.cap, h.alone, ?_, ?_, ?_⟩
    · intro j d m hj; cases hnl _ _ hj
    · intro a f hh
      have : headOf (s.heap.filter (·.1 != id)) = some (a, f) := hh
      rw [hnone'] at this; cases this
    · intro a f hh
      have : headOf (s.heap.filter (·.1 != id)) = some (a, f) := hh
      rw [hnone'] at this; cases this

/-! ### section -/

theorem Inv.section_out {c : Cfg} {s t : St} (h : Inv c s) {i : Nat} {f : Option Nat} {mis : Nat}
    (hi : s.threads[i]? = some (.top f mis)) (ho : SecOut c s i (misNext f mis) t) : Inv c t := by
  have hlive : (WPc.top f mis) ≠ .exited := by simp
  have hwpos : 1 ≤ s.watchers := h.pos_of_live hi hlive
  -- no uncapped sleeper before the step
  have hnu : ∀ (j d m : Nat), j ≠ i → s.threads[j]? = some (.sleeping d m false) → False :=
    fun j d m hji hj => h.no_unc_other hi hlive hji hj
  cases ho with
  | exitEmpty hh hm1 =>
    refine ⟨?_, h.tok, ?_, ?_, ?_, ?_, ?_, ?_⟩
    · show s.watchers - 1 = liveL (s.threads.set i .exited)
      have := liveL_set_exit hi hlive; have := h.wl; omega
    · show s.watchers - 1 ≤ c.maxWorkers
      have := h.wmax; omega
    · intro j d m hj
      rcases set_get hj with ⟨_, hq⟩ | ⟨_, hj⟩
      · cases hq
      · exact h.cap j d m hj
    · intro j d m hj
      rcases set_get hj with ⟨_, hq⟩ | ⟨hne, hj⟩
      · cases hq
      · exact (hnu j d m hne hj).elim
    · intro j d m hj
      rcases set_get hj with ⟨_, hq⟩ | ⟨hne, hj⟩
      · cases hq
      · exact (hnu j d m hne hj).elim
    · intro a b hab
      have : headOf s.heap = some (a, b) := hab
      rw [hh] at this; cases this
    · intro a b hab
      have : headOf s.heap = some (a, b) := hab
      rw [hh] at this; cases this
  | sleepIdle hh hm1 =>
    refine ⟨?_, h.tok, h.wmax, ?_, ?_, ?_, ?_, ?_⟩
    · show s.watchers = liveL (s.threads.set i _)
      rw [liveL_set_live hi hlive (by simp)]; exact h.wl
    · intro j d m hj
      rcases set_get hj with ⟨_, hq⟩ | ⟨_, hj⟩
      · cases hq; exact Nat.le_refl _
      · exact h.cap j d m hj
    · intro j d m hj
      rcases set_get hj with ⟨_, hq⟩ | ⟨hne, hj⟩
      · cases hq
      · exact (hnu j d m hne hj).elim
    · intro j d m hj
      rcases set_get hj with ⟨_, hq⟩ | ⟨hne, hj⟩
      · cases hq
      · exact (hnu j d m hne hj).elim
    · intro a b hab
      have : headOf s.heap = some (a, b) := hab
      rw [hh] at this; cases this
    · intro a b hab
      have : headOf s.heap = some (a, b) := hab
      rw [hh] at this; cases this
  | popSpawn id fireT id2 t2 hh hdue hh2 hdue2 hlt =>
    have hi' : (s.threads ++ [WPc.top none 0])[i]? = some (.top f mis) := get_append hi
    refine ⟨?_, h.tok, ?_, ?_, ?_, ?_, ?_, ?_⟩
    · show s.watchers + 1 = liveL ((s.threads ++ [WPc.top none 0]).set i _)
      rw [liveL_set_live hi' hlive (by simp), liveL_append_one _ _ (by simp), ← h.wl]
    · show s.watchers + 1 ≤ c.maxWorkers
      omega
    · intro j d m hj
      rcases set_get hj with ⟨_, hq⟩ | ⟨_, hj⟩
      · cases hq
      · rcases append_get hj with hj | hj
        · exact h.cap j d m hj
        · cases hj
    · intro j d m hj
      rcases set_get hj with ⟨_, hq⟩ | ⟨hne, hj⟩
      · cases hq
      · rcases append_get hj with hj | hj
        · exact (hnu j d m hne hj).elim
        · cases hj
    · intro j d m hj
      rcases set_get hj with ⟨_, hq⟩ | ⟨hne, hj⟩
      · cases hq
      · rcases append_get hj with hj | hj
        · exact (hnu j d m hne hj).elim
        · cases hj
    · intro _ _ _; show 1 ≤ s.watchers + 1; omega
    · intro a b _ _
      exact Or.inr (Or.inl ⟨i, WPc.top (some id) (misNext f mis), get_set_self hi', trivial⟩)
  | pop id fireT hh hdue _ =>
    refine ⟨?_, h.tok, h.wmax, ?_, ?_, ?_, ?_, ?_⟩
    · show s.watchers = liveL (s.threads.set i _)
      rw [liveL_set_live hi hlive (by simp)]; exact h.wl
    · intro j d m hj
      rcases set_get hj with ⟨_, hq⟩ | ⟨_, hj⟩
      · cases hq
      · exact h.cap j d m hj
    · intro j d m hj
      rcases set_get hj with ⟨_, hq⟩ | ⟨hne, hj⟩
      · cases hq
      · exact (hnu j d m hne hj).elim
    · intro j d m hj
      rcases set_get hj with ⟨_, hq⟩ | ⟨hne, hj⟩
      · cases hq
      · exact (hnu j d m hne hj).elim
    · intro _ _ _; exact hwpos
    · intro a b _ _
      exact Or.inr (Or.inl ⟨i, WPc.top (some id) (misNext f mis), get_set_self hi, trivial⟩)
  | exitBusy id fireT hh hnd hw hm1 =>
    refine ⟨?_, h.tok, ?_, ?_, ?_, ?_, ?_, ?_⟩
    · show s.watchers - 1 = liveL (s.threads.set i .exited)
      have := liveL_set_exit hi hlive; have := h.wl; omega
    · show s.watchers - 1 ≤ c.maxWorkers
      have := h.wmax; omega
    · intro j d m hj
      rcases set_get hj with ⟨_, hq⟩ | ⟨_, hj⟩
      · cases hq
      · exact h.cap j d m hj
    · intro j d m hj
      rcases set_get hj with ⟨_, hq⟩ | ⟨hne, hj⟩
      · cases hq
      · exact (hnu j d m hne hj).elim
    · intro j d m hj
      rcases set_get hj with ⟨_, hq⟩ | ⟨hne, hj⟩
      · cases hq
      · exact (hnu j d m hne hj).elim
    · intro _ _ _; show 1 ≤ s.watchers - 1; omega
    · intro a b hab ht
      have hab' : headOf s.heap = some (a, b) := hab
      rw [hh] at hab'; cases hab'
      rcases h.key id fireT hh ht with h1 | ⟨j, p, hj, hs⟩ | ⟨j, m, cp, hj⟩
      · left
        intro j d m cp hj
        rcases set_get hj with ⟨_, hq⟩ | ⟨_, hj⟩
        · cases hq
        · exact h1 j d m cp hj
      · right; left
        by_cases hji : j = i
        · subst hji
          rw [hi] at hj; cases hj
          -- the exiting thread was not strong
          exfalso
          cases f with
          | some _ => simp [misNext] at hm1
          | none =>
            rcases hs with h0 | h1 | h2
            · subst h0; simp [misNext] at hm1
            · omega
            · omega
        · refine ⟨j, p, ?_, Strong_mono (s := s) (by exact Nat.sub_le _ _) (by exact Nat.le_refl _) hs⟩
          show (s.threads.set i _)[j]? = some p
          rw [get_set_ne hji]; exact hj
      · right; right
        have hji : j ≠ i := by
          intro e; subst e; rw [hi] at hj; cases hj
        refine ⟨j, m, cp, ?_⟩
        show (s.threads.set i _)[j]? = _
        rw [get_set_ne hji]; exact hj
  | sleepCapped id fireT hh hnd hw hm1 =>
    refine ⟨?_, h.tok, h.wmax, ?_, ?_, ?_, ?_, ?_⟩
    · show s.watchers = liveL (s.threads.set i _)
      rw [liveL_set_live hi hlive (by simp)]; exact h.wl
    · intro j d m hj
      rcases set_get hj with ⟨_, hq⟩ | ⟨_, hj⟩
      · cases hq
        show s.now + min (fireT - s.now) c.idle ≤ s.now + c.idle
        omega
      · exact h.cap j d m hj
    · intro j d m hj
      rcases set_get hj with ⟨_, hq⟩ | ⟨hne, hj⟩
      · cases hq
      · exact (hnu j d m hne hj).elim
    · intro j d m hj
      rcases set_get hj with ⟨_, hq⟩ | ⟨hne, hj⟩
      · cases hq
      · exact (hnu j d m hne hj).elim
    · intro _ _ _; exact hwpos
    · intro a b hab _
      have hab' : headOf s.heap = some (a, b) := hab
      rw [hh] at hab'; cases hab'
      have hnow' : s.now < fireT := hnd
      by_cases hle : fireT - s.now ≤ c.idle
      · right; right
        refine ⟨i, misNext f mis, true, ?_⟩
        have : s.now + min (fireT - s.now) c.idle = fireT := by omega
        show (s.threads.set i _)[i]? = _
        rw [get_set_self hi, this]
      · left
        intro j d m cp hj
        rcases set_get hj with ⟨_, hq⟩ | ⟨hne, hj⟩
        · cases hq; omega
        · cases cp with
          | true => have := h.cap j d m hj; omega
          | false => exact (hnu j d m hne hj).elim
  | sleepUncapped id fireT hh hnd hw =>
    refine ⟨?_, h.tok, h.wmax, ?_, ?_, ?_, ?_, ?_⟩
    · show s.watchers = liveL (s.threads.set i _)
      rw [liveL_set_live hi hlive (by simp)]; exact h.wl
    · intro j d m hj
      rcases set_get hj with ⟨_, hq⟩ | ⟨_, hj⟩
      · cases hq
      · exact h.cap j d m hj
    · intro j d m hj
      rcases set_get hj with ⟨hji, _⟩ | ⟨hne, hj⟩
      · subst hji
        intro k p hk hp
        have hp' : (s.threads.set j _)[k]? = some p := hp
        rw [get_set_ne hk] at hp'
        exact liveL_alone hi hlive (by rw [← h.wl]; exact hw) hk hp'
      · exact (hnu j d m hne hj).elim
    · intro j d m hj
      rcases set_get hj with ⟨_, hq⟩ | ⟨hne, hj⟩
      · cases hq
        right
        intro a b hab
        have hab' : headOf s.heap = some (a, b) := hab
        rw [hh] at hab'; cases hab'
        exact Nat.le_refl _
      · exact (hnu j d m hne hj).elim
    · intro _ _ _; exact hwpos
    · intro a b hab _
      have hab' : headOf s.heap = some (a, b) := hab
      rw [hh] at hab'; cases hab'
      right; right
      exact ⟨i, misNext f mis, false, get_set_self hi⟩

theorem Inv.section_ {c : Cfg} {s : St} (h : Inv c s) {i : Nat} {f : Option Nat} {mis : Nat}
    (hi : s.threads[i]? = some (.top f mis)) : Inv c (secT c (ranCb s f) i (misNext f mis)) := by
  have hi' : (ranCb s f).threads[i]? = some (.top f mis) := by cases f <;> exact hi
  exact (h.ran f).section_out hi' (secT_out c _ i _)

/-! ### wake-ups and time -/

theorem Inv.timerWake {c : Cfg} {s : St} (h : Inv c s) {i d mis : Nat} {cp : Bool}
    (hi : s.threads[i]? = some (.sleeping d mis cp)) (hd : d ≤ s.now) :
    Inv c (setT s i (.top none mis)) := by
  have hlive : (WPc.sleeping d mis cp) ≠ .exited := by simp
  have hnu : ∀ (j d m : Nat), j ≠ i → s.threads[j]? = some (.sleeping d m false) → False :=
    fun j d m hji hj => h.no_unc_other hi hlive hji hj
  refine ⟨?_, h.tok, h.wmax, ?_, ?_, ?_, h.ne, ?_⟩
  · show s.watchers = liveL (s.threads.set i _)
    rw [liveL_set_live hi hlive (by simp)]; exact h.wl
  · intro j d m hj
    rcases set_get hj with ⟨_, hq⟩ | ⟨_, hj⟩
    · cases hq
    · exact h.cap j d m hj
  · intro j d m hj
    rcases set_get hj with ⟨_, hq⟩ | ⟨hne, hj⟩
    · cases hq
    · exact (hnu j d m hne hj).elim
  · intro j d m hj
    rcases set_get hj with ⟨_, hq⟩ | ⟨hne, hj⟩
    · cases hq
    · exact (hnu j d m hne hj).elim
  · intro a b hab ht
    rcases h.key a b hab ht with h1 | ⟨j, p, hj, hs⟩ | ⟨j, m, cp', hj⟩
    · left
      intro j d m cp hj
      rcases set_get hj with ⟨_, hq⟩ | ⟨_, hj⟩
      · cases hq
      · exact h1 j d m cp hj
    · right; left
      have hji : j ≠ i := by
        intro e; subst e; rw [hi] at hj; cases hj; exact hs
      refine ⟨j, p, ?_, Strong_mono (s := s) (by exact Nat.le_refl _) (by exact Nat.le_refl _) hs⟩
      show (s.threads.set i _)[j]? = some p
      rw [get_set_ne hji]; exact hj
    · by_cases hji : j = i
      · -- the sleeper that wakes is the one with deadline = fire time: it finds the head due
        subst hji
        rw [hi] at hj; cases hj
        right; left
        exact ⟨j, WPc.top none mis, get_set_self hi, Or.inr (Or.inr hd)⟩
      · right; right
        refine ⟨j, m, cp', ?_⟩
        show (s.threads.set i _)[j]? = _
        rw [get_set_ne hji]; exact hj

theorem Inv.tokenWake {c : Cfg} {s : St} (h : Inv c s) {i d mis : Nat} {cp : Bool}
    (hi : s.threads[i]? = some (.sleeping d mis cp)) :
    Inv c (setT { s with tokens := s.tokens - 1 } i (.top none 0)) := by
  have hlive : (WPc.sleeping d mis cp) ≠ .exited := by simp
  have hnu : ∀ (j d m : Nat), j ≠ i → s.threads[j]? = some (.sleeping d m false) → False :=
    fun j d m hji hj => h.no_unc_other hi hlive hji hj
  refine ⟨?_, ?_, h.wmax, ?_, ?_, ?_, h.ne, ?_⟩
  · show s.watchers = liveL (s.threads.set i _)
    rw [liveL_set_live hi hlive (by simp)]; exact h.wl
  · show s.tokens - 1 ≤ c.maxWorkers
    have := h.tok; omega
  · intro j d m hj
    rcases set_get hj with ⟨_, hq⟩ | ⟨_, hj⟩
    · cases hq
    · exact h.cap j d m hj
  · intro j d m hj
    rcases set_get hj with ⟨_, hq⟩ | ⟨hne, hj⟩
    · cases hq
    · exact (hnu j d m hne hj).elim
  · intro j d m hj
    rcases set_get hj with ⟨_, hq⟩ | ⟨hne, hj⟩
    · cases hq
    · exact (hnu j d m hne hj).elim
  · intro a b _ _
    exact Or.inr (Or.inl ⟨i, WPc.top none 0, get_set_self hi, Or.inl rfl⟩)

theorem Inv.tick {c : Cfg} {s : St} (h : Inv c s) : Inv c { s with now := s.now + 1 } := by
  refine ⟨h.wl, h.tok, h.wmax, ?_, h.alone, h.uncd, h.ne, ?_⟩
  · intro j d m hj
    have := h.cap j d m hj
    show d ≤ s.now + 1 + c.idle
    omega
  · intro a b hab ht
    rcases h.key a b hab ht with h1 | ⟨j, p, hj, hs⟩ | h3
    · exact Or.inl h1
    · exact Or.inr (Or.inl ⟨j, p, hj, Strong_mono (s := s) (by exact Nat.le_refl _) (by exact Nat.le_succ _) hs⟩)
    · exact Or.inr (Or.inr h3)

/-! ### all steps, all reachable states -/

theorem Inv.step {c : Cfg} (hm : 1 ≤ c.maxWorkers) {s t : St} (h : Inv c s) (st : Step c s t) : Inv c t := by
  cases st with
  | add fireT => exact h.add hm fireT
  | cancel id _ => exact h.cancel hm id
  | section_ i f mis hi =>
    have := h.section_ hi
    cases f <;> exact this
  | timerWake i d mis cp hi hd => exact h.timerWake hi hd
  | tokenWake i d mis cp hi _ => exact h.tokenWake hi
  | tick => exact h.tick

theorem Inv.reach {c : Cfg} (hm : 1 ≤ c.maxWorkers) {s : St} (h : Reach c s) : Inv c s := by
  induction h with
  | init => exact Inv.init c
  | step _ st ih => exact ih.step hm st

end Tmo.Pool
