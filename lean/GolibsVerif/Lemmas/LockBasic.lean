import GolibsVerif.Model.Lock
namespace Lock

def Pc.cnt : Pc → Bool
  | .lCtxCheck | .lCreate | .lWait _ | .lFail | .tCreate | .tFail => true
  | _ => false
def Pc.unl : Pc → Bool
  | .uCancel | .uDelete | .uToken => true
  | _ => false
def Pc.sec : Pc → Bool
  | .lCtxCheck | .lCreate | .lWait _ | .lFail | .tCreate | .tFail | .uCancel | .uDelete | .uToken => true
  | _ => false

section
variable (v : Nat)
@[simp, grind =] theorem sec_idle : Pc.sec .idle = false := rfl
@[simp, grind =] theorem sec_lSelect : Pc.sec .lSelect = false := rfl
@[simp, grind =] theorem sec_tSelect : Pc.sec .tSelect = false := rfl
@[simp, grind =] theorem sec_lCtxCheck : Pc.sec .lCtxCheck = true := rfl
@[simp, grind =] theorem sec_lCreate : Pc.sec .lCreate = true := rfl
@[simp, grind =] theorem sec_lWait : Pc.sec (.lWait v) = true := rfl
@[simp, grind =] theorem sec_lFail : Pc.sec .lFail = true := rfl
@[simp, grind =] theorem sec_tCreate : Pc.sec .tCreate = true := rfl
@[simp, grind =] theorem sec_tFail : Pc.sec .tFail = true := rfl
@[simp, grind =] theorem sec_uCancel : Pc.sec .uCancel = true := rfl
@[simp, grind =] theorem sec_uDelete : Pc.sec .uDelete = true := rfl
@[simp, grind =] theorem sec_uToken : Pc.sec .uToken = true := rfl
@[simp, grind =] theorem cnt_idle : Pc.cnt .idle = false := rfl
@[simp, grind =] theorem cnt_lSelect : Pc.cnt .lSelect = false := rfl
@[simp, grind =] theorem cnt_tSelect : Pc.cnt .tSelect = false := rfl
@[simp, grind =] theorem cnt_lCtxCheck : Pc.cnt .lCtxCheck = true := rfl
@[simp, grind =] theorem cnt_lCreate : Pc.cnt .lCreate = true := rfl
@[simp, grind =] theorem cnt_lWait : Pc.cnt (.lWait v) = true := rfl
@[simp, grind =] theorem cnt_lFail : Pc.cnt .lFail = true := rfl
@[simp, grind =] theorem cnt_tCreate : Pc.cnt .tCreate = true := rfl
@[simp, grind =] theorem cnt_tFail : Pc.cnt .tFail = true := rfl
@[simp, grind =] theorem cnt_uCancel : Pc.cnt .uCancel = false := rfl
@[simp, grind =] theorem cnt_uDelete : Pc.cnt .uDelete = false := rfl
@[simp, grind =] theorem cnt_uToken : Pc.cnt .uToken = false := rfl
@[simp, grind =] theorem unl_idle : Pc.unl .idle = false := rfl
@[simp, grind =] theorem unl_lSelect : Pc.unl .lSelect = false := rfl
@[simp, grind =] theorem unl_tSelect : Pc.unl .tSelect = false := rfl
@[simp, grind =] theorem unl_lCtxCheck : Pc.unl .lCtxCheck = false := rfl
@[simp, grind =] theorem unl_lCreate : Pc.unl .lCreate = false := rfl
@[simp, grind =] theorem unl_lWait : Pc.unl (.lWait v) = false := rfl
@[simp, grind =] theorem unl_lFail : Pc.unl .lFail = false := rfl
@[simp, grind =] theorem unl_tCreate : Pc.unl .tCreate = false := rfl
@[simp, grind =] theorem unl_tFail : Pc.unl .tFail = false := rfl
@[simp, grind =] theorem unl_uCancel : Pc.unl .uCancel = true := rfl
@[simp, grind =] theorem unl_uDelete : Pc.unl .uDelete = true := rfl
@[simp, grind =] theorem unl_uToken : Pc.unl .uToken = true := rfl
end

@[simp] theorem sec_ite (p : Prop) [Decidable p] (a b : Pc) : Pc.sec (if p then a else b) = if p then a.sec else b.sec := by split <;> rfl
@[simp] theorem cnt_ite (p : Prop) [Decidable p] (a b : Pc) : Pc.cnt (if p then a else b) = if p then a.cnt else b.cnt := by split <;> rfl
@[simp] theorem unl_ite (p : Prop) [Decidable p] (a b : Pc) : Pc.unl (if p then a else b) = if p then a.unl else b.unl := by split <;> rfl

theorem cnt_sec (p : Pc) (h : p.cnt = true) : p.sec = true := by cases p <;> simp_all
theorem unl_sec (p : Pc) (h : p.unl = true) : p.sec = true := by cases p <;> simp_all
theorem cnt_unl (p : Pc) (h : p.cnt = true) : p.unl = false := by cases p <;> simp_all
grind_pattern cnt_sec => p.cnt
grind_pattern unl_sec => p.unl
grind_pattern cnt_unl => p.cnt, p.unl

theorem inSection_iff (s : St) (g : G) : InSection s g ↔ (s.holds g = true ∨ (s.pc g).sec = true) := by
  unfold InSection
  cases h : s.pc g <;> simp

def IIdle (s : St) : Prop := ∀ g, s.holds g = true → s.pc g = .idle
def IOwn (s : St) : Prop :=
  ∀ g, (s.holds g = true ∨ s.pc g = .uCancel ∨ s.pc g = .uDelete) → ∃ r, s.lrec = some r ∧ r.owner = some g
def ISer (c : Cfg) (s : St) : Prop := ∀ g₁ g₂, c.lk g₁ = c.lk g₂ → (s.holds g₁ = true ∨ (s.pc g₁).sec = true) → (s.holds g₂ = true ∨ (s.pc g₂).sec = true) → g₁ = g₂
def ISecTok (c : Cfg) (s : St) : Prop := ∀ g, (s.holds g = true ∨ (s.pc g).sec = true) → s.token (c.lk g) = false
def ICnt1 (c : Cfg) (s : St) : Prop := ∀ g, (s.holds g = true ∨ (s.pc g).cnt = true) → s.cntr (c.lk g) = 1
def ICnt0 (c : Cfg) (s : St) : Prop := ∀ g, (s.pc g).unl = true → s.cntr (c.lk g) = 0
def ITokCnt (s : St) : Prop := ∀ l, s.token l = true → s.cntr l = 0

theorem disown_eq_some (o : Option Rec) (g : G) (r : Rec) (h : disown o g = some r) :
    ∃ r', o = some r' ∧ r.ver = r'.ver ∧ (r.owner = r'.owner ∨ (r.owner = none ∧ r'.owner = some g)) := by
  cases o with
  | none => simp [disown] at h
  | some r' =>
    simp only [disown] at h
    split at h <;> simp at h <;> subst h <;> simp_all

theorem disown_eq_none (o : Option Rec) (g : G) (h : disown o g = none) : o = none := by
  cases o with
  | none => rfl
  | some r' => simp only [disown] at h; split at h <;> simp at h

grind_pattern disown_eq_some => disown o g, some r

macro "step_bash" h:ident "with" ds:ident,* : tactic =>
  `(tactic| (cases $h:ident <;> (try split) <;> simp only [$[$ds:ident],*] at * <;> (try simp_all [upd]) <;> (first | done | grind [mayExpire, disown, disown_eq_none])))


end Lock
