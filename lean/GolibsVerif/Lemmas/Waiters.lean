import GolibsVerif.Model.Waiters
