import GolibsVerif.Model.Waiters
import GolibsVerif.Lemmas.WaitersStep
/-
Consequences of the Waiters invariant used by the C07 theorems (the invariant itself:
`Waiters.Inv` in Lemmas/WaitersInv.lean; preservation: Lemmas/WaitersStep.lean).
-/
namespace Waiters

@[simp] theorem leave_ws (s : St) (k : String) (c : Nat) : (leave s k c).ws = s.ws := by
  rcases leave_cases s k c with ⟨_, hl⟩ | ⟨n, _, _, hl⟩ | ⟨n, _, _, hl⟩ <;> rw [hl]

@[simp] theorem leave_recs (s : St) (k : String) (c : Nat) : (leave s k c).recs = s.recs := by
  rcases leave_cases s k c with ⟨_, hl⟩ | ⟨n, _, _, hl⟩ | ⟨n, _, _, hl⟩ <;> rw [hl]

theorem Inv.mem_table {s : St} (hi : Inv s) {e : String × Nat × Nat} (he : e ∈ s.table) :
    getEntry s e.1 = some (e.2.1, e.2.2) :=
  lookup_of_mem s.table hi.tkeys e.1 e.2 he

theorem Inv.chs_nodup {s : St} (hi : Inv s) : (s.table.map (·.2.1)).Nodup := by
  have h := hi.tkeys
  unfold TKeys at h
  rw [List.Nodup, List.pairwise_map] at h ⊢
  refine h.imp_of_mem ?_
  intro a b ha hb hab heq
  have h1 := hi.mem_table ha
  have h2 := hi.mem_table hb
  rw [← heq] at h2
  exact hab (hi.tinj a.1 b.1 a.2.1 a.2.2 b.2.2 h1 h2)

/-- the effect of the first critical section on the waiter list, and when it returns -/
theorem check_obs (s : St) (i : Nat) (w : W) (hw : s.ws[i]? = some w) :
    ∃ w' : W, (∀ j,
      ((let (s1, r) := live s w.key
        match r with
        | none => setW s1 i { w with pc := .returned .notExist }
        | some v =>
          if v ≠ w.ver then setW s1 i { w with pc := .returned .nil }
          else match getEntry s1 w.key with
            | some (ch, n) =>
              setW { s1 with table := s1.table.map fun e => if e.1 == w.key then (w.key, ch, n + 1) else e } i { w with pc := .parked ch }
            | none =>
              setW { s1 with table := s1.table ++ [(w.key, s1.nextCh, 1)], nextCh := s1.nextCh + 1 } i { w with pc := .parked s1.nextCh } : St)).ws[j]?
        = if j = i then some w' else s.ws[j]?) ∧
      (∀ r, w'.pc = .returned r →
        match r with
        | .nil => ∃ v, (live s w.key).2 = some v ∧ v ≠ w.ver
        | .notExist => (live s w.key).2 = none
        | .ctxErr => False) := by
  rcases live_cases s w.key with ⟨_, hl⟩ | ⟨r, _, _, hl⟩ | ⟨r, hr, hx, hl⟩
  · rw [hl]
    refine ⟨_, fun j => setW_get s i j w _ hw, ?_⟩
    intro r hr; simp at hr; subst hr; rfl
  · rw [hl]
    have hw1 : (notify { s with recs := s.recs.filter (·.1 != w.key) } w.key).ws[i]? = some w := by simpa using hw
    refine ⟨{ w with pc := .returned .notExist }, fun j => ?_, ?_⟩
    · have := setW_get _ i j w { w with pc := .returned .notExist } hw1
      simpa using this
    · intro r hr; simp at hr; subst hr; rfl
  · rw [hl]
    dsimp only
    by_cases hv : r.ver ≠ w.ver
    · rw [if_pos hv]
      refine ⟨_, fun j => setW_get s i j w _ hw, ?_⟩
      intro r' hr'; simp at hr'; subst hr'; exact ⟨_, rfl, hv⟩
    · rw [if_neg hv]
      cases hen : getEntry s w.key with
      | none =>
        dsimp only
        refine ⟨_, fun j => setW_get { s with table := s.table ++ [(w.key, s.nextCh, 1)], nextCh := s.nextCh + 1 } i j w _ hw, ?_⟩
        intro r' hr'; simp at hr'
      | some e =>
        obtain ⟨ch, n⟩ := e
        dsimp only
        refine ⟨_, fun j => setW_get { s with table := s.table.map fun e => if e.1 == w.key then (w.key, ch, n + 1) else e } i j w _ hw, ?_⟩
        intro r' hr'; simp at hr'

end Waiters
