import GolibsVerif.Model.Waiters
/-
Basic lemmas for the Waiters model: association lists (`find?` after filter / map-update / append),
`parkedOn` under `setW`, and the observable effect of `notify`, `leave`, `live`.
-/
namespace Waiters
set_option linter.unusedSimpArgs false

/-! ### association lists keyed by `String` -/

section Assoc
variable {β : Type}

def lookup (l : List (String × β)) (k : String) : Option β := (l.find? (·.1 == k)).map (·.2)

theorem lookup_filter_ne (l : List (String × β)) (k k' : String) :
    lookup (l.filter (·.1 != k)) k' = if k' = k then none else lookup l k' := by
  induction l with
  | nil => simp [lookup]
  | cons a l ih =>
    simp only [lookup] at ih ⊢
    by_cases h1 : a.1 = k <;> by_cases h2 : a.1 = k' <;> by_cases h3 : k' = k <;>
      simp_all [List.filter_cons, List.find?_cons] <;> grind

theorem lookup_append_single (l : List (String × β)) (k k' : String) (v : β) :
    lookup (l ++ [(k, v)]) k' =
      match lookup l k' with
      | some x => some x
      | none => if k' = k then some v else none := by
  induction l with
  | nil => simp [lookup, List.find?_cons]; grind
  | cons a l ih =>
    simp only [lookup] at ih ⊢
    by_cases h2 : a.1 = k' <;> simp_all [List.find?_cons]

theorem lookup_map_upd (l : List (String × β)) (k k' : String) (v : β) :
    lookup (l.map fun e => if e.1 == k then (k, v) else e) k' =
      if k' = k then (lookup l k).map (fun _ => v) else lookup l k' := by
  induction l with
  | nil => simp [lookup]
  | cons a l ih =>
    simp only [lookup] at ih ⊢
    by_cases h1 : a.1 = k <;> by_cases h2 : a.1 = k' <;> by_cases h3 : k' = k <;>
      simp_all [List.find?_cons] <;> grind

theorem lookup_eq_none_iff (l : List (String × β)) (k : String) :
    lookup l k = none ↔ ∀ e ∈ l, e.1 ≠ k := by
  simp [lookup]

theorem mem_of_lookup (l : List (String × β)) (k : String) (v : β) (h : lookup l k = some v) :
    (k, v) ∈ l := by
  simp only [lookup, Option.map_eq_some_iff] at h
  obtain ⟨e, he, rfl⟩ := h
  have h1 := List.mem_of_find?_eq_some he
  have h2 := List.find?_some he
  simp at h2
  cases e; simp_all

theorem lookup_of_mem (l : List (String × β)) (hn : (l.map (·.1)).Nodup) (k : String) (v : β)
    (h : (k, v) ∈ l) : lookup l k = some v := by
  induction l with
  | nil => simp at h
  | cons a l ih =>
    simp only [List.map_cons, List.nodup_cons, List.mem_map, not_exists, not_and] at hn
    simp only [lookup, List.find?_cons] at ih ⊢
    rcases List.mem_cons.1 h with rfl | h'
    · simp
    · have hb : (a.1 == k) = false := by
        simp only [beq_eq_false_iff_ne, ne_eq]
        exact fun e => hn.1 (k, v) h' e.symm
      rw [hb]
      exact ih hn.2 h'

theorem keys_filter_nodup (l : List (String × β)) (p : String × β → Bool) (hn : (l.map (·.1)).Nodup) :
    ((l.filter p).map (·.1)).Nodup :=
  hn.sublist (List.filter_sublist.map _)

theorem keys_map_upd (l : List (String × β)) (k : String) (v : β) :
    (l.map fun e => if e.1 == k then (k, v) else e).map (·.1) = l.map (·.1) := by
  rw [List.map_map]
  apply List.map_congr_left
  intro e _
  by_cases h : e.1 = k <;> simp [h]

theorem keys_append_nodup (l : List (String × β)) (k : String) (v : β) (hn : (l.map (·.1)).Nodup)
    (hk : lookup l k = none) : ((l ++ [(k, v)]).map (·.1)).Nodup := by
  rw [lookup_eq_none_iff] at hk
  simp only [List.map_append, List.map_cons, List.map_nil]
  rw [List.nodup_append]
  refine ⟨hn, by simp, ?_⟩
  intro a ha b hb
  simp at hb
  subst hb
  simp only [List.mem_map] at ha
  obtain ⟨x, hx, rfl⟩ := ha
  exact hk _ hx

end Assoc

theorem getRec_eq (s : St) (k : String) : getRec s k = lookup s.recs k := rfl
theorem getEntry_eq (s : St) (k : String) : getEntry s k = lookup s.table k := rfl

/-! ### counting -/

theorem countP_set {α : Type} (p : α → Bool) (l : List α) (i : Nat) (a b : α) (h : l[i]? = some a) :
    (l.set i b).countP p + (if p a then 1 else 0) = l.countP p + (if p b then 1 else 0) := by
  induction l generalizing i with
  | nil => simp at h
  | cons x l ih =>
    cases i with
    | zero =>
      simp at h; subst h
      simp [List.countP_cons]; omega
    | succ i =>
      simp at h
      have := ih i h
      simp [List.countP_cons]; omega

theorem parkedOn_eq (s : St) (c : Nat) : parkedOn s c = s.ws.countP (fun w => w.pc == .parked c) := by
  simp [parkedOn, List.countP_eq_length_filter]

theorem parkedOn_setW (s : St) (i : Nat) (w w' : W) (c : Nat) (h : s.ws[i]? = some w) :
    parkedOn (setW s i w') c + (if w.pc = .parked c then 1 else 0) =
      parkedOn s c + (if w'.pc = .parked c then 1 else 0) := by
  have := countP_set (fun w => w.pc == .parked c) s.ws i w w' h
  simpa [parkedOn_eq, setW] using this

theorem parkedOn_pos_of (s : St) (i : Nat) (w : W) (c : Nat) (h : s.ws[i]? = some w) (hp : w.pc = .parked c) :
    0 < parkedOn s c := by
  rw [parkedOn_eq, List.countP_pos_iff]
  exact ⟨w, List.mem_of_getElem? h, by simp [hp]⟩

theorem exists_of_parkedOn_pos (s : St) (c : Nat) (h : 0 < parkedOn s c) :
    ∃ w ∈ s.ws, w.pc = .parked c := by
  rw [parkedOn_eq, List.countP_pos_iff] at h
  simpa using h

theorem parkedOn_eq_zero_of (s : St) (c : Nat) (h : ∀ w ∈ s.ws, w.pc ≠ .parked c) : parkedOn s c = 0 := by
  rw [parkedOn_eq, List.countP_eq_zero]
  simpa using h

end Waiters
