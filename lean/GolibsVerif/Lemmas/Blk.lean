import GolibsVerif.Model.Blk
