import GolibsVerif.Model.Lin
