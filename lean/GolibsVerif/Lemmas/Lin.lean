import GolibsVerif.Model.Lin
/-
Helper lemmas for the generic linearizability argument (Props/Lin.lean).
-/
namespace Lin

variable {σ ι ρ : Type}

/-! ### seqRun -/

theorem seqRun_snoc (o : Obj σ ι ρ) (s : σ) (l : List ι) (i : ι) :
    seqRun o s (l ++ [i]) =
      ((o.step (seqRun o s l).1 i).1, (seqRun o s l).2 ++ [(o.step (seqRun o s l).1 i).2]) := by
  induction l generalizing s with
  | nil => simp [seqRun]
  | cons x xs ih =>
    simp only [List.cons_append, seqRun]
    rw [ih]

/-! ### run: generic induction principle -/

theorem run_induct [DecidableEq ρ] (o : Obj σ ι ρ) (P : Sys σ ι ρ → Prop)
    (hstep : ∀ s e s', P s → s.ev o e = some s' → P s')
    (es : List (Ev ι ρ)) (s1 s : Sys σ ι ρ) (h1 : P s1) (h : s1.run o es = some s) : P s := by
  induction es generalizing s1 with
  | nil =>
    simp only [Sys.run, Option.some.injEq] at h
    exact h ▸ h1
  | cons e es ih =>
    simp only [Sys.run] at h
    cases hev : s1.ev o e with
    | none => simp [hev] at h
    | some s' =>
      simp only [hev, Option.bind_some] at h
      exact ih s' (hstep s1 e s' h1 hev) h

/-! ### sequential-history invariant -/

def SeqInv (o : Obj σ ι ρ) (s0 : σ) (s : Sys σ ι ρ) : Prop :=
  seqRun o s0 (s.order.map (·.2.1)) = (s.st, s.order.map (·.2.2))

theorem SeqInv_init (o : Obj σ ι ρ) (s0 : σ) : SeqInv o s0 (Sys.init s0 : Sys σ ι ρ) := by
  simp [SeqInv, Sys.init, seqRun]

theorem SeqInv_step [DecidableEq ρ] (o : Obj σ ι ρ) (s0 : σ) (s : Sys σ ι ρ) (e : Ev ι ρ)
    (s' : Sys σ ι ρ) (hs : SeqInv o s0 s) (h : s.ev o e = some s') : SeqInv o s0 s' := by
  unfold SeqInv at *
  cases e with
  | inv t i =>
    simp only [Sys.ev] at h
    split at h
    · simp only [Option.some.injEq] at h
      subst h
      exact hs
    · simp at h
  | lin t =>
    simp only [Sys.ev] at h
    split at h
    · simp only [Option.some.injEq] at h
      subst h
      simp only [List.map_append, List.map_cons, List.map_nil]
      rw [seqRun_snoc, hs]
    · simp at h
  | ret t r =>
    simp only [Sys.ev] at h
    split at h
    · split at h
      · simp only [Option.some.injEq] at h
        subst h
        exact hs
      · simp at h
    · simp at h

theorem SeqInv_run [DecidableEq ρ] (o : Obj σ ι ρ) (s0 : σ) (es : List (Ev ι ρ))
    (s1 s : Sys σ ι ρ) (h1 : SeqInv o s0 s1) (h : s1.run o es = some s) : SeqInv o s0 s :=
  run_induct o (SeqInv o s0) (fun s e s' => SeqInv_step o s0 s e s') es s1 s h1 h

/-! ### real-time invariant -/

/-- `a` occurs strictly before `b` in `l` -/
def Before (l : List Nat) (a b : Nat) : Prop := ∃ l1 l2, l = l1 ++ a :: l2 ∧ b ∈ l2

def Sys.ids (s : Sys σ ι ρ) : List Nat := s.order.map (·.1)

structure RTInv (s : Sys σ ι ρ) : Prop where
  ids_lt : ∀ x ∈ s.ids, x < s.pos
  nodup : s.ids.Nodup
  pend : ∀ t id i, s.th t = .pending id i → id < s.pos ∧ id ∉ s.ids
  pend_inj : ∀ t t' id i i', s.th t = .pending id i → s.th t' = .pending id i' → t = t'
  linz : ∀ t id i r, s.th t = .linearized id i r → id ∈ s.ids
  ret_mem : ∀ a pa, (a, pa) ∈ s.retPos → a ∈ s.ids
  ret_before : ∀ a pa, (a, pa) ∈ s.retPos → ∀ b ∈ s.ids, pa < b → Before s.ids a b

theorem RTInv_init (s0 : σ) : RTInv (Sys.init s0 : Sys σ ι ρ) := by
  constructor <;> simp [Sys.init, Sys.ids]

theorem setTh_eq (f : Nat → TSt ι ρ) (t : Nat) (v : TSt ι ρ) (x : Nat) :
    setTh f t v x = if x = t then v else f x := rfl

theorem RTInv_step [DecidableEq ρ] (o : Obj σ ι ρ) (s : Sys σ ι ρ) (e : Ev ι ρ)
    (s' : Sys σ ι ρ) (hs : RTInv s) (h : s.ev o e = some s') : RTInv s' := by
  cases e with
  | inv t i =>
    simp only [Sys.ev] at h
    split at h
    · rename_i hidle
      simp only [Option.some.injEq] at h
      subst h
      constructor
      · intro x hx
        exact Nat.lt_succ_of_lt (hs.ids_lt x hx)
      · exact hs.nodup
      · intro t' id i' ht
        simp only [setTh_eq] at ht
        split at ht
        · simp only [TSt.pending.injEq] at ht
          obtain ⟨rfl, _⟩ := ht
          refine ⟨Nat.lt_succ_self _, ?_⟩
          intro hmem
          exact Nat.lt_irrefl _ (hs.ids_lt _ hmem)
        · have := hs.pend t' id i' ht
          exact ⟨Nat.lt_succ_of_lt this.1, this.2⟩
      · intro t1 t2 id i1 i2 h1 h2
        simp only [setTh_eq] at h1 h2
        split at h1 <;> split at h2
        · subst_vars; rfl
        · simp only [TSt.pending.injEq] at h1
          have := (hs.pend t2 id i2 h2).1
          omega
        · simp only [TSt.pending.injEq] at h2
          have := (hs.pend t1 id i1 h1).1
          omega
        · exact hs.pend_inj t1 t2 id i1 i2 h1 h2
      · intro t' id i' r ht
        simp only [setTh_eq] at ht
        split at ht
        · simp at ht
        · exact hs.linz t' id i' r ht
      · exact hs.ret_mem
      · exact hs.ret_before
    · simp at h
  | lin t =>
    simp only [Sys.ev] at h
    split at h
    · rename_i id i hpend
      simp only [Option.some.injEq] at h
      subst h
      have hid := hs.pend t id i hpend
      have hids' : ∀ (r : ρ) (s2 : Sys σ ι ρ), s2.order = s.order ++ [(id, i, r)] →
          s2.ids = s.ids ++ [id] := by
        intro r s2 h2; simp [Sys.ids, h2]
      have hids := hids' _ _ (rfl : ({ s with
            st := (o.step s.st i).1,
            th := setTh s.th t (.linearized id i (o.step s.st i).2), pos := s.pos + 1,
            order := s.order ++ [(id, i, (o.step s.st i).2)] } : Sys σ ι ρ).order = _)
      constructor
      · intro x hx
        rw [hids] at hx
        simp only [List.mem_append, List.mem_singleton] at hx
        rcases hx with hx | rfl
        · exact Nat.lt_succ_of_lt (hs.ids_lt x hx)
        · exact Nat.lt_succ_of_lt hid.1
      · rw [hids]
        rw [List.nodup_append]
        refine ⟨hs.nodup, by simp, ?_⟩
        intro a ha b hb
        simp only [List.mem_singleton] at hb
        subst hb
        intro hab
        subst hab
        exact hid.2 ha
      · intro t' id' i' ht
        rw [hids]
        simp only [setTh_eq] at ht
        split at ht
        · simp at ht
        · rename_i hne
          have h' := hs.pend t' id' i' ht
          refine ⟨Nat.lt_succ_of_lt h'.1, ?_⟩
          simp only [List.mem_append, List.mem_singleton, not_or]
          refine ⟨h'.2, ?_⟩
          intro heq
          subst heq
          exact hne (hs.pend_inj t' t id' i' i ht hpend)
      · intro t1 t2 id' i1 i2 h1 h2
        simp only [setTh_eq] at h1 h2
        split at h1
        · simp at h1
        · split at h2
          · simp at h2
          · exact hs.pend_inj t1 t2 id' i1 i2 h1 h2
      · intro t' id' i' r ht
        rw [hids]
        simp only [setTh_eq] at ht
        split at ht
        · simp only [TSt.linearized.injEq] at ht
          obtain ⟨rfl, _, _⟩ := ht
          simp
        · have := hs.linz t' id' i' r ht
          simp [this]
      · intro a pa ha
        rw [hids]
        have := hs.ret_mem a pa ha
        simp [this]
      · intro a pa ha b hb hlt
        rw [hids] at hb ⊢
        simp only [List.mem_append, List.mem_singleton] at hb
        rcases hb with hb | rfl
        · obtain ⟨l1, l2, hl, hb2⟩ := hs.ret_before a pa ha b hb hlt
          refine ⟨l1, l2 ++ [id], ?_, ?_⟩
          · rw [hl]; simp
          · simp [hb2]
        · obtain ⟨l1, l2, hl⟩ := List.append_of_mem (hs.ret_mem a pa ha)
          refine ⟨l1, l2 ++ [b], ?_, ?_⟩
          · rw [hl]; simp
          · simp
    · simp at h
  | ret t r =>
    simp only [Sys.ev] at h
    split at h
    · rename_i id i r' hlin
      split at h
      · simp only [Option.some.injEq] at h
        subst h
        have hmem := hs.linz t id i r' hlin
        constructor
        · intro x hx
          exact Nat.lt_succ_of_lt (hs.ids_lt x hx)
        · exact hs.nodup
        · intro t' id' i' ht
          simp only [setTh_eq] at ht
          split at ht
          · simp at ht
          · have := hs.pend t' id' i' ht
            exact ⟨Nat.lt_succ_of_lt this.1, this.2⟩
        · intro t1 t2 id' i1 i2 h1 h2
          simp only [setTh_eq] at h1 h2
          split at h1
          · simp at h1
          · split at h2
            · simp at h2
            · exact hs.pend_inj t1 t2 id' i1 i2 h1 h2
        · intro t' id' i' r'' ht
          simp only [setTh_eq] at ht
          split at ht
          · simp at ht
          · exact hs.linz t' id' i' r'' ht
        · intro a pa ha
          simp only [List.mem_append, List.mem_singleton, Prod.mk.injEq] at ha
          rcases ha with ha | ⟨rfl, _⟩
          · exact hs.ret_mem a pa ha
          · exact hmem
        · intro a pa ha b hb hlt
          simp only [List.mem_append, List.mem_singleton, Prod.mk.injEq] at ha
          rcases ha with ha | ⟨rfl, rfl⟩
          · exact hs.ret_before a pa ha b hb hlt
          · have : b < s.pos := hs.ids_lt b hb
            omega
      · simp at h
    · simp at h

theorem RTInv_run [DecidableEq ρ] (o : Obj σ ι ρ) (es : List (Ev ι ρ))
    (s1 s : Sys σ ι ρ) (h1 : RTInv s1) (h : s1.run o es = some s) : RTInv s :=
  run_induct o RTInv (fun s e s' => RTInv_step o s e s') es s1 s h1 h

/-! ### from `Before` to `idxOf?` -/

theorem idxOf?_isSome_of_mem {l : List Nat} {b : Nat} (h : b ∈ l) : ∃ i, l.idxOf? b = some i := by
  cases hb : l.idxOf? b with
  | none => exact absurd h (List.idxOf?_eq_none_iff.mp hb)
  | some i => exact ⟨i, rfl⟩

theorem idxOf?_of_split (l1 l2 : List Nat) (a b : Nat) (hnd : (l1 ++ a :: l2).Nodup)
    (hb : b ∈ l2) :
    ∃ ia ib, (l1 ++ a :: l2).idxOf? a = some ia ∧ (l1 ++ a :: l2).idxOf? b = some ib ∧ ia < ib := by
  induction l1 with
  | nil =>
    simp only [List.nil_append, List.nodup_cons] at hnd
    obtain ⟨ib, hib⟩ := idxOf?_isSome_of_mem hb
    have hne : a ≠ b := fun h => hnd.1 (h ▸ hb)
    refine ⟨0, ib + 1, ?_, ?_, Nat.succ_pos _⟩
    · simp [List.idxOf?_cons]
    · simp [List.idxOf?_cons, hne, hib]
  | cons x xs ih =>
    simp only [List.cons_append, List.nodup_cons] at hnd
    obtain ⟨ia, ib, h1, h2, hlt⟩ := ih hnd.2
    have hxa : x ≠ a := fun h => hnd.1 (by simp [h])
    have hxb : x ≠ b := fun h => hnd.1 (by simp [h, hb])
    refine ⟨ia + 1, ib + 1, ?_, ?_, Nat.succ_lt_succ hlt⟩
    · simp only [List.cons_append, List.idxOf?_cons]
      simp [hxa, h1]
    · simp only [List.cons_append, List.idxOf?_cons]
      simp [hxb, h2]

theorem Before.idxOf? {l : List Nat} {a b : Nat} (hnd : l.Nodup) (h : Before l a b) :
    ∃ ia ib, l.idxOf? a = some ia ∧ l.idxOf? b = some ib ∧ ia < ib := by
  obtain ⟨l1, l2, rfl, hb⟩ := h
  exact idxOf?_of_split l1 l2 a b hnd hb

end Lin
