import GolibsVerif.Model.Zip
/-
Helper lemmas for property C20 (Zip helpers).
-/
namespace Zip

/-! ### cleanAbs -/

/-- one step of `cleanAbs` -/
def cleanStep (acc : Path) (s : String) : Path :=
  if s = "" ∨ s = "." then acc else if s = ".." then acc.dropLast else acc ++ [s]

theorem cleanAbs_eq_foldl (segs : List String) : cleanAbs segs = segs.foldl cleanStep [] := rfl

theorem validSeg_iff (s : String) :
    validSeg s = true ↔ s ≠ "" ∧ s ≠ "." ∧ s ≠ ".." ∧ ¬ s.contains '/' = true := by
  simp [validSeg, Bool.and_eq_true, and_assoc]

theorem mem_of_mem_dropLast {α} {a : α} {l : List α} (h : a ∈ l.dropLast) : a ∈ l := by
  rw [List.dropLast_eq_take] at h
  exact List.mem_of_mem_take h

theorem foldl_cleanStep_clean (segs : List String) :
    ∀ acc : Path, (∀ s ∈ acc, s ≠ "" ∧ s ≠ "." ∧ s ≠ "..") →
      ∀ s ∈ segs.foldl cleanStep acc, s ≠ "" ∧ s ≠ "." ∧ s ≠ ".." := by
  induction segs with
  | nil => intro acc h; simpa using h
  | cons x xs ih =>
    intro acc h
    rw [List.foldl_cons]
    apply ih
    unfold cleanStep
    split
    · exact h
    · rename_i h1
      split
      · intro s hs; exact h s (mem_of_mem_dropLast hs)
      · rename_i h2
        intro s hs
        rcases List.mem_append.1 hs with hs | hs
        · exact h s hs
        · have : s = x := by simpa using hs
          subst this
          exact ⟨fun e => h1 (Or.inl e), fun e => h1 (Or.inr e), h2⟩

theorem foldl_cleanStep_valid (segs : List String) (hv : ∀ s ∈ segs, validSeg s = true) :
    ∀ acc : Path, segs.foldl cleanStep acc = acc ++ segs := by
  induction segs with
  | nil => intro acc; simp
  | cons x xs ih =>
    intro acc
    have hx := (validSeg_iff x).1 (hv x (by simp))
    rw [List.foldl_cons, ih (fun s hs => hv s (by simp [hs]))]
    simp [cleanStep, hx.1, hx.2.1, hx.2.2.1]

theorem cleanAbs_valid (p : List String) (hv : ∀ s ∈ p, validSeg s = true) : cleanAbs p = p := by
  rw [cleanAbs_eq_foldl, foldl_cleanStep_valid p hv]; simp

theorem target_entryName (dest : Path) (hd : ∀ s ∈ dest, validSeg s = true) (rel : List String)
    (hr : ∀ s ∈ rel, validSeg s = true) : target dest (entryName rel) = dest ++ rel := by
  unfold target entryName
  rw [cleanAbs_eq_foldl, List.foldl_append, foldl_cleanStep_valid dest hd, List.foldl_cons]
  have : cleanStep ([] ++ dest) "" = dest := by simp [cleanStep]
  rw [this, foldl_cleanStep_valid rel hr]

/-! ### mkdirAll / dirChain -/

theorem mem_dirChain {base p x : Path} :
    x ∈ dirChain base p ↔ ∃ n, n ≤ p.length ∧ base.length < n ∧ x = p.take n := by
  simp only [dirChain, List.mem_map, List.mem_filter, List.mem_range, decide_eq_true_eq]
  constructor
  · rintro ⟨n, ⟨h1, h2⟩, rfl⟩; exact ⟨n, by omega, h2, rfl⟩
  · rintro ⟨n, h1, h2, rfl⟩; exact ⟨n, ⟨by omega, h2⟩, rfl⟩

theorem mkdirAll_some {fs fs1 : FS} {dest d : Path} (h : fs.mkdirAll dest d = some fs1) :
    (dirChain dest d).any fs.isFile = false ∧ fs1.files = fs.files ∧
      fs1.dirs = fs.dirs ++ (dirChain dest d).filter (fun x => !fs.dirs.contains x) := by
  unfold FS.mkdirAll at h
  simp only at h
  split at h
  · cases h
  · rename_i hc
    cases h
    exact ⟨by simpa using hc, rfl, rfl⟩

theorem mkdirAll_eq_some {fs : FS} {dest d : Path} (h : (dirChain dest d).any fs.isFile = false) :
    fs.mkdirAll dest d = some { fs with dirs := fs.dirs ++ (dirChain dest d).filter (fun x => !fs.dirs.contains x) } := by
  unfold FS.mkdirAll
  simp [h]

/-- every directory created on the way to `(dest ++ r).dropLast` is inside dest -/
theorem dirChain_inside {dest r x : Path} (hr : r ≠ [])
    (hx : x ∈ dirChain dest (dest ++ r).dropLast) :
    ∃ k, 0 < k ∧ k < r.length ∧ x = dest ++ r.take k := by
  rw [List.dropLast_append_of_ne_nil hr] at hx
  obtain ⟨n, h1, h2, rfl⟩ := mem_dirChain.1 hx
  simp only [List.length_append, List.length_dropLast] at h1
  have hlen : 0 < r.length := List.length_pos_iff.2 hr
  refine ⟨n - dest.length, by omega, by omega, ?_⟩
  have : n = dest.length + (n - dest.length) := by omega
  rw [this, List.take_length_add_append, List.dropLast_eq_take, List.take_take]
  congr 2
  omega

/-! ### the containment invariant -/

def Confined (dest : Path) (fs : FS) : Prop :=
  (∀ f ∈ fs.files, inside dest f.1 = true ∧ f.1 ≠ dest) ∧ (∀ d ∈ fs.dirs, inside dest d = true)

theorem inside_append (dest r : Path) : inside dest (dest ++ r) = true := by
  simp [inside]

theorem inside_iff {dest t : Path} : inside dest t = true ↔ ∃ r, t = dest ++ r := by
  unfold inside
  rw [List.isPrefixOf_iff_prefix]
  constructor
  · rintro ⟨r, rfl⟩; exact ⟨r, rfl⟩
  · rintro ⟨r, rfl⟩; exact ⟨r, rfl⟩

theorem cleanStep_prefix (acc : Path) (s : String) :
    acc <+: cleanStep acc s ∨ cleanStep acc s <+: acc := by
  unfold cleanStep
  split
  · exact Or.inl (List.prefix_refl _)
  · split
    · exact Or.inr (List.dropLast_prefix _)
    · exact Or.inl (List.prefix_append _ _)

/-- the target of the directory part of a name and the target of the name are comparable -/
theorem target_dropLast_prefix (dest : Path) (name : List String) :
    target dest name.dropLast <+: target dest name ∨ target dest name <+: target dest name.dropLast := by
  cases hn : name with
  | nil => exact Or.inl (List.prefix_refl _)
  | cons a l =>
    have hne : name ≠ [] := by simp [hn]
    rw [← hn]
    have h : target dest name = cleanStep (target dest name.dropLast) (name.getLast hne) := by
      conv => lhs; rw [← List.dropLast_concat_getLast hne]
      unfold target
      rw [cleanAbs_eq_foldl, cleanAbs_eq_foldl, ← List.append_assoc, List.foldl_append]
      rfl
    rw [h]
    exact cleanStep_prefix _ _

/-- every directory `mkdirAll dest (target dest name.dropLast)` creates is inside dest, provided the
target of the full name is -/
theorem dirChain_target_inside {dest x : Path} {name : List String}
    (hin : inside dest (target dest name) = true)
    (hx : x ∈ dirChain dest (target dest name.dropLast)) : inside dest x = true := by
  obtain ⟨n, h1, h2, rfl⟩ := mem_dirChain.1 hx
  have hpt : dest <+: target dest name := List.isPrefixOf_iff_prefix.1 hin
  have hpd : dest <+: target dest name.dropLast := by
    rcases target_dropLast_prefix dest name with h | h
    · exact List.prefix_of_prefix_length_le hpt h (by omega)
    · exact List.IsPrefix.trans hpt h
  obtain ⟨r, hr⟩ := hpd
  rw [← hr]
  have : n = dest.length + (n - dest.length) := by omega
  rw [this, List.take_length_add_append]
  exact inside_append _ _

theorem mkdirAll_confined {dest : Path} {fs fs1 : FS} {name : List String}
    (hin : inside dest (target dest name) = true) (hc : Confined dest fs)
    (hmk : fs.mkdirAll dest (target dest name.dropLast) = some fs1) : Confined dest fs1 := by
  obtain ⟨-, hf, hdirs⟩ := mkdirAll_some hmk
  refine ⟨by rw [hf]; exact hc.1, ?_⟩
  intro d hd
  simp only [hdirs, List.mem_append, List.mem_filter] at hd
  rcases hd with hd | ⟨hd, -⟩
  · exact hc.2 d hd
  · exact dirChain_target_inside hin hd

/-- the file system after the `EnsureDirExists` step (untouched when the directory part is a regular
file, `mkdirAll` otherwise) is still confined -/
theorem made_confined {dest : Path} {fs fs1 : FS} {name : List String}
    (hin : inside dest (target dest name) = true) (hc : Confined dest fs)
    (hmk : (if fs.isFile (target dest name.dropLast) = true then some fs
      else fs.mkdirAll dest (target dest name.dropLast)) = some fs1) : Confined dest fs1 := by
  split at hmk
  · cases hmk; exact hc
  · exact mkdirAll_confined hin hc hmk

theorem unzipOne_confined {dest : Path} {fs : FS} (e : Entry) (hc : Confined dest fs) :
    Confined dest (unzipOne dest fs e).1 := by
  unfold unzipOne
  split
  · exact hc
  · simp only
    split
    · exact hc
    · rename_i hin
      have hin' : inside dest (target dest e.name) = true := by simpa using hin
      split
      · exact hc
      · rename_i fs1 hmk
        have hc1 : Confined dest fs1 := made_confined hin' hc hmk
        split
        · exact hc1
        · rename_i hne
          split
          · exact hc1
          · refine ⟨?_, hc1.2⟩
            intro f hf'
            simp only [List.mem_append, List.mem_filter, List.mem_singleton] at hf'
            rcases hf' with ⟨hf', -⟩ | rfl
            · exact hc1.1 f hf'
            · exact ⟨hin', fun heq => hne (Or.inl heq)⟩

theorem unzip_confined (dest : Path) (es : List Entry) :
    ∀ fs, Confined dest fs → Confined dest (unzip dest fs es).1 := by
  induction es with
  | nil => intro fs h; exact h
  | cons e es ih =>
    intro fs h
    have h1 := unzipOne_confined e h
    unfold unzip
    split
    · rename_i fs' heq; rw [heq] at h1; exact ih fs' h1
    · rename_i fs' err heq; rw [heq] at h1; exact h1

theorem confined_empty (dest : Path) : Confined dest FS.empty :=
  ⟨by simp [FS.empty], by simp [FS.empty]⟩

theorem unzipOne_escapes {dest : Path} {fs : FS} {e : Entry} (hd : e.isDirEntry = false)
    (he : inside dest (target dest e.name) = false) : unzipOne dest fs e = (fs, some .escapes) := by
  unfold unzipOne
  simp [hd, he]

/-! ### round trip -/

theorem TreeWF.filter {tree : List TFile} (hw : TreeWF tree) (p : TFile → Bool) :
    TreeWF (tree.filter p) := by
  obtain ⟨h1, h2, h3⟩ := hw
  refine ⟨fun f hf => h1 f (List.mem_filter.1 hf).1, ?_,
    fun f hf g hg => h3 f (List.mem_filter.1 hf).1 g (List.mem_filter.1 hg).1⟩
  exact List.Nodup.sublist (List.Sublist.map _ List.filter_sublist) h2

def toEntry (f : TFile) : Entry := { name := entryName f.rel, content := f.content }

theorem zipFolder_eq (tree : List TFile) (keep : List String → Bool) (recursive : Bool) :
    zipFolder tree keep recursive = (selected tree keep recursive).map toEntry := rfl

theorem isDirEntry_toEntry {f : TFile} (hne : f.rel ≠ []) (hv : ∀ s ∈ f.rel, validSeg s = true) :
    (toEntry f).isDirEntry = false := by
  cases hb : (toEntry f).isDirEntry with
  | false => rfl
  | true =>
    exfalso
    have h : ("" :: f.rel).getLast? = some "" := by
      simpa [Entry.isDirEntry, toEntry, entryName] using hb
    cases hrel : f.rel with
    | nil => exact hne hrel
    | cons a l =>
      rw [hrel, List.getLast?_cons_cons] at h
      have hm : "" ∈ f.rel := by rw [hrel]; exact List.mem_of_getLast? h
      have := hv "" hm
      simp [validSeg] at this

theorem target_entryName_dropLast (dest : Path) (hd : ∀ s ∈ dest, validSeg s = true)
    (rel : List String) (hne : rel ≠ []) (hr : ∀ s ∈ rel, validSeg s = true) :
    target dest (entryName rel).dropLast = (dest ++ rel).dropLast := by
  have h1 : (entryName rel).dropLast = entryName rel.dropLast := by
    cases rel with
    | nil => exact absurd rfl hne
    | cons a l => simp [entryName]
  rw [h1, target_entryName dest hd _ (fun s hs => hr s (mem_of_mem_dropLast hs)),
    List.dropLast_append_of_ne_nil hne]

/-- sufficient conditions for one (repaired) extraction step to succeed by appending a new file -/
theorem unzipOne_eq_ok {dest r : Path} {fs : FS} {e : Entry} (hd : e.isDirEntry = false)
    (ht : target dest e.name = dest ++ r) (hdt : target dest e.name.dropLast = (dest ++ r).dropLast)
    (hr : r ≠ [])
    (hchain : (dirChain dest (dest ++ r).dropLast).any fs.isFile = false)
    (hpar : fs.isFile (dest ++ r).dropLast = false)
    (hdir : dest ++ r ∉ fs.dirs) (hfile : ∀ p ∈ fs.files, p.1 ≠ dest ++ r) :
    unzipOne dest fs e = (FS.mk (fs.files ++ [(dest ++ r, e.content)])
      (fs.dirs ++ (dirChain dest (dest ++ r).dropLast).filter (fun x => !fs.dirs.contains x)), none) := by
  have hne : dest ++ r ≠ dest := by
    intro heq; exact hr (List.append_cancel_left (as := dest) (by simpa using heq))
  have hnc : dest ++ r ∉ dirChain dest (dest ++ r).dropLast := by
    intro hx
    obtain ⟨k, -, hk, heq⟩ := dirChain_inside hr hx
    have := congrArg List.length (List.append_cancel_left heq)
    simp at this; omega
  have hfilt : fs.files.filter (·.1 != dest ++ r) = fs.files :=
    List.filter_eq_self.2 (fun p hp => by simpa using hfile p hp)
  unfold unzipOne
  simp only [hd, ht, hdt, hpar, inside_append, mkdirAll_eq_some hchain, FS.isDir]
  simp [hdir, hnc, hne, hfilt]

theorem unzipOne_roundtrip {dest : Path} (hdest : ∀ s ∈ dest, validSeg s = true)
    {done todo : List TFile} {f : TFile} {fs : FS} (hw : TreeWF (done ++ f :: todo))
    (hfiles : fs.files = done.map fun g => (dest ++ g.rel, g.content))
    (hdirs : ∀ d ∈ fs.dirs, ∃ g ∈ done, ∃ k, k < g.rel.length ∧ d = dest ++ g.rel.take k) :
    ∃ fs1, unzipOne dest fs (toEntry f) = (fs1, none) ∧
      fs1.files = (done ++ [f]).map (fun g => (dest ++ g.rel, g.content)) ∧
      ∀ d ∈ fs1.dirs, ∃ g ∈ done ++ [f], ∃ k, k < g.rel.length ∧ d = dest ++ g.rel.take k := by
  obtain ⟨h1, h2, h3⟩ := hw
  have hfmem : f ∈ done ++ f :: todo := by simp
  have hdmem : ∀ g ∈ done, g ∈ done ++ f :: todo := fun g hg => by simp [hg]
  obtain ⟨hne, hv⟩ := h1 f hfmem
  -- no processed file has the same relative path
  have hdistinct : ∀ g ∈ done, g.rel ≠ f.rel := by
    intro g hg
    rw [List.map_append, List.map_cons, List.nodup_append] at h2
    exact h2.2.2 g.rel (List.mem_map.2 ⟨g, hg, rfl⟩) f.rel (by simp)
  -- no directory to be created is an already written regular file
  have hchain : (dirChain dest (dest ++ f.rel).dropLast).any fs.isFile = false := by
    cases hb : (dirChain dest (dest ++ f.rel).dropLast).any fs.isFile with
    | false => rfl
    | true =>
      exfalso
      obtain ⟨x, hx, hxf⟩ := List.any_eq_true.1 hb
      obtain ⟨k, -, hk, rfl⟩ := dirChain_inside hne hx
      unfold FS.isFile at hxf
      obtain ⟨p, hp, hpe⟩ := List.any_eq_true.1 hxf
      rw [hfiles] at hp
      obtain ⟨g, hg, rfl⟩ := List.mem_map.1 hp
      have hge : g.rel = f.rel.take k :=
        List.append_cancel_left (as := dest) (by simpa using hpe)
      have hneq : g.rel ≠ f.rel := hdistinct g hg
      apply h3 g (hdmem g hg) f hfmem hneq
      rw [List.isPrefixOf_iff_prefix, hge]
      exact List.take_prefix _ _
  -- the directory part of the target is not an already written regular file (so `EnsureDirExists`
  -- really goes through MkdirAll and `os.Create` finds a directory)
  have hpar : fs.isFile (dest ++ f.rel).dropLast = false := by
    cases hb : fs.isFile (dest ++ f.rel).dropLast with
    | false => rfl
    | true =>
      exfalso
      unfold FS.isFile at hb
      obtain ⟨p, hp, hpe⟩ := List.any_eq_true.1 hb
      rw [hfiles] at hp
      obtain ⟨g, hg, rfl⟩ := List.mem_map.1 hp
      rw [List.dropLast_append_of_ne_nil hne] at hpe
      have hge : g.rel = f.rel.dropLast :=
        List.append_cancel_left (as := dest) (by simpa using hpe)
      apply h3 g (hdmem g hg) f hfmem (hdistinct g hg)
      rw [List.isPrefixOf_iff_prefix, hge]
      exact List.dropLast_prefix _
  -- the target is not an existing directory
  have hdir : dest ++ f.rel ∉ fs.dirs := by
    intro hmem
    obtain ⟨g, hg, k, hk, heq⟩ := hdirs _ hmem
    have hge : f.rel = g.rel.take k := List.append_cancel_left heq
    have hneq : f.rel ≠ g.rel := fun e => hdistinct g hg e.symm
    apply h3 f hfmem g (hdmem g hg) hneq
    rw [List.isPrefixOf_iff_prefix, hge]
    exact List.take_prefix _ _
  have hfile : ∀ p ∈ fs.files, p.1 ≠ dest ++ f.rel := by
    intro p hp heq
    rw [hfiles] at hp
    obtain ⟨g, hg, rfl⟩ := List.mem_map.1 hp
    exact hdistinct g hg (List.append_cancel_left heq)
  refine ⟨_, unzipOne_eq_ok (isDirEntry_toEntry hne hv) (target_entryName dest hdest f.rel hv)
    (target_entryName_dropLast dest hdest f.rel hne hv) hne hchain hpar hdir hfile, ?_, ?_⟩
  · simp [hfiles, toEntry]
  · intro d hd
    simp only [List.mem_append, List.mem_filter] at hd
    rcases hd with hd | ⟨hd, -⟩
    · obtain ⟨g, hg, k, hk, rfl⟩ := hdirs d hd
      exact ⟨g, by simp [hg], k, hk, rfl⟩
    · obtain ⟨k, -, hk, rfl⟩ := dirChain_inside hne hd
      exact ⟨f, by simp, k, hk, rfl⟩

theorem unzip_roundtrip_aux {dest : Path} (hdest : ∀ s ∈ dest, validSeg s = true)
    (todo : List TFile) : ∀ (done : List TFile) (fs : FS), TreeWF (done ++ todo) →
      fs.files = done.map (fun g => (dest ++ g.rel, g.content)) →
      (∀ d ∈ fs.dirs, ∃ g ∈ done, ∃ k, k < g.rel.length ∧ d = dest ++ g.rel.take k) →
      ∃ fs', unzip dest fs (todo.map toEntry) = (fs', none) ∧
        fs'.files = (done ++ todo).map (fun g => (dest ++ g.rel, g.content)) := by
  induction todo with
  | nil => intro done fs _ hf _; exact ⟨fs, rfl, by simpa using hf⟩
  | cons f todo ih =>
    intro done fs hw hf hdirs
    obtain ⟨fs1, hok, hf1, hd1⟩ := unzipOne_roundtrip hdest hw hf hdirs
    have hw' : TreeWF ((done ++ [f]) ++ todo) := by simpa using hw
    obtain ⟨fs', hu, hf'⟩ := ih (done ++ [f]) fs1 hw' hf1 hd1
    refine ⟨fs', ?_, by simpa using hf'⟩
    rw [List.map_cons, unzip, hok]
    exact hu

theorem unzip_zipFolder {dest : Path} (hdest : ∀ s ∈ dest, validSeg s = true) {tree : List TFile}
    (hw : TreeWF tree) (keep : List String → Bool) (recursive : Bool) :
    ∃ fs', unzip dest FS.empty (zipFolder tree keep recursive) = (fs', none) ∧
      fs'.files = (selected tree keep recursive).map (fun g => (dest ++ g.rel, g.content)) := by
  have hsel : TreeWF ([] ++ selected tree keep recursive) := hw.filter _
  have := unzip_roundtrip_aux hdest (selected tree keep recursive) [] FS.empty hsel rfl
    (by simp [FS.empty])
  simpa [zipFolder_eq] using this

/-! ### the directory part of the target is an existing regular file (`os.Open` succeeds on it) -/

/-- entry "x/." where "x" is a regular file: nothing is created and the file is overwritten -/
example : unzipOne ["d"] { files := [(["d", "x"], "old")], dirs := [] } { name := ["x", "."], content := "new" } =
    ({ files := [(["d", "x"], "new")], dirs := [] }, none) := by decide

/-- entry "x/y" where "x" is a regular file: `os.Create` fails, nothing is created -/
example : unzipOne ["d"] { files := [(["d", "x"], "old")], dirs := [] } { name := ["x", "y"], content := "new" } =
    ({ files := [(["d", "x"], "old")], dirs := [] }, some .ioError) := by decide

end Zip
