import GolibsVerif.Lemmas.BlkArith
/-! Geometry validation (`getBlocksInSegment`, `newBlocks`). -/
namespace Blk

theorem pow2_int_iff (n : Nat) : (∃ k, (n : Int) = 2 ^ k) ↔ n.isPowerOfTwo := by
  unfold Nat.isPowerOfTwo
  constructor
  · rintro ⟨k, hk⟩; exact ⟨k, by exact_mod_cast hk⟩
  · rintro ⟨k, hk⟩; exact ⟨k, by exact_mod_cast hk⟩

theorem validGeom_nat_iff (P n : Nat) :
    ValidGeom P (n : Int) ↔ 0 < n ∧ ((n < P ∧ n &&& (n - 1) = 0) ∨ (P ≤ n ∧ (n : Int) % P = 0)) := by
  unfold ValidGeom
  by_cases hn : n = 0
  · subst hn; simp
  · rw [pow2_int_iff, ← Nat.and_sub_one_eq_zero_iff_isPowerOfTwo hn]
    constructor
    · rintro ⟨h0, h⟩; exact ⟨by omega, by omega⟩
    · rintro ⟨h0, h⟩; exact ⟨by omega, by omega⟩

theorem not_validGeom_of_nonpos (P : Nat) (bs : Int) (h : bs ≤ 0) : ¬ ValidGeom P bs := by
  unfold ValidGeom; omega

theorem getBlocksInSegment_nat (P n : Nat) :
    (ValidGeom P (n : Int) ∧ getBlocksInSegment P (n : Int) = (n : Int) * 8 + 1) ∨
    (¬ ValidGeom P (n : Int) ∧ getBlocksInSegment P (n : Int) = -1) := by
  rw [validGeom_nat_iff]
  unfold getBlocksInSegment
  simp only [Int.toNat_natCast]
  by_cases h0 : (n : Int) ≤ 0
  · right; simp only [h0, ↓reduceIte, and_true]; omega
  · simp only [h0, ↓reduceIte]
    by_cases h1 : (n : Int) < P
    · simp only [h1, ↓reduceIte]
      by_cases h2 : n &&& (n - 1) = 0
      · left; simp only [h2, ne_eq, not_true_eq_false, ↓reduceIte, and_true]; omega
      · right; simp only [ne_eq, h2, not_false_eq_true, ↓reduceIte, and_true]
        rintro ⟨_, (⟨_, h⟩ | ⟨h, _⟩)⟩ <;> omega
    · simp only [h1, ↓reduceIte]
      by_cases h2 : (n : Int) % P = 0
      · left; simp only [h2, ne_eq, not_true_eq_false, ↓reduceIte, and_true]; omega
      · right; simp only [ne_eq, h2, not_false_eq_true, ↓reduceIte, and_true]
        rintro ⟨_, (⟨h, _⟩ | ⟨_, h⟩)⟩ <;> omega

theorem getBlocksInSegment_cases (P : Nat) (bs : Int) :
    (ValidGeom P bs ∧ 0 < bs ∧ getBlocksInSegment P bs = bs * 8 + 1) ∨
    (¬ ValidGeom P bs ∧ getBlocksInSegment P bs = -1) := by
  by_cases h : bs ≤ 0
  · right; exact ⟨not_validGeom_of_nonpos P bs h, by simp [getBlocksInSegment, h]⟩
  · obtain ⟨n, rfl⟩ : ∃ n : Nat, bs = n := ⟨bs.toNat, by omega⟩
    rcases getBlocksInSegment_nat P n with ⟨a, b⟩ | ⟨a, b⟩
    · left; exact ⟨a, by omega, b⟩
    · right; exact ⟨a, b⟩

theorem newBlocks_of_not_valid (P : Nat) (bs : Int) (mem : List Nat) (fit : Bool)
    (h : ¬ ValidGeom P bs) : newBlocks P bs mem fit = .error .invalid := by
  rcases getBlocksInSegment_cases P bs with ⟨a, _⟩ | ⟨_, b⟩
  · exact absurd a h
  · simp [newBlocks, b]

/-- the constructor on a valid natural block size -/
theorem newBlocks_of_valid (P n : Nat) (mem : List Nat) (fit : Bool) (h : ValidGeom P (n : Int)) :
    newBlocks P (n : Int) mem fit =
      if mem.length < (8 * n + 1) * n ∨ (fit = true ∧ mem.length % ((8 * n + 1) * n) ≠ 0) then .error .invalid else
      .ok { bs := n, segs := mem.length / ((8 * n + 1) * n), freeIdx := 0,
            avail := countFree n (mem.length / ((8 * n + 1) * n)) mem, mem := mem } := by
  unfold newBlocks
  rcases getBlocksInSegment_nat P n with ⟨a, b⟩ | ⟨a, b⟩
  · have e : ((n : Int) * 8 + 1).toNat = 8 * n + 1 := by omega
    have : ¬ ((n : Int) * 8 + 1 < 0) := by omega
    simp only [b, Int.toNat_natCast, e, this, ↓reduceIte]
  · exact absurd h a

end Blk
