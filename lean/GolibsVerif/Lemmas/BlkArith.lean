import GolibsVerif.Model.Blk
/-! Arithmetic and bit-level facts for the block allocator (C17). -/
namespace Blk

/-! ### offsets `s * Z + p` -/

theorem succ_mul_le {s s' Z : Nat} (h : s < s') : s * Z + Z ≤ s' * Z := by
  have := Nat.mul_le_mul_right Z (Nat.succ_le_of_lt h)
  rwa [Nat.succ_mul] at this

theorem lex_lt_iff {Z s p s' p' : Nat} (hp : p < Z) (hp' : p' < Z) :
    s * Z + p < s' * Z + p' ↔ (s < s' ∨ (s = s' ∧ p < p')) := by
  rcases Nat.lt_trichotomy s s' with h | h | h
  · have := succ_mul_le (Z := Z) h; constructor <;> intro _ <;> omega
  · subst h; constructor <;> intro _ <;> omega
  · have := succ_mul_le (Z := Z) h; constructor <;> intro _ <;> omega

theorem off_inj {Z s p s' p' : Nat} (hp : p < Z) (hp' : p' < Z) (h : s * Z + p = s' * Z + p') :
    s = s' ∧ p = p' := by
  rcases Nat.lt_trichotomy s s' with h1 | h1 | h1
  · have := succ_mul_le (Z := Z) h1; omega
  · subst h1; omega
  · have := succ_mul_le (Z := Z) h1; omega

theorem off_div {Z s p : Nat} (hp : p < Z) : (s * Z + p) / Z = s := by
  have hZ : 0 < Z := by omega
  rw [Nat.mul_comm, Nat.mul_add_div hZ, Nat.div_eq_of_lt hp]; rfl

theorem off_mod {Z s p : Nat} (hp : p < Z) : (s * Z + p) % Z = p := by
  rw [Nat.mul_comm, Nat.mul_add_mod, Nat.mod_eq_of_lt hp]

theorem mul_lt_of_lt {s n Z r : Nat} (hs : s < n) (hr : r ≤ Z) : s * Z + r ≤ n * Z := by
  have := succ_mul_le (Z := Z) hs; omega

/-- `segmSize` is a multiple of `bs` and at least `bs` -/
theorem segm_ge (bs : Nat) : bs ≤ (8 * bs + 1) * bs := by
  rw [Nat.add_mul]; omega

theorem segm_mod_bs {bs s p : Nat} (hp : p < bs) : (s * ((8 * bs + 1) * bs) + p) % bs = p := by
  rw [← Nat.mul_assoc, Nat.mul_add_mod', Nat.mod_eq_of_lt hp]

/-! ### block index ↔ (segment, byte, bit) -/

theorem idx_decode {bs s p j : Nat} (hp : p < bs) (hj : j < 8) :
    (s * (8 * bs) + p * 8 + j) / (8 * bs) = s ∧
    ((s * (8 * bs) + p * 8 + j) % (8 * bs)) / 8 = p ∧
    ((s * (8 * bs) + p * 8 + j) % (8 * bs)) % 8 = j := by
  have h : p * 8 + j < 8 * bs := by omega
  rw [Nat.add_assoc, off_div h, off_mod h]
  omega

theorem idx_encode (K i : Nat) : i = (i / K) * K + (i % K / 8) * 8 + i % K % 8 := by
  have := Nat.div_add_mod i K
  rw [Nat.mul_comm] at this
  omega

theorem idx_byte_lt {bs i : Nat} (hbs : 0 < bs) : i % (8 * bs) / 8 < bs := by
  have := Nat.mod_lt i (show 0 < 8 * bs by omega)
  omega

theorem idx_seg_lt {bs segs i : Nat} (hbs : 0 < bs) : i / (8 * bs) < segs ↔ i < segs * (8 * bs) :=
  Nat.div_lt_iff_lt_mul (by omega)

/-! ### bytes -/

theorem byte_or_and : ∀ v : Fin 256, ∀ j j' : Fin 8,
    ((v.val ||| 1 <<< j.val) &&& 1 <<< j'.val = 0) = (j' ≠ j ∧ v.val &&& 1 <<< j'.val = 0) := by
  decide +kernel

theorem byte_clr_and : ∀ v : Fin 256, ∀ j j' : Fin 8,
    ((v.val &&& (0xFF ^^^ 1 <<< j.val)) &&& 1 <<< j'.val = 0) = (j' = j ∨ v.val &&& 1 <<< j'.val = 0) := by
  decide +kernel

theorem byte_or_lt : ∀ v : Fin 256, ∀ j : Fin 8, v.val ||| 1 <<< j.val < 256 := by decide +kernel

theorem byte_ff : ∀ j : Fin 8, 255 &&& 1 <<< j.val ≠ 0 := by decide

theorem byte_ne_ff : ∀ v : Fin 256, v.val ≠ 255 → ∃ j : Fin 8, v.val &&& 1 <<< j.val = 0 := by
  decide +kernel

theorem or_and_zero {v j j' : Nat} (hv : v < 256) (hj : j < 8) (hj' : j' < 8) :
    ((v ||| 1 <<< j) &&& 1 <<< j' = 0) ↔ (j' ≠ j ∧ v &&& 1 <<< j' = 0) := by
  have := byte_or_and ⟨v, hv⟩ ⟨j, hj⟩ ⟨j', hj'⟩
  simp only [ne_eq, Fin.ext_iff] at this
  exact Iff.of_eq this

theorem clr_and_zero {v j j' : Nat} (hv : v < 256) (hj : j < 8) (hj' : j' < 8) :
    ((v &&& (0xFF ^^^ 1 <<< j)) &&& 1 <<< j' = 0) ↔ (j' = j ∨ v &&& 1 <<< j' = 0) := by
  have := byte_clr_and ⟨v, hv⟩ ⟨j, hj⟩ ⟨j', hj'⟩
  simp only [Fin.ext_iff] at this
  exact Iff.of_eq this

theorem or_lt {v j : Nat} (hv : v < 256) (hj : j < 8) : v ||| 1 <<< j < 256 :=
  byte_or_lt ⟨v, hv⟩ ⟨j, hj⟩

theorem ff_and {j : Nat} (hj : j < 8) : 255 &&& 1 <<< j ≠ 0 := byte_ff ⟨j, hj⟩

/-! ### `firstZeroBit`, `scanHdr` -/

theorem firstZeroBit_some {v j : Nat} (h : firstZeroBit v = some j) :
    j < 8 ∧ v &&& 1 <<< j = 0 ∧ ∀ j', j' < j → v &&& 1 <<< j' ≠ 0 := by
  unfold firstZeroBit at h
  rw [List.find?_range_eq_some] at h
  simp only [beq_iff_eq, List.mem_range, Bool.not_eq_true', beq_eq_false_iff_ne] at h
  simp only [ne_eq]
  exact ⟨h.2.1, h.1, h.2.2⟩

theorem firstZeroBit_ne_none {v : Nat} (hv : v < 256) (h : v ≠ 255) : firstZeroBit v ≠ none := by
  intro hn
  unfold firstZeroBit at hn
  rw [List.find?_range_eq_none] at hn
  obtain ⟨j, hj⟩ := byte_ne_ff ⟨v, hv⟩ h
  have := hn j.val j.isLt
  simp [hj] at this

/-- soundness of the header scan over bytes -/
theorem scanHdr_spec : ∀ (l : List Nat) (pos : Nat), (∀ x ∈ l, x < 256) →
    match scanHdr l pos with
    | none => ∀ x ∈ l, x = 255
    | some (p, j) => ∃ k, k < l.length ∧ p = pos + k ∧ (∀ k', k' < k → l.getD k' 0 = 255) ∧
        firstZeroBit (l.getD k 0) = some j
  | [], pos, _ => by simp [scanHdr]
  | v :: rest, pos, hb => by
    have hv : v < 256 := hb v (by simp)
    have ih := scanHdr_spec rest (pos + 1) (fun x hx => hb x (by simp [hx]))
    unfold scanHdr
    by_cases h : v = 0xFF
    · simp only [h, ne_eq, not_true_eq_false, ↓reduceIte]
      split at ih
      · simpa using ih
      · rename_i p j heq
        obtain ⟨k, hk, hp, hall, hz⟩ := ih
        refine ⟨k + 1, by simp; omega, by omega, ?_, by simpa using hz⟩
        intro k' hk'
        cases k' with
        | zero => simp
        | succ n => simpa using hall n (by omega)
    · simp only [ne_eq, h, not_false_eq_true, ↓reduceIte]
      cases hz : firstZeroBit v with
      | none => exact absurd hz (firstZeroBit_ne_none hv h)
      | some j => exact ⟨0, by simp, by omega, by intro k' hk'; omega, by simpa using hz⟩

end Blk
