import GolibsVerif.Lemmas.KvSim
/-
Version freshness facts about the contract, and sorted-list membership.
-/
namespace Kv

theorem mem_insertSorted {k x : String} {l : List String} : x ∈ insertSorted k l ↔ x = k ∨ x ∈ l := by
  induction l with
  | nil => simp [insertSorted]
  | cons y l ih =>
    unfold insertSorted
    by_cases h : k < y
    · simp [h]
    · simp only [h, if_false, List.mem_cons, ih]
      constructor
      · rintro (h | h | h) <;> simp [h]
      · rintro (h | h | h) <;> simp [h]

theorem mem_sortStrings {x : String} {l : List String} : x ∈ sortStrings l ↔ x ∈ l := by
  unfold sortStrings
  induction l with
  | nil => simp
  | cons y l ih => simp only [List.foldr_cons, mem_insertSorted, ih, List.mem_cons]

/-! ### nextVer bookkeeping -/

theorem Spec.putMany_nextVer (rs : List (String × String × Option Nat)) : ∀ (s : Spec),
    (rs.foldl (fun st (x : String × String × Option Nat) => (st.write x.1 x.2.1 x.2.2).1) s).nextVer
      = s.nextVer + rs.length := by
  induction rs with
  | nil => intro s; rfl
  | cons a rs ih =>
    intro s
    rw [List.foldl_cons, ih]
    simp only [Spec.write, List.length_cons]; omega

/-- the next version never decreases; a write answer `okVer v` hands out exactly `nextVer` -/
theorem Spec.step_ver (s : Spec) (t : Nat) (op : Op) :
    s.nextVer ≤ (s.step t op).1.nextVer ∧
    ∀ v, (s.step t op).2 = .okVer v → v = s.nextVer ∧ (s.step t op).1.nextVer = s.nextVer + 1 := by
  cases op with
  | create k v e =>
    simp only [Spec.step]
    cases s.live t k <;> simp [Spec.write]
  | get k => simp only [Spec.step]; cases s.live t k <;> simp
  | getMany ks => simp [Spec.step]
  | put k v e => simp [Spec.step, Spec.write]
  | putMany rs => rw [Spec.step_putMany]; simp [Spec.putMany_nextVer]
  | cas k ver v e =>
    simp only [Spec.step]
    cases s.live t k with
    | none => simp
    | some r =>
      by_cases hv : r.ver = ver
      · simp [hv, Spec.write]
      · simp [hv]
  | delete k => simp only [Spec.step]; cases s.live t k <;> simp
  | list pat => simp [Spec.step]
  | wait k ver =>
    simp only [Spec.step]
    cases s.live t k with
    | none => simp
    | some r => by_cases hv : r.ver = ver <;> simp [hv]

/-- stored versions are below `nextVer` -/
def Spec.Below (s : Spec) : Prop := ∀ kr ∈ s.store, kr.2.ver < s.nextVer

theorem Spec.Below.write {s : Spec} (h : s.Below) (k v : String) (e : Option Nat) : (s.write k v e).1.Below := by
  intro kr hkr
  simp only [Spec.write] at hkr ⊢
  rcases Store.mem_put.mp hkr with h1 | h1
  · exact Nat.lt_succ_of_lt (h kr h1.1)
  · subst h1; simp

theorem Spec.Below.putMany (rs : List (String × String × Option Nat)) : ∀ {s : Spec}, s.Below →
    (rs.foldl (fun st (x : String × String × Option Nat) => (st.write x.1 x.2.1 x.2.2).1) s).Below := by
  induction rs with
  | nil => intro s h; exact h
  | cons a rs ih => intro s h; exact ih (h.write _ _ _)

theorem Spec.Below.step {s : Spec} (h : s.Below) (t : Nat) (op : Op) : (s.step t op).1.Below := by
  cases op with
  | create k v e =>
    simp only [Spec.step]
    cases s.live t k with
    | some r => exact h
    | none => exact h.write k v e
  | get k => simp only [Spec.step]; cases s.live t k <;> exact h
  | getMany ks => exact h
  | put k v e => exact h.write k v e
  | putMany rs => rw [Spec.step_putMany]; exact Spec.Below.putMany rs h
  | cas k ver v e =>
    simp only [Spec.step]
    cases s.live t k with
    | none => exact h
    | some r =>
      by_cases hv : r.ver = ver
      · simp only [hv, ne_eq, not_true_eq_false, if_false]; exact h.write k v e
      · simp only [ne_eq, hv, not_false_eq_true, if_true]; exact h
  | delete k =>
    simp only [Spec.step]
    cases s.live t k with
    | none => exact h
    | some r => intro kr hkr; exact h kr (Store.mem_erase.mp hkr).1
  | list pat => exact h
  | wait k ver =>
    simp only [Spec.step]
    cases s.live t k with
    | none => exact h
    | some r => by_cases hv : r.ver = ver <;> simp only [hv, ne_eq, not_true_eq_false, not_false_eq_true, if_false, if_true] <;> exact h

theorem Spec.Below.run (h : Hist) : ∀ {s : Spec}, s.Below → (runSpec s h).1.Below := by
  induction h with
  | nil => intro s hb; exact hb
  | cons a h ih =>
    intro s hb
    obtain ⟨t, op⟩ := a
    simp only [runSpec]
    exact ih (hb.step t op)

theorem Spec.Below.new : Spec.new.Below := by intro kr h; cases h

/-! ### a version that is gone never comes back -/

/-- version `ver` is not the stored version of `k`, and can no longer be handed out -/
def Spec.Dead (s : Spec) (k : String) (ver : Nat) : Prop :=
  ver < s.nextVer ∧ ∀ r, s.store.get k = some r → r.ver ≠ ver

theorem Spec.Dead.write {s : Spec} {k : String} {ver : Nat} (h : s.Dead k ver) (k' v : String) (e : Option Nat) :
    (s.write k' v e).1.Dead k ver := by
  refine ⟨Nat.lt_succ_of_lt h.1, ?_⟩
  intro r hr
  simp only [Spec.write] at hr
  by_cases hk : k' = k
  · subst hk
    rw [Store.get_put_self] at hr
    cases hr
    exact Nat.ne_of_gt h.1
  · rw [Store.get_put_ne _ _ hk] at hr
    exact h.2 r hr

theorem Spec.Dead.putMany {k : String} {ver : Nat} (rs : List (String × String × Option Nat)) :
    ∀ {s : Spec}, s.Dead k ver →
    (rs.foldl (fun st (x : String × String × Option Nat) => (st.write x.1 x.2.1 x.2.2).1) s).Dead k ver := by
  induction rs with
  | nil => intro s h; exact h
  | cons a rs ih => intro s h; exact ih (h.write _ _ _)

theorem Spec.Dead.step {s : Spec} {k : String} {ver : Nat} (h : s.Dead k ver) (t : Nat) (op : Op) :
    (s.step t op).1.Dead k ver := by
  cases op with
  | create k' v e =>
    simp only [Spec.step]
    cases s.live t k' with
    | some r => exact h
    | none => exact h.write k' v e
  | get k' => simp only [Spec.step]; cases s.live t k' <;> exact h
  | getMany ks => exact h
  | put k' v e => exact h.write k' v e
  | putMany rs => rw [Spec.step_putMany]; exact Spec.Dead.putMany rs h
  | cas k' ver' v e =>
    simp only [Spec.step]
    cases s.live t k' with
    | none => exact h
    | some r =>
      by_cases hv : r.ver = ver'
      · simp only [hv, ne_eq, not_true_eq_false, if_false]; exact h.write k' v e
      · simp only [ne_eq, hv, not_false_eq_true, if_true]; exact h
  | delete k' =>
    simp only [Spec.step]
    cases s.live t k' with
    | none => exact h
    | some r =>
      refine ⟨h.1, fun r' hr' => ?_⟩
      simp only at hr'
      by_cases hk : k' = k
      · subst hk; rw [Store.get_erase_self] at hr'; cases hr'
      · rw [Store.get_erase_ne _ hk] at hr'; exact h.2 r' hr'
  | list pat => exact h
  | wait k' ver' =>
    simp only [Spec.step]
    cases s.live t k' with
    | none => exact h
    | some r => by_cases hv : r.ver = ver' <;> simp only [hv, ne_eq, not_true_eq_false, not_false_eq_true, if_false, if_true] <;> exact h

/-- a successful CasByVersion on `(k, ver)` -/
def casHit (k : String) (ver : Nat) (x : (Nat × Op) × Out) : Bool :=
  match x.1.2, x.2 with
  | .cas k' ver' _ _, .okVer _ => k' == k && ver' == ver
  | _, _ => false

/-- what a successful cas tells about the state before and after -/
theorem Spec.cas_ok {s : Spec} {t : Nat} {k v : String} {ver nv : Nat} {e : Option Nat}
    (h : (s.step t (.cas k ver v e)).2 = .okVer nv) :
    (∃ r, s.store.get k = some r ∧ r.ver = ver) ∧ (s.step t (.cas k ver v e)).1 = (s.write k v e).1 := by
  simp only [Spec.step] at h ⊢
  cases hl : s.live t k with
  | none => simp [hl] at h
  | some r =>
    simp only [hl] at h ⊢
    by_cases hv : r.ver = ver
    · simp only [hv, ne_eq, not_true_eq_false, if_false]
      exact ⟨⟨r, (Spec.live_some hl).1, hv⟩, trivial⟩
    · simp [hv] at h

theorem Spec.Dead.no_hit {k : String} {ver : Nat} (h : Hist) : ∀ {s : Spec}, s.Dead k ver →
    ((List.zip h (runSpec s h).2).filter (casHit k ver)).length = 0 := by
  induction h with
  | nil => intros; rfl
  | cons a h ih =>
    intro s hd
    obtain ⟨t, op⟩ := a
    simp only [runSpec, List.zip_cons_cons, List.filter_cons]
    have hrest := ih (hd.step t op)
    have hno : casHit k ver ((t, op), (s.step t op).2) = false := by
      unfold casHit
      cases op with
      | cas k' ver' v e =>
        simp only
        cases ho : (s.step t (.cas k' ver' v e)).2 with
        | okVer nv =>
          simp only
          obtain ⟨⟨r, hr, hrv⟩, _⟩ := Spec.cas_ok ho
          cases hkk : (k' == k && ver' == ver) with
          | false => rfl
          | true =>
            simp at hkk
            obtain ⟨h1, h2⟩ := hkk
            subst h1; subst h2
            exact absurd hrv (hd.2 r hr)
        | _ => rfl
      | _ => rfl
    rw [hno]
    simpa using hrest

theorem Spec.Below.hit_le_one {k : String} {ver : Nat} (h : Hist) : ∀ {s : Spec}, s.Below →
    ((List.zip h (runSpec s h).2).filter (casHit k ver)).length ≤ 1 := by
  induction h with
  | nil => intros; simp
  | cons a h ih =>
    intro s hb
    obtain ⟨t, op⟩ := a
    simp only [runSpec, List.zip_cons_cons, List.filter_cons]
    cases hc : casHit k ver ((t, op), (s.step t op).2) with
    | false => simpa using ih (hb.step t op)
    | true =>
      -- a successful cas on (k, ver): afterwards the version is dead
      have hdead : (s.step t op).1.Dead k ver := by
        unfold casHit at hc
        cases op with
        | cas k' ver' v e =>
          simp only at hc
          cases ho : (s.step t (.cas k' ver' v e)).2 with
          | okVer nv =>
            rw [ho] at hc
            simp at hc
            obtain ⟨h1, h2⟩ := hc
            subst h1; subst h2
            obtain ⟨⟨r, hr, hrv⟩, hst⟩ := Spec.cas_ok ho
            have hlt : ver' < s.nextVer := by
              have := hb (k', r) (Store.get_some_mem hr)
              simpa [hrv] using this
            rw [hst]
            refine ⟨Nat.lt_succ_of_lt hlt, ?_⟩
            intro r' hr'
            simp only [Spec.write] at hr'
            rw [Store.get_put_self] at hr'
            cases hr'
            exact Nat.ne_of_gt hlt
          | _ => rw [ho] at hc; simp at hc
        | _ => simp at hc
      have := Spec.Dead.no_hit h hdead
      simp only [if_true, List.length_cons]
      omega

end Kv
