import GolibsVerif.Lemmas.TmoPoolInv
/-
Consequences of the invariant `Inv` for the repaired due test (`fireT ≤ now`): with a future
pending somebody is always responsible, and a due head never leaves the pool stuck.
-/
namespace Tmo.Pool

theorem Responsible_of_Strong {s : St} {f : Nat} {p : WPc} (h : Strong s f p) : Responsible s f p := by
  cases p with
  | top g m => trivial
  | sleeping _ _ _ => exact h.elim
  | exited => exact h.elim

/-- with a future pending some watcher thread is alive -/
theorem Inv.exists_live {c : Cfg} {s : St} (h : Inv c s) {id f : Nat}
    (hh : headOf s.heap = some (id, f)) : ∃ (j : Nat) (p : WPc), s.threads[j]? = some p ∧ p ≠ .exited := by
  have h1 := h.ne id f hh
  rw [h.wl] at h1
  exact exists_live_of_pos h1

/-- index form of someone_responsible -/
theorem Inv.responsible {c : Cfg} {s : St} (h : Inv c s) {id f : Nat}
    (hh : headOf s.heap = some (id, f)) :
    (∃ (j : Nat) (p : WPc), s.threads[j]? = some p ∧ Responsible s f p) ∨
    (0 < s.tokens ∧ ∃ (j d mis : Nat) (cp : Bool), s.threads[j]? = some (.sleeping d mis cp)) := by
  obtain ⟨j, p, hj, hp⟩ := h.exists_live hh
  by_cases ht : s.tokens = 0
  · left
    rcases h.key id f hh ht with hall | ⟨k, q, hk, hs⟩ | ⟨k, m, cp, hk⟩
    · cases p with
      | top g m => exact ⟨j, _, hj, trivial⟩
      | sleeping d m cp => exact ⟨j, _, hj, hall j d m cp hj⟩
      | exited => exact absurd rfl hp
    · exact ⟨k, q, hk, Responsible_of_Strong hs⟩
    · exact ⟨k, _, hk, Nat.le_refl f⟩
  · cases p with
    | top g m => exact Or.inl ⟨j, _, hj, trivial⟩
    | sleeping d m cp => exact Or.inr ⟨by omega, j, d, m, cp, hj⟩
    | exited => exact absurd rfl hp

/-- a due head leaves some non-sleep watcher step enabled -/
theorem Inv.not_stuck {c : Cfg} {s : St} (h : Inv c s) {id f : Nat}
    (hh : headOf s.heap = some (id, f)) (hdue : f ≤ s.now) :
    (∃ (i : Nat) (g : Option Nat) (mis : Nat), s.threads[i]? = some (WPc.top g mis)) ∨
    (∃ (i : Nat) (d : Nat) (mis : Nat) (cp : Bool), s.threads[i]? = some (WPc.sleeping d mis cp) ∧
      (d ≤ s.now ∨ 0 < s.tokens)) := by
  rcases h.responsible hh with ⟨j, p, hj, hr⟩ | ⟨ht, j, d, m, cp, hj⟩
  · cases p with
    | top g m => exact Or.inl ⟨j, g, m, hj⟩
    | sleeping d m cp =>
      have hd : d ≤ f := hr
      exact Or.inr ⟨j, d, m, cp, hj, Or.inl (Nat.le_trans hd hdue)⟩
    | exited => exact hr.elim
  · exact Or.inr ⟨j, d, m, cp, hj, Or.inr ht⟩

/-- the section of an awake watcher that finds the head due pops it -/
theorem secT_due (c : Cfg) (s0 : St) (i m id fireT : Nat) {q : WPc} (hi : s0.threads[i]? = some q)
    (hh : headOf s0.heap = some (id, fireT)) (hd : fireT ≤ s0.now) :
    (secT c s0 i m).threads[i]? = some (WPc.top (some id) m) ∧
    (secT c s0 i m).heap = s0.heap.filter (·.1 != id) := by
  have ho := secT_out c s0 i m
  generalize secT c s0 i m = t at ho
  cases ho with
  | exitEmpty hh' _ => rw [hh] at hh'; cases hh'
  | sleepIdle hh' _ => rw [hh] at hh'; cases hh'
  | popSpawn a b a2 b2 hh' _ _ _ _ =>
    rw [hh] at hh'; cases hh'
    exact ⟨get_set_self (get_append hi), rfl⟩
  | pop a b hh' _ _ =>
    rw [hh] at hh'; cases hh'
    exact ⟨get_set_self hi, rfl⟩
  | exitBusy a b hh' hnd _ _ => rw [hh] at hh'; cases hh'; omega
  | sleepCapped a b hh' hnd _ _ => rw [hh] at hh'; cases hh'; omega
  | sleepUncapped a b hh' hnd _ => rw [hh] at hh'; cases hh'; omega

end Tmo.Pool
