import GolibsVerif.Model.RedisConc
import GolibsVerif.Lemmas.Lin
import GolibsVerif.Lemmas.Kv
/-! helper lemmas for Props/C02Redis.lean: the WATCH invariant of `RedisConc` and the shape of
every command step -/
namespace RedisConc
open Kv Lin

/-! ### touch -/

def touchE (ks : List String) : Option (String × Bool) → Option (String × Bool)
  | some (k, d) => some (k, d || ks.contains k)
  | none => none

theorem touch_eq (w : List (Option (String × Bool))) (ks : List String) :
    touch w ks = w.map (touchE ks) := by
  unfold touch
  apply List.map_congr_left
  intro e _
  cases e with
  | none => rfl
  | some x => cases x; rfl

@[simp] theorem touch_length (w : List (Option (String × Bool))) (ks : List String) :
    (touch w ks).length = w.length := by
  rw [touch_eq]; simp

theorem touch_getElem? (w : List (Option (String × Bool))) (ks : List String) (t : Nat) :
    (touch w ks)[t]? = w[t]?.map (touchE ks) := by
  rw [touch_eq]; simp

theorem touchE_nil (e : Option (String × Bool)) : touchE [] e = e := by
  cases e with
  | none => rfl
  | some x => cases x; simp [touchE]

@[simp] theorem touch_nil (w : List (Option (String × Bool))) : touch w [] = w := by
  rw [touch_eq]
  have : touchE [] = id := by funext e; exact touchE_nil e
  rw [this]; simp

/-! ### store frame lemmas -/

theorem live_congr {s s' : Spec} {k : String} (h : s'.store.get k = s.store.get k) (now : Nat) :
    s'.live now k = s.live now k := by
  unfold Spec.live; rw [h]

theorem putMany_get_ne (k : String) (rs : List (String × String × Option Nat)) :
    ∀ (s : Spec), (rs.map (·.1)).contains k = false →
      (rs.foldl (fun st (x : String × String × Option Nat) => (st.write x.1 x.2.1 x.2.2).1) s).store.get k
        = s.store.get k := by
  induction rs with
  | nil => intro s _; rfl
  | cons a rs ih =>
    intro s h
    simp only [List.map_cons, List.contains_cons, Bool.or_eq_false_iff] at h
    simp only [List.foldl_cons]
    rw [ih _ h.2]
    simp only [Spec.write]
    apply Store.get_put_ne
    intro he
    have := h.1
    simp [he] at this

/-! ### the WATCH invariant -/

/-- what the watch slot of a client must look like, given its program counter -/
def WOk (srv : Spec) (p : Pc) (w : Option (Option (String × Bool))) : Prop :=
  match p with
  | .casExec k ver _ => ∃ d, w = some (some (k, d)) ∧ (d = false → ∃ r, srv.live 0 k = some r ∧ r.ver = ver)
  | .casGet k _ _ => ∃ d, w = some (some (k, d))
  | _ => True

structure WInv (s : St) : Prop where
  len : s.watch.length = s.pc.length
  ok : ∀ (t : Nat) (p : Pc), s.pc[t]? = some p → WOk s.srv p s.watch[t]?

theorem WOk_frame {srv srv' : Spec} {ks : List String}
    (hf : ∀ k, ks.contains k = false → srv'.store.get k = srv.store.get k)
    {p : Pc} {w : Option (Option (String × Bool))} (h : WOk srv p w) :
    WOk srv' p (w.map (touchE ks)) := by
  cases p with
  | casExec k ver v =>
    obtain ⟨d, rfl, hd⟩ := h
    refine ⟨d || ks.contains k, rfl, ?_⟩
    intro hfalse
    rw [Bool.or_eq_false_iff] at hfalse
    obtain ⟨r, hr, hv⟩ := hd hfalse.1
    exact ⟨r, by rw [live_congr (hf k hfalse.2)]; exact hr, hv⟩
  | casGet k ver v =>
    obtain ⟨d, rfl⟩ := h
    exact ⟨d || ks.contains k, rfl⟩
  | _ => trivial

theorem WInv.update {s : St} (hi : WInv s) {srv' : Spec} {ks : List String}
    (hf : ∀ k, ks.contains k = false → srv'.store.get k = s.srv.store.get k)
    {t : Nat} {p' : Pc} {W : List (Option (String × Bool))} (hlen : W.length = s.watch.length)
    (hoth : ∀ t', t' ≠ t → W[t']? = (touch s.watch ks)[t']?)
    (hself : t < s.pc.length → WOk srv' p' W[t]?) :
    WInv { srv := srv', pc := s.pc.set t p', watch := W } := by
  constructor
  · simp [hlen, hi.len]
  · intro t' p hp
    simp only at hp ⊢
    by_cases htt : t' = t
    · subst htt
      rw [List.getElem?_set_self'] at hp
      by_cases hlt : t' < s.pc.length
      · have : s.pc[t']?.isSome = true := by simp [hlt]
        cases hq : s.pc[t']? with
        | none => simp [hq] at this
        | some q =>
          simp [hq] at hp
          subst hp
          exact hself hlt
      · have : s.pc[t']? = none := by simp; omega
        simp [this] at hp
    · rw [List.getElem?_set_ne (Ne.symm htt)] at hp
      rw [hoth t' htt, touch_getElem?]
      exact WOk_frame hf (hi.ok t' p hp)

theorem WInv.init (n : Nat) : WInv (St.init n) := by
  constructor
  · simp [St.init]
  · intro t p hp
    simp only [St.init] at hp
    rw [List.getElem?_replicate] at hp
    split at hp
    · cases hp; trivial
    · cases hp

theorem write_get_ne (s : Spec) (k v : String) (e : Option Nat) (k' : String)
    (h : [k].contains k' = false) : (s.write k v e).1.store.get k' = s.store.get k' := by
  simp only [Spec.write]
  apply Store.get_put_ne
  intro he; simp [he] at h

theorem erase_get_ne (st : Store) (k k' : String)
    (h : [k].contains k' = false) : (st.erase k).get k' = st.get k' := by
  apply Store.get_erase_ne
  intro he; simp [he] at h

theorem WInv.cmdStep {s s' : St} {t : Nat} {b : Bool} (hi : WInv s) (h : cmdStep s t = some (s', b)) :
    WInv s' := by
  unfold RedisConc.cmdStep at h
  cases hp : s.pc[t]? with
  | none => simp [hp] at h
  | some p =>
    rw [hp] at h
    have hlt : t < s.watch.length := by
      rw [hi.len]
      exact (List.getElem?_eq_some_iff.mp hp).1
    cases p with
    | idle => simp at h
    | done r => simp at h
    | create1 k v =>
      simp only at h
      split at h
      · simp only [Option.some.injEq, Prod.mk.injEq] at h; obtain ⟨rfl, rfl⟩ := h
        exact hi.update (ks := []) (fun _ _ => rfl) (by simp) (by simp) (fun _ => trivial)
      · simp only [Option.some.injEq, Prod.mk.injEq] at h; obtain ⟨rfl, rfl⟩ := h
        exact hi.update (ks := [k]) (write_get_ne _ _ _ _) (by simp) (by simp) (fun _ => trivial)
    | create2 k v =>
      simp only at h
      split at h
      · simp only [Option.some.injEq, Prod.mk.injEq] at h; obtain ⟨rfl, rfl⟩ := h
        exact hi.update (ks := []) (fun _ _ => rfl) (by simp) (by simp) (fun _ => trivial)
      · simp only [Option.some.injEq, Prod.mk.injEq] at h; obtain ⟨rfl, rfl⟩ := h
        exact hi.update (ks := []) (fun _ _ => rfl) (by simp) (by simp) (fun _ => trivial)
    | get k =>
      simp only [Option.some.injEq, Prod.mk.injEq] at h; obtain ⟨rfl, rfl⟩ := h
      exact hi.update (ks := []) (fun _ _ => rfl) (by simp) (by simp) (fun _ => trivial)
    | getMany ks =>
      simp only [Option.some.injEq, Prod.mk.injEq] at h; obtain ⟨rfl, rfl⟩ := h
      exact hi.update (ks := []) (fun _ _ => rfl) (by simp) (by simp) (fun _ => trivial)
    | put k v =>
      simp only [Option.some.injEq, Prod.mk.injEq] at h; obtain ⟨rfl, rfl⟩ := h
      exact hi.update (ks := [k]) (write_get_ne _ _ _ _) (by simp) (by simp) (fun _ => trivial)
    | putMany rs =>
      simp only [Option.some.injEq, Prod.mk.injEq] at h; obtain ⟨rfl, rfl⟩ := h
      refine hi.update (ks := rs.map (·.1)) ?_ (by simp) (by simp) (fun _ => trivial)
      intro k hk
      rw [Spec.step_putMany]
      simp only
      apply putMany_get_ne
      simpa [List.map_map] using hk
    | del k =>
      simp only at h
      split at h
      · simp only [Option.some.injEq, Prod.mk.injEq] at h; obtain ⟨rfl, rfl⟩ := h
        exact hi.update (ks := []) (fun _ _ => rfl) (by simp) (by simp) (fun _ => trivial)
      · simp only [Option.some.injEq, Prod.mk.injEq] at h; obtain ⟨rfl, rfl⟩ := h
        exact hi.update (ks := [k]) (erase_get_ne _ _) (by simp) (by simp) (fun _ => trivial)
    | casWatch k ver v =>
      simp only [Option.some.injEq, Prod.mk.injEq] at h; obtain ⟨rfl, rfl⟩ := h
      refine hi.update (ks := []) (fun _ _ => rfl) (by simp) ?_ ?_
      · intro t' ht; simp [List.getElem?_set_ne (Ne.symm ht)]
      · intro _; exact ⟨false, by simp [hlt]⟩
    | casGet k ver v =>
      have hw := hi.ok t _ hp
      obtain ⟨d, hd⟩ := hw
      simp only at h
      split at h
      · simp only [Option.some.injEq, Prod.mk.injEq] at h; obtain ⟨rfl, rfl⟩ := h
        refine hi.update (ks := []) (fun _ _ => rfl) (by simp) ?_ (fun _ => trivial)
        intro t' ht; simp [List.getElem?_set_ne (Ne.symm ht)]
      · rename_i r hr
        split at h
        · simp only [Option.some.injEq, Prod.mk.injEq] at h; obtain ⟨rfl, rfl⟩ := h
          refine hi.update (ks := []) (fun _ _ => rfl) (by simp) ?_ (fun _ => trivial)
          intro t' ht; simp [List.getElem?_set_ne (Ne.symm ht)]
        · rename_i hv
          simp only [Option.some.injEq, Prod.mk.injEq] at h; obtain ⟨rfl, rfl⟩ := h
          refine hi.update (ks := []) (fun _ _ => rfl) (by simp) (by simp) ?_
          intro _
          refine ⟨d, hd, fun _ => ⟨r, hr, ?_⟩⟩
          simpa using hv
    | casExec k ver v =>
      simp only at h
      split at h
      · simp only [Option.some.injEq, Prod.mk.injEq] at h; obtain ⟨rfl, rfl⟩ := h
        refine hi.update (ks := [k]) (write_get_ne _ _ _ _) (by simp) ?_ (fun _ => trivial)
        intro t' ht; simp [List.getElem?_set_ne (Ne.symm ht)]
      · simp only [Option.some.injEq, Prod.mk.injEq] at h; obtain ⟨rfl, rfl⟩ := h
        refine hi.update (ks := []) (fun _ _ => rfl) (by simp) ?_ (fun _ => trivial)
        intro t' ht; simp [List.getElem?_set_ne (Ne.symm ht)]

theorem cmdStep_shape {s s' : St} {t : Nat} {b : Bool} (hi : WInv s) (h : cmdStep s t = some (s', b)) :
    ∃ p op, s.pc[t]? = some p ∧ opOf p = some op ∧
      ((b = true ∧ s'.srv = (s.srv.step 0 op).1 ∧ s'.pc = s.pc.set t (.done (s.srv.step 0 op).2)) ∨
       (b = false ∧ s'.srv = s.srv ∧ ∃ p', opOf p' = some op ∧ s'.pc = s.pc.set t p')) := by
  unfold RedisConc.cmdStep at h
  cases hp : s.pc[t]? with
  | none => simp [hp] at h
  | some p =>
    rw [hp] at h
    refine ⟨p, ?_⟩
    cases p with
    | idle => simp at h
    | done r => simp at h
    | create1 k v =>
      refine ⟨_, rfl, rfl, ?_⟩
      simp only at h
      split at h
      · simp only [Option.some.injEq, Prod.mk.injEq] at h; obtain ⟨rfl, rfl⟩ := h
        exact .inr ⟨rfl, rfl, _, rfl, rfl⟩
      · rename_i hl
        simp only [Option.some.injEq, Prod.mk.injEq] at h; obtain ⟨rfl, rfl⟩ := h
        refine .inl ⟨rfl, ?_, ?_⟩ <;> simp [Spec.step, hl, St.setPc]
    | create2 k v =>
      refine ⟨_, rfl, rfl, ?_⟩
      simp only at h
      split at h
      · rename_i r hl
        simp only [Option.some.injEq, Prod.mk.injEq] at h; obtain ⟨rfl, rfl⟩ := h
        refine .inl ⟨rfl, ?_, ?_⟩ <;> simp [Spec.step, hl, St.setPc]
      · simp only [Option.some.injEq, Prod.mk.injEq] at h; obtain ⟨rfl, rfl⟩ := h
        exact .inr ⟨rfl, rfl, .create1 k v, rfl, rfl⟩
    | get k =>
      refine ⟨_, rfl, rfl, ?_⟩
      simp only [Option.some.injEq, Prod.mk.injEq] at h; obtain ⟨rfl, rfl⟩ := h
      refine .inl ⟨rfl, ?_, rfl⟩
      simp only [St.setPc, Spec.step]; split <;> rfl
    | getMany ks =>
      refine ⟨_, rfl, rfl, ?_⟩
      simp only [Option.some.injEq, Prod.mk.injEq] at h; obtain ⟨rfl, rfl⟩ := h
      exact .inl ⟨rfl, rfl, rfl⟩
    | put k v =>
      refine ⟨_, rfl, rfl, ?_⟩
      simp only [Option.some.injEq, Prod.mk.injEq] at h; obtain ⟨rfl, rfl⟩ := h
      exact .inl ⟨rfl, rfl, rfl⟩
    | putMany rs =>
      refine ⟨_, rfl, rfl, ?_⟩
      simp only [Option.some.injEq, Prod.mk.injEq] at h; obtain ⟨rfl, rfl⟩ := h
      refine .inl ⟨rfl, rfl, ?_⟩
      rw [Spec.step_putMany]; rfl
    | del k =>
      refine ⟨_, rfl, rfl, ?_⟩
      simp only at h
      split at h
      · rename_i hl
        simp only [Option.some.injEq, Prod.mk.injEq] at h; obtain ⟨rfl, rfl⟩ := h
        refine .inl ⟨rfl, ?_, ?_⟩ <;> simp [Spec.step, hl, St.setPc]
      · rename_i r hl
        simp only [Option.some.injEq, Prod.mk.injEq] at h; obtain ⟨rfl, rfl⟩ := h
        refine .inl ⟨rfl, ?_, ?_⟩ <;> simp [Spec.step, hl, St.setPc]
    | casWatch k ver v =>
      refine ⟨_, rfl, rfl, ?_⟩
      simp only [Option.some.injEq, Prod.mk.injEq] at h; obtain ⟨rfl, rfl⟩ := h
      exact .inr ⟨rfl, rfl, .casGet k ver v, rfl, rfl⟩
    | casGet k ver v =>
      refine ⟨_, rfl, rfl, ?_⟩
      simp only at h
      split at h
      · rename_i hl
        simp only [Option.some.injEq, Prod.mk.injEq] at h; obtain ⟨rfl, rfl⟩ := h
        refine .inl ⟨rfl, ?_, ?_⟩ <;> simp [Spec.step, hl, St.setPc]
      · rename_i r hl
        split at h
        · rename_i hv
          simp only [Option.some.injEq, Prod.mk.injEq] at h; obtain ⟨rfl, rfl⟩ := h
          refine .inl ⟨rfl, ?_, ?_⟩ <;> simp [Spec.step, hl, St.setPc, hv]
        · simp only [Option.some.injEq, Prod.mk.injEq] at h; obtain ⟨rfl, rfl⟩ := h
          exact .inr ⟨rfl, rfl, .casExec k ver v, rfl, rfl⟩
    | casExec k ver v =>
      refine ⟨_, rfl, rfl, ?_⟩
      obtain ⟨d, hd, hr⟩ := hi.ok t _ hp
      simp only at h
      split at h
      · rename_i k' hw
        rw [hd] at hw
        simp only [Option.some.injEq, Prod.mk.injEq] at hw
        obtain ⟨r, hl, hv⟩ := hr hw.2
        simp only [Option.some.injEq, Prod.mk.injEq] at h; obtain ⟨rfl, rfl⟩ := h
        refine .inl ⟨rfl, ?_, ?_⟩ <;> simp [Spec.step, hl, St.setPc, hv]
      · simp only [Option.some.injEq, Prod.mk.injEq] at h; obtain ⟨rfl, rfl⟩ := h
        exact .inr ⟨rfl, rfl, .casWatch k ver v, rfl, rfl⟩

/-! ### entry / opOf -/

theorem putMany_roundtrip (rs : List (String × String × Option Nat))
    (h : rs.all (fun r => r.2.2.isNone) = true) :
    (rs.map fun r => (r.1, r.2.1)).map (fun (r : String × String) => (r.1, r.2, (none : Option Nat))) = rs := by
  induction rs with
  | nil => rfl
  | cons a rs ih =>
    simp only [List.all_cons, Bool.and_eq_true] at h
    obtain ⟨k, v, e⟩ := a
    cases e with
    | some x => simp at h
    | none => simp only [List.map_cons, ih h.2]

theorem entry_opOf {op : Op} {p : Pc} (h : entry op = some p) : opOf p = some op := by
  cases op with
  | create k v e => cases e <;> simp [entry] at h; subst h; rfl
  | get k => simp [entry] at h; subst h; rfl
  | getMany ks => simp [entry] at h; subst h; rfl
  | put k v e => cases e <;> simp [entry] at h; subst h; rfl
  | putMany rs =>
    simp only [entry] at h
    split at h
    · rename_i hall
      simp only [Option.some.injEq] at h; subst h
      simp only [opOf, putMany_roundtrip rs hall]
    · cases h
  | cas k ver v e => cases e <;> simp [entry] at h; subst h; rfl
  | delete k => simp [entry] at h; subst h; rfl
  | list p => simp [entry] at h
  | wait k ver => simp [entry] at h

theorem entry_WOk {op : Op} {p : Pc} (h : entry op = some p) (srv : Spec)
    (w : Option (Option (String × Bool))) : WOk srv p w := by
  cases op with
  | create k v e => cases e <;> simp [entry] at h; subst h; trivial
  | get k => simp [entry] at h; subst h; trivial
  | getMany ks => simp [entry] at h; subst h; trivial
  | put k v e => cases e <;> simp [entry] at h; subst h; trivial
  | putMany rs =>
    simp only [entry] at h
    split at h
    · simp only [Option.some.injEq] at h; subst h; trivial
    · cases h
  | cas k ver v e => cases e <;> simp [entry] at h; subst h; trivial
  | delete k => simp [entry] at h; subst h; trivial
  | list p => simp [entry] at h
  | wait k ver => simp [entry] at h

/-! ### the invariant along runs -/

theorem WInv.step {s s' : St} {e : Ev} {l : List (Lin.Ev Op Out)} (hi : WInv s)
    (h : step s e = some (s', l)) : WInv s' := by
  cases e with
  | call t op =>
    simp only [RedisConc.step] at h
    split at h
    · rename_i p hp he
      simp only [Option.some.injEq, Prod.mk.injEq] at h; obtain ⟨rfl, rfl⟩ := h
      exact hi.update (ks := []) (fun _ _ => rfl) (by simp) (by simp) (fun _ => entry_WOk he _ _)
    · cases h
  | cmd t =>
    simp only [RedisConc.step] at h
    cases hc : RedisConc.cmdStep s t with
    | none => simp [hc] at h
    | some x =>
      obtain ⟨s1, b⟩ := x
      simp only [hc, Option.map_some, Option.some.injEq, Prod.mk.injEq] at h
      obtain ⟨rfl, _⟩ := h
      exact hi.cmdStep hc
  | ret t r =>
    simp only [RedisConc.step] at h
    split at h
    · split at h
      · simp only [Option.some.injEq, Prod.mk.injEq] at h; obtain ⟨rfl, rfl⟩ := h
        exact hi.update (ks := []) (fun _ _ => rfl) (by simp) (by simp) (fun _ => trivial)
      · cases h
    · cases h

theorem runL_cons {s : St} {e : Ev} {es : List Ev} {s'' : St} {ls : List (Lin.Ev Op Out)}
    (h : runL s (e :: es) = some (s'', ls)) :
    ∃ s' l ls', step s e = some (s', l) ∧ runL s' es = some (s'', ls') ∧ ls = l ++ ls' := by
  simp only [runL] at h
  cases hs : step s e with
  | none => simp [hs] at h
  | some x =>
    obtain ⟨s', l⟩ := x
    simp only [hs] at h
    cases hr : runL s' es with
    | none => simp [hr] at h
    | some y =>
      obtain ⟨s2, ls'⟩ := y
      simp only [hr, Option.map_some, Option.some.injEq, Prod.mk.injEq] at h
      obtain ⟨rfl, rfl⟩ := h
      exact ⟨s', l, ls', rfl, hr, rfl⟩

theorem WInv.runL {es : List Ev} : ∀ {s s' : St} {ls : List (Lin.Ev Op Out)}, WInv s →
    runL s es = some (s', ls) → WInv s' := by
  induction es with
  | nil => intro s s' ls hi h; simp only [RedisConc.runL, Option.some.injEq, Prod.mk.injEq] at h; exact h.1 ▸ hi
  | cons e es ih =>
    intro s s' ls hi h
    obtain ⟨s1, l, ls', hs, hr, _⟩ := runL_cons h
    exact ih (hi.step hs) hr

/-! ### Lin.Sys.run over an append -/

theorem run_append {σ ι ρ : Type} [DecidableEq ρ] (o : Obj σ ι ρ) (l1 l2 : List (Lin.Ev ι ρ)) :
    ∀ (L : Sys σ ι ρ), L.run o (l1 ++ l2) = (L.run o l1).bind fun L' => L'.run o l2 := by
  induction l1 with
  | nil => intro L; simp [Sys.run]
  | cons e l1 ih =>
    intro L
    simp only [List.cons_append, Sys.run]
    cases L.ev o e with
    | none => rfl
    | some L1 => simp only [Option.bind_some]; exact ih L1

/-- the shape of a command step that needs no invariant -/
theorem cmdStep_weak {s s' : St} {t : Nat} {b : Bool} (h : cmdStep s t = some (s', b)) :
    ∃ p, s.pc[t]? = some p ∧
      ((b = true ∧ ∃ r, s'.pc = s.pc.set t (.done r)) ∨
       (b = false ∧ s'.srv = s.srv ∧ ∃ p', s'.pc = s.pc.set t p' ∧ opOf p' = opOf p)) := by
  unfold RedisConc.cmdStep at h
  cases hp : s.pc[t]? with
  | none => simp [hp] at h
  | some p =>
    rw [hp] at h
    refine ⟨p, rfl, ?_⟩
    cases p <;> simp only [reduceCtorEq] at h <;> (repeat' split at h) <;>
      simp only [Option.some.injEq, Prod.mk.injEq] at h <;> obtain ⟨rfl, rfl⟩ := h <;>
      first
        | exact .inl ⟨rfl, _, rfl⟩
        | exact .inr ⟨rfl, rfl, _, rfl, rfl⟩

/-- used by the non-vacuity examples -/
theorem exists_of_isSome {α β : Type} {x : Option (α × β)} (h : x.isSome = true) :
    ∃ a b, x = some (a, b) := by
  cases x with
  | none => cases h
  | some p => exact ⟨p.1, p.2, rfl⟩

end RedisConc
