import GolibsVerif.Model.RedisConc
import GolibsVerif.Lemmas.Lin
import GolibsVerif.Lemmas.RedisSrv
/-! helper lemmas for Props/C02Redis.lean: the WATCH invariant of `RedisConc` and the shape of
every command step -/
namespace RedisConc
open Kv Lin

/-! ### touch -/

def touchE (ks : List String) : Option (String × Bool) → Option (String × Bool)
  | some (k, d) => some (k, d || ks.contains k)
  | none => none

theorem touch_eq (w : List (Option (String × Bool))) (ks : List String) :
    touch w ks = w.map (touchE ks) := by
  unfold touch
  apply List.map_congr_left
  intro e _
  cases e with
  | none => rfl
  | some x => cases x; rfl

@[simp] theorem touch_length (w : List (Option (String × Bool))) (ks : List String) :
    (touch w ks).length = w.length := by
  rw [touch_eq]; simp

theorem touch_getElem? (w : List (Option (String × Bool))) (ks : List String) (t : Nat) :
    (touch w ks)[t]? = w[t]?.map (touchE ks) := by
  rw [touch_eq]; simp

theorem touchE_nil (e : Option (String × Bool)) : touchE [] e = e := by
  cases e with
  | none => rfl
  | some x => cases x; simp [touchE]

@[simp] theorem touch_nil (w : List (Option (String × Bool))) : touch w [] = w := by
  rw [touch_eq]
  have : touchE [] = id := by funext e; exact touchE_nil e
  rw [this]; simp

/-! ### server frame lemmas: what a command leaves untouched, as seen through the purge at `now` -/

theorem contains_single {k k' : String} (h : [k].contains k' = false) : k' ≠ k := by
  intro he; simp [he] at h

theorem setRec_get_ne (c : Redis) (now : Nat) (k v : String) (e : Option Nat) (k' : String)
    (h : [rKey k].contains k' = false) :
    ((c.setRec now k v e).1.srv.purge now).get k' = (c.srv.purge now).get k' := by
  simp only [Redis.setRec]
  exact RedisSrv.get_purge_set_ne _ _ _ (contains_single h)

theorem psrv_get (s : St) (k : String) : (s.psrv.srv.purge s.now).get k = (s.srv.srv.purge s.now).get k := by
  simp only [St.psrv, RedisSrv.purge_purge]

theorem psrv_setRec_get_ne (s : St) (k v : String) (e : Option Nat) (k' : String)
    (h : [rKey k].contains k' = false) :
    ((s.psrv.setRec s.now k v e).1.srv.purge s.now).get k' = (s.srv.srv.purge s.now).get k' := by
  rw [setRec_get_ne _ _ _ _ _ _ h, psrv_get]

theorem psrv_del_get_ne (s : St) (k k' : String) (h : [k].contains k' = false) :
    ((s.psrv.srv.del k).purge s.now).get k' = (s.srv.srv.purge s.now).get k' := by
  rw [RedisSrv.get_purge_del_ne _ _ (contains_single h), psrv_get]

theorem putMany_get_ne (now : Nat) (k : String) (rs : List (String × String × Option Nat)) :
    ∀ (c : Redis), (rs.map (fun x => rKey x.1)).contains k = false →
      ((rs.foldl (fun st (x : String × String × Option Nat) => (st.setRec now x.1 x.2.1 x.2.2).1) c).srv.purge now).get k
        = (c.srv.purge now).get k := by
  induction rs with
  | nil => intro c _; rfl
  | cons a rs ih =>
    intro c h
    simp only [List.map_cons, List.contains_cons, Bool.or_eq_false_iff] at h
    simp only [List.foldl_cons]
    rw [ih _ h.2]
    apply setRec_get_ne
    simp only [List.contains_cons, List.contains_nil, Bool.or_false]
    exact h.1

theorem Redis.step_putMany' (c : Redis) (now : Nat) (rs : List (String × String × Option Nat)) :
    c.step now (.putMany rs) =
      (rs.foldl (fun st (x : String × String × Option Nat) => (st.setRec now x.1 x.2.1 x.2.2).1)
        { c with srv := c.srv.purge now }, .ok) := by
  unfold Redis.step
  rfl

/-! ### the WATCH invariant -/

/-- what the watch slot of a client must look like, given its program counter: the slot holds the REDIS
key of the CAS; a client about to EXEC whose slot is clean still finds (on the purged server) a key
carrying the version it expects -/
def WOk (srv : Redis) (now : Nat) (p : Pc) (w : Option (Option (String × Bool))) : Prop :=
  match p with
  | .casExec k ver _ _ => ∃ d, w = some (some (rKey k, d)) ∧
      (d = false → ∃ rv, (srv.srv.purge now).get (rKey k) = some rv ∧ rv.r.ver = ver)
  | .casGet k _ _ _ => ∃ d, w = some (some (rKey k, d))
  | _ => True

structure WInv (s : St) : Prop where
  len : s.watch.length = s.pc.length
  ok : ∀ (t : Nat) (p : Pc), s.pc[t]? = some p → WOk s.srv s.now p s.watch[t]?

theorem WOk_frame {srv srv' : Redis} {now : Nat} {ks : List String}
    (hf : ∀ k, ks.contains k = false → (srv'.srv.purge now).get k = (srv.srv.purge now).get k)
    {p : Pc} {w : Option (Option (String × Bool))} (h : WOk srv now p w) :
    WOk srv' now p (w.map (touchE ks)) := by
  cases p with
  | casExec k ver v e =>
    obtain ⟨d, rfl, hd⟩ := h
    refine ⟨d || ks.contains (rKey k), rfl, ?_⟩
    intro hfalse
    rw [Bool.or_eq_false_iff] at hfalse
    obtain ⟨r, hr, hv⟩ := hd hfalse.1
    exact ⟨r, by rw [hf _ hfalse.2]; exact hr, hv⟩
  | casGet k ver v e =>
    obtain ⟨d, rfl⟩ := h
    exact ⟨d || ks.contains (rKey k), rfl⟩
  | _ => trivial

theorem WInv.update {s : St} (hi : WInv s) {srv' : Redis} {ks : List String}
    (hf : ∀ k, ks.contains k = false → (srv'.srv.purge s.now).get k = (s.srv.srv.purge s.now).get k)
    {t : Nat} {p' : Pc} {W : List (Option (String × Bool))} (hlen : W.length = s.watch.length)
    (hoth : ∀ t', t' ≠ t → W[t']? = (touch s.watch ks)[t']?)
    (hself : t < s.pc.length → WOk srv' s.now p' W[t]?) :
    WInv { srv := srv', now := s.now, pc := s.pc.set t p', watch := W } := by
  constructor
  · simp [hlen, hi.len]
  · intro t' p hp
    simp only at hp ⊢
    by_cases htt : t' = t
    · subst htt
      rw [List.getElem?_set_self'] at hp
      by_cases hlt : t' < s.pc.length
      · have : s.pc[t']?.isSome = true := by simp [hlt]
        cases hq : s.pc[t']? with
        | none => simp [hq] at this
        | some q =>
          simp [hq] at hp
          subst hp
          exact hself hlt
      · have : s.pc[t']? = none := by simp; omega
        simp [this] at hp
    · rw [List.getElem?_set_ne (Ne.symm htt)] at hp
      rw [hoth t' htt, touch_getElem?]
      exact WOk_frame hf (hi.ok t' p hp)

theorem WInv.init (n : Nat) : WInv (St.init n) := by
  constructor
  · simp [St.init]
  · intro t p hp
    simp only [St.init] at hp
    rw [List.getElem?_replicate] at hp
    split at hp
    · cases hp; trivial
    · cases hp

theorem WOk_loopNext (srv : Redis) (now : Nat) (rest : List (String × String × Option Nat))
    (w : Option (Option (String × Bool))) : WOk srv now (loopNext rest) w := by
  cases rest <;> trivial

theorem WInv.cmdStep {s s' : St} {t : Nat} {l : List (Lin.Ev LOp Out)} (hi : WInv s)
    (h : cmdStep s t = some (s', l)) : WInv s' := by
  unfold RedisConc.cmdStep at h
  cases hp : s.pc[t]? with
  | none => simp [hp] at h
  | some p =>
    rw [hp] at h
    have hlt : t < s.watch.length := by
      rw [hi.len]
      exact (List.getElem?_eq_some_iff.mp hp).1
    cases p with
    | idle => simp at h
    | done r => simp at h
    | loopDone => simp at h
    | create1 k v e =>
      simp only at h
      split at h
      · simp only [Option.some.injEq, Prod.mk.injEq] at h; obtain ⟨rfl, rfl⟩ := h
        exact hi.update (ks := []) (fun _ _ => rfl) (by simp) (by simp) (fun _ => trivial)
      · simp only [Option.some.injEq, Prod.mk.injEq] at h; obtain ⟨rfl, rfl⟩ := h
        exact hi.update (ks := [rKey k]) (psrv_setRec_get_ne s _ _ _) (by simp) (by simp) (fun _ => trivial)
    | create2 k v e =>
      simp only at h
      split at h
      · simp only [Option.some.injEq, Prod.mk.injEq] at h; obtain ⟨rfl, rfl⟩ := h
        exact hi.update (ks := []) (fun k _ => psrv_get s k) (by simp) (by simp) (fun _ => trivial)
      · simp only [Option.some.injEq, Prod.mk.injEq] at h; obtain ⟨rfl, rfl⟩ := h
        exact hi.update (ks := []) (fun _ _ => rfl) (by simp) (by simp) (fun _ => trivial)
    | get k =>
      simp only [Option.some.injEq, Prod.mk.injEq] at h; obtain ⟨rfl, rfl⟩ := h
      exact hi.update (ks := []) (fun k _ => psrv_get s k) (by simp) (by simp) (fun _ => trivial)
    | getMany ks =>
      simp only [Option.some.injEq, Prod.mk.injEq] at h; obtain ⟨rfl, rfl⟩ := h
      exact hi.update (ks := []) (fun k _ => psrv_get s k) (by simp) (by simp) (fun _ => trivial)
    | put k v e =>
      simp only [Option.some.injEq, Prod.mk.injEq] at h; obtain ⟨rfl, rfl⟩ := h
      exact hi.update (ks := [rKey k]) (psrv_setRec_get_ne s _ _ _) (by simp) (by simp) (fun _ => trivial)
    | putMany rs =>
      simp only [Option.some.injEq, Prod.mk.injEq] at h; obtain ⟨rfl, rfl⟩ := h
      refine hi.update (ks := rs.map (fun r => rKey r.1)) ?_ (by simp) (by simp) (fun _ => trivial)
      intro k hk
      rw [Redis.step_putMany']
      simp only
      rw [putMany_get_ne _ _ _ _ (by simpa [List.map_map] using hk)]
      exact psrv_get s k
    | putLoop rs =>
      cases rs with
      | nil => simp at h
      | cons a rest =>
        obtain ⟨k, v, e⟩ := a
        simp only [Option.some.injEq, Prod.mk.injEq] at h; obtain ⟨rfl, rfl⟩ := h
        exact hi.update (ks := [rKey k]) (psrv_setRec_get_ne s _ _ _) (by simp) (by simp) (fun _ => WOk_loopNext _ _ _ _)
    | del k =>
      simp only at h
      split at h
      · simp only [Option.some.injEq, Prod.mk.injEq] at h; obtain ⟨rfl, rfl⟩ := h
        exact hi.update (ks := []) (fun k _ => psrv_get s k) (by simp) (by simp) (fun _ => trivial)
      · simp only [Option.some.injEq, Prod.mk.injEq] at h; obtain ⟨rfl, rfl⟩ := h
        exact hi.update (ks := [rKey k]) (psrv_del_get_ne s _) (by simp) (by simp) (fun _ => trivial)
    | casWatch k ver v e =>
      simp only [Option.some.injEq, Prod.mk.injEq] at h; obtain ⟨rfl, rfl⟩ := h
      refine hi.update (ks := []) (fun _ _ => rfl) (by simp) ?_ ?_
      · intro t' ht; simp [List.getElem?_set_ne (Ne.symm ht)]
      · intro _; exact ⟨false, by simp [hlt]⟩
    | casGet k ver v e =>
      have hw := hi.ok t _ hp
      obtain ⟨d, hd⟩ := hw
      simp only at h
      split at h
      · simp only [Option.some.injEq, Prod.mk.injEq] at h; obtain ⟨rfl, rfl⟩ := h
        refine hi.update (ks := []) (fun k _ => psrv_get s k) (by simp) ?_ (fun _ => trivial)
        intro t' ht; simp [List.getElem?_set_ne (Ne.symm ht)]
      · rename_i r hr
        split at h
        · simp only [Option.some.injEq, Prod.mk.injEq] at h; obtain ⟨rfl, rfl⟩ := h
          refine hi.update (ks := []) (fun k _ => psrv_get s k) (by simp) ?_ (fun _ => trivial)
          intro t' ht; simp [List.getElem?_set_ne (Ne.symm ht)]
        · rename_i hv
          simp only [Option.some.injEq, Prod.mk.injEq] at h; obtain ⟨rfl, rfl⟩ := h
          refine hi.update (ks := []) (fun _ _ => rfl) (by simp) (by simp) ?_
          intro _
          refine ⟨d, hd, fun _ => ⟨r, hr, ?_⟩⟩
          simpa using hv
    | casExec k ver v e =>
      simp only at h
      split at h
      · simp only [Option.some.injEq, Prod.mk.injEq] at h; obtain ⟨rfl, rfl⟩ := h
        refine hi.update (ks := [rKey k]) (psrv_setRec_get_ne s _ _ _) (by simp) ?_ (fun _ => trivial)
        intro t' ht; simp [List.getElem?_set_ne (Ne.symm ht)]
      · simp only [Option.some.injEq, Prod.mk.injEq] at h; obtain ⟨rfl, rfl⟩ := h
        refine hi.update (ks := []) (fun _ _ => rfl) (by simp) ?_ (fun _ => trivial)
        intro t' ht; simp [List.getElem?_set_ne (Ne.symm ht)]

/-- the shape of every command step: the clock stands still, and the step is
(1) the linearization point of the client's operation: the server takes the step of the sequential
    Redis client model (`Kv.Redis.step`: purge, then act) at the current time and the result is fixed; or
(2) silent: server unchanged, same operation; or
(3) one SET of the PutMany loop: the (purged) server takes a write. -/
theorem cmdStep_shape {s s' : St} {t : Nat} {l : List (Lin.Ev LOp Out)} (hi : WInv s)
    (h : cmdStep s t = some (s', l)) :
    ∃ p, s.pc[t]? = some p ∧ s'.now = s.now ∧
      ((∃ op, opOf p = some op ∧ l = [.lin t] ∧ s'.srv = (s.srv.step s.now op).1 ∧
          s'.pc = s.pc.set t (.done (s.srv.step s.now op).2)) ∨
       (∃ op, opOf p = some op ∧ l = [] ∧ s'.srv = s.srv ∧ ∃ p', opOf p' = some op ∧ s'.pc = s.pc.set t p') ∨
       (∃ k v e rest, p = .putLoop ((k, v, e) :: rest) ∧
          l = [.inv t (.op (.put k v e)), .lin t, .ret t (.okVer s.srv.nextVer)] ∧
          s'.srv = (s.psrv.setRec s.now k v e).1 ∧ s'.pc = s.pc.set t (loopNext rest))) := by
  unfold RedisConc.cmdStep at h
  cases hp : s.pc[t]? with
  | none => simp [hp] at h
  | some p =>
    rw [hp] at h
    refine ⟨p, rfl, ?_⟩
    cases p with
    | idle => simp at h
    | done r => simp at h
    | loopDone => simp at h
    | create1 k v e =>
      simp only at h
      split at h
      · simp only [Option.some.injEq, Prod.mk.injEq] at h; obtain ⟨rfl, rfl⟩ := h
        exact ⟨rfl, .inr (.inl ⟨_, rfl, rfl, rfl, _, rfl, rfl⟩)⟩
      · rename_i hl
        simp only [Option.some.injEq, Prod.mk.injEq] at h; obtain ⟨rfl, rfl⟩ := h
        simp only [St.psrv] at hl
        refine ⟨rfl, .inl ⟨_, rfl, rfl, ?_, ?_⟩⟩ <;> simp [Redis.step, hl, St.setPc, St.psrv]
    | create2 k v e =>
      simp only at h
      split at h
      · rename_i r hl
        simp only [Option.some.injEq, Prod.mk.injEq] at h; obtain ⟨rfl, rfl⟩ := h
        simp only [St.psrv] at hl
        refine ⟨rfl, .inl ⟨_, rfl, rfl, ?_, ?_⟩⟩ <;> simp [Redis.step, hl, St.setPc, St.psrv]
      · simp only [Option.some.injEq, Prod.mk.injEq] at h; obtain ⟨rfl, rfl⟩ := h
        exact ⟨rfl, .inr (.inl ⟨_, rfl, rfl, rfl, .create1 k v e, rfl, rfl⟩)⟩
    | get k =>
      simp only [Option.some.injEq, Prod.mk.injEq] at h; obtain ⟨rfl, rfl⟩ := h
      refine ⟨rfl, .inl ⟨_, rfl, rfl, ?_, rfl⟩⟩
      simp only [St.setPc, Redis.step, St.psrv]; split <;> rfl
    | getMany ks =>
      simp only [Option.some.injEq, Prod.mk.injEq] at h; obtain ⟨rfl, rfl⟩ := h
      exact ⟨rfl, .inl ⟨_, rfl, rfl, rfl, rfl⟩⟩
    | put k v e =>
      simp only [Option.some.injEq, Prod.mk.injEq] at h; obtain ⟨rfl, rfl⟩ := h
      exact ⟨rfl, .inl ⟨_, rfl, rfl, rfl, rfl⟩⟩
    | putMany rs =>
      simp only [Option.some.injEq, Prod.mk.injEq] at h; obtain ⟨rfl, rfl⟩ := h
      refine ⟨rfl, .inl ⟨_, rfl, rfl, rfl, ?_⟩⟩
      rw [Redis.step_putMany']; rfl
    | putLoop rs =>
      cases rs with
      | nil => simp at h
      | cons a rest =>
        obtain ⟨k, v, e⟩ := a
        simp only [Option.some.injEq, Prod.mk.injEq] at h; obtain ⟨rfl, rfl⟩ := h
        exact ⟨rfl, .inr (.inr ⟨k, v, e, rest, rfl, rfl, rfl, rfl⟩)⟩
    | del k =>
      simp only at h
      split at h
      · rename_i hl
        simp only [Option.some.injEq, Prod.mk.injEq] at h; obtain ⟨rfl, rfl⟩ := h
        simp only [St.psrv] at hl
        refine ⟨rfl, .inl ⟨_, rfl, rfl, ?_, ?_⟩⟩ <;> simp [Redis.step, hl, St.setPc, St.psrv]
      · rename_i r hl
        simp only [Option.some.injEq, Prod.mk.injEq] at h; obtain ⟨rfl, rfl⟩ := h
        simp only [St.psrv] at hl
        refine ⟨rfl, .inl ⟨_, rfl, rfl, ?_, ?_⟩⟩ <;> simp [Redis.step, hl, St.setPc, St.psrv]
    | casWatch k ver v e =>
      simp only [Option.some.injEq, Prod.mk.injEq] at h; obtain ⟨rfl, rfl⟩ := h
      exact ⟨rfl, .inr (.inl ⟨_, rfl, rfl, rfl, .casGet k ver v e, rfl, rfl⟩)⟩
    | casGet k ver v e =>
      simp only at h
      split at h
      · rename_i hl
        simp only [Option.some.injEq, Prod.mk.injEq] at h; obtain ⟨rfl, rfl⟩ := h
        simp only [St.psrv] at hl
        refine ⟨rfl, .inl ⟨_, rfl, rfl, ?_, ?_⟩⟩ <;> simp [Redis.step, hl, St.setPc, St.psrv]
      · rename_i r hl
        simp only [St.psrv] at hl
        split at h
        · rename_i hv
          simp only [Option.some.injEq, Prod.mk.injEq] at h; obtain ⟨rfl, rfl⟩ := h
          refine ⟨rfl, .inl ⟨_, rfl, rfl, ?_, ?_⟩⟩ <;> simp [Redis.step, hl, St.setPc, hv, St.psrv]
        · simp only [Option.some.injEq, Prod.mk.injEq] at h; obtain ⟨rfl, rfl⟩ := h
          exact ⟨rfl, .inr (.inl ⟨_, rfl, rfl, rfl, .casExec k ver v e, rfl, rfl⟩)⟩
    | casExec k ver v e =>
      obtain ⟨d, hd, hr⟩ := hi.ok t _ hp
      simp only at h
      split at h
      · rename_i k' hw
        rw [hd] at hw
        simp only [Option.some.injEq, Prod.mk.injEq] at hw
        obtain ⟨r, hl, hv⟩ := hr hw.2
        simp only [Option.some.injEq, Prod.mk.injEq] at h; obtain ⟨rfl, rfl⟩ := h
        refine ⟨rfl, .inl ⟨_, rfl, rfl, ?_, ?_⟩⟩ <;> simp [Redis.step, hl, St.setPc, hv, St.psrv]
      · simp only [Option.some.injEq, Prod.mk.injEq] at h; obtain ⟨rfl, rfl⟩ := h
        exact ⟨rfl, .inr (.inl ⟨_, rfl, rfl, rfl, .casWatch k ver v e, rfl, rfl⟩)⟩

/-! ### entry / opOf -/

theorem putMany_roundtrip (rs : List (String × String × Option Nat))
    (h : rs.all (fun r => r.2.2.isNone) = true) :
    (rs.map fun r => (r.1, r.2.1)).map (fun (r : String × String) => (r.1, r.2, (none : Option Nat))) = rs := by
  induction rs with
  | nil => rfl
  | cons a rs ih =>
    simp only [List.all_cons, Bool.and_eq_true] at h
    obtain ⟨k, v, e⟩ := a
    cases e with
    | some x => simp at h
    | none => simp only [List.map_cons, ih h.2]

/-- a call either starts ONE operation (`opOf`), or it is the loop path of PutMany -/
theorem entry_opOf {op : Op} {p : Pc} (h : entry op = some p) :
    (opOf p = some op ∧ ∀ t, callEvs t op p = [.inv t (.op op)]) ∨
    (∃ rs, p = .putLoop rs ∧ ∀ t, callEvs t op p = []) := by
  cases op with
  | create k v e => simp [entry] at h; subst h; exact .inl ⟨rfl, fun _ => rfl⟩
  | get k => simp [entry] at h; subst h; exact .inl ⟨rfl, fun _ => rfl⟩
  | getMany ks => simp [entry] at h; subst h; exact .inl ⟨rfl, fun _ => rfl⟩
  | put k v e => simp [entry] at h; subst h; exact .inl ⟨rfl, fun _ => rfl⟩
  | putMany rs =>
    simp only [entry] at h
    split at h
    · cases h
    · split at h
      · rename_i hall
        simp only [Option.some.injEq] at h; subst h
        exact .inl ⟨by simp only [opOf, putMany_roundtrip rs hall], fun _ => rfl⟩
      · simp only [Option.some.injEq] at h; subst h
        exact .inr ⟨rs, rfl, fun _ => rfl⟩
  | cas k ver v e => simp [entry] at h; subst h; exact .inl ⟨rfl, fun _ => rfl⟩
  | delete k => simp [entry] at h; subst h; exact .inl ⟨rfl, fun _ => rfl⟩
  | list p => simp [entry] at h
  | wait k ver => simp [entry] at h

theorem entry_WOk {op : Op} {p : Pc} (h : entry op = some p) (srv : Redis) (now : Nat)
    (w : Option (Option (String × Bool))) : WOk srv now p w := by
  cases op with
  | create k v e => simp [entry] at h; subst h; trivial
  | get k => simp [entry] at h; subst h; trivial
  | getMany ks => simp [entry] at h; subst h; trivial
  | put k v e => simp [entry] at h; subst h; trivial
  | putMany rs =>
    simp only [entry] at h
    split at h
    · cases h
    · split at h
      · simp only [Option.some.injEq] at h; subst h; trivial
      · simp only [Option.some.injEq] at h; subst h; trivial
  | cas k ver v e => simp [entry] at h; subst h; trivial
  | delete k => simp [entry] at h; subst h; trivial
  | list p => simp [entry] at h
  | wait k ver => simp [entry] at h

/-! ### the clock -/

theorem not_blocked_of_any {pc : List Pc} (h : pc.any tickBlocked = false) (t : Nat) (p : Pc)
    (hp : pc[t]? = some p) : tickBlocked p = false := by
  rw [List.any_eq_false] at h
  have := h p (List.mem_of_getElem? hp)
  simpa using this

/-- the shape of a tick: enabled only outside every TTL window; only the clock moves -/
theorem tick_shape {s s' : St} {d : Nat} {l : List (Lin.Ev LOp Out)} (h : step s (.tick d) = some (s', l)) :
    (∀ (t : Nat) (p : Pc), s.pc[t]? = some p → tickBlocked p = false) ∧
    s' = { s with now := s.now + d } ∧
    l = [.inv s.pc.length (.tick d), .lin s.pc.length, .ret s.pc.length .ok] := by
  simp only [RedisConc.step] at h
  split at h
  · cases h
  · rename_i hb
    simp only [Option.some.injEq, Prod.mk.injEq] at h
    exact ⟨not_blocked_of_any (by simpa using hb), h.1.symm, h.2.symm⟩

theorem WInv.tick {s : St} (hi : WInv s) (d : Nat)
    (hb : ∀ (t : Nat) (p : Pc), s.pc[t]? = some p → tickBlocked p = false) : WInv { s with now := s.now + d } := by
  constructor
  · exact hi.len
  · intro t p hp
    have h1 := hi.ok t p hp
    have h2 := hb t p hp
    cases p with
    | casExec k ver v e => simp [tickBlocked] at h2
    | casGet k ver v e => exact h1
    | _ => trivial

/-! ### the invariant along runs -/

theorem WInv.step {s s' : St} {e : Ev} {l : List (Lin.Ev LOp Out)} (hi : WInv s)
    (h : step s e = some (s', l)) : WInv s' := by
  cases e with
  | call t op =>
    simp only [RedisConc.step] at h
    split at h
    · rename_i p hp he
      simp only [Option.some.injEq, Prod.mk.injEq] at h; obtain ⟨rfl, rfl⟩ := h
      exact hi.update (ks := []) (fun _ _ => rfl) (by simp) (by simp) (fun _ => entry_WOk he _ _ _)
    · cases h
  | cmd t =>
    simp only [RedisConc.step] at h
    exact hi.cmdStep h
  | ret t r =>
    simp only [RedisConc.step] at h
    split at h
    · split at h
      · simp only [Option.some.injEq, Prod.mk.injEq] at h; obtain ⟨rfl, rfl⟩ := h
        exact hi.update (ks := []) (fun _ _ => rfl) (by simp) (by simp) (fun _ => trivial)
      · cases h
    · split at h
      · simp only [Option.some.injEq, Prod.mk.injEq] at h; obtain ⟨rfl, rfl⟩ := h
        exact hi.update (ks := []) (fun _ _ => rfl) (by simp) (by simp) (fun _ => trivial)
      · cases h
    · cases h
  | tick d =>
    obtain ⟨hb, rfl, _⟩ := tick_shape h
    exact hi.tick d hb

theorem runL_cons {s : St} {e : Ev} {es : List Ev} {s'' : St} {ls : List (Lin.Ev LOp Out)}
    (h : runL s (e :: es) = some (s'', ls)) :
    ∃ s' l ls', step s e = some (s', l) ∧ runL s' es = some (s'', ls') ∧ ls = l ++ ls' := by
  simp only [runL] at h
  cases hs : step s e with
  | none => simp [hs] at h
  | some x =>
    obtain ⟨s', l⟩ := x
    simp only [hs] at h
    cases hr : runL s' es with
    | none => simp [hr] at h
    | some y =>
      obtain ⟨s2, ls'⟩ := y
      simp only [hr, Option.map_some, Option.some.injEq, Prod.mk.injEq] at h
      obtain ⟨rfl, rfl⟩ := h
      exact ⟨s', l, ls', rfl, hr, rfl⟩

theorem WInv.runL {es : List Ev} : ∀ {s s' : St} {ls : List (Lin.Ev LOp Out)}, WInv s →
    runL s es = some (s', ls) → WInv s' := by
  induction es with
  | nil => intro s s' ls hi h; simp only [RedisConc.runL, Option.some.injEq, Prod.mk.injEq] at h; exact h.1 ▸ hi
  | cons e es ih =>
    intro s s' ls hi h
    obtain ⟨s1, l, ls', hs, hr, _⟩ := runL_cons h
    exact ih (hi.step hs) hr

/-! ### Lin.Sys.run over an append -/

theorem run_append {σ ι ρ : Type} [DecidableEq ρ] (o : Obj σ ι ρ) (l1 l2 : List (Lin.Ev ι ρ)) :
    ∀ (L : Sys σ ι ρ), L.run o (l1 ++ l2) = (L.run o l1).bind fun L' => L'.run o l2 := by
  induction l1 with
  | nil => intro L; simp [Sys.run]
  | cons e l1 ih =>
    intro L
    simp only [List.cons_append, Sys.run]
    cases L.ev o e with
    | none => rfl
    | some L1 => simp only [Option.bind_some]; exact ih L1

/-- a complete operation (invocation, atomic step, response with the object's result) of an idle
thread is accepted and leaves every thread as it was -/
theorem run_complete {σ ι ρ : Type} [DecidableEq ρ] (o : Obj σ ι ρ) (L : Sys σ ι ρ) (c : Nat) (i : ι)
    (h : L.th c = .idle) :
    L.run o [.inv c i, .lin c, .ret c (o.step L.st i).2] =
      some { L with st := (o.step L.st i).1, pos := L.pos + 3,
                    order := L.order ++ [(L.pos, i, (o.step L.st i).2)],
                    retPos := L.retPos ++ [(L.pos, L.pos + 2)] } := by
  have hth : setTh (setTh (setTh L.th c (.pending L.pos i)) c (.linearized L.pos i (o.step L.st i).2)) c .idle
      = L.th := by
    funext x
    simp only [setTh]
    split
    · rename_i hx; subst hx; exact h.symm
    · rfl
  simp only [Sys.run, Sys.ev, h, setTh, if_true, Option.bind_some]
  rw [hth]

/-- the shape of a command step that needs no invariant -/
theorem cmdStep_weak {s s' : St} {t : Nat} {l : List (Lin.Ev LOp Out)} (h : cmdStep s t = some (s', l)) :
    ∃ p, s.pc[t]? = some p ∧
      ((l = [.lin t] ∧ (∃ op, opOf p = some op) ∧ ∃ r, s'.pc = s.pc.set t (.done r)) ∨
       (l = [] ∧ s'.srv = s.srv ∧ ∃ op p', s'.pc = s.pc.set t p' ∧ opOf p' = some op ∧ opOf p = some op) ∨
       (∃ k v e rest, p = .putLoop ((k, v, e) :: rest) ∧
          l = [.inv t (.op (.put k v e)), .lin t, .ret t (.okVer s.srv.nextVer)] ∧
          s'.srv = (s.psrv.setRec s.now k v e).1 ∧ s'.pc = s.pc.set t (loopNext rest))) := by
  unfold RedisConc.cmdStep at h
  cases hp : s.pc[t]? with
  | none => simp [hp] at h
  | some p =>
    rw [hp] at h
    refine ⟨p, rfl, ?_⟩
    cases p with
    | putLoop rs =>
      cases rs with
      | nil => simp at h
      | cons a rest =>
        obtain ⟨k, v, e⟩ := a
        simp only [Option.some.injEq, Prod.mk.injEq] at h; obtain ⟨rfl, rfl⟩ := h
        exact .inr (.inr ⟨k, v, e, rest, rfl, rfl, rfl, rfl⟩)
    | _ =>
      simp only [reduceCtorEq] at h <;> (repeat' split at h) <;>
      simp only [Option.some.injEq, Prod.mk.injEq] at h <;> obtain ⟨rfl, rfl⟩ := h <;>
      first
        | exact .inl ⟨rfl, ⟨_, rfl⟩, _, rfl⟩
        | exact .inr (.inl ⟨rfl, rfl, _, _, rfl, rfl, rfl⟩)

/-- used by the non-vacuity examples -/
theorem exists_of_isSome {α β : Type} {x : Option (α × β)} (h : x.isSome = true) :
    ∃ a b, x = some (a, b) := by
  cases x with
  | none => cases h
  | some p => exact ⟨p.1, p.2, rfl⟩

end RedisConc
