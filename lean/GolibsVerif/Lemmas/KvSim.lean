import GolibsVerif.Lemmas.KvBasic
/-
Spec-to-Spec simulation ("same answers from now on"), key distinctness of reachable states, and
the in-memory refinement.
-/
namespace Kv

/-- two Spec states that answer alike from `now` on -/
def SR (now : Nat) (s1 s2 : Spec) : Prop :=
  s1.nextVer = s2.nextVer ∧ Store.Eqv now s1.store s2.store

theorem SR.mono {now t : Nat} {s1 s2 : Spec} (h : SR now s1 s2) (ht : now ≤ t) : SR t s1 s2 :=
  ⟨h.1, h.2.mono ht⟩

theorem SR.live {now t : Nat} {s1 s2 : Spec} (h : SR now s1 s2) (ht : now ≤ t) (k : String) :
    s1.live t k = s2.live t k :=
  h.2.live s1.nextVer s2.nextVer ht k

theorem SR.write {now : Nat} {s1 s2 : Spec} (h : SR now s1 s2) (k v : String) (e : Option Nat) :
    SR now (s1.write k v e).1 (s2.write k v e).1 := by
  unfold Spec.write
  refine ⟨by simp [h.1], ?_⟩
  simp only [h.1]
  exact h.2.put _ _

theorem SR.putMany {now : Nat} (rs : List (String × String × Option Nat)) :
    ∀ {s1 s2 : Spec}, SR now s1 s2 →
    SR now (rs.foldl (fun st (x : String × String × Option Nat) => (st.write x.1 x.2.1 x.2.2).1) s1)
      (rs.foldl (fun st (x : String × String × Option Nat) => (st.write x.1 x.2.1 x.2.2).1) s2) := by
  induction rs with
  | nil => intro s1 s2 h; exact h
  | cons a rs ih => intro s1 s2 h; exact ih (h.write _ _ _)

theorem Spec.step_putMany (s : Spec) (now : Nat) (rs : List (String × String × Option Nat)) :
    s.step now (.putMany rs) =
      (rs.foldl (fun st (x : String × String × Option Nat) => (st.write x.1 x.2.1 x.2.2).1) s, .ok) := by
  unfold Spec.step
  rfl

theorem SR.step {now t : Nat} {s1 s2 : Spec} (h : SR now s1 s2) (ht : now ≤ t) (op : Op) :
    (s1.step t op).2 = (s2.step t op).2 ∧ SR t (s1.step t op).1 (s2.step t op).1 := by
  have ht' := h.mono ht
  cases op with
  | create k v e =>
    simp only [Spec.step, h.live ht k]
    cases s2.live t k with
    | some r => exact ⟨rfl, ht'⟩
    | none => exact ⟨by simp [Spec.write, h.1], ht'.write k v e⟩
  | get k =>
    simp only [Spec.step, h.live ht k]
    cases s2.live t k with
    | some r => exact ⟨rfl, ht'⟩
    | none => exact ⟨rfl, ht'⟩
  | getMany ks =>
    simp only [Spec.step]
    refine ⟨?_, ht'⟩
    congr 1
    apply List.map_congr_left
    intro k _
    rw [h.live ht k]
  | put k v e =>
    simp only [Spec.step]
    exact ⟨by simp [Spec.write, h.1], ht'.write k v e⟩
  | putMany rs =>
    rw [Spec.step_putMany, Spec.step_putMany]
    exact ⟨rfl, SR.putMany rs ht'⟩
  | cas k ver v e =>
    simp only [Spec.step, h.live ht k]
    cases s2.live t k with
    | none => exact ⟨rfl, ht'⟩
    | some r =>
      by_cases hv : r.ver = ver
      · simp only [hv, ne_eq, not_true_eq_false, if_false]
        exact ⟨by simp [Spec.write, h.1], ht'.write k v e⟩
      · simp only [ne_eq, hv, not_false_eq_true, if_true]
        exact ⟨trivial, ht'⟩
  | delete k =>
    simp only [Spec.step, h.live ht k]
    cases s2.live t k with
    | none => exact ⟨rfl, ht'⟩
    | some r => exact ⟨rfl, ht'.1, ht'.2.erase k⟩
  | list pat =>
    rw [Spec.list_eq, Spec.list_eq, h.2.2.2 t ht]
    exact ⟨rfl, ht'⟩
  | wait k ver =>
    simp only [Spec.step, h.live ht k]
    cases s2.live t k with
    | none => exact ⟨rfl, ht'⟩
    | some r =>
      by_cases hv : r.ver = ver
      · simp only [hv, ne_eq, not_true_eq_false, if_false]; exact ⟨trivial, ht'⟩
      · simp only [ne_eq, hv, not_false_eq_true, if_true]; exact ⟨trivial, ht'⟩

theorem SR.run {now : Nat} (h : Hist) : ∀ {s1 s2 : Spec}, SR now s1 s2 → Monotone now h →
    (runSpec s1 h).2 = (runSpec s2 h).2 := by
  induction h generalizing now with
  | nil => intros; rfl
  | cons a h ih =>
    intro s1 s2 hr hm
    obtain ⟨t, op⟩ := a
    obtain ⟨ht, hm'⟩ := hm
    have hs := hr.step ht op
    simp only [runSpec]
    rw [hs.1, ih hs.2 hm']

/-! ### distinct keys are an invariant -/

theorem Spec.write_WF {s : Spec} (hw : s.store.WF) (k v : String) (e : Option Nat) :
    (s.write k v e).1.store.WF := hw.put _ _

theorem Spec.putMany_WF (rs : List (String × String × Option Nat)) : ∀ {s : Spec}, s.store.WF →
    (rs.foldl (fun st (x : String × String × Option Nat) => (st.write x.1 x.2.1 x.2.2).1) s).store.WF := by
  induction rs with
  | nil => intro s h; exact h
  | cons a rs ih => intro s h; exact ih (Spec.write_WF h _ _ _)

theorem Spec.step_WF {s : Spec} (hw : s.store.WF) (t : Nat) (op : Op) : (s.step t op).1.store.WF :=
  ((SR.step (now := t) ⟨rfl, Store.Eqv.refl hw t⟩ (Nat.le_refl t) op).2).2.1

theorem runSpec_WF (h : Hist) : ∀ {s : Spec}, s.store.WF → (runSpec s h).1.store.WF := by
  induction h with
  | nil => intro s hw; exact hw
  | cons a h ih =>
    intro s hw
    obtain ⟨t, op⟩ := a
    simp only [runSpec]
    exact ih (Spec.step_WF hw t op)

/-- every state reachable from a state with distinct keys has distinct keys -/
theorem runSpec_nodup_of (s : Spec) (hn : (s.store.map (·.1)).Nodup) (h : Hist) :
    ((runSpec s h).1.store.map (·.1)).Nodup :=
  (Store.WF_iff_nodup _).mp (runSpec_WF h ((Store.WF_iff_nodup _).mpr hn))

/-- every state reachable from `Spec.new` has distinct keys -/
theorem runSpec_nodup (h : Hist) : ((runSpec Spec.new h).1.store.map (·.1)).Nodup :=
  runSpec_nodup_of Spec.new (by simp [Spec.new]) h

end Kv
