import GolibsVerif.Lemmas.TmoSift
/-
Specifications of container/heap `Push`, `Pop`, `Remove` on the model.
-/
namespace Tmo

theorem Heap.ordered_iff (h : Heap) : h.Ordered ↔ OrdN h.fireAt h.arr.length := Iff.rfl

theorem Heap.fireAt_congr {h h' : Heap} (e1 : h'.data = h.data) {k : Nat} (e2 : h'.arr[k]? = h.arr[k]?) :
    h'.fireAt k = h.fireAt k := by
  rw [Heap.fireAt_eq', Heap.fireAt_eq', e2]
  cases h.arr[k]? with
  | none => rfl
  | some id => exact Heap.key_congr e1 id

theorem Heap.key_upd (h : Heap) (id x : Nat) (g : Fut → Fut) (hg : ∀ f, (g f).fireT = f.fireT) :
    (h.upd id g).key x = h.key x := by
  unfold Heap.key
  rw [Heap.get_upd]
  split
  · cases h.get x <;> simp [hg]
  · rfl

theorem Heap.fireAt_upd (h : Heap) (id k : Nat) (g : Fut → Fut) (hg : ∀ f, (g f).fireT = f.fireT) :
    (h.upd id g).fireAt k = h.fireAt k := by
  rw [Heap.fireAt_eq', Heap.fireAt_eq', Heap.upd_arr]
  cases h.arr[k]? with
  | none => rfl
  | some x => exact Heap.key_upd h id x g hg

/-- `futures.Pop()` on a heap whose first `n` slots are ordered -/
theorem popRaw_spec {h : Heap} (H : h.IdxInv) (n : Nat) (hn : h.arr.length = n + 1)
    (O : OrdN h.fireAt n) :
    ∃ h', h.popRaw = some (h', h.arr[n]'(by omega)) ∧ h'.IdxInv ∧ h'.Ordered ∧
      ((h.arr[n]'(by omega)) :: h'.arr).Perm h.arr ∧ h'.data = h.data := by
  refine ⟨_, Heap.popRaw_eq h n hn, H.popRaw n hn, ?_, ?_, ?_⟩
  · rw [Heap.ordered_iff]
    simp only [Heap.upd_arr, List.length_dropLast, hn, Nat.add_sub_cancel]
    intro k h0 hk
    rw [Heap.fireAt_upd _ _ _ _ (by intro f; rfl), Heap.fireAt_upd _ _ _ _ (by intro f; rfl)]
    have e : ∀ m, m < n → (Heap.mk h.arr.dropLast h.fut).fireAt m = h.fireAt m := by
      intro m hm
      refine Heap.fireAt_congr (h := h) (h' := Heap.mk h.arr.dropLast h.fut) rfl ?_
      show h.arr.dropLast[m]? = h.arr[m]?
      rw [List.getElem?_dropLast, if_pos (by omega)]
    rw [e _ (by omega), e _ hk]
    exact O k h0 hk
  · simp only [Heap.upd_arr]
    have hne : h.arr ≠ [] := by intro c; rw [c] at hn; simp at hn
    have e : h.arr.getLast hne = h.arr[n]'(by omega) := by
      rw [List.getLast_eq_getElem]; congr 1; omega
    have := List.dropLast_concat_getLast hne
    rw [e] at this
    have p : (h.arr[n]'(by omega) :: h.arr.dropLast).Perm (h.arr.dropLast ++ [h.arr[n]'(by omega)]) :=
      (List.perm_append_singleton _ _).symm
    rw [this] at p; exact p
  · rw [Heap.upd_data _ _ _ (by intro f; simp)]; rfl

/-- after `Swap(i, n)` the prefix `[0,n)` has a hole at `i` -/
theorem hole_after_swap {h : Heap} (O : h.Ordered) (n i : Nat) (hn : h.arr.length = n + 1) (hi : i ≤ n) :
    Hole (h.swap i n).fireAt n i := by
  rw [Heap.swap_fireAt_fun h i n (by omega) (by omega)]
  constructor
  · intro k h0 hk h1 h2
    rw [swapF_o _ h2 (by omega), swapF_o _ h1 (by omega)]
    exact O k h0 (by omega)
  · intro k h0 hk h1 h2
    rw [swapF_o _ (show (i-1)/2 ≠ i by omega) (show (i-1)/2 ≠ n by omega),
      swapF_o _ (show k ≠ i by omega) (show k ≠ n by omega)]
    have a := O i h2 (by omega)
    have b := O k h0 (by omega)
    rw [h1] at b; omega

theorem remove_core {h : Heap} (H : h.IdxInv) (_O : h.Ordered) (n i : Nat) (hn : h.arr.length = n + 1)
    (hi : i ≤ n) {h2 : Heap} (s : Sw n (h.swap i n) h2) (o : OrdN h2.fireAt n) :
    ∃ h', h2.popRaw = some (h', h.arr[i]'(by omega)) ∧ h'.IdxInv ∧ h'.Ordered ∧
      ((h.arr[i]'(by omega)) :: h'.arr).Perm h.arr ∧ h'.data = h.data := by
  have hi' : i < h.arr.length := by omega
  have hn' : n < h.arr.length := by omega
  have L : h2.arr.length = n + 1 := by rw [s.length, Heap.swap_length]; exact hn
  have I2 : h2.IdxInv := s.inv (H.swap i n hi' hn')
  obtain ⟨h', e, a, b, c, d⟩ := popRaw_spec I2 n L o
  have last : h2.arr[n]'(by omega) = h.arr[i] := by
    have t := s.tail n (Nat.le_refl n)
    rw [Heap.swap_getElem? h i n n hi' hn', if_pos rfl, List.getElem?_eq_getElem hi',
      List.getElem?_eq_getElem (by omega)] at t
    exact Option.some.inj t
  rw [last] at e c
  exact ⟨h', e, a, b, c.trans (s.perm.trans (Heap.swap_perm h i n)), d.trans (s.data.trans (Heap.swap_data h i n))⟩

/-! ### heap.Push -/

theorem Heap.hPush_eq (h : Heap) (t : Nat) :
    h.hPush t = (Heap.up ((h.pushRaw t).1.arr.length + 1) (h.pushRaw t).1 ((h.pushRaw t).1.arr.length - 1)).map
      fun h2 => (h2, (h.pushRaw t).2) := rfl

theorem Heap.pushRaw_key (h : Heap) (t : Nat) (H5 : h.fut.map (·.1) = List.range h.fut.length)
    {id : Nat} (hid : id ≠ h.fut.length) : (h.pushRaw t).1.key id = h.key id := by
  unfold Heap.key; rw [Heap.pushRaw_get h t id H5, if_neg hid]

theorem Heap.pushRaw_key_new (h : Heap) (t : Nat) (H5 : h.fut.map (·.1) = List.range h.fut.length) :
    (h.pushRaw t).1.key h.fut.length = t := by
  unfold Heap.key; rw [Heap.pushRaw_get h t _ H5, if_pos rfl]; rfl

theorem hPush_spec {h : Heap} (H : h.IdxInv) (O : h.Ordered) (t : Nat) :
    ∃ h', h.hPush t = some (h', h.fut.length) ∧ h'.IdxInv ∧ h'.Ordered ∧
      h'.arr.Perm (h.arr ++ [h.fut.length]) ∧ h'.data = h.data ++ [(h.fut.length, t, true)] := by
  have H5 := H.2.2.2.2
  have H4 := H.2.2.2.1
  have L : (h.pushRaw t).1.arr.length = h.arr.length + 1 := by simp [Heap.pushRaw_arr]
  have fe : ∀ k, k < h.arr.length → (h.pushRaw t).1.fireAt k = h.fireAt k := by
    intro k hk
    rw [Heap.fireAt_eq _ k (by omega), Heap.fireAt_eq _ k hk]
    have e : (h.pushRaw t).1.arr[k]'(by omega) = h.arr[k] := by
      simp only [Heap.pushRaw_arr]; rw [List.getElem_append_left hk]
    rw [e]
    apply Heap.pushRaw_key h t H5
    have := H4 _ (List.getElem_mem hk); omega
  have Hh : Hole (h.pushRaw t).1.fireAt (h.arr.length + 1) h.arr.length := by
    constructor
    · intro k h0 hk h1 h2
      rw [fe _ (by omega), fe _ (by omega)]
      exact O k h0 (by omega)
    · intro k h0 hk h1; omega
  have Hc : ChildOK (h.pushRaw t).1.fireAt (h.arr.length + 1) h.arr.length := by
    intro k h0 hk h1; omega
  obtain ⟨h', e, s, o⟩ := up_spec ((h.pushRaw t).1.arr.length + 1) (h.pushRaw t).1 h.arr.length
    (h.arr.length + 1) (by omega) (by omega) (by omega) Hh Hc
  refine ⟨h', ?_, s.inv (H.pushRaw t), ?_, ?_, ?_⟩
  · rw [Heap.hPush_eq]
    have : (h.pushRaw t).1.arr.length - 1 = h.arr.length := by omega
    rw [this, e]; rfl
  · rw [Heap.ordered_iff, s.length, L]; exact o
  · exact s.perm
  · rw [s.data, Heap.pushRaw_data]

/-! ### heap.Pop -/

theorem Heap.down_eq (h : Heap) (i n : Nat) {h' : Heap} {i' : Nat}
    (e : Heap.downLoop (h.arr.length + 1) h i n = some (h', i')) :
    h.down i n = some (h', decide (i' > i)) := by
  unfold Heap.down; rw [e]; rfl

theorem hPop_spec {h : Heap} (H : h.IdxInv) (O : h.Ordered) (n : Nat) (hn : h.arr.length = n + 1) :
    ∃ h', h.hPop = some (h', h.arr[0]'(by omega)) ∧ h'.IdxInv ∧ h'.Ordered ∧
      ((h.arr[0]'(by omega)) :: h'.arr).Perm h.arr ∧ h'.data = h.data := by
  have hole := hole_after_swap O n 0 hn (Nat.zero_le n)
  have Ls : (h.swap 0 n).arr.length = n + 1 := by rw [Heap.swap_length]; exact hn
  obtain ⟨h1, i', e, r⟩ := down_spec ((h.swap 0 n).arr.length + 1) (h.swap 0 n) 0 n (by omega)
    (Nat.zero_le n) (by omega) hole
  have key : Sw n (h.swap 0 n) h1 ∧ OrdN h1.fireAt n := by
    rcases r with ⟨_, r2, r3⟩ | ⟨_, r2, r3⟩
    · subst r2; exact ⟨Sw.refl _ _, hole_ord hole (by omega) r3⟩
    · exact ⟨r2, r3⟩
  obtain ⟨h', e', rest⟩ := remove_core H O n 0 hn (Nat.zero_le n) key.1 key.2
  refine ⟨h', ?_, rest⟩
  unfold Heap.hPop
  have ne : h.arr.isEmpty = false := by
    cases c : h.arr with
    | nil => rw [c] at hn; simp at hn
    | cons a l => rfl
  have hn1 : h.arr.length - 1 = n := by omega
  simp only [ne, hn1, Heap.down_eq _ _ _ e]
  exact e'

/-! ### heap.Remove -/

theorem hRemove_spec {h : Heap} (H : h.IdxInv) (O : h.Ordered) (i : Nat) (hi : i < h.arr.length) :
    ∃ h', h.hRemove i = some (h', h.arr[i]) ∧ h'.IdxInv ∧ h'.Ordered ∧
      (h.arr[i] :: h'.arr).Perm h.arr ∧ h'.data = h.data := by
  obtain ⟨n, hn⟩ : ∃ n, h.arr.length = n + 1 := ⟨h.arr.length - 1, by omega⟩
  have hn1 : h.arr.length - 1 = n := by omega
  have hge : ¬ i ≥ h.arr.length := by omega
  by_cases c : n = i
  · subst c
    obtain ⟨h', e, rest⟩ := popRaw_spec H n hn (fun k h0 hk => O k h0 (by omega))
    refine ⟨h', ?_, rest⟩
    unfold Heap.hRemove
    simp only [if_neg hge, hn1, ne_eq, not_true_eq_false, if_false, Option.bind_some]
    exact e
  · have hin : i < n := by omega
    have hole := hole_after_swap O n i hn (by omega)
    have Ls : (h.swap i n).arr.length = n + 1 := by rw [Heap.swap_length]; exact hn
    obtain ⟨h1, i', e, r⟩ := down_spec ((h.swap i n).arr.length + 1) (h.swap i n) i n (by omega)
      (by omega) (by omega) hole
    have e1 := Heap.down_eq _ _ _ e
    rcases r with ⟨r1, r2, r3⟩ | ⟨r1, r2, r3⟩
    · have r1' := r1.symm
      subst r1' r2
      obtain ⟨h2, e2, s, o⟩ := up_spec ((h.swap i n).arr.length + 1) (h.swap i n) i n (by omega) hin
        (by omega) hole r3
      obtain ⟨h', e', rest⟩ := remove_core H O n i hn (by omega) s o
      refine ⟨h', ?_, rest⟩
      unfold Heap.hRemove
      simp only [if_neg hge, hn1, ne_eq, c, not_false_eq_true, if_true, e1, gt_iff_lt, Nat.lt_irrefl,
        decide_false, Bool.not_false, e2, Option.bind_some]
      exact e'
    · obtain ⟨h', e', rest⟩ := remove_core H O n i hn (by omega) r2 r3
      refine ⟨h', ?_, rest⟩
      unfold Heap.hRemove
      have d : decide (i' > i) = true := by simpa using r1
      simp only [if_neg hge, hn1, ne_eq, c, not_false_eq_true, if_true, e1, d, Bool.not_true,
        Bool.false_eq_true, if_false, Option.bind_some]
      exact e'

end Tmo
