import GolibsVerif.Lemmas.BlkInv
/-! Soundness of the `ArrangeBlock` loops. -/
namespace Blk

/-- the part of a header scanned from byte `fp` on -/
theorem hdr_slice (b : B) (hfit : b.segs * b.segmSize ≤ b.mem.length) {fs fp : Nat} (hs : fs < b.segs)
    (hp : fp < b.bs) :
    let l := (((b.mem.drop (fs * b.segmSize)).take b.bs).drop fp)
    l.length = b.bs - fp ∧ (∀ k, k < b.bs - fp → l.getD k 0 = b.hb fs (fp + k)) ∧
      ((∀ x ∈ b.mem, x < 256) → ∀ x ∈ l, x < 256) := by
  have hin : fs * b.segmSize + b.bs ≤ b.mem.length := by
    have := mul_lt_of_lt (Z := b.segmSize) hs (Nat.le_refl _)
    have := b.bs_le_segm
    omega
  refine ⟨?_, ?_, ?_⟩
  · simp only [List.length_drop, List.length_take]; omega
  · intro k hk
    simp only [List.getD_eq_getElem?_getD, List.getElem?_drop, List.getElem?_take, B.hb]
    rw [if_pos (by omega)]
  · intro hb x hx
    exact hb x (List.mem_of_mem_drop (List.mem_of_mem_take (List.mem_of_mem_drop hx)))

theorem arrangeLoop_spec : ∀ (fuel : Nat) (b : B) (fs fp : Nat),
    0 < b.bs → (∀ x ∈ b.mem, x < 256) → b.segs * b.segmSize ≤ b.mem.length →
    b.freeIdx = fs * b.segmSize + fp → fp < b.bs → fs ≤ b.segs → fuel + fs = b.segs + 1 →
    (∀ s p, s < b.segs → p < b.bs → (s < fs ∨ (s = fs ∧ p < fp)) → b.hb s p = 255) →
    match arrangeLoop fuel b fs with
    | .ok (b', idx) => ∃ s p j, s < b.segs ∧ p < b.bs ∧
         firstZeroBit (b.hb s p) = some j ∧
         (∀ s' p', s' < b.segs → p' < b.bs → (s' < s ∨ (s' = s ∧ p' < p)) → b.hb s' p' = 255) ∧
         idx = s * (8 * b.bs) + p * 8 + j ∧
         b' = ⟨b.bs, b.segs, s * b.segmSize + p, b.avail - 1,
                b.mem.set (s * b.segmSize + p) (b.hb s p ||| 1 <<< j)⟩
    | .error e => e = .exhausted ∧ ∀ s p, s < b.segs → p < b.bs → b.hb s p = 255
  | 0, b, fs, fp, _, _, _, _, _, hfs, hfuel, _ => by omega
  | fuel + 1, b, fs, fp, hbs, hbytes, hfit, hfree, hfp, hfs, hfuel, hhint => by
    unfold arrangeLoop
    by_cases hlt : fs < b.segs
    · simp only [hlt, ↓reduceIte]
      have hpos : b.freeIdx % b.bs = fp := by rw [hfree, B.segmSize_eq]; exact segm_mod_bs hfp
      have hoff : b.freeIdx - fp = fs * b.segmSize := by omega
      rw [hpos, hoff]
      obtain ⟨hlen, hget, hlb⟩ := hdr_slice b hfit hlt hfp
      have hsc := scanHdr_spec _ fp (hlb hbytes)
      generalize (((b.mem.drop (fs * b.segmSize)).take b.bs).drop fp) = l at hlen hget hsc ⊢
      cases hr : scanHdr l fp with
      | some pj =>
        obtain ⟨p, j⟩ := pj
        rw [hr] at hsc
        obtain ⟨k, hk, hp, hall, hz⟩ := hsc
        simp only
        rw [hget k (by omega)] at hz
        subst hp
        refine ⟨fs, fp + k, j, hlt, by omega, hz, ?_, rfl, ?_⟩
        · intro s' p' hs' hp' hlex
          by_cases hold : s' < fs ∨ (s' = fs ∧ p' < fp)
          · exact hhint s' p' hs' hp' hold
          · have h1 : s' = fs := by omega
            subst h1
            have := hall (p' - fp) (by omega)
            rw [hget _ (by omega)] at this
            rwa [show fp + (p' - fp) = p' by omega] at this
        · simp only [B.hb, hfree]
          congr 1; omega
      | none =>
        rw [hr] at hsc
        simp only
        have ih := arrangeLoop_spec fuel
          { bs := b.bs, segs := b.segs, freeIdx := (fs + 1) * b.segmSize, avail := b.avail, mem := b.mem }
          (fs + 1) 0 hbs hbytes hfit (by simp [B.segmSize]) hbs (by simp only; omega) (by simp only; omega)
          (by
            intro s' p' hs' hp' hlex
            replace hs' : s' < b.segs := hs'
            replace hp' : p' < b.bs := hp'
            show b.hb s' p' = 255
            by_cases hold : s' < fs ∨ (s' = fs ∧ p' < fp)
            · exact hhint s' p' hs' hp' hold
            · have h1 : s' = fs := by omega
              subst h1
              have hm : l.getD (p' - fp) 0 ∈ l := by
                rw [List.getD_eq_getElem?_getD, List.getElem?_eq_getElem (by omega)]
                simp
              have := hsc _ hm
              rw [hget _ (by omega)] at this
              rw [show fp + (p' - fp) = p' by omega] at this
              exact this)
        exact ih
    · have : fs = b.segs := by omega
      subst this
      simp only [Nat.lt_irrefl, ↓reduceIte, true_and]
      intro s p hs hp
      exact hhint s p hs hp (Or.inl hs)

/-- soundness of `ArrangeBlock` on a state satisfying the invariant -/
theorem arrange_spec {P : Nat} {b : B} (h : Inv P b) :
    match b.arrange with
    | .ok (b', idx) => ∃ s p j, s < b.segs ∧ p < b.bs ∧
         firstZeroBit (b.hb s p) = some j ∧
         (∀ s' p', s' < b.segs → p' < b.bs → (s' < s ∨ (s' = s ∧ p' < p)) → b.hb s' p' = 255) ∧
         idx = s * (8 * b.bs) + p * 8 + j ∧
         b' = ⟨b.bs, b.segs, s * b.segmSize + p, b.avail - 1,
                b.mem.set (s * b.segmSize + p) (b.hb s p ||| 1 <<< j)⟩
    | .error e => e = .exhausted ∧ ∀ s p, s < b.segs → p < b.bs → b.hb s p = 255 := by
  obtain ⟨fs, fp, hfree, hfs, hfp, hhint⟩ := h.hint
  unfold B.arrange
  have hbs := h.bs_pos
  rw [if_neg (by omega)]
  have hdiv : b.freeIdx / b.segmSize = fs := by
    rw [hfree]; exact off_div (Nat.lt_of_lt_of_le hfp b.bs_le_segm)
  simp only [hdiv]
  exact arrangeLoop_spec (b.segs + 1 - fs) b fs fp hbs h.bytes h.fit hfree hfp hfs (by omega) hhint

end Blk
