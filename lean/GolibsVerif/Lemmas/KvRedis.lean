import GolibsVerif.Lemmas.KvSim
/-
The Redis I-model refines the contract under `RedisOK`.
-/
namespace Kv

/-! ### key prefixing -/

def okName (k : String) : Prop := k.toList.head? ≠ some '/'

theorem stripSlashes_ok {l : List Char} (h : l.head? ≠ some '/') : stripSlashes l = l := by
  cases l with
  | nil => rfl
  | cons c cs =>
    have hc : c ≠ '/' := by intro hc; apply h; simp [hc]
    unfold stripSlashes
    split
    · rename_i heq; cases heq; exact absurd rfl hc
    · rfl

def kvsPrefix : List Char := ['/', 'k', 'v', 's', '/']

theorem rKey_toList {k : String} (h : okName k) : (rKey k).toList = kvsPrefix ++ k.toList := by
  unfold rKey
  simp only [String.toList_append, String.toList_ofList, stripSlashes_ok h]
  rfl

theorem rKey_inj {k1 k2 : String} (h1 : okName k1) (h2 : okName k2) (h : rKey k1 = rKey k2) : k1 = k2 := by
  have := congrArg String.toList h
  rw [rKey_toList h1, rKey_toList h2] at this
  exact String.toList_injective (List.append_cancel_left this)

theorem rKey_beq {k1 k2 : String} (h1 : okName k1) (h2 : okName k2) : (rKey k1 == rKey k2) = (k1 == k2) := by
  by_cases h : k1 = k2
  · subst h; rw [beq_self_eq_true, beq_self_eq_true]
  · have : rKey k1 ≠ rKey k2 := fun h' => h (rKey_inj h1 h2 h')
    rw [beq_eq_false_iff_ne.mpr this, beq_eq_false_iff_ne.mpr h]

theorem globMatch_lit (c : Char) (ps cs : List Char) (h1 : c ≠ '*') (h2 : c ≠ '?') (h3 : c ≠ '\\') :
    globMatch (c :: ps) (c :: cs) = globMatch ps cs := by
  rw [globMatch.eq_10 c ps c cs h1 h2 (fun _ _ h _ => h3 h)]
  simp

theorem glob_star : ∀ l, globMatch ['*'] l = true := by
  intro l
  induction l with
  | nil => simp [globMatch]
  | cons c cs ih => rw [globMatch]; simp [ih]

theorem glob_rKey {p k : String} (hp : okName p) (hk : okName k) :
    globMatch (rKey p).toList (rKey k).toList = globMatch p.toList k.toList := by
  rw [rKey_toList hp, rKey_toList hk]
  unfold kvsPrefix
  simp only [List.cons_append, List.nil_append]
  rw [globMatch_lit _ _ _ (by decide) (by decide) (by decide), globMatch_lit _ _ _ (by decide) (by decide) (by decide),
    globMatch_lit _ _ _ (by decide) (by decide) (by decide), globMatch_lit _ _ _ (by decide) (by decide) (by decide),
    globMatch_lit _ _ _ (by decide) (by decide) (by decide)]

theorem drop_rKey {k : String} (hk : okName k) : String.ofList ((rKey k).toList.drop 5) = k := by
  rw [rKey_toList hk]
  show String.ofList (k.toList) = k
  exact String.ofList_toList

/-! ### the server content as an image of a store -/

def rf (kr : String × Rec) : String × RVal := (rKey kr.1, { r := kr.2, deadline := kr.2.exp })

/-- names without leading '/', expiries odd -/
def Store.Good (l : Store) : Prop := ∀ kr ∈ l, okName kr.1 ∧ ∀ e, kr.2.exp = some e → e % 2 = 1

theorem Store.Good.erase {l : Store} (h : l.Good) (k : String) : (l.erase k).Good :=
  fun kr hkr => h kr (Store.mem_erase.mp hkr).1

theorem Store.Good.vis {l : Store} (h : l.Good) (t : Nat) : (l.vis t).Good :=
  fun kr hkr => h kr (Store.mem_vis.mp hkr).1

theorem Store.Good.put {l : Store} (h : l.Good) {k : String} {r : Rec} (hk : okName k)
    (hr : ∀ e, r.exp = some e → e % 2 = 1) : (l.put k r).Good := by
  intro kr hkr
  rcases Store.mem_put.mp hkr with h1 | h1
  · exact h kr h1.1
  · subst h1; exact ⟨hk, hr⟩

theorem purge_map {l : Store} (hg : l.Good) {t : Nat} (ht : t % 2 = 0) :
    RedisSrv.purge ⟨l.map rf⟩ t = ⟨(l.vis t).map rf⟩ := by
  unfold RedisSrv.purge Store.vis
  simp only [List.filter_map]
  congr 2
  apply List.filter_congr
  intro kr hkr
  have ho := (hg kr hkr).2
  simp only [Function.comp, rf, expired]
  cases he : kr.2.exp with
  | none => rfl
  | some e =>
    have := ho e he
    simp only
    by_cases h1 : t < e
    · have : ¬ e < t := by omega
      simp [h1, this]
    · have : e < t := by omega
      simp [h1, this]

theorem get_map {l : Store} (hg : l.Good) {k : String} (hk : okName k) :
    RedisSrv.get ⟨l.map rf⟩ (rKey k) = (l.get k).map fun r => { r := r, deadline := r.exp } := by
  unfold RedisSrv.get
  induction l with
  | nil => rfl
  | cons a l ih =>
    obtain ⟨k', r'⟩ := a
    have hk' : okName k' := (hg (k', r') (by simp)).1
    have ih' := ih (fun kr hkr => hg kr (by simp [hkr]))
    simp only [List.map_cons, List.find?_cons, rf, rKey_beq hk' hk] at ih' ⊢
    rw [Store.get_cons]
    by_cases h : k' = k
    · simp [h]
    · have hb : (k' == k) = false := by simp [h]
      simp only [hb, h, if_false]
      exact ih'

theorem filter_ne_map {l : Store} (hg : l.Good) {k : String} (hk : okName k) :
    (l.map rf).filter (fun x => x.1 != rKey k) = (l.erase k).map rf := by
  unfold Store.erase
  rw [List.filter_map]
  congr 1
  apply List.filter_congr
  intro kr hkr
  simp only [Function.comp, rf, bne, rKey_beq (hg kr hkr).1 hk]

theorem set_map {l : Store} (hg : l.Good) {k : String} (hk : okName k) (r : Rec) :
    RedisSrv.set ⟨l.map rf⟩ (rKey k) { r := r, deadline := r.exp } = ⟨(l.put k r).map rf⟩ := by
  unfold RedisSrv.set Store.put
  simp only [filter_ne_map hg hk, List.map_append, List.map_cons, List.map_nil, rf]

theorem del_map {l : Store} (hg : l.Good) {k : String} (hk : okName k) :
    RedisSrv.del ⟨l.map rf⟩ (rKey k) = ⟨(l.erase k).map rf⟩ := by
  unfold RedisSrv.del
  simp only [filter_ne_map hg hk]

theorem deadlineOf_future {exp : Option Nat} {now : Nat} (h : ∀ e, exp = some e → now < e) :
    deadlineOf exp now = exp := by
  unfold deadlineOf
  cases exp with
  | none => rfl
  | some e =>
    have := h e rfl
    have h1 : ¬ e < now + 1 := by omega
    simp only [Option.map_some, h1, if_false]
    congr 1; omega

/-! ### the refinement relation -/

def RR (now : Nat) (c : Redis) (s : Spec) : Prop :=
  c.nextVer = s.nextVer ∧ ∃ l : Store, c.srv.keys = l.map rf ∧ l.Good ∧ Store.Eqv now l s.store

theorem RR.setRec {t : Nat} {c : Redis} {s : Spec} (h : RR t c s) {k : String} (hk : okName k) (v : String)
    {exp : Option Nat} (he : ∀ e, exp = some e → e % 2 = 1 ∧ t < e) :
    RR t (c.setRec t k v exp).1 (s.write k v exp).1 ∧ (c.setRec t k v exp).2 = (s.write k v exp).2 := by
  obtain ⟨hn, l, hkeys, hg, heq⟩ := h
  refine ⟨⟨by simp [Redis.setRec, Spec.write, hn], (l.put k ⟨v, c.nextVer, exp⟩), ?_, ?_, ?_⟩, hn⟩
  · simp only [Redis.setRec]
    have hsrv : c.srv = ⟨l.map rf⟩ := by cases hc : c.srv; rw [hc] at hkeys; simp at hkeys; rw [hkeys]
    rw [hsrv, deadlineOf_future (fun e h => (he e h).2)]
    rw [set_map hg hk ⟨v, c.nextVer, exp⟩]
  · exact hg.put hk (fun e h => (he e h).1)
  · simp only [Spec.write, ← hn]
    exact heq.put _ _

theorem RR.putMany {t : Nat} (rs : List (String × String × Option Nat)) :
    ∀ {c : Redis} {s : Spec}, RR t c s →
    (∀ x ∈ rs, okName x.1 ∧ ∀ e, x.2.2 = some e → e % 2 = 1 ∧ t < e) →
    RR t (rs.foldl (fun st (x : String × String × Option Nat) => (st.setRec t x.1 x.2.1 x.2.2).1) c)
      (rs.foldl (fun st (x : String × String × Option Nat) => (st.write x.1 x.2.1 x.2.2).1) s) := by
  induction rs with
  | nil => intro c s h _; exact h
  | cons a rs ih =>
    intro c s h hok
    have ha := hok a (by simp)
    exact ih (h.setRec ha.1 a.2.1 ha.2).1 (fun x hx => hok x (by simp [hx]))

theorem Redis.step_putMany (c : Redis) (now : Nat) (rs : List (String × String × Option Nat)) :
    c.step now (.putMany rs) =
      (rs.foldl (fun st (x : String × String × Option Nat) => (st.setRec now x.1 x.2.1 x.2.2).1)
        { c with srv := c.srv.purge now }, .ok) := by
  unfold Redis.step
  rfl

theorem RR.step {now t : Nat} {c : Redis} {s : Spec} (h : RR now c s) (ht : now ≤ t) (hev : t % 2 = 0)
    (op : Op) (hexp : ∀ e ∈ op.expiries, e % 2 = 1 ∧ t < e) (hnm : ∀ n ∈ op.names, okName n) :
    (c.step t op).2 = (s.step t op).2 ∧ RR t (c.step t op).1 (s.step t op).1 := by
  obtain ⟨hn, l, hkeys, hg, heq⟩ := h
  have hsrv : c.srv = ⟨l.map rf⟩ := by cases hc : c.srv; rw [hc] at hkeys; simp at hkeys; rw [hkeys]
  have hp : c.srv.purge t = ⟨(l.vis t).map rf⟩ := by rw [hsrv, purge_map hg hev]
  have hG : (l.vis t).Good := hg.vis t
  have hE : Store.Eqv t (l.vis t) s.store := (Store.Eqv.vis_self heq.1 t).trans (heq.mono ht)
  have hV : (l.vis t).vis t = l.vis t := Store.vis_vis l (Nat.le_refl t)
  generalize l.vis t = l0 at hp hG hE hV
  -- the purged client state
  have hR : RR t { srv := ⟨l0.map rf⟩, nextVer := c.nextVer } s := ⟨hn, l0, rfl, hG, hE⟩
  have hlive : ∀ k, okName k → RedisSrv.get ⟨l0.map rf⟩ (rKey k) =
      (s.live t k).map fun r => { r := r, deadline := r.exp } := by
    intro k hk
    rw [get_map hG hk, ← hE.live c.nextVer s.nextVer (Nat.le_refl t) k, hE.1.live_eq, hV]
  cases op with
  | create k v e =>
    have hk : okName k := hnm k (by simp [Op.names])
    simp only [Redis.step, Spec.step, hp, hlive k hk]
    cases s.live t k with
    | some r => exact ⟨rfl, hR⟩
    | none =>
      have hs := hR.setRec hk v (exp := e) (fun e' he' => hexp e' (by simp [Op.expiries, he']))
      simp only [Option.map_none]
      exact ⟨by rw [hs.2], hs.1⟩
  | get k =>
    have hk : okName k := hnm k (by simp [Op.names])
    simp only [Redis.step, Spec.step, hp, hlive k hk]
    cases s.live t k with
    | some r => exact ⟨rfl, hR⟩
    | none => exact ⟨rfl, hR⟩
  | getMany ks =>
    simp only [Redis.step, Spec.step, hp]
    refine ⟨?_, hR⟩
    congr 1
    apply List.map_congr_left
    intro k hk
    rw [hlive k (hnm k (by simpa [Op.names] using hk))]
    cases s.live t k <;> rfl
  | put k v e =>
    have hk : okName k := hnm k (by simp [Op.names])
    simp only [Redis.step, Spec.step, hp]
    have hs := hR.setRec hk v (exp := e) (fun e' he' => hexp e' (by simp [Op.expiries, he']))
    exact ⟨by rw [hs.2], hs.1⟩
  | putMany rs =>
    rw [Redis.step_putMany, Spec.step_putMany, hp]
    refine ⟨rfl, RR.putMany rs hR ?_⟩
    intro x hx
    refine ⟨hnm x.1 (by simp only [Op.names, List.mem_map]; exact ⟨x, hx, rfl⟩), fun e he => hexp e ?_⟩
    simp only [Op.expiries, List.mem_filterMap]
    exact ⟨x, hx, he⟩
  | cas k ver v e =>
    have hk : okName k := hnm k (by simp [Op.names])
    simp only [Redis.step, Spec.step, hp, hlive k hk]
    cases s.live t k with
    | none => exact ⟨rfl, hR⟩
    | some r =>
      simp only [Option.map_some]
      by_cases hv : r.ver = ver
      · simp only [hv, ne_eq, not_true_eq_false, if_false]
        have hs := hR.setRec hk v (exp := e) (fun e' he' => hexp e' (by simp [Op.expiries, he']))
        exact ⟨by rw [hs.2], hs.1⟩
      · simp only [ne_eq, hv, not_false_eq_true, if_true]
        exact ⟨trivial, hR⟩
  | delete k =>
    have hk : okName k := hnm k (by simp [Op.names])
    simp only [Redis.step, Spec.step, hp, hlive k hk]
    cases s.live t k with
    | none => exact ⟨rfl, hR⟩
    | some r =>
      simp only [Option.map_some]
      refine ⟨trivial, hn, l0.erase k, ?_, hG.erase k, hE.erase k⟩
      simp only [del_map hG hk]
  | list pat =>
    have hpk : okName pat := hnm pat (by simp [Op.names])
    rw [Spec.list_eq]
    simp only [Redis.step, hp]
    refine ⟨?_, hR⟩
    rw [← hE.2.2 t (Nat.le_refl t), hV]
    congr 2
    rw [List.filter_map, List.map_map]
    have hf : l0.filter ((fun (x : String × RVal) => globMatch (rKey pat).toList x.1.toList) ∘ rf)
        = l0.filter (fun kr => globMatch pat.toList kr.1.toList) := by
      apply List.filter_congr
      intro kr hkr
      simp only [Function.comp, rf, glob_rKey hpk (hG kr hkr).1]
    rw [hf]
    apply List.map_congr_left
    intro kr hkr
    simp only [Function.comp, rf]
    exact drop_rKey (hG kr (List.mem_filter.mp hkr).1).1
  | wait k ver =>
    have hk : okName k := hnm k (by simp [Op.names])
    simp only [Redis.step, Spec.step, hp, hlive k hk]
    cases s.live t k with
    | none => exact ⟨rfl, hR⟩
    | some r =>
      simp only [Option.map_some]
      by_cases hv : r.ver = ver
      · simp only [hv, ne_eq, not_true_eq_false, if_false]; exact ⟨trivial, hR⟩
      · simp only [ne_eq, hv, not_false_eq_true, if_true]; exact ⟨trivial, hR⟩

theorem RR.run {now : Nat} (h : Hist) : ∀ {c : Redis} {s : Spec}, RR now c s → Monotone now h → RedisOK h →
    (runRedis c h).2 = (runSpec s h).2 := by
  induction h generalizing now with
  | nil => intros; rfl
  | cons a h ih =>
    intro c s hr hm hok
    obtain ⟨t, op⟩ := a
    obtain ⟨ht, hm'⟩ := hm
    obtain ⟨hev, hexp, hnm, hok'⟩ := hok
    have hs := hr.step ht hev op hexp hnm
    simp only [runSpec, runRedis]
    rw [hs.1, ih hs.2 hm' hok']

theorem RR.new : RR 0 Redis.new Spec.new :=
  ⟨rfl, [], rfl, fun _ h => (by cases h), Store.Eqv.refl Store.WF_nil 0⟩

end Kv
