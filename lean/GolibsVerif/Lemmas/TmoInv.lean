import GolibsVerif.Lemmas.TmoBase
/-
`IdxInv` is preserved by `swap`, `pushRaw`, `popRaw` and by clearing `hasF`.
-/
namespace Tmo

@[simp] theorem Heap.get_mk (a : List Nat) (fu : List (Nat × Fut)) (h : Heap) (id : Nat) (e : fu = h.fut) :
    (Heap.mk a fu).get id = h.get id := by subst e; rfl

theorem Heap.IdxInv.idx_neg {h : Heap} (H : h.IdxInv) {id : Nat} {f : Fut}
    (hn : id ∉ h.arr) (e : h.get id = some f) : f.idx = -1 :=
  H.2.1 (id, f) (Heap.mem_of_get e) hn

/-- constructor of `IdxInv` through lookups -/
theorem Heap.IdxInv.mk' {h : Heap}
    (H1 : ∀ i, (hi : i < h.arr.length) → ((h.get h.arr[i]).map (·.idx)) = some (i : Int))
    (H2 : ∀ id f, id ∉ h.arr → h.get id = some f → f.idx = -1)
    (H3 : h.arr.Nodup) (H4 : ∀ id ∈ h.arr, id < h.fut.length)
    (H5 : h.fut.map (·.1) = List.range h.fut.length) : h.IdxInv :=
  ⟨H1, fun x hx hn => H2 x.1 x.2 hn (Heap.get_of_mem H5 hx), H3, H4, H5⟩

theorem Heap.IdxInv.get_some {h : Heap} (H : h.IdxInv) (i : Nat) (hi : i < h.arr.length) :
    ∃ f, h.get h.arr[i] = some f ∧ f.idx = (i : Int) := by
  have := H.1 i hi
  cases e : h.get h.arr[i] with
  | none => simp [e] at this
  | some f => simp [e] at this; exact ⟨f, rfl, this⟩

theorem Heap.swap_get_idx (h : Heap) (i j id : Nat) (hi : i < h.arr.length) (hj : j < h.arr.length) :
    ((h.swap i j).get id).map (·.idx) =
      if id = h.arr[i] then (h.get id).map (fun _ => (j : Int))
      else if id = h.arr[j] then (h.get id).map (fun _ => (i : Int))
      else (h.get id).map (·.idx) := by
  rw [Heap.swap_eq h i j hi hj, Heap.get_upd, Heap.get_upd]
  have e : ∀ a, (Heap.mk a h.fut).get id = h.get id := fun a => rfl
  rw [e]
  by_cases h1 : id = h.arr[i]
  · by_cases h2 : id = h.arr[j]
    · simp [h1, ← h1.symm.trans h2, Function.comp_def]
    · rw [if_pos h1, if_neg h2, if_pos h1]; simp [Function.comp_def]
  · by_cases h2 : id = h.arr[j]
    · rw [if_neg h1, if_pos h2, if_neg h1, if_pos h2]; simp [Function.comp_def]
    · rw [if_neg h1, if_neg h2, if_neg h1, if_neg h2]

theorem Heap.IdxInv.swap {h : Heap} (H : h.IdxInv) (i j : Nat)
    (hi : i < h.arr.length) (hj : j < h.arr.length) : (h.swap i j).IdxInv := by
  have P := Heap.swap_perm h i j
  have L := Heap.swap_length h i j
  have D := Heap.swap_data h i j
  obtain ⟨H1, H2, H3, H4, H5⟩ := id H
  have FL := Heap.fut_length_congr D
  apply Heap.IdxInv.mk'
  · intro k hk
    have hk' : k < h.arr.length := L ▸ hk
    have e := Heap.swap_getElem? h i j k hi hj
    rw [List.getElem?_eq_getElem hk] at e
    rw [Heap.swap_get_idx h i j _ hi hj]
    by_cases h1 : k = j
    · rw [if_pos h1, List.getElem?_eq_getElem hi] at e
      have e' : (h.swap i j).arr[k] = h.arr[i] := by simpa using e
      obtain ⟨f, hf, _⟩ := H.get_some i hi
      rw [e', if_pos rfl, hf, h1]; rfl
    · rw [if_neg h1] at e
      by_cases h2 : k = i
      · rw [if_pos h2, List.getElem?_eq_getElem hj] at e
        have e' : (h.swap i j).arr[k] = h.arr[j] := by simpa using e
        have ne : h.arr[j] ≠ h.arr[i] := by
          intro c; rw [List.getElem_inj H3] at c; omega
        obtain ⟨f, hf, _⟩ := H.get_some j hj
        rw [e', if_neg ne, if_pos rfl, hf, h2]; rfl
      · rw [if_neg h2, List.getElem?_eq_getElem hk'] at e
        have e' : (h.swap i j).arr[k] = h.arr[k] := by simpa using e
        have ne1 : h.arr[k] ≠ h.arr[i] := by
          intro c; rw [List.getElem_inj H3] at c; omega
        have ne2 : h.arr[k] ≠ h.arr[j] := by
          intro c; rw [List.getElem_inj H3] at c; omega
        rw [e', if_neg ne1, if_neg ne2]; exact H1 k hk'
  · intro id f hn e
    have hn' : id ∉ h.arr := fun c => hn (P.mem_iff.2 c)
    have ne1 : id ≠ h.arr[i] := fun c => hn' (c ▸ List.getElem_mem hi)
    have ne2 : id ≠ h.arr[j] := fun c => hn' (c ▸ List.getElem_mem hj)
    have g := Heap.swap_get_idx h i j id hi hj
    rw [if_neg ne1, if_neg ne2, e] at g
    cases e0 : h.get id with
    | none => simp [e0] at g
    | some f0 =>
      simp [e0] at g
      rw [g]; exact H.idx_neg hn' e0
  · exact P.nodup_iff.2 H3
  · intro id hid; rw [FL]; exact H4 id (P.mem_iff.1 hid)
  · rw [Heap.fut_fst_congr D, FL]; exact H5

/-! ### pushRaw -/

theorem Heap.pushRaw_get (h : Heap) (t id : Nat) (H5 : h.fut.map (·.1) = List.range h.fut.length) :
    (h.pushRaw t).1.get id =
      if id = h.fut.length then some { fireT := t, idx := h.arr.length, hasF := true } else h.get id := by
  unfold Heap.pushRaw Heap.get
  simp only [List.find?_append]
  by_cases e : id = h.fut.length
  · have : h.get id = none := by
      cases c : h.get id with
      | none => rfl
      | some f => have := Heap.lt_of_get H5 c; omega
    unfold Heap.get at this
    cases c : List.find? (fun x => x.1 == id) h.fut with
    | none => simp [e]
    | some x => simp [c] at this
  · have : ¬ h.fut.length = id := fun c => e c.symm
    simp [e, this]

theorem Heap.pushRaw_arr (h : Heap) (t : Nat) : (h.pushRaw t).1.arr = h.arr ++ [h.fut.length] := rfl
theorem Heap.pushRaw_id (h : Heap) (t : Nat) : (h.pushRaw t).2 = h.fut.length := rfl
theorem Heap.pushRaw_fut_length (h : Heap) (t : Nat) : (h.pushRaw t).1.fut.length = h.fut.length + 1 := by
  simp [Heap.pushRaw]

theorem Heap.pushRaw_data (h : Heap) (t : Nat) :
    (h.pushRaw t).1.data = h.data ++ [(h.fut.length, t, true)] := by
  simp [Heap.pushRaw, Heap.data]

theorem Heap.IdxInv.pushRaw {h : Heap} (H : h.IdxInv) (t : Nat) : (h.pushRaw t).1.IdxInv := by
  obtain ⟨H1, H2, H3, H4, H5⟩ := id H
  have nmem : h.fut.length ∉ h.arr := fun c => by have := H4 _ c; omega
  apply Heap.IdxInv.mk'
  · intro k hk
    rw [Heap.pushRaw_get h t _ H5]
    simp only [Heap.pushRaw_arr, List.length_append, List.length_singleton] at hk
    by_cases hk' : k < h.arr.length
    · have e : (h.pushRaw t).1.arr[k] = h.arr[k] := by
        simp only [Heap.pushRaw_arr]; rw [List.getElem_append_left hk']
      have ne : h.arr[k] ≠ h.fut.length := by
        have := H4 _ (List.getElem_mem hk'); omega
      rw [e, if_neg ne]; exact H1 k hk'
    · have hk2 : k = h.arr.length := by omega
      have e : (h.pushRaw t).1.arr[k] = h.fut.length := by
        simp only [Heap.pushRaw_arr]; rw [List.getElem_append_right (by omega)]; simp
      rw [e, if_pos rfl, hk2]; rfl
  · intro id f hn e
    rw [Heap.pushRaw_get h t _ H5] at e
    simp only [Heap.pushRaw_arr, List.mem_append, List.mem_singleton, not_or] at hn
    rw [if_neg hn.2] at e
    exact H.idx_neg hn.1 e
  · simp only [Heap.pushRaw_arr]
    rw [List.nodup_append]
    refine ⟨H3, by simp, ?_⟩
    intro a ha b hb
    simp at hb; subst hb
    intro c; subst c; exact nmem ha
  · intro id hid
    simp only [Heap.pushRaw_arr, List.mem_append, List.mem_singleton] at hid
    rw [Heap.pushRaw_fut_length]
    rcases hid with hid | hid
    · have := H4 id hid; omega
    · omega
  · rw [Heap.pushRaw_fut_length]
    simp only [Heap.pushRaw, List.map_append, List.map_cons, List.map_nil]
    rw [H5, List.range_succ]

/-! ### popRaw -/

theorem Heap.popRaw_eq (h : Heap) (n : Nat) (hn : h.arr.length = n + 1) :
    h.popRaw = some (({ h with arr := h.arr.dropLast } : Heap).upd (h.arr[n]'(by omega))
      fun f => { f with idx := -1 }, h.arr[n]'(by omega)) := by
  unfold Heap.popRaw
  have : h.arr.getLast? = some (h.arr[n]'(by omega)) := by
    rw [List.getLast?_eq_getElem?]
    have : h.arr.length - 1 = n := by omega
    rw [this, List.getElem?_eq_getElem]
  rw [this]

theorem Heap.IdxInv.popRaw {h : Heap} (H : h.IdxInv) (n : Nat) (hn : h.arr.length = n + 1) :
    (({ h with arr := h.arr.dropLast } : Heap).upd (h.arr[n]'(by omega))
      fun f => { f with idx := -1 }).IdxInv := by
  obtain ⟨H1, H2, H3, H4, H5⟩ := id H
  have hlt : n < h.arr.length := by omega
  have e0 : ∀ a id, (Heap.mk a h.fut).get id = h.get id := fun a id => rfl
  apply Heap.IdxInv.mk'
  · intro k hk
    simp only [Heap.upd_arr, List.length_dropLast] at hk
    have hk' : k < h.arr.length := by omega
    have e : (({ h with arr := h.arr.dropLast } : Heap).upd (h.arr[n]'(by omega))
      fun f => { f with idx := -1 }).arr[k] = h.arr[k] := by
      simp only [Heap.upd_arr]; rw [List.getElem_dropLast]
    have ne : h.arr[k] ≠ h.arr[n] := by
      intro c; rw [List.getElem_inj H3] at c; omega
    rw [e, Heap.get_upd, if_neg ne, e0]; exact H1 k hk'
  · intro id f hn' e
    simp only [Heap.upd_arr] at hn'
    rw [Heap.get_upd, e0] at e
    by_cases c : id = h.arr[n]
    · rw [if_pos c] at e
      cases e1 : h.get id with
      | none => simp [e1] at e
      | some f1 => simp [e1] at e; rw [← e]
    · rw [if_neg c] at e
      apply H.idx_neg _ e
      intro hm
      obtain ⟨k, hk, rfl⟩ := List.mem_iff_getElem.1 hm
      by_cases hkn : k = n
      · subst hkn; exact c rfl
      · apply hn'
        have : k < h.arr.dropLast.length := by simp; omega
        have e2 : h.arr.dropLast[k] = h.arr[k] := List.getElem_dropLast _
        rw [← e2]; exact List.getElem_mem this
  · simp only [Heap.upd_arr]
    exact (List.dropLast_sublist h.arr).nodup H3
  · intro id hid
    simp only [Heap.upd_arr] at hid
    rw [Heap.upd_fut_length]
    exact H4 id ((List.dropLast_sublist h.arr).subset hid)
  · rw [Heap.upd_fut_fst, Heap.upd_fut_length]; exact H5

/-! ### clearing hasF (Cancel) -/

theorem Heap.IdxInv.clearF {h : Heap} (H : h.IdxInv) (id : Nat) :
    (h.upd id fun f => { f with hasF := false }).IdxInv := by
  obtain ⟨H1, H2, H3, H4, H5⟩ := _root_.id H
  have gi : ∀ x, ((h.upd id fun f => { f with hasF := false }).get x).map (·.idx) = (h.get x).map (·.idx) := by
    intro x; rw [Heap.get_upd]; split <;> simp [Function.comp_def]
  apply Heap.IdxInv.mk'
  · intro k hk; simp only [Heap.upd_arr] at hk ⊢; rw [gi]; exact H1 k hk
  · intro x f hn e
    simp only [Heap.upd_arr] at hn
    have g := gi x
    rw [e] at g
    cases e1 : h.get x with
    | none => simp [e1] at g
    | some f1 => simp [e1] at g; rw [g]; exact H.idx_neg hn e1
  · exact H3
  · intro x hx; rw [Heap.upd_fut_length]; exact H4 x hx
  · rw [Heap.upd_fut_fst, Heap.upd_fut_length]; exact H5

end Tmo
