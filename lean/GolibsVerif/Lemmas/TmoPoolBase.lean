import GolibsVerif.Model.TmoPool
/-
Basic list / heap facts for the Tmo.Pool model, and a case-split view of the `section_` step.
-/
namespace Tmo.Pool

/-! ### live-thread counting -/

def liveL (l : List WPc) : Nat := (l.filter (· != .exited)).length

theorem live_eq (s : St) : live s = liveL s.threads := rfl

theorem liveL_nil : liveL [] = 0 := rfl

theorem liveL_cons (a : WPc) (l : List WPc) :
    liveL (a :: l) = (if a = .exited then 0 else 1) + liveL l := by
  unfold liveL
  by_cases h : a = .exited
  · simp [h]
  · simp [h, Nat.add_comm]

theorem liveL_append_one (l : List WPc) (p : WPc) (hp : p ≠ .exited) :
    liveL (l ++ [p]) = liveL l + 1 := by
  induction l with
  | nil => simp [liveL_cons, hp, liveL_nil]
  | cons a l ih => simp only [List.cons_append, liveL_cons, ih]; omega

theorem liveL_set_live {l : List WPc} {i : Nat} {q p : WPc} (h : l[i]? = some q)
    (hq : q ≠ .exited) (hp : p ≠ .exited) : liveL (l.set i p) = liveL l := by
  induction l generalizing i with
  | nil => simp at h
  | cons a l ih =>
    cases i with
    | zero =>
      simp at h; subst h
      simp [List.set, liveL_cons, hq, hp]
    | succ i =>
      simp at h
      simp only [List.set, liveL_cons, ih h]

theorem liveL_set_exit {l : List WPc} {i : Nat} {q : WPc} (h : l[i]? = some q)
    (hq : q ≠ .exited) : liveL (l.set i .exited) + 1 = liveL l := by
  induction l generalizing i with
  | nil => simp at h
  | cons a l ih =>
    cases i with
    | zero =>
      simp at h; subst h
      simp [List.set, liveL_cons, hq]; omega
    | succ i =>
      simp at h
      simp only [List.set, liveL_cons, ← ih h]; omega

theorem liveL_pos {l : List WPc} {i : Nat} {q : WPc} (h : l[i]? = some q) (hq : q ≠ .exited) :
    1 ≤ liveL l := by
  have := liveL_set_exit h hq; omega

theorem liveL_alone {l : List WPc} {i : Nat} {q : WPc} (h : l[i]? = some q) (hq : q ≠ .exited)
    (h1 : liveL l ≤ 1) {k : Nat} {p : WPc} (hk : k ≠ i) (hp : l[k]? = some p) : p = .exited := by
  induction l generalizing i k with
  | nil => simp at h
  | cons a l ih =>
    rw [liveL_cons] at h1
    cases i with
    | zero =>
      simp at h; subst h
      cases k with
      | zero => exact absurd rfl hk
      | succ k =>
        simp at hp
        apply Classical.byContradiction; intro hne
        have := liveL_pos hp hne
        simp [hq] at h1; omega
    | succ i =>
      simp at h
      have hl := liveL_pos h hq
      cases k with
      | zero =>
        simp at hp; subst hp
        apply Classical.byContradiction; intro hne
        simp [hne] at h1; omega
      | succ k =>
        simp at hp
        exact ih h (by omega) (by omega) hp

theorem exists_live_of_pos {l : List WPc} (h : 1 ≤ liveL l) :
    ∃ (j : Nat) (p : WPc), l[j]? = some p ∧ p ≠ WPc.exited := by
  induction l with
  | nil => simp [liveL_nil] at h
  | cons a l ih =>
    by_cases ha : a = .exited
    · rw [liveL_cons] at h; simp [ha] at h
      obtain ⟨j, p, hj, hp⟩ := ih h
      exact ⟨j + 1, p, by rw [List.getElem?_cons_succ]; exact hj, hp⟩
    · exact ⟨0, a, rfl, ha⟩

/-! ### heap head -/

theorem minFire_eq_none {h : List (Nat × Nat)} : minFire h = none → h = [] := by
  cases h with
  | nil => intro _; rfl
  | cons x rest =>
    obtain ⟨a, t⟩ := x
    unfold minFire
    split <;> simp

theorem minFire_mem {h : List (Nat × Nat)} {m : Nat} : minFire h = some m → ∃ x ∈ h, x.2 = m := by
  induction h generalizing m with
  | nil => simp [minFire]
  | cons x rest ih =>
    obtain ⟨a, t⟩ := x
    unfold minFire
    split
    · intro hm; simp at hm; exact ⟨(a, t), by simp, hm⟩
    · rename_i m' hm'
      intro hm; simp at hm
      obtain ⟨y, hy, hy2⟩ := ih hm'
      by_cases hle : t ≤ m'
      · exact ⟨(a, t), by simp, by rw [← hm]; simp only []; omega⟩
      · exact ⟨y, by simp [hy], by rw [← hm, hy2]; omega⟩

theorem headOf_nil : headOf [] = none := rfl

theorem headOf_eq_none {h : List (Nat × Nat)} : headOf h = none → h = [] := by
  unfold headOf
  split
  · rename_i hm; intro _; exact minFire_eq_none hm
  · rename_i m hm
    intro hf
    obtain ⟨x, hx, hx2⟩ := minFire_mem hm
    rw [List.find?_eq_none] at hf
    have := hf x hx
    simp [hx2] at this

theorem headOf_filter_of_none {h : List (Nat × Nat)} (p : Nat × Nat → Bool) :
    headOf h = none → headOf (h.filter p) = none := by
  intro hn; rw [headOf_eq_none hn]; rfl

/-! ### a case-split view of the `section_` step -/

/-- the target state of `section_`, as a function of the state after the callback ran -/
def secT (c : Cfg) (s0 : St) (i : Nat) (mis' : Nat) : St :=
  match headOf s0.heap with
  | none =>
    if mis' > 1 then setT { s0 with watchers := s0.watchers - 1 } i .exited
    else setT s0 i (.sleeping (s0.now + c.idle) mis' true)
  | some (id, fireT) =>
    if s0.now ≥ fireT then
      let heap' := s0.heap.filter (·.1 != id)
      let s1 : St := { s0 with heap := heap' }
      let spawn := match headOf heap' with
        | some (_, t2) => decide (s0.now > t2) && decide (s0.watchers < c.maxWorkers)
        | none => false
      if spawn then setT { s1 with watchers := s1.watchers + 1, threads := s1.threads ++ [.top none 0] } i (.top (some id) mis')
      else setT s1 i (.top (some id) mis')
    else if s0.watchers > 1 then
      if mis' > 1 then setT { s0 with watchers := s0.watchers - 1 } i .exited
      else setT s0 i (.sleeping (s0.now + min (fireT - s0.now) c.idle) mis' true)
    else setT s0 i (.sleeping fireT mis' false)

/-- state after running the callback -/
def ranCb (s : St) : Option Nat → St
  | some id => { s with started := s.started ++ [id] }
  | none => s

def misNext (f : Option Nat) (mis : Nat) : Nat := if f.isSome then 0 else mis + 1

theorem step_section (c : Cfg) (s : St) (i : Nat) (f : Option Nat) (mis : Nat)
    (h : s.threads[i]? = some (.top f mis)) : Step c s (secT c (ranCb s f) i (misNext f mis)) := by
  cases f <;> exact Step.section_ s i _ mis h

/-- the possible outcomes of a `section_` step -/
inductive SecOut (c : Cfg) (s : St) (i : Nat) (m : Nat) : St → Prop
  | exitEmpty : headOf s.heap = none → 1 < m →
      SecOut c s i m (setT { s with watchers := s.watchers - 1 } i .exited)
  | sleepIdle : headOf s.heap = none → m ≤ 1 →
      SecOut c s i m (setT s i (.sleeping (s.now + c.idle) m true))
  | popSpawn (id fireT id2 t2 : Nat) : headOf s.heap = some (id, fireT) → fireT ≤ s.now →
      headOf (s.heap.filter (·.1 != id)) = some (id2, t2) → t2 < s.now → s.watchers < c.maxWorkers →
      SecOut c s i m (setT { s with heap := s.heap.filter (·.1 != id), watchers := s.watchers + 1,
                                    threads := s.threads ++ [.top none 0] } i (.top (some id) m))
  | pop (id fireT : Nat) : headOf s.heap = some (id, fireT) → fireT ≤ s.now →
      (∀ id2 t2, headOf (s.heap.filter (·.1 != id)) = some (id2, t2) → t2 < s.now →
        s.watchers < c.maxWorkers → False) →
      SecOut c s i m (setT { s with heap := s.heap.filter (·.1 != id) } i (.top (some id) m))
  | exitBusy (id fireT : Nat) : headOf s.heap = some (id, fireT) → s.now < fireT → 1 < s.watchers → 1 < m →
      SecOut c s i m (setT { s with watchers := s.watchers - 1 } i .exited)
  | sleepCapped (id fireT : Nat) : headOf s.heap = some (id, fireT) → s.now < fireT → 1 < s.watchers → m ≤ 1 →
      SecOut c s i m (setT s i (.sleeping (s.now + min (fireT - s.now) c.idle) m true))
  | sleepUncapped (id fireT : Nat) : headOf s.heap = some (id, fireT) → s.now < fireT → s.watchers ≤ 1 →
      SecOut c s i m (setT s i (.sleeping fireT m false))

theorem secT_out (c : Cfg) (s : St) (i m : Nat) : SecOut c s i m (secT c s i m) := by
  unfold secT
  split
  · rename_i hh
    split
    · exact .exitEmpty hh (by omega)
    · exact .sleepIdle hh (by omega)
  · rename_i id fireT hh
    split
    · rename_i hdue
      dsimp only
      split
      · rename_i id2 t2 hh2
        split
        · rename_i hsp
          simp at hsp
          exact .popSpawn id fireT id2 t2 hh hdue hh2 hsp.1 hsp.2
        · rename_i hsp
          simp at hsp
          refine .pop id fireT hh hdue ?_
          intro a b hab h1 h2
          rw [hh2] at hab; cases hab
          have := hsp h1; omega
      · rename_i hh2
        simp
        refine .pop id fireT hh hdue ?_
        intro a b hab
        rw [hh2] at hab; cases hab
    · rename_i hnd
      split
      · rename_i hw
        split
        · exact .exitBusy id fireT hh (by omega) hw (by omega)
        · exact .sleepCapped id fireT hh (by omega) hw (by omega)
      · exact .sleepUncapped id fireT hh (by omega) (by omega)

end Tmo.Pool

namespace Tmo.Pool

theorem SecOut.started {c : Cfg} {s t : St} {i m : Nat} (h : SecOut c s i m t) : t.started = s.started := by
  cases h <;> rfl

end Tmo.Pool
