import GolibsVerif.Model.LeaseCell
/-
`LeaseCell`: an executable, checked replay of labelled runs (used for the two concrete runs of
Lemmas/LeaseCell.lean).  `exec cas s a = some t` implies `Step cas s t` and that the step is not an
early fire (`exec_sound`); the results of whole runs are then obtained by kernel evaluation (`rfl`).
-/
namespace LeaseCell

/-- labels of the steps used in replayed runs -/
inductive Act where
  | acquire | unlock | uCancel | uDelete
  | fire (t : Timer)
  | supLoad (u : Sup)
  | supApply (u : Sup) (fut : Option Nat) (o : Bool)
  | supLose (u : Sup) (fut : Option Nat)
  | supOk (u : Sup) (fut : Option Nat) (nv : Nat)
  | supErr (u : Sup) (fut : Option Nat)
  | supArm (u : Sup) (fut : Option Nat) (nv : Nat)
  | supSwap (u : Sup) (fut : Option Nat) (tn : Nat)

/-- some supportTimeout is about to install the timer `id` -/
def swapsFor (s : St) (id : Nat) : Bool :=
  s.sups.any fun u => match u.pc with
    | .swap _ tn => tn == id
    | _ => false

def exec (cas : Bool) (s : St) : Act → Option St
  | .acquire =>
    if s.phase = .idle ∧ s.lrec = none then
      some { s with phase := .held, lrec := some (s.nextVer, true), nextVer := s.nextVer + 1,
                    armed := { id := s.nextTimer, ver := s.nextVer } :: s.armed,
                    future := some s.nextTimer, nextTimer := s.nextTimer + 1 }
    else none
  | .unlock => if s.phase = .held then some { s with phase := .uCancel } else none
  | .uCancel =>
    if s.phase = .uCancel then
      some { s with phase := .uDelete, armed := s.armed.filter fun t => some t.id ≠ s.future }
    else none
  | .uDelete => if s.phase = .uDelete then some { s with phase := .idle, lrec := none } else none
  | .fire t =>
    if t ∈ s.armed ∧ swapsFor s t.id = false then
      some { s with armed := s.armed.filter (· ≠ t), sups := { ver := t.ver, pc := .load } :: s.sups }
    else none
  | .supLoad u =>
    if u ∈ s.sups ∧ u.pc = .load then some { s with sups := setSup s u (.call s.future) } else none
  | .supApply u fut o =>
    if u ∈ s.sups ∧ u.pc = .call fut ∧ s.lrec = some (u.ver, o) then
      some { s with lrec := some (s.nextVer, o), nextVer := s.nextVer + 1,
                    sups := setSup s u (.okPending fut s.nextVer) }
    else none
  | .supLose u fut =>
    if u ∈ s.sups ∧ u.pc = .call fut then some { s with sups := setSup s u (.errPending fut) } else none
  | .supOk u fut nv =>
    if u ∈ s.sups ∧ u.pc = .okPending fut nv then some { s with sups := setSup s u (.arm fut nv) } else none
  | .supErr u fut =>
    if u ∈ s.sups ∧ u.pc = .errPending fut then some { s with sups := setSup s u (.arm fut u.ver) } else none
  | .supArm u fut nv =>
    if u ∈ s.sups ∧ u.pc = .arm fut nv then
      some { s with armed := { id := s.nextTimer, ver := nv } :: s.armed, nextTimer := s.nextTimer + 1,
                    sups := setSup s u (.swap fut s.nextTimer) }
    else none
  | .supSwap u fut tn =>
    if u ∈ s.sups ∧ u.pc = .swap fut tn then
      some (
        if cas then
          (if s.future = fut then { s with future := some tn, sups := s.sups.erase u }
           else { s with armed := s.armed.filter (·.id ≠ tn), sups := s.sups.erase u })
        else
          { s with future := some tn, armed := s.armed.filter (fun t => some t.id ≠ s.future), sups := s.sups.erase u })
    else none

theorem EarlyFire.sups_length {s t : St} (h : EarlyFire s t) : t.sups.length = s.sups.length + 1 := by
  obtain ⟨tm, _, _, rfl⟩ := h
  simp

theorem not_early_of_len {s t : St} (h : t.sups.length ≤ s.sups.length) : ¬ EarlyFire s t := by
  intro he
  have := he.sups_length
  omega

theorem setSup_length {s : St} {u : Sup} (h : u ∈ s.sups) (pc : SupPc) :
    (setSup s u pc).length = s.sups.length := by
  have hpos : 0 < s.sups.length := List.length_pos_of_mem h
  simp only [setSup, List.length_cons, List.length_erase_of_mem h]
  omega

theorem swapsFor_false {s : St} {id : Nat} (h : swapsFor s id = false) :
    ¬ ∃ u ∈ s.sups, ∃ f, u.pc = .swap f id := by
  rintro ⟨u, hu, f, hp⟩
  have : swapsFor s id = true := by
    simp only [swapsFor, List.any_eq_true]
    exact ⟨u, hu, by simp [hp]⟩
  rw [h] at this
  cases this

/-- a fire step of a timer which no supportTimeout is about to install is not an early fire -/
theorem fire_not_early {s : St} {t : Timer} (ht : t ∈ s.armed)
    (hn : ¬ ∃ u ∈ s.sups, ∃ f, u.pc = .swap f t.id) :
    ¬ EarlyFire s { s with armed := s.armed.filter (· ≠ t), sups := { ver := t.ver, pc := .load } :: s.sups } := by
  rintro ⟨tm, htm, hsw, heq⟩
  have ha : s.armed.filter (· ≠ t) = s.armed.filter (· ≠ tm) := by
    have := congrArg St.armed heq
    simpa using this
  by_cases hc : tm = t
  · subst hc; exact hn hsw
  · have h1 : tm ∈ s.armed.filter (· ≠ t) := by
      simp [List.mem_filter, htm, hc]
    rw [ha] at h1
    simp [List.mem_filter] at h1

/-- conversely: what a non-early fire step gives -/
theorem not_early_fire {s : St} {t : Timer} (ht : t ∈ s.armed)
    (hne : ¬ EarlyFire s { s with armed := s.armed.filter (· ≠ t), sups := { ver := t.ver, pc := .load } :: s.sups }) :
    ∀ u ∈ s.sups, ∀ f, u.pc ≠ .swap f t.id := by
  intro u hu f hp
  exact hne ⟨t, ht, ⟨u, hu, f, hp⟩, rfl⟩

theorem exec_sound {cas : Bool} {s t : St} {a : Act} (h : exec cas s a = some t) :
    Step cas s t ∧ ¬ EarlyFire s t := by
  cases a with
  | acquire =>
    simp only [exec] at h
    split at h
    · rename_i hc; cases h
      exact ⟨Step.acquire s hc.1 hc.2, not_early_of_len (Nat.le_refl _)⟩
    · cases h
  | unlock =>
    simp only [exec] at h
    split at h
    · rename_i hc; cases h
      exact ⟨Step.unlock s hc, not_early_of_len (Nat.le_refl _)⟩
    · cases h
  | uCancel =>
    simp only [exec] at h
    split at h
    · rename_i hc; cases h
      exact ⟨Step.uCancel s hc, not_early_of_len (Nat.le_refl _)⟩
    · cases h
  | uDelete =>
    simp only [exec] at h
    split at h
    · rename_i hc; cases h
      exact ⟨Step.uDelete s hc, not_early_of_len (Nat.le_refl _)⟩
    · cases h
  | fire tm =>
    simp only [exec] at h
    split at h
    · rename_i hc; cases h
      exact ⟨Step.fire s tm hc.1, fire_not_early hc.1 (swapsFor_false hc.2)⟩
    · cases h
  | supLoad u =>
    simp only [exec] at h
    split at h
    · rename_i hc; cases h
      exact ⟨Step.supLoad s u hc.1 hc.2, not_early_of_len (Nat.le_of_eq (setSup_length hc.1 _))⟩
    · cases h
  | supApply u fut o =>
    simp only [exec] at h
    split at h
    · rename_i hc; cases h
      exact ⟨Step.supApply s u fut u.ver o hc.1 hc.2.1 hc.2.2 rfl,
        not_early_of_len (Nat.le_of_eq (setSup_length hc.1 _))⟩
    · cases h
  | supLose u fut =>
    simp only [exec] at h
    split at h
    · rename_i hc; cases h
      exact ⟨Step.supLose s u fut hc.1 hc.2, not_early_of_len (Nat.le_of_eq (setSup_length hc.1 _))⟩
    · cases h
  | supOk u fut nv =>
    simp only [exec] at h
    split at h
    · rename_i hc; cases h
      exact ⟨Step.supOk s u fut nv hc.1 hc.2, not_early_of_len (Nat.le_of_eq (setSup_length hc.1 _))⟩
    · cases h
  | supErr u fut =>
    simp only [exec] at h
    split at h
    · rename_i hc; cases h
      exact ⟨Step.supErr s u fut hc.1 hc.2, not_early_of_len (Nat.le_of_eq (setSup_length hc.1 _))⟩
    · cases h
  | supArm u fut nv =>
    simp only [exec] at h
    split at h
    · rename_i hc; cases h
      exact ⟨Step.supArm s u fut nv hc.1 hc.2, not_early_of_len (Nat.le_of_eq (setSup_length hc.1 _))⟩
    · cases h
  | supSwap u fut tn =>
    simp only [exec] at h
    split at h
    · rename_i hc; cases h
      refine ⟨Step.supSwap s u fut tn hc.1 hc.2, not_early_of_len ?_⟩
      have hl : (s.sups.erase u).length ≤ s.sups.length := by
        rw [List.length_erase_of_mem hc.1]; omega
      cases cas
      · exact hl
      · by_cases hf : s.future = fut
        · simp only [if_true, hf]; exact hl
        · simp only [if_true, hf, if_false]; exact hl
    · cases h

/-- no supportTimeout has a transient error on its way -/
def noErr (s : St) : Bool :=
  s.sups.all fun u => match u.pc with
    | .errPending _ => false
    | _ => true

theorem noErr_of_lose {s t : St}
    (h : ∃ u ∈ s.sups, ∃ fut, u.pc = .call fut ∧ t = { s with sups := setSup s u (.errPending fut) }) :
    noErr t = false := by
  obtain ⟨u, _, fut, _, rfl⟩ := h
  simp [noErr, setSup]

def run (cas : Bool) : St → List Act → Option St
  | s, [] => some s
  | s, a :: as =>
    match exec cas s a with
    | some t => run cas t as
    | none => none

/-- the same, refusing states with a transient error on its way -/
def runQ (cas : Bool) : St → List Act → Option St
  | s, [] => some s
  | s, a :: as =>
    match exec cas s a with
    | some t => if noErr t then runQ cas t as else none
    | none => none

theorem run_reachNE {cas : Bool} {as : List Act} : ∀ {s t : St}, ReachNE cas s → run cas s as = some t → ReachNE cas t := by
  induction as with
  | nil => intro s t hs h; simp only [run] at h; cases h; exact hs
  | cons a as ih =>
    intro s t hs h
    simp only [run] at h
    split at h
    · rename_i t' he
      have := exec_sound he
      exact ih (ReachNE.step hs this.1 this.2) h
    · cases h

/-- the run of the header comment of Props/C05Cell.lean: a supportTimeout of a finished tenure starts late,
meets a transient error, re-arms itself and takes over `l.future`; a second time between the load and the
CompareAndSwap of the live chain's renewal -/
def staleErrorsActs : List Act :=
  [ .acquire,
    .fire ⟨0, 1⟩,
    .unlock, .uCancel, .uDelete,
    .acquire,
    .supLoad ⟨1, .load⟩,
    .supLose ⟨1, .call (some 1)⟩ (some 1),
    .supErr ⟨1, .errPending (some 1)⟩ (some 1),
    .supArm ⟨1, .arm (some 1) 1⟩ (some 1) 1,
    .supSwap ⟨1, .swap (some 1) 2⟩ (some 1) 2,
    .fire ⟨1, 2⟩,
    .supLoad ⟨2, .load⟩,
    .supApply ⟨2, .call (some 2)⟩ (some 2) true,
    .supOk ⟨2, .okPending (some 2) 3⟩ (some 2) 3,
    .supArm ⟨2, .arm (some 2) 3⟩ (some 2) 3,
    .fire ⟨2, 1⟩,
    .supLoad ⟨1, .load⟩,
    .supLose ⟨1, .call (some 2)⟩ (some 2),
    .supErr ⟨1, .errPending (some 2)⟩ (some 2),
    .supArm ⟨1, .arm (some 2) 1⟩ (some 2) 1,
    .supSwap ⟨1, .swap (some 2) 4⟩ (some 2) 4,
    .supSwap ⟨2, .swap (some 2) 3⟩ (some 2) 3 ]

def staleErrorsEnd : St :=
  { phase := .held, lrec := some (3, true), future := some 4, armed := [⟨4, 1⟩], sups := [],
    nextVer := 4, nextTimer := 5 }

theorem staleErrors_run : run true St.init staleErrorsActs = some staleErrorsEnd := by decide

/-- the Swap variant: Unlock + Lock while an applied renewal's answer is on its way -/
def swapVariantActs : List Act :=
  [ .acquire,
    .fire ⟨0, 1⟩,
    .supLoad ⟨1, .load⟩,
    .supApply ⟨1, .call (some 0)⟩ (some 0) true,
    .unlock, .uCancel, .uDelete,
    .acquire,
    .supOk ⟨1, .okPending (some 0) 2⟩ (some 0) 2,
    .supArm ⟨1, .arm (some 0) 2⟩ (some 0) 2,
    .supSwap ⟨1, .swap (some 0) 2⟩ (some 0) 2 ]

def swapVariantEnd : St :=
  { phase := .held, lrec := some (3, true), future := some 2, armed := [⟨2, 2⟩], sups := [],
    nextVer := 4, nextTimer := 3 }

theorem swapVariant_run : runQ false St.init swapVariantActs = some swapVariantEnd := by decide

theorem staleErrorsEnd_not_alive : ¬ Alive staleErrorsEnd 3 := by
  simp [Alive, staleErrorsEnd]

theorem swapVariantEnd_not_alive : ¬ Alive swapVariantEnd 3 := by
  simp [Alive, swapVariantEnd]

end LeaseCell
