import GolibsVerif.Lemmas.LockLeaseDist
/- Lock lease (C05), part 3: awaited timers are unreferenced; the carriers of the record's version belong to the owner's Locker -/
namespace Lock
structure Lnk (c : Cfg) (s : St) : Prop where
  await_future : ∀ u ∈ s.sups, ∀ tn, u.await = some tn → ∀ l, s.future l ≠ some tn
  await_fut : ∀ u ∈ s.sups, ∀ tn, u.await = some tn → ∀ u' ∈ s.sups, u'.fut ≠ some (some tn)
  await_l : ∀ u ∈ s.sups, ∀ tn, u.await = some tn → ∀ t ∈ s.armed, t.id = tn → t.l = u.l
  rec_l : ∀ r g, s.lrec = some r → r.owner = some g →
    (∀ t ∈ s.armed, t.ver = r.ver → t.l = c.lk g) ∧ (∀ u ∈ s.sups, u.foot = some r.ver → u.l = c.lk g)

theorem Lnk.init {c : Cfg} : Lnk c St.init := by
  constructor <;> simp [St.init]

theorem Lnk.step {c : Cfg} {s t : St} (hs : Step c false false s t) (hf : Fresh s) (hd : Dist s) (h : Lnk c s) : Lnk c t := by
  obtain ⟨h1, h2, h3, h4⟩ := h
  obtain ⟨f1, f2, f3, f4, f5, f6⟩ := hf
  obtain ⟨d1, d2, d3, d4, d5, d6⟩ := hd
  have hme := fun (a b : Sup) => List.Nodup.mem_erase_iff (a := a) (b := b) d3
  cases hs
  case supLoad u hu hp =>
    have := Sup.of_load hp
    constructor <;> grind [upd]
  case supSwap u fut tn hu hp =>
    have := Sup.of_swap hp
    split <;> constructor <;> grind [upd]
  case supCasOk u fut r hu hp hr hv =>
    have := Sup.of_cas hp
    constructor <;> grind [upd]
  case supCasDefinitive u fut hu hp hr =>
    have := Sup.of_cas hp
    constructor <;> grind [upd]
  case supArm u fut nv hu hp =>
    have := Sup.of_arm hp
    constructor <;> grind [upd]
  all_goals first | exact ⟨h1, h2, h3, h4⟩ | (constructor <;> grind [upd])

end Lock
