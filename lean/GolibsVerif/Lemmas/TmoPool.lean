import GolibsVerif.Model.TmoPool
