import GolibsVerif.Model.TmoPool
import GolibsVerif.Lemmas.TmoPoolBase
import GolibsVerif.Lemmas.TmoPoolInv
import GolibsVerif.Lemmas.TmoPoolResp
import GolibsVerif.Lemmas.TmoPoolLate
