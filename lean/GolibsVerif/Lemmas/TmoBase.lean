import GolibsVerif.Model.Tmo
/-
Structural lemmas for the timer heap model: the id ↦ record table (`get`/`upd`), the
`(id, fireT, hasF)` projection `data` that no heap operation changes, `swap`, `pushRaw`, `popRaw`.
-/
namespace Tmo

/-- the part of the table the heap algorithms never touch -/
def Heap.data (h : Heap) : List (Nat × Nat × Bool) := h.fut.map fun x => (x.1, x.2.fireT, x.2.hasF)

/-- fire time of a future id (0 if unknown) -/
def Heap.key (h : Heap) (id : Nat) : Nat := ((h.get id).map (·.fireT)).getD 0

theorem Heap.get_data (h : Heap) (id : Nat) :
    (h.get id).map (fun f => (f.fireT, f.hasF)) = (h.data.find? (·.1 == id)).map (·.2) := by
  unfold Heap.get Heap.data
  rw [List.find?_map]
  simp [Function.comp_def]

theorem Heap.key_data (h : Heap) (id : Nat) :
    h.key id = (((h.data.find? (·.1 == id)).map (·.2)).map (·.1)).getD 0 := by
  rw [← Heap.get_data]; unfold Heap.key; simp [Function.comp_def]

theorem Heap.data_length (h : Heap) : h.data.length = h.fut.length := by simp [Heap.data]

theorem Heap.data_fst (h : Heap) : h.data.map (·.1) = h.fut.map (·.1) := by
  simp [Heap.data, Function.comp_def]

theorem Heap.key_congr {h h' : Heap} (e : h'.data = h.data) (id : Nat) : h'.key id = h.key id := by
  rw [Heap.key_data, Heap.key_data, e]

theorem Heap.get_congr {h h' : Heap} (e : h'.data = h.data) (id : Nat) :
    (h'.get id).map (fun f => (f.fireT, f.hasF)) = (h.get id).map (fun f => (f.fireT, f.hasF)) := by
  rw [Heap.get_data, Heap.get_data, e]

theorem Heap.fut_length_congr {h h' : Heap} (e : h'.data = h.data) : h'.fut.length = h.fut.length := by
  rw [← Heap.data_length, ← Heap.data_length, e]

theorem Heap.fut_fst_congr {h h' : Heap} (e : h'.data = h.data) : h'.fut.map (·.1) = h.fut.map (·.1) := by
  rw [← Heap.data_fst, ← Heap.data_fst, e]

@[simp] theorem Heap.upd_arr (h : Heap) (id : Nat) (g : Fut → Fut) : (h.upd id g).arr = h.arr := rfl

theorem Heap.get_upd (h : Heap) (id id' : Nat) (g : Fut → Fut) :
    (h.upd id g).get id' = if id' = id then (h.get id').map g else h.get id' := by
  unfold Heap.get Heap.upd
  simp only
  induction h.fut with
  | nil => simp
  | cons x xs ih =>
    simp only [List.map_cons, List.find?_cons]
    by_cases hx : x.1 = id'
    · by_cases hx' : x.1 = id
      · simp [hx, ← hx.symm.trans hx']
      · have : id' ≠ id := by omega
        simp [hx, this]
    · have h1 : ((if (x.1 == id) = true then (x.1, g x.2) else x).1 == id') = false := by
        split <;> simp [hx]
      have h2 : (x.1 == id') = false := by simp [hx]
      rw [h1, h2]; exact ih

theorem Heap.upd_data (h : Heap) (id : Nat) (g : Fut → Fut)
    (hg : ∀ f, (g f).fireT = f.fireT ∧ (g f).hasF = f.hasF) : (h.upd id g).data = h.data := by
  unfold Heap.data Heap.upd
  simp only [List.map_map]
  apply List.map_congr_left
  intro x _
  simp only [Function.comp]
  split <;> simp [hg]

theorem Heap.upd_fut_length (h : Heap) (id : Nat) (g : Fut → Fut) :
    (h.upd id g).fut.length = h.fut.length := by simp [Heap.upd]

theorem Heap.upd_fut_fst (h : Heap) (id : Nat) (g : Fut → Fut) :
    (h.upd id g).fut.map (·.1) = h.fut.map (·.1) := by
  unfold Heap.upd
  simp only [List.map_map]
  apply List.map_congr_left
  intro x _
  simp only [Function.comp]
  split <;> simp

theorem Heap.fireAt_eq (h : Heap) (i : Nat) (hi : i < h.arr.length) : h.fireAt i = h.key h.arr[i] := by
  unfold Heap.fireAt Heap.key
  simp [List.getElem?_eq_getElem hi]

/-- membership in the table from a successful lookup -/
theorem Heap.mem_of_get {h : Heap} {id : Nat} {f : Fut} (e : h.get id = some f) : (id, f) ∈ h.fut := by
  unfold Heap.get at e
  cases hf : h.fut.find? (·.1 == id) with
  | none => simp [hf] at e
  | some x =>
    simp [hf] at e
    have h1 := List.mem_of_find?_eq_some hf
    have h2 := List.find?_some hf
    simp at h2
    rw [← h2, ← e]; exact h1

/-- with distinct keys, membership gives the lookup -/
theorem Heap.get_of_mem {h : Heap} (hk : h.fut.map (·.1) = List.range h.fut.length)
    {x : Nat × Fut} (hx : x ∈ h.fut) : h.get x.1 = some x.2 := by
  have nd : (h.fut.map (·.1)).Nodup := by rw [hk]; exact List.nodup_range
  unfold Heap.get
  generalize h.fut = l at hx nd
  induction l with
  | nil => cases hx
  | cons y ys ih =>
    simp only [List.map_cons, List.nodup_cons] at nd
    simp only [List.find?_cons]
    rcases List.mem_cons.1 hx with rfl | hx'
    · simp
    · have : y.1 ≠ x.1 := by
        intro e; apply nd.1; rw [e]; exact List.mem_map_of_mem hx'
      have h2 : (y.1 == x.1) = false := by simp [this]
      rw [h2]; exact ih hx' nd.2

theorem Heap.get_isSome_of_lt {h : Heap} (hk : h.fut.map (·.1) = List.range h.fut.length)
    {id : Nat} (hid : id < h.fut.length) : ∃ f, h.get id = some f := by
  have : id ∈ h.fut.map (·.1) := by rw [hk]; exact List.mem_range.2 hid
  obtain ⟨x, hx, rfl⟩ := List.mem_map.1 this
  exact ⟨x.2, Heap.get_of_mem hk hx⟩

theorem Heap.lt_of_get {h : Heap} (hk : h.fut.map (·.1) = List.range h.fut.length)
    {id : Nat} {f : Fut} (e : h.get id = some f) : id < h.fut.length := by
  have := List.mem_map_of_mem (f := (·.1)) (Heap.mem_of_get e)
  rw [hk] at this; exact List.mem_range.1 this

/-! ### swap -/

theorem Heap.swap_eq (h : Heap) (i j : Nat) (hi : i < h.arr.length) (hj : j < h.arr.length) :
    h.swap i j = (({ h with arr := (h.arr.set i h.arr[j]).set j h.arr[i] } : Heap).upd h.arr[j]
      fun f => { f with idx := i }).upd h.arr[i] fun f => { f with idx := j } := by
  unfold Heap.swap
  simp [List.getElem?_eq_getElem hi, List.getElem?_eq_getElem hj]

theorem Heap.swap_arr (h : Heap) (i j : Nat) (hi : i < h.arr.length) (hj : j < h.arr.length) :
    (h.swap i j).arr = (h.arr.set i h.arr[j]).set j h.arr[i] := by
  rw [Heap.swap_eq h i j hi hj]; rfl

theorem Heap.swap_length (h : Heap) (i j : Nat) : (h.swap i j).arr.length = h.arr.length := by
  unfold Heap.swap
  split
  · simp [Heap.upd]
  · rfl

theorem Heap.swap_data (h : Heap) (i j : Nat) : (h.swap i j).data = h.data := by
  unfold Heap.swap
  split
  · rw [Heap.upd_data _ _ _ (by intro f; simp), Heap.upd_data _ _ _ (by intro f; simp)]; rfl
  · rfl

theorem set_set_perm {l : List Nat} {i j : Nat} (hi : i < l.length) (hj : j < l.length) :
    ((l.set i l[j]).set j l[i]).Perm l := by
  have := Array.swap_perm (xs := l.toArray) (i := i) (j := j) (by simpa using hi) (by simpa using hj)
  have h2 := this.toList
  simpa using h2

theorem Heap.swap_perm (h : Heap) (i j : Nat) : (h.swap i j).arr.Perm h.arr := by
  by_cases hi : i < h.arr.length
  · by_cases hj : j < h.arr.length
    · rw [Heap.swap_arr h i j hi hj]; exact set_set_perm hi hj
    · unfold Heap.swap; simp [List.getElem?_eq_none (Nat.le_of_not_lt hj)]
  · unfold Heap.swap; simp [List.getElem?_eq_none (Nat.le_of_not_lt hi)]

theorem Heap.swap_getElem? (h : Heap) (i j k : Nat) (hi : i < h.arr.length) (hj : j < h.arr.length) :
    (h.swap i j).arr[k]? = if k = j then h.arr[i]? else if k = i then h.arr[j]? else h.arr[k]? := by
  rw [Heap.swap_arr h i j hi hj]
  simp only [List.getElem?_set, List.length_set]
  by_cases h1 : k = j
  · subst h1; simp [hj, List.getElem?_eq_getElem hi]
  · by_cases h2 : k = i
    · subst h2
      have : ¬ j = k := fun e => h1 e.symm
      simp [this, h1, hi, List.getElem?_eq_getElem hj]
    · have a : ¬ j = k := fun e => h1 e.symm
      have b : ¬ i = k := fun e => h2 e.symm
      simp [a, b, h1, h2]

theorem Heap.swap_key (h : Heap) (i j id : Nat) : (h.swap i j).key id = h.key id :=
  Heap.key_congr (Heap.swap_data h i j) id

theorem Heap.fireAt_eq' (h : Heap) (i : Nat) :
    h.fireAt i = match h.arr[i]? with | some id => h.key id | none => 0 := by
  unfold Heap.fireAt Heap.key
  cases h.arr[i]? <;> simp

theorem Heap.swap_fireAt (h : Heap) (i j k : Nat) (hi : i < h.arr.length) (hj : j < h.arr.length) :
    (h.swap i j).fireAt k = if k = j then h.fireAt i else if k = i then h.fireAt j else h.fireAt k := by
  rw [Heap.fireAt_eq', Heap.swap_getElem? h i j k hi hj]
  simp only [Heap.swap_key]
  by_cases h1 : k = j
  · simp [h1, Heap.fireAt_eq']
  · by_cases h2 : k = i
    · subst h2
      have : ¬ k = j := h1
      simp [this, Heap.fireAt_eq']
    · simp [h1, h2, Heap.fireAt_eq']

end Tmo
