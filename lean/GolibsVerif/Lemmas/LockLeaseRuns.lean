import GolibsVerif.Model.Lock
/- Lock lease (C05): explicit runs (witnesses and counterexamples) -/
namespace Lock

/-- one Locker, one provider -/
def c0 : Cfg := ⟨fun _ => 0, fun _ => 0⟩

/-- KF-3: after a reply-lost renewal CAS the retry uses the old version; its CAS is definitive -/
theorem reply_lost_run :
    ∃ s, Reach c0 false true s ∧ s.holds 0 = true ∧ s.armed = [] ∧ s.sups = [] := by
  have h := Reach.init (c := c0) (weak := false) (faults := true)
  have h := h.step (Step.callTry _ 0 (by rfl) (by rfl))
  have h := h.step (Step.tSelToken _ 0 (by rfl) (by rfl) (by rfl) (by rfl))
  have h := h.step (Step.tCreateOk _ 0 (by rfl) (by rfl))
  have h := h.step (Step.fire _ ⟨0, 0, 1⟩ (by simp [St.init, c0]))
  have h := h.step (Step.supLoad _ ⟨0, 1, .load⟩ (by simp) (by rfl))
  have h := h.step (Step.supCasReplyLost _ ⟨0, 1, .cas (some 0)⟩ (some 0) ⟨1, some 0⟩ rfl (by simp [upd, St.init, c0]) (by rfl) (by rfl) (by rfl))
  have h := h.step (Step.supArm _ ⟨0, 1, .arm (some 0) 1⟩ (some 0) 1 (by simp [St.init]) (by rfl))
  have h := h.step (Step.supSwap _ ⟨0, 1, .swap (some 0) 1⟩ (some 0) 1 (by simp [St.init]) (by rfl))
  have h := h.step (Step.fire _ ⟨1, 0, 1⟩ (by simp [St.init, upd, c0]))
  have h := h.step (Step.supLoad _ ⟨0, 1, .load⟩ (by simp [St.init, upd, c0]) (by rfl))
  have h := h.step (Step.supCasDefinitive _ ⟨0, 1, .cas (some 1)⟩ (some 1) (by simp [St.init, upd, c0]) (by rfl)
    (Or.inr ⟨⟨2, some 0⟩, by simp [St.init, upd, c0], by decide⟩))
  exact ⟨_, h, by simp [St.init, upd, c0], by simp [St.init, upd, c0], by simp [St.init, upd, c0]⟩

/-- the early-fire race (fault-free): the timer armed by a supportTimeout fires before that
supportTimeout has executed `future.CompareAndSwap`; the next supportTimeout loads the old `future`,
renews the record, loses the CompareAndSwap and cancels the only live timer: the holder is left
without any renewal activity. -/
theorem early_fire_run :
    ∃ s, Reach c0 false false s ∧ s.holds 0 = true ∧ s.lrec = some ⟨3, some 0⟩ ∧ s.armed = [] ∧ s.sups = [] := by
  have h := Reach.init (c := c0) (weak := false) (faults := false)
  have h := h.step (Step.callTry _ 0 (by rfl) (by rfl))
  have h := h.step (Step.tSelToken _ 0 (by rfl) (by rfl) (by rfl) (by rfl))
  have h := h.step (Step.tCreateOk _ 0 (by rfl) (by rfl))
  have h := h.step (Step.fire _ ⟨0, 0, 1⟩ (by simp [St.init, c0]))
  have h := h.step (Step.supLoad _ ⟨0, 1, .load⟩ (by simp) (by rfl))
  have h := h.step (Step.supCasOk _ ⟨0, 1, .cas (some 0)⟩ (some 0) ⟨1, some 0⟩ (by simp [upd, St.init, c0]) (by rfl) (by rfl) (by rfl))
  have h := h.step (Step.supArm _ ⟨0, 1, .arm (some 0) 2⟩ (some 0) 2 (by simp [St.init]) (by rfl))
  have h := h.step (Step.fire _ ⟨1, 0, 2⟩ (by simp [St.init]))
  have h := h.step (Step.supLoad _ ⟨0, 2, .load⟩ (by simp) (by rfl))
  have h := h.step (Step.supCasOk _ ⟨0, 2, .cas (some 0)⟩ (some 0) ⟨2, some 0⟩ (by simp [upd, St.init, c0]) (by rfl) (by rfl) (by rfl))
  have h := h.step (Step.supArm _ ⟨0, 2, .arm (some 0) 3⟩ (some 0) 3 (by simp [St.init]) (by rfl))
  have h := h.step (Step.supSwap _ ⟨0, 1, .swap (some 0) 1⟩ (some 0) 1 (by simp [St.init]) (by rfl))
  have h := h.step (Step.supSwap _ ⟨0, 2, .swap (some 0) 2⟩ (some 0) 2 (by simp [St.init, upd, c0]) (by rfl))
  exact ⟨_, h, by simp [St.init, upd, c0], by simp [St.init, upd, c0], by simp [St.init, upd, c0], by simp [St.init, upd, c0]⟩

/-- two tenures on one Locker, each leaving a fired-but-not-finished renewal behind -/
theorem two_stale_run :
    ∃ s, Reach c0 false false s ∧ (∀ g, s.pc g = .idle ∧ s.holds g = false) ∧ s.armed = [] ∧
      s.sups = [⟨0, 2, .load⟩, ⟨0, 1, .load⟩] ∧ s.lrec = none := by
  have h := Reach.init (c := c0) (weak := false) (faults := false)
  have h := h.step (Step.callTry _ 0 (by rfl) (by rfl))
  have h := h.step (Step.tSelToken _ 0 (by rfl) (by rfl) (by rfl) (by rfl))
  have h := h.step (Step.tCreateOk _ 0 (by rfl) (by rfl))
  have h := h.step (Step.fire _ ⟨0, 0, 1⟩ (by simp [St.init, c0]))
  have h := h.step (Step.callUnlock _ 0 (by rfl) (by rfl) (by rfl))
  have h := h.step (Step.uCancel _ 0 (by rfl))
  have h := h.step (Step.uDeleteEffect _ 0 (by rfl))
  have h := h.step (Step.uToken _ 0 (by rfl))
  have h := h.step (Step.callTry _ 0 (by rfl) (by rfl))
  have h := h.step (Step.tSelToken _ 0 (by rfl) (by rfl) (by rfl) (by rfl))
  have h := h.step (Step.tCreateOk _ 0 (by rfl) (by rfl))
  have h := h.step (Step.fire _ ⟨1, 0, 2⟩ (by simp [St.init, c0, upd]))
  have h := h.step (Step.callUnlock _ 0 (by rfl) (by rfl) (by rfl))
  have h := h.step (Step.uCancel _ 0 (by rfl))
  have h := h.step (Step.uDeleteEffect _ 0 (by rfl))
  have h := h.step (Step.uToken _ 0 (by rfl))
  refine ⟨_, h, ?_, by simp [St.init, upd, c0], by simp [St.init], by simp⟩
  intro g
  by_cases hg : g = 0 <;> simp [St.init, upd, hg]

end Lock
