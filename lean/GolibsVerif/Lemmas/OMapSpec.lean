import GolibsVerif.Lemmas.OMapBasic
/- Spec-level facts: Next, a new iterator, First. -/
set_option linter.unusedSimpArgs false
namespace OMap

/-- position of a new Spec iterator -/
def S.startPos (s : S) : Nat := match s.live with | e :: _ => e.stamp | [] => s.nextStamp

theorem spec_next (s : S) (h pos : Nat) (hp : lookupIt s.its h = some pos) :
    match s.firstFrom pos with
    | some e => (s.step (.next h)).2 = .kv e.key e.val ∧ e.alive = true ∧ pos ≤ e.stamp ∧
        lookupIt (s.step (.next h)).1.its h = some (e.stamp + 1)
    | none => (s.step (.next h)).2 = .none ∧ (s.step (.next h)).1 = s := by
  cases hf : s.firstFrom pos with
  | none => simp [S.step, hp, hf]
  | some e =>
    simp only [S.step, hp, hf, true_and]
    unfold S.firstFrom at hf
    have h1 := List.find?_some hf
    have h2 := List.mem_of_find?_eq_some hf
    unfold S.live at h2
    have h3 := (List.mem_filter.mp h2).2
    refine ⟨h3, by simpa using h1, ?_⟩
    rw [lookupIt_setIt]; simp [hp]

/-- a new iterator (fresh handle) starts at the oldest live entry; so does First -/
theorem spec_iter_next (s : S) (hf : lookupIt s.its s.nextIt = none) :
    ∃ its2, (∃ q, lookupIt its2 s.nextIt = some q) ∧
      its2.map (·.1) = s.its.map (·.1) ++ [s.nextIt] ∧
      (∀ h', h' ≠ s.nextIt → lookupIt its2 h' = lookupIt s.its h') ∧
      (s.step .iterator).1.step (.next s.nextIt) =
        ({ s with its := its2, nextIt := s.nextIt + 1 },
          match s.live with | e :: _ => .kv e.key e.val | [] => .none) := by
  have hl1 : ∀ pos0, lookupIt (s.its ++ [(s.nextIt, pos0)]) s.nextIt = some pos0 := by
    intro pos0; rw [lookupIt_append, hf]; simp [lookupIt_cons]
  have hl2 : ∀ pos0 h', h' ≠ s.nextIt →
      lookupIt (s.its ++ [(s.nextIt, pos0)]) h' = lookupIt s.its h' := by
    intro pos0 h' hne
    rw [lookupIt_append]
    have : lookupIt [(s.nextIt, pos0)] h' = none := by
      have : ¬ s.nextIt = h' := fun e => hne e.symm
      simp [lookupIt_cons, lookupIt_nil, this]
    rw [this]; simp
  cases hlive : s.live with
  | nil =>
    refine ⟨s.its ++ [(s.nextIt, s.nextStamp)], ⟨_, hl1 _⟩, by simp, hl2 _, ?_⟩
    have hff : ∀ (s1 : S) pos, s1.log = s.log → s1.firstFrom pos = none := by
      intro s1 pos hlog
      have : s1.live = [] := by unfold S.live at hlive ⊢; rw [hlog]; exact hlive
      simp [S.firstFrom, this]
    simp only [S.step, hlive, hl1]
    rw [hff { s with its := s.its ++ [(s.nextIt, s.nextStamp)], nextIt := s.nextIt + 1 } _ rfl]
  | cons e rest =>
    refine ⟨setIt (s.its ++ [(s.nextIt, e.stamp)]) s.nextIt (e.stamp + 1), ⟨e.stamp + 1, ?_⟩, ?_, ?_, ?_⟩
    · rw [lookupIt_setIt]; simp [hl1]
    · rw [map_fst_setIt]; simp
    · intro h' hne; rw [lookupIt_setIt]; simp [hne, hl2 _ h' hne]
    · have hff : ∀ (s1 : S), s1.log = s.log → s1.firstFrom e.stamp = some e := by
        intro s1 hlog
        have : s1.live = e :: rest := by unfold S.live at hlive ⊢; rw [hlog]; exact hlive
        simp [S.firstFrom, this]
      simp only [S.step, hlive, hl1]
      rw [hff { s with its := s.its ++ [(s.nextIt, e.stamp)], nextIt := s.nextIt + 1 } rfl]

theorem new_iterator_starts_at_oldest_live_of_fresh (s : S) (hf : lookupIt s.its s.nextIt = none) :
    let (s1, o) := s.step .iterator
    o = .handle s.nextIt ∧
    (s1.step (.next s.nextIt)).2 = (match s.live with | e :: _ => .kv e.key e.val | [] => .none) ∧
    (s.step .first).2 = (match s.live with | e :: _ => .key e.key | [] => .none) := by
  obtain ⟨its2, _, _, _, h4⟩ := spec_iter_next s hf
  refine ⟨rfl, ?_, ?_⟩
  · show ((s.step .iterator).1.step (.next s.nextIt)).2 = _
    rw [h4]
  · simp only [S.step]; cases s.live <;> rfl

end OMap
