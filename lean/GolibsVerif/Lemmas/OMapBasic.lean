import GolibsVerif.Model.OMap
/-
List-level lemmas for the ordered-map model: `findNode`/`updNode`/`succId` on a chain decomposed
as `pre ++ n :: suf`, the observable projection `okl`, and iterator-table (`lookupIt`/`setIt`/`cnt`)
lemmas.
-/
set_option linter.unusedSimpArgs false
namespace OMap

/-! ### chain access on a decomposed chain -/

theorem findNode_mid {pre suf : List Node} {n : Node} (hpre : ∀ x ∈ pre, x.id ≠ n.id) :
    findNode (pre ++ n :: suf) n.id = some n := by
  unfold findNode
  rw [List.find?_append]
  have h : pre.find? (·.id == n.id) = none := by
    rw [List.find?_eq_none]; intro x hx; simpa using hpre x hx
  simp [h]

theorem findNode_split {c : List Node} {p : Nat} {n : Node} (h : findNode c p = some n) :
    ∃ pre suf, c = pre ++ n :: suf ∧ n.id = p ∧ ∀ x ∈ pre, x.id ≠ n.id := by
  unfold findNode at h
  rw [List.find?_eq_some_iff_append] at h
  obtain ⟨hp, pre, suf, hc, hpre⟩ := h
  have hp' : n.id = p := by simpa using hp
  refine ⟨pre, suf, hc, hp', ?_⟩
  intro x hx
  have := hpre x hx
  rw [hp']; simpa using this

theorem findNode_isSome_iff {c : List Node} {p : Nat} :
    (findNode c p).isSome ↔ ∃ x ∈ c, x.id = p := by
  unfold findNode
  rw [List.find?_isSome]
  simp

theorem findNode_of_mem {c : List Node} {p : Nat} (h : ∃ x ∈ c, x.id = p) :
    ∃ n, findNode c p = some n := by
  have := findNode_isSome_iff.mpr h
  exact Option.isSome_iff_exists.mp this

theorem map_upd_id {l : List Node} {p : Nat} {f : Node → Node} (h : ∀ x ∈ l, x.id ≠ p) :
    l.map (fun n => if n.id == p then f n else n) = l := by
  induction l with
  | nil => rfl
  | cons a l ih =>
    have ha : a.id ≠ p := h a (by simp)
    simp only [List.map_cons]
    rw [ih (fun x hx => h x (by simp [hx]))]
    simp [ha]

theorem updNode_mid {pre suf : List Node} {n : Node} {f : Node → Node}
    (hpre : ∀ x ∈ pre, x.id ≠ n.id) (hsuf : ∀ x ∈ suf, x.id ≠ n.id) :
    updNode (pre ++ n :: suf) n.id f = pre ++ f n :: suf := by
  unfold updNode
  rw [List.map_append, List.map_cons, map_upd_id hpre, map_upd_id hsuf]
  simp

theorem succId_mid {pre suf : List Node} {n : Node} (hpre : ∀ x ∈ pre, x.id ≠ n.id) :
    succId (pre ++ n :: suf) n.id = suf.head?.map (·.id) := by
  induction pre with
  | nil =>
    cases suf with
    | nil => simp [succId]
    | cons g r => simp [succId]
  | cons a pre ih =>
    have ha : a.id ≠ n.id := hpre a (by simp)
    have ih' := ih (fun x hx => hpre x (by simp [hx]))
    cases pre with
    | nil =>
      simp only [List.cons_append, List.nil_append] at ih' ⊢
      rw [succId]; simp [ha, ih']
    | cons b pre' =>
      simp only [List.cons_append] at ih' ⊢
      rw [succId]; simp [ha, ih']

theorem filter_ne_mid {pre suf : List Node} {n : Node}
    (hpre : ∀ x ∈ pre, x.id ≠ n.id) (hsuf : ∀ x ∈ suf, x.id ≠ n.id) :
    (pre ++ n :: suf).filter (·.id != n.id) = pre ++ suf := by
  rw [List.filter_append, List.filter_cons]
  have h1 : pre.filter (·.id != n.id) = pre := by
    rw [List.filter_eq_self]; intro a ha; simpa using hpre a ha
  have h2 : suf.filter (·.id != n.id) = suf := by
    rw [List.filter_eq_self]; intro a ha; simpa using hsuf a ha
  simp [h1, h2]

/-! ### the observable projection of a chain: the `.ok` nodes as (id, key, val) -/

def okl (c : List Node) : List (Nat × Nat × Nat) :=
  (c.filter (·.st == .ok)).map fun n => (n.id, n.key, n.val)

@[simp] theorem okl_nil : okl [] = [] := rfl

theorem okl_append (a b : List Node) : okl (a ++ b) = okl a ++ okl b := by
  simp [okl, List.filter_append]

theorem okl_cons_ok {n : Node} {c : List Node} (h : n.st = .ok) :
    okl (n :: c) = (n.id, n.key, n.val) :: okl c := by
  simp [okl, h]

theorem okl_cons_not {n : Node} {c : List Node} (h : n.st ≠ .ok) :
    okl (n :: c) = okl c := by
  simp [okl, h]

theorem mem_okl {c : List Node} {t : Nat × Nat × Nat} :
    t ∈ okl c ↔ ∃ x ∈ c, x.st = .ok ∧ t = (x.id, x.key, x.val) := by
  simp only [okl, List.mem_map, List.mem_filter]
  constructor
  · rintro ⟨x, ⟨hx, hs⟩, rfl⟩; exact ⟨x, hx, by simpa using hs, rfl⟩
  · rintro ⟨x, hx, hs, rfl⟩; exact ⟨x, ⟨hx, by simpa using hs⟩, rfl⟩

/-- `okl` of the middle node replaced by a node with the same observable signature -/
theorem okl_mid_congr {pre suf : List Node} {n n' : Node}
    (h : (n'.st = .ok ∧ n.st = .ok ∧ n'.id = n.id ∧ n'.key = n.key ∧ n'.val = n.val) ∨
         (n'.st ≠ .ok ∧ n.st ≠ .ok)) :
    okl (pre ++ n' :: suf) = okl (pre ++ n :: suf) := by
  rw [okl_append, okl_append]
  rcases h with ⟨h1, h2, h3, h4, h5⟩ | ⟨h1, h2⟩
  · rw [okl_cons_ok h1, okl_cons_ok h2, h3, h4, h5]
  · rw [okl_cons_not h1, okl_cons_not h2]

theorem okl_mid_drop {pre suf : List Node} {n : Node} (h : n.st ≠ .ok) :
    okl (pre ++ suf) = okl (pre ++ n :: suf) := by
  rw [okl_append, okl_append, okl_cons_not h]

/-! ### iterator tables -/

def cnt (its : List (Nat × Nat)) (x : Nat) : Nat := (its.filter (·.2 == x)).length

theorem cnt_def (its : List (Nat × Nat)) (x : Nat) : (its.filter (·.2 == x)).length = cnt its x := rfl

@[simp] theorem cnt_nil (x : Nat) : cnt [] x = 0 := rfl

theorem cnt_cons (a : Nat × Nat) (its : List (Nat × Nat)) (x : Nat) :
    cnt (a :: its) x = (if a.2 = x then 1 else 0) + cnt its x := by
  unfold cnt
  rw [List.filter_cons]
  by_cases h : a.2 = x <;> simp [h] <;> omega

theorem cnt_append (a b : List (Nat × Nat)) (x : Nat) : cnt (a ++ b) x = cnt a x + cnt b x := by
  simp [cnt, List.filter_append]

theorem cnt_pos_iff {its : List (Nat × Nat)} {x : Nat} : 0 < cnt its x ↔ ∃ y ∈ its, y.2 = x := by
  unfold cnt
  rw [List.length_filter_pos_iff]
  simp

theorem lookupIt_nil (h : Nat) : lookupIt [] h = none := rfl

theorem lookupIt_cons (a : Nat × Nat) (its : List (Nat × Nat)) (h : Nat) :
    lookupIt (a :: its) h = if a.1 = h then some a.2 else lookupIt its h := by
  unfold lookupIt
  by_cases hh : a.1 = h
  · have : (a.1 == h) = true := by simpa using hh
    simp [List.find?_cons, this, hh]
  · have : (a.1 == h) = false := by simpa using hh
    simp [List.find?_cons, this, hh]

theorem lookupIt_eq_none_iff {its : List (Nat × Nat)} {h : Nat} :
    lookupIt its h = none ↔ h ∉ its.map (·.1) := by
  induction its with
  | nil => simp [lookupIt_nil]
  | cons a its ih =>
    rw [lookupIt_cons]
    by_cases hh : a.1 = h
    · simp [hh]
    · simp only [hh, if_false, ih, List.map_cons, List.mem_cons, not_or]
      constructor
      · intro h2; exact ⟨fun h3 => hh h3.symm, h2⟩
      · intro h2; exact h2.2

theorem lookupIt_mem {its : List (Nat × Nat)} {h p : Nat} (hl : lookupIt its h = some p) :
    (h, p) ∈ its := by
  induction its with
  | nil => simp [lookupIt_nil] at hl
  | cons a its ih =>
    rw [lookupIt_cons] at hl
    by_cases hh : a.1 = h
    · simp only [hh, if_true, Option.some.injEq] at hl
      have : a = (h, p) := by cases a; simp_all
      simp [this]
    · simp only [hh, if_false] at hl
      simp [ih hl]

theorem lookupIt_append (a b : List (Nat × Nat)) (h : Nat) :
    lookupIt (a ++ b) h = (lookupIt a h).or (lookupIt b h) := by
  induction a with
  | nil => simp [lookupIt_nil]
  | cons x a ih =>
    simp only [List.cons_append, lookupIt_cons, ih]
    by_cases hh : x.1 = h <;> simp [hh]

theorem lookupIt_setIt (its : List (Nat × Nat)) (h q h' : Nat) :
    lookupIt (setIt its h q) h' =
      if h' = h then (lookupIt its h).map (fun _ => q) else lookupIt its h' := by
  induction its with
  | nil => simp [setIt, lookupIt_nil]
  | cons a its ih =>
    have : setIt (a :: its) h q = (if a.1 == h then (h, q) else a) :: setIt its h q := by
      simp [setIt]
    rw [this, lookupIt_cons, ih]
    by_cases ha : a.1 = h
    · by_cases hh : h' = h
      · subst hh; simp [ha, lookupIt_cons]
      · have : ¬ h = h' := fun e => hh e.symm
        simp [ha, hh, this, lookupIt_cons]
    · by_cases hh : h' = h
      · subst hh; simp [ha, lookupIt_cons]
      · simp [ha, hh, lookupIt_cons]

theorem lookupIt_filter (its : List (Nat × Nat)) (h h' : Nat) :
    lookupIt (its.filter (·.1 != h)) h' = if h' = h then none else lookupIt its h' := by
  induction its with
  | nil => simp [lookupIt_nil]
  | cons a its ih =>
    rw [List.filter_cons]
    by_cases ha : a.1 = h
    · simp only [ha, bne_self_eq_false, Bool.false_eq_true, if_false, ih, lookupIt_cons]
      by_cases hh : h' = h
      · simp [hh]
      · have : ¬ h = h' := fun e => hh e.symm
        simp [hh, this]
    · have : (a.1 != h) = true := by simpa using ha
      simp only [this, if_true, lookupIt_cons, ih]
      by_cases hh : h' = h
      · subst hh; simp [ha]
      · simp [hh]

theorem map_fst_setIt (its : List (Nat × Nat)) (h q : Nat) :
    (setIt its h q).map (·.1) = its.map (·.1) := by
  induction its with
  | nil => rfl
  | cons a its ih =>
    simp only [setIt, List.map_cons, List.map_map] at ih ⊢
    rw [ih]
    by_cases ha : a.1 = h <;> simp [ha]

theorem map_fst_filter (its : List (Nat × Nat)) (h : Nat) :
    (its.filter (·.1 != h)).map (·.1) = (its.map (·.1)).filter (· != h) := by
  rw [List.filter_map]; rfl

/-- handles strictly ascending -/
def HAsc (its : List (Nat × Nat)) : Prop := (its.map (·.1)).Pairwise (· < ·)

theorem HAsc.pairs {its : List (Nat × Nat)} (h : HAsc its) : its.Pairwise (fun a b => a.1 < b.1) :=
  List.pairwise_map.mp h

theorem cnt_setIt' {its : List (Nat × Nat)} {h p q : Nat} (ha : its.Pairwise (fun a b => a.1 < b.1))
    (hl : lookupIt its h = some p) (x : Nat) :
    cnt (setIt its h q) x + (if p = x then 1 else 0) = cnt its x + (if q = x then 1 else 0) := by
  induction its with
  | nil => simp [lookupIt_nil] at hl
  | cons a its ih =>
    have hs : setIt (a :: its) h q = (if a.1 == h then (h, q) else a) :: setIt its h q := by
      simp [setIt]
    rw [hs, cnt_cons, cnt_cons]
    rw [lookupIt_cons] at hl
    have ha' := List.pairwise_cons.mp ha
    by_cases hh : a.1 = h
    · simp only [hh, if_true, Option.some.injEq] at hl
      have hnone : ∀ y ∈ its, y.1 ≠ h := by
        intro y hy; have := ha'.1 y hy; omega
      have hsame : setIt its h q = its := by
        unfold setIt
        have : its.map (fun x => if x.1 == h then (h, q) else x) = its.map id := by
          apply List.map_congr_left; intro y hy; simp [hnone y hy]
        simpa using this
      rw [hsame]
      have h2 : a.2 = p := hl
      simp only [hh, beq_self_eq_true, if_true, h2]
      omega
    · simp only [hh, if_false] at hl
      have := ih ha'.2 hl
      simp only [beq_iff_eq, hh, if_false]
      omega

theorem cnt_filter' {its : List (Nat × Nat)} {h p : Nat} (ha : its.Pairwise (fun a b => a.1 < b.1))
    (hl : lookupIt its h = some p) (x : Nat) :
    cnt (its.filter (·.1 != h)) x + (if p = x then 1 else 0) = cnt its x := by
  induction its with
  | nil => simp [lookupIt_nil] at hl
  | cons a its ih =>
    rw [lookupIt_cons] at hl
    have ha' := List.pairwise_cons.mp ha
    rw [List.filter_cons]
    by_cases hh : a.1 = h
    · simp only [hh, if_true, Option.some.injEq] at hl
      have hnone : ∀ y ∈ its, y.1 ≠ h := by
        intro y hy; have := ha'.1 y hy; omega
      have hsame : its.filter (·.1 != h) = its := by
        rw [List.filter_eq_self]; intro y hy; simpa using hnone y hy
      have h2 : a.2 = p := hl
      simp only [hh, bne_self_eq_false, Bool.false_eq_true, if_false, hsame, cnt_cons, h2]
      omega
    · simp only [hh, if_false] at hl
      have := ih ha'.2 hl
      have hb : (a.1 != h) = true := by simpa using hh
      simp only [hb, if_true, cnt_cons]
      omega

theorem cnt_setIt {its : List (Nat × Nat)} {h p q : Nat} (ha : HAsc its)
    (hl : lookupIt its h = some p) (x : Nat) :
    cnt (setIt its h q) x + (if p = x then 1 else 0) = cnt its x + (if q = x then 1 else 0) :=
  cnt_setIt' ha.pairs hl x

theorem cnt_filter {its : List (Nat × Nat)} {h p : Nat} (ha : HAsc its)
    (hl : lookupIt its h = some p) (x : Nat) :
    cnt (its.filter (·.1 != h)) x + (if p = x then 1 else 0) = cnt its x :=
  cnt_filter' ha.pairs hl x

theorem HAsc.setIt {its : List (Nat × Nat)} (ha : HAsc its) (h q : Nat) : HAsc (setIt its h q) := by
  unfold HAsc; rw [map_fst_setIt]; exact ha

theorem HAsc.filter {its : List (Nat × Nat)} (ha : HAsc its) (h : Nat) :
    HAsc (its.filter (·.1 != h)) := by
  unfold HAsc; rw [map_fst_filter]; exact List.Pairwise.filter _ ha

end OMap
