import GolibsVerif.Lemmas.TmoInv
/-
Sift lemmas.  Pure part: for a key function `f : Nat → Nat` on positions, `Hole f n i` says the
prefix `[0, n)` is heap-ordered except for the relations that involve position `i`, and that the
parent of `i` is ≤ the children of `i`.  `up` and `down` (container/heap) restore `OrdN f n`.
-/
namespace Tmo

def OrdN (f : Nat → Nat) (n : Nat) : Prop := ∀ k, 0 < k → k < n → f ((k-1)/2) ≤ f k

def Hole (f : Nat → Nat) (n i : Nat) : Prop :=
  (∀ k, 0 < k → k < n → k ≠ i → (k-1)/2 ≠ i → f ((k-1)/2) ≤ f k) ∧
  (∀ k, 0 < k → k < n → (k-1)/2 = i → 0 < i → f ((i-1)/2) ≤ f k)

def ChildOK (f : Nat → Nat) (n i : Nat) : Prop := ∀ k, 0 < k → k < n → (k-1)/2 = i → f i ≤ f k

def swapF (f : Nat → Nat) (i j : Nat) : Nat → Nat :=
  fun k => if k = j then f i else if k = i then f j else f k

theorem swapF_j (f : Nat → Nat) (i j : Nat) : swapF f i j j = f i := by simp [swapF]
theorem swapF_i (f : Nat → Nat) {i j : Nat} (h : i ≠ j) : swapF f i j i = f j := by simp [swapF, h]
theorem swapF_o (f : Nat → Nat) {i j k : Nat} (h1 : k ≠ i) (h2 : k ≠ j) : swapF f i j k = f k := by
  simp [swapF, h1, h2]

theorem hole_ord {f : Nat → Nat} {n i : Nat} (H : Hole f n i) (hp : 0 < i → f ((i-1)/2) ≤ f i)
    (hc : ChildOK f n i) : OrdN f n := by
  intro k h0 hk
  by_cases h1 : k = i
  · subst h1; exact hp h0
  · by_cases h2 : (k-1)/2 = i
    · rw [h2]; exact hc k h0 hk h2
    · exact H.1 k h0 hk h1 h2

theorem ordN_hole {f : Nat → Nat} {n : Nat} (H : OrdN f n) (i : Nat) : Hole f n i := by
  refine ⟨fun k h0 hk _ _ => H k h0 hk, ?_⟩
  intro k h0 hk hki hi
  have a := H k h0 hk
  have b := H i hi (by omega)
  rw [hki] at a; omega

theorem up_step {f : Nat → Nat} {n j : Nat} (H : Hole f n j) (hc : ChildOK f n j) (h0 : 0 < j) (hj : j < n)
    (hlt : f j < f ((j-1)/2)) :
    Hole (swapF f ((j-1)/2) j) n ((j-1)/2) ∧ ChildOK (swapF f ((j-1)/2) j) n ((j-1)/2) := by
  generalize hi : (j-1)/2 = i at *
  have hij : i < j := by omega
  have hfi : 0 < i → f ((i-1)/2) ≤ f i := fun h => H.1 i h (by omega) (by omega) (by omega)
  have hch : ∀ k, 0 < k → k < n → (k-1)/2 = i → k ≠ j → f i ≤ f k := by
    intro k h1 h2 h3 h4
    have := H.1 k h1 h2 h4 (by omega); rwa [h3] at this
  refine ⟨⟨?_, ?_⟩, ?_⟩
  · intro k h1 h2 h3 h4
    have hkj : k ≠ j := by intro c; subst c; exact h4 hi
    rw [swapF_o f h3 hkj]
    by_cases h5 : (k-1)/2 = j
    · rw [h5, swapF_j]; have := H.2 k h1 h2 h5 h0; rwa [hi] at this
    · rw [swapF_o f h4 h5]; exact H.1 k h1 h2 hkj h5
  · intro k h1 h2 h3 h4
    rw [swapF_o f (show (i-1)/2 ≠ i by omega) (show (i-1)/2 ≠ j by omega)]
    by_cases hkj : k = j
    · subst hkj; rw [swapF_j]; exact hfi h4
    · rw [swapF_o f (show k ≠ i by omega) hkj]
      exact Nat.le_trans (hfi h4) (hch k h1 h2 h3 hkj)
  · intro k h1 h2 h3
    rw [swapF_i f (show i ≠ j by omega)]
    by_cases hkj : k = j
    · subst hkj; rw [swapF_j]; omega
    · rw [swapF_o f (show k ≠ i by omega) hkj]
      have := hch k h1 h2 h3 hkj; omega

theorem down_step {f : Nat → Nat} {n i j : Nat} (H : Hole f n i) (hj : j < n) (hji : (j-1)/2 = i) (h0 : 0 < j)
    (hmin : ∀ k, 0 < k → k < n → (k-1)/2 = i → f j ≤ f k) (hlt : f j < f i) :
    Hole (swapF f i j) n j ∧ (0 < j → (swapF f i j) ((j-1)/2) ≤ (swapF f i j) j) := by
  have hij : i < j := by omega
  refine ⟨⟨?_, ?_⟩, ?_⟩
  · intro k h1 h2 h3 h4
    by_cases hki : k = i
    · subst hki
      rw [swapF_i f (show k ≠ j by omega), swapF_o f (show (k-1)/2 ≠ k by omega) h4]
      exact H.2 j h0 hj hji h1
    · rw [swapF_o f hki h3]
      by_cases h5 : (k-1)/2 = i
      · rw [h5, swapF_i f (show i ≠ j by omega)]; exact hmin k h1 h2 h5
      · rw [swapF_o f h5 h4]; exact H.1 k h1 h2 hki h5
  · intro k h1 h2 h3 _
    rw [hji, swapF_i f (show i ≠ j by omega), swapF_o f (show k ≠ i by omega) (show k ≠ j by omega)]
    have := H.1 k h1 h2 (by omega) (by omega)
    rwa [h3] at this
  · intro _
    rw [hji, swapF_i f (show i ≠ j by omega), swapF_j]; omega

theorem child_choice (f : Nat → Nat) (n i : Nat) (h : ¬ 2*i+1 ≥ n) (c : Prop) [Decidable c]
    (hc : c ↔ (2*i+1+1 < n ∧ f (2*i+1+1) < f (2*i+1))) (j : Nat)
    (hj : (if c then 2*i+1+1 else 2*i+1) = j) :
    j < n ∧ (j-1)/2 = i ∧ 0 < j ∧ i < j ∧ ∀ k, 0 < k → k < n → (k-1)/2 = i → f j ≤ f k := by
  by_cases hc' : c
  · rw [if_pos hc'] at hj; subst hj
    have := hc.1 hc'
    refine ⟨this.1, by omega, by omega, by omega, ?_⟩
    intro k h1 h2 h3
    have : k = 2*i+1 ∨ k = 2*i+1+1 := by omega
    rcases this with rfl | rfl
    · omega
    · exact Nat.le_refl _
  · rw [if_neg hc'] at hj; subst hj
    refine ⟨by omega, by omega, by omega, by omega, ?_⟩
    intro k h1 h2 h3
    have : k = 2*i+1 ∨ k = 2*i+1+1 := by omega
    rcases this with rfl | rfl
    · exact Nat.le_refl _
    · have : ¬ f (2*i+1+1) < f (2*i+1) := fun x => hc' (hc.2 ⟨h2, x⟩)
      omega

/-! ### heap-level: the relation "h' arises from h by swaps below n" -/

structure Sw (n : Nat) (h h' : Heap) : Prop where
  inv : h.IdxInv → h'.IdxInv
  perm : h'.arr.Perm h.arr
  data : h'.data = h.data
  tail : ∀ k, n ≤ k → h'.arr[k]? = h.arr[k]?

theorem Sw.refl (n : Nat) (h : Heap) : Sw n h h := ⟨id, List.Perm.refl _, rfl, fun _ _ => rfl⟩

theorem Sw.trans {n : Nat} {a b c : Heap} (x : Sw n a b) (y : Sw n b c) : Sw n a c :=
  ⟨fun h => y.inv (x.inv h), y.perm.trans x.perm, y.data.trans x.data,
    fun k hk => (y.tail k hk).trans (x.tail k hk)⟩

theorem Sw.length {n : Nat} {h h' : Heap} (x : Sw n h h') : h'.arr.length = h.arr.length := x.perm.length_eq

theorem Sw.swap {n : Nat} (h : Heap) {i j : Nat} (hi : i < n) (hj : j < n) (hn : n ≤ h.arr.length) :
    Sw n h (h.swap i j) := by
  have hi' : i < h.arr.length := by omega
  have hj' : j < h.arr.length := by omega
  refine ⟨fun H => H.swap i j hi' hj', Heap.swap_perm h i j, Heap.swap_data h i j, ?_⟩
  intro k hk
  rw [Heap.swap_getElem? h i j k hi' hj', if_neg (by omega), if_neg (by omega)]

theorem Heap.swap_fireAt_fun (h : Heap) (i j : Nat) (hi : i < h.arr.length) (hj : j < h.arr.length) :
    (h.swap i j).fireAt = swapF h.fireAt i j := by
  funext k; rw [Heap.swap_fireAt h i j k hi hj]; rfl

theorem Heap.less_iff (h : Heap) (a b : Nat) : h.less a b = true ↔ h.fireAt a < h.fireAt b := by
  simp [Heap.less]

theorem Heap.up_succ (fuel : Nat) (h : Heap) (j : Nat) :
    Heap.up (fuel + 1) h j =
      if (j - 1) / 2 = j ∨ (!h.less j ((j - 1) / 2)) = true then some h
      else Heap.up fuel (h.swap ((j - 1) / 2) j) ((j - 1) / 2) := rfl

theorem up_spec : ∀ (fuel : Nat) (h : Heap) (j n : Nat), j < fuel → j < n → n ≤ h.arr.length →
    Hole h.fireAt n j → ChildOK h.fireAt n j →
    ∃ h', Heap.up fuel h j = some h' ∧ Sw n h h' ∧ OrdN h'.fireAt n := by
  intro fuel
  induction fuel with
  | zero => intro h j n hf; omega
  | succ fuel ih =>
    intro h j n hf hj hn H C
    rw [Heap.up_succ]
    by_cases c : (j - 1) / 2 = j ∨ (!h.less j ((j - 1) / 2)) = true
    · rw [if_pos c]
      refine ⟨h, rfl, Sw.refl n h, hole_ord H ?_ C⟩
      intro h0
      rcases c with c | c
      · omega
      · have : ¬ h.fireAt j < h.fireAt ((j-1)/2) := by
          rw [← Heap.less_iff]; simpa using c
        omega
    · rw [if_neg c]
      have c1 : ¬ (j - 1) / 2 = j := fun x => c (Or.inl x)
      have c2 : h.fireAt j < h.fireAt ((j-1)/2) := by
        rw [← Heap.less_iff]
        cases e : h.less j ((j-1)/2) with
        | true => rfl
        | false => exact absurd (Or.inr (by simp [e])) c
      have h0 : 0 < j := by omega
      have hi : (j-1)/2 < j := by omega
      obtain ⟨H', C'⟩ := up_step H C h0 hj c2
      rw [← Heap.swap_fireAt_fun h _ _ (by omega) (by omega)] at H' C'
      obtain ⟨h', e, s, o⟩ := ih (h.swap ((j-1)/2) j) ((j-1)/2) n (by omega) (by omega)
        (by rw [Heap.swap_length]; exact hn) H' C'
      exact ⟨h', e, (Sw.swap h (by omega) hj hn).trans s, o⟩

theorem Heap.downLoop_succ (fuel : Nat) (h : Heap) (i n : Nat) :
    Heap.downLoop (fuel + 1) h i n =
      if 2 * i + 1 ≥ n then some (h, i) else
      if (!h.less (if 2 * i + 1 + 1 < n ∧ h.less (2 * i + 1 + 1) (2 * i + 1) = true then 2 * i + 1 + 1 else 2 * i + 1) i) = true
        then some (h, i)
      else Heap.downLoop fuel
        (h.swap i (if 2 * i + 1 + 1 < n ∧ h.less (2 * i + 1 + 1) (2 * i + 1) = true then 2 * i + 1 + 1 else 2 * i + 1))
        (if 2 * i + 1 + 1 < n ∧ h.less (2 * i + 1 + 1) (2 * i + 1) = true then 2 * i + 1 + 1 else 2 * i + 1) n := rfl

/-- `down` from a hole at `i`: either nothing moved and `i` is ≤ its children, or the element moved
down and the prefix is ordered (so the parent relation at `i` was fine all along). -/
theorem down_spec : ∀ (fuel : Nat) (h : Heap) (i n : Nat), n < fuel + i → i ≤ n → n ≤ h.arr.length →
    Hole h.fireAt n i →
    ∃ h' i', Heap.downLoop fuel h i n = some (h', i') ∧
      ((i' = i ∧ h' = h ∧ ChildOK h.fireAt n i) ∨ (i < i' ∧ Sw n h h' ∧ OrdN h'.fireAt n)) := by
  intro fuel
  induction fuel with
  | zero => intro h i n hf hi; omega
  | succ fuel ih =>
    intro h i n hf hi' hn H
    rw [Heap.downLoop_succ]
    by_cases c : 2 * i + 1 ≥ n
    · rw [if_pos c]
      refine ⟨h, i, rfl, Or.inl ⟨rfl, rfl, ?_⟩⟩
      intro k h1 h2 h3; omega
    · rw [if_neg c]
      have hi : i < n := by omega
      generalize hj : (if 2 * i + 1 + 1 < n ∧ h.less (2 * i + 1 + 1) (2 * i + 1) = true
        then 2 * i + 1 + 1 else 2 * i + 1) = j
      obtain ⟨j1, j2, j3, j4, j5⟩ := child_choice h.fireAt n i c _
        (by rw [Heap.less_iff]) j hj
      by_cases c2 : (!h.less j i) = true
      · rw [if_pos c2]
        refine ⟨h, i, rfl, Or.inl ⟨rfl, rfl, ?_⟩⟩
        have : ¬ h.fireAt j < h.fireAt i := by
          rw [← Heap.less_iff]; simpa using c2
        intro k h1 h2 h3
        have := j5 k h1 h2 h3; omega
      · rw [if_neg c2]
        have c3 : h.fireAt j < h.fireAt i := by
          rw [← Heap.less_iff]
          cases e : h.less j i with
          | true => rfl
          | false => exact absurd (by simp [e]) c2
        obtain ⟨H', P'⟩ := down_step H j1 j2 j3 j5 c3
        rw [← Heap.swap_fireAt_fun h _ _ (by omega) (by omega)] at H' P'
        have s0 : Sw n h (h.swap i j) := Sw.swap h hi j1 hn
        obtain ⟨h', i', e, r⟩ := ih (h.swap i j) j n (by omega) (Nat.le_of_lt j1)
          (by rw [Heap.swap_length]; exact hn) H'
        refine ⟨h', i', e, Or.inr ?_⟩
        rcases r with ⟨r1, r2, r3⟩ | ⟨r1, r2, r3⟩
        · subst r1 r2
          exact ⟨j4, s0, hole_ord H' P' r3⟩
        · exact ⟨by omega, s0.trans r2, r3⟩

end Tmo
