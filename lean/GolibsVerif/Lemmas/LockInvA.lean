import GolibsVerif.Lemmas.LockBasic
set_option linter.unusedVariables false
namespace Lock

set_option maxHeartbeats 1000000 in
theorem IIdle_step (c : Cfg) (faults : Bool) (s t : St) (h : Step c false faults s t) (hi : IIdle s) : IIdle t := by
  step_bash h with IIdle

set_option maxHeartbeats 1000000 in
theorem IOwn_step (c : Cfg) (faults : Bool) (s t : St) (h : Step c false faults s t) (h1 : IIdle s) (hi : IOwn s) : IOwn t := by
  step_bash h with IIdle, IOwn

set_option maxHeartbeats 1000000 in
theorem ISer_step (c : Cfg) (faults : Bool) (s t : St) (h : Step c false faults s t) (h1 : IIdle s) (h2 : ISecTok c s) (hi : ISer c s) : ISer c t := by
  step_bash h with IIdle, ISecTok, ISer

set_option maxHeartbeats 1000000 in
theorem ISecTok_step (c : Cfg) (faults : Bool) (s t : St) (h : Step c false faults s t) (h1 : IIdle s) (h2 : ISer c s) (hi : ISecTok c s) : ISecTok c t := by
  step_bash h with IIdle, ISecTok, ISer

set_option maxHeartbeats 1000000 in
theorem ICnt1_step (c : Cfg) (faults : Bool) (s t : St) (h : Step c false faults s t) (h1 : IIdle s) (h2 : ISer c s) (h3 : ISecTok c s) (hi : ICnt1 c s) : ICnt1 c t := by
  step_bash h with IIdle, ISecTok, ISer, ICnt1

set_option maxHeartbeats 1000000 in
theorem ICnt0_step (c : Cfg) (faults : Bool) (s t : St) (h : Step c false faults s t) (h1 : IIdle s) (h2 : ISer c s) (h3 : ISecTok c s) (hi : ICnt0 c s) : ICnt0 c t := by
  step_bash h with IIdle, ISecTok, ISer, ICnt0

set_option maxHeartbeats 1000000 in
theorem ITokCnt_step (c : Cfg) (faults : Bool) (s t : St) (h : Step c false faults s t) (h1 : ICnt0 c s) (hi : ITokCnt s) : ITokCnt t := by
  step_bash h with ICnt0, ITokCnt

end Lock
