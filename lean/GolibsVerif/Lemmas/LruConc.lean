import GolibsVerif.Model.LruConc
import GolibsVerif.Lemmas.LruConcInv
/-
Step-wise forward simulation of `Lru.Conc` by the sequential `Lru.EC`, given the invariant
(`LruConcBase`: invariant and counting lemmas, `LruConcInv`: its preservation).
-/
namespace Lru.Conc
open Lru

theorem findK_none_of {items : List Entry} {k : Nat} (h : ∀ e ∈ items, e.k ≠ k) : findK items k = none := by
  unfold findK
  rw [List.find?_eq_none]
  intro x hx; simpa using h x hx

/-- the sequential GetOrCreate on a miss with a successful creation, in terms of `pubItems` -/
theorem ec_goc_some (cap : Nat) (km : Nat → Nat) (items : List Entry) (pk v : Nat)
    (hfn : findK items (km pk) = none) :
    ({ items := items, calls := 0 } : EC).getOrCreate (cfgWith cap km (some v)) pk =
      ({ items := (pubItems cap items { k := km pk, pk := pk, v := v }).1, calls := 1 }, .val v,
        Ev.create pk (some v) :: (pubItems cap items { k := km pk, pk := pk, v := v }).2) := by
  unfold EC.getOrCreate pubItems
  simp only [cfgWith, hfn]
  cases items with
  | nil =>
    simp only [List.nil_append]
    split <;> rename_i hfull <;> simp at hfull <;> simp [hfull]
  | cons f rest =>
    simp only [List.cons_append]
    split <;> rename_i hfull <;> simp at hfull <;> simp [hfull] <;> omega

theorem ec_goc_none (cap : Nat) (km : Nat → Nat) (items : List Entry) (pk : Nat)
    (hfn : findK items (km pk) = none) :
    ({ items := items, calls := 0 } : EC).getOrCreate (cfgWith cap km none) pk =
      ({ items := items, calls := 1 }, .err, [Ev.create pk none]) := by
  unfold EC.getOrCreate
  simp only [cfgWith, hfn]

theorem ec_goc_hit (cap : Nat) (km : Nat → Nat) (items : List Entry) (pk : Nat) (e : Entry)
    (hf : findK items (km pk) = some e) :
    ({ items := items, calls := 0 } : EC).getOrCreate (cfgWith cap km none) pk =
      ({ items := eraseK items (km pk) ++ [e], calls := 0 }, .val e.v, []) := by
  unfold EC.getOrCreate
  simp only [cfgWith, hf]

theorem sim_publish_some {cap : Nat} {km : Nat → Nat} {s : St} (hI : Inv cap km s) {i pk k v : Nat}
    (h : s.pcs[i]? = some (.created pk k (some v))) (t : St) (ht : t = pubSt cap s i pk k v) :
    ∃ (i : Nat) (pk : Nat) (k : Nat) (res : Option Nat) (r : Res) (ev : List Ev), s.pcs[i]? = some (Pc.created pk k res) ∧ k = km pk ∧ t.pcs[i]? = some (Pc.done r) ∧
        t.log = s.log ++ ev ∧
        (({ items := s.items, calls := 0 } : EC).getOrCreate (cfgWith cap km res) pk).1.items = t.items ∧
        (({ items := s.items, calls := 0 } : EC).getOrCreate (cfgWith cap km res) pk).2.1 = r ∧
        (({ items := s.items, calls := 0 } : EC).getOrCreate (cfgWith cap km res) pk).2.2 = Ev.create pk res :: ev := by
  have hk : k = km pk := hI.wf (.created pk k (some v)) (mem_of_getElem?_eq h)
  have hfn : findK s.items (km pk) = none := by
    rw [← hk]; exact findK_none_of (hI.nores k (creator_of_created hI h))
  subst ht
  refine ⟨i, pk, k, some v, .val v, (pubItems cap s.items { k := k, pk := pk, v := v }).2, h, hk,
    getElem?_set_of h _, rfl, ?_, ?_, ?_⟩
  · rw [ec_goc_some cap km s.items pk v hfn, hk]; rfl
  · rw [ec_goc_some cap km s.items pk v hfn]
  · rw [ec_goc_some cap km s.items pk v hfn, hk]

theorem step_simulates_inv {cap : Nat} {km : Nat → Nat} {s t : St} (hI : Inv cap km s)
    (st : Step cap km s t) :
    (t.items = s.items ∧ (t.log = s.log ∨ ∃ pk res, t.log = s.log ++ [Ev.create pk res])) ∨
    (∃ (i : Nat) (pk : Nat) (r : Res) (ev : List Ev), s.pcs[i]? = some (Pc.start (.goc pk)) ∧ t.pcs[i]? = some (Pc.done r) ∧ t.log = s.log ++ ev ∧
        ({ items := s.items, calls := 0 } : EC).getOrCreate (cfgWith cap km none) pk = ({ items := t.items, calls := 0 }, r, ev) ∧ ev = []) ∨
    (∃ (i : Nat) (pk : Nat) (k : Nat) (res : Option Nat) (r : Res) (ev : List Ev), s.pcs[i]? = some (Pc.created pk k res) ∧ k = km pk ∧ t.pcs[i]? = some (Pc.done r) ∧
        t.log = s.log ++ ev ∧
        (({ items := s.items, calls := 0 } : EC).getOrCreate (cfgWith cap km res) pk).1.items = t.items ∧
        (({ items := s.items, calls := 0 } : EC).getOrCreate (cfgWith cap km res) pk).2.1 = r ∧
        (({ items := s.items, calls := 0 } : EC).getOrCreate (cfgWith cap km res) pk).2.2 = Ev.create pk res :: ev) ∨
    (∃ (i : Nat) (pk : Nat) (r : Res) (ev : List Ev), s.pcs[i]? = some (Pc.start (.rm pk)) ∧ t.pcs[i]? = some (Pc.done r) ∧ t.log = s.log ++ ev ∧
        ({ items := s.items, calls := 0 } : EC).remove (cfgWith cap km none) pk = ({ items := t.items, calls := 0 }, r, ev)) ∨
    (∃ (i : Nat) (r : Res) (ev : List Ev), s.pcs[i]? = some (Pc.start .clr) ∧ t.pcs[i]? = some (Pc.done r) ∧ t.log = s.log ++ ev ∧
        ({ items := s.items, calls := 0 } : EC).clear = ({ items := t.items, calls := 0 }, r, ev)) := by
  cases st with
  | call i op h => exact Or.inl ⟨rfl, Or.inl rfl⟩
  | ret i r h => exact Or.inl ⟨rfl, Or.inl rfl⟩
  | gocWait i pk h hf hi => exact Or.inl ⟨rfl, Or.inl rfl⟩
  | gocRegister i pk h hf hi => exact Or.inl ⟨rfl, Or.inl rfl⟩
  | wake i pk k h hc => exact Or.inl ⟨rfl, Or.inl rfl⟩
  | createBegin i pk k h => exact Or.inl ⟨rfl, Or.inl rfl⟩
  | createEnd i pk k res h => exact Or.inl ⟨rfl, Or.inr ⟨pk, res, rfl⟩⟩
  | gocHit i pk e h hf =>
    exact Or.inr (Or.inl ⟨i, pk, .val e.v, [], h, getElem?_set_of h _, (List.append_nil _).symm,
      ec_goc_hit cap km s.items pk e hf, rfl⟩)
  | gocPublish i pk k res h =>
    have hk : k = km pk := hI.wf (.created pk k res) (mem_of_getElem?_eq h)
    have hfn : findK s.items (km pk) = none := by
      rw [← hk]; exact findK_none_of (hI.nores k (creator_of_created hI h))
    refine Or.inr (Or.inr (Or.inl ?_))
    cases res with
    | none =>
      refine ⟨i, pk, k, none, .err, [], h, hk, getElem?_set_of h _, (List.append_nil _).symm, ?_, ?_, ?_⟩
      all_goals rw [ec_goc_none cap km s.items pk hfn]
      all_goals rfl
    | some v => exact sim_publish_some hI h _ (publish_some_eq cap s i pk k v)
  | remove i pk h =>
    refine Or.inr (Or.inr (Or.inr (Or.inl ?_)))
    cases hf : findK s.items (km pk) with
    | none =>
      exact ⟨i, pk, .b false, [], h, getElem?_set_of h _, (List.append_nil _).symm, by
        unfold EC.remove; simp only [cfgWith, hf]; rfl⟩
    | some e =>
      exact ⟨i, pk, .b true, [.delete e.pk e.v], h, getElem?_set_of h _, rfl, by
        unfold EC.remove; simp only [cfgWith, hf]; rfl⟩
  | clear i h =>
    exact Or.inr (Or.inr (Or.inr (Or.inr ⟨i, .num s.items.length, _, h, getElem?_set_of h _, rfl, rfl⟩)))

end Lru.Conc
