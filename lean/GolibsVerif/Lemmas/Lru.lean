import GolibsVerif.Model.Lru
import GolibsVerif.Lemmas.LruBasic
import GolibsVerif.Lemmas.LruSim
import GolibsVerif.Lemmas.LruEvents
