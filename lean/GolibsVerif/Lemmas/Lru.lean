import GolibsVerif.Model.Lru
