import GolibsVerif.Model.TmoPoolExec
/-
Helper lemmas: every executable primitive of `Tmo.Pool.Exec` yields a `Step` (or `Steps`).
-/
namespace Tmo.Pool.Exec
open Tmo.Pool

theorem Steps.single {c : Cfg} {s t : St} (h : Step c s t) : Steps c s t :=
  .cons h (.refl t)

theorem Steps.trans {c : Cfg} {s t u : St} (h₁ : Steps c s t) (h₂ : Steps c t u) : Steps c s u := by
  induction h₁ with
  | refl _ => exact h₂
  | cons st _ ih => exact .cons st (ih h₂)

theorem Steps.reach {c : Cfg} {s t : St} (h : Steps c s t) (hr : Reach c s) : Reach c t := by
  induction h with
  | refl _ => exact hr
  | cons st _ ih => exact ih (.step hr st)

theorem xAdd_step (c : Cfg) (s : St) (fireT : Nat) : Step c s (xAdd c s fireT) :=
  Step.add s fireT

theorem xCancel_step (c : Cfg) (s t : St) (id : Nat) (h : xCancel c s id = some t) : Step c s t := by
  unfold xCancel at h
  split at h
  · next hm =>
    injection h with h
    subst h
    exact Step.cancel s id hm
  · cases h

theorem xSection_step (c : Cfg) (s t : St) (i : Nat) (h : xSection c s i = some t) : Step c s t := by
  unfold xSection at h
  split at h
  · next f mis hth =>
    injection h with h
    subst h
    -- the constructor's target contains `match f, hth with` (the elaborator generalised `hth`);
    -- after `cases f` both matches reduce and the targets are definitionally equal
    cases f with
    | none => exact Step.section_ s i none mis hth
    | some id => exact Step.section_ s i (some id) mis hth
  · cases h

theorem xTimerWake_step (c : Cfg) (s t : St) (i : Nat) (h : xTimerWake s i = some t) : Step c s t := by
  unfold xTimerWake at h
  split at h
  · next d mis cp hth =>
    split at h
    · next hd =>
      injection h with h
      subst h
      exact Step.timerWake s i d mis cp hth hd
    · cases h
  · cases h

theorem xTokenWake_step (c : Cfg) (s t : St) (i : Nat) (h : xTokenWake s i = some t) : Step c s t := by
  unfold xTokenWake at h
  split at h
  · next d mis cp hth =>
    split at h
    · next ht =>
      injection h with h
      subst h
      exact Step.tokenWake s i d mis cp hth ht
    · cases h
  · cases h

theorem xTicks_steps (c : Cfg) (n : Nat) (s : St) : Steps c s (xTicks n s) := by
  induction n generalizing s with
  | zero => exact .refl s
  | succ n ih => exact .cons (Step.tick s) (ih _)

end Tmo.Pool.Exec
