import GolibsVerif.Model.LruConc
import GolibsVerif.Lemmas.LruEvents
/-
Invariant of the concurrent LRU transition system `Lru.Conc` (C09) and the generic facts used to
re-establish it: what changes in a filter / filterMap count when one caller's pc is replaced, and
the normal form of the second critical section of GetOrCreate (`pubItems`).
-/
namespace Lru.Conc
open Lru

/-! ### replacing one element of a list -/

theorem set_split {α : Type} {l : List α} {i : Nat} {a : α} (h : l[i]? = some a) (b : α) :
    ∃ l1 l2, l = l1 ++ a :: l2 ∧ l.set i b = l1 ++ b :: l2 := by
  induction l generalizing i with
  | nil => simp at h
  | cons x xs ih =>
    cases i with
    | zero =>
      simp only [List.getElem?_cons_zero, Option.some.injEq] at h
      subst h; exact ⟨[], xs, rfl, rfl⟩
    | succ j =>
      simp only [List.getElem?_cons_succ] at h
      obtain ⟨l1, l2, e1, e2⟩ := ih h
      refine ⟨x :: l1, l2, ?_, ?_⟩
      · rw [List.cons_append, ← e1]
      · rw [List.set_cons_succ, e2, List.cons_append]

theorem getElem?_set_of {α : Type} {l : List α} {i : Nat} {a : α} (h : l[i]? = some a) (b : α) :
    (l.set i b)[i]? = some b := by
  obtain ⟨hlt, _⟩ := List.getElem?_eq_some_iff.1 h
  rw [List.getElem?_set_self hlt]

theorem mem_of_getElem?_eq {α : Type} {l : List α} {i : Nat} {a : α} (h : l[i]? = some a) : a ∈ l := by
  obtain ⟨hlt, rfl⟩ := List.getElem?_eq_some_iff.1 h
  exact List.getElem_mem hlt

/-! ### per-caller classification -/

def isCr (k : Nat) : Pc → Bool
  | .creating _ k' | .inCreate _ k' | .created _ k' _ => k' == k
  | _ => false

def upOf : Pc → Option (Nat × Nat)
  | .created pk _ (some v) => some (pk, v)
  | _ => none

def WfPc (km : Nat → Nat) : Pc → Prop
  | .creating pk k | .inCreate pk k | .created pk k _ => k = km pk
  | _ => True

theorem creators_eq (s : St) (k : Nat) : creators s k = (s.pcs.filter (isCr k)).length := by
  unfold creators
  congr 2

theorem unpublished_eq (s : St) : unpublished s = s.pcs.filterMap upOf := by
  unfold unpublished
  congr 1

theorem crs_set {l : List Pc} {i : Nat} {a : Pc} (h : l[i]? = some a) (b : Pc) (k : Nat) :
    ((l.set i b).filter (isCr k)).length + (if isCr k a then 1 else 0) =
      (l.filter (isCr k)).length + (if isCr k b then 1 else 0) := by
  obtain ⟨l1, l2, e1, e2⟩ := set_split h b
  rw [e2, e1]
  simp only [List.filter_append, List.filter_cons, List.length_append]
  cases isCr k a <;> cases isCr k b <;> simp <;> omega

theorem creators_upd {s t : St} {i : Nat} {a b : Pc} (h : s.pcs[i]? = some a)
    (hp : t.pcs = s.pcs.set i b) (k : Nat) :
    creators t k + (if isCr k a then 1 else 0) = creators s k + (if isCr k b then 1 else 0) := by
  rw [creators_eq, creators_eq, hp]
  exact crs_set h b k

theorem up_set {l : List Pc} {i : Nat} {a : Pc} (h : l[i]? = some a) (b : Pc) (x : Nat × Nat) :
    ((l.set i b).filterMap upOf).count x + (upOf a).toList.count x =
      (l.filterMap upOf).count x + (upOf b).toList.count x := by
  obtain ⟨l1, l2, e1, e2⟩ := set_split h b
  rw [e2, e1]
  simp only [List.filterMap_append, List.filterMap_cons, List.count_append]
  cases upOf a <;> cases upOf b <;> simp [List.count_cons] <;> omega

theorem unpublished_upd {s t : St} {i : Nat} {a b : Pc} (h : s.pcs[i]? = some a)
    (hp : t.pcs = s.pcs.set i b) (x : Nat × Nat) :
    (unpublished t).count x + (upOf a).toList.count x =
      (unpublished s).count x + (upOf b).toList.count x := by
  rw [unpublished_eq, unpublished_eq, hp]
  exact up_set h b x

theorem wf_set {km : Nat → Nat} {l : List Pc} (hw : ∀ p ∈ l, WfPc km p) (i : Nat) {b : Pc}
    (hb : WfPc km b) : ∀ p ∈ l.set i b, WfPc km p := by
  intro p hp
  rcases List.mem_or_eq_of_mem_set hp with hp | rfl
  · exact hw p hp
  · exact hb

/-! ### the invariant -/

structure Inv (cap : Nat) (km : Nat → Nat) (s : St) : Prop where
  cr_le : ∀ k, creators s k ≤ 1
  infl : ∀ k, k ∈ s.inflight ↔ creators s k = 1
  nd : s.inflight.Nodup
  wf : ∀ p ∈ s.pcs, WfPc km p
  nores : ∀ k, 1 ≤ creators s k → ∀ e ∈ s.items, e.k ≠ k
  len : s.items.length ≤ cap
  keys : s.items.Pairwise (fun a b => a.k ≠ b.k)
  acct : ∀ x, (createdOk s.log).count x =
    (deleted s.log).count x + (s.items.map pv).count x + (unpublished s).count x

/-- a step that changes neither the creator status of its caller nor the in-flight table -/
theorem Inv.quiet {cap : Nat} {km : Nat → Nat} {s t : St} (hI : Inv cap km s) {i : Nat} {a b : Pc}
    (h : s.pcs[i]? = some a) (hp : t.pcs = s.pcs.set i b) (hcr : ∀ k, isCr k b = isCr k a)
    (hwf : WfPc km b) (hin : t.inflight = s.inflight)
    (hnores : ∀ k, 1 ≤ creators s k → ∀ e ∈ t.items, e.k ≠ k)
    (hlen : t.items.length ≤ cap) (hkeys : t.items.Pairwise (fun a b => a.k ≠ b.k))
    (hacct : ∀ x, (createdOk t.log).count x =
      (deleted t.log).count x + (t.items.map pv).count x + (unpublished t).count x) :
    Inv cap km t := by
  have hc : ∀ k, creators t k = creators s k := by
    intro k
    have := creators_upd h hp k
    rw [hcr k] at this
    omega
  constructor
  · intro k; rw [hc]; exact hI.cr_le k
  · intro k; rw [hc, hin]; exact hI.infl k
  · rw [hin]; exact hI.nd
  · rw [hp]; exact wf_set hI.wf i hwf
  · intro k hk; rw [hc] at hk; exact hnores k hk
  · exact hlen
  · exact hkeys
  · exact hacct

/-! ### second critical section of GetOrCreate, successful creation -/

def pubItems (cap : Nat) (items : List Entry) (new : Entry) : List Entry × List Ev :=
  match items ++ [new] with
  | f :: _ =>
    if cap < (items ++ [new]).length then (eraseK (items ++ [new]) f.k, [.delete f.pk f.v])
    else (items ++ [new], [])
  | [] => (items ++ [new], [])

theorem pubItems_spec {cap : Nat} {items : List Entry} {new : Entry}
    (hk : items.Pairwise (fun a b => a.k ≠ b.k)) (hn : ∀ e ∈ items, e.k ≠ new.k) :
    (pubItems cap items new = (items ++ [new], []) ∧ items.length + 1 ≤ cap) ∨
    (∃ f rest, items ++ [new] = f :: rest ∧ pubItems cap items new = (rest, [.delete f.pk f.v])) := by
  have hk' : (items ++ [new]).Pairwise (fun a b => a.k ≠ b.k) := by
    refine List.pairwise_append.2 ⟨hk, by simp, ?_⟩
    intro x hx y hy
    simp only [List.mem_singleton] at hy; subst hy
    exact hn x hx
  unfold pubItems
  cases hit : items ++ [new] with
  | nil => simp at hit
  | cons f rest =>
    simp only
    rw [hit] at hk'
    by_cases hfull : cap < (f :: rest).length
    · right
      rw [if_pos hfull]
      refine ⟨f, rest, rfl, ?_⟩
      have hkk := List.pairwise_cons.1 hk'
      have hrest : rest.filter (fun y => y.k != f.k) = rest :=
        filter_ne_self (f := Entry.k) (fun y hy => (hkk.1 y hy).symm)
      simp [eraseK, hrest]
    · left
      rw [if_neg hfull]
      refine ⟨rfl, ?_⟩
      have : (items ++ [new]).length = (f :: rest).length := by rw [hit]
      simp only [List.length_append, List.length_cons, List.length_nil] at this hfull
      omega

/-- the target state of `Step.gocPublish` with a successful creation, in normal form -/
def pubSt (cap : Nat) (s : St) (i pk k v : Nat) : St :=
  setPc { s with
      inflight := s.inflight.filter (· != k)
      items := (pubItems cap s.items { k := k, pk := pk, v := v }).1
      log := s.log ++ (pubItems cap s.items { k := k, pk := pk, v := v }).2 } i (.done (.val v))

theorem publish_some_eq (cap : Nat) (s : St) (i pk k v : Nat) :
    (let s0 : St := { s with inflight := s.inflight.filter (· != k) }
      let items := s0.items ++ [{ k := k, pk := pk, v := v }]
      match items with
      | f :: _ =>
        if cap < items.length then
          setPc { s0 with items := eraseK items f.k, log := s0.log ++ [.delete f.pk f.v] } i (.done (.val v))
        else setPc { s0 with items := items } i (.done (.val v))
      | [] => setPc { s0 with items := items } i (.done (.val v))) =
    pubSt cap s i pk k v := by
  simp only [pubSt, pubItems]
  cases hit : s.items ++ [({ k := k, pk := pk, v := v } : Entry)] with
  | nil => simp at hit
  | cons f rest =>
    simp only
    split <;> simp

end Lru.Conc
